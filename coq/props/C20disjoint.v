(* C20 — Concurrent requests between two peers each retrieve completely: the part that HOLDS.
   Only statements; proofs are in GS.C20Tracker (link tracker, spec level: two responses interleaved),
   GS.C20Streams (each response = the honest stream of ReqExec), GS.C02Run (C02_holds_guarded with the final
   store; independence of the responder function; stored blocks outside the plan), GS.C20Disjoint.
   The general statement is false (finding C20-F1, props/C20.v: C20_refuted — the two plans share a block). *)
From Coq Require Import List NArith Bool.
From GS Require Import Base Ltree RecLoader ReqExec C02Online C02Prefix.
From GS Require Import LinkTracker Concurrent ConcurrentGen C20Streams C20Disjoint.
Import ListNotations.
Open Scope N_scope.

(* Two requests over plans with DISJOINT CID sets (any deduplication keys), in flight at once:
   for EVERY interleaving [order] of the two responder traversals' calls on the shared link tracker
   (the C19 model, LinkTracker.lrun), EITHER order of the two requestor executions ([first2]; the second one
   starts from the store the first one left), EVERY chunking of each response into messages and EVERY
   interleaving of their delivery with the executor's loads ([dv1], [dv2]): each request delivers the visits,
   reports the missing blocks and no other error, exactly as it would alone (= C02's reference over the
   initial stores).  Guards per request = those of C02_holds_guarded ([c02_guards]: wf_plan, trie_ordered,
   responder holds the root, not finding C02-F1); [agree R L]: a CID names the same bytes in both stores.
   [run_two_gen] = Concurrent.run_two with arbitrary delivery (ConcurrentGen.v). *)
Theorem C20_disjoint_guarded :
  forall (L R : store) (q1 q2 : creq) (order : list bool) (first2 : bool) (dv1 dv2 : delivery),
    agree R L ->
    c02_guards (cq_plan q1) L R = true -> c02_guards (cq_plan q2) L R = true ->
    disjoint_plans (cq_plan q1) (cq_plan q2) = true ->
    let r := run_two_gen L R q1 q2 order first2 dv1 dv2 in
    same_result (fst r) (solo L R q1) = true /\ same_result (snd r) (solo L R q2) = true.
Proof. exact c20_disjoint. Qed.
Print Assumptions C20_disjoint_guarded.

(* the same for the model the driver's cases are compared with (one message per response) *)
Theorem C20_disjoint_run_two :
  forall (L R : store) (q1 q2 : creq) (order : list bool) (first2 : bool),
    agree R L ->
    c02_guards (cq_plan q1) L R = true -> c02_guards (cq_plan q2) L R = true ->
    disjoint_plans (cq_plan q1) (cq_plan q2) = true ->
    same_result (fst (run_two L R q1 q2 order first2)) (solo L R q1) = true /\
    same_result (snd (run_two L R q1 q2 order first2)) (solo L R q2) = true.
Proof. exact c20_disjoint_run_two. Qed.
Print Assumptions C20_disjoint_run_two.

(* Responder side alone, for all plans, stores, skip values and interleavings: if the two requests are in
   DIFFERENT DEDUPLICATION SCOPES, or no link is traversed with a block by both, each request receives exactly
   the stream it would receive alone — ReqExec's honest stream for its own do-not-send-first-blocks value.
   (Through C19: the link-tracker model refines the in-progress-requests specification.) *)
Theorem C20_streams_independent :
  forall (R : store) (q1 q2 : creq) (k1 k2 : N) (order : list bool),
    (cq_dedup q1 <> cq_dedup q2 \/
     (forall l, In l (Wof (md_of (cq_plan q1) R)) -> In l (Wof (md_of (cq_plan q2) R)) -> False)) ->
    streams R q1 q2 k1 k2 order = (resp_items (cq_plan q1) R k1, resp_items (cq_plan q2) R k2).
Proof. exact c20_streams. Qed.
Print Assumptions C20_streams_independent.

(* Non-vacuity: the plans of C20_refuted with the shared block replaced (disjoint), under the interleaving and
   requestor order that lose a block in C20_refuted, each response cut into three messages: guards hold, both as
   alone; and the streams of the ORIGINAL (overlapping) plans in different dedup scopes are the solo streams. *)
Example C20_disjoint_nonvacuous :
  let t1 := LNode [] 0 (IVisit 0 (IChild (LNode [0] 2 (IVisit 1 INil)) (IChild (LNode [1] 3 (IVisit 2 INil)) INil))) in
  let t2 := LNode [] 1 (IVisit 3 (IChild (LNode [0] 4 (IVisit 4 INil)) INil)) in
  let t2' := LNode [] 1 (IVisit 3 (IChild (LNode [0] 2 (IVisit 4 INil)) INil)) in
  let R := store_of [0; 1; 2; 3; 4] in let L := store_of [1] in
  let q1 := {| cq_plan := t1; cq_dedup := None |} in let q2 := {| cq_plan := t2; cq_dedup := None |} in
  let order := [true; true; false; false; false; false] in
  let dv := {| dv_sizes := [1; 1]%nat; dv_sched := [0; 1]%nat |} in
  c02_guards t1 L R = true /\ c02_guards t2 L R = true /\ disjoint_plans t1 t2 = true /\ disjoint_plans t1 t2' = false /\
  o_visits (fst (run_two_gen L R q1 q2 order true dv dv)) = [0; 1; 2] /\
  o_visits (snd (run_two_gen L R q1 q2 order true dv dv)) = [3; 4] /\
  streams R q1 {| cq_plan := t2'; cq_dedup := Some 7 |} 0 1 (false :: order) = (resp_items t1 R 0, resp_items t2' R 1).
Proof. vm_compute. repeat split. Qed.
