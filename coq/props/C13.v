(* C13 — Allocator never exceeds its limits and accounts memory exactly.
   Only statements; proofs are in GS.AllocProofs. *)
From Coq Require Import List NArith Bool.
From GS Require Import Base Alloc AllocProofs.
Import ListNotations.
Open Scope N_scope.

(* For every limit configuration, every universe of observed peers and every finite script of
   allocate / release / release-peer operations with arbitrary amounts, the history the allocator
   model produces satisfies the executable property monitor [monitor_C13]: after every operation
   the reported per-peer and global totals equal what was granted minus what was (effectively)
   released, neither limit is exceeded, releasing a peer leaves it with nothing, and whenever
   everything granted has been released nothing is reported allocated or pending (for requests no
   larger than either limit).  The second conjunct: processPendingAllocations never runs out of the
   fuel the model gives it (its loop terminates). *)
Theorem C13_holds : forall mt mp univ ops,
  monitor_C13 mt mp univ ops (fst (run univ (init mt mp) ops)) = true /\
  snd (run univ (init mt mp) ops) = true.
Proof. exact c13_monitor. Qed.
Print Assumptions C13_holds.

(* The same limits as a statement about every reachable model state. *)
Theorem C13_limits : forall mt mp ops,
  let s := final (init mt mp) ops in
  total s <= mt /\ (forall p, alloc_of s p <= mp) /\ total s = psum (peers s).
Proof. exact c13_limits. Qed.
Print Assumptions C13_limits.

(* Non-vacuity: a script in which allocations wait, are granted later, and a peer is released. *)
Example C13_nonvacuous :
  let ops := [OAlloc 1 3; OAlloc 2 2; OAlloc 1 2; OAlloc 2 1; ORelease 1 3; OReleasePeer 2; ORelease 1 2] in
  let obsl := fst (run [1; 2] (init 4 3) ops) in
  map o_outs obsl = [[Granted 0]; []; []; []; [Granted 1; Granted 2]; [Failed 3]; []] /\
  map o_total obsl = [3; 3; 3; 3; 4; 2; 0] /\
  monitor_C13 4 3 [1; 2] ops obsl = true.
Proof. vm_compute. repeat split. Qed.

(* The monitor is not trivially true: the history the unrepaired allocator produced for the hostile
   amount 2^64-5 (granted at once, total wrapped to 5) is rejected, while the model makes it wait. *)
Example C13_overflow_history_rejected :
  let ops := [OAlloc 1 10; OAlloc 1 18446744073709551611] in
  monitor_C13 100 100 [1] ops
    [ Build_obs [Granted 0] false 10 0 0 [10]; Build_obs [Granted 1] false 5 0 0 [5] ] = false /\
  map o_outs (fst (run [1] (init 100 100) ops)) = [[Granted 0]; []].
Proof. vm_compute. split; reflexivity. Qed.
