(* C07 — Link budgets cap loaded blocks exactly.
   Only statements; proofs are in GS.LtreeProofs. *)
From Coq Require Import List NArith Bool.
From GS Require Import Base Ltree LtreeProofs.
Import ListNotations.
Open Scope N_scope.

(* For every traversal plan (every DAG shape, selector and codec), every way the links are answered
   (present, missing, hard error — any oracle with any state) and every budget n:                *)

(* at most n loads ever reach the store; *)
Theorem C07_cap : forall (S : Type) (ask : S -> path -> cid -> S * ans) t n s,
  real_loads (snd (fst (run_tree (budgeted ask) t (n, s)))) <= n.
Proof. intros. apply budget_cap. Qed.
Print Assumptions C07_cap.

(* if the traversal needs at most n loads the budget changes nothing (same loads, visits, outcome); *)
Theorem C07_enough : forall (S : Type) (ask : S -> path -> cid -> S * ans) t n s,
  loads (snd (fst (run_tree ask t s))) <= n ->
  snd (fst (run_tree (budgeted ask) t (n, s))) = snd (fst (run_tree ask t s)) /\
  snd (run_tree (budgeted ask) t (n, s)) = snd (run_tree ask t s).
Proof. intros. now apply budget_enough. Qed.
Print Assumptions C07_enough.

(* if it needs more, the traversal is the unbudgeted one up to and including its n-th load, then the
   (n+1)-th load is refused with the budget error and the traversal is aborted. *)
Theorem C07_exceeded : forall (S : Type) (ask : S -> path -> cid -> S * ans) t n s,
  n < loads (snd (fst (run_tree ask t s))) ->
  snd (fst (run_tree (budgeted ask) t (n, s))) = cut (N.to_nat n) (snd (fst (run_tree ask t s))) /\
  snd (run_tree (budgeted ask) t (n, s)) = false.
Proof. intros. now apply budget_exceeded. Qed.
Print Assumptions C07_exceeded.

(* a cut trace consists of exactly n loads followed by the refusal *)
Theorem C07_cut_shape : forall n evs, N.of_nat n < loads evs ->
  exists pre p c, cut n evs = pre ++ [ELoad p c (AErr ErrBudget)] /\ loads pre = N.of_nat n.
Proof. intros n evs H. destruct (cut_exact n evs H) as (_ & pre & p & c & E & L). eauto. Qed.

(* the budget that applies is the smaller non-zero of the global and the per-request one *)
Theorem C07_effective_budget : forall g r,
  let e := effective_budget g r in
  (g = 0 -> e = r) /\ (r = 0 -> e = g) /\ (0 < g -> 0 < r -> e = N.min g r).
Proof. exact effective_budget_spec. Qed.
Print Assumptions C07_effective_budget.

(* Non-vacuity: a 4-link plan (root, a missing child, a child with a grandchild) under budgets 1..4,
   with the store answering "missing" for cid 2. *)
Example C07_nonvacuous :
  let t := LNode [] 1 (IVisit 0 (IChild (LNode [0] 2 INil) (IChild (LNode [1] 3 (IVisit 0 (IChild (LNode [1;0] 4 (IVisit 0 INil)) INil))) INil))) in
  let ask := fun (s : unit) (p : path) (c : cid) => (s, if c =? 2 then ASkip else AOk) in
  loads (snd (fst (run_tree ask t tt))) = 4 /\
  snd (fst (run_tree (budgeted ask) t (1, tt))) = [ELoad [] 1 AOk; EVisit 0; ELoad [0] 2 (AErr ErrBudget)] /\
  snd (fst (run_tree (budgeted ask) t (3, tt))) =
    [ELoad [] 1 AOk; EVisit 0; ELoad [0] 2 ASkip; ELoad [1] 3 AOk; EVisit 0; ELoad [1; 0] 4 (AErr ErrBudget)] /\
  snd (fst (run_tree (budgeted ask) t (4, tt))) = snd (fst (run_tree ask t tt)) /\
  snd (run_tree (budgeted ask) t (4, tt)) = true.
Proof. vm_compute. repeat split. Qed.
