(* C16 — Every queued message is reported sent or failed exactly once.
   Only statements; proofs are in GS.MsgQueue16Proofs (model: GS.MsgQueue, GS.MsgQueue16).

   Histories are ALL sequences of labels of one peer's message queue: response-assembler transactions of
   any requests with any operations (LBuild), network outcomes of the call the queue goroutine is blocked
   in — connect or send succeeding or failing, which covers the peer that cannot be reached, retries
   running out and failed reconnects — (LNet), Shutdown() between labels (LShutdown) and while a build
   callback is running under the builders lock (LBuildShut), and either outcome of every select that has
   both "work" and "done" ready (LPick).  [grun ls] is the state after the history together with every
   event published to subscribers so far and every attachment made so far.

   A party is a request id (the key of Builder.subscribers); an attachment (r, (t, c)) records that a
   transaction of request r was built into the message with topic t, c telling whether the transaction
   carried any operation.  [proj r t E] is what party r has been told about message t, in order, as
   kinds 0 queued, 1 sent, 2 error, 3 closed.  [Complete k] := k = [0;1;3] \/ k = [0;2;3] \/ k = [2;3]
   (a message failed by the shutdown drain is not announced first). *)
From Coq Require Import List NArith Bool.
From GS Require Import Base MsgQueue MsgQueueProofs MsgQueue16 MsgQueue16Proofs MsgQueuePark MsgQueueParkProofs.
Import ListNotations.
Open Scope N_scope.

(* Safety (exactly once, never twice, nothing after the close): after every history, what any party has
   been told about any message is nothing, or one complete sequence (announced unless drained, then
   exactly one of sent / failed, then the close, and nothing more), or — only for the message the
   goroutine is sending right now and only for a party attached to it — the announcement alone. *)
Theorem C16_safety : forall ls r t,
  let g := grun ls in
  proj r t (g_ev g) = [] \/ Complete (proj r t (g_ev g)) \/
  (proj r t (g_ev g) = [0] /\ exists b, pend_of (g_s g) = Some (b, [0]) /\ b_topic b = t /\ In r (subs_of b)).
Proof. exact c16_safety. Qed.
Print Assumptions C16_safety.

(* Reports only go to parties that attached themselves to the message. *)
Theorem C16_only_attached : forall ls r t,
  proj r t (g_ev (grun ls)) <> [] -> exists c, In (r, (t, c)) (g_att (grun ls)).
Proof. exact c16_only_attached. Qed.
Print Assumptions C16_only_attached.

(* Completeness at quiescence: whenever the goroutine is parked idle or has exited, every attachment ever
   made by a transaction with operations has its complete report; the only exception is an attachment
   scrubbed because the same party was told, for an earlier message, that it failed (publishError closes
   the party's response stream and removes the request from every message still queued: that failure
   report is the report).  Nothing with content is left queued. *)
Theorem C16_complete_at_quiescence : forall ls r t,
  let g := grun ls in
  quiescent (g_s g) ->
  (In (r, (t, true)) (g_att g) ->
     Complete (proj r t (g_ev g)) \/
     (mem_req r (closed (g_s g)) = true /\ exists t', t' < t /\ In (EvError r t') (g_ev g))) /\
  AllEmpty (builders (g_s g)).
Proof. exact c16_complete. Qed.
Print Assumptions C16_complete_at_quiescence.

(* Progress (the "eventually" half, under the assumption that the network call the goroutine is blocked
   in returns): in every reachable state that is not quiescent exactly one kind of non-environment label is
   pending — the outcome of the blocked connect / send, or the choice of an ambiguous select — and
   taking it, whichever way it goes, strictly decreases [rank] (messages still to resolve, weighted by the
   retry budget).  Together with C16_complete_at_quiescence: in every run in which the network calls
   return, every queued message is eventually reported. *)
Theorem C16_progress : forall ls, let s := g_s (grun ls) in
  ~ quiescent s ->
  (ph s = PSelect /\ forall tw, (rank (fst (qstep16 s (L16 (LPick tw)))) < rank s)%nat) \/
  (((exists b i x, ph s = PConnect b i x) \/ (exists b i, ph s = PSend b i)) /\
   forall ok, (rank (fst (qstep16 s (L16 (LNet ok)))) < rank s)%nat).
Proof. exact c16_progress. Qed.
Print Assumptions C16_progress.

(* The executable monitor that is evaluated on the implementation's observations accepts every history of
   the model, for every universe of observed requests and every way the harness resolves selects. *)
Theorem C16_monitor : forall univ ls,
  mon16_hist univ (map fst (q_run16 univ mq_new ls)) (map snd (q_run16 univ mq_new ls)) = true.
Proof. exact c16_monitor. Qed.
Print Assumptions C16_monitor.

(* Reservations that WAIT in the allocator (GS.MsgQueuePark): the allocator has a per-peer limit, a
   transaction that cannot be granted at once parks in AllocateAndBuildMessage while the queue sends, fails,
   shuts down, drains and exits; the allocator answers it when memory is released (granted) or when the queue
   exits (error, ignored by the caller), and the caller takes the answer at any later point (PDeliver) and goes
   on to buildMessage.  Every such history, for every limit, acts on the queue as a history of the model above
   — so C16_safety, C16_only_attached, C16_complete_at_quiescence and C16_progress hold of it verbatim (the
   attachment of a parked transaction is made when its build finally runs, if it does). *)
Theorem C16_parked_refines : forall limit ls, exists bls, p_g (prun gstep limit ls) = grun bls.
Proof. exact park_refines. Qed.
Print Assumptions C16_parked_refines.

(* The clause "the peer's queue shuts down while data is being queued", for a caller parked in the allocator:
   an answer taken after Shutdown() (the goroutine still in a network call, or gone) builds nothing, attaches
   nobody and publishes nothing — there is no message that could be left unreported. *)
Theorem C16_parked_after_shutdown : forall limit ls r ops c rest,
  let s := prun gstep limit ls in
  p_ready s = ((r, ops), c) :: rest -> done (g_s (p_g s)) = true -> ph (g_s (p_g s)) <> PIdle ->
  let s' := pstep gstep s PDeliver in
  builders (g_s (p_g s')) = builders (g_s (p_g s)) /\ g_att (p_g s') = g_att (p_g s) /\ g_ev (p_g s') = g_ev (p_g s) /\
  alloc (g_s (p_g s')) = alloc (g_s (p_g s)).
Proof. exact c16_parked_after_shutdown. Qed.
Print Assumptions C16_parked_after_shutdown.

(* the monitor accepts every model history with parked reservations (what d_mq16's cases are compared with) *)
Theorem C16_parked_monitor : forall univ limit ls,
  let run := p_run univ (p_new limit) ls in
  mon16_hist univ (map po_obs run) (map po_att run) = true.
Proof. exact c16_parked_monitor. Qed.
Print Assumptions C16_parked_monitor.

(* Non-vacuity.  While the message of request 9 is in flight, requests 1, 2 and 3 share the next message
   (topic 1: three subscribers) and requests 1 and 4 the one after (topic 2).  Message 0 is sent; the send
   of message 1 fails and so does the reconnect: its three parties are each told queued / error / closed
   once; request 1's attachment to message 2 is scrubbed unreported (excused by its error on topic 1);
   message 2 is sent for request 4 after a new connect; then data of request 5 is being queued while
   Shutdown() lands: the drain reports it failed, without announcing it. *)
Example C16_history :
  let ls := [L16 (LBuild 9 [TBlock 9 5 true]);
             L16 (LBuild 1 [TBlock 1 300000 true]); L16 (LBuild 2 [TBlock 2 10 true]); L16 (LBuild 3 [TStatus 20]);
             L16 (LBuild 1 [TBlock 3 300000 true]); L16 (LBuild 4 [TBlock 4 7 true]);
             L16 (LNet true); L16 (LNet true); L16 (LNet false); L16 (LNet false); L16 (LNet true); L16 (LNet true);
             LBuildShut 5 [TBlock 5 9 true]] in
  let g := grun ls in
  (map (fun rt => proj (fst rt) (snd rt) (g_ev g)) [(9, 0); (1, 1); (2, 1); (3, 1); (1, 2); (4, 2); (5, 3)],
   g_att g, phase_code (ph (g_s g))) =
  ([[0; 1; 3]; [0; 2; 3]; [0; 2; 3]; [0; 2; 3]; []; [0; 1; 3]; [2; 3]],
   [(9, (0, true)); (1, (1, true)); (2, (1, true)); (3, (1, true)); (1, (2, true)); (4, (2, true)); (5, (3, true))], 4).
Proof. vm_compute. reflexivity. Qed.

(* the monitor rejects: two terminal reports; a report after the close; an attachment with operations left
   unreported at quiescence; a report for a message the party never attached to; Sent without Queued *)
Example C16_monitor_rejects :
  mon16_req true [(0, 0); (1, 0); (2, 0); (3, 0)] [(0, true)] = false /\
  mon16_req true [(0, 0); (1, 0); (3, 0); (2, 0)] [(0, true)] = false /\
  mon16_req true [] [(0, true)] = false /\
  mon16_req true [(0, 1); (1, 1); (3, 1)] [(0, false)] = false /\
  mon16_req true [(1, 0); (3, 0)] [(0, true)] = false /\
  mon16_req true [(0, 0); (2, 0); (3, 0)] [(0, true); (1, true)] = true.
Proof. vm_compute. repeat split; reflexivity. Qed.
