(* C06 — Pausing and resuming an exchange does not change its result (requestor side), general form: any
   responder that holds the root.  Only statements; proofs are in GS.C06Trie / GS.C06Trie2 (the traversal record
   with failed loads and loads below links the responder lacks: what the Verifier reaches, how it grows),
   GS.C06Again (going online again from any offline state), GS.C06Gen (one executor iteration in every phase),
   GS.C06GenSim (plan induction for the paused executor), on top of the C02 development. *)
From Coq Require Import List NArith Bool.
From GS Require Import Base Ltree RecLoader ReqExec C02Online C02Prefix C02Contig PauseExec C06After C06Guard C06GenSim.
Import ListNotations.
Open Scope N_scope.

(* For EVERY well-formed contiguous plan, EVERY pair of stores agreeing on the bytes of common CIDs with the root
   held by the responder (which may lack any other blocks), EVERY chunking of the responses and EVERY delivery
   schedule, EVERY set of pauses (any block indices, before or after the request was sent, any number), each
   resumed after the in-flight messages of the cancelled response are gone ([drained]; otherwise finding C06-F1):
   the paused and resumed request delivers the same visits, reports the same missing blocks and no other error,
   and ends with the same store as the reference (= the request that was never paused, C02).
   Guard [no_local_below_missing t L R] (executable, C06Guard.v): in the reference traversal no link below a link
   the responder lacks is loaded from the local store.  It is needed (C06_guard_needed below): the resumed
   request's do-not-send-first-blocks value counts such loads, the new response has no entries for them.
   It implies the C02 guard no_F1; with a responder that holds the whole plan it is vacuous
   (C06_pause_after_send_complete_partial). *)
Theorem C06_pause_after_send_guarded :
  forall t L R sizes sched pauses,
    wf_plan t = true -> contiguous t = true -> agree R L -> aget (root_cid t) R <> None ->
    no_local_below_missing t L R = true -> drained pauses = true ->
    paused_outcome t L R sizes sched pauses = ref_outcome t L R.
Proof. exact c06_after_general. Qed.
Print Assumptions C06_pause_after_send_guarded.

Definition c06_plan7 : ltree :=
  LNode [] 0 (IVisit 0 (IChild (LNode [0] 1 (IVisit 1 (IChild (LNode [0; 0] 2 (IVisit 2 INil)) (IChild (LNode [0; 1] 3 (IVisit 3 INil)) INil))))
                (IChild (LNode [1; 5] 4 (IVisit 4 (IChild (LNode [1; 5; 0] 2 (IVisit 5 INil)) INil)))
                (IChild (LNode [2] 6 (IVisit 6 INil)) INil)))).

(* Non-vacuity: the responder lacks blocks 1 and 4 (1 is held by the requestor: loaded locally, its children
   missing on both sides; 4 is missing on both sides); pauses after blocks 1 and 2; three chunkings/schedules;
   the second run sends three requests. *)
Example C06_general_nonvacuous :
  let L := store_of [0; 1] in let R := store_of [0; 2; 3; 6] in
  let ps := [Build_pause 1 0; Build_pause 2 0] in
  wf_plan c06_plan7 = true /\ contiguous c06_plan7 = true /\ no_local_below_missing c06_plan7 L R = true /\
  ref_outcome c06_plan7 L R = Build_outcome [0; 1; 6] [([0; 0], 2); ([0; 1], 3); ([1; 5], 4)] 0 [0; 1; 6] true /\
  paused_outcome c06_plan7 L R [] [] ps = ref_outcome c06_plan7 L R /\
  paused_outcome c06_plan7 L R (repeat 1%nat 20) [] ps = ref_outcome c06_plan7 L R /\
  paused_outcome c06_plan7 L R [2; 2]%nat (repeat 9%nat 20) ps = ref_outcome c06_plan7 L R.
Proof. vm_compute. repeat split. Qed.

(* The guard is needed: the requestor holds 4 (the responder does not), block 2 is fetched early and then
   loaded locally below 4; a pause after block 3 under a chunked delivery loses block 6. *)
Example C06_guard_needed :
  let L := store_of [4] in let R := store_of [0; 1; 2; 3; 6] in
  wf_plan c06_plan7 = true /\ contiguous c06_plan7 = true /\ no_local_below_missing c06_plan7 L R = false /\
  outcome_eqb (paused_outcome c06_plan7 L R [1; 2; 0; 1]%nat [0; 1; 0; 2]%nat [Build_pause 3 0]) (ref_outcome c06_plan7 L R) = false /\
  outcome_eqb (paused_outcome c06_plan7 L R [1; 2; 0; 1]%nat [0; 1; 0; 2]%nat []) (ref_outcome c06_plan7 L R) = true.
Proof. vm_compute. repeat split. Qed.
