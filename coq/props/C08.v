(* C08 — Default validation rejects unbounded or too-deep recursive selectors.
   Only statements; proofs are in GS.SelWalkProofs.  [max_depth_spec] and [default_max_depth] are
   regenerated from /repo (selectorvalidator.go init(), impl/graphsync.go) on every run. *)
From Coq Require Import List String ZArith Bool.
From GS Require Import SelWalk SelWalkProofs.
From GSgen Require Import GenMaxDepthSel.
Import ListNotations.
Open Scope string_scope.
Open Scope list_scope.

(* For every selector spec AST — every nesting of matcher, recursive-edge, explore-all, -fields,
   -index, -range, -union, -recursive (any limit, with or without stop-at) and interpret-as; this
   includes every spec ParseSelector accepts — and every accepted depth, the validator (the
   regenerated walking selector run under the modelled WalkMatching, with the visitor of
   ValidateMaxRecursionDepth) accepts the rendered spec iff every recursion limit occurring anywhere
   in it is a depth limit not above the accepted depth. *)
Theorem C08_holds : forall maxd s,
  validate max_depth_spec maxd (to_node s) = all_limits_le maxd s.
Proof. exact c08_validate. Qed.
Print Assumptions C08_holds.

(* The default configuration uses depth 100. *)
Theorem C08_default_depth : default_max_depth = 100%Z.
Proof. reflexivity. Qed.

(* The walker reaches exactly the limit nodes, in order. *)
Theorem C08_walk_finds_limits : forall s, walk W (to_node s) = map limit_node (limits s).
Proof. exact walk_finds_limits. Qed.
Print Assumptions C08_walk_finds_limits.

(* Non-vacuity: accepted and rejected specs, including the interpret-as wrapper that the unrepaired
   validator let through. *)
Example C08_examples :
  let rec_all lim := SRec lim (SAll SEdge) false in
  validate max_depth_spec 100 (to_node (rec_all (Some 100%Z))) = true /\
  validate max_depth_spec 100 (to_node (rec_all (Some 101%Z))) = false /\
  validate max_depth_spec 100 (to_node (rec_all None)) = false /\
  validate max_depth_spec 100 (to_node (SInterp "unixfs" (rec_all None))) = false /\
  validate max_depth_spec 100 (to_node (SUnion [SMatcher; SFields [("a", SInterp "unixfs" (rec_all (Some 7%Z)))]])) = true /\
  validate max_depth_spec 100 (to_node (rec_all (Some 5%Z))) = all_limits_le 100 (rec_all (Some 5%Z)).
Proof. vm_compute. repeat split. Qed.
