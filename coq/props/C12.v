(* C12 — Hostile bytes never crash a node or yield unverified blocks.
   Only statements; proofs are in GS.CborProofs, GS.MsgCodecProofs.
   The models are total Gallina functions, so "handle_stream returns" is definitional and says nothing
   about Go panics: that half of the property (no crash, other streams keep being served) is observed on
   the real handleNewStream by the driver on every run and is labelled tested, not proved. *)
From Coq Require Import List NArith ZArith Bool String.
From GS Require Import Base Varint VarintProofs Cbor CborProofs MsgCodec MsgCodecProofs MsgCodecWf.
Import ListNotations.
Open Scope list_scope.
Open Scope N_scope.

(* The decoder never needs more fuel than it is given: on EVERY byte string the DAG-CBOR decoder, the
   frame decoder and FromNet answer "message", "clean end of stream" or "error" — never "out of fuel". *)
Theorem C12_decode_total : forall bs, decode bs <> DFuel.
Proof. exact decode_total. Qed.
Print Assumptions C12_decode_total.
Theorem C12_from_net_total : forall H bs, from_net H bs <> NFuel.
Proof. exact from_net_total. Qed.
Print Assumptions C12_from_net_total.

(* Whatever decodes is delivered with every request / response id 16 bytes long and every block keyed
   by the CID computed (Prefix.Sum, for whatever hash function H) from the prefix that accompanied it and
   its own bytes — for every frame, i.e. for every byte string. *)
Theorem C12_delivered : forall H f m, from_frame H f = DOk m -> delivered_wf H m.
Proof. exact from_frame_delivered. Qed.
Print Assumptions C12_delivered.

(* The stream handler on EVERY byte string: a (possibly empty) sequence of delivered messages, each as
   above, and then either nothing (the peer closed the stream at a message boundary) or exactly one stream
   reset followed by exactly one ReceiveError — and nothing after that. *)
Theorem C12_stream_contract : forall H bs, stream_ok H (handle_stream H bs).
Proof. exact handle_stream_contract. Qed.
Print Assumptions C12_stream_contract.

(* A frame that cannot be read (bad or over-long varint, length above MessageSizeMax, body shorter than
   announced — including no body at all) or cannot be decoded (any CBOR, schema, request-id or CID-prefix
   error) is answered by Reset + one ReceiveError and the handler returns; everything in front of it on
   the stream has been delivered. *)
Theorem C12_malformed : forall H f bs,
  from_net H bs = NErr -> handle_stream_fuel (S f) H bs = [EvReset; EvError].
Proof. exact handle_stream_malformed. Qed.
Print Assumptions C12_malformed.
Theorem C12_stream_step : forall H bs m rest,
  from_net H bs = NMsg m rest -> handle_stream H bs = EvMsg m :: handle_stream H rest.
Proof. exact handle_stream_step. Qed.
Print Assumptions C12_stream_step.

(* decode_some_wf, the part that is proved: everything that decodes satisfies the semantic clauses of
   C11's wf_msg — request ids 16 bytes and distinct, priority within int32, selector not Null, a cancel
   carries nothing and an update only extensions; response ids 16 bytes and distinct, status one of the
   schema's codes; blocks self-keyed and distinct.
   FULL statement (not proved): from_frame H f = DOk m -> wf_msg H m, i.e. additionally the byte-level and
   resource clauses (wf_node (msg_node m), re-encoding within the frame / depth / budget limits). *)
Theorem C12_decode_some_wf_partial : forall H f m, from_frame H f = DOk m -> wf_decoded H m.
Proof. exact decode_some_wf_partial. Qed.
Print Assumptions C12_decode_some_wf_partial.

(* Non-vacuity and the boundary cases of the framing, by computation (H: identity hash only). *)
Definition ex_H : hashfn := fun code len d => if code =? 0 then Some (0 :: blen d :: d) else None.
(* {"gs2": {}} is a message; then a clean end *)
Example C12_empty_message : handle_stream ex_H (hx "06a163677332a0") = [EvMsg (mk_msg [] [] [])].
Proof. vm_compute. reflexivity. Qed.
(* a complete frame whose CBOR stops at an item boundary (map of 2 with one entry): error, not a clean end *)
Example C12_truncated_inside_frame : handle_stream ex_H (hx "06a263677332a0") = [EvReset; EvError].
Proof. vm_compute. reflexivity. Qed.
(* length prefix with nothing behind it; zero-length frame; over-long varint; oversize length *)
Example C12_prefix_only : handle_stream ex_H (hx "05") = [EvReset; EvError].
Proof. vm_compute. reflexivity. Qed.
Example C12_zero_frame : handle_stream ex_H (hx "00") = [EvReset; EvError].
Proof. vm_compute. reflexivity. Qed.
Example C12_overlong_varint : handle_stream ex_H (hx "8600a163677332a0") = [EvReset; EvError].
Proof. vm_compute. reflexivity. Qed.
Example C12_oversize : from_net ex_H (hx "81808002") = NErr.
Proof. vm_compute. reflexivity. Qed.
Example C12_empty_stream : handle_stream ex_H [] = [].
Proof. vm_compute. reflexivity. Qed.
(* a good message followed by a bad one: the first is delivered, then reset + error *)
Example C12_good_then_bad :
  handle_stream ex_H (hx "06a163677332a0" ++ hx "02a1ff") = [EvMsg (mk_msg [] [] []); EvReset; EvError].
Proof. vm_compute. reflexivity. Qed.
(* a 15-byte request id, an unknown request type, a block whose prefix names an unknown hash: all refused *)
Example C12_bad_id : from_net ex_H
  (hx "26a163677332a163726571" ++ hx "81a2626964" ++ hx "4f000102030405060708090a0b0c0d0e" ++ hx "6474797065" ++ hx "6163") = NErr.
Proof. vm_compute. reflexivity. Qed.
Example C12_block_keyed : from_net ex_H (hx "15a163677332a163626c6b81824401550003" ++ hx "43070809")
  = NMsg (mk_msg [] [] [([1; 85; 0; 3; 7; 8; 9], [7; 8; 9])]) [].
Proof. vm_compute. reflexivity. Qed.
Example C12_block_unknown_hash : from_net ex_H (hx "15a163677332a163626c6b81824401559903" ++ hx "43070809") = NErr.
Proof. vm_compute. reflexivity. Qed.
(* the same request with a 16-byte id is accepted *)
Example C12_good_id : from_net ex_H
  (hx "27a163677332a163726571" ++ hx "81a2626964" ++ hx "50000102030405060708090a0b0c0d0e0f" ++ hx "6474797065" ++ hx "6163")
  = NMsg (mk_msg [mk_req (hx "000102030405060708090a0b0c0d0e0f") RCancel 0 None None []] [] []) [].
Proof. vm_compute. reflexivity. Qed.
