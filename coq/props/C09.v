(* C09 — Responses from other peers cannot affect a request.
   Only statements; the model is GS.ReqMgrMsg (requestmanager/server.go processResponses and the other
   run-loop handlers, as repaired by the fix commit recorded in known_findings.d/C09.json), the proofs
   are in GS.ReqMgrMsgProofs. *)
From Coq Require Import List NArith Bool.
From GS Require Import Base ReqMgrMsg ReqMgrMsgProofs ReqMgrMsgMonitor.
Import ListNotations.
Open Scope N_scope.

(* Frame.  For EVERY response-hook oracle, EVERY state of the request table, EVERY message (any number
   of responses with any ids, status codes, metadata, extensions; any blocks) and every request r that
   is in the table and was sent to a peer other than the sender of the message:
   - r's table entry is unchanged: state, terminal error, cancelled flag, last-response record, and the
     loader (accepting flag and the queue of ingested (link, action, block) items);
   - no event of the step carries r's id: no response hook is called with a response for r, no
     message (update or cancel) is sent for r, r's context is not cancelled and r is not terminated
     (nothing is delivered on its channels, they are not closed);
   - and on a consistent table the step does not dereference nil when the message's request ids are
     distinct (as they are in a decoded message, which keeps responses in a map keyed by id).
   What the executor would hand to the block hooks for r (owner, last response, next queued item) is a
   function of the entry, hence unchanged too (C09_block_hook_args). *)
Theorem C09_holds : forall (hook : peer -> resp -> hres) (s : rmstate) (m : msg) (r : rid) (e : entry),
  aget r (rm_tab s) = Some e -> e_peer e <> m_from m ->
  aget r (rm_tab (fst (process_responses hook s m))) = Some e /\
  (forall ev, In ev (snd (process_responses hook s m)) -> ev_id ev <> r) /\
  (tab_ok (rm_tab s) -> msg_wfb m = true ->
   rm_nilderef (fst (process_responses hook s m)) = rm_nilderef s).
Proof. exact c09_frame. Qed.
Print Assumptions C09_holds.

Theorem C09_block_hook_args : forall hook s m r e,
  aget r (rm_tab s) = Some e -> e_peer e <> m_from m ->
  option_map block_hook_args (aget r (rm_tab (fst (process_responses hook s m)))) = Some (block_hook_args e).
Proof. exact c09_block_hook_args. Qed.
Print Assumptions C09_block_hook_args.

(* Interleavings.  For every hook oracle, every state and EVERY sequence of run-loop labels (messages
   from any peer, new requests, the executor picking a request up / going online / pausing / releasing,
   unpause, cancel, update — in any order, for any ids), and every request id r: r's final table entry
   and the sub-sequence of events carrying r's id are exactly those of the same sequence with every
   message removed that, when it arrives, comes from a peer other than the one r was sent to. *)
Theorem C09_projection : forall (hook : peer -> resp -> hres) (r : rid) (lbs : list label) (s : rmstate),
  aget r (rm_tab (fst (run hook s lbs))) = aget r (rm_tab (fst (run_without_foreign hook r s lbs))) /\
  events_of r (snd (run hook s lbs)) = events_of r (snd (run_without_foreign hook r s lbs)).
Proof. exact run_projection. Qed.
Print Assumptions C09_projection.

(* Requests are independent altogether: what a label does to r's entry and which events it emits for r
   is a function of r's entry and the label alone. *)
Theorem C09_locality : forall (hook : peer -> resp -> hres) (r : rid) (s1 s2 : rmstate) (lb : label),
  aget r (rm_tab s1) = aget r (rm_tab s2) ->
  aget r (rm_tab (fst (step hook s1 lb))) = aget r (rm_tab (fst (step hook s2 lb))) /\
  events_of r (snd (step hook s1 lb)) = events_of r (snd (step hook s2 lb)).
Proof. exact c09_locality. Qed.
Print Assumptions C09_locality.

(* The nil-dereference flag of the model is never raised on histories whose messages have distinct ids. *)
Theorem C09_no_panic : forall (hook : peer -> resp -> hres) (lbs : list label),
  (forall m, In (LMsg m) lbs -> msg_wfb m = true) -> rm_nilderef (fst (run hook empty_rm lbs)) = false.
Proof. exact c09_no_panic. Qed.
Print Assumptions C09_no_panic.

(* The executable monitor MON09 ([rcase_mon], the predicate evaluated on the implementation's observations
   in every run) accepts EVERY history of the model: for every hook oracle and every label sequence,
   written in the driver's observation format ([model_obs]: visible events and the table as an update
   list after every label), together with the run of the same labels from which every response whose
   sender is not the owner of its request has been removed ([clean_label om], om = any map from ids to
   owners that agrees with the sequence's LNew labels — the driver takes the first LNew of each id):
   (1) the frame holds at every message, (2) every hook call is made for a request of the calling peer,
   (3) the two runs' observations are identical. *)
Theorem C09_monitor : forall (hook : peer -> resp -> hres) (om : rid -> option peer) (rows : list hrow) (lbs : list label),
  (forall id p, In (LNew id p) lbs -> om id = Some p) ->
  rcase_mon (mk_rcase rows lbs (model_obs hook empty_rm lbs) (model_obs hook empty_rm (map (clean_label om) lbs))) = true.
Proof. exact c09_monitor. Qed.
Print Assumptions C09_monitor.

(* Positive half (the frame is not vacuous): the owner's response reaches the response hooks, and —
   hook content, loader accepting, non-terminal status — becomes the last response and its metadata
   and blocks are queued in the loader. *)
Theorem C09_owner_reaches_hook : forall hook s m r e x,
  aget r (rm_tab s) = Some e -> e_peer e = m_from m -> restrict r (m_resps m) = [x] ->
  In (EvHook (m_from m) x) (snd (process_responses hook s m)).
Proof. exact owner_response_reaches_hook. Qed.
Print Assumptions C09_owner_reaches_hook.

Theorem C09_owner_is_ingested : forall hook s m r e x ld,
  aget r (rm_tab s) = Some e -> e_peer e = m_from m -> restrict r (m_resps m) = [x] ->
  h_err (hook (m_from m) x) = None -> st_is_terminal (r_status x) = false ->
  e_loader e = Some ld -> l_open ld = true -> r_md x <> [] ->
  aget r (rm_tab (fst (process_responses hook s m))) =
    Some (mk_entry (e_peer e) (e_state e) (e_term e) (e_ctx_done e) x
                   (Some (mk_loader true (l_queue ld ++ ingest_items (r_md x) [] (blk_map (m_blocks m)))))).
Proof. exact owner_response_is_ingested. Qed.
Print Assumptions C09_owner_is_ingested.

(* ---------- examples (vm_compute) ---------- *)
(* request 1 to peer 1, running and online.  Hooks: an update extension for anything peer 1 says about
   request 1 with status 14, an error for anything peer 2 says about it. *)
Definition ex_hooks := hook_of [mk_hrow 1 1 14 [7] None; mk_hrow 2 1 14 [8] (Some 100); mk_hrow 2 1 31 [] (Some 101)].
Definition ex_start := [LNew 1 1; LGetTask 1; LOnline 1].
Definition ex_foreign := LMsg (mk_msg 2 [mk_resp 1 14 [(5, 0)] [3]; mk_resp 1 31 [] []] [(5, 4)]).
Definition ex_genuine := LMsg (mk_msg 1 [mk_resp 1 14 [(5, 0); (6, 2)] [3]] [(5, 4)]).

(* the foreign message (even with duplicate ids, a failure status and hook rows that would cancel)
   leaves the table as it was and produces no event at all *)
Example C09_foreign_is_ignored :
  let s := fst (run ex_hooks empty_rm ex_start) in
  step ex_hooks s ex_foreign = (mk_rm (rm_tab s) false, []).
Proof. vm_compute. reflexivity. Qed.

(* the genuine message reaches the hook, an update is sent, the response is recorded and ingested *)
Example C09_genuine_is_processed :
  let s := fst (run ex_hooks empty_rm ex_start) in
  step ex_hooks s ex_genuine =
    (mk_rm [(1, mk_entry 1 Running None false (mk_resp 1 14 [(5, 0); (6, 2)] [3])
                         (Some (mk_loader true [mk_qitem 5 0 (Some 4); mk_qitem 6 2 None])))] false,
     [EvHook 1 (mk_resp 1 14 [(5, 0); (6, 2)] [3]); EvSend 1 1 (KUpdate [7])]).
Proof. vm_compute. reflexivity. Qed.

(* the same history with and without the foreign messages *)
Example C09_projection_example :
  let lbs := ex_start ++ [ex_foreign; ex_genuine; ex_foreign; LRelease 1 true; ex_foreign; LUnpause 1] in
  run ex_hooks empty_rm lbs = run_without_foreign ex_hooks 1 empty_rm lbs /\
  length (snd (run ex_hooks empty_rm lbs)) = 7%nat.
Proof. vm_compute. split; reflexivity. Qed.

(* the model of the code BEFORE the repair (hooks first, then the filter) is refuted by the same
   message: the hook is called for request 1 by peer 2, an update goes out and the request is cancelled *)
Example C09_refuted_before_fix :
  let s := fst (run ex_hooks empty_rm ex_start) in
  let m := mk_msg 2 [mk_resp 1 14 [] []] [] in
  snd (process_responses_before_fix ex_hooks s m) =
    [EvHook 2 (mk_resp 1 14 [] []); EvSend 2 1 (KUpdate [8]); EvSend 1 1 KCancel; EvCtxCancel 1] /\
  option_map e_term (aget 1 (rm_tab (fst (process_responses_before_fix ex_hooks s m)))) = Some (Some 100).
Proof. vm_compute. split; reflexivity. Qed.

(* the monitor rejects an observation in which a foreign message changed the victim's entry *)
Example C09_monitor_rejects :
  rcase_mon (mk_rcase [] [LNew 1 1; LMsg (mk_msg 2 [mk_resp 1 14 [] []] [])]
      [mk_sobs [EvPush 1 1] [(1, Some (fresh_entry 1 1))];
       mk_sobs [EvHook 2 (mk_resp 1 14 [] [])] [(1, Some (mk_entry 1 Queued None false (mk_resp 1 14 [] []) None))]]
      [mk_sobs [EvPush 1 1] [(1, Some (fresh_entry 1 1))]; mk_sobs [] []]) = false.
Proof. vm_compute. reflexivity. Qed.

(* the model's own observation of the example history, foreign messages included, is accepted, and the
   cleaned labels differ from the original ones (the foreign responses are gone) *)
Example C09_monitor_example :
  let lbs := ex_start ++ [ex_foreign; ex_genuine; ex_foreign; LRelease 1 true; ex_foreign; LUnpause 1] in
  let om := fun id : rid => if id =? 1 then Some 1 else None in
  rcase_mon (mk_rcase [] lbs (model_obs ex_hooks empty_rm lbs) (model_obs ex_hooks empty_rm (map (clean_label om) lbs))) = true /\
  nth 3 (map (clean_label om) lbs) (LGetTask 0) = LMsg (mk_msg 2 [] [(5, 4)]).
Proof. vm_compute. split; reflexivity. Qed.
