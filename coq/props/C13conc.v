(* C13 / C14 with concurrent callers — statements only; proofs are in GS.AllocConcProofs.

   Every exported method of allocator.Allocator holds allocLk for its whole body, so calls issued by
   concurrent callers take effect as some sequence of the atomic steps of Alloc.step.  A grouped script
   (AllocConc.gstep) has steps that are one call or a group of calls issued at once; [glin] is the
   set of its linearised runs: each step's calls run one after the other by Alloc.step in SOME order.
   The harness drives the real allocator with overlapping calls and Coq evaluates the executable
   acceptor [acc] on what was observed after every step (result channels by harness ticket, error flag
   of each call, Stats, per-peer totals). *)
From Coq Require Import List NArith Bool Permutation.
From GS Require Import Base Alloc AllocProofs AllocConc AllocConcProofs.
Import ListNotations.
Open Scope N_scope.

(* (a) Soundness of the acceptor.  If it accepts the observations of a grouped script, there is a
   linearisation — a plain op list obtained by choosing a permutation of the calls of every step —
   whose run from the initial state by Alloc.step produces exactly those observations (outcomes named
   by the harness's tickets), never runs out of fuel, and whose final state satisfies the C13 limits
   invariant and the C14 no-lost-wake-up invariant. *)
Theorem C13conc_acceptor_sound : forall univ mt mp script obsl,
  acc univ [(init mt mp, [])] 0 script obsl = true ->
  exists lin, linearises script lin /\
    glin univ (init mt mp) [] 0 script obsl lin (final (init mt mp) lin) /\
    let s := final (init mt mp) lin in
    total s <= mt /\ (forall p, alloc_of s p <= mp) /\ total s = psum (peers s) /\ StableSt s.
Proof. exact acc_explained. Qed.
Print Assumptions C13conc_acceptor_sound.

(* what a linearised run is, in terms of the sequential model: its op list is a per-step permutation of
   the script, its final state is Alloc.final of that list, fuel never runs out, one observation per step *)
Theorem C13conc_linearised_run_is_plain_run : forall univ s r nt script obsl lin sf,
  glin univ s r nt script obsl lin sf ->
  linearises script lin /\ final s lin = sf /\ snd (run univ s lin) = true /\ length obsl = length script.
Proof. exact glin_linearises. Qed.
Print Assumptions C13conc_linearised_run_is_plain_run.

(* (b) Every state reachable through groups — after a step, or in the middle of a group after any
   prefix of any order of its calls — satisfies the C13 limits/accounting invariant ... *)
Theorem C13conc_limits : forall mt mp s, greach mt mp s ->
  total s <= mt /\ (forall p, alloc_of s p <= mp) /\ total s = psum (peers s).
Proof. exact greach_limits. Qed.
Print Assumptions C13conc_limits.

(* ... and the C14 no-lost-wake-up invariant. *)
Theorem C14conc_no_lost_wakeup : forall mt mp s, greach mt mp s -> StableSt s.
Proof. exact greach_stable. Qed.
Print Assumptions C14conc_no_lost_wakeup.

(* the final state of a linearised run is such a state *)
Theorem C13conc_linearised_run_reaches : forall univ mt mp s r nt script obsl lin sf,
  glin univ s r nt script obsl lin sf -> greach mt mp s -> greach mt mp sf.
Proof. exact glin_greach. Qed.
Print Assumptions C13conc_linearised_run_reaches.

(* (c) Completeness, for the acceptor without merging of candidates: every linearised run — every
   choice of orders — is accepted; in particular the model's own run with groups in script order. *)
Theorem C13conc_acceptor_complete : forall univ s r nt script obsl lin sf,
  glin univ s r nt script obsl lin sf ->
  forall cs, In (s, r) cs -> acc_nd univ cs nt script obsl = true.
Proof. exact acc_nd_complete. Qed.
Print Assumptions C13conc_acceptor_complete.

Theorem C13conc_model_run_accepted : forall univ mt mp script,
  acc_nd univ [(init mt mp, [])] 0 script (grun univ (init mt mp) [] 0 script) = true.
Proof. exact grun_accepted. Qed.
Print Assumptions C13conc_model_run_accepted.

(* Non-vacuity / the merging acceptor on the model's own runs: a script with waiting allocations, a
   concurrent release + release-peer of one peer, concurrent allocations that both wait (the order in
   which they queued is revealed only later), a group of three. *)
Example C13conc_model_runs_accepted :
  let sc := [GOne (OAlloc 1 5); GOne (OAlloc 2 4); GGroup [ORelease 1 3; OReleasePeer 1];
             GOne (OAlloc 2 6); GGroup [OAlloc 1 6; OAlloc 1 1; ORelease 2 4];
             GGroup [OReleasePeer 1; OAlloc 2 3]; GOne (ORelease 2 6)] in
  let obsl := grun [1; 2] (init 10 10) [] 0 sc in
  acc [1; 2] [(init 10 10, [])] 0 sc obsl = true /\
  acc_nd [1; 2] [(init 10 10, [])] 0 sc obsl = true /\
  gmonitor13 10 10 [1; 2] [] 0 [] sc obsl = true /\
  map (fun o => o_outs (go o)) obsl =
    [[Granted 0]; [Granted 1]; []; [Granted 2]; []; [Failed 3; Failed 4; Granted 5]; []].
Proof. vm_compute. repeat split. Qed.

(* a history only the OTHER order of a group explains is accepted too (release-peer first: the release
   then finds no peer and returns an error), with harness tickets renamed: the two concurrent
   allocations were queued in the order opposite to their script positions *)
Example C13conc_other_orders_accepted :
  acc [1; 2] [(init 10 10, [])] 0
      [GOne (OAlloc 1 5); GGroup [ORelease 1 3; OReleasePeer 1]]
      [ Build_gobs (Build_obs [Granted 0] false 5 0 0 [5; 0]) [false];
        Build_gobs (Build_obs [] false 0 0 0 [0; 0]) [true; false] ] = true /\
  acc [1; 2] [(init 4 4, [])] 0
      [GOne (OAlloc 2 4); GGroup [OAlloc 1 1; OAlloc 1 2]; GOne (ORelease 2 2); GOne (ORelease 2 2)]
      [ Build_gobs (Build_obs [Granted 0] false 4 0 0 [0; 4]) [false];
        Build_gobs (Build_obs [] false 4 3 1 [0; 4]) [false; false];
        Build_gobs (Build_obs [Granted 2] false 4 1 1 [2; 2]) [false];
        Build_gobs (Build_obs [Granted 1] false 3 0 0 [3; 0]) [false] ] = true.
Proof. vm_compute. split; reflexivity. Qed.

(* The history the allocator produced when ReleaseBlockMemory looked the peer up under the read lock
   and did its bookkeeping later under the write lock, overlapping ReleasePeerMemory of the same peer:
   peer 1's 3 bytes are subtracted from the total twice (total 1 while peer 2 holds 4).  No order of the
   group's calls explains it, and the order-independent accounting clause rejects it. *)
Example C13conc_double_release_rejected :
  let sc := [GOne (OAlloc 1 5); GOne (OAlloc 2 4); GGroup [ORelease 1 3; OReleasePeer 1]] in
  let bad := [ Build_gobs (Build_obs [Granted 0] false 5 0 0 [5; 0]) [false];
               Build_gobs (Build_obs [Granted 1] false 9 0 0 [5; 4]) [false];
               Build_gobs (Build_obs [] false 1 0 0 [0; 4]) [false; false] ] in
  acc [1; 2] [(init 12 8, [])] 0 sc bad = false /\
  gmonitor13 12 8 [1; 2] [] 0 [] sc bad = false.
Proof. vm_compute. split; reflexivity. Qed.
