(* C17, third clause — messages to a peer leave in the order they were queued.
   Only statements; proofs are in GS.MsgQueueFifo (over the message-queue model of C15/C16). *)
From Coq Require Import List NArith Bool.
From GS Require Import Base MsgQueue MsgQueue16 MsgQueueFifo.
Import ListNotations.
Open Scope N_scope.

(* Inside one queue: builders get increasing topics in the order they are created (a message is queued by
   the transaction that creates or extends the newest builder), and for EVERY history of transactions,
   network outcomes, retries, shutdowns (also inside a build) and select choices, the topics of the
   messages whose send succeeded — in the order they reach the wire — are strictly increasing.
   With C17_get_process / C17_conc_same_process (every sender of a peer is handed the one live queue)
   this is: messages to a peer leave in the order they were queued. *)
Theorem C17_fifo_wire : forall ls, incr_from 0 (wire_topics mq_new ls).
Proof. exact c17_fifo_wire. Qed.
Print Assumptions C17_fifo_wire.
