(* C17, third clause — messages to a peer leave in the order they were queued.
   Only statements; proofs are in GS.MsgQueueFifo and GS.MsgQueueContent (over the message-queue model of C15/C16). *)
From Coq Require Import List NArith Bool.
From GS Require Import Base MsgQueue MsgQueue16 MsgQueueFifo MsgQueueOrder MsgQueueContent.
Import ListNotations.
Open Scope N_scope.

(* Inside one queue: builders get increasing topics in the order they are created (a message is queued by
   the transaction that creates or extends the newest builder), and for EVERY history of transactions,
   network outcomes, retries, shutdowns (also inside a build) and select choices, the topics of the
   messages whose send succeeded — in the order they reach the wire — are strictly increasing.
   With C17_get_process / C17_conc_same_process (every sender of a peer is handed the one live queue)
   this is: messages to a peer leave in the order they were queued. *)
Theorem C17_fifo_wire : forall ls, incr_from 0 (wire_topics mq_new ls).
Proof. exact c17_fifo_wire. Qed.
Print Assumptions C17_fifo_wire.

(* The same at the level of CONTENT.  [crun ls] runs a history and records the queue log [c_q] — every link entry
   (request, (link, present?)) a build callback queued, with the topic of the message it was built into, in the
   order queued — and the wire log [c_w] — every message whose SendMsg returned ok, in order.  For every history:
   (1) the messages leave in the order in which they were started;
   (2) what a message carries for a request is exactly what that request's transactions queued into that message,
       in the order they queued it ([qitems r t Q]: the entries of r with topic t, in log order) — nothing invented,
       nothing reordered inside a request;
   (3) an entry queued BEFORE another one but into a LATER message never leaves at all (its message, or its
       request's part of it, was scrubbed after a failure; [before e1 e2 Q]: e1 occurs before e2 in Q).
   Hence the sequence of entries in wire order (messages in order, a request's entries inside a message in list
   order; entries of different requests inside one message are unordered on the wire) is an order-preserving
   subsequence of the queue log: among the entries that leave, one queued earlier is in the same or an earlier
   message.  A present link's block is added to the same builder by the same operation (apply_op). *)
Theorem C17_fifo_content : forall ls, let c := crun ls in
  incr_from 0 (map w_topic (c_w c)) /\
  (forall w r st links, In w (c_w c) -> In (r, (st, links)) (w_resps w) -> links = qitems r (w_topic w) (c_q c)) /\
  (forall e1 e2, before e1 e2 (c_q c) -> snd e2 < snd e1 -> forall w, In w (c_w c) -> w_topic w <> snd e1).
Proof. exact c17_fifo_content. Qed.
Print Assumptions C17_fifo_content.

(* the executable monitor MON17F (GS.MsgQueueOrder.mon17, evaluated by drivers mq16 and msgqueue on the
   implementation's wire and queued operations) rejects a later block packed into an earlier pending message,
   whether it belongs to another request or to the same one, and accepts the order the code produces *)
Example C17_fifo_monitor_verdicts :
  let q := [(1, (2, true)); (2, (3, true)); (3, (4, true))] in
  mon17 q [([(1, (14, [(2, true)])); (3, (14, [(4, true)]))], [2; 4]); ([(2, (14, [(3, true)]))], [3])] = false /\
  mon17 q [([(1, (14, [(2, true)]))], [2]); ([(2, (14, [(3, true)])); (3, (14, [(4, true)]))], [3; 4])] = true /\
  mon17 [(1, (2, true)); (1, (3, true))] [([(1, (14, [(3, true)]))], [3]); ([(1, (14, [(2, true)]))], [2])] = false /\
  mon17 q [([(1, (14, [(2, true)]))], [])] = false.
Proof. vm_compute. repeat split; reflexivity. Qed.
