(* C24 — Requestor avoids unnecessary traffic.
   Only statements; proofs are in GS.TrafficProofs (requestor half) and GS.ResponderProofs (responder half,
   built with C03). *)
From Coq Require Import List NArith Bool.
From GS Require Import Base Ltree RecLoader ReqExec Traffic TrafficProofs.
From GS Require LinkTracker Responder ResponderProofs.
Import ListNotations.
Open Scope N_scope.

(* Requestor half, over the model of executor.traverse + ReconciledLoader + processResponses (ReqExec.v).

   (i) For every plan (all DAG shapes, selectors, codecs), every local store L that resolves every link of the
   selector traversal run over L alone ([all_ok (local_run t L)]), whatever messages arrive in the meantime
   ([feed], [sched]: unsolicited messages are dropped while the loader is offline), whatever the caller's own
   do-not-send-first-blocks value: no request is ever sent ([sends_of] of the log is empty, requestSent stays
   false), the store is untouched, and the traversal delivers exactly the local traversal and completes. *)
Theorem C24_no_traffic_when_local :
  forall (below : path -> path -> bool) (responder : N -> list msg) (user : N) t L feed sched,
    all_ok (local_run t L) = true ->
    let r := run_request below responder user t L feed sched in
    let x := fst (fst r) in
    sends_of (x_log x) = [] /\ x_sent x = false /\ x_store x = L /\
    snd (fst r) = local_run t L /\ snd r = true.
Proof. exact c24_no_traffic. Qed.
Print Assumptions C24_no_traffic_when_local.

(* (ii) In every run (any plan, store, responder behaviour, message timing) at most one request goes out, and
   it carries do-not-send-first-blocks = max(caller's value, number of blocks the traversal has loaded so far)
   — executor.startRemoteRequest — where every one of those blocks was loaded from the LOCAL store and nothing
   had been sent or fetched before ([sends_ok]: the entries older than the XSend contain no remote load, no
   store commit and no earlier XSend).  Value 0 means: no such extension on the wire.
   What this number means to the responder is a count of its own leading metadata entries (C24_responder_half,
   peerlinktracker.go blockSentCount); the two counts differ when the responder lacks a block whose subtree the
   requestor loaded locally — that is finding C02-F1, recorded under C02, not claimed against here. *)
Theorem C24_skip_exact :
  forall (below : path -> path -> bool) (responder : N -> list msg) (user : N) t L feed sched,
    let x := fst (fst (run_request below responder user t L feed sched)) in
    sends_ok user (x_log x) /\ (length (sends_of (x_log x)) <= 1)%nat.
Proof. exact c24_skip_exact. Qed.
Print Assumptions C24_skip_exact.

(* Responder half (proved with C03 over Responder.v / LinkTracker.v, restated): the responder never transmits a
   block at an index it was told to skip, none from the do-not-send-cids set, and never the same block twice
   within one request, whatever other requests of the peer do. *)
Theorem C24_responder_half :
  (forall q recs1 c h others, ResponderProofs.decision q recs1 c h others = true ->
     h = true /\ ResponderProofs.skipv q < N.of_nat (length recs1) + 1 /\ ~ In c (ResponderProofs.ign q)) /\
  (forall (R : cid -> Responder.sres) q pre1 c h1 mid h2 post recs1 recsm,
     let r := Responder.rq_id q in
     let ops := pre1 ++ LinkTracker.LRecord r c h1 :: mid ++ LinkTracker.LRecord r c h2 :: post in
     LinkTracker.wf_hist [] ops = true ->
     Responder.own r pre1 = Responder.ext_ops q ++ Responder.rec_ops r recs1 ->
     Responder.own r mid = Responder.rec_ops r recsm ->
     forall d1 k1, nth (length pre1) (Responder.louts ops) LinkTracker.ONone = LinkTracker.OSend d1 k1 ->
     (d1 = true -> ResponderProofs.skipv q < k1) /\
     (d1 = true -> exists k2, nth (length (pre1 ++ LinkTracker.LRecord r c h1 :: mid)) (Responder.louts ops) LinkTracker.ONone = LinkTracker.OSend false k2)).
Proof. exact (conj ResponderProofs.c24_never_skipped ResponderProofs.c24_responder). Qed.
Print Assumptions C24_responder_half.

(* Non-vacuity: root -> {a: 1 -> {2}, b: 3}.  With everything local nothing is sent; with block 3 missing the
   request goes out after three local loads with skip 3 (or the caller's 5); with the root missing and no
   caller value, skip 0 = no extension. *)
Example C24_nonvacuous :
  let t := LNode [] 0 (IVisit 0 (IChild (LNode [0] 1 (IVisit 1 (IChild (LNode [0; 0] 2 (IVisit 2 INil)) INil))) (IChild (LNode [1] 3 (IVisit 3 INil)) INil))) in
  let go u L := sends_of (x_log (fst (fst (run_request proper_prefix (fun _ => [final_msg]) u t (store_of L) [] [])))) in
  all_ok (local_run t (store_of [0; 1; 2; 3])) = true /\ go 0 [0; 1; 2; 3] = [] /\
  all_ok (local_run t (store_of [0; 1; 2])) = false /\ go 0 [0; 1; 2] = [3] /\ go 5 [0; 1; 2] = [5] /\ go 2 [0; 1; 2] = [3] /\
  go 0 [1; 2; 3] = [0].
Proof. vm_compute. repeat split. Qed.

Example C24_monitor_rejects :
  tcase_mon (Build_tcase (LNode [] 0 (IVisit 0 INil)) [0] 0 true 0 true) = false /\      (* sent although local *)
  tcase_mon (Build_tcase (LNode [] 0 (IVisit 0 (IChild (LNode [0] 1 INil) INil))) [0] 0 true 2 true) = false.  (* wrong skip *)
Proof. vm_compute. split; reflexivity. Qed.
