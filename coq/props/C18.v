(* C18 — Event publisher delivers each topic's events in order, then closes once.
   Only statements; proofs are in GS.PublisherProofs and GS.PublisherHistory. *)
From Coq Require Import List NArith Bool.
From GS Require Import Base Publisher PublisherTrace PublisherProofs PublisherHistory.
Import ListNotations.
Open Scope N_scope.

(* Refinement: for every sequence of subscribe / unsubscribe / publish / close-topic / shutdown calls
   over any topics and subscribers, and every universe of observed subscribers, what the model of
   the publisher (two mutually inverse indexes, snapshot range-loops, closed flag) delivers call by
   call is accepted by the executable specification monitor_C18, whose only state is the set of
   active (topic, subscriber) subscriptions:
     - a publish on t delivers that event once to exactly the subscribers then active on t
       (hence, call after call, each subscriber sees a topic's events in publication order, and
        only those published while its subscription is active);
     - close-topic / unsubscribe / shutdown deliver exactly one close for each subscription they
       end and nothing else, and end exactly those subscriptions;
     - after shutdown nothing is ever delivered.
   The order in which one subscriber learns of several topics closing in one call is left open
   (Go map iteration order). *)
Theorem C18_holds : forall univ ops, monitor_C18 univ ops (prun univ pub_new ops) = true.
Proof. exact c18_monitor. Qed.
Print Assumptions C18_holds.

(* In every reachable state the topic->subscribers and subscriber->topics indexes describe the same
   duplicate-free set of subscriptions. *)
Theorem C18_registry_consistent : forall ops, exists a, PInv (r (pfinal pub_new ops)) a.
Proof. intro ops. exact (pfinal_inv ops pub_new [] PInv_init). Qed.
Print Assumptions C18_registry_consistent.

(* Non-vacuity: subscriber 1 on topics 1 and 2, subscriber 2 on topic 1; re-subscription after a close. *)
Example C18_nonvacuous :
  let ops := [PSubscribe 1 1; PSubscribe 2 1; PSubscribe 1 2; PPublish 1 10; PClose 1; PPublish 1 11;
              PSubscribe 1 2; PPublish 1 12; PUnsubscribe 1; PPublish 2 13; PShutdown; PPublish 1 14] in
  prun [1; 2] pub_new ops =
    [ [[]; []]; [[]; []]; [[]; []]; [[ENext 1 10]; [ENext 1 10]]; [[EClose 1]; [EClose 1]]; [[]; []];
      [[]; []]; [[]; [ENext 1 12]]; [[EClose 2]; []]; [[]; []]; [[]; [EClose 1]]; [[]; []] ] /\
  monitor_C18 [1; 2] ops (prun [1; 2] pub_new ops) = true.
Proof. vm_compute. split; reflexivity. Qed.

(* The monitor rejects a delivery after unsubscribe (the history a stale reverse index produces). *)
Example C18_monitor_rejects_late_delivery :
  monitor_C18 [1] [PSubscribe 1 1; PSubscribe 2 1; PClose 1; PUnsubscribe 1; PPublish 2 7]
    [ [[]]; [[]]; [[EClose 1]]; [[]]; [[ENext 2 7]] ] = false.
Proof. vm_compute. reflexivity. Qed.

(* The property in its own words, per subscription, for every history of calls (corollary of C18_holds).
   For a subscriber s and a topic t, [exp_trace t s (false,false) ops] is computed from the calls alone by a
   two-bit automaton (publisher shut down?, subscription (t,s) active?): a publish on t yields its event iff the
   subscription is active and the publisher is not shut down; the call at which an active subscription ends
   (close of t, unsubscribe of s, shutdown) yields one close; every other call yields nothing.
   [seen_trace t (prun [s] pub_new ops)] is what the publisher model hands to s for t, call by call (the t-events
   in delivery order, and the number of closes of t).  They are equal: s receives, in publication order, exactly
   the events published on t after it subscribed and before the subscription ended, exactly one close per
   subscription at the call that ends it, and nothing afterwards. *)
Theorem C18_history : forall t s ops,
  seen_trace t (prun [s] pub_new ops) = exp_trace t s (false, false) ops.
Proof. exact c18_history. Qed.
Print Assumptions C18_history.

(* Aggregated over the whole history: the ordered list of t-events s ever received and the number of times it
   was told that its subscription to t ended are those of the automaton. *)
Theorem C18_history_totals : forall t s ops,
  all_nexts t s ops = flat_map fst (exp_trace t s (false, false) ops) /\
  all_closes t s ops = fold_right Nat.add 0%nat (map snd (exp_trace t s (false, false) ops)).
Proof. exact c18_history_totals. Qed.
Print Assumptions C18_history_totals.

(* Once the publisher is shut down the automaton prescribes silence for ever, whatever is called. *)
Theorem C18_silent_after_shutdown : forall t s ops b,
  exp_trace t s (true, b) ops = map (fun _ => ([], 0%nat)) ops.
Proof. exact exp_trace_dead. Qed.
Print Assumptions C18_silent_after_shutdown.

(* Non-vacuity: s=1 on topic 2 subscribes, hears 10 and 11, the topic closes (one close), 12 is not heard,
   it re-subscribes, hears 13, unsubscribes (second close), shutdown adds nothing. *)
Example C18_history_nonvacuous :
  let ops := [PPublish 2 9; PSubscribe 2 1; PSubscribe 2 7; PPublish 2 10; PPublish 3 99; PPublish 2 11; PClose 2;
              PPublish 2 12; PSubscribe 2 1; PPublish 2 13; PUnsubscribe 1; PShutdown; PPublish 2 14] in
  exp_trace 2 1 (false, false) ops =
    [([],O); ([],O); ([],O); ([10],O); ([],O); ([11],O); ([],S O); ([],O); ([],O); ([13],O); ([],S O); ([],O); ([],O)]
  /\ all_nexts 2 1 ops = [10; 11; 13] /\ all_closes 2 1 ops = 2%nat.
Proof. vm_compute. repeat split; reflexivity. Qed.

(* The same for the i-th subscriber of any observed universe — the form the correspondence run evaluates on the
   Go publisher's deliveries (check HIST18 = pcase_hist: every observed subscriber, every topic named in the calls). *)
Theorem C18_history_univ : forall t univ i s ops, nth_error univ i = Some s ->
  col_trace t i (prun univ pub_new ops) = exp_trace t s (false, false) ops.
Proof. exact c18_history_univ. Qed.
Print Assumptions C18_history_univ.
