(* C18 — Event publisher delivers each topic's events in order, then closes once.
   Only statements; proofs are in GS.PublisherProofs. *)
From Coq Require Import List NArith Bool.
From GS Require Import Base Publisher PublisherProofs.
Import ListNotations.
Open Scope N_scope.

(* Refinement: for every sequence of subscribe / unsubscribe / publish / close-topic / shutdown calls
   over any topics and subscribers, and every universe of observed subscribers, what the model of
   the publisher (two mutually inverse indexes, snapshot range-loops, closed flag) delivers call by
   call is accepted by the executable specification monitor_C18, whose only state is the set of
   active (topic, subscriber) subscriptions:
     - a publish on t delivers that event once to exactly the subscribers then active on t
       (hence, call after call, each subscriber sees a topic's events in publication order, and
        only those published while its subscription is active);
     - close-topic / unsubscribe / shutdown deliver exactly one close for each subscription they
       end and nothing else, and end exactly those subscriptions;
     - after shutdown nothing is ever delivered.
   The order in which one subscriber learns of several topics closing in one call is left open
   (Go map iteration order). *)
Theorem C18_holds : forall univ ops, monitor_C18 univ ops (prun univ pub_new ops) = true.
Proof. exact c18_monitor. Qed.
Print Assumptions C18_holds.

(* In every reachable state the topic->subscribers and subscriber->topics indexes describe the same
   duplicate-free set of subscriptions. *)
Theorem C18_registry_consistent : forall ops, exists a, PInv (r (pfinal pub_new ops)) a.
Proof. intro ops. exact (pfinal_inv ops pub_new [] PInv_init). Qed.
Print Assumptions C18_registry_consistent.

(* Non-vacuity: subscriber 1 on topics 1 and 2, subscriber 2 on topic 1; re-subscription after a close. *)
Example C18_nonvacuous :
  let ops := [PSubscribe 1 1; PSubscribe 2 1; PSubscribe 1 2; PPublish 1 10; PClose 1; PPublish 1 11;
              PSubscribe 1 2; PPublish 1 12; PUnsubscribe 1; PPublish 2 13; PShutdown; PPublish 1 14] in
  prun [1; 2] pub_new ops =
    [ [[]; []]; [[]; []]; [[]; []]; [[ENext 1 10]; [ENext 1 10]]; [[EClose 1]; [EClose 1]]; [[]; []];
      [[]; []]; [[]; [ENext 1 12]]; [[EClose 2]; []]; [[]; []]; [[]; [EClose 1]]; [[]; []] ] /\
  monitor_C18 [1; 2] ops (prun [1; 2] pub_new ops) = true.
Proof. vm_compute. split; reflexivity. Qed.

(* The monitor rejects a delivery after unsubscribe (the history a stale reverse index produces). *)
Example C18_monitor_rejects_late_delivery :
  monitor_C18 [1] [PSubscribe 1 1; PSubscribe 2 1; PClose 1; PUnsubscribe 1; PPublish 2 7]
    [ [[]]; [[]]; [[EClose 1]]; [[]]; [[ENext 2 7]] ] = false.
Proof. vm_compute. reflexivity. Qed.
