(* C03 — Responder output mirrors its own selector traversal.
   Only statements; proofs are in GS.ResponderProofs.  The link tracker enters through C19's
   refinement theorem (GS.LinkTrackerProofs); traversal plans are those of GS.Ltree (C07). *)
From Coq Require Import List NArith Bool.
From GS Require Import Base Ltree LinkTracker LinkTrackerProofs Responder ResponderProofs ResponderMonitor.
Import ListNotations.
Open Scope N_scope.

(* An execution of one peer's responder is a list [ops] of link-tracker operations (C19's alphabet) of all
   its requests, well-formed in C19's sense (a dedup key is assigned before the request has state).
   Request q takes part in it with exactly its own operations in program order
   ([own (rq_id q) ops = own_ops true R q]: extension decoding of prepareQuery, one RecordLinkTraversal
   per SendResponse of runTraversal over plan [rq_plan q] and store R, FinishTracking); the operations of
   the peer's other requests are arbitrary and arbitrarily interleaved.  [wire true R q ops] are the
   messages of q (one per transaction).  For EVERY plan (= every DAG shape, selector, codec), store,
   combination of the three extensions and every such execution:

   (1) the metadata of q, concatenated over its messages, is exactly one entry per link load of the plan
       run over the store, in traversal order, marked present or missing;
   (2) the k-th link load (k = |recs1|+1), wherever it falls in the execution, is answered by one message
       that carries its metadata entry, index k, and IN THAT SAME MESSAGE the block iff: the block is present,
       k is beyond do-not-send-first-blocks, the link is not in do-not-send-cids, the request has not
       already traversed it as present, and no other request in progress in the same dedup scope holds it
       ([held] of C19's specification with this request removed);
   (3) the closing message, wherever it falls, carries the status [expected_status]: content-not-found iff
       the root is missing, complete-full iff no visited link is missing, complete-partial otherwise
       (C03_status_rule), after exactly the metadata of (1). *)
Theorem C03_holds :
  (forall (R : cid -> sres) q ops,
     wf_hist [] ops = true -> own (rq_id q) ops = own_ops true R q ->
     concat (map wm_md (wire true R q ops)) = md_of_events (fst (plain_run R (rq_plan q)))) /\
  (forall (R : cid -> sres) q pre c h post recs1,
     let r := rq_id q in
     let ops := pre ++ LRecord r c h :: post in
     wf_hist [] ops = true ->
     own r pre = ext_ops q ++ rec_ops r recs1 ->
     exists sp, spec_final [] pre = Some sp /\
       let d := decision q recs1 c h (sdel r sp) in
       let k := N.of_nat (length recs1) + 1 in
       nth (length pre) (louts ops) ONone = OSend d k /\
       exists w1 w2, wire true R q ops = w1 ++ rec_msg r c h d k :: w2 /\ concat (map wm_md w1) = recs1) /\
  (forall (R : cid -> sres) q pre post,
     let r := rq_id q in
     let ops := pre ++ LFinish r :: post in
     wf_hist [] ops = true ->
     own r pre = ext_ops q ++ rec_ops r (md_of_events (fst (plain_run R (rq_plan q)))) ->
     exists w1 w2, wire true R q ops = w1 ++ fin_msg r (expected_status R (rq_plan q)) :: w2 /\
       concat (map wm_md w1) = md_of_events (fst (plain_run R (rq_plan q)))).
Proof. exact (conj c03_metadata (conj c03_blocks c03_status)). Qed.
Print Assumptions C03_holds.

(* the send decision of (2), unfolded *)
Theorem C03_decision : forall q recs1 c h others,
  decision q recs1 c h others =
  h && (skipv q <? N.of_nat (length recs1) + 1) && negb (existsb (N.eqb c) (ign q)) &&
  negb (existsb (N.eqb c) (present recs1)) && negb (held (rq_dedup q) c others).
Proof. reflexivity. Qed.
Print Assumptions C03_decision.

(* the status of (3) read off the plan run over the store *)
Theorem C03_status_rule : forall R t,
  let '(evs, ok) := plain_run R t in
  let md := md_of_events evs in
  (expected_status R t = st_not_found <-> ok = true /\ root_skipped evs = true) /\
  (expected_status R t = st_full <-> ok = true /\ root_skipped evs = false /\ forallb snd md = true) /\
  (expected_status R t = st_partial <-> ok = true /\ root_skipped evs = false /\ forallb snd md = false) /\
  (expected_status R t = st_failed_unknown <-> ok = false).
Proof. exact expected_status_rule. Qed.
Print Assumptions C03_status_rule.

(* the root is reported skipped iff it is missing from the store; the traversal is then that one load:
   by (1) and (2) one Missing entry and no block, and nothing else, is sent before content-not-found *)
Theorem C03_root_missing : forall R p c body,
  (root_skipped (fst (plain_run R (LNode p c body))) = true <-> R c = RMissing) /\
  (R c = RMissing -> plain_run R (LNode p c body) = ([ELoad p c ASkip], true)).
Proof. intros. split; [apply root_skipped_iff | apply root_missing_run]. Qed.
Print Assumptions C03_root_missing.

(* The code as it was found violated (1) and (3): a present zero-length block (link 1) is traversed as
   present but reported missing, and the response ends complete-partial.  Repaired in /repo by
   "fix: a present zero-length block was reported missing by the responder"; the model's [fx] flag is
   that repair, and C03_holds is about fx = true, which is what the driver compares with the code. *)
Theorem C03_refuted_before_fix :
  let R := fun c : cid => if N.eqb c 1 then RPresentEmpty else RPresent in
  let q := {| rq_id := 1; rq_plan := LNode [] 0 (IChild (LNode [0] 1 INil) INil);
              rq_dedup := None; rq_ignore := None; rq_skip := None |} in
  let ops := own_ops false R q in
  wf_hist [] ops = true /\
  md_of_events (fst (plain_run R (rq_plan q))) = [(0, true); (1, true)] /\
  concat (map wm_md (wire false R q ops)) = [(0, true); (1, false)] /\
  map wm_status (wire false R q ops) = [st_partial_response; st_partial_response; st_partial].
Proof. exact c03_unrepaired_witness. Qed.
Print Assumptions C03_refuted_before_fix.

(* C24, responder half (the requestor half is stated elsewhere): the responder never transmits a block it
   was told to skip, and never the same block twice within one request, whatever other requests do. *)
Theorem C24_responder_half :
  (forall q recs1 c h others, decision q recs1 c h others = true ->
     h = true /\ skipv q < N.of_nat (length recs1) + 1 /\ ~ In c (ign q)) /\
  (forall (R : cid -> sres) q pre1 c h1 mid h2 post recs1 recsm,
     let r := rq_id q in
     let ops := pre1 ++ LRecord r c h1 :: mid ++ LRecord r c h2 :: post in
     wf_hist [] ops = true ->
     own r pre1 = ext_ops q ++ rec_ops r recs1 ->
     own r mid = rec_ops r recsm ->
     forall d1 k1, nth (length pre1) (louts ops) ONone = OSend d1 k1 ->
     (d1 = true -> skipv q < k1) /\
     (d1 = true -> exists k2, nth (length (pre1 ++ LRecord r c h1 :: mid)) (louts ops) ONone = OSend false k2)).
Proof. exact (conj c24_never_skipped c24_responder). Qed.
Print Assumptions C24_responder_half.

(* The executable statement of the property that is evaluated on the implementation's messages on every run
   (monitor_C03: metadata = the plan's link loads over the store; blocks by C19's specification state; index;
   final status by the rule) and the wire monitor of C24's responder half (no block at an index <= skip, no block
   twice within a request, none named by its do-not-send-cids list) accept EVERY scheduled execution of the model: every store, any number of requests
   with distinct ids, every plan and extension combination for each of them, and every schedule — i.e. every
   interleaving of the requests' link loads with one another, requests starting at any point — in which a
   request is started at most once and only known requests are started.  [sim] is the model's execution of a
   schedule (SStart q = prepareQuery, SStep q = q's next link load and, after the last, its closing transaction;
   SStartPaused q = prepareQuery of a request that the incoming-request hook paused: RequestPaused goes out and the
   extensions are registered all the same; SUnpause q = UnpauseResponse, nothing on the wire). *)
Theorem C03_monitor : forall (St : cid -> sres) (reqs : list rreq) (sched : list sact),
  NoDup (map rq_id reqs) -> NoDup (starts sched) -> incl (starts sched) (map rq_id reqs) ->
  let tl := sim plt_new (map (rst_init true St) reqs) sched in
  monitor_C03 St reqs tl = true /\ forallb (mon24_req tl) reqs = true.
Proof. exact c03_monitor. Qed.
Print Assumptions C03_monitor.

(* ---- non-vacuity ---- *)
(* Two requests of one peer over the same DAG 0 -> {1, 2, 1}: block 2 is missing.  Request 1 skips its
   first block; request 2 (same default scope) starts while 1 is under way.  Block 1 goes to request 1
   once (its second traversal is withheld) and not to request 2 while 1 holds it; both end partial. *)
Definition ex_plan : ltree := LNode [] 0 (IChild (LNode [0] 1 INil) (IChild (LNode [1] 2 INil) (IChild (LNode [2] 1 INil) INil))).
Definition ex_R : cid -> sres := sto [(2, RMissing)].
Definition ex_q1 : rreq := {| rq_id := 1; rq_plan := ex_plan; rq_dedup := None; rq_ignore := None; rq_skip := Some 1 |}.
Definition ex_q2 : rreq := {| rq_id := 2; rq_plan := ex_plan; rq_dedup := None; rq_ignore := None; rq_skip := None |}.
Definition ex_sched : list sact := [SStart 1; SStep 1; SStep 1; SStart 2; SStep 2; SStep 2; SStep 1; SStep 1; SStep 2; SStep 2].
Definition ex_tl := sim plt_new (map (rst_init true ex_R) [ex_q1; ex_q2]) ex_sched.

Definition ex_ops : list lop :=
  [LSkip 1 1; LRecord 1 0 true; LRecord 1 1 true; LRecord 2 0 true; LRecord 2 1 true;
   LRecord 1 2 false; LRecord 1 1 true; LFinish 1; LRecord 2 2 false; LRecord 2 1 true; LFinish 2].

Example C03_nonvacuous :
  wf_hist [] ex_ops = true /\ own 1 ex_ops = own_ops true ex_R ex_q1 /\ own 2 ex_ops = own_ops true ex_R ex_q2 /\
  wire true ex_R ex_q1 ex_ops =
    [rec_msg 1 0 true false 1; rec_msg 1 1 true true 2; rec_msg 1 2 false false 3; rec_msg 1 1 true false 4;
     fin_msg 1 st_partial] /\
  (* request 2 gets no block: 0 and 1 are held by request 1 when it traverses them, and 1 by itself later *)
  wire true ex_R ex_q2 ex_ops =
    [rec_msg 2 0 true false 1; rec_msg 2 1 true false 2; rec_msg 2 2 false false 3; rec_msg 2 1 true false 4;
     fin_msg 2 st_partial] /\
  (* the scheduled execution the driver would play produces the same messages, and the executable
     statement of the property accepts it *)
  concat (map snd ex_tl) =
    [rec_msg 1 0 true false 1; rec_msg 1 1 true true 2; rec_msg 2 0 true false 1; rec_msg 2 1 true false 2;
     rec_msg 1 2 false false 3; rec_msg 1 1 true false 4; fin_msg 1 st_partial;
     rec_msg 2 2 false false 3; rec_msg 2 1 true false 4; fin_msg 2 st_partial] /\
  monitor_C03 ex_R [ex_q1; ex_q2] ex_tl = true /\
  forallb (mon24_req ex_tl) [ex_q1; ex_q2] = true.
Proof. vm_compute. repeat split. Qed.

(* with different dedup keys the two requests do not see each other: request 2 gets blocks 0 and 1 *)
Example C03_nonvacuous_scopes :
  let q2 := {| rq_id := 2; rq_plan := ex_plan; rq_dedup := Some 7; rq_ignore := None; rq_skip := None |} in
  let tl := sim plt_new (map (rst_init true ex_R) [ex_q1; q2]) ex_sched in
  map wm_blocks (filter (fun m => N.eqb (wm_req m) 2) (concat (map snd tl))) = [[0]; [1]; []; []; []] /\
  monitor_C03 ex_R [ex_q1; q2] tl = true.
Proof. vm_compute. repeat split. Qed.

(* a request paused by the incoming-request hook and unpaused later keeps its extensions: with
   do-not-send-first-blocks = 1 the first block is withheld after the unpause as well *)
Example C03_nonvacuous_paused :
  let tl := sim plt_new (map (rst_init true ex_R) [ex_q1; ex_q2])
              [SStartPaused 1; SStart 2; SStep 2; SUnpause 1; SStep 1; SStep 1] in
  concat (map snd tl) =
    [pause_msg 1; rec_msg 2 0 true true 1; rec_msg 1 0 true false 1; rec_msg 1 1 true true 2] /\
  monitor_C03 ex_R [ex_q1; ex_q2] tl = true /\ forallb (mon24_req tl) [ex_q1; ex_q2] = true /\
  (* the executable statement rejects the resumed response sending the block it was told to skip *)
  monitor_C03 ex_R [ex_q1] [(SStartPaused 1, [pause_msg 1]); (SUnpause 1, []); (SStep 1, [rec_msg 1 0 true true 1])] = false.
Proof. vm_compute. repeat split. Qed.

(* a missing root: one Missing entry, no block, content-not-found *)
Example C03_nonvacuous_root_missing :
  let R := sto [(0, RMissing)] in
  let tl := sim plt_new (map (rst_init true R) [ex_q2]) [SStart 2; SStep 2] in
  concat (map snd tl) = [rec_msg 2 0 false false 1; fin_msg 2 st_not_found] /\
  monitor_C03 R [ex_q2] tl = true.
Proof. vm_compute. repeat split. Qed.

(* the executable statement rejects: a block sent while another request holds it; a dropped Missing
   entry; complete-full with a missing link; a skipped block sent *)
Example C03_monitor_rejects :
  let bad1 := [(SStart 1, []); (SStep 1, [rec_msg 1 0 true false 1]); (SStart 2, []); (SStep 2, [rec_msg 2 0 true true 1])] in
  let bad2 := [(SStart 2, []); (SStep 2, [rec_msg 2 0 true true 1]); (SStep 2, [rec_msg 2 1 true true 2]);
               (SStep 2, [rec_msg 2 1 true false 3; fin_msg 2 st_full])] in
  let bad3 := [(SStart 2, []); (SStep 2, [rec_msg 2 0 true true 1]); (SStep 2, [rec_msg 2 1 true true 2]);
               (SStep 2, [rec_msg 2 2 false false 3]); (SStep 2, [rec_msg 2 1 true false 4; fin_msg 2 st_full])] in
  let bad4 := [(SStart 1, []); (SStep 1, [rec_msg 1 0 true true 1])] in
  monitor_C03 ex_R [ex_q1; ex_q2] bad1 = false /\ monitor_C03 ex_R [ex_q2] bad2 = false /\
  monitor_C03 ex_R [ex_q2] bad3 = false /\ monitor_C03 ex_R [ex_q1] bad4 = false /\
  mon24_req bad4 ex_q1 = false.
Proof. vm_compute. repeat split. Qed.

(* Round 4: the do-not-send-cids clause of the wire monitor.  Request 3 carries a dedup key AND an ignore list
   naming block 1: the model (key first, then the list recorded in the key's tracker) never carries block 1, and
   the monitors accept its execution; a history that does carry it — what recording the list in the default
   tracker before moving to the key's tracker produces — is rejected by mon24_req (and accepted if the list is
   dropped from the request, so it is this clause that rejects it). *)
Example C24_monitor_rejects_ignored_block :
  let q3 := {| rq_id := 3; rq_plan := ex_plan; rq_dedup := Some 5; rq_ignore := Some [1]; rq_skip := None |} in
  let q3' := {| rq_id := 3; rq_plan := ex_plan; rq_dedup := Some 5; rq_ignore := None; rq_skip := None |} in
  let tl := sim plt_new (map (rst_init true ex_R) [q3]) [SStart 3; SStep 3; SStep 3; SStep 3; SStep 3] in
  let bad := [(SStart 3, []); (SStep 3, [rec_msg 3 0 true true 1]); (SStep 3, [rec_msg 3 1 true true 2])] in
  monitor_C03 ex_R [q3] tl = true /\ mon24_req tl q3 = true /\
  existsb (fun m => existsb (N.eqb 1) (wm_blocks m)) (concat (map snd tl)) = false /\
  mon24_req bad q3 = false /\ mon24_req bad q3' = true.
Proof. vm_compute. repeat split. Qed.
