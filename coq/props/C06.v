(* C06 — Pausing and resuming an exchange does not change its result (requestor side).
   Only statements; proofs are in GS.PauseProofs.

   Full statement (C06_requestor, NOT proved; see level_note): for every plan, L, R, chunking, schedule and
   set of pauses (block index k, number of in-flight messages of the cancelled response that still arrive),
       paused_outcome t L R sizes sched pauses = ref_outcome t L R        (= the unpaused outcome, C02).
   It was false of the code as found (C06_refuted_before_fix; repaired by fix commit cb5b48f) and is still false
   when messages of the cancelled response are ingested after the loader went online again
   (C06_inflight_refuted: finding C06-F1).  Proved for all plans: C06_pause_before_send_partial. *)
From Coq Require Import List NArith Bool.
From GS Require Import Base Ltree RecLoader ReqExec PauseExec PauseProofs.
Import ListNotations.
Open Scope N_scope.

(* Pauses taken while the request has not been sent yet (every block so far came from the local store) change
   NOTHING: for every plan, local store, responder behaviour, caller value, schedule and set of pauses, the run
   in which only such pauses take effect has the same final state (store, errors, log, loader), the same
   delivered events and the same completion as the run without pauses. *)
Theorem C06_pause_before_send_partial :
  forall (below : path -> path -> bool) (responder : N -> list msg) (dnsfb : N) t L sched pauses,
    let r := run_paused below responder dnsfb true t L sched pauses in
    let r0 := run_request below responder dnsfb t L [] sched in
    p_x (fst (fst r)) = fst (fst r0) /\ snd (fst r) = snd (fst r0) /\ snd r = snd r0.
Proof. exact c06_pause_before_send. Qed.
Print Assumptions C06_pause_before_send_partial.

(* The defect as found (replayed on the real ReconciledLoader and on the real pair): root(0) -> {a: X(1), b: Y(2)},
   neither side holds X, the requestor holds nothing.  The executor's calls: load root (miss), online, retry,
   response [root, X missing, Y] ingested, root loaded; PAUSE (offline); resume: load X consumes the stale
   "X missing" item, misses locally; online again; retry.  Before the fix the retry put the stale item back and
   the new verifier (over the record [root]) compared it with the root: RemoteIncorrectResponseError, request
   failed.  With SetRemoteOnline clearing the queue: X is reported missing once more and Y arrives. *)
Definition c06_ops : list lop :=
  [LLoad [] 0; LOnline true; LRetry; LIngest [(0, Present); (1, Missing); (2, Present)] [0; 2];
   LOnline false; LLoad [0] 1; LOnline true; LRetry; LIngest [(0, Present); (1, Missing); (2, Present)] [2]; LLoad [1] 2].
Theorem C06_refuted_before_fix :
  map fst (lrun_with set_online_before_fix c06_ops rl_new [] None) =
    [RErr (EMissing [] 0) true; RData 0 false; RErr (EMissing [0] 1) true; RErr (EIncorrect 0 1 []) false; RErr (EIncorrect 0 2 []) false] /\
  map fst (lrun_with set_online c06_ops rl_new [] None) =
    [RErr (EMissing [] 0) true; RData 0 false; RErr (EMissing [0] 1) true; RErr (EMissing [0] 1) true; RData 2 false].
Proof. vm_compute. split; reflexivity. Qed.
Print Assumptions C06_refuted_before_fix.

(* Finding C06-F1 (not repaired): the same plan; the response is cut after the root; the pause takes effect
   after block 1 and the rest of the cancelled response is still in flight.  If it arrives after the resumed
   request went online again it is taken for the beginning of the new response: incorrect-response error.  If
   it arrives (and is dropped) before, or was never sent, the outcome is the reference's. *)
Definition c06_plan : ltree :=
  LNode [] 0 (IVisit 0 (IChild (LNode [0] 1 (IVisit 1 INil)) (IChild (LNode [1] 2 (IVisit 2 INil)) INil))).
Theorem C06_inflight_refuted :
  let R := store_of [0; 2] in
  ref_outcome c06_plan [] R = Build_outcome [0; 2] [([0], 1)] 0 [0; 2] true /\
  paused_outcome c06_plan [] R [1]%nat [] [Build_pause 1 5] = Build_outcome [0] [] 2 [0] true /\
  paused_outcome c06_plan [] R [1]%nat [] [Build_pause 1 0] = ref_outcome c06_plan [] R /\
  paused_outcome c06_plan [] R [] [] [Build_pause 1 0] = ref_outcome c06_plan [] R.
Proof. vm_compute. repeat split. Qed.
Print Assumptions C06_inflight_refuted.

(* Non-vacuity: a 7-link plan, pauses after blocks 2 and 4 (after the request was sent), nothing in flight,
   three chunkings/schedules: the reference outcome. *)
Example C06_nonvacuous :
  let t := LNode [] 0 (IVisit 0 (IChild (LNode [0] 1 (IVisit 1 (IChild (LNode [0; 0] 2 (IVisit 2 INil)) (IChild (LNode [0; 1] 3 (IVisit 3 INil)) INil))))
                         (IChild (LNode [1; 5] 4 (IVisit 4 (IChild (LNode [1; 5; 0] 2 (IVisit 5 INil)) INil)))
                         (IChild (LNode [2] 6 (IVisit 6 INil)) INil)))) in
  let L := store_of [3] in let R := store_of [0; 2; 3; 4; 6] in
  let ps := [Build_pause 2 0; Build_pause 4 0] in
  paused_outcome t L R [] [] ps = ref_outcome t L R /\
  paused_outcome t L R (repeat 1%nat 20) [] ps = ref_outcome t L R /\
  paused_outcome t L R [2; 2]%nat (repeat 9%nat 20) ps = ref_outcome t L R.
Proof. vm_compute. repeat split. Qed.
