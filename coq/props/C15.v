(* C15 — Memory accounted to a peer matches its unsent response data.
   Only statements; proofs are in GS.MsgQueueProofs. *)
From Coq Require Import List NArith Bool.
From GS Require Import Base MsgQueue MsgQueueProofs.
Import ListNotations.
Open Scope N_scope.

(* For every history of response-assembler transactions (blocks, extension data, statuses, over any
   requests, split over any number of messages), network outcomes (connect / send succeeding or
   failing, retries running out), shutdowns and select choices, in every state in which the queue
   goroutine is parked:
   - the memory accounted to the peer is exactly the block bytes of the queued builders plus those of
     the message in flight (every reserved byte is accounted once and returned once: when its message
     is sent, fails, or is scrubbed because an earlier message of the request failed);
   - when the goroutine is idle nothing with content is queued and the accounted memory is zero;
   - after it has exited nothing is queued and the accounted memory is zero. *)
Theorem C15_accounting : forall ls s, In s (q_states mq_new ls) ->
  alloc s = qsum (builders s) + inflight_size (ph s) /\
  (ph s = PIdle -> alloc s = 0 /\ AllEmpty (builders s)) /\
  (ph s = PExited -> alloc s = 0 /\ builders s = []).
Proof. exact c15_accounting. Qed.
Print Assumptions C15_accounting.

(* the executable monitor evaluated on the implementation's observations accepts every history of
   the model (so a rejected implementation history is a behaviour the model cannot show) *)
Theorem C15_monitor : forall univ ls, forallb mon15_obs (q_run univ mq_new ls) = true.
Proof. exact c15_monitor. Qed.
Print Assumptions C15_monitor.

(* one transaction: the reservation minus what became queued block bytes is returned in the same
   call; a build refused because the stream was closed or the queue shut down queues nothing and
   returns the whole reservation *)
Theorem C15_build_reservation : forall s r ops, CInv s ->
  let s' := fst (do_build s r ops) in
  alloc s' + qsum (builders s) = alloc s + qsum (builders s') /\
  ((mem_req r (closed s) || done s) = true -> alloc s' = alloc s /\ builders s' = builders s).
Proof. exact c15_build_reservation. Qed.
Print Assumptions C15_build_reservation.

(* Non-vacuity: extension data and three queued messages for one request, the first send fails and so
   does the reconnect: 300000-byte blocks of request 1 queued in two more messages are scrubbed and
   everything is returned. *)
Example C15_failure_history :
  let ls := [(LBuild 1 [TBlock 1 300000 true; TExt 100], true); (LBuild 1 [TBlock 2 300000 true], true);
             (LBuild 1 [TBlock 3 300000 true], true); (LBuild 2 [TBlock 4 5 true], true);
             (LNet true, true); (LNet false, true); (LNet false, true)] in
  map (fun s => (alloc s, map b_blk (builders s), phase_code (ph s))) (q_states mq_new ls) =
  [(300000, [], 1); (600000, [300000], 1); (900000, [300000; 300000], 1); (900005, [300000; 300005], 1);
   (900005, [300000; 300005], 2); (900005, [300000; 300005], 1); (5, [], 1)].
Proof. vm_compute. reflexivity. Qed.

(* the monitor rejects what the unrepaired code produced: extension bytes still accounted when idle,
   and bytes of scrubbed builders still accounted after a failure *)
Example C15_monitor_rejects_leak :
  mon15_obs {| qo_alloc := 100; qo_sizes := []; qo_nonempty := 0; qo_phase := 0; qo_events := []; qo_wire := [] |} = false /\
  mon15_obs {| qo_alloc := 614400; qo_sizes := []; qo_nonempty := 0; qo_phase := 4; qo_events := []; qo_wire := [] |} = false.
Proof. vm_compute. split; reflexivity. Qed.
