(* C02 — A single request retrieves every block that either peer can supply: the last open part
   (a non-empty locally loaded prefix before the request goes online).  Only statements; proofs are in
   GS.C02Trie (the Verifier's replay over the traversal record), GS.C02Replay (stream with
   do-not-send-first-blocks, replay under any chunking/delivery), GS.C02Quiet (the step that goes online),
   GS.C02PrefixProofs (quiet-phase simulation; uses the online simulation of GS.C02Online / GS.C02Chunks). *)
From Coq Require Import List NArith Bool.
From GS Require Import Base Ltree RecLoader ReqExec RecLoaderProofs C02Online C02Chunks C02Prefix C02Trie C02PrefixProofs.
Import ListNotations.
Open Scope N_scope.

(* For EVERY well-formed plan, EVERY pair of stores agreeing on the bytes of common CIDs, EVERY chunking of the
   responder's metadata and blocks into messages and EVERY interleaving of message delivery with the executor's
   loads: what the requestor delivers (visits in order), the missing-block errors it reports, the absence of any
   other error and its final store are exactly the reference's.  Guards (all executable predicates):
     - the responder holds the root (otherwise finding C02-F2, C02_rootmissing_refuted);
     - no_F1 t L R: not finding C02-F1 (C02_skipcount_refuted); exactly the complement of the driver's tag
       skip_misaligned: the request never goes online (all_local_tree), or no link below a link that the
       responder lacks was loaded locally before the first local miss (no_F1_scan);
     - trie_ordered t: at every moment of the traversal the traversal record's verification order (a node
       before its children, children in first-insertion order) is the traversal order.  This holds for every
       go-ipld-prime traversal and is NOT implied by wf_plan (C02_wf_plan_insufficient below): wf_plan lets the
       children of one inline node be visited non-contiguously.
   Subsumes C02_online_partial (root not held locally: nothing loaded before going online). *)
Theorem C02_holds_guarded :
  forall t L R sizes sched,
    wf_plan t = true -> agree R L -> aget (root_cid t) R <> None ->
    trie_ordered t = true -> no_F1 t L R = true ->
    model_outcome t L R sizes sched = ref_outcome t L R.
Proof. exact c02_holds_guarded. Qed.
Print Assumptions C02_holds_guarded.

(* The case without any traffic: the requestor holds every link its traversal reaches (no guard besides the
   stores agreeing; any plan). *)
Theorem C02_all_local :
  forall t L R sizes sched,
    agree R L -> all_local_tree L t = true -> model_outcome t L R sizes sched = ref_outcome t L R.
Proof. exact c02_all_local. Qed.
Print Assumptions C02_all_local.

(* The Verifier's replay, in isolation: links recorded by successful local loads (RecordNextStep), verified
   against the responder's entries for exactly these links in the record's own order — whatever follows in
   the stream — are all consumed, nothing more, verification ends done, and the path tracker is left at the
   last of them that the responder lacks.  [pres R c]: the responder holds c; a link it lacks has no
   recorded link below it. *)
Theorem C02_replay_consumes_prefix :
  forall R ns, ns <> [] -> tlist (trie_of ns) [] = ns ->
    (forall q c, In (q, c) ns -> C02Trie.pres R c = false -> forall q' c', In (q', c') ns -> proper_prefix q q' = false) ->
    forall u rest,
      C02Trie.vreplay (trie_of ns) (new_verifier (trie_of ns)) u (map (C02Trie.ent R) ns ++ rest)
      = Some (VEmpty, C02Trie.ulast R u ns, rest).
Proof. exact C02Trie.replay_own. Qed.
Print Assumptions C02_replay_consumes_prefix.

(* wf_plan alone does not give the statement: root -> children at paths 1/5, 2, 1/6, 3 (pairwise
   prefix-incomparable, so wf_plan holds; no real traversal visits 1/5, then 2, then 1/6).  The requestor holds
   everything but the last block: the record's order is root, 1/5, 1/6, 2, the responder's stream is root, 1/5,
   2, 1/6, ...; the replay fails with RemoteIncorrectResponseError and the last block is never fetched. *)
Definition witness_order : ltree :=
  LNode [] 0 (IChild (LNode [1; 5] 1 INil) (IChild (LNode [2] 2 INil) (IChild (LNode [1; 6] 3 INil) (IChild (LNode [3] 4 INil) INil)))).
Theorem C02_wf_plan_insufficient :
  exists t L R, wf_plan t = true /\ aget (root_cid t) R <> None /\ no_F1 t L R = true /\ trie_ordered t = false /\
    o_other_errs (model_outcome t L R [] []) = 2 /\ o_store (model_outcome t L R [] []) = [0; 1; 2; 3] /\
    o_other_errs (ref_outcome t L R) = 0 /\ o_store (ref_outcome t L R) = [0; 1; 2; 3; 4].
Proof. exists witness_order, (store_of [0; 1; 2; 3]), (store_of [0; 1; 2; 3; 4]). vm_compute. repeat split. discriminate. Qed.
Print Assumptions C02_wf_plan_insufficient.

(* Non-vacuity: a 7-link plan with an inline node and a repeated CID; the requestor holds the root, one
   subtree root and a leaf, the responder lacks that subtree root: two links are loaded locally, the request
   goes out with do-not-send-first-blocks = 2 below the link the responder lacks, the prefix is replayed; three
   chunkings/schedules.  The guards hold and the outcome is the reference's. *)
Example C02_full_nonvacuous :
  let t := LNode [] 0 (IVisit 0 (IChild (LNode [0] 1 (IVisit 1 (IChild (LNode [0; 0] 2 (IVisit 2 INil)) (IChild (LNode [0; 1] 3 (IVisit 3 INil)) INil))))
                         (IChild (LNode [1; 5] 4 (IVisit 4 (IChild (LNode [1; 5; 0] 2 (IVisit 5 INil)) INil)))
                         (IChild (LNode [2] 6 (IVisit 6 INil)) INil)))) in
  let L := store_of [0; 1; 3] in let R := store_of [0; 2; 4; 6] in
  wf_plan t = true /\ trie_ordered t = true /\ no_F1 t L R = true /\
  ref_outcome t L R = Build_outcome [0; 1; 3; 4; 5; 6] [([0; 0], 2)] 0 [0; 1; 2; 3; 4; 6] true /\
  model_outcome t L R [] [] = ref_outcome t L R /\
  model_outcome t L R [1; 1; 1; 1]%nat [0; 0; 3]%nat = ref_outcome t L R /\
  model_outcome t L R [0; 4]%nat [5]%nat = ref_outcome t L R /\
  (* the witness of finding C02-F1 (C02_skipcount_refuted) is excluded by the guard *)
  no_F1 (LNode [] 0 (IVisit 0 (IChild (LNode [0] 1 (IVisit 1 (IChild (LNode [0; 0] 2 (IVisit 2 INil)) (IChild (LNode [0; 1] 3 (IVisit 3 INil)) INil))))
                       (IChild (LNode [1] 4 (IVisit 4 INil)) INil))))
        (store_of [0; 1; 2; 3]) (store_of [0; 4]) = false.
Proof. vm_compute. repeat split. Qed.
