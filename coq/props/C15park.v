(* C15 (extension) — memory accounted to a peer when reservations WAIT in the allocator.
   Only statements; proofs are in GS.MsgQueueParkProofs (model GS.MsgQueuePark over GS.MsgQueue). *)
From Coq Require Import List NArith Bool.
From GS Require Import Base MsgQueue MsgQueueProofs MsgQueue16 MsgQueue16Proofs MsgQueuePark MsgQueueParkProofs.
Import ListNotations.
Open Scope N_scope.

(* For every per-peer limit and every history of transactions (granted at once or parked in the allocator),
   network outcomes, shutdowns (also inside a build), select choices and deliveries of the allocator's answers
   to parked callers at any later point: Allocator.AllocatedForPeer is exactly the block bytes of the queued
   builders, plus the message in flight, plus the reservations granted to callers that have not used them yet;
   with the goroutine idle nothing is queued; once the queue has exited nothing at all is accounted — a
   reservation answered after that (granted earlier, or refused by ReleasePeerMemory) never adds to it. *)
Theorem C15_parked_accounting : forall limit ls,
  let s := prun gstep limit ls in let q := g_s (p_g s) in
  p_total s = qsum (builders q) + inflight_size (ph q) + ready_sum (p_ready s) /\
  (ph q = PIdle -> qsum (builders q) = 0 /\ p_total s = ready_sum (p_ready s)) /\
  (ph q = PExited -> builders q = [] /\ p_total s = 0).
Proof. exact c15_parked_accounting. Qed.
Print Assumptions C15_parked_accounting.

(* the executable monitor MON15P of driver mq16 accepts every model history *)
Theorem C15_parked_monitor : forall univ limit ls, forallb mon15p_obs (p_run univ (p_new limit) ls) = true.
Proof. exact c15_parked_monitor. Qed.
Print Assumptions C15_parked_monitor.

(* Non-vacuity: limit 1000; 900 bytes in flight, a 500-byte and a 100-byte transaction wait (FIFO); the send
   frees 900 and grants both (600 accounted with the queue idle); Shutdown() and exit forget them; the callers
   then take their answers: nothing is queued, nothing accounted. *)
Example C15_parked_history :
  let ls := [(PL (L16 (LBuild 1 [TBlock 1 900 true])), true); (PL (L16 (LBuild 2 [TBlock 2 500 true])), true);
             (PL (L16 (LBuild 3 [TBlock 3 100 true])), true); (PL (L16 (LNet true)), true); (PL (L16 (LNet true)), true);
             (PL (L16 LShutdown), true); (PDeliver, true); (PDeliver, true)] in
  map (fun o => (qo_alloc (po_obs o), qo_sizes (po_obs o), qo_phase (po_obs o), (po_wait o, po_ready o, po_granted o)))
      (p_run [1; 2; 3] (p_new 1000) ls) =
  [(900, [], 1, (0, 0, 0)); (900, [], 1, (1, 0, 0)); (900, [], 1, (2, 0, 0)); (900, [], 2, (2, 0, 0));
   (600, [], 0, (0, 2, 600)); (0, [], 4, (0, 2, 0)); (0, [], 4, (0, 1, 0)); (0, [], 4, (0, 0, 0))].
Proof. vm_compute. reflexivity. Qed.
