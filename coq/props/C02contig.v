(* C02 — the plan guard of C02_holds_guarded in syntactic form.  Only statements; proofs are in GS.C02Contig. *)
From Coq Require Import List NArith Bool.
From GS Require Import Base Ltree RecLoader ReqExec C02Online C02Prefix C02PrefixProofs C02Contig.
Import ListNotations.
Open Scope N_scope.

(* [contiguous t]: for any three links visited in this order, every common path prefix of the first and the
   third is a prefix of the second — links sharing a path prefix (the children of one inline node) are visited
   contiguously, as in go-ipld-prime's depth-first traversal.  For a well-formed plan this implies
   [trie_ordered t]: the traversal record's verification order is the traversal order at every moment.
   ([contig_trie_order]: the same for ANY list of recorded links — both conditions pass to subsequences.) *)
Theorem C02_contiguous_trie_ordered :
  forall t, wf_plan t = true -> contiguous t = true -> trie_ordered t = true.
Proof. exact contiguous_trie_ordered. Qed.
Print Assumptions C02_contiguous_trie_ordered.

Theorem C02_contig_record_order :
  forall ns, orderedb ns = true -> contigb ns = true -> tlist (trie_of ns) [] = ns.
Proof. exact contig_trie_order. Qed.
Print Assumptions C02_contig_record_order.

(* C02 with guards that are all plain conditions on (plan, stores) *)
Theorem C02_holds_contiguous :
  forall t L R sizes sched,
    wf_plan t = true -> contiguous t = true -> agree R L -> aget (root_cid t) R <> None -> no_F1 t L R = true ->
    model_outcome t L R sizes sched = ref_outcome t L R.
Proof.
  intros t L R sizes sched Hwf Hc Hag HR HF. apply c02_holds_guarded; auto. now apply contiguous_trie_ordered.
Qed.
Print Assumptions C02_holds_contiguous.

(* the plan of C02_wf_plan_insufficient is not contiguous; the 7-link plan with an inline node is *)
Example C02_contiguous_examples :
  contiguous (LNode [] 0 (IChild (LNode [1; 5] 1 INil) (IChild (LNode [2] 2 INil) (IChild (LNode [1; 6] 3 INil) (IChild (LNode [3] 4 INil) INil))))) = false /\
  contiguous (LNode [] 0 (IVisit 0 (IChild (LNode [0] 1 (IVisit 1 (IChild (LNode [0; 0] 2 (IVisit 2 INil)) (IChild (LNode [0; 1] 3 (IVisit 3 INil)) INil))))
                         (IChild (LNode [1; 5] 4 (IVisit 4 (IChild (LNode [1; 5; 0] 2 (IVisit 5 INil)) INil)))
                         (IChild (LNode [1; 6] 6 (IVisit 6 INil)) INil))))) = true.
Proof. vm_compute. split; reflexivity. Qed.
