(* C10 — Messages from one peer cannot alter a response served to another.
   Only statements; proofs are in GS.RespMgrMsgProofs, the model in GS.RespMgrMsg.

   [fixed] is the response manager as it is in /repo now (owner checks in processRequests and on the
   subscriber's CloseWithNetworkError / TerminateRequest, commit "fix: cancel, update and new requests,
   and message notifications, reached the response of another peer ..."); [unfixed] is the pinned code.
   A label is foreign to peer p when it reaches the manager because of another peer: a message from
   that peer (any cancel / update / new requests, any request ids, any extensions, any hook results),
   or the message queue's report (stream closed, sent, network error) about a message built for it. *)
From Coq Require Import List NArith Bool.
From GS Require Import Base RespMgrMsg RespMgrMsgProofs RespMgrMsgTaskProofs.
Import ListNotations.
Open Scope N_scope.

(* Frame, every state: one foreign label leaves the whole slot of a request id owned by p untouched -
   table entry (state, pending updates, the three signals, stream, traversal position), parked
   executors and task-queue membership under that id - and outputs nothing addressed to or reported
   for p under that id (no hook call, no message, no listener notification, no protect/unprotect, no
   task-queue call). *)
Theorem C10_frame : forall p X s l,
  foreign p l = true -> owned_sl p (sget X s) = true ->
  sget X (fst (step fixed s l)) = sget X s /\ not_for p (outs_at X (snd (step fixed s l))).
Proof. exact c10_frame. Qed.
Print Assumptions C10_frame.

(* Projection, every state and every history (messages of any peers, API calls, task starts, executor
   steps with any block-hook result, send reports, in any order): p's response X goes through exactly
   the same sequence of (label, outputs under X, slot of X) - up to the moment it leaves the table - as
   in the same history with every foreign label removed. *)
Theorem C10_holds : forall p X s ls,
  owned_sl p (sget X s) = true ->
  gwalk p X true s ls = gwalk p X true s (filter (fun l => negb (foreign p l)) ls).
Proof. exact c10_holds. Qed.
Print Assumptions C10_holds.

(* The same for any two tables that agree on X's slot and any two histories that agree on the labels
   that are not foreign to p, cut down to X (so the foreign peers' own requests, tasks and reports
   under other ids may differ as well). *)
Theorem C10_projection : forall p X s1 s2 ls1 ls2,
  sget X s1 = sget X s2 -> owned_sl p (sget X s1) = true ->
  canon p X ls1 = canon p X ls2 ->
  gwalk p X true s1 ls1 = gwalk p X true s2 ls2.
Proof. exact c10_projection. Qed.
Print Assumptions C10_projection.

(* From a point where X's slot is the same in both and the first label naming X is not foreign (the
   shape the run-time monitor uses: X free, then requested by p). *)
Theorem C10_from_free : forall p X s1 s2 ls1 ls2,
  sget X s1 = sget X s2 -> head_ok p X ls1 = true -> head_ok p X ls2 = true ->
  canon p X ls1 = canon p X ls2 ->
  gwalk p X false s1 ls1 = gwalk p X false s2 ls2.
Proof. exact c10_from_free. Qed.
Print Assumptions C10_from_free.

(* Positive half: the owner's own cancel and update do reach the response. *)
Theorem C10_owner_cancel : forall p sl en,
  sl_ent sl = Some en -> e_peer en = p -> e_state en <> Completing ->
  let '(sl', o) := h_cancel fixed p sl in
  if is_running en
  then sl_ent sl' = Some (with_sigs en (e_pause en) (e_upd en) (match e_err en with Some x => Some x | None => Some ECancel end))
  else sl_ent sl' = None /\ In (SCancelled p (e_tag en)) o /\ In (SUnprotect p) o /\ aget p (sl_tq sl') <> Some TPending.
Proof. exact owner_cancel_effect. Qed.
Print Assumptions C10_owner_cancel.

Theorem C10_owner_update : forall p code ur ext sl en,
  sl_ent sl = Some en -> e_peer en = p -> e_state en <> Completing ->
  let '(sl', o) := h_update fixed p code ur ext sl in
  if is_paused en then In (SUpdHook p (e_tag en) code) o
  else exists en', sl_ent sl' = Some en' /\ e_upd en' = true /\
                   e_updates en' = e_updates en ++ [{| u_code := code; u_res := ur; u_ext := ext |}].
Proof. exact owner_update_effect. Qed.
Print Assumptions C10_owner_update.

(* Frame for every label that is foreign in the run-time monitor's sense (mforeign): besides another
   peer's messages and send reports, a task start, an executor step (with or without its FinishTask
   held) or a late FinishTask under another peer's name.  With the owner check in startTask /
   finishTask, in every state in which p owns X and no executor started under another peer's name holds
   p's request (exec_sep: request objects are distinct in Go; the model's tags could collide in an
   arbitrary state), p's view of X's slot - the table entry with its signals, updates and stream, p's
   own parked executors, p's own task-queue row - is unchanged, and nothing is output for p under X.
   The other peer's own task-queue row / executor under X may go: that is its task being retired. *)
Theorem C10_frame_tasks : forall p X s l,
  mforeign p l = true -> owned_sl p (sget X s) = true -> exec_sep p (sget X s) ->
  same_view p (sget X (fst (step fixed s l))) (sget X s) /\ quiet_for p (outs_at X (snd (step fixed s l))).
Proof. exact c10_mframe. Qed.
Print Assumptions C10_frame_tasks.

(* Without that check (c_task off, the code before commit 55563c9) it fails: corpus/resppeer/w7 - peer
   2's response 1 ends, its FinishTask is held, the sent reports retire the entry, peer 1 takes id 1,
   the late FinishTask marks peer 1's queued entry CompletingSend. *)
Definition no_task_check : cfg :=
  {| c_cancel := true; c_update := true; c_new := true; c_notif := true; c_task := false |}.
Definition st_w7 : state :=
  final no_task_check [] [LMsg 2 [RNew 1 1 HAccept false 1]; LStart 2 1; LStepH 2 1 1 BNone false;
                          LSub true 2 1 1 14 1; LSub true 2 1 1 20 0; LMsg 1 [RNew 1 2 HAccept false 2]].
Theorem C10_refuted_no_task_check :
  (mforeign 1 (LFinish 2 1 0) = true) /\ (owned_sl 1 (sget 1 st_w7) = true) /\ exec_sep 1 (sget 1 st_w7) /\
  (option_map e_state (sl_ent (sget 1 st_w7)) = Some Queued) /\
  (option_map e_state (sl_ent (sget 1 (fst (step no_task_check st_w7 (LFinish 2 1 0))))) = Some Completing) /\
  (option_map e_state (sl_ent (sget 1 (fst (step fixed st_w7 (LFinish 2 1 0))))) = Some Queued).
Proof. vm_compute. repeat split; intros; contradiction. Qed.

(* ---- the pinned code violates the property: four witnesses (replayed on the real code by
   corpus/resppeer/w1..w4 before the fix) ---- *)
Definition st_running : state := fst (step unfixed (fst (step unfixed [] (LMsg 1 [RNew 1 1 HAccept false 3]))) (LStart 1 1)).
Definition st_paused : state := fst (step unfixed [] (LMsg 1 [RNew 1 1 HPause false 2])).

Theorem C10_refuted_unfixed :
  (* cancel from peer 2 puts the error signal into peer 1's running response *)
  (owned_sl 1 (sget 1 st_running) = true /\
   sget 1 (fst (step unfixed st_running (LMsg 2 [RCancel 1]))) <> sget 1 st_running) /\
  (* update from peer 2 runs the update hook in peer 1's name and unpauses its response *)
  (owned_sl 1 (sget 1 st_paused) = true /\
   snd (step unfixed st_paused (LMsg 2 [RUpdate 1 9 UUnpause false])) = [(1, SUpdHook 1 1 9); (1, SMsg 1 0 0 0); (1, SPush 1)]) /\
  (* new from peer 2 replaces peer 1's table entry *)
  (owned_sl 2 (sget 1 (fst (step unfixed st_paused (LMsg 2 [RNew 1 7 HReject false 1])))) = true) /\
  (* a failed message of peer 2's earlier response under the same id closes peer 1's response *)
  (sl_ent (sget 1 (fst (step unfixed st_paused (LSub false 2 1 5 15 0)))) = None).
Proof. vm_compute. repeat split; discriminate. Qed.

(* ---- non-vacuity ---- *)
Definition hist_w : list label :=
  [LMsg 1 [RNew 1 1 HAccept true 2; RNew 2 2 HPause false 2]; LStart 1 1;
   LMsg 2 [RCancel 1; RUpdate 2 9 UUnpause true; RNew 1 3 HAccept false 1; RNew 5 4 HAccept false 1];
   LSub true 2 1 0 30 0; LMsg 3 [RNew 2 5 HError false 1];
   LStep 1 1 1 BNone false; LMsg 1 [RUpdate 2 8 UUnpause false]; LStart 1 2; LStep 1 1 1 BNone true;
   LSub true 1 1 1 20 0].

(* the history is not trivial: response 1 runs to completion and is retired by its sent report,
   response 2 is unpaused by its owner's update only; the foreign requests are refused *)
Example C10_nonvacuous :
  map (fun x => snd (fst x)) (gwalk 1 1 false [] hist_w) =
    [ [SProtect 1; SReqHook 1 1; SMsg 1 1 0 14; SPush 1]; [SProcessing 1 1; SBlkHook 1 1];
      [SMsg 1 0 1 14; SBlkHook 1 1]; [SMsg 1 1 1 14; SMsg 1 0 0 20; SDone 1]; [SUnprotect 1; SCompleted 1 1 20] ] /\
  gwalk 1 1 false [] hist_w = gwalk 1 1 false [] (filter (fun l => negb (foreign 1 l)) hist_w) /\
  outs_at 1 (snd (step fixed (final fixed [] (firstn 2 hist_w)) (nth 2 hist_w (LApi 0 APause)))) = [SMsg 2 0 0 30] /\
  length (gwalk 1 2 false [] hist_w) = 3%nat.
Proof. vm_compute. repeat split. Qed.

(* the executable monitor on the model's own observations: accepted with the checks, rejected without *)
Example C10_monitor_accepts :
  rcase_mon (mk_rcase (model_hist fixed hist_w) (model_hist fixed (filter (fun l => negb (foreign 1 l)) hist_w))) = true.
Proof. vm_compute. reflexivity. Qed.
Example C10_monitor_rejects_unfixed :
  rcase_mon (mk_rcase (model_hist unfixed hist_w) (model_hist unfixed (filter (fun l => negb (foreign 1 l)) hist_w))) = false.
Proof. vm_compute. reflexivity. Qed.
