(* C04 — Every request's result channels terminate with the right outcome.
   Only statements; proofs are in GS.ReqMgrProofs, GS.ReqMgrLive and GS.ReqMgrCC.  The model is the labelled
   transition system GS.ReqMgr.step of ONE request inside requestmanager.RequestManager: actor loop +
   mailbox, table entry, task queue, executor, traverser goroutine, reconciled loader (queue length,
   online flag), the three contexts, the internal channels, the two collector goroutines with their
   buffers, and the caller.  "All interleavings of response arrival, caller cancellation, pauses,
   hook errors and send failures, for any DAG and selector" = all label lists [ls] from [init pl]
   for all traversal plans [pl].

   FULL STATEMENT (kept visible; what is proved of it is listed below):
     safety   (S1) nothing is delivered on a returned channel after it closed, each closes at most once;
              (S2) caller cancellation (context or API) of a request in the table sends a cancel to the
                   responder and RequestClientCancelledErr reaches the error channel;
              (S3) a responder failure status n yields exactly one terminal error AsError(n) before
                   close, and the request is cancelled locally;
              (S4) a success status closes the channels after the remaining data, no terminal error;
     liveness (L)  in every reachable state in which a terminal status was processed or the caller has
                   cancelled and the channels are not both closed, some non-environment label is
                   enabled, and a nat-valued measure decreases on every non-environment step
                   (=> every weakly fair run in which the caller keeps reading closes both channels).
   PROVED HERE (all closed under the global context):
     S1 full: C04_no_delivery_after_close.
     S2: C04_live_ctx_cancel_delivers_client_cancelled (ClientCancelled before the error channel closes, after
         the first context cancel of a request in the table -- unconditional), C04_live_ctx_cancel_enqueues_cancel
         and C04_collector_cancel_at_most_once (what the collector does with its cancel message),
         C04_cancel_sends_cancel (the loop sends exactly one cancel per cancel message it handles for a request
         in the table).
     S3: C04_status_error_at_most_once, C04_failure_status_exactly_once (history level; exactly one AsError(n)
         before close when the caller does not cancel its context), C04_failure_status_recorded,
         C04_terminal_error_sticky.
     S4: C04_success_only_no_status_error.
     L, deadlock freedom FULL: C04_no_stuck (+ C04_no_stuck_after_cancel, C04_no_stuck_offline).
     L, ranking: only for the collector half (C04_progress_collectors_partial).  NOT PROVED: a ranking function
         for the loop / executor / traverser half (termination of the wind-down is bounded by the traversal plan;
         not formalised), so "eventually closes" is deadlock freedom + collector ranking, not a full proof.
     Invariants: C04_closed_entry_gone; repaired race windows: C04_cancelled_request_never_goes_online,
         C04_cancelled_request_not_parked.  Acceptor: C04_acceptor_sound.
   Method for the invariants and deadlock freedom: finite data abstraction (GS.ReqMgrAbs), simulation proof
   (GS.ReqMgrAbsK), reachable set computed and checked closed by vm_compute (GS.ReqMgrAbsV, 10272 states). *)
From Coq Require Import List NArith Bool Arith.
From GS Require Import Base ReqMgr ReqMgrProofs ReqMgrLive ReqMgrCC ReqMgrInv ReqMgrInvK ReqMgrNoStuck ReqMgrCount ReqMgrOutcome ReqMgrCancel ReqMgrAccept.
Import ListNotations.

(* S1, full: for every plan and every label sequence the event history of the run contains no delivery
   on a returned channel after its close and no second close. *)
Theorem C04_no_delivery_after_close : forall pl ls s es,
  run (init pl) ls = Some (s, es) -> ev_ok false false es = true.
Proof. exact c04_no_delivery_after_close. Qed.
Print Assumptions C04_no_delivery_after_close.

(* S2, handler level: in ANY state in which the request is in the table, the loop handling a cancel
   message (from cancelRequestAndClose after a context cancel: api = false; from CancelRequest:
   api = true) emits exactly one cancel message for the responder and leaves the request locally
   cancelled (running with cancelled context and loader offline, or terminating, or gone); an API cancel
   records RequestClientCancelledErr as the terminal error unless one was recorded before. *)
Theorem C04_cancel_sends_cancel : forall api s en,
  ent s = Some en ->
  exists s1, handle (MCancel api) s = Some (s1, [EvSend OCancel]) /\ locally_cancelled s1 /\
             (api = true -> e_terr en = None -> exists e1, ent s1 = Some e1 /\ e_terr e1 = Some ErrCC).
Proof. exact cancel_handled. Qed.
Print Assumptions C04_cancel_sends_cancel.

(* S2, history level, ClientCancelled half: from ANY state in which the error collector still listens to
   the internal error channel (ec = ECRun true -- the case whenever the request is in the table), if the
   caller cancels the context then, over every continuation (every interleaving), the returned error
   channel is not closed before RequestClientCancelledErr has been delivered on it. *)
Theorem C04_ctx_cancel_delivers_client_cancelled : forall s ls s' es,
  ec s = ECRun true ->
  run s (LEnvCtxCancel :: ls) = Some (s', es) ->
  ec s' = ECExit -> In (EvDelivE ErrCC) es.
Proof. exact c04_ctx_cancel_cc. Qed.
Print Assumptions C04_ctx_cancel_delivers_client_cancelled.

(* S2, history level, ClientCancelled half, UNCONDITIONAL: on every run from the initial state, the first
   context cancel of a request that is still in the table is answered by RequestClientCancelledErr before
   the returned error channel closes, over every continuation.  (The premise of the previous theorem is
   discharged by two invariants of all reachable states: closed internal channels imply the entry is gone
   [computed over the finite abstraction, GS.ReqMgrAbsV], and the collector invariant [GS.ReqMgrInv].) *)
Theorem C04_live_ctx_cancel_delivers_client_cancelled : forall pl ls1 s1 e1 ls2 s2 e2,
  run (init pl) ls1 = Some (s1, e1) -> ent s1 <> None -> cctx s1 = false ->
  run s1 (LEnvCtxCancel :: ls2) = Some (s2, e2) -> ec s2 = ECExit -> In (EvDelivE ErrCC) e2.
Proof. exact c04_live_ctx_cancel_cc. Qed.
Print Assumptions C04_live_ctx_cancel_delivers_client_cancelled.

(* Invariants of every reachable state (all plans, all label sequences): the internal channels are closed
   only after the table entry is gone and the loop is idle again; while the request is in the table and the
   caller has not cancelled, the error collector listens to the internal error channel. *)
Theorem C04_closed_entry_gone : forall pl ls s es,
  run (init pl) ls = Some (s, es) -> iclosed s = true -> ent s = None /\ lpc s = LIdle.
Proof. exact closed_entry_gone. Qed.
Print Assumptions C04_closed_entry_gone.

(* S2, history level, cancel-message half (what the code does exactly).  After the first context cancel of
   a request that is in the table, before the returned progress channel closes the response collector has
   either enqueued its cancel message for the actor loop (cancelRequestAndClose; the loop then sends the cancel
   to the responder iff it still finds the request in the table: C04_cancel_sends_cancel), or it had already
   seen the internal progress channel closed (the request terminated on its own before the collector reacted).
   The collector enqueues that message at most once per run.  (Further cancel messages come from CancelRequest
   calls and from every executor stop on an error or pause; ClientCancelled itself can be delivered twice:
   once from the channel-closed branch and once from the requestCtx.Done() branch of the error collector.) *)
Theorem C04_live_ctx_cancel_enqueues_cancel : forall pl ls1 s1 e1 ls2 s2 e2,
  run (init pl) ls1 = Some (s1, e1) -> ent s1 <> None -> cctx s1 = false ->
  run s1 (LEnvCtxCancel :: ls2) = Some (s2, e2) -> rc s2 = RCExit ->
  In (LRC RSendCancel) ls2 \/ In (LRC RSeeClosedP) ls2.
Proof. exact c04_live_ctx_cancel_msg. Qed.
Print Assumptions C04_live_ctx_cancel_enqueues_cancel.

Theorem C04_collector_cancel_at_most_once : forall ls s s' es,
  run s ls = Some (s', es) -> (count_send ls + rc_unsent s' <= rc_unsent s)%nat.
Proof. exact collector_cancel_once. Qed.
Print Assumptions C04_collector_cancel_at_most_once.

(* S3 / S4, HISTORY LEVEL.  [delivered P es] counts the deliveries on the returned error channel of errors
   selected by P; [recorded P s0 ls] counts the steps of the run at which the loop records such an error as
   the FIRST terminal error of the request (a failure status, no response-hook error, processed while the
   request is in the table with no terminal error yet) -- at most one step in any run.
   (a) never more than one status-derived error is delivered, whatever the interleaving;
   (b) if the caller does not cancel its context, then when the returned error channel has been closed,
       AsError(n) has been delivered exactly as often (0 or 1) as status n was recorded, and the total of
       status errors delivered equals the total recorded: exactly one terminal error AsError(n) before
       close for a recorded failure status n, none for a different status, none at all without one;
   (c) if the responder sends no failure status at all (partial / success only), no status-derived
       terminal error is ever delivered.
   With a caller-context cancel the error may be dropped instead (collector exits after ClientCancelled,
   cancelRequestAndClose drains): then only (a) holds. *)
Theorem C04_status_error_at_most_once : forall pl ls s es,
  run (init pl) ls = Some (s, es) -> dP is_stat es <= 1.
Proof. exact c04_status_error_at_most_once. Qed.
Print Assumptions C04_status_error_at_most_once.

Theorem C04_failure_status_exactly_once : forall pl ls s es n,
  run (init pl) ls = Some (s, es) -> cctx s = false -> ec s = ECExit ->
  dP (is_statn n) es = created (is_statn n) (init pl) ls /\
  created (is_statn n) (init pl) ls <= 1 /\
  dP is_stat es = created is_stat (init pl) ls.
Proof. exact c04_failure_status_exactly_once. Qed.
Print Assumptions C04_failure_status_exactly_once.

Theorem C04_success_only_no_status_error : forall pl ls s es,
  run (init pl) ls = Some (s, es) -> forallb (fun l => negb (fail_label l)) ls = true -> dP is_stat es = 0.
Proof. exact c04_success_only_no_status_error. Qed.
Print Assumptions C04_success_only_no_status_error.

(* S3, handler level: a failure status n for a request in the table with no terminal error yet records
   exactly AsError(n), cancels the request locally and sends nothing. *)
Theorem C04_failure_status_recorded : forall r n s en,
  ent s = Some en -> e_terr en = None -> r_hookerr r = false -> r_status r = SFail n ->
  exists s1, handle (MResp r) s = Some (s1, []) /\ locally_cancelled s1 /\
             exists e1, ent s1 = Some e1 /\ e_terr e1 = Some (ErrStatus n).
Proof. exact failure_handled. Qed.
Print Assumptions C04_failure_status_recorded.

Theorem C04_terminal_error_sticky : forall e eo s x, e_terr e = Some x ->
  match ent (cancel_on_error e eo s) with Some e1 => e_terr e1 = Some x | None => True end.
Proof. exact terr_sticky. Qed.
Print Assumptions C04_terminal_error_sticky.

(* The two defects found by this property and repaired in /repo (1f71cc8, 5063fd7), as facts of the
   model of the repaired code: a request whose context is cancelled never sets its loader online or
   sends its request message; the release of a cancelled running request terminates it even if the
   executor reports ErrPaused. *)
Theorem C04_cancelled_request_never_goes_online : forall c consumed s,
  xpc s = XGoOnline consumed -> rctx s = true -> exec_step c s = Some (s_xpc (XRelease false) (s_rq 0 s), []).
Proof. exact go_online_cancelled. Qed.
Print Assumptions C04_cancelled_request_never_goes_online.

Theorem C04_cancelled_request_not_parked : forall p s en,
  ent s = Some en -> xpc s = XAwaitDone -> rctx s = true ->
  handle (MRelease p) s = Some (terminate en true s, []).
Proof. exact release_cancelled_terminates. Qed.
Print Assumptions C04_cancelled_request_not_parked.

(* L, part 1 (deadlock freedom), FULL: in every reachable state (every plan, every interleaving) in which the
   returned channels are not both closed, some non-environment label is enabled -- the actor loop, the
   worker, the executor, the traverser, a rendezvous on an internal channel, a collector step, or the caller
   receiving (assumption "the caller keeps reading": the two caller labels count as enabled moves) -- unless
   the request is legitimately waiting: its context is neither cancelled by the caller nor locally, and it
   is either paused (waiting for UnpauseRequest) or running, online, with nothing queued, in BlockReadOpener
   (waiting for the responder).  Proved over the finite abstraction: 10272 control states x 220 collector
   states, 29 (condition, label) witnesses each proved sound on the concrete state. *)
Theorem C04_no_stuck : forall pl ls s es,
  run (init pl) ls = Some (s, es) -> both_closed s = false ->
  (exists l, In l (internal_labels ++ caller_labels) /\ enabled s l = true) \/ waiting s.
Proof. exact no_stuck. Qed.
Print Assumptions C04_no_stuck.

(* hence: once the caller has cancelled (context) or the request is cancelled locally (API cancel, failure
   status, hook error: rctx), no reachable state with an open returned channel is stuck; and once a terminal
   status has set the loader offline, a request that is not paused is never stuck either *)
Theorem C04_no_stuck_after_cancel : forall pl ls s es,
  run (init pl) ls = Some (s, es) -> both_closed s = false -> cctx s = true \/ rctx s = true ->
  exists l, In l (internal_labels ++ caller_labels) /\ enabled s l = true.
Proof. exact no_stuck_cancelled. Qed.
Print Assumptions C04_no_stuck_after_cancel.

Theorem C04_no_stuck_offline : forall pl ls s es,
  run (init pl) ls = Some (s, es) -> both_closed s = false -> ropen s = false ->
  (forall e, ent s = Some e -> e_state e <> Paused) ->
  exists l, In l (internal_labels ++ caller_labels) /\ enabled s l = true.
Proof. exact no_stuck_offline. Qed.
Print Assumptions C04_no_stuck_offline.

(* L, collector half (partial).  Assumptions, explicit: the caller keeps reading (LCallerRecvP /
   LCallerRecvE are among the labels counted as enabled) and the two collector goroutines are scheduled
   weakly fairly.  In every state that any step has produced (NF: loop conditions re-evaluated) in which
   the internal channels are closed and the returned channels are not both closed, a collector or
   caller label is enabled; every such label keeps the internal channels closed and strictly decreases
   coll_m.  Hence at most coll_m s further collector/caller steps happen before both close. *)
Theorem C04_progress_collectors_partial :
  (forall s l s' es, step s l = Some (s', es) -> NF s') /\
  (forall s, NF s -> iclosed s = true -> both_closed s = false ->
             exists l, In l coll_labels /\ enabled s l = true) /\
  (forall s l s' es, NF s -> In l coll_labels -> step s l = Some (s', es) ->
             coll_m s' < coll_m s /\ iclosed s' = iclosed s).
Proof.
  split; [exact step_nf|]. split; [exact coll_no_stuck|].
  intros s l s' es N Hin H. split; [exact (coll_rank s l s' es N Hin H) | exact (coll_keeps_closed s l s' es Hin H)].
Qed.
Print Assumptions C04_progress_collectors_partial.

(* The trace acceptor used by the correspondence leg is sound: an observation list it accepts is the
   observation of a run of the LTS -- each observation is related to LTS steps by [ostep] (environment /
   caller labels as themselves, "sent" / "loaded" as a silent path followed by one internal step with exactly
   that visible token, "quiet" as a silent path to a state in which no ungated internal label is enabled and
   whose gate and table entry are as observed); no state sets, fuel or deduplication in the meaning. *)
Theorem C04_acceptor_sound : forall gp gh ss tr,
  accepts_from gp gh ss tr = true -> exists s s2, In s ss /\ orun gp gh s tr s2.
Proof. exact accepts_from_sound. Qed.
Print Assumptions C04_acceptor_sound.

(* ---------- non-vacuity (vm_compute) ---------- *)
(* a chain of two blocks, nothing local: request sent, two blocks arrive with a success status, the
   caller reads everything; both channels close, no error *)
Definition pl2 := [Build_pentry 2 0 1 true; Build_pentry 2 0 0 false].
Definition happy : list label :=
  [LWorker; LExec CLoc; LLoop; LTrav TCNext DstEC; LExec CLoc; LExec CLoc; LExec CLocMiss; LExec CLoc;
   LEnvResp (Build_resp SSucc 2 false); LLoop;
   LExec CRemOk; LExec CLoc; LTrav TCVisit DstEC; LTrav TCVisit DstEC; LTrav TCNext DstEC; LExec CLoc;
   LExec CRemOk; LExec CLoc; LTrav TCVisit DstEC; LTrav TCVisit DstEC; LTrav TCNext DstEC; LExec CLoc; LExec CLoc;
   LLoop; LLoop;
   LCallerRecvP; LCallerRecvP; LCallerRecvP; LCallerRecvP; LRC RSeeClosedP; LEC ESeeClosed].
Example C04_nonvacuous_success :
  match run (init pl2) happy with
  | Some (s, es) => both_closed s = true /\
                    es = [EvLoad CLocMiss; EvSend ONew; EvLoad CRemOk; EvLoad CRemOk;
                          EvDelivP; EvDelivP; EvDelivP; EvDelivP; EvCloseP; EvCloseE]
  | None => False
  end.
Proof. vm_compute. split; reflexivity. Qed.

(* the same request, the caller cancels its context while the executor waits for the responder:
   a cancel message is sent, ClientCancelled is delivered, both channels close *)
Definition cancelled : list label :=
  [LWorker; LExec CLoc; LLoop; LTrav TCNext DstEC; LExec CLoc; LExec CLoc; LExec CLocMiss; LExec CLoc;
   LEnvCtxCancel; LEC ECtx; LRC RCtx; LRC RSendCancel; LLoop;
   LExec CLoc; LExec CLocMiss; LExec CLoc; LExec CLoc; LLoop; LTrav TCNext DstEC; LLoop;
   LCallerRecvE; LRC RSeeClosedP; LRC RSeeClosedE].
Example C04_nonvacuous_cancel :
  match run (init pl2) cancelled with
  | Some (s, es) => both_closed s = true /\
                    es = [EvLoad CLocMiss; EvSend ONew; EvSend OCancel; EvLoad CLocMiss; EvDelivE ErrCC; EvCloseE; EvCloseP]
  | None => False
  end.
Proof. vm_compute. split; reflexivity. Qed.

(* the event monitor rejects a delivery after close *)
Example C04_monitor_rejects : ev_ok false false [EvCloseP; EvDelivP] = false.
Proof. reflexivity. Qed.
