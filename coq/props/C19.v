(* C19 — Responder sends each block at most once per peer while it is in use.
   Only statements; proofs are in GS.LinkTrackerProofs. *)
From Coq Require Import List NArith Bool.
From GS Require Import Base LinkTracker LinkTrackerProofs.
Import ListNotations.
Open Scope N_scope.

(* Refinement: for every sequence of dedup-key / ignore / skip-first / traversal / finish operations
   over any number of interleaved requests of one peer, the history produced by the model of
   linktracker + peerLinkTracker (reference counts, per-key trackers, five maps) satisfies the
   executable specification monitor_C19, whose state is just "the requests in progress, each with
   its dedup scope and the links it traversed with a block":
     - a traversal's block is sent iff the block is present, the link is not among the skipped
       leading links, and no request in progress in the same dedup scope holds that link
       (so between two transmissions of a link in one scope every holder has finished);
     - finish reports complete-full iff the request recorded no missing block;
     - whenever no request is in progress every internal map is empty.
   The monitor claims nothing once a history leaves the protocol order (a dedup key assigned to a
   request that already has state); for histories inside it the model never hits the nil tracker. *)
Theorem C19_holds : forall ops,
  monitor_C19 ops (fst (lrun plt_new ops)) = true /\
  (wf_hist [] ops = true -> snd (lrun plt_new ops) = true).
Proof. exact c19_monitor. Qed.
Print Assumptions C19_holds.

(* The send decision in any state reachable inside the protocol. *)
Theorem C19_send_iff : forall ops r l has,
  wf_hist [] ops = true ->
  exists sp, R (lfinal plt_new ops) sp /\
    let x := sget r sp in
    snd (fst (lstep (lfinal plt_new ops) (LRecord r l has))) =
      OSend (has && (s_skip x <? s_count x + 1) && negb (held (s_scope x) l sp)) (s_count x + 1).
Proof. exact c19_send_iff. Qed.
Print Assumptions C19_send_iff.

(* Once every request has finished the tracker is literally the initial tracker: no state is kept,
   and therefore a later request is treated as the first one was (the block is sent again). *)
Theorem C19_idle_no_state : forall ops, spec_final [] ops = Some [] -> lfinal plt_new ops = plt_new.
Proof. exact c19_idle_no_state. Qed.
Print Assumptions C19_idle_no_state.

(* Non-vacuity: two interleaved requests in one scope and one in a keyed scope; link 7 is sent once
   while request 1 holds it, suppressed for request 2, sent to request 3 (other scope), and sent
   again after requests 1 and 2 have finished; request 2 met a missing block. *)
Example C19_nonvacuous :
  let ops := [LDedup 3 1; LRecord 1 7 true; LRecord 2 7 true; LRecord 3 7 true; LRecord 2 8 false;
              LFinish 1; LFinish 2; LRecord 4 7 true; LFinish 3; LFinish 4] in
  map lo_out (fst (lrun plt_new ops)) =
    [ONone; OSend true 1; OSend false 1; OSend true 1; OSend false 2; OFin true; OFin false;
     OSend true 1; OFin true; OFin true] /\
  wf_hist [] ops = true /\ spec_final [] ops = Some [] /\
  monitor_C19 ops (fst (lrun plt_new ops)) = true.
Proof. vm_compute. repeat split. Qed.

(* The monitor rejects a history in which the block is transmitted twice while in use. *)
Example C19_monitor_rejects_resend :
  monitor_C19 [LRecord 1 7 true; LRecord 2 7 true]
    [ Build_lobs (OSend true 1) [0; 1; 1; 0; 0; 0; 1; 0]; Build_lobs (OSend true 1) [0; 2; 1; 0; 0; 0; 2; 0] ] = false.
Proof. vm_compute. reflexivity. Qed.
