(* C06 — Pausing and resuming an exchange does not change its result (requestor side): pauses that take effect
   AFTER the request was sent.  Only statements; proofs are in GS.C06Frame (what one executor iteration does to
   the traversal record and the block count, in every loader state), GS.C06Stale (the loader after the pause:
   offline, still consuming what was queued; the load that takes it online again), GS.C06After. *)
From Coq Require Import List NArith Bool.
From GS Require Import Base Ltree RecLoader ReqExec C02Online C02Prefix PauseExec C06After.
Import ListNotations.
Open Scope N_scope.

(* For EVERY plan whose blocks the responder all holds ([resp_complete]; the requestor may hold any part),
   EVERY chunking of the responses into messages and EVERY interleaving of their delivery with the executor's
   loads, EVERY set of pauses — any block indices, before or after the request was sent, any number of them —
   each resumed after the in-flight messages of the cancelled response are gone ([drained]: pa_inflight = 0;
   otherwise finding C06-F1):  the paused and resumed request delivers the same visits, reports no error and
   ends with the same store as the reference (= the request that was never paused, C02).
   What happens in between (all in the model, transcribed from executor.go / reconciledloader): the pause sets
   the loader offline and forgets what was in flight; the resumed traversal keeps consuming the items still
   queued; the first load that finds neither a queued item nor a local block goes online again
   (SetRemoteOnline(true) clears the queue — fix cb5b48f — and creates a verifier over everything loaded so
   far, local or remote), sends do-not-send-first-blocks = blocks loaded so far, RetryLastLoad replays the whole
   loaded prefix against the new response and continues.  Guard on the plan: [trie_ordered] (see C02full.v).
   Partial: a responder lacking blocks of the plan is not covered (needs the replay over records containing
   failed loads, and the guard "no link below a link the responder lacks is loaded locally"). *)
Theorem C06_pause_after_send_complete_partial :
  forall t L R sizes sched pauses,
    agree R L -> resp_complete t R = true -> trie_ordered t = true -> drained pauses = true ->
    paused_outcome t L R sizes sched pauses = ref_outcome t L R.
Proof. exact c06_after_complete. Qed.
Print Assumptions C06_pause_after_send_complete_partial.

(* Non-vacuity: the 7-link plan of C06_nonvacuous, the requestor holds the root and one leaf, the responder
   everything; pauses after blocks 1 (still local), 3 and 5 (after the request was sent; the second one while
   items of the first response are still queued), three chunkings/schedules. *)
Example C06_after_nonvacuous :
  let t := LNode [] 0 (IVisit 0 (IChild (LNode [0] 1 (IVisit 1 (IChild (LNode [0; 0] 2 (IVisit 2 INil)) (IChild (LNode [0; 1] 3 (IVisit 3 INil)) INil))))
                         (IChild (LNode [1; 5] 4 (IVisit 4 (IChild (LNode [1; 5; 0] 2 (IVisit 5 INil)) INil)))
                         (IChild (LNode [2] 6 (IVisit 6 INil)) INil)))) in
  let L := store_of [0; 3] in let R := store_of [0; 1; 2; 3; 4; 6] in
  let ps := [Build_pause 1 0; Build_pause 3 0; Build_pause 5 0] in
  resp_complete t R = true /\ trie_ordered t = true /\ drained ps = true /\
  ref_outcome t L R = Build_outcome [0; 1; 2; 3; 4; 5; 6] [] 0 [0; 1; 2; 3; 4; 6] true /\
  paused_outcome t L R [] [] ps = ref_outcome t L R /\
  paused_outcome t L R (repeat 1%nat 20) [] ps = ref_outcome t L R /\
  paused_outcome t L R [2; 2]%nat (repeat 9%nat 20) ps = ref_outcome t L R /\
  (* the requests that went out in the second of these runs, newest first: the two pauses after the first
     request each led to a new request, with do-not-send-first-blocks = blocks loaded so far *)
  filter (fun e => match e with XSend _ => true | _ => false end)
         (x_log (p_x (fst (fst (run_paused proper_prefix (honest t R (repeat 1%nat 20)) 0 false t L [] ps))))) = [XSend 6; XSend 4; XSend 1].
Proof. vm_compute. repeat split. Qed.
