(* C01 — Requestor only delivers and stores verified, selector-reachable data.
   Only statements; proofs are in GS.RecLoaderProofs. *)
From Coq Require Import List NArith Bool.
From GS Require Import Base Ltree RecLoader ReqExec RecLoaderProofs.
Import ListNotations.
Open Scope N_scope.

(* For every traversal plan (every DAG shape, selector, codec), every function [hash] from byte strings to
   CIDs, every local store whose blocks are stored under their own hash, EVERY sequence of response
   messages (any sender, any request id, any metadata, any statuses, any blocks — subject only to the
   decoder's contract that a message's blocks are keyed by the hash of their bytes, message/v2 fromIPLD),
   arriving in every interleaving with the traversal's loads ([sched]: how many messages arrive before each
   load; further ones arrive while a load waits), for the loader with either path comparison:
     (i)  every block handed to the traversal for link c hashes to c  — so the nodes delivered are decoded
          from the genuine bytes of exactly the links the selector traversal asks for, i.e. the delivered
          sequence is that of [run_tree] over the plan for the availability given by the load answers;
     (ii) every commit to the local store is (c, b) with hash b = c, and (exec model, load_wait) it is
          logged only inside the load of that very link c, as the block that load returns;
     (iii) the final store maps every key to a block with that hash (nothing else was written). *)
Theorem C01_holds :
  forall (hash : block -> cid) (below : path -> path -> bool) (responder : N -> list msg) (dnsfb : N),
  (forall skip, Forall (msg_ok hash) (responder skip)) ->
  forall t L feed sched,
    keyed hash L -> Forall (msg_ok hash) feed ->
    let x := fst (fst (run_request below responder dnsfb t L feed sched)) in
    Forall (ev_ok hash) (x_log x) /\ keyed hash (x_store x).
Proof. intros hash below responder dnsfb Hr t L feed sched. exact (c01_main hash below responder dnsfb Hr t L feed sched). Qed.
Print Assumptions C01_holds.

(* Non-vacuity: plan root(1) -> {a: 2, b: 3}; the requestor holds nothing; the peer (and a third peer)
   send: a forged block under link 2's metadata entry (its key is the hash of the forged bytes, 77), a
   message from another peer, one for another request, then the genuine data.  The forged block is never
   stored or delivered; the genuine ones are. *)
Example C01_nonvacuous :
  let t := LNode [] 1 (IVisit 0 (IChild (LNode [0] 2 (IVisit 1 INil)) (IChild (LNode [1] 3 (IVisit 2 INil)) INil))) in
  let feed := [ Build_msg 0 [Build_resp 0 [(1, Present); (2, Present)] StInfo] [(1, 1); (77, 77)];
                Build_msg 5 [Build_resp 0 [(3, Present)] StInfo] [(3, 3)];
                Build_msg 0 [Build_resp 9 [(3, Present)] StInfo] [(3, 3)];
                Build_msg 0 [Build_resp 0 [(3, Present)] StOk] [(3, 3)] ] in
  let r := run_request proper_prefix (fun _ => feed) 0 t [] [] [] in
  visits_of (snd (fst r)) = [0; 2] /\
  keyset (x_store (fst (fst r))) = [1; 3] /\
  missing_of (x_errs (fst (fst r))) = [([0], 2)].
Proof. vm_compute. repeat split. Qed.

(* The executable monitor used on the implementation's observations rejects a commit of forged bytes. *)
Example C01_monitor_rejects_forged :
  adv_mon (Build_advcase (LNode [] 1 (IVisit 0 INil)) [] [] [0] [] [(1, 77)] [1]) = false.
Proof. vm_compute. reflexivity. Qed.
