(* C20 — Concurrent requests between two peers each retrieve completely: two requests in DIFFERENT deduplication
   scopes (dedup-by-key extension), plans may share blocks.  Only statements; proofs in GS.C20Scopes (on GS.C20Resp:
   the C02/C06 requestor development for a responder that withholds the blocks of fewer leading entries than the
   request asked for, GS.C20Streams, GS.C02Run). *)
From Coq Require Import List NArith Bool.
From GS Require Import Base Ltree RecLoader ReqExec C02Online C02Prefix C02Contig C02Run C06Guard.
From GS Require Import LinkTracker Concurrent ConcurrentGen C20Resp C20Scopes.
Import ListNotations.
Open Scope N_scope.

(* For EVERY pair of plans (sharing any blocks), stores agreeing on common CIDs, EVERY interleaving of the two
   responder traversals over the shared link tracker, either order of the two requestor executions, EVERY chunking
   and delivery schedule of each response: if the two requests carry different dedup keys then
   - the request whose traversal the requestor runs first ends as it would alone (C02 guards over the initial store);
   - the other one — it starts from the store the first one left, while its response was built for the
     do-not-send-first-blocks value of the initial store — ends exactly as the reference says for the store it starts
     from ([guards2]: wf_plan, contiguous, root held by the responder, no_local_below_missing, over that store).
     It never delivers less than alone: the store it starts from contains the initial one. *)
Theorem C20_scopes_guarded :
  forall (L R : store) (q1 q2 : creq) (order : list bool) (first2 : bool) (dv1 dv2 : delivery),
    cq_dedup q1 <> cq_dedup q2 -> agree R L ->
    (if first2
     then c02_guards (cq_plan q2) L R = true /\ guards2 (cq_plan q1) (fst (ref_tree R (cq_plan q2) true L)) R = true
     else c02_guards (cq_plan q1) L R = true /\ guards2 (cq_plan q2) (fst (ref_tree R (cq_plan q1) true L)) R = true) ->
    let r := run_two_gen L R q1 q2 order first2 dv1 dv2 in
    if first2
    then same_result (snd r) (solo L R q2) = true /\
         same_result (fst r) (ref_outcome (cq_plan q1) (fst (ref_tree R (cq_plan q2) true L)) R) = true
    else same_result (fst r) (solo L R q1) = true /\
         same_result (snd r) (ref_outcome (cq_plan q2) (fst (ref_tree R (cq_plan q1) true L)) R) = true.
Proof. exact c20_scopes. Qed.
Print Assumptions C20_scopes_guarded.

(* The requestor-side fact behind it, of independent interest (C24: the do-not-send-first-blocks value is an
   optimisation, not a contract): a responder that withholds the blocks of FEWER leading entries than the request
   asked for — any function [resp] with resp k = the honest stream for some nbf <= k — leads to the same outcome:
   the surplus blocks arrive with entries the Verifier replays and are dropped. *)
Theorem C02_fewer_blocks_withheld :
  forall t L R sizes resp sched,
    (forall k, exists nbf, resp k = honest t R sizes (N.of_nat nbf) /\ N.of_nat nbf <= k) ->
    wf_plan t = true -> contiguous t = true -> agree R L -> aget (root_cid t) R <> None ->
    no_local_below_missing t L R = true ->
    run_ok R t L (run_request proper_prefix resp 0 t L [] sched).
Proof. exact resp_run_full. Qed.
Print Assumptions C02_fewer_blocks_withheld.

(* Non-vacuity: the plans of C20_refuted (they share block 2), request 2 in its own scope, the interleaving and the
   requestor order that lose a block when both are in one scope; responses cut into three messages.  Request 1
   (run second) starts from a store that already holds block 2 and ends as the reference says for it. *)
Example C20_scopes_nonvacuous :
  let t1 := LNode [] 0 (IVisit 0 (IChild (LNode [0] 2 (IVisit 1 INil)) (IChild (LNode [1] 3 (IVisit 2 INil)) INil))) in
  let t2 := LNode [] 1 (IVisit 3 (IChild (LNode [0] 2 (IVisit 4 INil)) INil)) in
  let R := store_of [0; 1; 2; 3] in let L := store_of [] in
  let q1 := {| cq_plan := t1; cq_dedup := None |} in let q2 := {| cq_plan := t2; cq_dedup := Some 7 |} in
  let order := [false; true; true; false; false; false; false] in
  let dv := {| dv_sizes := [1; 1]%nat; dv_sched := [0; 1]%nat |} in
  let st' := fst (ref_tree R t2 true L) in
  c02_guards t2 L R = true /\ guards2 t1 st' R = true /\ keyset st' = [1; 2] /\
  o_visits (snd (run_two_gen L R q1 q2 order true dv dv)) = [3; 4] /\
  o_visits (fst (run_two_gen L R q1 q2 order true dv dv)) = [0; 1; 2] /\
  o_missing (fst (run_two_gen L R q1 q2 order true dv dv)) = [].
Proof. vm_compute. repeat split. Qed.
