(* C23 — Reported request state agrees with the work queue when quiescent.
   Only statements; the model is GS.StateQueue, the proofs are in GS.StateQueueProofs.

   Model: both actor loops (requestmanager/server.go, responsemanager/server.go), the peer task queue
   (taskqueue.go over go-peertaskqueue) and the workers, as one labelled transition system whose
   labels are the handled messages of a loop and the lock-protected queue operations of a worker
   (`rlabel`); `grun (init nw) ls = Some s` says that s is reached by the label sequence ls from the
   empty node with nw workers, every new request carrying an id that is not in use (no entry, no
   task, no outstanding final-status notification).  `snap_of s` is what PeerState reports
   (RequestStates, active topics, pending topics); `diagnostics` is peerstate.go Diagnostics(),
   transcribed.  `quiescent s`: no worker is between PopTasks and its start handler or between the end
   of execution and its finish handler (mailbox contents do not matter: every handler preserves the
   invariant).  `settled s`: additionally no worker can pop (all busy, or nothing pending). *)
From Coq Require Import List NArith Bool.
From GS Require Import Base StateQueue StateQueueProofs.
Import ListNotations.
Open Scope N_scope.

(* Both managers, ALL label sequences (any interleaving of requests, pauses, unpauses, cancels, hook
   and network failures, rejections, worker steps), every reachable quiescent state:
     queued  => pending;  pending and tracked => queued;  running <=> active;
     paused / completing => in neither;  an active topic always has a tracked, running request;
   Diagnostics() can report nothing but "pending task without tracked state" (the task of a request
   that ended while queued: the requestor's cancelOnError does not touch the queue; the next free
   worker retires it), so the monitor for the requestor direction accepts;
   and once no request is tracked and the node is settled, no topic is active or pending
   (Stats: Active = Pending = 0; allocated memory is then zero by C15_accounting). *)
Theorem C23_holds : forall nw ls s,
  grun (init nw) ls = Some s -> quiescent s = true ->
  agrees (snap_of s) /\
  (forall r, In r (sn_active (snap_of s)) -> aget r (sn_states (snap_of s)) = Some Running) /\
  only_orphans (diagnostics (snap_of s)) = true /\
  snap_ok false (snap_of s) = true /\
  (settled s = true -> 0 < nw -> sn_states (snap_of s) = [] ->
     sn_active (snap_of s) = [] /\ sn_pending (snap_of s) = []).
Proof. exact c23_holds. Qed.
Print Assumptions C23_holds.

(* The responder (every label except the three requestor handlers): additionally no task without a
   tracked request at all, i.e. Diagnostics() is empty at every quiescent state, and quiescence alone
   gives empty queues once no response is tracked. *)
Theorem C23_holds_responder : forall nw ls s,
  forallb (fun l => resp_label (snd l)) ls = true ->
  grun (init nw) ls = Some s -> quiescent s = true ->
  agrees (snap_of s) /\ no_orphans (snap_of s) /\
  diagnostics (snap_of s) = [] /\
  snap_ok true (snap_of s) = true /\
  (sn_states (snap_of s) = [] -> sn_active (snap_of s) = [] /\ sn_pending (snap_of s) = []).
Proof. exact c23_holds_responder. Qed.
Print Assumptions C23_holds_responder.

(* In EVERY reachable state (quiescent or not) each request's record is one of eleven shapes
   (StateQueueProofs.okb): whatever disagrees with the queue is a worker inside a handshake. *)
Theorem C23_always : forall nw ls s r, grun (init nw) ls = Some s -> okb (get s r) = true.
Proof. exact c23_always. Qed.
Print Assumptions C23_always.

(* Without the guard on ids the statement is false of the code (finding C23-F1): the requestor pauses
   request 1 (its executor sends a cancel), the responder's worker is still executing it (the cancel is
   only a signal), the requestor unpauses and its executor sends request 1 again: newRequest overwrites
   the entry with a Queued one and PushTask is ignored because the topic is active.  Quiescent, and
   Diagnostics() reports "active but queued" and "queued but not pending". *)
Example C23_refuted_id_reuse :
  exists s, run (init 1) [(1, RNew NewOk); (1, WPop); (1, WStart); (1, RCancel); (1, RNew NewOk)] = Some s /\
    quiescent s = true /\
    sn_states (snap_of s) = [(1, Queued)] /\ sn_active (snap_of s) = [1] /\ sn_pending (snap_of s) = [] /\
    diagnostics (snap_of s) = [(1, DActiveNotRunning); (1, DQueuedNotPending)] /\
    grun (init 1) [(1, RNew NewOk); (1, WPop); (1, WStart); (1, RCancel); (1, RNew NewOk)] = None.
Proof. eexists. vm_compute. repeat split. Qed.

(* Non-vacuity.  Responder, one worker: request 1 runs, request 2 waits behind it, request 3 was
   paused by its request hook, request 4 was rejected and is completing; request 2 is then cancelled
   while queued (its task is removed in the same handler). *)
Example C23_nonvacuous_responder :
  let ls := [(1, RNew NewOk); (2, RNew NewOk); (3, RNew NewPaused); (4, RNew NewErr); (1, WPop); (1, WStart)] in
  exists s s', grun (init 1) ls = Some s /\ quiescent s = true /\ settled s = true /\
    snap_of s = mksnap [(1, Running); (2, Queued); (3, Paused); (4, Completing)] [1] [2] /\
    diagnostics (snap_of s) = [] /\
    grun s [(2, RCancel)] = Some s' /\
    snap_of s' = mksnap [(1, Running); (3, Paused); (4, Completing)] [1] [].
Proof. eexists. eexists. vm_compute. repeat split. Qed.

(* Requestor, one worker: request 2 is cancelled while queued behind request 1; its task stays pending
   (Diagnostics() reports kind DPendingUntracked, which is all it can report); when request 1 ends the
   worker pops the leftover task, finds no request and retires it: nothing tracked, nothing queued. *)
Example C23_requestor_leftover_task :
  let ls := [(1, QNew); (2, QNew); (1, WPop); (1, WStart); (2, QEnd)] in
  exists s s', grun (init 1) ls = Some s /\ quiescent s = true /\ settled s = true /\
    snap_of s = mksnap [(1, Running)] [1] [2] /\
    diagnostics (snap_of s) = [(2, DPendingUntracked)] /\ snap_ok false (snap_of s) = true /\
    snap_ok true (snap_of s) = false /\
    grun s [(1, WEnd OCancelled); (1, WFinish); (2, WPop); (2, WStart)] = Some s' /\
    settled s' = true /\ snap_of s' = mksnap [] [] [].
Proof. eexists. eexists. vm_compute. repeat split. Qed.

(* The monitor rejects what the mutations of the anchored code produce: unpause without PushTask
   (queued, not pending), a finish that forgets TaskDone (completing but active), a pause that leaves
   the state Running (running, not active). *)
Example C23_monitor_rejects :
  snap_ok true (mksnap [(1, Queued)] [] []) = false /\
  snap_ok true (mksnap [(1, Completing)] [1] []) = false /\
  snap_ok false (mksnap [(1, Running)] [] []) = false /\
  snap_ok true (mksnap [] [] [1]) = false /\
  ended_ok (mksnap [] [] [1]) = false.
Proof. vm_compute. repeat split. Qed.

(* The acceptor: a response that ends up Paused is only accepted when the history permits a pause
   (so mis-reporting CompletingSend as Paused, which Diagnostics() cannot see, is a mismatch); two
   active topics are not accepted with one worker. *)
Example C23_acceptor_examples :
  accepts 1 [1] [mkobs [(1, RNew NewOk); (1, WEnd OFinished)] [(2, 2)]; mkobs [] [(4, 0)]; mkobs [] [(0, 0)]] = true /\
  accepts 1 [1] [mkobs [(1, RNew NewOk); (1, WEnd OFinished)] [(2, 2)]; mkobs [] [(3, 0)]] = false /\
  accepts 1 [1] [mkobs [(1, RNew NewOk); (1, WEnd OFinished)] [(2, 2)]; mkobs [(1, WEnd OPaused)] [(3, 0)];
                 mkobs [(1, RUnpause)] [(1, 1)]] = true /\
  accepts 1 [1] [mkobs [(1, RNew NewOk); (1, WEnd OFinished)] [(2, 2)]; mkobs [(1, WEnd OPaused)] [(3, 0)];
                 mkobs [(1, RUnpause)] [(1, 0)]] = false /\
  accepts 1 [1; 2] [mkobs [(1, QNew); (2, QNew)] [(2, 2); (2, 2)]] = false /\
  accepts 2 [1; 2] [mkobs [(1, QNew); (2, QNew)] [(2, 2); (2, 2)]] = true /\
  accepts 1 [1; 2] [mkobs [(1, QNew); (2, QNew); (2, QEnd)] [(2, 2); (0, 1)]] = true /\
  accepts 1 [1; 2] [mkobs [(1, RNew NewOk); (2, RNew NewOk); (2, RCancel)] [(2, 2); (0, 1)]] = false.
Proof. vm_compute. repeat split. Qed.

(* Soundness of the acceptor used for the model/implementation comparison: when one request's column
   of observations is accepted, there is a run of that request's record -- through the labels the node
   takes by itself and the labels permitted so far, new-request labels only on an id not in use --
   that passes, observation by observation, through a quiescent record showing exactly the observed
   (state, queue position). *)
Theorem C23_acceptor_sound : forall r i tr al cur,
  cur <> [] -> accepts_req r i al cur tr = true -> exists x, In x cur /\ witnessed r i al x tr.
Proof. exact (fun r i tr => accepts_req_sound r i tr). Qed.
Print Assumptions C23_acceptor_sound.
