(* C22 — A panic in per-request code fails only that request.
   Only statements; the model is GS.Panics, the proofs are in GS.PanicsProofs, the placement of
   recover (gen_cfg) is regenerated from /repo into GSgen.GenRecover on every run. *)
From Coq Require Import List NArith Bool String Arith.
From GS Require Import Base Panics PanicsProofs.
From GSgen Require Import GenRecover.
Import ListNotations.
Close Scope N_scope.
Open Scope nat_scope.

(* The placement read from the current source is sound: every call site of a user-supplied function
   (prototype chooser, codec, node reifier, selector evaluation, visitor — traverser goroutine;
   storage read opener / reader, storage write opener / writer / committer — task-queue worker
   goroutine; requestor and responder) has on its own goroutine's stack a deferred recover whose
   handler was made by panics.MakeHandler from the configured callback and whose error is delivered
   to the request; MakeHandler maps nil to nil, calls the callback with the recovered value and
   returns an error carrying it. *)
Theorem C22_placement : sound_cfg gen_cfg = true.
Proof. exact gen_cfg_sound. Qed.
Print Assumptions C22_placement.

(* For ALL sets of requests (each: a side, any sequence of user-function calls at listed call sites,
   callback configured or not, any oracle saying which calls panic with which value) and ALL
   interleavings (schedules): the process never dies, and every request is — state and callback
   history — exactly where solo_spec puts it after the quanta it was given: running with no callback
   as long as its first panicking call has not been reached; from then on ended with the error that
   carries that panic's value, the callback (if configured) invoked exactly once with that value;
   completed without callback if nothing panics.  solo_spec mentions only the request itself and
   the number of its own quanta: nothing another request does, panics included, shows. *)
Theorem C22_holds : forall reqs sched, (forall rq, In rq reqs -> wf_req gen_cfg rq) ->
  let g := run gen_cfg reqs sched in
  g_crashed g = None /\
  forall i rq, nth_error reqs i = Some rq ->
    nth_error (g_sts g) i = Some (fst (solo_spec rq (cnt sched i))) /\
    cbs_of i (g_cbs g) = snd (solo_spec rq (cnt sched i)).
Proof. exact c22_holds. Qed.
Print Assumptions C22_holds.

(* Read off for a request that was given its quanta. *)
Theorem C22_outcome : forall reqs sched, (forall rq, In rq reqs -> wf_req gen_cfg rq) ->
  forall i rq, nth_error reqs i = Some rq -> List.length (r_prog rq) < cnt sched i ->
  let g := run gen_cfg reqs sched in
  g_crashed g = None /\
  match first_panic rq with
  | Some (_, m) => nth_error (g_sts g) i = Some (Ended (Failed (EPanic m))) /\
                   cbs_of i (g_cbs g) = (if r_cb rq then [m] else [])
  | None => nth_error (g_sts g) i = Some (Ended Completed) /\ cbs_of i (g_cbs g) = []
  end.
Proof. exact c22_outcome_gen. Qed.
Print Assumptions C22_outcome.

(* Non-interference: replace request i by any other request (one that panics where it did not, or the
   reverse); under the same schedule every other request ends up in the same state with the same
   callback history. *)
Theorem C22_noninterference : forall reqs reqs' sched i,
  (forall rq, In rq reqs -> wf_req gen_cfg rq) -> (forall rq, In rq reqs' -> wf_req gen_cfg rq) ->
  (forall j, j <> i -> nth_error reqs j = nth_error reqs' j) ->
  forall j, j <> i -> nth_error reqs j <> None ->
    nth_error (g_sts (run gen_cfg reqs sched)) j = nth_error (g_sts (run gen_cfg reqs' sched)) j /\
    cbs_of j (g_cbs (run gen_cfg reqs sched)) = cbs_of j (g_cbs (run gen_cfg reqs' sched)).
Proof. exact c22_noninterference_gen. Qed.
Print Assumptions C22_noninterference.

(* The model is tight: under ANY placement, a call site with no recover on its goroutine's stack takes
   the process down at the first panic there, whatever runs afterwards, and the other request never ends. *)
Theorem C22_tight : forall c s m other, unwind (s_chain s) = None ->
  let bad := mk_req (s_side s) [s] true (fun _ => Some m) in
  forall sched,
  let g := run c [bad; other] (0 :: sched) in
  g_crashed g = Some m /\ nth_error (g_sts g) 1 = Some (Running 0).
Proof. exact c22_tight. Qed.
Print Assumptions C22_tight.

(* The pinned commit (before fix: 9ee0831 and a5435a0) violated the property: the responder's storage
   read opener was called on the worker goroutine with nothing to recover (pinned_cfg); one panic there
   ends the process and the requestor-side request in progress never completes.  Replayed on the real
   code by corpus/panics/responder-sread-root.json and its siblings (they must pass now). *)
Theorem C22_refuted_before_fix :
  let bad := mk_req Responder [pinned_resp_sread] true (fun _ => Some 7000%N) in
  (forall rq, In rq [bad; pinned_req_quiet] -> wf_req pinned_cfg rq) /\
  forall sched,
    g_crashed (run pinned_cfg [bad; pinned_req_quiet] (0 :: sched)) = Some 7000%N /\
    nth_error (g_sts (run pinned_cfg [bad; pinned_req_quiet] (0 :: sched))) 1 = Some (Running 0).
Proof. exact c22_refuted_pinned. Qed.
Print Assumptions C22_refuted_before_fix.

(* The two checks the driver's cases go through are tied: a case on which the implementation's observation
   agrees with the model's prediction from the regenerated placement (pcase_ok, the MISMATCH check)
   satisfies the executable monitor of the property (pcase_mon, the MON22 check): survived, r1 ended with
   the error carrying the panic (resp. the response failed), callback exactly once with the value on the
   panicking instance and never on the other, r2 and r3 as alone. *)
Theorem C22_agreement : forall pc, pcase_ok gen_cfg pc = true -> pcase_mon pc = true.
Proof. exact pcase_agree_gen. Qed.
Print Assumptions C22_agreement.

(* Non-vacuity: three requests on the generated placement, interleaved; request 1 (responder) panics with
   value 7002 in the storage read opener at its third call, request 0 (requestor) panics with 9 in the
   block committer at its second call and has no callback configured, request 2 does not panic. *)
Example C22_nonvacuous :
  let site_of sd k := hd (mk_site sd k GWorker []) (filter (fun s => side_eqb (s_side s) sd && kind_eqb (s_kind s) k) gen_sites) in
  let r0 := mk_req Requestor [site_of Requestor KChooser; site_of Requestor KSCommit; site_of Requestor KCodec] false
                   (fun pc => if Nat.eqb pc 1 then Some 9%N else None) in
  let r1 := mk_req Responder [site_of Responder KChooser; site_of Responder KCodec; site_of Responder KSRead; site_of Responder KCodec] true
                   (fun pc => if Nat.eqb pc 2 then Some 7002%N else None) in
  let r2 := mk_req Responder [site_of Responder KSRead; site_of Responder KSReadStream; site_of Responder KVisitor] true (fun _ => None) in
  let g := run gen_cfg [r0; r1; r2] [2; 0; 1; 1; 0; 2; 1; 2; 0; 1; 2; 2] in
  g_crashed g = None /\
  g_sts g = [Ended (Failed (EPanic 9%N)); Ended (Failed (EPanic 7002%N)); Ended Completed] /\
  g_cbs g = [(1, 7002%N)] /\
  (* the same three requests on the placement of the pinned commit: the process dies at request 0's panic *)
  g_crashed (run pinned_cfg [mk_req Requestor [mk_site Requestor KSCommit GWorker (pinned_worker_req lr)] false (fun _ => Some 9%N); r1; r2] [2; 0; 1]) = Some 9%N.
Proof. vm_compute. repeat split. Qed.

(* The monitor rejects an observation in which the process died, and one in which the callback ran twice. *)
Example C22_monitor_rejects :
  pcase_mon (mk_pcase Responder (Some KSRead) 2 5 true false 7002 RNotRun 0 [] [] false false [] []) = false /\
  pcase_mon (mk_pcase Requestor (Some KCodec) 2 5 true true 0 (RPanicErr 7002) 20 [7002; 7002]%N [] true true [] []) = false /\
  pcase_mon (mk_pcase Requestor (Some KCodec) 2 5 true true 0 (RPanicErr 7002) 20 [7002]%N [] true true [] []) = true.
Proof. vm_compute. repeat split. Qed.
