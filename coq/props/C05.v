(* C05 — Every incoming request is eventually fully retired by the responder.
   Only statements; proofs are in GS.RespMgrProofs (model: GS.RespMgr, the code as it is now = cfg_now).

   run cfg_now n ls : the responder model after ANY sequence ls of labels — new request with any request-hook
   outcome (accept / reject / pause / error), requestor cancel and update (any update-hook outcome), API
   pause / unpause / cancel / update, block-hook outcome at every block (continue / pause / error), send
   outcome of every message (ok / failed = peer gone), the worker being occupied or freed, the executor's
   FinishTask round trip being overtaken by the message queue's notifications (LGateHold / LFinish), its
   StartTask round trip being overtaken by anything that reaches the loop first (LArmStart / LStart), an
   update's answer waiting in the loop for the peer's memory until a send fails or memory is released
   (LUpdStall / LMemFree), and any
   resolution of the executor's select when several signals are pending — for ANY number n of blocks.

   Full statement of the property (kept visible): every request reaches exactly one outcome (completed
   with its terminal status once / cancelled once / failed on the network), and afterwards the responder
   holds no state for it, the protection is released and PeerState no longer lists it; under "every paused
   response is eventually unpaused or cancelled".  Proved below: the safety part and the quiescence part
   in full for this model; of the "eventually" part, that no reachable unretired state is stuck
   (C05_nostuck) — the ranking argument is not done (see design.d/C05.md). *)
From Coq Require Import List NArith Bool.
From GS Require Import Base RespMgr RespMgrProofs.
Import ListNotations.
Open Scope N_scope.

(* SAFETY, every reachable state: Protect called once and Unprotect once, exactly when the entry goes
   (p_protect); completed + cancelled notifications at most one in total, and then the entry is gone
   (p_once); one network-error notification per failed send of a message of the request (p_neterr); an
   entry is in CompletingSend only while a terminal status of it waits to be sent, and such a status belongs
   to such an entry or to an executor parked before FinishTask (p_completing); once the executor is out of
   a response that is gone, no task of it is active or pending in the task queue (p_task); a block hook only
   ever runs for a response that is Running (p_exec); after a network-error outcome the stream is closed and
   nothing of the request is in flight or queued, so no completed notification can follow (p_afternet). *)
Theorem C05_safety : forall n ls, p_safety (fst (run cfg_now n ls)) = true.
Proof. exact c05_safety. Qed.
Print Assumptions C05_safety.

(* SAFETY, every step from a reachable state: a completed notification carries the terminal status of the
   message whose send just succeeded; network-error notifications only when a send failed; the
   completed/cancelled count grows exactly by the step's notifications; an entry that is gone never
   reappears. *)
Theorem C05_step : forall n ls l,
  p_step (fst (run cfg_now n ls)) (fst l) (fst (step cfg_now n (run cfg_now n ls) l)) = true.
Proof. exact c05_step. Qed.
Print Assumptions C05_step.

(* QUIESCENCE: in every reachable state at rest (executor not in a block hook, no task queued or active,
   no message in flight or queued) whose response is not paused, the request is retired: no entry (PeerState
   does not list it), Protect and Unprotect both called exactly once, and at least one outcome was reported. *)
Theorem C05_retired : forall n ls, p_retired (fst (run cfg_now n ls)) = true.
Proof. exact c05_retired. Qed.
Print Assumptions C05_retired.

(* PROGRESS (no-stuck half): while the entry exists, a non-environment label is enabled (the parked hook
   returns, the message in flight is resolved, the worker is freed) or the response is paused and the
   assumed unpause applies. *)
Theorem C05_nostuck : forall n ls, p_nostuck (fst (run cfg_now n ls)) = true.
Proof. exact c05_nostuck. Qed.
Print Assumptions C05_nostuck.

(* The two defects found (the code as found = cfg_found; both are repaired in /repo, e202838 and fab5d22).
   (1) a send fails while the executor is parked after its last signal check: the entry stays in
   CompletingSend at rest for ever; *)
Definition witness_net : list label :=
  [(LNew HAccept, 0); (LGate GCont, 0); (LSend false, 0); (LGate GCont, 0)].
Theorem C05_refuted_network_error :
  let s := fst (run cfg_found 2 witness_net) in
  quiescent s = true /\ seen s = true /\ st_code s = 4 /\ unprot s = 0.
Proof. vm_compute. repeat split. Qed.
Print Assumptions C05_refuted_network_error.

(* (2) UpdateResponse while the final status is still in the unsent message replaces that status: nothing
   terminal is ever sent and the entry stays in CompletingSend at rest for ever. *)
Definition witness_upd : list label :=
  [(LNew HAccept, 0); (LGate GCont, 0); (LApiUpdate, 0); (LSend true, 0); (LSend true, 0)].
Theorem C05_refuted_update :
  let s := fst (run (mkCfg true false) 1 witness_upd) in
  quiescent s = true /\ seen s = true /\ st_code s = 4 /\ unprot s = 0.
Proof. vm_compute. repeat split. Qed.
Print Assumptions C05_refuted_update.

(* the same histories on the code as it is now end retired *)
Example C05_witnesses_now :
  st_code (fst (run cfg_now 2 witness_net)) = 0 /\ unprot (fst (run cfg_now 2 witness_net)) = 1 /\
  st_code (fst (run cfg_now 1 witness_upd)) = 0 /\ n_done (fst (run cfg_now 1 witness_upd)) = 1.
Proof. vm_compute. repeat split. Qed.

(* non-vacuity: a completed request, a requestor cancel of a paused response, a rejected request whose
   rejection cannot be sent — all reach rest retired with the expected outcome; and the monitor accepts the
   model's own history of a busy schedule *)
Example C05_nonvacuous :
  let a := fst (run cfg_now 1 [(LNew HAccept, 0); (LGate GCont, 0); (LSend true, 0); (LSend true, 0)]) in
  let b := fst (run cfg_now 2 [(LNew HAccept, 0); (LGate GPause, 0); (LReqCancel, 0); (LSend true, 0)]) in
  let c := fst (run cfg_now 1 [(LNew HReject, 0); (LSend false, 0)]) in
  (quiescent a = true /\ st_code a = 0 /\ n_done a = 1 /\ n_net a = 0) /\
  (quiescent b = true /\ st_code b = 0 /\ n_done b = 1 /\ unprot b = 1) /\
  (quiescent c = true /\ st_code c = 0 /\ n_done c = 0 /\ n_net c = 1).
Proof. vm_compute. repeat split. Qed.

(* the Sent notification of the final status overtakes the worker's FinishTask: the entry is gone when
   finishTask runs, which still marks the task done *)
Example C05_finish_overtaken :
  let ls := [(LNew HAccept, 0); (LGateHold GCont, 0); (LSend true, 0); (LSend true, 0)] in
  let a := fst (run cfg_now 1 ls) in
  let b := fst (run cfg_now 1 (ls ++ [(LFinish, 0)])) in
  (st_code a = 0 /\ tq a = 2 /\ n_done a = 1 /\ quiescent a = false) /\ (tq b = 0 /\ quiescent b = true /\ unprot b = 1).
Proof. vm_compute. repeat split. Qed.

(* a responder-side cancel is handled after the worker popped the task but before its StartTask: the
   delayed StartTask finds CompletingSend, returns the empty task and marks the task done; one outcome *)
Example C05_start_overtaken :
  let ls := [(LArmStart, 0); (LNew HAccept, 0); (LApiCancel, 0)] in
  let a := fst (run cfg_now 2 ls) in
  let b := fst (run cfg_now 2 (ls ++ [(LStart, 0); (LSend true, 0)])) in
  (st_code a = 4 /\ tq a = 2 /\ stk a = true) /\ (st_code b = 0 /\ tq b = 0 /\ n_done b = 1 /\ quiescent b = true).
Proof. vm_compute. repeat split. Qed.

(* a rejection waits in the loop for the peer's memory while the message in flight fails: it is dropped by
   the closed stream; the one outcome is the network error *)
Example C05_stalled_rejection :
  let a := fst (run cfg_now 2 [(LNew HAccept, 0); (LGate GCont, 0); (LGate GPause, 0); (LUpdStall UExtErr, 0); (LSend false, 0)]) in
  quiescent a = true /\ st_code a = 0 /\ n_net a = 1 /\ n_done a = 0 /\ infl a = None /\ pend a = None.
Proof. vm_compute. repeat split. Qed.

Example C05_monitor_runs :
  mon_run mon_init (trace cfg_now 2 finit
    [(LHold, 0); (LNew HAccept, 0); (LApiPause, 0); (LReqUpdate UExt, 0); (LRelease, 3); (LGate GCont, 0);
     (LSend true, 0); (LApiUnpause, 0); (LGate GCont, 0); (LSend false, 0); (LSend true, 0)]) = true /\
  mon_run mon_init (trace cfg_found 2 finit witness_net) = false.
Proof. vm_compute. split; reflexivity. Qed.
