(* C02 — A single request retrieves every block that either peer can supply.
   Only statements; proofs are in GS.RecLoaderProofs.

   Full statement (C02_holds, NOT proved here; see level_note):
     forall t L R sizes sched, wf_plan t = true -> stores keyed by hash ->
       outcome of run_request proper_prefix (honest t R sizes) 0 t L [] sched  =  ref_outcome t L R
   for every plan t, every split L/R of the blocks, every chunking [sizes] of the responder's metadata and
   blocks into messages and every interleaving [sched] of message delivery with the executor's loads.
   It is FALSE of the code as it stands in two regions (C02_skipcount_refuted, C02_rootmissing_refuted:
   recorded findings C02-F1, C02-F2) and was false in a third before the path-tracker repair
   (C02_refuted_before_fix).  Proved so far for all plans: C02_online_partial (requests that go online at the
   root: any chunking, any delivery schedule), its one-message special case, and C02_pathtracker_exact_partial; the reference [ref_outcome] is
   evaluated against the real two-endpoint stack on every generated case besides (monitor MON02). *)
From Coq Require Import List NArith Bool.
From GS Require Import Base Ltree RecLoader ReqExec RecLoaderProofs C02Online C02Chunks.
Import ListNotations.
Open Scope N_scope.

(* The path tracker as it was (lengths compared): root -> {a: link 1, b: {c: link 2}}; the responder lacks
   block 1 and sends block 2.  Link 2 at path b/c was taken for a link below a, loaded from the local store
   only and reported missing.  With the repaired comparison the outcome is the reference's. *)
Definition witness_pt : ltree :=
  LNode [] 0 (IVisit 0 (IChild (LNode [0] 1 (IVisit 1 INil)) (IChild (LNode [1; 2] 2 (IVisit 2 INil)) INil))).
Theorem C02_refuted_before_fix :
  exists t L R,
    wf_plan t = true /\
    outcome_eqb (outcome_of (run_request length_less (honest t R []) 0 t L [] [])) (ref_outcome t L R) = false /\
    outcome_eqb (outcome_of (run_request proper_prefix (honest t R []) 0 t L [] [])) (ref_outcome t L R) = true.
Proof. exists witness_pt, [], (store_of [0; 2]). vm_compute. repeat split. Qed.
Print Assumptions C02_refuted_before_fix.

(* Finding C02-F1: the requestor's do-not-send-first-blocks value counts the blocks it loaded locally; the
   responder counts the metadata entries of its own traversal.  root -> {a: X -> {X1, X2}, b: Y}; the
   requestor holds root, X, X1, X2, the responder root and Y: the responder's first four entries are root,
   X (missing), Y — Y's block is withheld, and Y is reported missing although the responder has it. *)
Definition witness_skip : ltree :=
  LNode [] 0 (IVisit 0 (IChild (LNode [0] 1 (IVisit 1 (IChild (LNode [0; 0] 2 (IVisit 2 INil)) (IChild (LNode [0; 1] 3 (IVisit 3 INil)) INil))))
                       (IChild (LNode [1] 4 (IVisit 4 INil)) INil))).
Theorem C02_skipcount_refuted :
  exists t L R, wf_plan t = true /\
    o_missing (model_outcome t L R [] []) = [([1], 4)] /\ o_missing (ref_outcome t L R) = [] /\
    o_visits (ref_outcome t L R) = [0; 1; 2; 3; 4] /\ o_visits (model_outcome t L R [] []) = [0; 1; 2; 3].
Proof. exists witness_skip, (store_of [0; 1; 2; 3]), (store_of [0; 4]). vm_compute. repeat split. Qed.
Print Assumptions C02_skipcount_refuted.

(* Finding C02-F2: a responder that lacks the root answers with a failure status, which cancels the request:
   root -> {a, b, c}; the requestor holds root, a, c and asks for b.  The reference delivers c and reports b
   missing; the requestor stops at b, reports neither, and ends with the failure status. *)
Definition witness_root : ltree :=
  LNode [] 0 (IVisit 0 (IChild (LNode [0] 1 (IVisit 1 INil)) (IChild (LNode [1] 2 (IVisit 2 INil)) (IChild (LNode [2] 3 (IVisit 3 INil)) INil)))).
Theorem C02_rootmissing_refuted :
  exists t L R, wf_plan t = true /\
    o_visits (ref_outcome t L R) = [0; 1; 3] /\ o_missing (ref_outcome t L R) = [([1], 2)] /\
    o_visits (model_outcome t L R [] []) = [0; 1] /\ o_missing (model_outcome t L R [] []) = [] /\
    o_other_errs (model_outcome t L R [] []) = 1.
Proof. exists witness_root, (store_of [0; 1; 3]), (store_of [1; 2; 3]). vm_compute. repeat split. Qed.
Print Assumptions C02_rootmissing_refuted.

(* Proved for ALL well-formed plans: the repaired comparison (pathtracker.go stillOnUnfollowedRemotePath after
   the fix) is true for every link inside the subtree of a link (so everything below a link the responder
   did not follow is loaded locally), and false from a link of an earlier sibling subtree to any link of a
   later sibling subtree (so the state is reset on leaving the subtree, however deep the next link is) —
   the two facts the length comparison lacked.  [tpaths]/[ipaths]: link paths in traversal order. *)
Theorem C02_pathtracker_exact_partial :
  (forall p c body, wf_tree (LNode p c body) = true ->
     Forall (fun q => proper_prefix p q = true) (ipaths body)) /\
  (forall t1 t2 n m, wf_tree t1 = true -> wf_tree t2 = true ->
     prefix (tpath t1) (tpath t2) = false -> prefix (tpath t2) (tpath t1) = false ->
     In n (tpaths t1) -> In m (tpaths t2) -> proper_prefix n m = false).
Proof. split; [exact below_parent | exact later_sibling_not_below]. Qed.
Print Assumptions C02_pathtracker_exact_partial.

(* Proved for ALL well-formed plans, all stores and all schedules: a request whose root the requestor lacks and
   the responder holds (so it goes online at once, skip 0, nothing to re-verify), the responder's whole output
   arriving in one message (delivered before or while the first online load waits: [sched]), ends exactly as
   the reference says: same delivered visits in order, same missing-block errors, no other error, same final
   store.  Covers the path tracker (links below a link the responder lacks are loaded locally; the state is
   reset on leaving the subtree — needs wf_plan), the local fallback for blocks the responder does not resend,
   the dedup rule of IngestResponse, and the store writes.  [agree R L]: a CID names the same bytes in both stores.
   Not covered by this one: responses cut into several messages (C02_online_partial below) and a non-empty
   locally loaded prefix (verifier replay over the record trie; no theorem yet). *)
Theorem C02_online_onemsg_partial :
  forall t L R sched,
    wf_plan t = true -> agree R L ->
    aget (root_cid t) L = None -> aget (root_cid t) R <> None ->
    model_outcome t L R [] sched = ref_outcome t L R.
Proof. exact c02_online_onemsg. Qed.
Print Assumptions C02_online_onemsg_partial.

(* The same for EVERY chunking of the responder's metadata and blocks into messages ([sizes]) and EVERY
   interleaving of message delivery with the executor's loads ([sched]: how many messages arrive before each load;
   a load that finds nothing queued waits for the next message): delivery independence.  The simulation's
   "not yet consumed response" is the loader's queue followed by the undelivered messages. *)
Theorem C02_online_partial :
  forall t L R sizes sched,
    wf_plan t = true -> agree R L ->
    aget (root_cid t) L = None -> aget (root_cid t) R <> None ->
    model_outcome t L R sizes sched = ref_outcome t L R.
Proof. intros t L R. exact (c02_online_chunks R t L). Qed.
Print Assumptions C02_online_partial.

(* Non-vacuity of the reference and of the model on a case outside the findings: a 7-link plan with an
   inline node, the responder lacking one subtree that the requestor partly holds, three chunkings and
   schedules: same outcome, equal to the reference. *)
Example C02_nonvacuous :
  let t := LNode [] 0 (IVisit 0 (IChild (LNode [0] 1 (IVisit 1 (IChild (LNode [0; 0] 2 (IVisit 2 INil)) (IChild (LNode [0; 1] 3 (IVisit 3 INil)) INil))))
                         (IChild (LNode [1; 5] 4 (IVisit 4 (IChild (LNode [1; 5; 0] 2 (IVisit 5 INil)) INil)))
                         (IChild (LNode [2] 6 (IVisit 6 INil)) INil)))) in
  let L := store_of [3] in let R := store_of [0; 2; 4; 6] in
  ref_outcome t L R = Build_outcome [0; 4; 5; 6] [([0], 1)] 0 [0; 2; 3; 4; 6] true /\
  model_outcome t L R [] [] = ref_outcome t L R /\
  model_outcome t L R [1; 1; 1; 1]%nat [0; 0; 3]%nat = ref_outcome t L R /\
  model_outcome t L R [0; 4]%nat [5]%nat = ref_outcome t L R.
Proof. vm_compute. repeat split. Qed.
