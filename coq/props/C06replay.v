(* C06 — the Verifier's replay when a paused request goes online again in the middle of a traversal: the record
   then contains failed loads (succ = false) and, possibly, loads below links the responder lacks.
   Only statements; proofs are in GS.C06Trie (generalising GS.C02Trie). *)
From Coq Require Import List NArith Bool.
From GS Require Import Base Ltree RecLoader ReqExec C02Prefix C02Trie C06Trie.
Import ListNotations.
Open Scope N_scope.

(* For EVERY traversal record in which every leaf has a link ([twf]; RecordNextStep maintains it) and every
   reachable link that the responder holds was recorded as a successful load ([reach_ok]: otherwise the block
   would have been fetched): replaying the responder's entries for exactly the links the Verifier can reach
   ([vlist]: a link, then — unless the responder lacks it — the links recorded below it, children in
   first-insertion order), followed by anything, consumes exactly those entries, ends done, and leaves the path
   tracker at the last reached link the responder lacks.  Failed loads and whole recorded subtrees below a link
   the responder lacks are passed over without consuming anything.  (C02_replay_consumes_prefix is the special
   case of records of successful local loads.)  This is the loader-level core of the general form of
   C06_pause_after_send; the executor-level simulation for responders lacking blocks is not done. *)
Theorem C06_replay_with_failed_loads :
  forall R T, twf T -> reach_ok R T ->
    forall u rest,
      C02Trie.vreplay T (new_verifier T) u (map (C02Trie.ent R) (vlist R T []) ++ rest)
      = Some (VEmpty, C02Trie.ulast R u (vlist R T []), rest).
Proof. exact replay_vis. Qed.
Print Assumptions C06_replay_with_failed_loads.

(* Non-vacuity: root -> {a: X (responder lacks it; loaded locally) -> {X1 (failed)}, b: Y (failed: neither has it),
   c: Z}: the record after these five attempts; the responder's entries for root, X, Y, Z are consumed, X1 is
   passed over, the path tracker ends at b. *)
Example C06_replay_example :
  let T := record_step [2] 4 true (record_step [1] 3 false (record_step [0; 0] 2 false (record_step [0] 1 true (record_step [] 0 true trec_empty)))) in
  let R := store_of [0; 4] in
  vlist R T [] = [([], 0); ([0], 1); ([1], 3); ([2], 4)] /\
  C02Trie.vreplay T (new_verifier T) [] (map (C02Trie.ent R) (vlist R T []) ++ [Build_item 9 Present None])
  = Some (VEmpty, [1], [Build_item 9 Present None]).
Proof. vm_compute. split; reflexivity. Qed.
