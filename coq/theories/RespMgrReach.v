(* RespMgrReach.v — C05: the reachable set V of the responder life-cycle model (state without the traverser
   position), computed inside Coq.  Split from RespMgrProofs.v only to keep every file's compile time short:
   this file computes V, RespMgrClosed.v checks that V is closed under all transitions, RespMgrProofs.v
   derives the theorems. *)
From Coq Require Import List NArith Bool FMapPositive Lia.
From GS Require Import Base RespMgr.
Import ListNotations.
Open Scope N_scope.

(* ---------- soundness of the boolean state equality ---------- *)

Lemma option_eqb_eq {A} (eqb : A -> A -> bool) :
  (forall x y, eqb x y = true -> x = y) -> forall a b, option_eqb eqb a b = true -> a = b.
Proof. intros H [x|] [y|]; simpl; intro E; try discriminate; auto. f_equal; auto. Qed.

Lemma list_eqb_sound {A} (eqb : A -> A -> bool) :
  (forall x y, eqb x y = true -> x = y) -> forall a b, list_eqb eqb a b = true -> a = b.
Proof.
  intros H a; induction a as [|x a IH]; intros [|y b]; simpl; intro E; try discriminate; auto.
  apply andb_true_iff in E as [E1 E2]. f_equal; auto.
Qed.

Lemma est_eqb_eq a b : est_eqb a b = true -> a = b.
Proof. destruct a, b; simpl; intro; try discriminate; reflexivity. Qed.
Lemma errk_eqb_eq a b : errk_eqb a b = true -> a = b.
Proof. destruct a, b; simpl; intro; try discriminate; reflexivity. Qed.
Lemma updk_eqb_eq a b : updk_eqb a b = true -> a = b.
Proof. destruct a, b; simpl; intro; try discriminate; reflexivity. Qed.
Lemma fres_eqb_eq a b : fres_eqb a b = true -> a = b.
Proof. destruct a, b; simpl; intro E; try discriminate; try reflexivity. apply errk_eqb_eq in E. now subst. Qed.
Lemma ev_eqb_eq a b : ev_eqb a b = true -> a = b.
Proof. destruct a, b; simpl; intro E; try discriminate; try reflexivity. apply N.eqb_eq in E. now subst. Qed.
Lemma entry_eqb_eq a b : entry_eqb a b = true -> a = b.
Proof.
  destruct a, b; unfold entry_eqb; simpl; intro E.
  repeat (apply andb_true_iff in E as [E ?]).
  repeat match goal with H : Bool.eqb _ _ = true |- _ => apply eqb_prop in H | H : est_eqb _ _ = true |- _ => apply est_eqb_eq in H end. now subst.
Qed.

Lemma state_eqb_eq a b : state_eqb a b = true -> a = b.
Proof.
  destruct a, b; unfold state_eqb; simpl; intro E.
  repeat (apply andb_true_iff in E as [E ?]).
  repeat match goal with
  | H : Bool.eqb _ _ = true |- _ => apply eqb_prop in H
  | H : (_ =? _) = true |- _ => apply N.eqb_eq in H
  | H : option_eqb entry_eqb _ _ = true |- _ => apply (option_eqb_eq _ entry_eqb_eq) in H
  | H : option_eqb errk_eqb _ _ = true |- _ => apply (option_eqb_eq _ errk_eqb_eq) in H
  | H : option_eqb Bool.eqb _ _ = true |- _ => apply (option_eqb_eq _ eqb_prop) in H
  | H : option_eqb fres_eqb _ _ = true |- _ => apply (option_eqb_eq _ fres_eqb_eq) in H
  | H : option_eqb updk_eqb _ _ = true |- _ => apply (option_eqb_eq _ updk_eqb_eq) in H
  | H : option_eqb N.eqb _ _ = true |- _ => apply (option_eqb_eq _ (fun x y => proj1 (N.eqb_eq x y))) in H
  | H : list_eqb ev_eqb _ _ = true |- _ => apply (list_eqb_sound _ ev_eqb_eq) in H
  end.
  now subst.
Qed.

(* ---------- the finite system ---------- *)

Definition all_labs : list lab :=
  [LNew HAccept; LNew HReject; LNew HPause; LNew HErr; LReqCancel; LReqUpdate UOk; LReqUpdate UExt; LReqUpdate UErr;
   LReqUpdate UUnpause; LReqUpdate UExtErr; LUpdStall UOk; LUpdStall UExt; LUpdStall UErr; LUpdStall UUnpause; LUpdStall UExtErr; LMemFree; LApiPause; LApiUnpause; LApiCancel; LApiUpdate; LGate GCont; LGate GPause; LGate GErr;
   LGateHold GCont; LGateHold GPause; LGateHold GErr; LFinish; LArmStart; LStart; LSend true; LSend false; LHold; LRelease].

Lemma all_labs_complete l : In l all_labs.
Proof. destruct l as [h| |u| | | | |g|g| | | |u| |b| |]; try destruct h; try destruct u; try destruct g; try destruct b; simpl; tauto. Qed.


(* the notifications of the last step are forgotten by the next one (step_ret_m starts by clearing them), so V
   holds states with none *)
Definition nz (s : state) : state := set_evs [] s.
Definition succs (s : state) : list state :=
  flat_map (fun lb => flat_map (fun ord => [nz (fst (step_ret_m cfg_now true s (lb, ord))); nz (fst (step_ret_m cfg_now false s (lb, ord)))]) (orders s)) all_labs.

(* hashed set of states *)
Definition bit (b : bool) : N := if b then 1 else 0.
Definition hash (s : state) : positive :=
  N.succ_pos (fold_left (fun a x => a * 7 + x)
    [bit (seen s); st_code s; bit (sig_pause s); bit (sig_upd s);
     match sig_err s with None => 0 | Some ENet => 1 | Some EReqCancel => 2 | Some EApiCancel => 3 | Some EHook => 4 end;
     tq s; bit (held s); bit (arm s) + 2 * bit (stk s); match gate s with None => 0 | Some false => 1 | Some true => 2 end; bit (closed s);
     match fin s with None => 0 | Some FNil => 1 | Some FPaused => 2 | Some (FErr _) => 3 end;
     match stall s with None => 0 | Some UExt => 1 | Some _ => 2 end;
     match infl s with None => 0 | Some m => m mod 7 end; match pend s with None => 0 | Some m => m mod 7 end;
     unprot s; n_done s; n_net s; N.of_nat (length (evs s));
     match ent s with Some e => bit (e_uerr e) + 2 * bit (e_uext e) + 4 * bit (e_neterr e) | None => 0 end] 0).

Definition sset := PositiveMap.t (list state).
Definition memb (s : state) (v : sset) : bool :=
  match PositiveMap.find (hash s) v with Some l => existsb (state_eqb s) l | None => false end.
Definition addb (s : state) (v : sset) : sset :=
  PositiveMap.add (hash s) (s :: match PositiveMap.find (hash s) v with Some l => l | None => [] end) v.

(* exploration (depth-first: the frontier is a stack) with fuel; returns the visited set and what is left of the frontier *)
Fixpoint explore (fuel : nat) (front : list state) (v : sset) : sset * list state :=
  match fuel with
  | O => (v, front)
  | S f =>
    match front with
    | [] => (v, [])
    | s :: rest =>
      let '(v', new) := fold_left (fun acc x => let '(va, na) := acc in if state_eqb x s || memb x va then acc else (addb x va, x :: na))
                                  (succs s) (v, []) in
      explore f (new ++ rest) v'
    end
  end.

Definition explored : sset * list state := Eval vm_compute in explore (N.to_nat 20000) [init] (addb init (PositiveMap.empty _)).
Definition V : sset := fst explored.
Definition V_elems : list state := flat_map snd (PositiveMap.elements V).

