(* PeerMgr.v — model of /repo/peermanager/peermanager.go together with the life cycle of the
   processes (message queues) it creates (C17).

   Labels are the atomic regions of the Go code: each PeerManager method body runs under the table
   lock; a process exits on its own goroutine some time after it was told to shut down (or decided
   to, e.g. after a failed connect) and then invokes the onShutdown callback it was created with. *)
From Coq Require Import List NArith Bool Lia.
From GS Require Export Base.
Import ListNotations.
Open Scope N_scope.

Definition peer := N.
Definition qid := N.

Inductive qstatus := QLive | QSignalled | QExited.   (* running; Shutdown() called; goroutine gone *)

Record pm := {
  table : list (peer * (N * qid));        (* peerProcesses: peer -> (refcnt, process) *)
  queues : list (qid * (peer * qstatus)); (* every process ever created *)
  next_q : qid
}.
Definition pm_new : pm := {| table := []; queues := []; next_q := 0 |}.

Inductive plabel :=
| LConnected (p : peer)
| LDisconnected (p : peer)
| LGetProcess (p : peer)
| LSelfShutdown (q : qid)      (* the process calls its own Shutdown(), e.g. after a failed connect *)
| LExit (q : qid).             (* the process's goroutine returns and runs the onShutdown callback *)

Definition set_status (q : qid) (st : qstatus) (qs : list (qid * (peer * qstatus))) :=
  match aget q qs with
  | Some (p, _) => aput q (p, st) qs
  | None => qs
  end.

(* getOrCreate *)
Definition get_or_create (p : peer) (s : pm) : pm * (N * qid) :=
  match aget p (table s) with
  | Some e => (s, e)
  | None =>
      let q := next_q s in
      ({| table := aput p (0, q) (table s); queues := aput q (p, QLive) (queues s); next_q := q + 1 |}, (0, q))
  end.

(* the observable result of a label: GetProcess returns a process *)
Definition pstep (s : pm) (l : plabel) : pm * option qid :=
  match l with
  | LConnected p =>
      let '(s1, (rc, q)) := get_or_create p s in
      ({| table := aput p (rc + 1, q) (table s1); queues := queues s1; next_q := next_q s1 |}, None)
  | LDisconnected p =>
      match aget p (table s) with
      | None => (s, None)
      | Some (rc, q) =>
          (* refcnt is a Go int: it may go negative, which also triggers the removal *)
          if 1 <? rc then ({| table := aput p (rc - 1, q) (table s); queues := queues s; next_q := next_q s |}, None)
          else ({| table := adel p (table s);
                   queues := match aget q (queues s) with
                             | Some (_, QLive) => set_status q QSignalled (queues s)
                             | _ => queues s
                             end;
                   next_q := next_q s |}, None)
      end
  | LGetProcess p =>
      let '(s1, (_, q)) := get_or_create p s in (s1, Some q)
  | LSelfShutdown q =>
      match aget q (queues s) with
      | Some (_, QLive) => ({| table := table s; queues := set_status q QSignalled (queues s); next_q := next_q s |}, None)
      | _ => (s, None)
      end
  | LExit q =>
      match aget q (queues s) with
      | Some (p, QSignalled) =>
          (* onQueueShutdown(p, instance): forget the entry only if it still is this instance *)
          ({| table := match aget p (table s) with
                       | Some (_, q') => if N.eqb q' q then adel p (table s) else table s
                       | None => table s
                       end;
              queues := set_status q QExited (queues s); next_q := next_q s |}, None)
      | _ => (s, None)
      end
  end.

Fixpoint prun_pm (s : pm) (ls : list plabel) : pm :=
  match ls with [] => s | l :: r => prun_pm (fst (pstep s l)) r end.

Definition is_live (s : pm) (q : qid) : bool :=
  match aget q (queues s) with Some (_, QLive) => true | _ => false end.
Definition live_for (s : pm) (p : peer) : list qid :=
  map fst (filter (fun x => match snd x with (p', QLive) => N.eqb p' p | _ => false end) (queues s)).

(* ---- observations for the correspondence run ---- *)
Definition st_code (st : qstatus) : N := match st with QLive => 0 | QSignalled => 1 | QExited => 2 end.
Record pmobs := {
  po_ret : option qid;                 (* process returned by GetProcess *)
  po_table : list (peer * qid);        (* table snapshot, sorted by peer by the harness and by the model *)
  po_status : list N                   (* status code of every process ever created, by creation order *)
}.
Fixpoint insert_by_fst (x : N * N) (l : list (N * N)) : list (N * N) :=
  match l with [] => [x] | y :: r => if fst x <=? fst y then x :: l else y :: insert_by_fst x r end.
Definition sort_by_fst (l : list (N * N)) : list (N * N) := fold_right insert_by_fst [] l.
Definition pm_observe (s : pm) (ret : option qid) : pmobs :=
  {| po_ret := ret;
     po_table := sort_by_fst (map (fun x => (fst x, snd (snd x))) (table s));
     po_status := map (fun q => match aget q (queues s) with Some (_, st) => st_code st | None => 9 end)
                      (map N.of_nat (seq 0 (N.to_nat (next_q s)))) |}.
Fixpoint pm_trace (s : pm) (ls : list plabel) : list pmobs :=
  match ls with
  | [] => []
  | l :: r => let '(s', ret) := pstep s l in pm_observe s' ret :: pm_trace s' r
  end.
Definition pair_eqb2 (a b : N * N) : bool := N.eqb (fst a) (fst b) && N.eqb (snd a) (snd b).
Definition pmobs_eqb (a b : pmobs) : bool :=
  option_eqb N.eqb (po_ret a) (po_ret b) && list_eqb pair_eqb2 (po_table a) (po_table b) &&
  list_eqb N.eqb (po_status a) (po_status b).

(* the property on an observed trace: at most one live process per peer, every live process is the
   one the table holds for its peer, and GetProcess hands out the table's process *)
Definition obs_ok (owner : list peer) (o : pmobs) : bool :=
  (* owner: the peer of each process by creation order *)
  let live := filter (fun x => N.eqb (snd x) 0) (combine (combine (map N.of_nat (seq 0 (length owner))) owner) (po_status o)) in
  forallb (fun x => let '((q, p), _) := x in
                    match aget p (po_table o) with Some q' => N.eqb q q' | None => false end) live &&
  match po_ret o with
  | Some q => existsb (fun e => N.eqb (snd e) q) (po_table o)
  | None => true
  end.

(* connections a peer currently has, according to the notifications seen so far (never negative) *)
Definition cnt_step (cs : peer -> N) (l : plabel) : peer -> N :=
  match l with
  | LConnected p => fun x => if N.eqb x p then cs x + 1 else cs x
  | LDisconnected p => fun x => if N.eqb x p then cs x - 1 else cs x
  | _ => cs
  end.

(* no process outlives the last disconnect: checked on the observed trace *)
Fixpoint outlive_ok (cs : peer -> N) (owner : list peer) (ls : list plabel) (obs : list pmobs) : bool :=
  match ls, obs with
  | [], [] => true
  | l :: ls', o :: obs' =>
      let cs' := cnt_step cs l in
      match l with
      | LDisconnected p =>
          if N.eqb (cs' p) 0
          then forallb (fun x => negb (N.eqb (fst x) p && N.eqb (snd x) 0)) (combine owner (po_status o))
          else true
      | _ => true
      end && outlive_ok cs' owner ls' obs'
  | _, _ => false
  end.

Record pmcase := { pmc_labels : list plabel; pmc_owner : list peer; pmc_obs : list pmobs }.
Definition pmcase_agrees (c : pmcase) : bool := list_eqb pmobs_eqb (pm_trace pm_new (pmc_labels c)) (pmc_obs c).
Definition pmcase_mon (c : pmcase) : bool :=
  forallb (obs_ok (pmc_owner c)) (pmc_obs c) &&
  outlive_ok (fun _ => 0) (pmc_owner c) (pmc_labels c) (pmc_obs c).
