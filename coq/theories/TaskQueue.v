(* TaskQueue.v — executable model of /repo/taskqueue/taskqueue.go (WorkerTaskQueue: PushTask, TaskDone,
   Remove, Startup/worker loop with workSignal and the thaw ticker) over the parts of
   go-peertaskqueue v0.8.3 that graphsync exercises (peertaskqueue.go PushTasks / PopTasks / TasksDone /
   Remove / ThawRound; peertracker.go DefaultPeerComparator, PushTasksTruncated, PopTasks, startTask,
   TaskDone, Remove, Freeze, Thaw; peertask.go PriorityCompare).  Property C21 (C23 reuses it).

   What is fixed as graphsync uses it: every task has Work = 1 (responsemanager/server.go and
   requestmanager/server.go push {Topic: request id, Priority, Work: 1}), the worker asks for
   PopTasks(1), the task merger is DefaultTaskMerger (HasNewInfo = false, Merge = no-op), the task
   comparator is PriorityCompare, the peer comparator is DefaultPeerComparator.

   What the two heaps (go-ipfs-pq = container/heap) leave open: the peer heap may present ANY tracker
   that no other tracker strictly precedes under DefaultPeerComparator; that choice is a parameter
   [top] of the pop labels, constrained only by [is_top].  Inside one peer PriorityCompare is a strict
   total order (priority, then creation time; creation stamps of successive pushes are assumed
   distinct), so the task heap leaves nothing open.

   Not represented: frozenPeers (an index of the trackers whose freezeVal > 0: ThawRound is modelled
   as thawing every tracker with freezeVal > 0), activeWork as a separate counter (it is the number
   of active task pointers because Work = 1), shutdown (context cancelled), PushTasksTruncated's
   truncation (graphsync pushes with n = MaxUint). *)
From Coq Require Import List NArith ZArith Bool Arith Lia.
From GS Require Export Base.
Import ListNotations.
Open Scope N_scope.

Definition peer := N.
Definition topic := N.
Definition tid := N.

(* peertask.Task / QueueTask: [t_id] stands for the pointer identity of the task object AND for its
   creation stamp (ids are handed out in push order) *)
Record task := { t_id : tid; t_topic : topic; t_prio : Z }.

(* peertracker.PeerTracker *)
Record tracker := {
  tr_pending : list task;     (* pendingTasks / taskQueue *)
  tr_active : list task;      (* activeTasks, flattened; activeWork = length (Work = 1) *)
  tr_freeze : nat             (* freezeVal *)
}.
Definition tr_new : tracker := {| tr_pending := []; tr_active := []; tr_freeze := 0 |}.

Record config := {
  c_maxpp : nat;              (* maxOutstandingWorkPerPeer; 0 = unset *)
  c_ignore_freeze : bool      (* IgnoreFreezing option (graphsync leaves it false) *)
}.

Definition npend (t : tracker) : nat := length (tr_pending t).
Definition nact (t : tracker) : nat := length (tr_active t).

(* peertracker.go DefaultPeerComparator, branch by branch: true = a has higher priority than b *)
Definition peer_cmp (a b : tracker) : bool :=
  if Nat.eqb (npend a) 0 then false else
  if Nat.eqb (npend b) 0 then true else
  if Nat.ltb (tr_freeze b) (tr_freeze a) then false else
  if Nat.ltb (tr_freeze a) (tr_freeze b) then true else
  if Nat.eqb (nact a) (nact b) then Nat.ltb (npend b) (npend a)
  else Nat.ltb (nact a) (nact b).

(* peertask.go PriorityCompare for two tasks of the same target *)
Definition better (a b : task) : bool :=
  if Z.eqb (t_prio a) (t_prio b) then N.ltb (t_id a) (t_id b) else Z.ltb (t_prio b) (t_prio a).

(* the element the task heap pops *)
Fixpoint best (l : list task) : option task :=
  match l with
  | [] => None
  | x :: r => match best r with
              | None => Some x
              | Some y => if better y x then Some y else Some x
              end
  end.

Definition has_topic (tp : topic) (l : list task) : bool := existsb (fun t => N.eqb (t_topic t) tp) l.
Definition del_id (i : tid) (l : list task) : list task := filter (fun t => negb (N.eqb (t_id t) i)) l.
Definition del_topic (tp : topic) (l : list task) : list task := filter (fun t => negb (N.eqb (t_topic t) tp)) l.

(* peertracker.go PushTasksTruncated for one task: returns the tracker and whether a task object was created *)
Definition tr_push (i : tid) (tp : topic) (prio : Z) (t : tracker) : tracker * bool :=
  if has_topic tp (tr_active t) then (t, false)          (* taskHasMoreInfoThanActiveTasks = false: skipped *)
  else if has_topic tp (tr_pending t) then                (* existing pending task: raise its priority only *)
    ({| tr_pending := map (fun x => if N.eqb (t_topic x) tp
                                    then (if Z.ltb (t_prio x) prio
                                          then {| t_id := t_id x; t_topic := t_topic x; t_prio := prio |} else x)
                                    else x) (tr_pending t);
        tr_active := tr_active t; tr_freeze := tr_freeze t |}, false)
  else ({| tr_pending := tr_pending t ++ [{| t_id := i; t_topic := tp; t_prio := prio |}];
           tr_active := tr_active t; tr_freeze := tr_freeze t |}, true).

(* peertracker.go PopTasks(1) + startTask *)
Definition tr_pop (maxpp : nat) (t : tracker) : option task * tracker :=
  match best (tr_pending t) with
  | None => (None, t)                                              (* taskQueue.Len() = 0 *)
  | Some b =>
      if negb (Nat.eqb (tr_freeze t) 0) then (None, t)              (* frozen *)
      else if negb (Nat.eqb maxpp 0) && Nat.leb maxpp (nact t) then (None, t)   (* peer maxed out *)
      else (Some b, {| tr_pending := del_id (t_id b) (tr_pending t);
                       tr_active := tr_active t ++ [b]; tr_freeze := tr_freeze t |})
  end.

(* peertracker.go TaskDone: entries that are this very task object leave the active set *)
Definition tr_done (x : task) (t : tracker) : tracker :=
  {| tr_pending := tr_pending t; tr_active := del_id (t_id x) (tr_active t); tr_freeze := tr_freeze t |}.

Definition tr_idle (t : tracker) : bool :=
  match tr_pending t, tr_active t with [], [] => true | _, _ => false end.

(* peertracker.go Thaw *)
Definition thaw (t : tracker) : tracker :=
  {| tr_pending := tr_pending t; tr_active := tr_active t;
     tr_freeze := tr_freeze t - Nat.div (tr_freeze t + 1) 2 |}.

(* ---- peertaskqueue.PeerTaskQueue: trackers keyed by peer (peerTrackers = the elements of pQueue) ---- *)
Definition trackers := list (peer * tracker).

(* a tracker the peer heap may present at its root *)
Definition is_top (trk : trackers) (p : peer) : bool :=
  match aget p trk with
  | None => false
  | Some tp => forallb (fun qt => negb (peer_cmp (snd qt) tp)) trk
  end.

(* peertaskqueue.go PopTasks(1) given the tracker the heap presents ([None]: heap empty) *)
Definition pop_tasks (cfg : config) (trk : trackers) (top : option peer)
  : option (trackers * option (peer * task)) :=
  match top with
  | None => match trk with [] => Some (trk, None) | _ => None end
  | Some p =>
      if is_top trk p then
        match aget p trk with
        | None => None
        | Some t =>
            let '(o, t') := tr_pop (c_maxpp cfg) t in
            Some (if tr_idle t' then adel p trk else aput p t' trk,
                  match o with Some x => Some (p, x) | None => None end)
        end
      else None
  end.

(* peertaskqueue.go ThawRound *)
Definition thaw_round (trk : trackers) : trackers :=
  map (fun qt => (fst qt, if Nat.eqb (tr_freeze (snd qt)) 0 then snd qt else thaw (snd qt))) trk.

(* ---- taskqueue.WorkerTaskQueue ---- *)
Inductive wstate :=
| WReady                               (* at the top of the loop, about to call PopTasks *)
| WWaiting                             (* in the select: ctx.Done / workSignal / ticker *)
| WRunning (p : peer) (t : task).      (* inside executor.ExecuteTask *)

Record state := {
  st_trk : trackers;
  st_next : tid;                       (* next task identity / creation stamp *)
  st_sig : bool;                       (* workSignal (capacity 1) holds a token *)
  st_w : list wstate;                  (* the workers started by Startup *)
  (* history (ghost) — read by no transition *)
  gh_created : list (peer * tid);      (* task objects created by pushes *)
  gh_removed : list (peer * tid);      (* removed while pending *)
  gh_started : list (peer * tid);      (* handed to the executor *)
  gh_done : list (peer * tid)          (* TaskDone called *)
}.

Definition init (w : nat) : state :=
  {| st_trk := []; st_next := 0; st_sig := false; st_w := repeat WReady w;
     gh_created := []; gh_removed := []; gh_started := []; gh_done := [] |}.

Inductive label :=
| LPush (p : peer) (tp : topic) (prio : Z)       (* PushTask: PushTasks under the lock, then the non-blocking signal *)
| LRemove (p : peer) (tp : topic)                (* Remove *)
| LPop (w : nat) (top : option peer)             (* a worker at the loop top calls PopTasks *)
| LWakeSig (w : nat) (top : option peer)         (* a waiting worker receives the work signal, PopTasks *)
| LWakeTick (w : nat) (top : option peer)        (* a waiting worker receives a tick: ThawRound, PopTasks *)
| LDone (w : nat).                               (* the executor calls TaskDone and returns *)

Inductive event :=
| EPush (p : peer) (tp : topic)
| ERemove (p : peer) (tp : topic)
| EStart (p : peer) (tp : topic)
| EDone (p : peer) (tp : topic).

Fixpoint upd {A} (n : nat) (x : A) (l : list A) : list A :=
  match l, n with
  | [], _ => []
  | _ :: r, O => x :: r
  | y :: r, S m => y :: upd m x r
  end.

Definition set_trk (s : state) (trk : trackers) : state :=
  {| st_trk := trk; st_next := st_next s; st_sig := st_sig s; st_w := st_w s;
     gh_created := gh_created s; gh_removed := gh_removed s; gh_started := gh_started s; gh_done := gh_done s |}.

(* what a worker does with the result of PopTasks *)
Definition after_pop (s : state) (w : nat) (sig : bool) (r : trackers * option (peer * task)) : state * list event :=
  match snd r with
  | Some (p, x) =>
      ({| st_trk := fst r; st_next := st_next s; st_sig := sig; st_w := upd w (WRunning p x) (st_w s);
          gh_created := gh_created s; gh_removed := gh_removed s;
          gh_started := gh_started s ++ [(p, t_id x)]; gh_done := gh_done s |}, [EStart p (t_topic x)])
  | None =>
      ({| st_trk := fst r; st_next := st_next s; st_sig := sig; st_w := upd w WWaiting (st_w s);
          gh_created := gh_created s; gh_removed := gh_removed s;
          gh_started := gh_started s; gh_done := gh_done s |}, [])
  end.

Definition step (cfg : config) (s : state) (l : label) : option (state * list event) :=
  match l with
  | LPush p tp prio =>
      let t := match aget p (st_trk s) with Some t => t | None => tr_new end in
      let '(t', created) := tr_push (st_next s) tp prio t in
      Some ({| st_trk := aput p t' (st_trk s);
               st_next := if created then st_next s + 1 else st_next s;
               st_sig := true; st_w := st_w s;
               gh_created := if created then gh_created s ++ [(p, st_next s)] else gh_created s;
               gh_removed := gh_removed s; gh_started := gh_started s; gh_done := gh_done s |},
            [EPush p tp])
  | LRemove p tp =>
      match aget p (st_trk s) with
      | None => Some (s, [ERemove p tp])
      | Some t =>
          if has_topic tp (tr_pending t) then
            let t' := {| tr_pending := del_topic tp (tr_pending t); tr_active := tr_active t;
                         tr_freeze := if c_ignore_freeze cfg then tr_freeze t else S (tr_freeze t) |} in
            Some ({| st_trk := aput p t' (st_trk s); st_next := st_next s; st_sig := st_sig s; st_w := st_w s;
                     gh_created := gh_created s;
                     gh_removed := gh_removed s ++ map (fun x => (p, t_id x))
                                                       (filter (fun x => N.eqb (t_topic x) tp) (tr_pending t));
                     gh_started := gh_started s; gh_done := gh_done s |}, [ERemove p tp])
          else Some (s, [ERemove p tp])
      end
  | LPop w top =>
      match nth_error (st_w s) w with
      | Some WReady =>
          match pop_tasks cfg (st_trk s) top with
          | Some r => Some (after_pop s w (st_sig s) r)
          | None => None
          end
      | _ => None
      end
  | LWakeSig w top =>
      match nth_error (st_w s) w with
      | Some WWaiting =>
          if st_sig s then
            match pop_tasks cfg (st_trk s) top with
            | Some r => Some (after_pop s w false r)
            | None => None
            end
          else None
      | _ => None
      end
  | LWakeTick w top =>
      match nth_error (st_w s) w with
      | Some WWaiting =>
          match pop_tasks cfg (thaw_round (st_trk s)) top with
          | Some r => Some (after_pop s w (st_sig s) r)
          | None => None
          end
      | _ => None
      end
  | LDone w =>
      match nth_error (st_w s) w with
      | Some (WRunning p x) =>
          Some ({| st_trk := match aget p (st_trk s) with
                             | Some t => aput p (tr_done x t) (st_trk s)
                             | None => st_trk s
                             end;
                   st_next := st_next s; st_sig := st_sig s; st_w := upd w WReady (st_w s);
                   gh_created := gh_created s; gh_removed := gh_removed s; gh_started := gh_started s;
                   gh_done := gh_done s ++ [(p, t_id x)] |}, [EDone p (t_topic x)])
      | _ => None
      end
  end.

(* runs: all label sequences *)
Fixpoint run (cfg : config) (s : state) (ls : list label) : option (state * list event) :=
  match ls with
  | [] => Some (s, [])
  | l :: r =>
      match step cfg s l with
      | None => None
      | Some (s1, e1) =>
          match run cfg s1 r with
          | None => None
          | Some (s2, e2) => Some (s2, e1 ++ e2)
          end
      end
  end.

(* ---- observables ---- *)
Definition is_running (x : wstate) : bool := match x with WRunning _ _ => true | _ => false end.
Definition running (s : state) : nat := length (filter is_running (st_w s)).
Definition running_tasks (s : state) : list (peer * tid) :=
  flat_map (fun x => match x with WRunning p t => [(p, t_id t)] | _ => [] end) (st_w s).
Definition all_pending (s : state) : list (peer * tid) :=
  flat_map (fun qt => map (fun x => (fst qt, t_id x)) (tr_pending (snd qt))) (st_trk s).
Definition all_active (s : state) : list (peer * tid) :=
  flat_map (fun qt => map (fun x => (fst qt, t_id x)) (tr_active (snd qt))) (st_trk s).

(* ============================================================================================ *)
(* The property's safety half as an executable monitor over an event history: which requests are
   queued (pushed, not removed, not yet handed to an executor) and which are being executed, per
   peer.  It knows nothing about trackers, priorities, freezing or heaps.
     - a start must be of a queued request of that peer (so: pushed, not removed since, not started
       before for this push);
     - never more than [w] executions at once, never more than [maxpp] for one peer when set;
     - a completion must be of a request being executed. *)
Definition pt := (peer * topic)%type.
Definition pt_eqb (a b : pt) : bool := N.eqb (fst a) (fst b) && N.eqb (snd a) (snd b).
Definition pt_in (x : pt) (l : list pt) : bool := existsb (pt_eqb x) l.
Fixpoint pt_del (x : pt) (l : list pt) : list pt :=
  match l with [] => [] | y :: r => if pt_eqb x y then r else y :: pt_del x r end.
Definition count_peer (p : peer) (l : list pt) : nat := length (filter (fun y => N.eqb (fst y) p) l).

Record mstate := { m_queued : list pt; m_running : list pt }.
Definition m_init : mstate := {| m_queued := []; m_running := [] |}.

Definition mon_step (w maxpp : nat) (m : mstate) (e : event) : option mstate :=
  match e with
  | EPush p tp =>
      if pt_in (p, tp) (m_queued m) || pt_in (p, tp) (m_running m) then Some m
      else Some {| m_queued := m_queued m ++ [(p, tp)]; m_running := m_running m |}
  | ERemove p tp => Some {| m_queued := pt_del (p, tp) (m_queued m); m_running := m_running m |}
  | EStart p tp =>
      if pt_in (p, tp) (m_queued m)
         && Nat.ltb (length (m_running m)) w
         && (Nat.eqb maxpp 0 || Nat.ltb (count_peer p (m_running m)) maxpp)
      then Some {| m_queued := pt_del (p, tp) (m_queued m); m_running := m_running m ++ [(p, tp)] |}
      else None
  | EDone p tp =>
      if pt_in (p, tp) (m_running m)
      then Some {| m_queued := m_queued m; m_running := pt_del (p, tp) (m_running m) |}
      else None
  end.

Fixpoint mon_run (w maxpp : nat) (m : mstate) (es : list event) : option mstate :=
  match es with
  | [] => Some m
  | e :: r => match mon_step w maxpp m e with Some m' => mon_run w maxpp m' r | None => None end
  end.

Definition monitor_C21 (w maxpp : nat) (es : list event) : bool :=
  match mon_run w maxpp m_init es with Some _ => true | None => false end.

(* a history that the driver ran to completion (everything released, ticks delivered until nothing
   is left): every request that was not removed has been executed *)
Definition monitor_C21_drained (w maxpp : nat) (es : list event) : bool :=
  match mon_run w maxpp m_init es with
  | Some m => match m_queued m, m_running m with [], [] => true | _, _ => false end
  | None => false
  end.

(* Fairness ("eventually executed even while other peers keep submitting") on a finite history, as
   bounded overtaking: while a request is queued, at most [bound] requests of OTHER peers that were
   pushed after it are started.  (The unbounded statement is what C21_refuted refutes; the monitor
   is evaluated with a bound no generated history can reach unless it pumps the starvation cycle.) *)
Record fq := { f_pt : pt; f_stamp : nat; f_over : nat }.
Record fstate := { fs_q : list fq; fs_clock : nat; fs_worst : nat }.
Definition fq_has (x : pt) (l : list fq) : bool := existsb (fun q => pt_eqb x (f_pt q)) l.
Definition fair_step (f : fstate) (e : event) : fstate :=
  match e with
  | EPush p tp =>
      if fq_has (p, tp) (fs_q f) then f
      else {| fs_q := fs_q f ++ [{| f_pt := (p, tp); f_stamp := fs_clock f; f_over := 0 |}];
              fs_clock := S (fs_clock f); fs_worst := fs_worst f |}
  | ERemove p tp =>
      {| fs_q := filter (fun q => negb (pt_eqb (p, tp) (f_pt q))) (fs_q f); fs_clock := fs_clock f; fs_worst := fs_worst f |}
  | EStart p tp =>
      match find (fun q => pt_eqb (p, tp) (f_pt q)) (fs_q f) with
      | None => f
      | Some me =>
          let rest := filter (fun q => negb (pt_eqb (p, tp) (f_pt q))) (fs_q f) in
          let rest' := map (fun q => if negb (N.eqb (fst (f_pt q)) p) && Nat.ltb (f_stamp q) (f_stamp me)
                                     then {| f_pt := f_pt q; f_stamp := f_stamp q; f_over := S (f_over q) |} else q) rest in
          {| fs_q := rest'; fs_clock := fs_clock f;
             fs_worst := fold_left Nat.max (map f_over rest') (fs_worst f) |}
      end
  | EDone _ _ => f
  end.
Definition worst_overtaking (es : list event) : nat :=
  fs_worst (fold_left fair_step es {| fs_q := []; fs_clock := 0; fs_worst := 0 |}).
Definition monitor_C21_fair (bound : nat) (es : list event) : bool := Nat.leb (worst_overtaking es) bound.

(* ============================================================================================ *)
(* Correspondence with the driver (harness/cmd/d_taskq).  The driver applies one operation at a time
   to the real WorkerTaskQueue and lets the worker goroutines run until every one of them is parked
   (in the select of the loop, or inside the instrumented executor); it then records which tasks
   entered the executor and a snapshot (per peer: does a tracker exist, pending topics, active topics —
   through WithPeerTopics; Stats(); the executor's own running set).  The model side performs the same
   operation followed by the worker steps that must follow (a worker at the loop top pops; a waiting
   worker consumes a pending signal), for EVERY root the peer heap may present, and accepts when some
   choice reproduces the observation (trace acceptance; workers are anonymous). *)
Inductive dop :=
| DPush (p : peer) (tp : topic) (prio : Z)
| DRemove (p : peer) (tp : topic)
| DRelease (p : peer) (tp : topic)      (* let the executor running (p, tp) call TaskDone and return *)
| DTick.                                (* deliver one tick of the thaw ticker (only with a waiting worker) *)

(* One step as the driver writes it (kept compact: the cases files are large).
   [d_starts]: the tasks that entered the executor during the step, flattened [p1; t1; p2; t2; ...].
   [d_snap]: for every peer of the universe three numbers
       2 * (pending-topic bit set) + (1 if a tracker exists),  active-topic bit set  (both through WithPeerTopics),
       bit set of the topics the EXECUTOR is running for that peer (its own bookkeeping),
   followed by Stats(): TotalPeers, Active, Pending. *)
Record dstep := { d_op : dop; d_starts : list N; d_snap : list N }.
Record dcase := {
  dc_w : nat; dc_maxpp : nat; dc_ignore : bool;
  dc_peers : list peer;                             (* the universe, ascending *)
  dc_drained : bool;                                (* the driver ran the history to completion *)
  dc_steps : list dstep
}.

Definition topic_mask (l : list topic) : N := fold_right (fun t acc => N.lor (N.shiftl 1 t) acc) 0 l.
Fixpoint ndistinct (l : list N) : nat :=
  match l with [] => O | x :: r => if existsb (N.eqb x) r then ndistinct r else S (ndistinct r) end.

Definition snap_of (peers : list peer) (s : state) : list N :=
  flat_map (fun p =>
     [ match aget p (st_trk s) with
       | None => 0
       | Some t => 2 * topic_mask (map t_topic (tr_pending t)) + 1
       end;
       match aget p (st_trk s) with
       | None => 0
       | Some t => topic_mask (map t_topic (tr_active t))
       end;
       topic_mask (flat_map (fun x => match x with WRunning q t => if N.eqb q p then [t_topic t] else [] | _ => [] end) (st_w s)) ])
    peers
  ++ [ N.of_nat (length (st_trk s));
       N.of_nat (fold_right (fun qt acc => (ndistinct (map t_topic (tr_active (snd qt))) + acc)%nat) O (st_trk s));
       N.of_nat (fold_right (fun qt acc => (npend (snd qt) + acc)%nat) O (st_trk s)) ].
Definition snap_eqb (a b : list N) : bool := list_eqb N.eqb a b.

Fixpoint unflat (l : list N) : list pt :=
  match l with p :: t :: r => (p, t) :: unflat r | _ => [] end.

Definition tops (trk : trackers) : list (option peer) :=
  match trk with [] => [None] | _ => map Some (filter (is_top trk) (map fst trk)) end.

Fixpoint find_idx {A} (f : A -> bool) (l : list A) : option nat :=
  match l with
  | [] => None
  | x :: r => if f x then Some O else match find_idx f r with Some n => Some (S n) | None => None end
  end.
Definition is_ready (x : wstate) : bool := match x with WReady => true | _ => false end.
Definition is_waiting (x : wstate) : bool := match x with WWaiting => true | _ => false end.

(* the worker steps that follow an operation, for every root the heap may present *)
Fixpoint settle (cfg : config) (fuel : nat) (s : state) (evs : list event) : list (state * list event) :=
  match fuel with
  | O => []
  | S f =>
      match find_idx is_ready (st_w s) with
      | Some w =>
          flat_map (fun top => match step cfg s (LPop w top) with
                               | Some (s', e) => settle cfg f s' (evs ++ e)
                               | None => []
                               end) (tops (st_trk s))
      | None =>
          if st_sig s then
            match find_idx is_waiting (st_w s) with
            | Some w =>
                flat_map (fun top => match step cfg s (LWakeSig w top) with
                                     | Some (s', e) => settle cfg f s' (evs ++ e)
                                     | None => []
                                     end) (tops (st_trk s))
            | None => [(s, evs)]
            end
          else [(s, evs)]
      end
  end.

Definition do_op (cfg : config) (s : state) (o : dop) : list (state * list event) :=
  let fuel := S (S (S (2 * length (st_w s)))) in
  match o with
  | DPush p tp prio =>
      match step cfg s (LPush p tp prio) with Some (s', e) => settle cfg fuel s' e | None => [] end
  | DRemove p tp =>
      match step cfg s (LRemove p tp) with Some (s', e) => settle cfg fuel s' e | None => [] end
  | DRelease p tp =>
      match find_idx (fun x => match x with WRunning q t => N.eqb q p && N.eqb (t_topic t) tp | _ => false end) (st_w s) with
      | Some w => match step cfg s (LDone w) with Some (s', e) => settle cfg fuel s' e | None => [] end
      | None => []
      end
  | DTick =>
      match find_idx is_waiting (st_w s) with
      | Some w =>
          flat_map (fun top => match step cfg s (LWakeTick w top) with
                               | Some (s', e) => settle cfg fuel s' e
                               | None => []
                               end) (tops (thaw_round (st_trk s)))
      | None => []
      end
  end.

Definition starts_of (es : list event) : list pt :=
  flat_map (fun e => match e with EStart p tp => [(p, tp)] | _ => [] end) es.

(* candidates that reproduce the observation agree on everything but the numbering of the anonymous
   workers (the snapshot shows which trackers exist and what they hold), so the first one is followed *)
Fixpoint accepts (cfg : config) (peers : list peer) (s : state) (steps : list dstep) : bool :=
  match steps with
  | [] => true
  | d :: r =>
      match filter (fun se => list_eqb pt_eqb (starts_of (snd se)) (unflat (d_starts d))
                              && snap_eqb (snap_of peers (fst se)) (d_snap d))
                   (do_op cfg s (d_op d)) with
      | [] => false
      | se :: _ => accepts cfg peers (fst se) r
      end
  end.

(* index of the first step the model cannot reproduce (diagnostics) *)
Fixpoint first_reject (cfg : config) (peers : list peer) (s : state) (steps : list dstep) (i : N) : option N :=
  match steps with
  | [] => None
  | d :: r =>
      match filter (fun se => list_eqb pt_eqb (starts_of (snd se)) (unflat (d_starts d))
                              && snap_eqb (snap_of peers (fst se)) (d_snap d))
                   (do_op cfg s (d_op d)) with
      | [] => Some i
      | se :: _ => first_reject cfg peers (fst se) r (i + 1)
      end
  end.

(* at the start every worker has found the queue empty and waits *)
Definition init_parked (w : nat) : state :=
  {| st_trk := []; st_next := 0; st_sig := false; st_w := repeat WWaiting w;
     gh_created := []; gh_removed := []; gh_started := []; gh_done := [] |}.

Definition dcase_cfg (c : dcase) : config := {| c_maxpp := dc_maxpp c; c_ignore_freeze := dc_ignore c |}.
Definition dcase_agrees (c : dcase) : bool := accepts (dcase_cfg c) (dc_peers c) (init_parked (dc_w c)) (dc_steps c).

(* the event history as the IMPLEMENTATION produced it: the driver's operations and the executor entries it observed *)
Definition dstep_events (d : dstep) : list event :=
  (match d_op d with
   | DPush p tp _ => [EPush p tp]
   | DRemove p tp => [ERemove p tp]
   | DRelease p tp => [EDone p tp]
   | DTick => []
   end) ++ map (fun x => EStart (fst x) (snd x)) (unflat (d_starts d)).
Definition dcase_events (c : dcase) : list event := flat_map dstep_events (dc_steps c).

Definition fair_bound : nat := 30.
(* number of tasks the executor reports running: per peer (third number of each triple), and in total *)
Fixpoint popcount_fuel (f : nat) (n : N) : nat :=
  match f with O => O | S f' => if N.eqb n 0 then O else ((if N.odd n then 1 else 0) + popcount_fuel f' (N.div2 n))%nat end.
Definition popcount (n : N) : nat := popcount_fuel (S (N.to_nat (N.log2 n))) n.
Fixpoint exec_counts (k : nat) (l : list N) : list nat :=
  match k, l with
  | S k', _ :: _ :: r :: rest => popcount r :: exec_counts k' rest
  | _, _ => []
  end.
Definition dcase_mon (c : dcase) : bool :=
  (if dc_drained c then monitor_C21_drained (dc_w c) (dc_maxpp c) (dcase_events c)
   else monitor_C21 (dc_w c) (dc_maxpp c) (dcase_events c))
  && forallb (fun d => let cs := exec_counts (length (dc_peers c)) (d_snap d) in
                       Nat.leb (fold_right Nat.add O cs) (dc_w c)
                       && (Nat.eqb (dc_maxpp c) 0 || forallb (fun n => Nat.leb n (dc_maxpp c)) cs))
             (dc_steps c).
Definition dcase_fair (c : dcase) : bool := monitor_C21_fair fair_bound (dcase_events c).
