(* LtreeProofs.v — C07: the link budget caps loads exactly, for every traversal plan and oracle. *)
From Coq Require Import List NArith Bool Lia PeanoNat.
From GS Require Import Base Ltree.
Import ListNotations.
Open Scope N_scope.
Local Arguments N.add : simpl never.
Local Arguments N.sub : simpl never.
Local Arguments N.of_nat : simpl never.
Local Arguments N.to_nat : simpl never.

Lemma loads_app a b : loads (a ++ b) = loads a + loads b.
Proof. induction a as [|[p c x|v] a IH]; cbn [loads app]; rewrite ?IH; lia. Qed.

Lemma cut_app_le n a b : loads a <= N.of_nat n -> cut n (a ++ b) = a ++ cut (n - N.to_nat (loads a)) b.
Proof.
  revert n. induction a as [|[p c x|v] a IH]; intros n H; simpl in *.
  - now rewrite Nat.sub_0_r.
  - destruct n as [|m]; [lia|]. rewrite IH by lia. f_equal. f_equal. f_equal. lia.
  - now rewrite IH.
Qed.
Lemma cut_app_gt n a b : N.of_nat n < loads a -> cut n (a ++ b) = cut n a.
Proof.
  revert n. induction a as [|[p c x|v] a IH]; intros n H; simpl in *.
  - lia.
  - destruct n as [|m]; [reflexivity|]. rewrite IH by lia. reflexivity.
  - now rewrite IH.
Qed.

Section Budget.
  Context {S : Type}.
  Variable ask : S -> path -> cid -> S * ans.

  (* the budgeted run in terms of the free run *)
  Definition rel (n : N) (free : S * list ev * bool) (bud : (N * S) * list ev * bool) : Prop :=
    let '(s', evs, ok) := free in
    let '((n', s''), evs', ok') := bud in
    if loads evs <=? n then n' = n - loads evs /\ s'' = s' /\ evs' = evs /\ ok' = ok
    else evs' = cut (N.to_nat n) evs /\ ok' = false.

  Lemma budget_run :
    (forall t n s, rel n (run_tree ask t s) (run_tree (budgeted ask) t (n, s))) /\
    (forall l n s, rel n (run_items ask l s) (run_items (budgeted ask) l (n, s))).
  Proof.
    apply (ltree_items_ind
             (fun t => forall n s, rel n (run_tree ask t s) (run_tree (budgeted ask) t (n, s)))
             (fun l => forall n s, rel n (run_items ask l s) (run_items (budgeted ask) l (n, s)))).
    - (* node *)
      intros p c body IH n s. rewrite !run_tree_node. unfold budgeted at 1. destruct (N.eqb_spec n 0) as [->|Hn].
      + (* no budget left: refused *)
        destruct (ask s p c) as [s1 a]. destruct a as [| |e].
        * destruct (run_items ask body s1) as [[s2 evs] ok]. unfold rel. simpl.
          destruct (N.leb_spec (1 + loads evs) 0); [lia | auto].
        * unfold rel. simpl. auto.
        * unfold rel. simpl. auto.
      + destruct (ask s p c) as [s1 a] eqn:Ea. destruct a as [| |e].
        * specialize (IH (n - 1) s1). destruct (run_items ask body s1) as [[s2 evs] ok].
          destruct (run_items (budgeted ask) body (n - 1, s1)) as [[[n' s''] evs'] ok'].
          unfold rel in *. simpl.
          destruct (N.leb_spec (loads evs) (n - 1)), (N.leb_spec (1 + loads evs) n); try lia.
          -- destruct IH as (-> & -> & -> & ->). repeat split; lia.
          -- destruct IH as (-> & ->). split; [|reflexivity].
             destruct (N.to_nat n) as [|m] eqn:Em; [lia|]. simpl. f_equal. f_equal. lia.
        * unfold rel. cbn [loads]. rewrite N.add_0_r. destruct (N.leb_spec 1 n); [|lia]. repeat split; lia.
        * unfold rel. cbn [loads]. rewrite N.add_0_r. destruct (N.leb_spec 1 n); [|lia]. repeat split; lia.
    - (* no items *)
      intros n s. rewrite !run_items_nil. unfold rel. cbn [loads]. destruct (N.leb_spec 0 n); [|lia]. repeat split; lia.
    - (* visit *)
      intros v rest IH n s. rewrite !run_items_visit. specialize (IH n s).
      destruct (run_items ask rest s) as [[s2 evs] ok].
      destruct (run_items (budgeted ask) rest (n, s)) as [[[n' s''] evs'] ok'].
      unfold rel in *. simpl. destruct (N.leb_spec (loads evs) n).
      + destruct IH as (-> & -> & -> & ->). auto.
      + destruct IH as (-> & ->). auto.
    - (* child then rest *)
      intros t IHt rest IHr n s. rewrite !run_items_child. specialize (IHt n s).
      destruct (run_tree ask t s) as [[s1 e1] ok1].
      destruct (run_tree (budgeted ask) t (n, s)) as [[[n1 s1'] e1'] ok1'].
      unfold rel in IHt. destruct (N.leb_spec (loads e1) n) as [Hle|Hgt].
      + destruct IHt as (-> & -> & -> & ->). destruct ok1.
        * specialize (IHr (n - loads e1) s1).
          destruct (run_items ask rest s1) as [[s2 e2] ok2].
          destruct (run_items (budgeted ask) rest (n - loads e1, s1)) as [[[n2 s2'] e2'] ok2'].
          unfold rel in *. rewrite loads_app.
          destruct (N.leb_spec (loads e2) (n - loads e1)), (N.leb_spec (loads e1 + loads e2) n); try lia.
          -- destruct IHr as (-> & -> & -> & ->). repeat split; lia.
          -- destruct IHr as (-> & ->). split; [|reflexivity].
             rewrite cut_app_le by lia. f_equal. f_equal. lia.
        * unfold rel. destruct (N.leb_spec (loads e1) n); [|lia]. repeat split; lia.
      + destruct IHt as (-> & ->). destruct ok1.
        * destruct (run_items ask rest s1) as [[s2 e2] ok2]. unfold rel. rewrite loads_app.
          destruct (N.leb_spec (loads e1 + loads e2) n); [lia|]. split; [|reflexivity].
          rewrite cut_app_gt by lia. reflexivity.
        * unfold rel. destruct (N.leb_spec (loads e1) n); [lia|]. auto.
  Qed.

  Lemma real_loads_le evs : real_loads evs <= loads evs.
  Proof. induction evs as [|[p c [| |[|x]]|v] r IH]; simpl; lia. Qed.

  Lemma real_loads_cut n evs : real_loads (cut n evs) <= N.of_nat n.
  Proof.
    revert n. induction evs as [|[p c a|v] r IH]; intro n; simpl; [lia| |apply IH].
    destruct n as [|m]; simpl; [lia|]. specialize (IH m).
    destruct a as [| |[|x]]; lia.
  Qed.

  (* never more than n loads reach the store *)
  Theorem budget_cap t n s : real_loads (snd (fst (run_tree (budgeted ask) t (n, s)))) <= n.
  Proof.
    pose proof (proj1 budget_run t n s) as H. destruct (run_tree ask t s) as [[s' evs] ok].
    destruct (run_tree (budgeted ask) t (n, s)) as [[[n' s''] evs'] ok']. unfold rel in H. simpl.
    destruct (N.leb_spec (loads evs) n).
    - destruct H as (_ & _ & -> & _). pose proof (real_loads_le evs). lia.
    - destruct H as (-> & _). pose proof (real_loads_cut (N.to_nat n) evs). lia.
  Qed.

  (* enough budget: the traversal is exactly the unbudgeted one *)
  Theorem budget_enough t n s :
    loads (snd (fst (run_tree ask t s))) <= n ->
    snd (fst (run_tree (budgeted ask) t (n, s))) = snd (fst (run_tree ask t s)) /\
    snd (run_tree (budgeted ask) t (n, s)) = snd (run_tree ask t s).
  Proof.
    intro Hn. pose proof (proj1 budget_run t n s) as H. destruct (run_tree ask t s) as [[s' evs] ok].
    destruct (run_tree (budgeted ask) t (n, s)) as [[[n' s''] evs'] ok']. unfold rel in H. simpl in *.
    destruct (N.leb_spec (loads evs) n); [|lia]. destruct H as (_ & _ & -> & ->). auto.
  Qed.

  (* not enough: exactly n loads, then a budget refusal, and the traversal is aborted *)
  Theorem budget_exceeded t n s :
    n < loads (snd (fst (run_tree ask t s))) ->
    snd (fst (run_tree (budgeted ask) t (n, s))) = cut (N.to_nat n) (snd (fst (run_tree ask t s))) /\
    snd (run_tree (budgeted ask) t (n, s)) = false.
  Proof.
    intro Hn. pose proof (proj1 budget_run t n s) as H. destruct (run_tree ask t s) as [[s' evs] ok].
    destruct (run_tree (budgeted ask) t (n, s)) as [[[n' s''] evs'] ok']. unfold rel in H. simpl in *.
    destruct (N.leb_spec (loads evs) n); [lia|]. destruct H as (-> & ->). auto.
  Qed.
End Budget.

(* a cut trace past its budget: n real loads, and the last event is the refusal *)
Lemma cut_exact n evs : N.of_nat n < loads evs ->
  real_loads (cut n evs) + (loads (firstn 0 evs)) <= N.of_nat n /\
  exists pre p c, cut n evs = pre ++ [ELoad p c (AErr ErrBudget)] /\ loads pre = N.of_nat n.
Proof.
  revert n. induction evs as [|[p c a|v] r IH]; intros n H; simpl in *; [lia| |].
  - destruct n as [|m].
    + split; [simpl; lia|]. exists [], p, c. split; reflexivity.
    + destruct (IH m) as (_ & pre & p' & c' & E & L); [lia|]. split.
      * pose proof (real_loads_cut m r). simpl. destruct a as [| |[|x]]; lia.
      * exists (ELoad p c a :: pre), p', c'. simpl. rewrite E. split; [reflexivity | lia].
  - destruct (IH n H) as (A & pre & p' & c' & E & L). split; [simpl in *; exact A|].
    exists (EVisit v :: pre), p', c'. simpl. rewrite E. split; [reflexivity | exact L].
Qed.

(* which budget applies: the smaller non-zero of the two; none (0) only if both are 0 *)
Lemma effective_budget_spec g r :
  let e := effective_budget g r in
  (g = 0 -> e = r) /\ (r = 0 -> e = g) /\ (0 < g -> 0 < r -> e = N.min g r).
Proof.
  unfold effective_budget. destruct (N.eqb_spec g 0), (N.eqb_spec r 0), (N.ltb_spec r g); simpl;
    repeat split; intros; try lia.
Qed.
