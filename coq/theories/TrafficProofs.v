(* TrafficProofs.v — C24, requestor half: no request is sent while the local store resolves every link;
   a request that is sent carries max(user value, blocks loaded locally so far). *)
From Coq Require Import List NArith Bool Lia.
From GS Require Import Base Ltree RecLoader ReqExec RecLoaderProofs Traffic.
Import ListNotations.
Open Scope N_scope.
Local Arguments N.add : simpl never.
Local Arguments N.max : simpl never.

Definition neutral (e : xev) : bool := match e with XDeliver _ => true | _ => false end.
Definition quiet (e : xev) : bool := match e with XSend _ => false | _ => true end.

Lemma ndata_neutral pre l : forallb neutral pre = true -> ndata (pre ++ l) = ndata l.
Proof.
  induction pre as [|e pre IH]; simpl; intro H; [reflexivity|].
  apply andb_true_iff in H as [He H]. destruct e; try discriminate. now apply IH.
Qed.
Lemma nosend_neutral pre l : forallb neutral pre = true -> nosend (pre ++ l) = nosend l.
Proof.
  induction pre as [|e pre IH]; simpl; intro H; [reflexivity|].
  apply andb_true_iff in H as [He H]. destruct e; try discriminate. simpl. now apply IH.
Qed.
Lemma local_only_neutral pre l : forallb neutral pre = true -> local_only (pre ++ l) = local_only l.
Proof.
  induction pre as [|e pre IH]; simpl; intro H; [reflexivity|].
  apply andb_true_iff in H as [He H]. destruct e; try discriminate. simpl. now apply IH.
Qed.
Lemma sends_ok_quiet u pre l : forallb quiet pre = true -> sends_ok u l -> sends_ok u (pre ++ l).
Proof.
  induction pre as [|e pre IH]; simpl; intros H Hl; [exact Hl|].
  apply andb_true_iff in H as [He H]. destruct e; try discriminate; now apply IH.
Qed.
Lemma sends_ok_nosend u l : nosend l = true -> sends_ok u l.
Proof.
  induction l as [|e l IH]; simpl; intro H; [exact I|].
  apply andb_true_iff in H as [He H]. destruct e; try discriminate; now apply IH.
Qed.
Lemma sends_of_nosend l : nosend l = true -> sends_of l = [].
Proof.
  induction l as [|e l IH]; simpl; intro H; [reflexivity|].
  apply andb_true_iff in H as [He H]. destruct e; try discriminate; now apply IH.
Qed.
Lemma neutral_quiet pre : forallb neutral pre = true -> forallb quiet pre = true.
Proof.
  induction pre as [|e pre IH]; simpl; intro H; [reflexivity|].
  apply andb_true_iff in H as [He H]. destruct e; try discriminate. simpl. now apply IH.
Qed.

Section Traffic.
  Variable below : path -> path -> bool.
  Variable responder : N -> list msg.
  Variable user : N.

  (* ---------- how the log grows, in any state ---------- *)
  Definition grows (x x' : xstate) : Prop :=
    x_sent x' = x_sent x /\ x_nblocks x' = x_nblocks x /\
    exists pre, x_log x' = pre ++ x_log x /\ forallb quiet pre = true.

  Lemma grows_refl x : grows x x.
  Proof. repeat split. exists []. split; reflexivity. Qed.
  Lemma grows_trans x y z : grows x y -> grows y z -> grows x z.
  Proof.
    intros (S1 & N1 & p1 & L1 & Q1) (S2 & N2 & p2 & L2 & Q2). repeat split; try congruence.
    exists (p2 ++ p1). rewrite L2, L1, app_assoc. split; [reflexivity|]. rewrite forallb_app. now rewrite Q1, Q2.
  Qed.

  Lemma process_msg_grows m x : grows x (process_msg m x).
  Proof. unfold process_msg. repeat split. exists [XDeliver m]. split; reflexivity. Qed.

  Lemma deliver_n_grows n x : grows x (deliver_n n x).
  Proof.
    revert x. induction n as [|n IH]; intro x; simpl; [apply grows_refl|].
    destruct (x_feed x) as [|m f]; [apply grows_refl|].
    eapply grows_trans; [|apply IH]. eapply grows_trans; [|apply process_msg_grows].
    repeat split. exists []. split; reflexivity.
  Qed.

  Lemma load_wait_grows feed x p c x' o : load_wait below feed x p c = (x', o) -> grows x x'.
  Proof.
    revert x. induction feed as [|m f IH]; intros x E; simpl in E;
      destruct (bro_try below (x_rl x) (x_store x) p c) as [[r1 st1] o1].
    - destruct o1 as [res|]; inversion E; subst x' o.
      + destruct res as [b [|]|]; repeat split; simpl.
        * exists []. split; reflexivity.
        * exists [XStore c b]. split; reflexivity.
        * exists []. split; reflexivity.
      + repeat split. exists []. split; reflexivity.
    - destruct o1 as [res|].
      + inversion E; subst x' o. destruct res as [b [|]|]; repeat split; simpl.
        * exists []. split; reflexivity.
        * exists [XStore c b]. split; reflexivity.
        * exists []. split; reflexivity.
      + apply IH in E. eapply grows_trans; [|exact E]. eapply grows_trans; [|apply process_msg_grows].
        repeat split. exists []. split; reflexivity.
  Qed.

  Lemma load_call_grows x p c x' o : load_call below x p c = (x', o) -> grows x x'.
  Proof.
    unfold load_call. destruct (pop_sched x) as [n x0] eqn:Ep. intro E.
    assert (G0 : grows x x0).
    { unfold pop_sched in Ep. destruct (x_sched x); inversion Ep; subst; repeat split; exists []; split; reflexivity. }
    eapply grows_trans; [exact G0|]. eapply grows_trans; [apply (deliver_n_grows n)|].
    apply load_wait_grows in E. eapply grows_trans; [|exact E].
    repeat split. exists []. split; reflexivity.
  Qed.

  Lemma retry_call_grows x x' o : retry_call below x = (x', o) -> grows x x'.
  Proof.
    unfold retry_call. destruct (retry_prepare (x_rl x)) as [r1 [[p c]|]]; intro E.
    - apply load_call_grows in E. eapply grows_trans; [|exact E]. repeat split. exists []. split; reflexivity.
    - inversion E; subst. repeat split. exists []. split; reflexivity.
  Qed.

  (* ---------- the state before anything was sent: offline, nothing queued ---------- *)
  Definition quiet_state (x : xstate) : Prop :=
    x_sent x = false /\ r_open (x_rl x) = false /\ q_items (r_q (x_rl x)) = [] /\
    nosend (x_log x) = true /\ local_only (x_log x) = true /\ x_nblocks x = ndata (x_log x).

  Lemma ingest_closed md blocks r : r_open r = false -> ingest md blocks r = r.
  Proof. intro H. unfold ingest. destruct md; [reflexivity|]. now rewrite H. Qed.

  Lemma process_msg_quiet m x : quiet_state x -> quiet_state (process_msg m x) /\ x_store (process_msg m x) = x_store x.
  Proof.
    intros (Hs & Ho & Hq & Hn & Hl & Hb). unfold process_msg.
    set (rs := filter (for_us m) (m_resps m)).
    assert (Hfold : fold_left (fun r rp => ingest (rs_md rp) (m_blocks m) r) rs (x_rl x) = x_rl x).
    { induction rs as [|rp rs IH]; simpl; [reflexivity|]. now rewrite ingest_closed. }
    rewrite Hfold. split; [|reflexivity]. unfold quiet_state. simpl.
    destruct (existsb _ rs); simpl; repeat split; auto.
  Qed.

  Lemma deliver_n_quiet n x : quiet_state x -> quiet_state (deliver_n n x) /\ x_store (deliver_n n x) = x_store x.
  Proof.
    revert x. induction n as [|n IH]; intros x Hx; simpl; [now split|].
    destruct (x_feed x) as [|m f]; [now split|].
    assert (H1 : quiet_state (x_with_feed x f)) by exact Hx.
    destruct (process_msg_quiet m _ H1) as [H2 E2]. destruct (IH _ H2) as [H3 E3]. split; [exact H3|].
    rewrite E3, E2. reflexivity.
  Qed.

  Lemma offline_try r st p c :
    r_open r = false -> q_items (r_q r) = [] ->
    exists r', bro_try below r st p c = (r', st, Some (load_local st p c)) /\
               r_open r' = false /\ q_items (r_q r') = [].
  Proof.
    intros Ho Hq. unfold bro_try, bro_inner, wait_remote. rewrite Hq. simpl. rewrite Ho.
    eexists. split; [reflexivity|]. simpl. split; [exact Ho | exact Hq].
  Qed.

  Lemma load_wait_offline feed x p c :
    r_open (x_rl x) = false -> q_items (r_q (x_rl x)) = [] ->
    exists x', load_wait below feed x p c = (x', Some (load_local (x_store x) p c)) /\
               r_open (x_rl x') = false /\ q_items (r_q (x_rl x')) = [] /\ x_store x' = x_store x /\
               x_sent x' = x_sent x /\ x_log x' = x_log x /\ x_nblocks x' = x_nblocks x.
  Proof.
    intros Ho Hq. destruct (offline_try (x_rl x) (x_store x) p c Ho Hq) as (r' & Et & Ho' & Hq').
    assert (Hc : (exists b, load_local (x_store x) p c = RData b true) \/ load_local (x_store x) p c = RErr (EMissing p c) true).
    { unfold load_local. destruct (aget c (x_store x)) as [b|]; [left; now exists b | now right]. }
    destruct feed as [|m f]; simpl; rewrite Et; destruct Hc as [[b Hb]|Hb]; rewrite Hb;
      (eexists; split; [reflexivity|]; simpl; repeat split; auto).
  Qed.

  (* a load in the quiet state is a load from the local store *)
  Lemma load_call_quiet x p c :
    quiet_state x ->
    exists x', load_call below x p c = (x', Some (load_local (x_store x) p c)) /\
               quiet_state x' /\ x_store x' = x_store x.
  Proof.
    intro Hx. unfold load_call. destruct (pop_sched x) as [n x0] eqn:Ep.
    assert (H0 : quiet_state x0 /\ x_store x0 = x_store x).
    { unfold pop_sched in Ep. destruct (x_sched x); inversion Ep; subst; split; try exact Hx; reflexivity. }
    destruct H0 as [H0 E0]. destruct (deliver_n_quiet n x0 H0) as [H1 E1].
    remember (deliver_n n x0) as x1 eqn:Ex1. clear Ex1.
    destruct H1 as (Hs & Ho & Hq & Hn & Hl & Hb).
    remember (x_with_rl x1 (bro_start (x_rl x1)) (x_store x1)) as x2 eqn:Ex2.
    assert (Ho2 : r_open (x_rl x2) = false).
    { subst x2. simpl. unfold bro_start. destruct (r_last (x_rl x1)); simpl; exact Ho. }
    assert (Hq2 : q_items (r_q (x_rl x2)) = []).
    { subst x2. simpl. rewrite bro_start_q. exact Hq. }
    assert (Est : x_store x2 = x_store x) by (subst x2; simpl; congruence).
    assert (Es2 : x_sent x2 = x_sent x1 /\ x_log x2 = x_log x1 /\ x_nblocks x2 = x_nblocks x1) by (subst x2; simpl; auto).
    destruct Es2 as (Es2 & El2 & En2).
    destruct (load_wait_offline (x_feed x2) x2 p c Ho2 Hq2) as (x' & E & Ho' & Hq' & St' & Se' & Lg' & Nb').
    exists x'. rewrite <- Est. split; [exact E|]. split; [|congruence].
    unfold quiet_state. rewrite Se', Lg', Nb', Es2, El2, En2. repeat split; auto.
  Qed.

  (* a link the local store holds: answered locally, nothing sent *)
  Lemma exec_hit x p c b :
    quiet_state x -> aget c (x_store x) = Some b ->
    exists x', exec_ask below responder user x p c = (x', AOk) /\ quiet_state x' /\ x_store x' = x_store x.
  Proof.
    intros Hx Hb. unfold exec_ask.
    destruct (load_call_quiet x p c Hx) as (x1 & E1 & H1 & S1). rewrite E1.
    unfold load_local. rewrite Hb. eexists. split; [reflexivity|]. split; [|simpl; exact S1].
    destruct H1 as (Hs & Ho & Hq & Hn & Hl & Hnb). unfold quiet_state. simpl. repeat split; auto.
    rewrite Hnb. lia.
  Qed.

  (* ---------- C24 (i): everything local => nothing is ever sent ---------- *)
  Lemma all_ok_app a b : all_ok (a ++ b) = all_ok a && all_ok b.
  Proof. unfold all_ok. apply forallb_app. Qed.

  Lemma no_traffic_ind L :
    (forall t x, quiet_state x -> x_store x = L ->
       all_ok (snd (fst (run_tree (lask L) t tt))) = true ->
       let r := run_tree (exec_ask below responder user) t x in
       quiet_state (fst (fst r)) /\ x_store (fst (fst r)) = L /\
       snd (fst r) = snd (fst (run_tree (lask L) t tt)) /\ snd r = true) /\
    (forall l x, quiet_state x -> x_store x = L ->
       all_ok (snd (fst (run_items (lask L) l tt))) = true ->
       let r := run_items (exec_ask below responder user) l x in
       quiet_state (fst (fst r)) /\ x_store (fst (fst r)) = L /\
       snd (fst r) = snd (fst (run_items (lask L) l tt)) /\ snd r = true).
  Proof.
    apply (ltree_items_ind
      (fun t => forall x, quiet_state x -> x_store x = L ->
         all_ok (snd (fst (run_tree (lask L) t tt))) = true ->
         let r := run_tree (exec_ask below responder user) t x in
         quiet_state (fst (fst r)) /\ x_store (fst (fst r)) = L /\
         snd (fst r) = snd (fst (run_tree (lask L) t tt)) /\ snd r = true)
      (fun l => forall x, quiet_state x -> x_store x = L ->
         all_ok (snd (fst (run_items (lask L) l tt))) = true ->
         let r := run_items (exec_ask below responder user) l x in
         quiet_state (fst (fst r)) /\ x_store (fst (fst r)) = L /\
         snd (fst r) = snd (fst (run_items (lask L) l tt)) /\ snd r = true)).
    - intros p c body IH x Hx Hs Hok. rewrite !run_tree_node in *. unfold lask in Hok at 1. unfold lask at 1.
      destruct (aget c L) as [b|] eqn:Eg.
      + rewrite <- Hs in Eg. destruct (exec_hit x p c b Hx Eg) as (x1 & E1 & H1 & S1). rewrite E1.
        specialize (IH x1 H1 (eq_trans S1 Hs)).
        destruct (run_items (lask L) body tt) as [[u evs] ok] eqn:El. simpl in Hok.
        specialize (IH Hok). cbv zeta in IH.
        destruct (run_items (exec_ask below responder user) body x1) as [[x2 evs2] ok2].
        simpl in *. destruct IH as (A & B & C & D). (split; [assumption|]; split; [assumption|]; split; [congruence | assumption]).
      + simpl in Hok. discriminate.
    - intros x Hx Hs _. simpl. auto.
    - intros v rest IH x Hx Hs Hok. rewrite !run_items_visit in *.
      destruct (run_items (lask L) rest tt) as [[u evs] ok] eqn:El. simpl in Hok.
      specialize (IH x Hx Hs Hok). cbv zeta in IH.
      destruct (run_items (exec_ask below responder user) rest x) as [[x2 evs2] ok2].
      simpl in *. destruct IH as (A & B & C & D). (split; [assumption|]; split; [assumption|]; split; [congruence | assumption]).
    - intros t IHt rest IHr x Hx Hs Hok. rewrite !run_items_child in *.
      destruct (run_tree (lask L) t tt) as [[u1 e1] ok1] eqn:El1. destruct u1.
      destruct ok1.
      + destruct (run_items (lask L) rest tt) as [[u2 e2] ok2] eqn:El2. simpl in Hok.
        rewrite all_ok_app in Hok. apply andb_true_iff in Hok as [Hok1 Hok2].
        specialize (IHt x Hx Hs Hok1). cbv zeta in IHt.
        destruct (run_tree (exec_ask below responder user) t x) as [[x1 ev1] k1].
        simpl in IHt. destruct IHt as (A & B & C & D). subst k1.
        specialize (IHr x1 A B Hok2). cbv zeta in IHr.
        destruct (run_items (exec_ask below responder user) rest x1) as [[x2 ev2] k2].
        simpl in *. destruct IHr as (A2 & B2 & C2 & D2). (split; [assumption|]; split; [assumption|]; split; [congruence | assumption]).
      + (* the local traversal never aborts *)
        exfalso. clear -El1.
        assert (Hnever : (forall t u, snd (run_tree (lask L) t u) = true) /\ (forall l u, snd (run_items (lask L) l u) = true)).
        { apply (ltree_items_ind (fun t => forall u, snd (run_tree (lask L) t u) = true)
                                 (fun l => forall u, snd (run_items (lask L) l u) = true)).
          - intros p c body IH u. rewrite run_tree_node. unfold lask at 1. destruct (aget c L); [|reflexivity].
            specialize (IH u). destruct (run_items (lask L) body u) as [[a b0] c0]. exact IH.
          - reflexivity.
          - intros v r IH u. rewrite run_items_visit. specialize (IH u). destruct (run_items (lask L) r u) as [[a b0] c0]. exact IH.
          - intros t0 IH0 r IHr u. rewrite run_items_child. specialize (IH0 u).
            destruct (run_tree (lask L) t0 u) as [[a b0] c0]. simpl in IH0. subst c0.
            specialize (IHr a). destruct (run_items (lask L) r a) as [[a1 b1] c1]. exact IHr. }
        destruct Hnever as [Hn _]. specialize (Hn t tt). rewrite El1 in Hn. discriminate.
  Qed.

  Theorem c24_no_traffic t L feed sched :
    all_ok (local_run t L) = true ->
    let r := run_request below responder user t L feed sched in
    let x := fst (fst r) in
    sends_of (x_log x) = [] /\ x_sent x = false /\ x_store x = L /\
    snd (fst r) = local_run t L /\ snd r = true.
  Proof.
    intros Hok r x. destruct (no_traffic_ind L) as [Ht _].
    assert (Hi : quiet_state (x_init L feed sched)) by (unfold quiet_state, x_init; simpl; repeat split).
    specialize (Ht t (x_init L feed sched) Hi eq_refl Hok). cbv zeta in Ht.
    destruct Ht as ((Hs & _ & _ & Hn & _ & _) & Hst & Hev & Hk).
    repeat split; auto. now apply sends_of_nosend.
  Qed.

  (* ---------- C24 (ii): what is sent is max(user value, blocks loaded locally so far) ---------- *)
  Definition sinv (x : xstate) : Prop := if x_sent x then sends_ok user (x_log x) else quiet_state x.

  Lemma grows_sends_ok x x' : grows x x' -> x_sent x = true -> sends_ok user (x_log x) ->
    x_sent x' = true /\ sends_ok user (x_log x').
  Proof.
    intros (S & _ & pre & L & Q) Hs Hk. split; [congruence|]. rewrite L. now apply sends_ok_quiet.
  Qed.

  Lemma exec_ask_sinv x p c : sinv x -> sinv (fst (exec_ask below responder user x p c)).
  Proof.
    unfold sinv. destruct (x_sent x) eqn:Es.
    - (* already sent: the log only grows by quiet entries *)
      intro Hk. unfold exec_ask. destruct (load_call below x p c) as [x1 o1] eqn:E1.
      destruct (grows_sends_ok _ _ (load_call_grows _ _ _ _ _ E1) Es Hk) as [S1 K1].
      assert (E2 : (match o1 with
                    | Some (RErr (EMissing _ _) _) =>
                        if x_sent x1 then (x1, o1)
                        else if x_cancelled x1
                             then (x_with_rl x1 (set_online false (set_online true (x_rl x1))) (x_store x1), o1)
                             else retry_call below (go_online responder user x1)
                    | _ => (x1, o1) end) = (x1, o1)).
      { destruct o1 as [[b l|e l]|]; try reflexivity. destruct e; try reflexivity. now rewrite S1. }
      rewrite E2. destruct o1 as [res|]; cbn [fst]; [|now rewrite S1].
      destruct res as [b l|e l]; simpl.
      + rewrite S1. exact K1.
      + destruct (x_cancelled x1); simpl; [rewrite S1; exact K1|].
        destruct e; simpl; rewrite S1; exact K1.
    - (* not yet sent: the load is local *)
      intro Hq. unfold exec_ask.
      destruct (load_call_quiet x p c Hq) as (x1 & E1 & H1 & S1). rewrite E1.
      pose proof H1 as (Hs1 & Ho1 & Hq1 & Hn1 & Hl1 & Hb1).
      unfold load_local. destruct (aget c (x_store x)) as [b|] eqn:Eg.
      + simpl. rewrite Hs1. unfold quiet_state. simpl. repeat split; auto. rewrite Hb1. lia.
      + rewrite Hs1. destruct (x_cancelled x1) eqn:Ec.
        * simpl. rewrite Ec. simpl. rewrite Hs1. unfold quiet_state. simpl. repeat split; auto.
          unfold set_online. rewrite Ho1. reflexivity.
        * destruct (retry_call below (go_online responder user x1)) as [x2 o2] eqn:E2.
          assert (Sg : x_sent (go_online responder user x1) = true) by reflexivity.
          assert (Kg : sends_ok user (x_log (go_online responder user x1))).
          { unfold go_online. simpl. repeat split; auto. now rewrite Hb1. }
          destruct (grows_sends_ok _ _ (retry_call_grows _ _ _ E2) Sg Kg) as [S2 K2].
          destruct o2 as [res|]; cbn [fst]; [|now rewrite S2].
          destruct res as [b l|e l]; simpl.
          -- rewrite S2. exact K2.
          -- destruct (x_cancelled x2); simpl; [rewrite S2; exact K2|].
             destruct e; simpl; rewrite S2; exact K2.
  Qed.

  Theorem c24_skip_exact t L feed sched :
    let x := fst (fst (run_request below responder user t L feed sched)) in
    sends_ok user (x_log x) /\ (length (sends_of (x_log x)) <= 1)%nat.
  Proof.
    intro x.
    assert (Hi : sinv (x_init L feed sched)) by (unfold sinv, quiet_state, x_init; simpl; repeat split).
    destruct (run_invariant (exec_ask below responder user) sinv exec_ask_sinv) as [Ht _].
    specialize (Ht t _ Hi). fold (run_request below responder user t L feed sched) in Ht. fold x in Ht.
    assert (Hk : sends_ok user (x_log x)).
    { unfold sinv in Ht. destruct (x_sent x); [exact Ht|]. destruct Ht as (_ & _ & _ & Hn & _). now apply sends_ok_nosend. }
    split; [exact Hk|].
    clear -Hk. induction (x_log x) as [|e l IH]; simpl; [lia|].
    destruct e; simpl in Hk; auto.
    destruct Hk as (_ & Hn & _). rewrite (sends_of_nosend l Hn). simpl. lia.
  Qed.
End Traffic.
