(* ConcurrentGen.v — C20: Concurrent.run_two with every chunking of each response into messages and every
   interleaving of their delivery with the executor's loads (Concurrent.run_two is the instance "one message,
   delivered on demand").  Definitions only. *)
From Coq Require Import List NArith Bool.
From GS Require Import Base Ltree RecLoader ReqExec C02Prefix.
From GS Require Import LinkTracker Concurrent.
Import ListNotations.
Open Scope N_scope.

(* how one response reaches the requestor: message sizes, messages arriving before each load attempt *)
Record delivery := { dv_sizes : list nat; dv_sched : list nat }.
Definition dv_plain : delivery := {| dv_sizes := []; dv_sched := [] |}.

Definition run_one_gen (t : ltree) (R st : store) (its : list item) (dv : delivery) : xstate * list ev * bool :=
  run_request proper_prefix (fun _ => mk_msgs (dv_sizes dv) its (resp_status t R)) 0 t st [] (dv_sched dv).

Definition run_two_gen (L R : store) (q1 q2 : creq) (order : list bool) (first2 : bool) (dv1 dv2 : delivery)
  : outcome * outcome :=
  let '(s1, s2) := streams R q1 q2 (skip_of (cq_plan q1) L) (skip_of (cq_plan q2) L) order in
  if first2 then
    let rb := run_one_gen (cq_plan q2) R L s2 dv2 in
    let ra := run_one_gen (cq_plan q1) R (x_store (fst (fst rb))) s1 dv1 in
    (mk_outcome ra, mk_outcome rb)
  else
    let ra := run_one_gen (cq_plan q1) R L s1 dv1 in
    let rb := run_one_gen (cq_plan q2) R (x_store (fst (fst ra))) s2 dv2 in
    (mk_outcome ra, mk_outcome rb).

(* the C02 guards of one request *)
Definition c02_guards (t : ltree) (L R : store) : bool :=
  wf_plan t && GS.C02Prefix.trie_ordered t &&
  (match aget (root_cid t) R with Some _ => true | None => false end) && GS.C02Prefix.no_F1 t L R.
(* no CID occurs in both plans *)
Definition disjoint_plans (t1 t2 : ltree) : bool :=
  forallb (fun c => negb (existsb (N.eqb c) (plan_cids t2))) (plan_cids t1).

(* ---------- a check over the driver's cases (d_loader concurrent), for the registry ---------- *)
(* inside the guards of C20_disjoint_guarded the implementation must give each request its solo outcome
   (outside them: finding C20-F1 and the C02 findings) *)
Definition ccase_guarded (c : ccase) : bool :=
  let L := store_of (cc_L c) in let R := store_of (cc_R c) in
  c02_guards (cc_plan1 c) L R && c02_guards (cc_plan2 c) L R && disjoint_plans (cc_plan1 c) (cc_plan2 c).
Definition ccase_mon_disjoint (c : ccase) : bool := negb (ccase_guarded c) || ccase_mon c.
