(* C06GuardProofs.v — the guard of the general C06 theorem implies the C02 guard no_F1 (finding C02-F1 is the
   special case "before the first request"). *)
From Coq Require Import List NArith Bool Lia.
From GS Require Import Base Ltree RecLoader ReqExec RecLoaderProofs C02Online C02Prefix C02PrefixProofs C06Guard.
Import ListNotations.
Open Scope N_scope.

Definition keq (s1 s2 : store) : Prop := forall c, aget c s1 = None <-> aget c s2 = None.

Lemma keq_aput s1 s2 c b : keq s1 s2 -> aget c s1 <> None -> keq (aput c b s1) s2.
Proof.
  intros H Hc c'. destruct (N.eqb_spec c c') as [->|Hn].
  - rewrite aget_aput_eq. split; [discriminate|]. intro E. apply H in E. contradiction.
  - rewrite aget_aput_neq by exact Hn. apply H.
Qed.

Lemma nf_first_all R L l st : nf_first L l = QAll -> fst (ref_items R l false st) = st.
Proof.
  induction l as [|v r IH|t r IH]; intro H; cbn in *; [reflexivity| |].
  - specialize (IH H). destruct (ref_items R r false st). exact IH.
  - destruct (aget (root_cid t) L); discriminate.
Qed.

Lemma nlb_scan R L :
  (forall t st, keq st L -> nlb_tree R t true st = true ->
     nf_tree L R t <> QBad /\ (nf_tree L R t = QAll -> keq (fst (ref_tree R t true st)) L)) /\
  (forall l st, keq st L -> nlb_items R l true st = true ->
     nf_items L R l <> QBad /\ (nf_items L R l = QAll -> keq (fst (ref_items R l true st)) L)).
Proof.
  apply (ltree_items_ind
    (fun t => forall st, keq st L -> nlb_tree R t true st = true ->
       nf_tree L R t <> QBad /\ (nf_tree L R t = QAll -> keq (fst (ref_tree R t true st)) L))
    (fun l => forall st, keq st L -> nlb_items R l true st = true ->
       nf_items L R l <> QBad /\ (nf_items L R l = QAll -> keq (fst (ref_items R l true st)) L))).
  - intros p c body IH st Hk Hn. rewrite nf_tree_eq. cbn [nlb_tree] in Hn. rewrite ref_tree_eq.
    destruct (aget c L) as [bl|] eqn:EL; [|split; [discriminate | discriminate]].
    assert (Hst : aget c st <> None) by (intro E; apply Hk in E; congruence).
    destruct (aget c R) as [b|] eqn:ER.
    + assert (Hn' : nlb_items R body true (aput c b st) = true) by (destruct (aget c st); exact Hn).
      destruct (IH (aput c b st) (keq_aput st L c b Hk Hst) Hn') as [A B]. split; [exact A|].
      intro Ha. specialize (B Ha). destruct (ref_items R body true (aput c b st)) as [st' o]. destruct (aget c st); exact B.
    + destruct (aget c st) as [bs|] eqn:Es; [|congruence]. cbn [andb] in Hn.
      assert (Hf : nf_first L body <> QBad /\ (nf_first L body = QAll -> fst (ref_items R body false st) = st)).
      { split; [|apply nf_first_all]. clear IH. induction body as [|v r IHr|t r IHr]; cbn in *; [discriminate | now apply IHr |].
        destruct t as [p' c' b']. cbn [root_cid nlb_tree] in *. destruct (aget c' L) eqn:EL'; [|discriminate].
        assert (Hs' : aget c' st <> None) by (intro E; apply Hk in E; congruence).
        destruct (aget c' st); [cbn in Hn; discriminate | congruence]. }
      destruct Hf as [A B]. split; [exact A|]. intro Ha. rewrite (B Ha). exact Hk.
  - intros st Hk _. cbn. split; [discriminate | intros _; exact Hk].
  - intros v r IH st Hk Hn. rewrite nf_items_visit, ref_items_visit. cbn [nlb_items] in Hn.
    destruct (IH st Hk Hn) as [A B]. split; [exact A|]. intro Ha. specialize (B Ha). destruct (ref_items R r true st). exact B.
  - intros t IHt r IHr st Hk Hn. rewrite nf_items_child, ref_items_child. cbn [nlb_items] in Hn.
    apply andb_true_iff in Hn as [Hn1 Hn2]. destruct (IHt st Hk Hn1) as [A B].
    destruct (nf_tree L R t) eqn:Et; [| split; [discriminate | discriminate] | congruence].
    specialize (B eq_refl). destruct (ref_tree R t true st) as [st1 o1]. cbn [fst] in *.
    destruct (IHr st1 B Hn2) as [A2 B2]. split; [exact A2|]. intro Ha. specialize (B2 Ha).
    destruct (ref_items R r true st1) as [st2 o2]. exact B2.
Qed.

Theorem nlb_no_F1 t L R : no_local_below_missing t L R = true -> no_F1 t L R = true.
Proof.
  intro H. unfold no_F1, no_F1_scan. apply orb_true_iff. right.
  destruct (proj1 (nlb_scan R L) t L ltac:(intro c; tauto) H) as [A _].
  destruct (nf_tree L R t); [reflexivity | reflexivity | congruence].
Qed.
