(* TaskQueueMon.v — every run of the task-queue model is accepted by the executable monitor of C21's
   safety half (monitor_C21), and the per-peer conservation law of the history lists. *)
From Coq Require Import List NArith ZArith Bool Arith Lia Permutation.
From GS Require Import Base TaskQueue TaskQueueProofs TaskQueueLive TaskQueueInv.
Import ListNotations.
Open Scope N_scope.

(* ---------- lists of (peer, topic) pairs as the monitor handles them ---------- *)
Lemma pt_eqb_eq a b : pt_eqb a b = true <-> a = b.
Proof.
  destruct a as [a1 a2], b as [b1 b2]. unfold pt_eqb; simpl. rewrite andb_true_iff, !N.eqb_eq.
  split; [intros [-> ->]; reflexivity | intro E; inversion E; auto].
Qed.
Lemma pt_in_In x l : pt_in x l = true <-> In x l.
Proof.
  unfold pt_in. rewrite existsb_exists. split.
  - intros (y & Hy & E). apply pt_eqb_eq in E. now subst.
  - intro H. exists x. split; [exact H | now apply pt_eqb_eq].
Qed.
Lemma pt_in_false x l : pt_in x l = false <-> ~ In x l.
Proof. rewrite <- pt_in_In. destruct (pt_in x l); split; congruence. Qed.

Lemma pt_del_notin x l : ~ In x l -> pt_del x l = l.
Proof.
  induction l as [|y r IH]; simpl; intro H; [reflexivity|].
  destruct (pt_eqb x y) eqn:E; [apply pt_eqb_eq in E; subst; exfalso; apply H; now left|].
  f_equal. apply IH. intro; apply H; now right.
Qed.
Lemma In_pt_del x l y : NoDup l -> (In y (pt_del x l) <-> In y l /\ y <> x).
Proof.
  induction l as [|z r IH]; simpl; intro Hn; [tauto|]. inversion Hn; subst.
  destruct (pt_eqb x z) eqn:E.
  - apply pt_eqb_eq in E; subst z. split.
    + intro Hy. split; [now right | intro; subst; contradiction].
    + intros [[<-|Hy] Hne]; [congruence | exact Hy].
  - assert (x <> z) by (intro; subst; rewrite (proj2 (pt_eqb_eq z z) eq_refl) in E; discriminate).
    simpl. rewrite (IH H2). split.
    + intros [<-|[Hy Hne]]; [split; [now left | congruence] | split; [now right | exact Hne]].
    + intros [[<-|Hy] Hne]; [now left | right; split; assumption].
Qed.
Lemma NoDup_pt_del x l : NoDup l -> NoDup (pt_del x l).
Proof.
  induction l as [|z r IH]; simpl; intro Hn; [constructor|]. inversion Hn; subst.
  destruct (pt_eqb x z); [exact H2|]. constructor; [|now apply IH].
  intro Hi. apply (In_pt_del x r z H2) in Hi as [Hi _]. contradiction.
Qed.
Lemma length_pt_del x l : In x l -> S (length (pt_del x l)) = length l.
Proof.
  induction l as [|z r IH]; simpl; intro H; [contradiction|].
  destruct (pt_eqb x z) eqn:E; [reflexivity|]. simpl. f_equal. apply IH.
  destruct H as [->|H]; [|exact H]. rewrite (proj2 (pt_eqb_eq x x) eq_refl) in E. discriminate.
Qed.
Lemma NoDup_snoc_pt (x : pt) l : NoDup l -> ~ In x l -> NoDup (l ++ [x]).
Proof.
  intros Hn Hx. apply NoDup_app_iff_disj; [exact Hn | constructor; [intros []|constructor] |].
  intros y Hy [<-|[]]. contradiction.
Qed.

(* with both lists duplicate-free, the monitor's per-peer count is the number of active topics *)
Lemma count_peer_len p (l : list pt) (a : list N) :
  NoDup l -> NoDup a -> (forall tp, In (p, tp) l <-> In tp a) -> count_peer p l = length a.
Proof.
  unfold count_peer. revert a. induction l as [|[q t] r IH]; simpl; intros a Hl Ha Hiff.
  - destruct a as [|x a]; [reflexivity|]. exfalso. apply (Hiff x). now left.
  - inversion Hl; subst. destruct (N.eqb_spec q p) as [->|Hn]; simpl.
    + assert (Hin : In t a) by (apply Hiff; now left).
      apply in_split in Hin as (a1 & a2 & ->).
      rewrite app_length. simpl. rewrite Nat.add_succ_r. f_equal. rewrite <- app_length.
      apply IH; [exact H2 | now apply NoDup_remove_1 in Ha |].
      apply NoDup_remove_2 in Ha. intro tp. split.
      * intro Hi. assert (Hi' : In tp (a1 ++ t :: a2)) by (apply Hiff; now right).
        apply in_app_iff in Hi' as [Hi'|[<-|Hi']]; apply in_app_iff; auto. contradiction.
      * intro Hi. assert (Hne : tp <> t) by (intro; subst; contradiction).
        assert (Hi' : In (p, tp) ((p, t) :: r)) by (apply Hiff; apply in_app_iff; apply in_app_iff in Hi as [Hi|Hi]; [left | right; right]; exact Hi).
        destruct Hi' as [E|Hi']; [inversion E; congruence | exact Hi'].
    + apply IH; [exact H2 | exact Ha |]. intro tp. rewrite <- Hiff. split; [now right|].
      intros [E|Hi]; [inversion E; congruence | exact Hi].
Qed.

Lemma topics_del_id l x :
  NoDup (map t_topic l) -> NoDup (map t_id l) -> In x l ->
  forall tp, In tp (map t_topic (del_id (t_id x) l)) <-> In tp (map t_topic l) /\ tp <> t_topic x.
Proof.
  intros Ht Hi Hx tp. rewrite !in_map_iff. split.
  - intros (y & <- & Hy). unfold del_id in Hy. apply filter_In in Hy as [Hy Hne].
    apply negb_true_iff, N.eqb_neq in Hne. split; [eauto|].
    intro E. apply Hne. f_equal. eapply (nodup_map_inj t_topic); eauto.
  - intros [(y & <- & Hy) Hne]. exists y. split; [reflexivity|]. unfold del_id. apply filter_In. split; [exact Hy|].
    apply negb_true_iff, N.eqb_neq. intro E. apply Hne. f_equal. eapply (nodup_map_inj t_id); eauto.
Qed.

Lemma topics_del_topic tp l tp' :
  In tp' (map t_topic (del_topic tp l)) <-> In tp' (map t_topic l) /\ tp' <> tp.
Proof.
  unfold del_topic. rewrite !in_map_iff. split.
  - intros (y & <- & Hy). apply filter_In in Hy as [Hy Hne]. apply negb_true_iff, N.eqb_neq in Hne. eauto.
  - intros [(y & <- & Hy) Hne]. exists y. split; [reflexivity|]. apply filter_In. split; [exact Hy|].
    now apply negb_true_iff, N.eqb_neq.
Qed.

Lemma running_lt ws w old : nth_error ws w = Some old -> is_running old = false ->
  (length (filter is_running ws) < length ws)%nat.
Proof.
  revert w; induction ws as [|y r IH]; intros [|w]; simpl; intros H Ho; try discriminate.
  - inversion H; subst. rewrite Ho. pose proof (filter_length_le is_running r). lia.
  - specialize (IH _ H Ho). destruct (is_running y); simpl; lia.
Qed.

(* ---------- the simulation relation ---------- *)
Record Rel (trk : trackers) (ws : list wstate) (m : mstate) : Prop := {
  r_q : forall p tp, In (p, tp) (m_queued m) <-> In tp (map t_topic (pendT trk p));
  r_r : forall p tp, In (p, tp) (m_running m) <-> In tp (map t_topic (actT trk p));
  r_nq : NoDup (m_queued m);
  r_nr : NoDup (m_running m);
  r_len : length (m_running m) = length (filter is_running ws)
}.

Lemma Rel_thaw trk ws m : Rel trk ws m -> Rel (thaw_round trk) ws m.
Proof.
  intros [Q Rr Nq Nr L]. constructor; auto.
  - intros p tp. unfold pendT. destruct (trk_of_thaw trk p) as [-> _]. apply Q.
  - intros p tp. unfold actT. destruct (trk_of_thaw trk p) as [_ ->]. apply Rr.
Qed.

Lemma Rel_init w : Rel [] (repeat WReady w) m_init.
Proof.
  constructor; simpl.
  - intros p tp. tauto.
  - intros p tp. tauto.
  - constructor.
  - constructor.
  - induction w; simpl; auto.
Qed.

(* a worker that was not executing acts on the result of PopTasks: the monitor accepts *)
Lemma sim_after_pop cfg trk ws nx w old top trk' o m :
  wf trk ws nx -> Rel trk ws m -> nth_error ws w = Some old -> is_running old = false ->
  pop_tasks cfg trk top = Some (trk', o) ->
  exists m', mon_run (length ws) (c_maxpp cfg) m (match o with Some (p, x) => [EStart p (t_topic x)] | None => [] end) = Some m' /\
             Rel trk' (upd w (match o with Some (p, x) => WRunning p x | None => WWaiting end) ws) m'.
Proof.
  intros Hwf [Q Rr Nq Nr L] Hw Hold Hpop. pose proof Hwf as [K P H D C].
  destruct (pop_tasks_spec _ _ _ _ _ K Hpop) as [K' Hspec].
  destruct o as [[p b]|].
  - destruct Hspec as (Hin & _ & _ & Hlim & Ep & Ea & Hoth & Hsum).
    destruct (P p) as (Htop & Hids & _).
    assert (Htp : NoDup (map t_topic (pendT trk p))) by (rewrite map_app in Htop; now apply nodup_app_l in Htop).
    assert (Hta : NoDup (map t_topic (actT trk p))) by (rewrite map_app in Htop; now apply nodup_app_r in Htop).
    assert (Hip : NoDup (map t_id (pendT trk p))) by (rewrite map_app in Hids; now apply nodup_app_l in Hids).
    assert (Hq : In (p, t_topic b) (m_queued m)) by (apply Q; now apply in_map).
    assert (Hnr : ~ In (p, t_topic b) (m_running m)).
    { intro Hi. apply Rr in Hi. apply in_map_iff in Hi as (y & Ey & Hy).
      apply (nodup_map_app_disj t_topic _ _ b y Htop Hin Hy). congruence. }
    simpl. rewrite (proj2 (pt_in_In _ _) Hq). simpl.
    replace (Nat.ltb (length (m_running m)) (length ws)) with true
      by (symmetry; apply Nat.ltb_lt; rewrite L; eapply running_lt; eauto).
    assert (Hcnt : count_peer p (m_running m) = length (actT trk p)).
    { rewrite <- (map_length t_topic). apply count_peer_len; [exact Nr | exact Hta | intro tp; apply Rr]. }
    replace (Nat.eqb (c_maxpp cfg) 0 || Nat.ltb (count_peer p (m_running m)) (c_maxpp cfg)) with true.
    2:{ symmetry. apply orb_true_iff. destruct Hlim as [->|Hlt]; [now left | right; apply Nat.ltb_lt; lia]. }
    simpl. eexists. split; [reflexivity|]. constructor; simpl.
    + intros q tp. rewrite (In_pt_del _ _ _ Nq). destruct (N.eq_dec q p) as [->|Hn].
      * rewrite Ep, (topics_del_id _ _ Htp Hip Hin), Q. split.
        -- intros [Hi Hne]. split; [exact Hi | congruence].
        -- intros [Hi Hne]. split; [exact Hi | congruence].
      * destruct (Hoth q Hn) as [-> _]. rewrite Q. split; [tauto|]. intro Hi. split; [exact Hi | congruence].
    + intros q tp. rewrite in_app_iff. destruct (N.eq_dec q p) as [->|Hn].
      * rewrite Ea, map_app, in_app_iff, Rr. simpl. split.
        -- intros [Hi|[E|[]]]; [now left | inversion E; right; now left].
        -- intros [Hi|[E|[]]]; [now left | right; left; now rewrite E].
      * destruct (Hoth q Hn) as [_ ->]. rewrite Rr. simpl. split; [|tauto]. intros [Hi|[E|[]]]; [exact Hi | inversion E; congruence].
    + now apply NoDup_pt_del.
    + now apply NoDup_snoc_pt.
    + rewrite app_length. simpl. pose proof (running_upd ws w old (WRunning p b) Hw) as Hr. rewrite Hold in Hr. simpl in Hr. lia.
  - destruct Hspec as (Hv & _). simpl. eexists. split; [reflexivity|]. constructor; auto.
    + intros q tp. destruct (Hv q) as [-> _]. apply Q.
    + intros q tp. destruct (Hv q) as [_ ->]. apply Rr.
    + pose proof (running_upd ws w old WWaiting Hw) as Hr. rewrite Hold in Hr. simpl in Hr. lia.
Qed.

Lemma after_pop_ev s w sig r :
  snd (after_pop s w sig r) = match snd r with Some (p, x) => [EStart p (t_topic x)] | None => [] end.
Proof. unfold after_pop. destruct (snd r) as [[p x]|]; reflexivity. Qed.

Theorem step_sim cfg s l s' e m :
  wf_s s -> Rel (st_trk s) (st_w s) m -> step cfg s l = Some (s', e) ->
  exists m', mon_run (length (st_w s)) (c_maxpp cfg) m e = Some m' /\ Rel (st_trk s') (st_w s') m'.
Proof.
  intros Hwf HR. pose proof Hwf as [K P H D C]. pose proof HR as [Q Rr Nq Nr L]. destruct l; simpl.
  - (* push *)
    change (match aget p (st_trk s) with Some t => t | None => tr_new end) with (trk_of (st_trk s) p).
    destruct (tr_push (st_next s) tp prio (trk_of (st_trk s) p)) as [t' c] eqn:Ep.
    intro E; inversion E; subst; clear E; simpl.
    destruct (tr_wf_push _ _ _ _ _ _ (P p) Ep) as (_ & Ha & _ & Hf & Ht & Hf2).
    assert (Hact : forall q, actT (aput p t' (st_trk s)) q = actT (st_trk s) q).
    { intro q. unfold actT. destruct (N.eq_dec p q) as [<-|Hn]; [now rewrite trk_of_aput_eq | now rewrite trk_of_aput_neq]. }
    destruct c.
    + destruct (Ht eq_refl) as (Epd & Hnp & Hna).
      assert (Hnq : ~ In (p, tp) (m_queued m)).
      { intro Hi. apply Q in Hi. apply has_topic_In in Hi. unfold pendT in Hi. congruence. }
      assert (Hnr : ~ In (p, tp) (m_running m)).
      { intro Hi. apply Rr in Hi. apply has_topic_In in Hi. unfold actT in Hi. congruence. }
      rewrite (proj2 (pt_in_false _ _) Hnq), (proj2 (pt_in_false _ _) Hnr). simpl.
      eexists. split; [reflexivity|]. constructor; simpl; auto.
      * intros q tp'. rewrite in_app_iff. unfold pendT. destruct (N.eq_dec p q) as [<-|Hn].
        -- rewrite trk_of_aput_eq, Epd, map_app, in_app_iff. simpl. fold (pendT (st_trk s) p). rewrite Q. split.
           ++ intros [Hi|[E|[]]]; [now left | inversion E; right; now left].
           ++ intros [Hi|[E|[]]]; [now left | right; left; now rewrite E].
        -- rewrite trk_of_aput_neq by exact Hn. fold (pendT (st_trk s) q). rewrite Q. simpl. split; [|tauto].
           intros [Hi|[E|[]]]; [exact Hi | inversion E; congruence].
      * intros q tp'. rewrite Hact. apply Rr.
      * now apply NoDup_snoc_pt.
    + destruct (Hf eq_refl) as (Etop & _).
      assert (Hin : pt_in (p, tp) (m_queued m) || pt_in (p, tp) (m_running m) = true).
      { apply orb_true_iff. destruct (Hf2 eq_refl) as [Hi|Hi]; apply has_topic_In in Hi.
        - left. apply pt_in_In. apply Q. exact Hi.
        - right. apply pt_in_In. apply Rr. exact Hi. }
      rewrite Hin. eexists. split; [reflexivity|]. constructor; auto.
      * intros q tp'. unfold pendT. destruct (N.eq_dec p q) as [<-|Hn].
        -- rewrite trk_of_aput_eq, Etop. apply Q.
        -- rewrite trk_of_aput_neq by exact Hn. apply Q.
      * intros q tp'. rewrite Hact. apply Rr.
  - (* remove: in every branch the queued topics of p lose tp and nothing else changes *)
    intro E.
    assert (Hv : e = [ERemove p tp] /\ st_w s' = st_w s /\
                 (forall q, actT (st_trk s') q = actT (st_trk s) q) /\
                 (forall q tp', In tp' (map t_topic (pendT (st_trk s') q)) <->
                                In tp' (map t_topic (pendT (st_trk s) q)) /\ (q, tp') <> (p, tp))).
    { destruct (aget p (st_trk s)) as [t|] eqn:Et.
      - pose proof (trk_of_some _ _ _ Et) as Eof.
        destruct (has_topic tp (tr_pending t)) eqn:Eh; injection E as Es Ee; subst s' e; simpl.
        + split; [reflexivity|]. split; [reflexivity|]. split.
          * intro q. unfold actT. destruct (N.eq_dec p q) as [<-|Hn]; [rewrite trk_of_aput_eq, Eof; reflexivity | now rewrite trk_of_aput_neq].
          * intros q tp'. unfold pendT. destruct (N.eq_dec p q) as [<-|Hn].
            -- rewrite trk_of_aput_eq, Eof. simpl. rewrite topics_del_topic. split; intros [Hi Hne]; (split; [exact Hi | congruence]).
            -- rewrite trk_of_aput_neq by exact Hn. split; [|tauto]. intro Hi. split; [exact Hi | congruence].
        + split; [reflexivity|]. split; [reflexivity|]. split; [reflexivity|].
          intros q tp'. split; [|tauto]. intro Hi. split; [exact Hi|]. intro E; injection E as E1 E2; subst q tp'.
          unfold pendT in Hi. rewrite Eof in Hi. apply has_topic_In in Hi. congruence.
      - injection E as Es Ee; subst s' e. split; [reflexivity|]. split; [reflexivity|]. split; [reflexivity|].
        intros q tp'. split; [|tauto]. intro Hi. split; [exact Hi|]. intro E; injection E as E1 E2; subst q tp'.
        unfold pendT, trk_of in Hi. rewrite Et in Hi. exact Hi. }
    destruct Hv as (-> & Ews & Hact & Hpend). simpl. eexists. split; [reflexivity|]. rewrite Ews. constructor; simpl; auto.
    + intros q tp'. rewrite (In_pt_del _ _ _ Nq), Hpend, Q. tauto.
    + intros q tp'. rewrite Hact. apply Rr.
    + now apply NoDup_pt_del.
  - (* pop at the loop top *)
    destruct (nth_error (st_w s) w) as [[| |]|] eqn:Ew; try discriminate.
    destruct (pop_tasks cfg (st_trk s) top) as [[trk' o]|] eqn:Epop; [|discriminate]. intro E.
    assert (Es : (s', e) = after_pop s w (st_sig s) (trk', o)) by (inversion E; reflexivity).
    destruct (sim_after_pop cfg _ _ _ w WReady top trk' o m Hwf HR Ew eq_refl Epop) as (m' & Hm & HR').
    exists m'. replace e with (snd (after_pop s w (st_sig s) (trk', o))) by (rewrite <- Es; reflexivity).
    replace s' with (fst (after_pop s w (st_sig s) (trk', o))) by (rewrite <- Es; reflexivity).
    rewrite after_pop_ev, after_pop_trk. destruct (after_pop_w s w (st_sig s) (trk', o)) as [-> _]. simpl. auto.
  - destruct (nth_error (st_w s) w) as [[| |]|] eqn:Ew; try discriminate.
    destruct (st_sig s); [|discriminate].
    destruct (pop_tasks cfg (st_trk s) top) as [[trk' o]|] eqn:Epop; [|discriminate]. intro E.
    assert (Es : (s', e) = after_pop s w false (trk', o)) by (inversion E; reflexivity).
    destruct (sim_after_pop cfg _ _ _ w WWaiting top trk' o m Hwf HR Ew eq_refl Epop) as (m' & Hm & HR').
    exists m'. replace e with (snd (after_pop s w false (trk', o))) by (rewrite <- Es; reflexivity).
    replace s' with (fst (after_pop s w false (trk', o))) by (rewrite <- Es; reflexivity).
    rewrite after_pop_ev, after_pop_trk. destruct (after_pop_w s w false (trk', o)) as [-> _]. simpl. auto.
  - destruct (nth_error (st_w s) w) as [[| |]|] eqn:Ew; try discriminate.
    destruct (pop_tasks cfg (thaw_round (st_trk s)) top) as [[trk' o]|] eqn:Epop; [|discriminate]. intro E.
    assert (Es : (s', e) = after_pop s w (st_sig s) (trk', o)) by (inversion E; reflexivity).
    destruct (sim_after_pop cfg _ _ _ w WWaiting top trk' o m (wf_thaw _ _ _ Hwf) (Rel_thaw _ _ _ HR) Ew eq_refl Epop) as (m' & Hm & HR').
    exists m'. replace e with (snd (after_pop s w (st_sig s) (trk', o))) by (rewrite <- Es; reflexivity).
    replace s' with (fst (after_pop s w (st_sig s) (trk', o))) by (rewrite <- Es; reflexivity).
    rewrite after_pop_ev, after_pop_trk. destruct (after_pop_w s w (st_sig s) (trk', o)) as [-> _]. simpl. auto.
  - (* done *)
    destruct (nth_error (st_w s) w) as [[| |p x]|] eqn:Ew; try discriminate.
    intro E; inversion E; subst; clear E; simpl.
    pose proof (H _ _ _ Ew) as Hx.
    destruct (aget p (st_trk s)) as [t|] eqn:Et.
    2:{ exfalso. unfold actT, trk_of in Hx. rewrite Et in Hx. exact Hx. }
    pose proof (trk_of_some _ _ _ Et) as Eof.
    destruct (P p) as (Htop & Hids & _).
    assert (Hta : NoDup (map t_topic (actT (st_trk s) p))) by (rewrite map_app in Htop; now apply nodup_app_r in Htop).
    assert (Hia : NoDup (map t_id (actT (st_trk s) p))) by (rewrite map_app in Hids; now apply nodup_app_r in Hids).
    assert (Hr : In (p, t_topic x) (m_running m)) by (apply Rr; now apply in_map).
    rewrite (proj2 (pt_in_In _ _) Hr). eexists. split; [reflexivity|]. constructor; simpl; auto.
    + intros q tp'. unfold pendT. destruct (N.eq_dec p q) as [<-|Hn].
      * rewrite trk_of_aput_eq. simpl. rewrite <- Eof. apply Q.
      * rewrite trk_of_aput_neq by exact Hn. apply Q.
    + intros q tp'. rewrite (In_pt_del _ _ _ Nr). unfold actT. destruct (N.eq_dec p q) as [<-|Hn].
      * rewrite trk_of_aput_eq. simpl. rewrite <- Eof. fold (actT (st_trk s) p).
        rewrite (topics_del_id _ _ Hta Hia Hx), Rr. split; intros [Hi Hne]; (split; [exact Hi | congruence]).
      * rewrite trk_of_aput_neq by exact Hn. fold (actT (st_trk s) q). rewrite Rr. split; [tauto|]. intro Hi. split; [exact Hi | congruence].
    + now apply NoDup_pt_del.
    + pose proof (length_pt_del _ _ Hr) as Hl. pose proof (running_upd (st_w s) w (WRunning p x) WReady Ew) as Hru. simpl in Hru. lia.
Qed.

Lemma mon_run_app w maxpp e1 : forall m m1 e2, mon_run w maxpp m e1 = Some m1 ->
  mon_run w maxpp m (e1 ++ e2) = mon_run w maxpp m1 e2.
Proof.
  induction e1 as [|e r IH]; simpl; intros m m1 e2 H; [inversion H; reflexivity|].
  destruct (mon_step w maxpp m e) as [m'|]; [|discriminate]. now apply IH.
Qed.

Theorem run_sim cfg ls : forall s s' e m,
  wf_s s -> Rel (st_trk s) (st_w s) m -> run cfg s ls = Some (s', e) ->
  exists m', mon_run (length (st_w s)) (c_maxpp cfg) m e = Some m' /\ Rel (st_trk s') (st_w s') m'.
Proof.
  induction ls as [|l ls IH]; simpl; intros s s' e m Hwf HR Hr.
  - inversion Hr; subst. exists m. split; [reflexivity | exact HR].
  - destruct (step cfg s l) as [[s1 e1]|] eqn:E1; [|discriminate].
    destruct (run cfg s1 ls) as [[s2 e2]|] eqn:E2; [|discriminate]. inversion Hr; subst.
    destruct (step_sim _ _ _ _ _ _ Hwf HR E1) as (m1 & Hm1 & HR1).
    destruct (IH _ _ _ _ (step_wf _ _ _ _ _ Hwf E1) HR1 E2) as (m2 & Hm2 & HR2).
    exists m2. split; [|exact HR2]. rewrite (mon_run_app _ _ _ _ _ _ Hm1).
    rewrite <- (step_workers _ _ _ _ _ E1). exact Hm2.
Qed.

(* every run of the model, from the initial state, is accepted by the monitor *)
Theorem monitor_holds cfg w ls s e :
  run cfg (init w) ls = Some (s, e) -> monitor_C21 w (c_maxpp cfg) e = true.
Proof.
  intro Hr. destruct (run_sim cfg ls (init w) s e m_init (wf_init w) (Rel_init w) Hr) as (m' & Hm & _).
  unfold monitor_C21. simpl in Hm. rewrite repeat_length in Hm. now rewrite Hm.
Qed.

(* ============================================================================================ *)
(* Conservation, per peer: every task object ever created for the peer is queued, active, done or
   was removed while queued — in every reachable state. *)
Definition conserved (s : state) : Prop :=
  forall p, count_peer p (gh_created s) =
    (length (pendT (st_trk s) p) + length (actT (st_trk s) p) + count_peer p (gh_done s) + count_peer p (gh_removed s))%nat.

Lemma count_peer_app p (l l' : list pt) : count_peer p (l ++ l') = (count_peer p l + count_peer p l')%nat.
Proof. unfold count_peer. now rewrite filter_app, app_length. Qed.
Lemma count_peer_one p q i : count_peer p [(q, i)] = if N.eqb q p then 1%nat else 0%nat.
Proof. unfold count_peer. simpl. destruct (N.eqb q p); reflexivity. Qed.
Lemma count_peer_map {A} p q (f : A -> N) l :
  count_peer q (map (fun x => (p, f x)) l) = if N.eqb p q then length l else 0%nat.
Proof.
  unfold count_peer. induction l as [|x r IH]; simpl; [destruct (N.eqb p q); reflexivity|].
  destruct (N.eqb p q); simpl; [now rewrite IH | exact IH].
Qed.
Lemma del_topic_partition tp l :
  (length (del_topic tp l) + length (filter (fun x => N.eqb (t_topic x) tp) l) = length l)%nat.
Proof.
  unfold del_topic. induction l as [|x r IH]; simpl; [reflexivity|].
  destruct (N.eqb (t_topic x) tp); simpl; lia.
Qed.

Lemma after_pop_gh s w sig r :
  gh_created (fst (after_pop s w sig r)) = gh_created s /\ gh_done (fst (after_pop s w sig r)) = gh_done s /\
  gh_removed (fst (after_pop s w sig r)) = gh_removed s.
Proof. unfold after_pop. destruct (snd r) as [[p x]|]; simpl; auto. Qed.

Lemma cons_after_pop cfg trk0 trk ws nx top trk' o :
  wf trk ws nx -> (forall q, length (pendT trk q) = length (pendT trk0 q) /\ length (actT trk q) = length (actT trk0 q)) ->
  pop_tasks cfg trk top = Some (trk', o) ->
  forall p, (length (pendT trk' p) + length (actT trk' p) = length (pendT trk0 p) + length (actT trk0 p))%nat.
Proof.
  intros [K P _ _ _] Hv Hpop p. destruct (pop_tasks_spec _ _ _ _ _ K Hpop) as [_ Hspec].
  destruct (Hv p) as [<- <-]. destruct o as [[q b]|].
  - destruct Hspec as (Hin & _ & _ & _ & Ep & Ea & Hoth & _). destruct (N.eq_dec p q) as [->|Hn].
    + rewrite Ep, Ea, app_length. simpl. destruct (P q) as (_ & Hids & _).
      assert (Hip : NoDup (map t_id (pendT trk q))) by (rewrite map_app in Hids; now apply nodup_app_l in Hids).
      pose proof (del_id_length _ _ Hip Hin). lia.
    + destruct (Hoth p Hn) as [-> ->]. reflexivity.
  - destruct Hspec as (Hsame & _). destruct (Hsame p) as [-> ->]. reflexivity.
Qed.

Theorem step_conserved cfg s l s' e : wf_s s -> conserved s -> step cfg s l = Some (s', e) -> conserved s'.
Proof.
  intros Hwf Hc. pose proof Hwf as [K P H D C]. destruct l; simpl.
  - change (match aget p (st_trk s) with Some t => t | None => tr_new end) with (trk_of (st_trk s) p).
    destruct (tr_push (st_next s) tp prio (trk_of (st_trk s) p)) as [t' c] eqn:Ep.
    intro E; injection E as Es Ee; subst s' e. intro q. simpl. specialize (Hc q).
    destruct (tr_wf_push _ _ _ _ _ _ (P p) Ep) as (_ & Ha & _ & Hf & Ht & _).
    unfold pendT, actT in *. destruct (N.eq_dec p q) as [<-|Hn].
    + rewrite trk_of_aput_eq, Ha. destruct c.
      * destruct (Ht eq_refl) as (-> & _). rewrite count_peer_app, count_peer_one, N.eqb_refl, app_length. simpl. lia.
      * destruct (Hf eq_refl) as (_ & ->). exact Hc.
    + rewrite trk_of_aput_neq by exact Hn. destruct c; [|exact Hc].
      rewrite count_peer_app, count_peer_one. destruct (N.eqb_spec p q); [congruence|]. lia.
  - destruct (aget p (st_trk s)) as [t|] eqn:Et; [|intro E; injection E as Es Ee; subst s' e; exact Hc].
    pose proof (trk_of_some _ _ _ Et) as Eof.
    destruct (has_topic tp (tr_pending t)); intro E; injection E as Es Ee; subst s' e; [|exact Hc].
    intro q. simpl. specialize (Hc q). unfold pendT, actT in *. rewrite count_peer_app, count_peer_map.
    destruct (N.eq_dec p q) as [<-|Hn].
    + rewrite trk_of_aput_eq, N.eqb_refl. simpl. rewrite Eof in Hc. pose proof (del_topic_partition tp (tr_pending t)). lia.
    + rewrite trk_of_aput_neq by exact Hn. destruct (N.eqb_spec p q); [congruence|]. lia.
  - destruct (nth_error (st_w s) w) as [[| |]|] eqn:Ew; try discriminate.
    destruct (pop_tasks cfg (st_trk s) top) as [[trk' o]|] eqn:Epop; [|discriminate]. intro E.
    assert (Es : s' = fst (after_pop s w (st_sig s) (trk', o))) by (inversion E as [E1]; rewrite E1; reflexivity).
    intro q. rewrite Es. destruct (after_pop_gh s w (st_sig s) (trk', o)) as (-> & -> & ->). rewrite after_pop_trk. simpl.
    pose proof (cons_after_pop cfg (st_trk s) (st_trk s) _ _ top trk' o Hwf (fun _ => conj eq_refl eq_refl) Epop q).
    specialize (Hc q). lia.
  - destruct (nth_error (st_w s) w) as [[| |]|] eqn:Ew; try discriminate.
    destruct (st_sig s); [|discriminate].
    destruct (pop_tasks cfg (st_trk s) top) as [[trk' o]|] eqn:Epop; [|discriminate]. intro E.
    assert (Es : s' = fst (after_pop s w false (trk', o))) by (inversion E as [E1]; rewrite E1; reflexivity).
    intro q. rewrite Es. destruct (after_pop_gh s w false (trk', o)) as (-> & -> & ->). rewrite after_pop_trk. simpl.
    pose proof (cons_after_pop cfg (st_trk s) (st_trk s) _ _ top trk' o Hwf (fun _ => conj eq_refl eq_refl) Epop q).
    specialize (Hc q). lia.
  - destruct (nth_error (st_w s) w) as [[| |]|] eqn:Ew; try discriminate.
    destruct (pop_tasks cfg (thaw_round (st_trk s)) top) as [[trk' o]|] eqn:Epop; [|discriminate]. intro E.
    assert (Es : s' = fst (after_pop s w (st_sig s) (trk', o))) by (inversion E as [E1]; rewrite E1; reflexivity).
    intro q. rewrite Es. destruct (after_pop_gh s w (st_sig s) (trk', o)) as (-> & -> & ->). rewrite after_pop_trk. simpl.
    assert (Hv : forall q, length (pendT (thaw_round (st_trk s)) q) = length (pendT (st_trk s) q) /\
                           length (actT (thaw_round (st_trk s)) q) = length (actT (st_trk s) q)).
    { intro q0. unfold pendT, actT. destruct (trk_of_thaw (st_trk s) q0) as [-> ->]. auto. }
    pose proof (cons_after_pop cfg (st_trk s) (thaw_round (st_trk s)) _ _ top trk' o (wf_thaw _ _ _ Hwf) Hv Epop q).
    specialize (Hc q). lia.
  - destruct (nth_error (st_w s) w) as [[| |p x]|] eqn:Ew; try discriminate.
    intro E; injection E as Es Ee; subst s' e. intro q. simpl. specialize (Hc q).
    pose proof (H _ _ _ Ew) as Hx.
    destruct (aget p (st_trk s)) as [t|] eqn:Et.
    2:{ exfalso. unfold actT, trk_of in Hx. rewrite Et in Hx. exact Hx. }
    pose proof (trk_of_some _ _ _ Et) as Eof. destruct (P p) as (_ & Hids & _).
    assert (Hia : NoDup (map t_id (actT (st_trk s) p))) by (rewrite map_app in Hids; now apply nodup_app_r in Hids).
    pose proof (del_id_length _ _ Hia Hx) as Hl.
    unfold pendT, actT in *. rewrite count_peer_app, count_peer_one. destruct (N.eq_dec p q) as [<-|Hn].
    + rewrite trk_of_aput_eq, N.eqb_refl. simpl. rewrite Eof in *. lia.
    + rewrite trk_of_aput_neq by exact Hn. destruct (N.eqb_spec p q); [congruence|]. lia.
Qed.

Theorem conservation cfg w ls s e : run cfg (init w) ls = Some (s, e) -> conserved s.
Proof.
  assert (G : forall ls s0 s e, wf_s s0 -> conserved s0 -> run cfg s0 ls = Some (s, e) -> conserved s).
  { induction ls0 as [|l ls0 IH]; simpl; intros s0 s1 e1 Hwf Hc Hr.
    - inversion Hr; subst; exact Hc.
    - destruct (step cfg s0 l) as [[sa ea]|] eqn:E1; [|discriminate].
      destruct (run cfg sa ls0) as [[sb eb]|] eqn:E2; [|discriminate]. inversion Hr; subst.
      eapply IH; [| |exact E2]; [eapply step_wf; eauto | eapply step_conserved; eauto]. }
  intro Hr. eapply G; [apply wf_init | | exact Hr]. intro p. reflexivity.
Qed.
