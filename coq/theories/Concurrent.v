(* Concurrent.v — C20: two requests of one requestor to one responder, in flight at once.
   Responder: the link tracker of C19 (LinkTracker.v, the transcription of peerlinktracker.go/linktracker.go)
   shared by both responses: a block is sent to a request only if no in-progress request of the same
   deduplication scope has traversed it with its block.  Requestor: one ReconciledLoader/executor per request
   (ReqExec.v), ONE local store: a block is written only when a request's own traversal loads it from its
   own response.  No proofs here. *)
From Coq Require Import List NArith Bool.
From GS Require Import Base Ltree RecLoader ReqExec.
From GS Require Import LinkTracker.     (* last: its lop/lobs/lrun are the ones meant here *)
Import ListNotations.
Open Scope N_scope.

(* the responder's metadata for a plan: (link, has block) per link of its own traversal *)
Definition md_of (t : ltree) (R : store) : list (cid * bool) :=
  map (fun it => (i_link it, match i_act it with Present => true | _ => false end)) (resp_items t R 0).

(* the link-tracker calls of request r (prepareQuery: skip; one RecordLinkTraversal per link; FinishTracking) *)
Definition req_ops (r : req) (dedup : option dkey) (skip : N) (md : list (cid * bool)) : list lop :=
  (match dedup with Some k => [LDedup r k] | None => [] end) ++
  (if N.eqb skip 0 then [] else [LSkip r skip]) ++
  map (fun e : cid * bool => LRecord r (fst e) (snd e)) md ++ [LFinish r].

(* an interleaving of the two responses' calls: true = the next call of request 1 *)
Fixpoint merge (order : list bool) (a b : list lop) : list lop :=
  match order with
  | [] => a ++ b
  | true :: o => match a with x :: a' => x :: merge o a' b | [] => b end
  | false :: o => match b with y :: b' => y :: merge o a b' | [] => a end
  end.

(* the send decisions the tracker made for request r, in order *)
Fixpoint decisions (r : req) (ops : list lop) (outs : list lobs) : list bool :=
  match ops, outs with
  | LRecord r' _ _ :: ops', o :: outs' =>
      if N.eqb r r' then (match lo_out o with OSend d _ => d | _ => false end) :: decisions r ops' outs'
      else decisions r ops' outs'
  | _ :: ops', _ :: outs' => decisions r ops' outs'
  | _, _ => []
  end.

Fixpoint zip_items (R : store) (md : list (cid * bool)) (ds : list bool) : list item :=
  match md, ds with
  | (c, h) :: md', d :: ds' =>
      {| i_link := c; i_act := if h then Present else Missing; i_blk := if d then aget c R else None |} :: zip_items R md' ds'
  | _, _ => []
  end.

Record creq := { cq_plan : ltree; cq_dedup : option dkey }.

(* what each request receives, for an interleaving of the two responder traversals *)
Definition streams (R : store) (q1 q2 : creq) (skip1 skip2 : N) (order : list bool) : list item * list item :=
  let md1 := md_of (cq_plan q1) R in let md2 := md_of (cq_plan q2) R in
  let ops := merge order (req_ops 1 (cq_dedup q1) skip1 md1) (req_ops 2 (cq_dedup q2) skip2 md2) in
  let outs := fst (lrun plt_new ops) in
  (zip_items R md1 (decisions 1 ops outs), zip_items R md2 (decisions 2 ops outs)).

(* one request on the requestor, fed its stream (one message, final status), from a given store *)
Definition run_one (t : ltree) (R st : store) (its : list item) : xstate * list ev * bool :=
  run_request proper_prefix (fun _ => [msg_of its (resp_status t R)]) 0 t st [] [].

(* both requests were sent from the initial store (each goes online at its first local miss over L); the
   requestor consumes the responses one after the other: [first2] = request 2's traversal runs first *)
Definition skip_of (t : ltree) (L : store) : N :=
  (fix go (evs : list ev) : N :=
     match evs with
     | [] => 0
     | ELoad _ _ AOk :: r => 1 + go r
     | ELoad _ _ _ :: _ => 0
     | EVisit _ :: r => go r
     end) (snd (fst (run_tree (fun (u : unit) p c => (u, match aget c L with Some _ => AOk | None => ASkip end)) t tt))).

(* a skipped ROOT ends the traversal with the skip itself as its error, which ExecuteTask reports *)
Definition root_skipped (evs : list ev) : N := match evs with [ELoad _ _ ASkip] => 1 | _ => 0 end.
Definition mk_outcome (r : xstate * list ev * bool) : outcome :=
  let o := outcome_of r in
  {| o_visits := o_visits o; o_missing := o_missing o;
     o_other_errs := o_other_errs o + final_errs (fst (fst r)) (snd r) + root_skipped (snd (fst r));
     o_store := o_store o; o_complete := true |}.

Definition run_two (L R : store) (q1 q2 : creq) (order : list bool) (first2 : bool) : outcome * outcome :=
  let '(s1, s2) := streams R q1 q2 (skip_of (cq_plan q1) L) (skip_of (cq_plan q2) L) order in
  if first2 then
    let rb := run_one (cq_plan q2) R L s2 in
    let ra := run_one (cq_plan q1) R (x_store (fst (fst rb))) s1 in
    (mk_outcome ra, mk_outcome rb)
  else
    let ra := run_one (cq_plan q1) R L s1 in
    let rb := run_one (cq_plan q2) R (x_store (fst (fst ra))) s2 in
    (mk_outcome ra, mk_outcome rb).

(* each request alone *)
Definition solo (L R : store) (q : creq) : outcome := ref_outcome (cq_plan q) L R.
(* stores are compared per request against what that request alone would hold: the union is not compared *)
Definition same_result (a b : outcome) : bool :=
  list_eqb N.eqb (o_visits a) (o_visits b) && list_eqb pc_eqb (o_missing a) (o_missing b) && N.eqb (o_other_errs a) (o_other_errs b).

(* correspondence case: the real pair, two requests, responder interleaving forced by a store gate
   (request 1 performs its first [cc_gate] loads, then request 2 runs to the end, then request 1 finishes),
   requestor order forced by holding request 1's first store commit until request 2 completed *)
Record ccase := {
  cc_plan1 : ltree; cc_plan2 : ltree; cc_L : list cid; cc_R : list cid;
  cc_gated : bool; cc_gate : nat;
  cc_obs1 : outcome; cc_obs2 : outcome; cc_store : list N
}.
Definition gate_order (t1 : ltree) (R : store) (k : nat) : list bool :=
  (* request 1: k link records (plus its skip call if any is issued first: accounted by the caller), then request 2 entirely *)
  repeat true k ++ repeat false (S (S (length (md_of t1 R) + 1000))).
(* the property: each request ends as it would alone *)
Definition ccase_mon (c : ccase) : bool :=
  let L := store_of (cc_L c) in let R := store_of (cc_R c) in
  same_result (cc_obs1 c) (solo L R {| cq_plan := cc_plan1 c; cq_dedup := None |}) &&
  same_result (cc_obs2 c) (solo L R {| cq_plan := cc_plan2 c; cq_dedup := None |}).
(* model against implementation (gated cases only: otherwise the interleaving is not known) *)
Definition ccase_ok (c : ccase) : bool :=
  let L := store_of (cc_L c) in let R := store_of (cc_R c) in
  wf_plan (cc_plan1 c) && wf_plan (cc_plan2 c) &&
  (negb (cc_gated c) ||
   let skipcalls := if N.eqb (skip_of (cc_plan1 c) L) 0 then 0%nat else 1%nat in
   let '(o1, o2) := run_two L R {| cq_plan := cc_plan1 c; cq_dedup := None |} {| cq_plan := cc_plan2 c; cq_dedup := None |}
                            (repeat true (skipcalls + cc_gate c) ++ repeat false 4000) true in
   (* request 2 may do better than the gated order predicts: the requestor looks a link's block up in the block
      map of the whole MESSAGE, so a block sent for request 1 that happens to travel in the same message as request
      2's metadata entry serves request 2 as well (server.go processResponses: one blkMap per message) *)
   same_result (cc_obs1 c) o1 &&
   subseq (o_visits o2) (o_visits (cc_obs2 c)) &&
   subseq (o_visits (cc_obs2 c)) (o_visits (solo L R {| cq_plan := cc_plan2 c; cq_dedup := None |}))).
