(* LinkTrackerProofs.v — the link-tracker model refines the in-progress-requests specification (C19). *)
From Coq Require Import List NArith Bool Lia.
From GS Require Import Base LinkTracker.
Import ListNotations.
Open Scope N_scope.

(* ---------- spec-side facts ---------- *)
Definition ids (sp : spec) : list req := map s_id sp.

Lemma sfind_in r sp x : sfind r sp = Some x -> In x sp /\ s_id x = r.
Proof.
  induction sp as [|y sp IH]; simpl; [discriminate|].
  destruct (N.eqb_spec (s_id y) r); intro H.
  - inversion H; subst. auto.
  - destruct (IH H). auto.
Qed.

Lemma sfind_none r sp : sfind r sp = None <-> ~ In r (ids sp).
Proof.
  induction sp as [|y sp IH]; simpl; [tauto|].
  destruct (N.eqb_spec (s_id y) r); split; intro H; try discriminate.
  - exfalso; apply H; now left.
  - intros [E|E]; [contradiction | now apply IH].
  - apply IH. intro; apply H; now right.
Qed.

Lemma in_sfind x sp : NoDup (ids sp) -> In x sp -> sfind (s_id x) sp = Some x.
Proof.
  induction sp as [|y sp IH]; simpl; intros Hn Hin; [contradiction|].
  inversion Hn; subst. destruct Hin as [->|Hin].
  - now rewrite N.eqb_refl.
  - destruct (N.eqb_spec (s_id y) (s_id x)) as [E|E].
    + exfalso. match goal with H : ~ In _ _ |- _ => apply H end. rewrite E. now apply in_map.
    + now apply IH.
Qed.

Lemma sfind_sput r x sp : sfind r (sput x sp) = if N.eqb (s_id x) r then Some x else sfind r sp.
Proof.
  induction sp as [|y sp IH]; simpl.
  - reflexivity.
  - destruct (N.eqb_spec (s_id y) (s_id x)) as [E|E]; simpl.
    + rewrite E. destruct (N.eqb_spec (s_id x) r); reflexivity.
    + destruct (N.eqb_spec (s_id y) r) as [E2|E2].
      * destruct (N.eqb_spec (s_id x) r); [congruence | reflexivity].
      * exact IH.
Qed.

Lemma sfind_sdel r r' sp : sfind r' (sdel r sp) = if N.eqb r r' then None else sfind r' sp.
Proof.
  unfold sdel. induction sp as [|y sp IH]; simpl.
  - now destruct (N.eqb r r').
  - destruct (N.eqb_spec (s_id y) r) as [E|E]; simpl.
    + rewrite IH. destruct (N.eqb_spec r r') as [E2|E2]; [reflexivity|].
      destruct (N.eqb_spec (s_id y) r'); [congruence | reflexivity].
    + destruct (N.eqb_spec (s_id y) r') as [E2|E2].
      * destruct (N.eqb_spec r r'); [congruence | reflexivity].
      * exact IH.
Qed.

Lemma ids_sput x sp : ids (sput x sp) = if existsb (N.eqb (s_id x)) (ids sp) then ids sp else ids sp ++ [s_id x].
Proof.
  induction sp as [|y sp IH]; simpl; [reflexivity|].
  rewrite (N.eqb_sym (s_id x) (s_id y)).
  destruct (N.eqb_spec (s_id y) (s_id x)) as [E|E]; simpl.
  - now rewrite E.
  - rewrite IH. destruct (existsb (N.eqb (s_id x)) (ids sp)); reflexivity.
Qed.



Lemma nodup_sput x sp : NoDup (ids sp) -> NoDup (ids (sput x sp)).
Proof.
  intro H. rewrite ids_sput. destruct (existsb (N.eqb (s_id x)) (ids sp)) eqn:E; [exact H|].
  apply nodup_snoc; [exact H|]. intro Hin. apply existsb_eqb_in' in Hin. congruence.
Qed.

Lemma nodup_sdel r sp : NoDup (ids sp) -> NoDup (ids (sdel r sp)).
Proof.
  unfold sdel, ids. induction sp as [|y sp IH]; simpl; intro H; [constructor|].
  inversion H; subst. destruct (N.eqb (s_id y) r); simpl; [now apply IH|].
  constructor; [|now apply IH]. intro Hin. apply in_map_iff in Hin as (z & Ez & Hz).
  apply filter_In in Hz as [Hz _]. match goal with H : ~ In _ _ |- _ => apply H end.
  rewrite <- Ez. now apply in_map.
Qed.

(* occurrences of a link in a list, as N *)
Fixpoint cnt (l : link) (ls : list link) : N :=
  match ls with [] => 0 | x :: r => (if N.eqb l x then 1 else 0) + cnt l r end.
Lemma cnt_app l a b : cnt l (a ++ b) = cnt l a + cnt l b.
Proof. induction a as [|x a IH]; simpl; [reflexivity | rewrite IH; lia]. Qed.
Lemma cnt_pos_in l ls : 0 < cnt l ls <-> existsb (N.eqb l) ls = true.
Proof.
  induction ls as [|x ls IH]; cbn [cnt existsb]; [split; [lia | discriminate]|].
  destruct (N.eqb l x); cbn [orb]; [split; [reflexivity | intros _; lia]|]. rewrite <- IH. split; lia.
Qed.

Definition contrib (sc : option dkey) (l : link) (x : sreq) : N :=
  if scope_eqb (s_scope x) sc then cnt l (s_with x) else 0.
Definition uses (sc : option dkey) (l : link) (sp : spec) : N :=
  fold_right (fun x acc => contrib sc l x + acc) 0 sp.

Lemma uses_sput_in sc l x' x sp : NoDup (ids sp) -> sfind (s_id x') sp = Some x ->
  uses sc l (sput x' sp) + contrib sc l x = uses sc l sp + contrib sc l x'.
Proof.
  induction sp as [|y sp IH]; simpl; intros Hn Hf; [discriminate|].
  inversion Hn; subst.
  destruct (N.eqb_spec (s_id y) (s_id x')) as [E|E]; simpl.
  - inversion Hf; subst. lia.
  - specialize (IH H2 Hf). lia.
Qed.
Lemma uses_sput_fresh sc l x' sp : sfind (s_id x') sp = None ->
  uses sc l (sput x' sp) = uses sc l sp + contrib sc l x'.
Proof.
  induction sp as [|y sp IH]; simpl; intro Hf; [lia|].
  destruct (N.eqb_spec (s_id y) (s_id x')) as [E|E]; [discriminate|]. simpl. rewrite IH by assumption. lia.
Qed.
Lemma uses_sdel_in sc l r x sp : NoDup (ids sp) -> sfind r sp = Some x ->
  uses sc l (sdel r sp) + contrib sc l x = uses sc l sp.
Proof.
  unfold sdel. induction sp as [|y sp IH]; simpl; intros Hn Hf; [discriminate|].
  inversion Hn; subst.
  destruct (N.eqb_spec (s_id y) r) as [E|E]; simpl.
  - inversion Hf; subst. assert (Hnot : sfind (s_id x) sp = None) by now apply sfind_none.
    clear -Hnot. induction sp as [|z sp IH]; simpl in *; [lia|].
    destruct (N.eqb_spec (s_id z) (s_id x)); [discriminate|]. simpl. specialize (IH Hnot). lia.
  - specialize (IH H2 Hf). lia.
Qed.
Lemma sdel_none r sp : sfind r sp = None -> sdel r sp = sp.
Proof.
  unfold sdel. induction sp as [|y sp IH]; simpl; intro Hf; [reflexivity|].
  destruct (N.eqb_spec (s_id y) r); [discriminate|]. simpl. now rewrite IH.
Qed.

Lemma held_uses sc l sp : held sc l sp = negb (uses sc l sp =? 0).
Proof.
  unfold held. induction sp as [|y sp IH]; simpl; [reflexivity|].
  rewrite IH. unfold contrib. destruct (scope_eqb (s_scope y) sc); simpl.
  - destruct (existsb (N.eqb l) (s_with y)) eqn:E; simpl.
    + apply cnt_pos_in in E. destruct (N.eqb_spec (cnt l (s_with y) + uses sc l sp) 0); [lia | reflexivity].
    + assert (cnt l (s_with y) = 0).
      { destruct (N.eq_0_gt_0_cases (cnt l (s_with y))) as [?|Hp]; [assumption|].
        apply cnt_pos_in in Hp. congruence. }
      now rewrite H.
  - reflexivity.
Qed.

(* ---------- uniform treatment of present and absent requests through sget ---------- *)
Lemma sget_sput r x sp : sget r (sput x sp) = if N.eqb (s_id x) r then x else sget r sp.
Proof. unfold sget. rewrite sfind_sput. destruct (N.eqb (s_id x) r); reflexivity. Qed.
Lemma sget_sdel r r' sp : sget r' (sdel r sp) = if N.eqb r r' then sfresh r' else sget r' sp.
Proof. unfold sget. rewrite sfind_sdel. destruct (N.eqb r r'); reflexivity. Qed.

(* the footprint of a request inside one dedup scope *)
Definition fp (sc : option dkey) (x : sreq) : list link * bool :=
  if scope_eqb (s_scope x) sc then (s_with x, s_miss x) else ([], false).
Lemma contrib_fp sc l x : contrib sc l x = cnt l (fst (fp sc x)).
Proof. unfold contrib, fp. destruct (scope_eqb (s_scope x) sc); reflexivity. Qed.

Lemma contrib_fresh sc l r : contrib sc l (sfresh r) = 0.
Proof. unfold contrib, sfresh. simpl. destruct sc; reflexivity. Qed.

Lemma uses_sput sc l x' sp : NoDup (ids sp) ->
  uses sc l (sput x' sp) + cnt l (fst (fp sc (sget (s_id x') sp))) = uses sc l sp + cnt l (fst (fp sc x')).
Proof.
  intro Hn. rewrite <- !contrib_fp. unfold sget. destruct (sfind (s_id x') sp) as [x|] eqn:E.
  - now apply uses_sput_in.
  - rewrite uses_sput_fresh by assumption. rewrite contrib_fresh. lia.
Qed.
Lemma uses_sdel sc l r sp : NoDup (ids sp) ->
  uses sc l (sdel r sp) + cnt l (fst (fp sc (sget r sp))) = uses sc l sp.
Proof.
  intro Hn. rewrite <- contrib_fp. unfold sget. destruct (sfind r sp) as [x|] eqn:E.
  - now apply uses_sdel_in.
  - rewrite sdel_none by assumption. rewrite contrib_fresh. lia.
Qed.

(* ---------- the relation between one tracker and the specification ---------- *)
Definition isSome {A} (o : option A) : bool := match o with Some _ => true | None => false end.
Definition v_trav (sc : option dkey) (sp : spec) (r : req) : option (list link) :=
  match fst (fp sc (sget r sp)) with [] => None | ls => Some ls end.
Definition v_miss (sc : option dkey) (sp : spec) (r : req) : bool := snd (fp sc (sget r sp)).
Definition v_ref (sc : option dkey) (sp : spec) (l : link) : option N :=
  if uses sc l sp =? 0 then None else Some (uses sc l sp).

Record TR (sc : option dkey) (t : lt) (sp : spec) : Prop := {
  tr_trav : forall r, aget r (lt_trav t) = v_trav sc sp r;
  tr_miss : forall r, isSome (aget r (lt_missing t)) = v_miss sc sp r;
  tr_ref : forall l, aget l (lt_ref t) = v_ref sc sp l
}.

Lemma num_v_ref sc sp l : num (v_ref sc sp l) = uses sc l sp.
Proof. unfold v_ref. destruct (N.eqb_spec (uses sc l sp) 0); simpl; lia. Qed.

Lemma TR_same_fp sc t sp x' : NoDup (ids sp) ->
  fp sc x' = fp sc (sget (s_id x') sp) -> TR sc t sp -> TR sc t (sput x' sp).
Proof.
  intros Hn Hfp [Ht Hm Hr]. constructor.
  - intro r. rewrite Ht. unfold v_trav. rewrite sget_sput.
    destruct (N.eqb_spec (s_id x') r) as [<-|]; [now rewrite Hfp | reflexivity].
  - intro r. rewrite Hm. unfold v_miss. rewrite sget_sput.
    destruct (N.eqb_spec (s_id x') r) as [<-|]; [now rewrite Hfp | reflexivity].
  - intro l. rewrite Hr. unfold v_ref. pose proof (uses_sput sc l x' sp Hn) as E. rewrite Hfp in E.
    assert (uses sc l (sput x' sp) = uses sc l sp) by lia. now rewrite H.
Qed.

Lemma TR_add_link sc t sp x' l : NoDup (ids sp) ->
  fp sc x' = (fst (fp sc (sget (s_id x') sp)) ++ [l], snd (fp sc (sget (s_id x') sp))) ->
  TR sc t sp -> TR sc (lt_record (s_id x') l true t) (sput x' sp).
Proof.
  intros Hn Hfp [Ht Hm Hr]. set (r := s_id x') in *. set (x := sget r sp) in *.
  assert (Eold : match aget r (lt_trav t) with Some ls => ls | None => [] end = fst (fp sc x)).
  { rewrite Ht. unfold v_trav. fold x. destruct (fst (fp sc x)); reflexivity. }
  constructor; simpl.
  - intro r'. unfold v_trav. rewrite sget_sput. fold r. destruct (N.eqb_spec r r') as [<-|Hne].
    + rewrite aget_aput_eq, Eold, Hfp. simpl. destruct (fst (fp sc x)); reflexivity.
    + rewrite aget_aput_neq by assumption. apply Ht.
  - intro r'. rewrite Hm. unfold v_miss. rewrite sget_sput. fold r.
    destruct (N.eqb_spec r r') as [<-|Hne]; [now rewrite Hfp | reflexivity].
  - intro l'. unfold lt_refcount. rewrite Hr, num_v_ref.
    pose proof (uses_sput sc l' x' sp Hn) as E. fold r x in E. rewrite Hfp in E. simpl in E.
    rewrite cnt_app in E. simpl in E.
    destruct (N.eqb_spec l l') as [<-|Hne].
    + rewrite aget_aput_eq. rewrite N.eqb_refl in E. unfold v_ref.
      assert (E2 : uses sc l (sput x' sp) = uses sc l sp + 1) by lia. rewrite E2.
      destruct (N.eqb_spec (uses sc l sp + 1) 0); [lia | reflexivity].
    + rewrite aget_aput_neq by assumption. rewrite Hr.
      assert (Hx : (l' =? l) = false) by (apply N.eqb_neq; congruence). rewrite Hx in E.
      assert (E2 : uses sc l' (sput x' sp) = uses sc l' sp) by lia. unfold v_ref. now rewrite E2.
Qed.

Lemma TR_add_miss sc t sp x' l : NoDup (ids sp) ->
  scope_eqb (s_scope x') sc = true ->
  fp sc x' = (fst (fp sc (sget (s_id x') sp)), true) ->
  TR sc t sp -> TR sc (lt_record (s_id x') l false t) (sput x' sp).
Proof.
  intros Hn Hsc Hfp [Ht Hm Hr]. set (r := s_id x') in *. constructor; simpl.
  - intro r'. rewrite Ht. unfold v_trav. rewrite sget_sput. fold r.
    destruct (N.eqb_spec r r') as [<-|]; [now rewrite Hfp | reflexivity].
  - intro r'. unfold v_miss. rewrite sget_sput. fold r. destruct (N.eqb_spec r r') as [<-|Hne].
    + rewrite aget_aput_eq, Hfp. reflexivity.
    + rewrite aget_aput_neq by assumption. apply Hm.
  - intro l'. rewrite Hr. unfold v_ref. pose proof (uses_sput sc l' x' sp Hn) as E. fold r in E.
    rewrite Hfp in E. simpl in E. assert (uses sc l' (sput x' sp) = uses sc l' sp) by lia. now rewrite H.
Qed.

Lemma fp_fresh sc r : fp sc (sfresh r) = ([], false).
Proof. unfold fp, sfresh. simpl. destruct sc; reflexivity. Qed.

Lemma TR_del_other sc t sp r : NoDup (ids sp) ->
  fp sc (sget r sp) = ([], false) -> TR sc t sp -> TR sc t (sdel r sp).
Proof.
  intros Hn Hfp [Ht Hm Hr]. constructor.
  - intro r'. rewrite Ht. unfold v_trav. rewrite sget_sdel.
    destruct (N.eqb_spec r r') as [<-|]; [now rewrite Hfp, fp_fresh | reflexivity].
  - intro r'. rewrite Hm. unfold v_miss. rewrite sget_sdel.
    destruct (N.eqb_spec r r') as [<-|]; [now rewrite Hfp, fp_fresh | reflexivity].
  - intro l. rewrite Hr. unfold v_ref. pose proof (uses_sdel sc l r sp Hn) as E. rewrite Hfp in E.
    simpl in E. assert (uses sc l (sdel r sp) = uses sc l sp) by lia. now rewrite H.
Qed.

(* the decrement loop of FinishRequest *)
Definition norm (n : N) : option N := if n =? 0 then None else Some n.

Lemma ref_dec_spec (m : list (link * N)) (f : link -> N) l :
  (forall l', aget l' m = norm (f l')) ->
  forall l', aget l' (ref_dec m l) = norm (if N.eqb l' l then f l - 1 else f l').
Proof.
  intros H l'. unfold ref_dec. rewrite (H l).
  assert (En : num (norm (f l)) = f l) by (unfold norm; destruct (N.eqb_spec (f l) 0); simpl; lia).
  rewrite En. destruct (N.leb_spec (f l - 1) 0) as [Hle|Hgt].
  - destruct (N.eqb_spec l' l) as [->|Hne].
    + rewrite aget_adel_eq. unfold norm. destruct (N.eqb_spec (f l - 1) 0); [reflexivity | lia].
    + rewrite aget_adel_neq by congruence. apply H.
  - destruct (N.eqb_spec l' l) as [->|Hne].
    + rewrite aget_aput_eq. unfold norm. destruct (N.eqb_spec (f l - 1) 0); [lia | reflexivity].
    + rewrite aget_aput_neq by congruence. apply H.
Qed.

Lemma ref_dec_fold links : forall (m : list (link * N)) (f : link -> N),
  (forall l', aget l' m = norm (f l')) ->
  forall l', aget l' (fold_left ref_dec links m) = norm (f l' - cnt l' links).
Proof.
  induction links as [|l links IH]; intros m f H l'; simpl.
  - rewrite N.sub_0_r. apply H.
  - rewrite (IH (ref_dec m l) (fun l' => if N.eqb l' l then f l - 1 else f l') (ref_dec_spec m f l H)).
    f_equal. destruct (N.eqb_spec l' l) as [->|Hne]; lia.
Qed.

Lemma TR_finish sc t sp r : NoDup (ids sp) ->
  scope_eqb (s_scope (sget r sp)) sc = true ->
  TR sc t sp ->
  TR sc (snd (lt_finish r t)) (sdel r sp) /\ fst (lt_finish r t) = negb (s_miss (sget r sp)).
Proof.
  intros Hn Hsc [Ht Hm Hr].
  assert (Hfp : fp sc (sget r sp) = (s_with (sget r sp), s_miss (sget r sp))) by (unfold fp; now rewrite Hsc).
  assert (Hmiss' : forall r', isSome (aget r' (adel r (lt_missing t))) = v_miss sc (sdel r sp) r').
  { intros r'. unfold v_miss. rewrite sget_sdel.
    destruct (N.eqb_spec r r') as [<-|Hne].
    - rewrite aget_adel_eq, fp_fresh. reflexivity.
    - rewrite aget_adel_neq by assumption. apply Hm. }
  split.
  2:{ unfold lt_finish. pose proof (Hm r) as E. unfold v_miss in E. rewrite Hfp in E. simpl in E.
      destruct (aget r (lt_missing t)); simpl in E; rewrite <- E;
        destruct (aget r (lt_trav t)); reflexivity. }
  unfold lt_finish. pose proof (Ht r) as Et. unfold v_trav in Et. rewrite Hfp in Et. simpl in Et.
  destruct (aget r (lt_trav t)) as [links|] eqn:Etr; simpl.
  - assert (Elinks : s_with (sget r sp) = links) by (destruct (s_with (sget r sp)); congruence).
    constructor; simpl.
    + intro r'. unfold v_trav. rewrite sget_sdel. destruct (N.eqb_spec r r') as [<-|Hne].
      * rewrite aget_adel_eq, fp_fresh. reflexivity.
      * rewrite aget_adel_neq by assumption. apply Ht.
    + exact Hmiss'.
    + intro l. rewrite (ref_dec_fold links (lt_ref t) (fun l => uses sc l sp)).
      * unfold v_ref, norm. pose proof (uses_sdel sc l r sp Hn) as E. rewrite Hfp in E. simpl in E.
        rewrite Elinks in E. assert (E2 : uses sc l sp - cnt l links = uses sc l (sdel r sp)) by lia.
        now rewrite E2.
      * intro l'. rewrite Hr. reflexivity.
  - assert (Ewith : s_with (sget r sp) = []) by (destruct (s_with (sget r sp)); congruence).
    constructor; simpl.
    + intro r'. unfold v_trav. rewrite sget_sdel. destruct (N.eqb_spec r r') as [<-|Hne].
      * rewrite fp_fresh. exact Etr.
      * apply Ht.
    + exact Hmiss'.
    + intro l. rewrite Hr. unfold v_ref. pose proof (uses_sdel sc l r sp Hn) as E. rewrite Hfp in E.
      simpl in E. rewrite Ewith in E. simpl in E.
      assert (E2 : uses sc l (sdel r sp) = uses sc l sp) by lia. now rewrite E2.
Qed.

(* ---------- the whole peer link tracker against the specification ---------- *)
Definition tr_of (s : plt) (sc : option dkey) : option lt :=
  match sc with None => Some (p_main s) | Some k => aget k (p_alts s) end.
Definition vscope (sp : spec) (r : req) : option dkey := s_scope (sget r sp).

Definition tr_rel (s : plt) (sp : spec) : Prop :=
  forall sc, match tr_of s sc with
             | Some t => TR sc t sp
             | None => forall r, s_scope (sget r sp) <> sc
             end.

Record R (s : plt) (sp : spec) : Prop := {
  r_nodup : NoDup (ids sp);
  r_ddnodup : NoDup (map fst (p_dedup s));
  r_dedup : forall r, aget r (p_dedup s) = vscope sp r;
  r_sent : forall r, aget r (p_sent s) = norm (s_count (sget r sp));
  r_skip : forall r, num (aget r (p_skip s)) = s_skip (sget r sp);
  r_skip_none : forall r, sfind r sp = None -> aget r (p_skip s) = None;
  r_tr : tr_rel s sp;
  r_alt_used : forall k t, aget k (p_alts s) = Some t -> exists r, sfind r sp <> None /\ vscope sp r = Some k
}.

Lemma scope_eqb_eq a b : scope_eqb a b = true <-> a = b.
Proof.
  unfold scope_eqb, option_eqb. destruct a, b; split; intro H; try discriminate; try reflexivity.
  - apply N.eqb_eq in H. now subst.
  - inversion H. apply N.eqb_refl.
Qed.
Lemma scope_eqb_refl a : scope_eqb a a = true.
Proof. now apply scope_eqb_eq. Qed.
Lemma scope_eqb_neq a b : a <> b -> scope_eqb a b = false.
Proof. intro H. destruct (scope_eqb a b) eqn:E; [apply scope_eqb_eq in E; contradiction | reflexivity]. Qed.

Lemma fp_other sc x : s_scope x <> sc -> fp sc x = ([], false).
Proof. intro H. unfold fp. now rewrite scope_eqb_neq. Qed.
Lemma fp_in sc x : s_scope x = sc -> fp sc x = (s_with x, s_miss x).
Proof. intro H. unfold fp. subst. now rewrite scope_eqb_refl. Qed.

(* replacing the tracker of one scope *)
Definition set_tr (sc : option dkey) (t : lt) (s : plt) : plt :=
  match sc with
  | Some k => {| p_main := p_main s; p_alts := aput k t (p_alts s); p_dedup := p_dedup s;
                 p_sent := p_sent s; p_skip := p_skip s |}
  | None => {| p_main := t; p_alts := p_alts s; p_dedup := p_dedup s; p_sent := p_sent s; p_skip := p_skip s |}
  end.
Lemma tr_of_set_tr sc0 t s sc : tr_of (set_tr sc0 t s) sc = if scope_eqb sc sc0 then Some t else tr_of s sc.
Proof.
  destruct sc0 as [k0|], sc as [k|]; simpl; try reflexivity.
  destruct (N.eqb_spec k k0) as [->|Hne]; [apply aget_aput_eq | apply aget_aput_neq; congruence].
Qed.

(* a request's record changes inside its own scope; its scope's tracker is replaced *)
Lemma tr_rel_update s sp x' t' :
  NoDup (ids sp) -> s_scope x' = s_scope (sget (s_id x') sp) ->
  TR (s_scope x') t' (sput x' sp) -> tr_rel s sp -> tr_rel (set_tr (s_scope x') t' s) (sput x' sp).
Proof.
  intros Hn Hsc HT Hrel sc. rewrite tr_of_set_tr.
  destruct (scope_eqb sc (s_scope x')) eqn:E.
  - apply scope_eqb_eq in E. now subst.
  - assert (Hne : s_scope x' <> sc) by (intro; subst; now rewrite scope_eqb_refl in E).
    specialize (Hrel sc). destruct (tr_of s sc) as [t|].
    + apply TR_same_fp; auto. rewrite !fp_other; auto. now rewrite <- Hsc.
    + intro r. rewrite sget_sput. destruct (N.eqb_spec (s_id x') r); [assumption | apply Hrel].
Qed.

Lemma get_tracker_some s sp r : R s sp -> exists t, get_tracker r s = Some t /\ tr_of s (vscope sp r) = Some t /\ TR (vscope sp r) t sp.
Proof.
  intro HR. unfold get_tracker. rewrite (r_dedup _ _ HR).
  pose proof (r_tr _ _ HR (vscope sp r)) as H.
  destruct (vscope sp r) as [k|] eqn:E; simpl in *.
  - destruct (aget k (p_alts s)) as [t|]; [eauto|]. exfalso. apply (H r). exact E.
  - eauto.
Qed.

Lemma set_tracker_set_tr s sp r t : R s sp -> set_tracker r t s = set_tr (vscope sp r) t s.
Proof. intro HR. unfold set_tracker. rewrite (r_dedup _ _ HR). destruct (vscope sp r); reflexivity. Qed.

(* ---------- auxiliary facts for the step proofs ---------- *)
Lemma sput_sput a b sp : s_id a = s_id b -> sput b (sput a sp) = sput b sp.
Proof.
  intro E. induction sp as [|y sp IH]; simpl.
  - rewrite E, N.eqb_refl. reflexivity.
  - destruct (N.eqb_spec (s_id y) (s_id a)) as [E1|E1]; simpl.
    + rewrite E, N.eqb_refl. destruct (N.eqb_spec (s_id y) (s_id b)); [reflexivity | congruence].
    + destruct (N.eqb_spec (s_id y) (s_id b)); [congruence | now rewrite IH].
Qed.

Lemma has_value_of_aget k r m : aget r m = Some k -> has_value k m = true.
Proof.
  intro H. apply aget_in in H. unfold has_value. apply existsb_exists. exists (r, k). split; [assumption|].
  simpl. apply N.eqb_refl.
Qed.
Lemma aget_of_has_value k m : NoDup (map fst m) -> has_value k m = true -> exists r, aget r m = Some k.
Proof.
  intros Hn H. unfold has_value in H. apply existsb_exists in H as ([r k'] & Hin & E). simpl in E.
  apply N.eqb_eq in E. subst. exists r. now apply in_aget.
Qed.

Lemma uses_zero sc l sp : NoDup (ids sp) -> (forall r, s_scope (sget r sp) <> sc) -> uses sc l sp = 0.
Proof.
  intros Hn H. assert (Hall : forall x, In x sp -> s_scope x <> sc).
  { intros x Hx. specialize (H (s_id x)). unfold sget in H. now rewrite (in_sfind x sp Hn Hx) in H. }
  clear H Hn. induction sp as [|y sp IH]; simpl; [reflexivity|].
  rewrite IH by (intros; apply Hall; now right). unfold contrib.
  rewrite scope_eqb_neq by (apply Hall; now left). reflexivity.
Qed.

Lemma tr_rel_touch s s' sp x' :
  NoDup (ids sp) -> (forall sc, fp sc x' = fp sc (sget (s_id x') sp)) ->
  s_scope x' = s_scope (sget (s_id x') sp) ->
  (forall sc, tr_of s' sc = tr_of s sc) -> tr_rel s sp -> tr_rel s' (sput x' sp).
Proof.
  intros Hn Hfp Hsc Htr Hrel sc. rewrite Htr. specialize (Hrel sc). destruct (tr_of s sc) as [t|].
  - now apply TR_same_fp.
  - intro r. rewrite sget_sput. destruct (N.eqb_spec (s_id x') r) as [<-|]; [rewrite Hsc|]; apply Hrel.
Qed.

Lemma TR_add_links sc r : forall ls t sp x',
  NoDup (ids sp) -> s_id x' = r -> s_scope x' = sc -> s_scope (sget r sp) = sc ->
  s_with x' = s_with (sget r sp) ++ ls -> s_miss x' = s_miss (sget r sp) ->
  TR sc t sp -> TR sc (fold_left (fun t l => lt_record r l true t) ls t) (sput x' sp).
Proof.
  induction ls as [|l ls IH]; intros t sp x' Hn Hid Hsc Hsc0 Hw Hm HT; simpl.
  - apply TR_same_fp; auto. rewrite Hid. rewrite !fp_in by assumption. rewrite Hw, Hm, app_nil_r. reflexivity.
  - set (x := sget r sp) in *.
    set (x1 := {| s_id := r; s_scope := sc; s_with := s_with x ++ [l]; s_miss := s_miss x;
                  s_count := s_count x; s_skip := s_skip x |}).
    assert (HT1 : TR sc (lt_record r l true t) (sput x1 sp)).
    { change r with (s_id x1). apply TR_add_link; auto. simpl. fold x. rewrite !fp_in by auto. reflexivity. }
    rewrite <- (sput_sput x1 x' sp) by (simpl; congruence).
    apply IH; auto.
    + now apply nodup_sput.
    + rewrite sget_sput. simpl. now rewrite N.eqb_refl.
    + rewrite sget_sput. simpl. rewrite N.eqb_refl. simpl. rewrite Hw, <- app_assoc. reflexivity.
    + rewrite sget_sput. simpl. rewrite N.eqb_refl. simpl. exact Hm.
Qed.

(* ---------- each operation refines the specification ---------- *)
Lemma norm_num_norm n : num (norm n) = n.
Proof. unfold norm. destruct (N.eqb_spec n 0); simpl; lia. Qed.

Lemma refine_skip s sp r n : R s sp ->
  let x := sget r sp in
  R {| p_main := p_main s; p_alts := p_alts s; p_dedup := p_dedup s; p_sent := p_sent s;
       p_skip := aput r n (p_skip s) |}
    (sput {| s_id := r; s_scope := s_scope x; s_with := s_with x; s_miss := s_miss x;
             s_count := s_count x; s_skip := n |} sp).
Proof.
  intros HR x. set (x' := {| s_id := r; s_scope := s_scope x; s_with := s_with x; s_miss := s_miss x;
                             s_count := s_count x; s_skip := n |}).
  destruct HR as [Hn Hdd Hd Hs Hk Hkn Ht Ha]. constructor; simpl.
  - now apply nodup_sput.
  - exact Hdd.
  - intro r'. rewrite Hd. unfold vscope. rewrite sget_sput. simpl.
    destruct (N.eqb_spec r r') as [<-|]; reflexivity.
  - intro r'. rewrite Hs. rewrite sget_sput. simpl. destruct (N.eqb_spec r r') as [<-|]; reflexivity.
  - intro r'. rewrite sget_sput. simpl. destruct (N.eqb_spec r r') as [<-|Hne].
    + now rewrite aget_aput_eq.
    + rewrite aget_aput_neq by assumption. apply Hk.
  - intros r' Hf. rewrite sfind_sput in Hf. simpl in Hf. destruct (N.eqb_spec r r') as [E|Hne]; [discriminate|].
    rewrite aget_aput_neq by assumption. now apply Hkn.
  - apply (tr_rel_touch s); auto.
  - intros k t Hk'. destruct (Ha k t Hk') as (r' & Hf & Hv). exists r'. split.
    + rewrite sfind_sput. simpl. destruct (N.eqb r r'); [discriminate | assumption].
    + unfold vscope in *. rewrite sget_sput. simpl. destruct (N.eqb_spec r r') as [E|]; [subst r'; exact Hv | exact Hv].
Qed.

Lemma refine_tracker_update s sp r t' x' (sent' : list (req * N)) :
  R s sp -> s_id x' = r -> s_scope x' = s_scope (sget r sp) -> s_skip x' = s_skip (sget r sp) ->
  TR (s_scope x') t' (sput x' sp) ->
  (forall r', aget r' sent' = if N.eqb r r' then norm (s_count x') else aget r' (p_sent s)) ->
  R (set_tr (vscope sp r)
       t' {| p_main := p_main s; p_alts := p_alts s; p_dedup := p_dedup s; p_sent := sent'; p_skip := p_skip s |})
    (sput x' sp).
Proof.
  intros HR Hid Hsc Hskip HT Hsent.
  destruct HR as [Hn Hdd Hd Hs Hk Hkn Ht Ha].
  assert (Hv : vscope sp r = s_scope x') by (unfold vscope; now rewrite Hsc).
  set (s1 := {| p_main := p_main s; p_alts := p_alts s; p_dedup := p_dedup s; p_sent := sent'; p_skip := p_skip s |}).
  assert (Hfields : forall sc t, p_dedup (set_tr sc t s1) = p_dedup s /\ p_sent (set_tr sc t s1) = sent' /\
                                 p_skip (set_tr sc t s1) = p_skip s) by (intros [k|] t; simpl; auto).
  destruct (Hfields (vscope sp r) t') as (E1 & E2 & E3).
  constructor; rewrite ?E1, ?E2, ?E3.
  - now apply nodup_sput.
  - exact Hdd.
  - intro r'. rewrite Hd. unfold vscope. rewrite sget_sput. rewrite Hid.
    destruct (N.eqb_spec r r') as [<-|]; [now rewrite Hsc | reflexivity].
  - intro r'. rewrite Hsent, sget_sput, Hid. destruct (N.eqb_spec r r') as [<-|]; [reflexivity | apply Hs].
  - intro r'. rewrite sget_sput, Hid. destruct (N.eqb_spec r r') as [<-|]; [rewrite Hskip|]; apply Hk.
  - intros r' Hf. rewrite sfind_sput, Hid in Hf. destruct (N.eqb_spec r r'); [discriminate | now apply Hkn].
  - rewrite Hv. apply tr_rel_update; auto; try (now rewrite Hid).
    all: intro sc; change (tr_of s1 sc) with (tr_of s sc); apply Ht.
  - intros k t Hk'.
    assert (Hex : exists r', sfind r' sp <> None /\ vscope sp r' = Some k \/ (r' = r /\ vscope sp r = Some k)).
    { destruct (vscope sp r) as [k0|] eqn:Ev; simpl in Hk'.
      - destruct (N.eqb_spec k k0) as [->|Hne].
        + exists r. right. auto.
        + rewrite aget_aput_neq in Hk' by congruence. destruct (Ha k t Hk') as (r' & A & B). exists r'. left. auto.
      - destruct (Ha k t Hk') as (r' & A & B). exists r'. left. auto. }
    destruct Hex as (r' & [[A B]|[-> B]]).
    + exists r'. split.
      * rewrite sfind_sput, Hid. destruct (N.eqb r r'); [discriminate | assumption].
      * unfold vscope in *. rewrite sget_sput, Hid. destruct (N.eqb_spec r r') as [<-|]; [now rewrite Hsc | assumption].
    + exists r. split.
      * rewrite sfind_sput, Hid, N.eqb_refl. discriminate.
      * unfold vscope in *. rewrite sget_sput, Hid, N.eqb_refl. now rewrite Hsc.
Qed.

Lemma refine_record s sp r l has : R s sp ->
  exists s' out, lstep s (LRecord r l has) = (s', out, true) /\
                 spec_step sp (LRecord r l has) = Some (fst (match spec_step sp (LRecord r l has) with Some p => p | None => (sp, ONone) end), out) /\
                 R s' (fst (match spec_step sp (LRecord r l has) with Some p => p | None => (sp, ONone) end)).
Proof.
  intro HR. pose proof HR as HR0. destruct HR as [Hn Hdd Hd Hs Hk Hkn Ht Ha].
  set (x := sget r sp). simpl spec_step. fold x. cbn [fst].
  set (cnt' := s_count x + 1).
  set (x' := {| s_id := r; s_scope := s_scope x; s_with := if has then s_with x ++ [l] else s_with x;
                s_miss := s_miss x || negb has; s_count := cnt'; s_skip := s_skip x |}).
  unfold lstep.
  assert (Ecnt : num (aget r (p_sent s)) + 1 = cnt') by (rewrite Hs, norm_num_norm; reflexivity).
  rewrite Ecnt.
  set (s1 := {| p_main := p_main s; p_alts := p_alts s; p_dedup := p_dedup s;
                p_sent := aput r cnt' (p_sent s); p_skip := p_skip s |}).
  destruct (get_tracker_some s sp r HR0) as (t & Hg & Htr & HT).
  assert (Hg1 : get_tracker r s1 = Some t) by exact Hg.
  rewrite Hg1.
  assert (Eset : forall t', set_tracker r t' s1 = set_tr (vscope sp r) t' s1).
  { intro t'. unfold set_tracker. change (p_dedup s1) with (p_dedup s). rewrite Hd. destruct (vscope sp r); reflexivity. }
  rewrite Eset.
  eexists _, _. split; [reflexivity|]. split.
  - f_equal. f_equal. f_equal. rewrite Hk. fold x. f_equal.
    unfold lt_refcount. rewrite (tr_ref _ _ _ HT), num_v_ref, held_uses. unfold vscope. fold x.
    now rewrite negb_involutive.
  - apply (refine_tracker_update s sp r _ x' (aput r cnt' (p_sent s))); auto.
    + unfold vscope in HT. fold x in HT. simpl s_scope.
      destruct has.
      * change r with (s_id x'). apply TR_add_link; auto. simpl. fold x.
        rewrite !fp_in by reflexivity. simpl. now rewrite orb_false_r.
      * change r with (s_id x'). apply TR_add_miss; auto; [apply scope_eqb_refl|]. simpl. fold x.
        rewrite !fp_in by reflexivity. simpl. now rewrite orb_true_r.
    + intro r'. destruct (N.eqb_spec r r') as [<-|Hne].
      * rewrite aget_aput_eq. simpl. unfold norm, cnt'. destruct (N.eqb_spec (s_count x + 1) 0); [lia | reflexivity].
      * now rewrite aget_aput_neq.
Qed.

Lemma refine_ignore s sp r ls : R s sp ->
  let x := sget r sp in
  exists s', lstep s (LIgnore r ls) = (s', ONone, true) /\
    R s' (sput {| s_id := r; s_scope := s_scope x; s_with := s_with x ++ ls; s_miss := s_miss x;
                  s_count := s_count x; s_skip := s_skip x |} sp).
Proof.
  intros HR x. pose proof HR as HR0. destruct HR as [Hn Hdd Hd Hs Hk Hkn Ht Ha].
  set (x' := {| s_id := r; s_scope := s_scope x; s_with := s_with x ++ ls; s_miss := s_miss x;
                s_count := s_count x; s_skip := s_skip x |}).
  unfold lstep. destruct (get_tracker_some s sp r HR0) as (t & Hg & Htr & HT). rewrite Hg.
  rewrite (set_tracker_set_tr s sp r _ HR0).
  eexists. split; [reflexivity|].
  assert (Es : s = {| p_main := p_main s; p_alts := p_alts s; p_dedup := p_dedup s; p_sent := p_sent s; p_skip := p_skip s |})
    by (destruct s; reflexivity).
  rewrite Es at 1.
  apply (refine_tracker_update s sp r _ x' (p_sent s)); auto.
  - unfold vscope in HT. fold x in HT. simpl s_scope. apply TR_add_links; auto.
  - intro r'. destruct (N.eqb_spec r r') as [<-|]; [|reflexivity]. simpl. apply Hs.
Qed.

Lemma refine_dedup s sp r k : R s sp -> sfind r sp = None ->
  exists s', lstep s (LDedup r k) = (s', ONone, true) /\
    R s' (sput {| s_id := r; s_scope := Some k; s_with := []; s_miss := false; s_count := 0; s_skip := 0 |} sp).
Proof.
  intros HR Hf. destruct HR as [Hn Hdd Hd Hs Hk Hkn Ht Ha].
  set (x' := {| s_id := r; s_scope := Some k; s_with := []; s_miss := false; s_count := 0; s_skip := 0 |}).
  assert (Hfresh : sget r sp = sfresh r) by (unfold sget; now rewrite Hf).
  eexists. split; [reflexivity|].
  assert (Hfp : forall sc, fp sc x' = fp sc (sget (s_id x') sp)).
  { intro sc. simpl. rewrite Hfresh, fp_fresh. unfold fp. simpl. destruct sc as [k0|]; simpl; [destruct (N.eqb k k0)|]; reflexivity. }
  constructor; simpl.
  - now apply nodup_sput.
  - now apply nodup_aput.
  - intro r'. unfold vscope. rewrite sget_sput. simpl. destruct (N.eqb_spec r r') as [<-|Hne].
    + now rewrite aget_aput_eq.
    + rewrite aget_aput_neq by assumption. apply Hd.
  - intro r'. rewrite sget_sput. simpl. destruct (N.eqb_spec r r') as [<-|Hne]; [|apply Hs].
    rewrite Hs, Hfresh. reflexivity.
  - intro r'. rewrite sget_sput. simpl. destruct (N.eqb_spec r r') as [<-|Hne]; [|apply Hk].
    now rewrite (Hkn r Hf).
  - intros r' Hf'. rewrite sfind_sput in Hf'. simpl in Hf'. destruct (N.eqb r r'); [discriminate | now apply Hkn].
  - intro sc. destruct sc as [k'|]; simpl.
    + destruct (aget k (p_alts s)) as [t0|] eqn:Ek.
      * specialize (Ht (Some k')). simpl in Ht. destruct (aget k' (p_alts s)) as [t|] eqn:Ek'.
        -- now apply TR_same_fp.
        -- intro r'. rewrite sget_sput. simpl. destruct (N.eqb_spec r r') as [<-|]; [|apply Ht].
           intro E. inversion E; subst. congruence.
      * destruct (N.eqb_spec k k') as [<-|Hne].
        -- rewrite aget_aput_eq. pose proof (Ht (Some k)) as Hnone. simpl in Hnone. rewrite Ek in Hnone.
           assert (Huz : forall l, uses (Some k) l (sput x' sp) = 0).
           { intro l. pose proof (uses_sput (Some k) l x' sp Hn) as E. rewrite <- Hfp in E.
             rewrite (uses_zero (Some k) l sp Hn Hnone) in E. lia. }
           constructor; simpl.
           ++ intro r'. unfold v_trav. rewrite sget_sput. simpl. destruct (N.eqb_spec r r') as [<-|].
              ** unfold fp. simpl. now rewrite N.eqb_refl.
              ** rewrite fp_other by apply Hnone. reflexivity.
           ++ intro r'. unfold v_miss. rewrite sget_sput. simpl. destruct (N.eqb_spec r r') as [<-|].
              ** unfold fp. simpl. now rewrite N.eqb_refl.
              ** rewrite fp_other by apply Hnone. reflexivity.
           ++ intro l. unfold v_ref. now rewrite Huz.
        -- rewrite aget_aput_neq by assumption.
           specialize (Ht (Some k')). simpl in Ht. destruct (aget k' (p_alts s)) as [t|] eqn:Ek'.
           ++ now apply TR_same_fp.
           ++ intro r'. rewrite sget_sput. simpl. destruct (N.eqb_spec r r') as [<-|]; [|apply Ht].
              intro E. inversion E; subst. congruence.
    + specialize (Ht None). simpl in Ht. now apply TR_same_fp.
  - intros k' t Hk'.
    assert (Hcase : k' = k \/ exists t0, aget k' (p_alts s) = Some t0).
    { destruct (aget k (p_alts s)) eqn:Ek; [right; eauto|].
      destruct (N.eqb_spec k k') as [<-|Hne]; [now left|]. rewrite aget_aput_neq in Hk' by assumption. right; eauto. }
    destruct Hcase as [->|[t0 Ht0]].
    + exists r. split; [rewrite sfind_sput; simpl; rewrite N.eqb_refl; discriminate|].
      unfold vscope. rewrite sget_sput. simpl. now rewrite N.eqb_refl.
    + destruct (Ha k' t0 Ht0) as (r' & A & B). exists r'.
      assert (r <> r') by (intro; subst; contradiction).
      split; [rewrite sfind_sput; simpl; destruct (N.eqb_spec r r'); [contradiction | assumption]|].
      unfold vscope in *. rewrite sget_sput. simpl. destruct (N.eqb_spec r r'); [contradiction | assumption].
Qed.

Lemma refine_finish s sp r : R s sp ->
  exists s', lstep s (LFinish r) = (s', OFin (negb (s_miss (sget r sp))), true) /\ R s' (sdel r sp).
Proof.
  intro HR. pose proof HR as HR0. destruct HR as [Hn Hdd Hd Hs Hk Hkn Ht Ha].
  set (x := sget r sp).
  unfold lstep. destruct (get_tracker_some s sp r HR0) as (t & Hg & Htr & HT). rewrite Hg.
  destruct (TR_finish (vscope sp r) t sp r Hn (scope_eqb_refl _) HT) as [HT' Hall].
  destruct (lt_finish r t) as [all t'] eqn:Efin. simpl in HT', Hall. subst all.
  rewrite (set_tracker_set_tr s sp r _ HR0).
  assert (Edd : p_dedup (set_tr (vscope sp r) t' s) = p_dedup s) by (destruct (vscope sp r); reflexivity).
  rewrite Edd, Hd.
  (* facts shared by both cases *)
  assert (Hsent : forall r', aget r' (adel r (p_sent s)) = norm (s_count (sget r' (sdel r sp)))).
  { intro r'. rewrite sget_sdel. destruct (N.eqb_spec r r') as [<-|Hne].
    - now rewrite aget_adel_eq.
    - rewrite aget_adel_neq by assumption. apply Hs. }
  assert (Hskip : forall r', num (aget r' (adel r (p_skip s))) = s_skip (sget r' (sdel r sp))).
  { intro r'. rewrite sget_sdel. destruct (N.eqb_spec r r') as [<-|Hne].
    - now rewrite aget_adel_eq.
    - rewrite aget_adel_neq by assumption. apply Hk. }
  assert (Hskn : forall r', sfind r' (sdel r sp) = None -> aget r' (adel r (p_skip s)) = None).
  { intros r' Hf. rewrite sfind_sdel in Hf. destruct (N.eqb_spec r r') as [E|Hne].
    - subst r'. apply aget_adel_eq.
    - rewrite aget_adel_neq by assumption. now apply Hkn. }
  assert (Hother : forall k', vscope sp r <> Some k' ->
            match aget k' (p_alts s) with
            | Some t0 => TR (Some k') t0 (sdel r sp)
            | None => forall r', s_scope (sget r' (sdel r sp)) <> Some k'
            end).
  { intros k' Hne. pose proof (Ht (Some k')) as H. simpl in H. destruct (aget k' (p_alts s)) as [t0|].
    - apply TR_del_other; auto. apply fp_other. exact Hne.
    - intro r'. rewrite sget_sdel. destruct (N.eqb r r'); [discriminate | apply H]. }
  assert (Hused : forall k' t0, vscope sp r <> Some k' -> aget k' (p_alts s) = Some t0 ->
            exists r', sfind r' (sdel r sp) <> None /\ vscope (sdel r sp) r' = Some k').
  { intros k' t0 Hne Hk'. destruct (Ha k' t0 Hk') as (r' & A & B). exists r'.
    assert (r <> r') by (intro; subst; contradiction).
    split; [rewrite sfind_sdel | unfold vscope in *; rewrite sget_sdel];
      (destruct (N.eqb_spec r r'); [contradiction | assumption]). }
  destruct (vscope sp r) as [k|] eqn:Ev.
  - (* the request had a dedup key *)
    cbn [set_tr p_main p_alts p_dedup p_sent p_skip].
    set (dd := adel r (p_dedup s)).
    assert (Hdd' : forall r', aget r' dd = vscope (sdel r sp) r').
    { intro r'. unfold dd, vscope. rewrite sget_sdel. destruct (N.eqb_spec r r') as [<-|Hne].
      - now rewrite aget_adel_eq.
      - rewrite aget_adel_neq by assumption. apply Hd. }
    eexists. split; [reflexivity|].
    constructor; cbn [p_main p_alts p_dedup p_sent p_skip]; auto.
    + now apply nodup_sdel.
    + now apply nodup_adel.
    + (* trackers *)
      intro sc. destruct sc as [k'|]; cbn [tr_of p_main p_alts].
      * destruct (N.eqb_spec k k') as [<-|Hne].
        -- destruct (has_value k dd) eqn:Ehv.
           ++ rewrite aget_aput_eq. exact HT'.
           ++ rewrite aget_adel_eq. intros r' E.
              assert (aget r' dd = Some k) by (rewrite Hdd'; exact E).
              apply has_value_of_aget in H. congruence.
        -- assert (Hne' : Some k <> Some k') by congruence.
           specialize (Hother k' Hne').
           destruct (has_value k dd).
           ++ now rewrite aget_aput_neq.
           ++ rewrite aget_adel_neq, aget_aput_neq by assumption. exact Hother.
      * apply TR_del_other; auto; [|exact (Ht None)]. apply fp_other. unfold vscope in Ev. rewrite Ev. discriminate.
    + (* alternate trackers are in use *)
      intros k' t0 Hk'. destruct (N.eqb_spec k k') as [<-|Hne].
      * destruct (has_value k dd) eqn:Ehv.
        -- destruct (aget_of_has_value k dd (nodup_adel r _ Hdd) Ehv) as (r' & Hr').
           exists r'. rewrite Hdd' in Hr'. split; [|exact Hr'].
           intro Hf. unfold vscope, sget in Hr'. rewrite Hf in Hr'. discriminate.
        -- now rewrite aget_adel_eq in Hk'.
      * assert (Hne' : Some k <> Some k') by congruence.
        destruct (has_value k dd).
        -- rewrite aget_aput_neq in Hk' by assumption. eapply Hused; eauto.
        -- rewrite aget_adel_neq, aget_aput_neq in Hk' by assumption. eapply Hused; eauto.
  - (* the request was in the default scope *)
    cbn [set_tr p_main p_alts p_dedup p_sent p_skip].
    eexists. split; [reflexivity|].
    constructor; cbn [p_main p_alts p_dedup p_sent p_skip]; auto.
    + now apply nodup_sdel.
    + intro r'. unfold vscope. rewrite sget_sdel. destruct (N.eqb_spec r r') as [<-|Hne].
      * rewrite Hd. exact Ev.
      * apply Hd.
    + intro sc. destruct sc as [k'|]; cbn [tr_of p_main p_alts].
      * apply Hother. discriminate.
      * exact HT'.
    + intros k' t0 Hk'. eapply Hused; eauto. discriminate.
Qed.

Lemma lstep_refines s sp o sp' out : R s sp -> spec_step sp o = Some (sp', out) ->
  exists s', lstep s o = (s', out, true) /\ R s' sp'.
Proof.
  intros HR Hs. destruct o as [r k|r ls|r n|r l has|r].
  - simpl in Hs. destruct (sfind r sp) eqn:Ef; [discriminate|]. inversion Hs; subst.
    now apply refine_dedup.
  - simpl in Hs. inversion Hs; subst. now apply refine_ignore.
  - simpl in Hs. inversion Hs; subst. eexists. split; [reflexivity|]. now apply refine_skip.
  - destruct (refine_record s sp r l has HR) as (s' & out' & E1 & E2 & E3).
    rewrite Hs in E2, E3. simpl in E2, E3. inversion E2; subst. eauto.
  - simpl in Hs. inversion Hs; subst. now apply refine_finish.
Qed.

Lemma R_init : R plt_new [].
Proof.
  constructor; simpl; try (intros; reflexivity); try constructor.
  - intro sc. destruct sc as [k|]; simpl.
    + intros r. discriminate.
    + constructor; reflexivity.
  - intros k t H. discriminate.
Qed.

Lemma isSome_none_nil (m : list (N * unit)) : (forall r, isSome (aget r m) = false) -> m = [].
Proof.
  intro H. apply aget_none_nil. intro k. specialize (H k). destruct (aget k m); [discriminate | reflexivity].
Qed.

(* once no request is in progress, no tracking state at all is kept *)
Lemma R_empty s : R s [] -> s = plt_new.
Proof.
  intros [Hn Hdd Hd Hs Hk Hkn Ht Ha].
  assert (Ealts : p_alts s = []).
  { apply aget_none_nil. intro k. destruct (aget k (p_alts s)) as [t|] eqn:E; [|reflexivity].
    destruct (Ha k t E) as (r & A & _). simpl in A. congruence. }
  assert (Ededup : p_dedup s = []) by (apply aget_none_nil; intro r; rewrite Hd; reflexivity).
  assert (Esent : p_sent s = []) by (apply aget_none_nil; intro r; rewrite Hs; reflexivity).
  assert (Eskip : p_skip s = []) by (apply aget_none_nil; intro r; apply Hkn; reflexivity).
  pose proof (Ht None) as [T1 T2 T3]. simpl in *.
  assert (E1 : lt_trav (p_main s) = []) by (apply aget_none_nil; intro r; rewrite T1; reflexivity).
  assert (E2 : lt_missing (p_main s) = []) by (apply isSome_none_nil; intro r; rewrite T2; reflexivity).
  assert (E3 : lt_ref (p_main s) = []) by (apply aget_none_nil; intro l; rewrite T3; reflexivity).
  destruct s as [[m tr rf] al dd se sk]. simpl in *. subst. reflexivity.
Qed.

Theorem monitor19_run : forall ops s sp, R s sp ->
  monitor19 sp ops (fst (lrun s ops)) = true /\ (wf_hist sp ops = true -> snd (lrun s ops) = true).
Proof.
  induction ops as [|o ops IH]; intros s sp HR; simpl; [auto|].
  destruct (spec_step sp o) as [[sp' out]|] eqn:Es.
  - destruct (lstep_refines s sp o sp' out HR Es) as (s' & El & HR'). rewrite El.
    destruct (lrun s' ops) as [obsr okr] eqn:Er. simpl.
    destruct (IH s' sp' HR') as [IH1 IH2]. rewrite Er in IH1, IH2. simpl in IH1, IH2.
    split.
    + assert (Eo : lout_eqb out out = true).
      { destruct out; simpl; rewrite ?Bool.eqb_reflx, ?N.eqb_refl; reflexivity. }
      rewrite Eo, IH1. simpl. destruct sp' as [|y sp']; [|reflexivity].
      rewrite (R_empty s' HR'). reflexivity.
    + exact IH2.
  - destruct (lstep s o) as [[s' out] ok]. destruct (lrun s' ops). simpl. split; [reflexivity | discriminate].
Qed.

Lemma c19_monitor ops :
  monitor_C19 ops (fst (lrun plt_new ops)) = true /\ (wf_hist [] ops = true -> snd (lrun plt_new ops) = true).
Proof. exact (monitor19_run ops plt_new [] R_init). Qed.

(* consequences spelled out on model states *)
Definition lreach (ops : list lop) (s : plt) (sp : spec) : Prop :=
  wf_hist [] ops = true /\ s = lfinal plt_new ops /\ R s sp.

Lemma lfinal_R : forall ops s sp, R s sp -> wf_hist sp ops = true -> exists sp', R (lfinal s ops) sp'.
Proof.
  induction ops as [|o ops IH]; intros s sp HR Hw; simpl in *; [eauto|].
  destruct (spec_step sp o) as [[sp' out]|] eqn:Es; [|discriminate].
  destruct (lstep_refines s sp o sp' out HR Es) as (s' & El & HR'). rewrite El. eauto.
Qed.

(* send decision in any reachable state: a block goes out iff it is present, not among the skipped
   leading links, and no request in progress in the same dedup scope holds it *)
Lemma c19_send_iff ops r l has :
  wf_hist [] ops = true ->
  exists sp, R (lfinal plt_new ops) sp /\
    let x := sget r sp in
    snd (fst (lstep (lfinal plt_new ops) (LRecord r l has))) =
      OSend (has && (s_skip x <? s_count x + 1) && negb (held (s_scope x) l sp)) (s_count x + 1).
Proof.
  intro Hw. destruct (lfinal_R ops plt_new [] R_init Hw) as (sp & HR). exists sp. split; [exact HR|].
  destruct (refine_record _ sp r l has HR) as (s' & out & E1 & E2 & _). rewrite E1. simpl in *.
  inversion E2. reflexivity.
Qed.

Fixpoint spec_final (sp : spec) (ops : list lop) : option spec :=
  match ops with
  | [] => Some sp
  | o :: r => match spec_step sp o with Some (sp', _) => spec_final sp' r | None => None end
  end.

Lemma lfinal_R_exact : forall ops s sp sp', R s sp -> spec_final sp ops = Some sp' -> R (lfinal s ops) sp'.
Proof.
  induction ops as [|o ops IH]; intros s sp sp' HR Hf; simpl in *; [inversion Hf; now subst|].
  destruct (spec_step sp o) as [[sp1 out]|] eqn:Es; [|discriminate].
  destruct (lstep_refines s sp o sp1 out HR Es) as (s' & El & HR'). rewrite El. eauto.
Qed.

Lemma c19_idle_no_state ops : spec_final [] ops = Some [] -> lfinal plt_new ops = plt_new.
Proof. intro H. apply R_empty. exact (lfinal_R_exact ops plt_new [] [] R_init H). Qed.
