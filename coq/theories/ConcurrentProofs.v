(* ConcurrentProofs.v — C20: what holds of two requests in flight at once, and the witness of what does not. *)
From Coq Require Import List NArith Bool Lia.
From GS Require Import Base Ltree RecLoader ReqExec.
From GS Require Import LinkTracker LinkTrackerProofs Concurrent.
Import ListNotations.
Open Scope N_scope.

Lemma lrun_app s a b : fst (lrun s (a ++ b)) = fst (lrun s a) ++ fst (lrun (lfinal s a) b).
Proof.
  revert s. induction a as [|o a IH]; intro s; simpl; [reflexivity|].
  destruct (lstep s o) as [[s' out] ok]. specialize (IH s').
  destruct (lrun s' (a ++ b)) as [obs1 ok1]. destruct (lrun s' a) as [obs2 ok2]. simpl in *. now rewrite IH.
Qed.
Lemma lrun_length s a : length (fst (lrun s a)) = length a.
Proof.
  revert s. induction a as [|o a IH]; intro s; simpl; [reflexivity|].
  destruct (lstep s o) as [[s' out] ok]. specialize (IH s'). destruct (lrun s' a) as [obs ok1]. simpl in *. now rewrite IH.
Qed.

(* the calls of one request, alone, leave no state behind *)
Definition rec_ops (r : req) (md : list (cid * bool)) : list lop := map (fun e : cid * bool => LRecord r (fst e) (snd e)) md.
Lemma sget_single r x : s_id x = r -> sget r [x] = x.
Proof. intro H. unfold sget. simpl. now rewrite H, N.eqb_refl. Qed.
Lemma sput_single x y : s_id x = s_id y -> sput y [x] = [y].
Proof. intro H. simpl. now rewrite H, N.eqb_refl. Qed.
Lemma spec_final_records r md x :
  s_id x = r -> exists y, s_id y = r /\ spec_final [x] (rec_ops r md) = Some [y].
Proof.
  revert x. induction md as [|[c h] md IH]; intros x Hx.
  - exists x. split; [exact Hx | reflexivity].
  - cbn [rec_ops map fst snd spec_final spec_step]. rewrite (sget_single r x Hx).
    rewrite sput_single by (simpl; exact Hx). apply IH. reflexivity.
Qed.
Lemma spec_final_app sp a b sp' : spec_final sp a = Some sp' -> spec_final sp (a ++ b) = spec_final sp' b.
Proof.
  revert sp. induction a as [|o a IHa]; intros sp H; simpl in *; [inversion H; reflexivity|].
  destruct (spec_step sp o) as [[sp1 out]|]; [|discriminate]. now apply IHa.
Qed.
Lemma req_ops_plain r md : req_ops r None 0 md = rec_ops r md ++ [LFinish r].
Proof. reflexivity. Qed.
Lemma spec_final_alone r md : spec_final [] (req_ops r None 0 md) = Some [].
Proof.
  rewrite req_ops_plain. destruct md as [|[c h] md]; [reflexivity|].
  change (rec_ops r ((c, h) :: md)) with (LRecord r c h :: rec_ops r md).
  rewrite <- app_comm_cons.
  pose (x := {| s_id := r; s_scope := None; s_with := if h then [] ++ [c] else []; s_miss := false || negb h;
                s_count := 0 + 1; s_skip := 0 |}).
  assert (E0 : spec_final [] (LRecord r c h :: rec_ops r md ++ [LFinish r]) = spec_final [x] (rec_ops r md ++ [LFinish r])) by reflexivity.
  rewrite E0. destruct (spec_final_records r md x eq_refl) as (y & Hy & E).
  rewrite (spec_final_app _ _ [LFinish r] _ E). simpl. rewrite Hy, N.eqb_refl. reflexivity.
Qed.

Lemma decisions_other r r' md outs : r <> r' -> decisions r (req_ops r' None 0 md) outs = [].
Proof.
  intro Hn. unfold req_ops. simpl. revert outs. induction md as [|[c h] md IH]; intro outs; simpl.
  - destruct outs; reflexivity.
  - destruct outs as [|o outs]; [reflexivity|]. destruct (N.eqb_spec r r'); [contradiction|]. apply IH.
Qed.
Lemma decisions_app r a b oa ob : length oa = length a -> decisions r (a ++ b) (oa ++ ob) = decisions r a oa ++ decisions r b ob.
Proof.
  revert oa. induction a as [|x a IH]; intros oa Hl; destruct oa as [|o oa]; simpl in *; try discriminate; [reflexivity|].
  injection Hl as Hl. destruct x; try (apply IH; exact Hl).
  destruct (N.eqb r r0); [simpl; f_equal|]; apply IH; exact Hl.
Qed.

(* what a request receives when it is alone on the responder *)
Definition solo_stream (R : store) (r : req) (t : ltree) : list item :=
  let md := md_of t R in let ops := req_ops r None 0 md in
  zip_items R md (decisions r ops (fst (lrun plt_new ops))).

(* C20, responder side, for every pair of plans and every store: if the responder serves the two requests one
   after the other (the first response's link tracking is finished before the second starts), each receives
   exactly what it would receive alone. *)
Theorem c20_sequential R t1 t2 :
  streams R {| cq_plan := t1; cq_dedup := None |} {| cq_plan := t2; cq_dedup := None |} 0 0 [] =
  (solo_stream R 1 t1, solo_stream R 2 t2).
Proof.
  unfold streams, solo_stream. cbn [merge cq_plan cq_dedup].
  set (a := req_ops 1 None 0 (md_of t1 R)). set (b := req_ops 2 None 0 (md_of t2 R)).
  rewrite lrun_app. rewrite (c19_idle_no_state a (spec_final_alone 1 (md_of t1 R))).
  rewrite !decisions_app by apply lrun_length.
  unfold b at 1. rewrite (decisions_other 1 2) by discriminate.
  unfold a at 3. rewrite (decisions_other 2 1) by discriminate.
  rewrite app_nil_r. reflexivity.
Qed.
