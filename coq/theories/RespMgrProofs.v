(* RespMgrProofs.v — C05: invariants of the responder life-cycle model over ALL label sequences.

   Method.  step_ret_m never sees the traverser position (it only receives "is there another block" as a
   bit), and RespMgr.state without the position is a finite-state system under the code as it is now.
   A set V of states is computed (vm_compute), shown closed under every label x select order x
   "more blocks" bit by computation (closed_ok), and a short induction (reach_in_V) puts the state
   component of every reachable full state — any label sequence, any block count — into V.  Every
   property below is then a decidable predicate checked on the finitely many elements of V (V_forall). *)
From Coq Require Import List NArith Bool FMapPositive Lia.
From GS Require Import Base RespMgr RespMgrReach RespMgrClosed.
Import ListNotations.
Open Scope N_scope.

Opaque V.

Lemma memb_in s : memb s V = true -> In s V_elems.
Proof.
  unfold memb. destruct (PositiveMap.find (hash s) V) as [l|] eqn:F; [|discriminate].
  intro E. apply existsb_exists in E as (x & Hx & Ex). apply state_eqb_eq in Ex. subst x.
  unfold V_elems. apply in_flat_map. exists (hash s, l). split; [|exact Hx].
  apply PositiveMap.elements_correct. exact F.
Qed.

Lemma eff_ord_idem s ord : eff_ord s (eff_ord s ord) = eff_ord s ord.
Proof. unfold eff_ord. destruct (ambiguous s); [lia | reflexivity]. Qed.

Lemma ord_norm c m s lb ord : step_ret_m c m s (lb, ord) = step_ret_m c m s (lb, eff_ord s ord).
Proof. unfold step_ret_m. rewrite eff_ord_idem. reflexivity. Qed.

Lemma eff_ord_in s ord : In (eff_ord s ord) (orders s).
Proof.
  unfold eff_ord, orders. destruct (ambiguous s); [|simpl; tauto].
  destruct (N.le_gt_cases 5 ord) as [H|H].
  - rewrite N.min_r by exact H. simpl; tauto.
  - rewrite N.min_l by lia.
    assert (ord = 0 \/ ord = 1 \/ ord = 2 \/ ord = 3 \/ ord = 4) as [->|[->|[->|[->| ->]]]] by lia; simpl; tauto.
Qed.

Lemma step_nz c m s l : step_ret_m c m (nz s) l = step_ret_m c m s l.
Proof. destruct s, l. reflexivity. Qed.

Lemma step_in_succs m s l : In (nz (fst (step_ret_m cfg_now m s l))) (succs s).
Proof.
  destruct l as [lb ord]. rewrite ord_norm. unfold succs.
  apply in_flat_map. exists lb. split; [apply all_labs_complete|].
  apply in_flat_map. exists (eff_ord s ord). split; [apply eff_ord_in|].
  destruct m; [left | right; left]; reflexivity.
Qed.

Lemma V_step m s l : In s V_elems -> In (nz (fst (step_ret_m cfg_now m s l))) V_elems.
Proof.
  intro H.
  pose proof closed_ok_true as C. unfold closed_ok in C.
  rewrite forallb_forall in C. specialize (C s H). rewrite forallb_forall in C.
  specialize (C _ (step_in_succs m s l)). apply orb_true_iff in C as [C|C].
  - apply state_eqb_eq in C. rewrite C. exact H.
  - apply memb_in. exact C.
Qed.

Lemma fstep_fst n fs l : fst (step cfg_now n fs l) = fst (step_ret_m cfg_now (pos_after (fst fs) (snd fs) l <? n) (fst fs) l).
Proof.
  unfold step, step_ret. destruct fs as [s p]. cbn [fst snd].
  destruct (step_ret_m cfg_now (pos_after s p l <? n) s l) as [s' r]. reflexivity.
Qed.

Lemma reach_from n ls : forall fs, In (nz (fst fs)) V_elems -> In (nz (fst (fold_left (step cfg_now n) ls fs))) V_elems.
Proof.
  induction ls as [|l ls IH]; intros fs H; cbn [fold_left]; [exact H|].
  apply IH. rewrite fstep_fst. rewrite <- step_nz. apply V_step. exact H.
Qed.

(* the state of every reachable full state, minus the last step's notifications, is one of the finitely many in V *)
Theorem reach_in_V n ls : In (nz (fst (run cfg_now n ls))) V_elems.
Proof. apply reach_from. apply memb_in. exact init_in_V. Qed.

Lemma V_forall (P : state -> bool) : (forall s, P (nz s) = P s) ->
  forallb P V_elems = true -> forall n ls, P (fst (run cfg_now n ls)) = true.
Proof. intros E H n ls. rewrite forallb_forall in H. rewrite <- E. apply H. apply reach_in_V. Qed.

(* the same for one more step from a reachable state (properties of a step's notifications) *)
Lemma V_forall_step (P : state -> lab -> state -> bool) : (forall s lb s', P (nz s) lb s' = P s lb s') ->
  forallb (fun s => forallb (fun lb => forallb (fun ord => forallb (fun m =>
     P s lb (fst (step_ret_m cfg_now m s (lb, ord)))) [true; false]) (orders s)) all_labs) V_elems = true ->
  forall n ls l, P (fst (run cfg_now n ls)) (fst l) (fst (step cfg_now n (run cfg_now n ls) l)) = true.
Proof.
  intros E H n ls [lb ord]. rewrite fstep_fst. rewrite <- step_nz. rewrite ord_norm. rewrite <- E.
  rewrite forallb_forall in H. specialize (H _ (reach_in_V n ls)).
  rewrite forallb_forall in H. specialize (H lb (all_labs_complete lb)).
  rewrite forallb_forall in H. specialize (H _ (eff_ord_in _ ord)).
  rewrite forallb_forall in H. cbn [fst].
  apply H. destruct (pos_after _ _ _ <? n); [left | right; left]; reflexivity.
Qed.

(* ---------- the properties, as decidable predicates on states ---------- *)

Definition has_ent (s : state) : bool := match ent s with Some _ => true | None => false end.

(* SAFETY *)
(* Protect is called once, by the new request; Unprotect once, exactly when the entry goes *)
Definition p_protect (s : state) : bool :=
  (nprot s =? (if seen s then 1 else 0)) && (unprot s =? (if seen s && negb (has_ent s) then 1 else 0)) &&
  (seen s || negb (has_ent s)).
(* completed + cancelled notifications: at most one in total; one has been given => the entry is gone *)
Definition p_once (s : state) : bool := (n_done s <=? 1) && implb (n_done s =? 1) (negb (has_ent s)).
(* network-error notifications: exactly one per failed send of a message of this request *)
Definition p_neterr (s : state) : bool := n_net s =? n_fail s.
(* a final status waiting to be sent belongs to an entry in CompletingSend, and vice versa *)
Definition termo (o : option N) : bool := match o with Some m => is_term m | None => false end.
Definition fin_none (s : state) : bool := match fin s with None => true | Some _ => false end.
(* (or to an executor that queued it and is parked before its FinishTask call) *)
Definition p_completing (s : state) : bool :=
  implb (st_code s =? 4) (termo (infl s) || termo (pend s)) &&
  implb (termo (infl s) || termo (pend s)) ((st_code s =? 4) || negb (fin_none s)).
(* once the executor is out of a response that is gone, no task of it is active or pending *)
Definition p_task (s : state) : bool :=
  implb (seen s && negb (has_ent s) && gate_free s && fin_none s && negb (stk s)) (tq s =? 0).
(* a block hook is only ever running for a response that is Running; a worker parked before StartTask holds
   the active task of a response that is not Running *)
Definition p_exec (s : state) : bool :=
  implb (negb (gate_free s)) (st_code s =? 2) && implb (stk s) ((tq s =? 2) && negb (st_code s =? 2) && gate_free s && fin_none s).
(* after a network-error outcome the stream is closed and nothing of the request is in flight or queued *)
Definition p_afternet (s : state) : bool :=
  implb (1 <=? n_net s) (closed s && (match infl s with None => true | Some _ => false end) && (match pend s with None => true | Some _ => false end)).
Definition stall_none (s : state) : bool := match stall s with None => true | Some _ => false end.
Definition p_safety (s : state) : bool := p_afternet s && p_protect s && p_once s && p_neterr s && p_completing s && p_task s && p_exec s.

(* QUIESCENCE: nothing parked in a block hook, no task queued or active, nothing in flight, not paused *)
Definition quiescent (s : state) : bool :=
  gate_free s && fin_none s && stall_none s && (tq s =? 0) && (match infl s with None => true | Some _ => false end) && negb (st_code s =? 3).
Definition p_retired (s : state) : bool :=
  implb (seen s && quiescent s)
        (negb (has_ent s) && (nprot s =? 1) && (unprot s =? 1) && (1 <=? n_done s + n_net s) &&
         (match pend s with None => true | Some _ => false end)).

(* per step: a completed notification carries the terminal status of the message whose send just
   succeeded; network-error notifications only for a failed send; the completed/cancelled count grows by
   exactly the notifications of the step; and an entry that is gone stays gone *)
Definition ev_ok (s : state) (lb : lab) (e : ev) : bool :=
  match e with
  | EvCompleted c => match lb, infl s with LSend true, Some m => (m =? c) && is_term c | _, _ => false end
  | EvNetErr => match lb with LSend false => true | _ => false end
  | EvCancelled | EvProcessing => true
  end.
Definition is_done_ev (e : ev) : bool := match e with EvCompleted _ | EvCancelled => true | _ => false end.
Definition p_step (s : state) (lb : lab) (s' : state) : bool :=
  forallb (ev_ok s lb) (evs s') &&
  (n_done s' =? n_done s + N.of_nat (length (filter is_done_ev (evs s')))) &&
  implb (seen s && negb (has_ent s)) (negb (has_ent s')).

(* PROGRESS: which label moves a request that is not yet retired: the parked hook returns, the message in
   flight is resolved, the worker is freed — or the assumed "a paused response is eventually unpaused" *)
Definition progress_lab (s : state) : option lab :=
  match gate s with
  | Some _ => Some (LGate GCont)
  | None => if negb (stall_none s) then Some LMemFree else if stk s then Some LStart else
            match fin s, infl s with
            | Some _, _ => Some LFinish
            | None, Some _ => Some (LSend true)
            | None, None => if held s then Some LRelease
                      else if st_code s =? 3 then Some LApiUnpause else None
            end
  end.
Definition p_nostuck (s : state) : bool :=
  implb (seen s && has_ent s) (match progress_lab s with Some _ => true | None => false end).

Lemma safety_V : forallb p_safety V_elems = true.
Proof. vm_compute. reflexivity. Qed.
Lemma retired_V : forallb p_retired V_elems = true.
Proof. vm_compute. reflexivity. Qed.
Lemma nostuck_V : forallb p_nostuck V_elems = true.
Proof. vm_compute. reflexivity. Qed.
Lemma step_V : forallb (fun s => forallb (fun lb => forallb (fun ord => forallb (fun m =>
     p_step s lb (fst (step_ret_m cfg_now m s (lb, ord)))) [true; false]) (orders s)) all_labs) V_elems = true.
Proof. vm_compute. reflexivity. Qed.

Theorem c05_safety n ls : p_safety (fst (run cfg_now n ls)) = true.
Proof. apply V_forall; [intros []; reflexivity | exact safety_V]. Qed.
Theorem c05_retired n ls : p_retired (fst (run cfg_now n ls)) = true.
Proof. apply V_forall; [intros []; reflexivity | exact retired_V]. Qed.
Theorem c05_nostuck n ls : p_nostuck (fst (run cfg_now n ls)) = true.
Proof. apply V_forall; [intros []; reflexivity | exact nostuck_V]. Qed.
Theorem c05_step n ls l : p_step (fst (run cfg_now n ls)) (fst l) (fst (step cfg_now n (run cfg_now n ls) l)) = true.
Proof. apply (V_forall_step p_step); [intros [] ? ?; reflexivity | exact step_V]. Qed.
