(* C06Guard.v — the guard of the general C06 requestor theorem, executable; a case-level check for the
   driver's pause cases.  Definitions only. *)
From Coq Require Import List NArith Bool.
From GS Require Import Base Ltree RecLoader ReqExec PauseExec C02Prefix C02Contig.
Import ListNotations.
Open Scope N_scope.

(* No link below a link the responder lacks is ever loaded from the local store: the reference traversal,
   store threaded ([here] = the responder's own traversal reaches this position).  When it fails, the resumed
   request's do-not-send-first-blocks value (successful loads so far) may exceed the number of entries of the
   new response that the Verifier replays, and a needed block is withheld (the C02-F1 mechanism, now reachable
   in the middle of a traversal). *)
Fixpoint nlb_tree (R : store) (t : ltree) (here : bool) (st : store) : bool :=
  match t with
  | LNode p c body =>
      match aget c st, (if here then aget c R else None) with
      | _, Some b => nlb_items R body true (aput c b st)
      | Some _, None => here && nlb_items R body false st
      | None, None => true
      end
  end
with nlb_items (R : store) (l : items) (here : bool) (st : store) : bool :=
  match l with
  | INil => true
  | IVisit _ r => nlb_items R r here st
  | IChild t r => nlb_tree R t here st && nlb_items R r here (fst (ref_tree R t here st))
  end.
Definition no_local_below_missing (t : ltree) (L R : store) : bool := nlb_tree R t true L.

Definition drained_all (pauses : list pause) : bool := forallb (fun pa => Nat.eqb (pa_inflight pa) 0) pauses.

(* the guards of C06_pause_after_send_guarded on a pause case of the driver *)
Definition pcase_guards (c : pcase) : bool :=
  let L := store_of (pc_L c) in let R := store_of (pc_R c) in
  wf_plan (pc_plan c) && contiguous (pc_plan c) &&
  (match aget (root_cid (pc_plan c)) R with Some _ => true | None => false end) &&
  no_local_below_missing (pc_plan c) L R.
(* inside the guards a pause with drained resume must not change the outcome *)
Definition pcase_mon_guarded (c : pcase) : bool := negb (pcase_guards c && pc_safe c) || pcase_mon c.
