(* TaskQueueInv.v — the structural invariant of the task-queue model (C21): inside one peer a topic is
   queued or active at most once, task identities are unique and below the next stamp, every running
   worker holds an active task of its peer, different workers hold different tasks, and the active work
   of all trackers together is the number of running workers.  Preserved by every label. *)
From Coq Require Import List NArith ZArith Bool Arith Lia Permutation.
From GS Require Import Base TaskQueue TaskQueueProofs TaskQueueLive.
Import ListNotations.
Open Scope N_scope.

(* ---------- views: what a peer has queued / active (an absent tracker = an empty one) ---------- *)
Definition trk_of (trk : trackers) (p : peer) : tracker :=
  match aget p trk with Some t => t | None => tr_new end.
Definition pendT (trk : trackers) (p : peer) : list task := tr_pending (trk_of trk p).
Definition actT (trk : trackers) (p : peer) : list task := tr_active (trk_of trk p).
Definition sum_act (trk : trackers) : nat := fold_right (fun qt acc => (nact (snd qt) + acc)%nat) O trk.

Lemma trk_of_aput_eq trk p t : trk_of (aput p t trk) p = t.
Proof. unfold trk_of. now rewrite aget_aput_eq. Qed.
Lemma trk_of_aput_neq trk p q t : p <> q -> trk_of (aput p t trk) q = trk_of trk q.
Proof. intro H. unfold trk_of. now rewrite aget_aput_neq. Qed.
Lemma trk_of_adel_eq trk p : trk_of (adel p trk) p = tr_new.
Proof. unfold trk_of. now rewrite aget_adel_eq. Qed.
Lemma trk_of_adel_neq trk p q : p <> q -> trk_of (adel p trk) q = trk_of trk q.
Proof. intro H. unfold trk_of. now rewrite aget_adel_neq. Qed.

Lemma trk_of_thaw trk p :
  tr_pending (trk_of (thaw_round trk) p) = tr_pending (trk_of trk p) /\
  tr_active (trk_of (thaw_round trk) p) = tr_active (trk_of trk p).
Proof.
  unfold trk_of, thaw_round.
  rewrite (aget_map_snd (fun qt => if Nat.eqb (tr_freeze (snd qt)) 0 then snd qt else thaw (snd qt))).
  destruct (aget p trk) as [t|]; simpl; [|auto]. destruct (Nat.eqb (tr_freeze t) 0); auto.
Qed.

Lemma thaw_round_keys trk : map fst (thaw_round trk) = map fst trk.
Proof. unfold thaw_round. rewrite map_map. reflexivity. Qed.

Lemma sum_act_thaw trk : sum_act (thaw_round trk) = sum_act trk.
Proof.
  induction trk as [|[q t] r IH]; simpl; [reflexivity|]. rewrite IH.
  destruct (Nat.eqb (tr_freeze t) 0); reflexivity.
Qed.

Lemma sum_act_aput trk p t :
  (sum_act (aput p t trk) + nact (trk_of trk p) = sum_act trk + nact t)%nat.
Proof.
  unfold trk_of. induction trk as [|[q u] r IH]; simpl.
  - unfold nact; simpl. lia.
  - destruct (N.eqb_spec p q); simpl; lia.
Qed.

Lemma sum_act_adel trk p :
  NoDup (map fst trk) -> (sum_act (adel p trk) + nact (trk_of trk p) = sum_act trk)%nat.
Proof.
  unfold trk_of, adel. induction trk as [|[q u] r IH]; simpl; intro H.
  - reflexivity.
  - inversion H; subst. destruct (N.eqb_spec q p) as [->|Hn]; simpl.
    + rewrite N.eqb_refl.
      assert (E : filter (fun x => negb (fst x =? p)) r = r).
      { apply filter_all. intros [a b] Hab. simpl. destruct (N.eqb_spec a p) as [->|]; [|reflexivity].
        exfalso. apply H2. change p with (fst (p, b)). now apply in_map. }
      rewrite E. lia.
    + destruct (N.eqb_spec p q); [congruence|]. specialize (IH H3). lia.
Qed.

(* ---------- one tracker's part of the invariant ---------- *)
Definition tr_wf (nx : N) (pe ac : list task) : Prop :=
  NoDup (map t_topic (pe ++ ac)) /\ NoDup (map t_id (pe ++ ac)) /\ (forall x, In x (pe ++ ac) -> t_id x < nx).

Lemma tr_wf_nil nx : tr_wf nx [] [].
Proof. repeat split; simpl; try constructor. intros x []. Qed.

Lemma tr_wf_mono nx nx' pe ac : nx <= nx' -> tr_wf nx pe ac -> tr_wf nx' pe ac.
Proof. intros Hle (H1 & H2 & H3). repeat split; auto. intros x Hx. specialize (H3 x Hx). lia. Qed.

Lemma has_topic_In tp l : has_topic tp l = true <-> In tp (map t_topic l).
Proof.
  unfold has_topic. rewrite existsb_exists, in_map_iff. split.
  - intros (x & Hx & E). apply N.eqb_eq in E. eauto.
  - intros (x & E & Hx). exists x. split; [exact Hx | now apply N.eqb_eq].
Qed.

Lemma nodup_map_inj {A B} (f : A -> B) l x y :
  NoDup (map f l) -> In x l -> In y l -> f x = f y -> x = y.
Proof.
  induction l as [|a r IH]; simpl; intros Hn Hx Hy E; [contradiction|]. inversion Hn; subst.
  destruct Hx as [->|Hx], Hy as [->|Hy]; auto.
  - exfalso. apply H1. rewrite E. now apply in_map.
  - exfalso. apply H1. rewrite <- E. now apply in_map.
Qed.

Lemma nodup_map_filter_l {A B} (f : A -> B) (g : A -> bool) l1 l2 :
  NoDup (map f (l1 ++ l2)) -> NoDup (map f (filter g l1 ++ l2)).
Proof.
  induction l1 as [|a r IH]; simpl; intro H; [exact H|]. inversion H; subst.
  destruct (g a); simpl; [|now apply IH]. constructor; [|now apply IH].
  intro Hin. apply H2. rewrite map_app, in_app_iff in Hin |- *. destruct Hin as [Hin|Hin]; [left | now right].
  apply in_map_iff in Hin as (z & Ez & Hz). apply filter_In in Hz as [Hz _]. rewrite <- Ez. now apply in_map.
Qed.

Lemma nodup_map_filter_r {A B} (f : A -> B) (g : A -> bool) l1 l2 :
  NoDup (map f (l1 ++ l2)) -> NoDup (map f (l1 ++ filter g l2)).
Proof.
  induction l1 as [|a r IH]; simpl; intro H.
  - replace (filter g l2) with (filter g l2 ++ []) by apply app_nil_r.
    apply nodup_map_filter_l. now rewrite app_nil_r.
  - inversion H; subst. constructor; [|now apply IH].
    intro Hin. apply H2. rewrite map_app, in_app_iff in Hin |- *. destruct Hin as [Hin|Hin]; [now left | right].
    apply in_map_iff in Hin as (z & Ez & Hz). apply filter_In in Hz as [Hz _]. rewrite <- Ez. now apply in_map.
Qed.

(* PushTasksTruncated keeps it (fresh identity [nx]) *)
Lemma prio_map_topic tp prio l :
  map t_topic (map (fun x => if N.eqb (t_topic x) tp
                             then (if Z.ltb (t_prio x) prio then {| t_id := t_id x; t_topic := t_topic x; t_prio := prio |} else x)
                             else x) l) = map t_topic l.
Proof.
  induction l as [|x r IH]; simpl; [reflexivity|]. rewrite IH. f_equal.
  destruct (N.eqb (t_topic x) tp); [|reflexivity]. destruct (Z.ltb (t_prio x) prio); reflexivity.
Qed.
Lemma prio_map_id tp prio l :
  map t_id (map (fun x => if N.eqb (t_topic x) tp
                          then (if Z.ltb (t_prio x) prio then {| t_id := t_id x; t_topic := t_topic x; t_prio := prio |} else x)
                          else x) l) = map t_id l.
Proof.
  induction l as [|x r IH]; simpl; [reflexivity|]. rewrite IH. f_equal.
  destruct (N.eqb (t_topic x) tp); [|reflexivity]. destruct (Z.ltb (t_prio x) prio); reflexivity.
Qed.

Lemma tr_wf_push nx tp prio t t' c :
  tr_wf nx (tr_pending t) (tr_active t) -> tr_push nx tp prio t = (t', c) ->
  tr_wf (if c then nx + 1 else nx) (tr_pending t') (tr_active t') /\ tr_active t' = tr_active t /\ tr_freeze t' = tr_freeze t /\
  (c = false -> map t_topic (tr_pending t') = map t_topic (tr_pending t) /\ length (tr_pending t') = length (tr_pending t)) /\
  (c = true -> tr_pending t' = tr_pending t ++ [{| t_id := nx; t_topic := tp; t_prio := prio |}] /\
               has_topic tp (tr_pending t) = false /\ has_topic tp (tr_active t) = false) /\
  (c = false -> has_topic tp (tr_pending t) = true \/ has_topic tp (tr_active t) = true).
Proof.
  intros Hwf. unfold tr_push.
  destruct (has_topic tp (tr_active t)) eqn:Ea.
  { intro H; inversion H; subst. split; [exact Hwf|].
    split; [reflexivity|]. split; [reflexivity|]. split; [intros _; split; reflexivity|].
    split; [discriminate|]. intros _. now right. }
  destruct (has_topic tp (tr_pending t)) eqn:Ep; intro H; inversion H; subst; clear H; simpl.
  - destruct Hwf as (H1 & H2 & H3).
    split; [|split; [reflexivity|]; split; [reflexivity|]; split; [|split; [discriminate|]]].
    + repeat split.
      * rewrite map_app, prio_map_topic, <- map_app. exact H1.
      * rewrite map_app, prio_map_id, <- map_app. exact H2.
      * intros y Hy. apply in_app_iff in Hy as [Hy|Hy].
        -- apply in_map_iff in Hy as (x & Ex & Hx). assert (Hb : t_id x < nx) by (apply H3; apply in_app_iff; now left).
           destruct (N.eqb (t_topic x) tp); [|subst; lia]. destruct (Z.ltb (t_prio x) prio); subst; simpl; lia.
        -- assert (t_id y < nx) by (apply H3; apply in_app_iff; now right). lia.
    + intros _. split; [apply prio_map_topic | now rewrite map_length].
    + intros _. now left.
  - destruct Hwf as (H1 & H2 & H3).
    set (nw := {| t_id := nx; t_topic := tp; t_prio := prio |}).
    assert (Hperm : Permutation (nw :: tr_pending t ++ tr_active t) ((tr_pending t ++ [nw]) ++ tr_active t)).
    { rewrite <- app_assoc. simpl. apply Permutation_middle. }
    split; [|split; [reflexivity|]; split; [reflexivity|]; split; [discriminate|]; split; [|discriminate]].
    + repeat split.
      * eapply Permutation_NoDup; [apply Permutation_map; exact Hperm|]. simpl. constructor; [|exact H1].
        rewrite map_app, in_app_iff. intros [Hi|Hi]; apply has_topic_In in Hi; congruence.
      * eapply Permutation_NoDup; [apply Permutation_map; exact Hperm|]. simpl. constructor; [|exact H2].
        intro Hi. apply in_map_iff in Hi as (x & Ex & Hx). specialize (H3 x Hx). lia.
      * intros y Hy. apply (Permutation_in _ (Permutation_sym Hperm)) in Hy. destruct Hy as [<-|Hy]; [simpl; lia|].
        specialize (H3 y Hy). lia.
    + intros _. repeat split; reflexivity.
Qed.

Lemma tr_wf_remove nx tp pe ac : tr_wf nx pe ac -> tr_wf nx (del_topic tp pe) ac.
Proof.
  intros (H1 & H2 & H3). unfold del_topic. repeat split.
  - now apply nodup_map_filter_l.
  - now apply nodup_map_filter_l.
  - intros x Hx. apply H3. apply in_app_iff in Hx as [Hx|Hx]; apply in_app_iff; [left | now right].
    now apply filter_In in Hx as [Hx _].
Qed.

Lemma tr_wf_done nx i pe ac : tr_wf nx pe ac -> tr_wf nx pe (del_id i ac).
Proof.
  intros (H1 & H2 & H3). unfold del_id. repeat split.
  - now apply nodup_map_filter_r.
  - now apply nodup_map_filter_r.
  - intros x Hx. apply H3. apply in_app_iff in Hx as [Hx|Hx]; apply in_app_iff; [now left | right].
    now apply filter_In in Hx as [Hx _].
Qed.

Lemma perm_del_id l b : NoDup (map t_id l) -> In b l -> Permutation (b :: del_id (t_id b) l) l.
Proof.
  unfold del_id. induction l as [|x r IH]; simpl; intros Hn Hin; [contradiction|]. inversion Hn; subst.
  destruct Hin as [->|Hin].
  - rewrite N.eqb_refl. simpl.
    assert (E : filter (fun t => negb (t_id t =? t_id b)) r = r).
    { apply filter_all. intros y Hy. destruct (N.eqb_spec (t_id y) (t_id b)) as [E|]; [|reflexivity].
      exfalso. apply H1. rewrite <- E. now apply in_map. }
    rewrite E. apply Permutation_refl.
  - destruct (N.eqb_spec (t_id x) (t_id b)) as [E|E]; simpl.
    + exfalso. apply H1. rewrite E. now apply in_map.
    + eapply perm_trans; [apply perm_swap|]. constructor. apply IH; assumption.
Qed.

Lemma nodup_app_l {A} (a b : list A) : NoDup (a ++ b) -> NoDup a.
Proof. induction a as [|x a IH]; simpl; intro H; [constructor|]. inversion H; subst. constructor; [|auto]. intro; apply H2; apply in_app_iff; now left. Qed.
Lemma nodup_app_r {A} (a b : list A) : NoDup (a ++ b) -> NoDup b.
Proof. induction a as [|x a IH]; simpl; intro H; [exact H|]. inversion H; subst. auto. Qed.

Lemma tr_wf_pop nx pe ac b :
  tr_wf nx pe ac -> In b pe -> tr_wf nx (del_id (t_id b) pe) (ac ++ [b]).
Proof.
  intros (H1 & H2 & H3) Hin.
  assert (Hnp : NoDup (map t_id pe)) by (rewrite map_app in H2; now apply nodup_app_l in H2).
  assert (Hperm : Permutation (del_id (t_id b) pe ++ ac ++ [b]) (pe ++ ac)).
  { eapply perm_trans; [|apply Permutation_app_tail; apply (perm_del_id pe b Hnp Hin)].
    simpl. eapply perm_trans; [apply Permutation_app_head; apply Permutation_app_comm|].
    simpl. apply Permutation_sym. apply Permutation_middle. }
  repeat split.
  - eapply Permutation_NoDup; [apply Permutation_map; apply Permutation_sym; exact Hperm | exact H1].
  - eapply Permutation_NoDup; [apply Permutation_map; apply Permutation_sym; exact Hperm | exact H2].
  - intros x Hx. apply H3. eapply Permutation_in; eauto.
Qed.

(* ---------- the invariant ---------- *)
Record wf (trk : trackers) (ws : list wstate) (nx : N) : Prop := {
  wf_keys : NoDup (map fst trk);
  wf_peer : forall p, tr_wf nx (pendT trk p) (actT trk p);
  wf_held : forall w p x, nth_error ws w = Some (WRunning p x) -> In x (actT trk p);
  wf_dist : forall w w' p x p' x', w <> w' -> nth_error ws w = Some (WRunning p x) ->
              nth_error ws w' = Some (WRunning p' x') -> (p, t_id x) <> (p', t_id x');
  wf_count : sum_act trk = length (filter is_running ws)
}.
Definition wf_s (s : state) : Prop := wf (st_trk s) (st_w s) (st_next s).

Lemma trk_of_some trk p t : aget p trk = Some t -> trk_of trk p = t.
Proof. unfold trk_of. now intros ->. Qed.

Lemma tr_idle_true t : tr_idle t = true -> tr_pending t = [] /\ tr_active t = [].
Proof. unfold tr_idle. destruct (tr_pending t); [|discriminate]. destruct (tr_active t); [auto | discriminate]. Qed.
Lemma tr_idle_false t : tr_active t <> [] -> tr_idle t = false.
Proof. unfold tr_idle. destruct (tr_pending t); destruct (tr_active t); congruence. Qed.

Lemma running_upd ws w old new :
  nth_error ws w = Some old ->
  (length (filter is_running (upd w new ws)) + (if is_running old then 1 else 0)
   = length (filter is_running ws) + (if is_running new then 1 else 0))%nat.
Proof.
  revert w; induction ws as [|y r IH]; intros [|w]; simpl; intro H; try discriminate.
  - inversion H; subst. destruct (is_running old), (is_running new); simpl; lia.
  - specialize (IH _ H). destruct (is_running y); simpl; lia.
Qed.

Lemma wf_thaw trk ws nx : wf trk ws nx -> wf (thaw_round trk) ws nx.
Proof.
  intros [K P H D C]. constructor.
  - now rewrite thaw_round_keys.
  - intro p. unfold pendT, actT. destruct (trk_of_thaw trk p) as [-> ->]. apply P.
  - intros w p x Hw. unfold actT. destruct (trk_of_thaw trk p) as [_ ->]. eapply H; eauto.
  - exact D.
  - now rewrite sum_act_thaw.
Qed.

(* what PopTasks does to the views *)
Lemma pop_tasks_spec cfg trk top trk' o :
  NoDup (map fst trk) -> pop_tasks cfg trk top = Some (trk', o) ->
  NoDup (map fst trk') /\
  match o with
  | None => (forall q, pendT trk' q = pendT trk q /\ actT trk' q = actT trk q) /\ sum_act trk' = sum_act trk
  | Some (p, b) =>
      In b (pendT trk p) /\ best (pendT trk p) = Some b /\ tr_freeze (trk_of trk p) = O /\
      (c_maxpp cfg = O \/ (length (actT trk p) < c_maxpp cfg)%nat) /\
      pendT trk' p = del_id (t_id b) (pendT trk p) /\ actT trk' p = actT trk p ++ [b] /\
      (forall q, q <> p -> pendT trk' q = pendT trk q /\ actT trk' q = actT trk q) /\
      sum_act trk' = S (sum_act trk)
  end.
Proof.
  intros Hk. unfold pop_tasks. destruct top as [p|].
  2:{ destruct trk; [|discriminate]. intro H; inversion H; subst. split; [constructor|]. split; auto. }
  destruct (is_top trk p); [|discriminate].
  destruct (aget p trk) as [t|] eqn:Et; [|discriminate].
  destruct (tr_pop (c_maxpp cfg) t) as [o1 t1] eqn:Ep. intro H; inversion H; subst; clear H.
  pose proof (trk_of_some _ _ _ Et) as Eof.
  destruct (tr_pop_cases _ _ _ _ Ep) as [[-> ->] | (b & -> & Eb & Hfz & Hlim & ->)].
  - destruct (tr_idle t) eqn:Ei.
    + apply tr_idle_true in Ei as [Ei1 Ei2]. split; [now apply nodup_adel|]. split.
      * intro q. unfold pendT, actT. destruct (N.eqb_spec p q) as [<-|Hn].
        -- rewrite trk_of_adel_eq, Eof. simpl. now rewrite Ei1, Ei2.
        -- now rewrite trk_of_adel_neq.
      * pose proof (sum_act_adel trk p Hk) as Hs. rewrite Eof in Hs. unfold nact in Hs. rewrite Ei2 in Hs. simpl in Hs. lia.
    + split; [now apply nodup_aput|]. split.
      * intro q. unfold pendT, actT. destruct (N.eqb_spec p q) as [<-|Hn].
        -- now rewrite trk_of_aput_eq, Eof.
        -- now rewrite trk_of_aput_neq.
      * pose proof (sum_act_aput trk p t) as Hs. rewrite Eof in Hs. lia.
  - rewrite tr_idle_false by (simpl; destruct (tr_active t); discriminate).
    split; [now apply nodup_aput|]. unfold pendT, actT. rewrite Eof, trk_of_aput_eq. simpl.
    split; [now apply best_in|]. split; [exact Eb|]. split; [exact Hfz|]. split; [exact Hlim|].
    split; [reflexivity|]. split; [reflexivity|]. split.
    + intros q Hq. rewrite trk_of_aput_neq by congruence. auto.
    + match goal with |- sum_act (aput p ?t' trk) = _ => pose proof (sum_act_aput trk p t') as Hs end.
      rewrite Eof in Hs. unfold nact in Hs. simpl in Hs. rewrite app_length in Hs. simpl in Hs. unfold nact. lia.
Qed.

Lemma nodup_map_app_disj {A B} (f : A -> B) l1 l2 a c :
  NoDup (map f (l1 ++ l2)) -> In a l1 -> In c l2 -> f a <> f c.
Proof.
  intros Hn Ha Hc E. assert (a = c) by (eapply nodup_map_inj; eauto; apply in_app_iff; auto). subst c.
  rewrite map_app in Hn. induction l1 as [|x r IH]; [contradiction|]. simpl in Hn. inversion Hn; subst.
  destruct Ha as [->|Ha].
  - apply H1. apply in_app_iff. right. now apply in_map.
  - now apply IH.
Qed.

(* a worker that was not executing acts on the result of PopTasks *)
Lemma wf_after_pop cfg trk ws nx w old top trk' o :
  wf trk ws nx -> nth_error ws w = Some old -> is_running old = false ->
  pop_tasks cfg trk top = Some (trk', o) ->
  wf trk' (upd w (match o with Some (p, x) => WRunning p x | None => WWaiting end) ws) nx.
Proof.
  intros [K P H D C] Hw Hold Hpop.
  assert (Hwlt : (w < length ws)%nat) by (apply nth_error_Some; congruence).
  destruct (pop_tasks_spec _ _ _ _ _ K Hpop) as [K' Hspec].
  destruct o as [[p b]|].
  - destruct Hspec as (Hin & _ & _ & _ & Ep & Ea & Hoth & Hsum).
    constructor.
    + exact K'.
    + intro q. destruct (N.eq_dec q p) as [->|Hn].
      * rewrite Ep, Ea. now apply tr_wf_pop.
      * destruct (Hoth q Hn) as [-> ->]. apply P.
    + intros w' q x Hw'. destruct (Nat.eq_dec w w') as [<-|Hne].
      * rewrite nth_error_upd_eq in Hw' by exact Hwlt. inversion Hw'; subst. rewrite Ea. apply in_app_iff. right. now left.
      * rewrite nth_error_upd_neq in Hw' by exact Hne. specialize (H _ _ _ Hw').
        destruct (N.eq_dec q p) as [->|Hn]; [rewrite Ea; apply in_app_iff; now left | now destruct (Hoth q Hn) as [_ ->]].
    + intros w1 w2 q x q' x' Hne H1 H2.
      assert (Hfresh : forall w' q' x', w' <> w -> nth_error ws w' = Some (WRunning q' x') -> (p, t_id b) <> (q', t_id x')).
      { intros w' q0 x0 Hw0 Hn0 E. inversion E; subst q0. specialize (H _ _ _ Hn0).
        destruct (P p) as (_ & Hids & _). eapply (nodup_map_app_disj t_id _ _ b x0 Hids Hin H). congruence. }
      destruct (Nat.eq_dec w w1) as [<-|Hw1]; destruct (Nat.eq_dec w w2) as [<-|Hw2]; try congruence.
      * rewrite nth_error_upd_eq in H1 by exact Hwlt. rewrite nth_error_upd_neq in H2 by exact Hw2. inversion H1; subst.
        eapply Hfresh; eauto.
      * rewrite nth_error_upd_eq in H2 by exact Hwlt. rewrite nth_error_upd_neq in H1 by exact Hw1. inversion H2; subst.
        intro E. symmetry in E. revert E. eapply Hfresh; eauto.
      * rewrite nth_error_upd_neq in H1 by exact Hw1. rewrite nth_error_upd_neq in H2 by exact Hw2. exact (D w1 w2 q x q' x' Hne H1 H2).
    + pose proof (running_upd ws w old (WRunning p b) Hw) as Hr. rewrite Hold in Hr. simpl in Hr. lia.
  - destruct Hspec as (Hv & Hsum). constructor.
    + exact K'.
    + intro q. destruct (Hv q) as [-> ->]. apply P.
    + intros w' q x Hw'. destruct (Nat.eq_dec w w') as [<-|Hne].
      * rewrite nth_error_upd_eq in Hw' by exact Hwlt. discriminate.
      * rewrite nth_error_upd_neq in Hw' by exact Hne. destruct (Hv q) as [_ ->]. eapply H; eauto.
    + intros w1 w2 q x q' x' Hne H1 H2.
      destruct (Nat.eq_dec w w1) as [<-|Hw1]; [rewrite nth_error_upd_eq in H1 by exact Hwlt; discriminate|].
      destruct (Nat.eq_dec w w2) as [<-|Hw2]; [rewrite nth_error_upd_eq in H2 by exact Hwlt; discriminate|].
      rewrite nth_error_upd_neq in H1 by exact Hw1. rewrite nth_error_upd_neq in H2 by exact Hw2. exact (D w1 w2 q x q' x' Hne H1 H2).
    + pose proof (running_upd ws w old WWaiting Hw) as Hr. rewrite Hold in Hr. simpl in Hr. lia.
Qed.

Lemma wf_init w : wf_s (init w).
Proof.
  constructor; simpl.
  - constructor.
  - intro p. apply tr_wf_nil.
  - intros j p x H. exfalso. apply nth_error_In in H. apply repeat_spec in H. discriminate.
  - intros j j' p x p' x' _ H. exfalso. apply nth_error_In in H. apply repeat_spec in H. discriminate.
  - induction w as [|w IH]; simpl; auto.
Qed.

Lemma after_pop_w s w sig r :
  st_w (fst (after_pop s w sig r)) = upd w (match snd r with Some (p, x) => WRunning p x | None => WWaiting end) (st_w s)
  /\ st_next (fst (after_pop s w sig r)) = st_next s.
Proof. unfold after_pop. destruct (snd r) as [[p x]|]; simpl; auto. Qed.

Theorem step_wf cfg s l s' e : wf_s s -> step cfg s l = Some (s', e) -> wf_s s'.
Proof.
  intros Hwf. pose proof Hwf as [K P H D C]. unfold wf_s in *. destruct l; simpl.
  - (* push *)
    change (match aget p (st_trk s) with Some t => t | None => tr_new end) with (trk_of (st_trk s) p).
    destruct (tr_push (st_next s) tp prio (trk_of (st_trk s) p)) as [t' c] eqn:Ep.
    intro E; inversion E; subst; clear E; simpl.
    destruct (tr_wf_push _ _ _ _ _ _ (P p) Ep) as (Hw' & Ha & _).
    assert (Hle : st_next s <= (if c then st_next s + 1 else st_next s)) by (destruct c; lia).
    assert (Hact : forall q, actT (aput p t' (st_trk s)) q = actT (st_trk s) q).
    { intro q. unfold actT. destruct (N.eq_dec p q) as [<-|Hn]; [now rewrite trk_of_aput_eq | now rewrite trk_of_aput_neq]. }
    constructor.
    + now apply nodup_aput.
    + intro q. destruct (N.eq_dec p q) as [<-|Hn].
      * unfold pendT, actT. rewrite trk_of_aput_eq. exact Hw'.
      * unfold pendT, actT. rewrite trk_of_aput_neq by exact Hn. eapply tr_wf_mono; [exact Hle | apply P].
    + intros j q x Hj. rewrite Hact. eapply H; eauto.
    + exact D.
    + pose proof (sum_act_aput (st_trk s) p t') as Hs. unfold nact in Hs. rewrite Ha in Hs. lia.
  - (* remove *)
    destruct (aget p (st_trk s)) as [t|] eqn:Et; [|intro E; inversion E; subst; exact Hwf].
    destruct (has_topic tp (tr_pending t)); intro E; inversion E; subst; clear E; [|exact Hwf]. simpl.
    pose proof (trk_of_some _ _ _ Et) as Eof.
    match goal with |- wf (aput p ?t1 _) _ _ => set (t' := t1) end.
    assert (Hact : forall q, actT (aput p t' (st_trk s)) q = actT (st_trk s) q).
    { intro q. unfold actT. destruct (N.eq_dec p q) as [<-|Hn]; [rewrite trk_of_aput_eq, Eof; reflexivity | now rewrite trk_of_aput_neq]. }
    constructor.
    + now apply nodup_aput.
    + intro q. destruct (N.eq_dec p q) as [<-|Hn].
      * unfold pendT, actT. rewrite trk_of_aput_eq. simpl. specialize (P p). unfold pendT, actT in P. rewrite Eof in P.
        now apply tr_wf_remove.
      * unfold pendT, actT. rewrite trk_of_aput_neq by exact Hn. apply P.
    + intros j q x Hj. rewrite Hact. eapply H; eauto.
    + exact D.
    + pose proof (sum_act_aput (st_trk s) p t') as Hs. rewrite Eof in Hs. unfold nact in Hs. simpl in Hs. lia.
  - (* pop at the loop top *)
    destruct (nth_error (st_w s) w) as [[| |]|] eqn:Ew; try discriminate.
    destruct (pop_tasks cfg (st_trk s) top) as [[trk' o]|] eqn:Epop; [|discriminate]. intro E.
    assert (Es : s' = fst (after_pop s w (st_sig s) (trk', o))) by (inversion E as [E1]; rewrite E1; reflexivity).
    rewrite Es. destruct (after_pop_w s w (st_sig s) (trk', o)) as [-> ->]. rewrite after_pop_trk. simpl.
    eapply wf_after_pop; eauto.
  - destruct (nth_error (st_w s) w) as [[| |]|] eqn:Ew; try discriminate.
    destruct (st_sig s); [|discriminate].
    destruct (pop_tasks cfg (st_trk s) top) as [[trk' o]|] eqn:Epop; [|discriminate]. intro E.
    assert (Es : s' = fst (after_pop s w false (trk', o))) by (inversion E as [E1]; rewrite E1; reflexivity).
    rewrite Es. destruct (after_pop_w s w false (trk', o)) as [-> ->]. rewrite after_pop_trk. simpl.
    eapply wf_after_pop; eauto.
  - destruct (nth_error (st_w s) w) as [[| |]|] eqn:Ew; try discriminate.
    destruct (pop_tasks cfg (thaw_round (st_trk s)) top) as [[trk' o]|] eqn:Epop; [|discriminate]. intro E.
    assert (Es : s' = fst (after_pop s w (st_sig s) (trk', o))) by (inversion E as [E1]; rewrite E1; reflexivity).
    rewrite Es. destruct (after_pop_w s w (st_sig s) (trk', o)) as [-> ->]. rewrite after_pop_trk. simpl.
    eapply wf_after_pop; [apply wf_thaw; exact Hwf | exact Ew | reflexivity | exact Epop].
  - (* done *)
    destruct (nth_error (st_w s) w) as [[| |p x]|] eqn:Ew; try discriminate.
    intro E; inversion E; subst; clear E; simpl.
    assert (Hwlt : (w < length (st_w s))%nat) by (apply nth_error_Some; congruence).
    pose proof (H _ _ _ Ew) as Hx.
    destruct (aget p (st_trk s)) as [t|] eqn:Et.
    2:{ exfalso. unfold actT, trk_of in Hx. rewrite Et in Hx. exact Hx. }
    pose proof (trk_of_some _ _ _ Et) as Eof.
    unfold actT in Hx. rewrite Eof in Hx.
    assert (Hids : NoDup (map t_id (tr_active t))).
    { destruct (P p) as (_ & Hi & _). unfold pendT, actT in Hi. rewrite Eof, map_app in Hi. now apply nodup_app_r in Hi. }
    constructor.
    + now apply nodup_aput.
    + intro q. destruct (N.eq_dec p q) as [<-|Hn].
      * unfold pendT, actT. rewrite trk_of_aput_eq. simpl. specialize (P p). unfold pendT, actT in P. rewrite Eof in P.
        now apply tr_wf_done.
      * unfold pendT, actT. rewrite trk_of_aput_neq by exact Hn. apply P.
    + intros j q y Hj. destruct (Nat.eq_dec w j) as [<-|Hne].
      * rewrite nth_error_upd_eq in Hj by exact Hwlt. discriminate.
      * rewrite nth_error_upd_neq in Hj by exact Hne. pose proof (H _ _ _ Hj) as Hy.
        unfold actT in *. destruct (N.eq_dec p q) as [<-|Hn].
        -- rewrite trk_of_aput_eq. simpl. rewrite Eof in Hy. unfold del_id. apply filter_In. split; [exact Hy|].
           apply negb_true_iff. apply N.eqb_neq. intro Eid.
           apply (D w j p x p y Hne Ew Hj). now rewrite Eid.
        -- now rewrite trk_of_aput_neq.
    + intros w1 w2 q y q' y' Hne H1 H2.
      destruct (Nat.eq_dec w w1) as [<-|Hw1]; [rewrite nth_error_upd_eq in H1 by exact Hwlt; discriminate|].
      destruct (Nat.eq_dec w w2) as [<-|Hw2]; [rewrite nth_error_upd_eq in H2 by exact Hwlt; discriminate|].
      rewrite nth_error_upd_neq in H1 by exact Hw1. rewrite nth_error_upd_neq in H2 by exact Hw2.
      exact (D w1 w2 q y q' y' Hne H1 H2).
    + pose proof (sum_act_aput (st_trk s) p (tr_done x t)) as Hs. rewrite Eof in Hs. unfold nact, tr_done in Hs. simpl in Hs.
      pose proof (del_id_length _ _ Hids Hx) as Hl.
      pose proof (running_upd (st_w s) w (WRunning p x) WReady Ew) as Hr. simpl in Hr. unfold tr_done. lia.
Qed.

Theorem run_wf cfg ls : forall s s' e, wf_s s -> run cfg s ls = Some (s', e) -> wf_s s'.
Proof.
  induction ls as [|l ls IH]; simpl; intros s s' e Hwf Hr.
  - inversion Hr; subst; exact Hwf.
  - destruct (step cfg s l) as [[s1 e1]|] eqn:E1; [|discriminate].
    destruct (run cfg s1 ls) as [[s2 e2]|] eqn:E2; [|discriminate]. inversion Hr; subst.
    eapply IH; [|exact E2]. eapply step_wf; eauto.
Qed.
