(* ResponderProofs.v — C03 (responder output mirrors its own selector traversal) and the responder
   half of C24, over the model of Responder.v.  The link tracker is used only through the refinement
   theorem of C19 (LinkTrackerProofs.lstep_refines / lfinal_R_exact). *)
From Coq Require Import List NArith Bool Lia.
From GS Require Import Base Ltree LinkTracker LinkTrackerProofs Responder.
Import ListNotations.
Open Scope N_scope.

(* ------------------------------------------------------------------------------------------ *)
(* 1. The recorded SendResponse calls are the plan's link loads over the store, in order        *)

Lemma md_app a b : md_of_events (a ++ b) = md_of_events a ++ md_of_events b.
Proof.
  induction a as [|e a IH]; simpl; [reflexivity|].
  destruct e as [p c an|v]; [|exact IH].
  destruct an as [| |er]; simpl; try (now rewrite IH).
  destruct er as [|code]; [exact IH|].
  destruct code as [|pc]; [exact IH|].
  destruct pc as [pc|pc|]; try exact IH.
  destruct pc; try exact IH. simpl. now rewrite IH.
Qed.

Lemma rrun_plain (R : cid -> sres) :
  (forall t acc, let '(_, evs, ok) := run_tree (plain_ask R) t tt in
                 run_tree (load_ask true R) t acc = (acc ++ md_of_events evs, evs, ok)) /\
  (forall l acc, let '(_, evs, ok) := run_items (plain_ask R) l tt in
                 run_items (load_ask true R) l acc = (acc ++ md_of_events evs, evs, ok)).
Proof.
  apply ltree_items_ind.
  - intros p c body IH acc. rewrite !run_tree_node. unfold plain_ask at 1, load_ask at 1.
    destruct (R c); simpl.
    + specialize (IH (acc ++ [(c, true)])).
      destruct (run_items (plain_ask R) body tt) as [[u evs] ok]. rewrite IH. simpl.
      now rewrite <- app_assoc.
    + specialize (IH (acc ++ [(c, true)])).
      destruct (run_items (plain_ask R) body tt) as [[u evs] ok]. rewrite IH. simpl.
      now rewrite <- app_assoc.
    + reflexivity.
    + now rewrite app_nil_r.
    + reflexivity.
  - intro acc. simpl. now rewrite app_nil_r.
  - intros v rest IH acc. rewrite !run_items_visit. specialize (IH acc).
    destruct (run_items (plain_ask R) rest tt) as [[u evs] ok]. rewrite IH. reflexivity.
  - intros t IHt rest IHr acc. rewrite !run_items_child. specialize (IHt acc).
    destruct (run_tree (plain_ask R) t tt) as [[u e1] ok1]. rewrite IHt. destruct u.
    destruct ok1.
    + specialize (IHr (acc ++ md_of_events e1)).
      destruct (run_items (plain_ask R) rest tt) as [[u e2] ok2]. rewrite IHr.
      now rewrite md_app, app_assoc.
    + reflexivity.
Qed.

(* the repaired responder: recorded calls = metadata of the plain run; same events, same outcome *)
Lemma rrun_is_plain R t :
  rrun true R t = (md_of_events (fst (plain_run R t)), fst (plain_run R t), snd (plain_run R t)).
Proof.
  unfold rrun, plain_run. pose proof (proj1 (rrun_plain R) t []) as H.
  destruct (run_tree (plain_ask R) t tt) as [[u evs] ok]. simpl in *. exact H.
Qed.

(* ------------------------------------------------------------------------------------------ *)
(* 2. Running the tracker model along a global operation list                                   *)

Definition louts_from (s : plt) (ops : list lop) : list lout := map lo_out (fst (lrun s ops)).

Lemma lrun_cons s o r :
  lrun s (o :: r) =
  (let '(s', out, ok) := lstep s o in
   let '(obsr, okr) := lrun s' r in
   ({| lo_out := out; lo_sizes := sizes s' |} :: obsr, ok && okr)).
Proof. reflexivity. Qed.

Lemma louts_from_cons s o r s' out ok : lstep s o = (s', out, ok) ->
  louts_from s (o :: r) = out :: louts_from s' r.
Proof.
  intro E. unfold louts_from. rewrite lrun_cons, E. destruct (lrun s' r). reflexivity.
Qed.

Lemma lfinal_cons s o r s' out ok : lstep s o = (s', out, ok) -> lfinal s (o :: r) = lfinal s' r.
Proof. intro E. simpl. now rewrite E. Qed.

Lemma louts_from_length s ops : length (louts_from s ops) = length ops.
Proof.
  revert s. induction ops as [|o r IH]; intro s; [reflexivity|].
  destruct (lstep s o) as [[s' out] ok] eqn:E. rewrite (louts_from_cons _ _ _ _ _ _ E). simpl. now rewrite IH.
Qed.

Lemma louts_from_app s a b : louts_from s (a ++ b) = louts_from s a ++ louts_from (lfinal s a) b.
Proof.
  revert s. induction a as [|o a IH]; intro s; [reflexivity|].
  destruct (lstep s o) as [[s' out] ok] eqn:E. cbn [app].
  rewrite (louts_from_cons _ _ _ _ _ _ E), (louts_from_cons _ _ _ _ _ _ E). cbn [lfinal]. rewrite E, IH.
  reflexivity.
Qed.

Lemma louts_eq ops : louts ops = louts_from plt_new ops.
Proof. reflexivity. Qed.

Lemma wf_hist_app sp a b : wf_hist sp (a ++ b) = true ->
  exists sp', spec_final sp a = Some sp' /\ wf_hist sp' b = true.
Proof.
  revert sp. induction a as [|o a IH]; intros sp H; simpl in *; [eauto|].
  destruct (spec_step sp o) as [[sp1 out]|]; [|discriminate]. now apply IH.
Qed.

(* the answer of the tracker at a position of a well-formed execution is the specification's *)
Lemma out_at pre o post : wf_hist [] (pre ++ o :: post) = true ->
  exists sp sp' out, spec_final [] pre = Some sp /\ spec_step sp o = Some (sp', out) /\
    R (lfinal plt_new pre) sp /\ nth (length pre) (louts (pre ++ o :: post)) ONone = out.
Proof.
  intro Hw. destruct (wf_hist_app _ _ _ Hw) as (sp & Hf & Hw2).
  simpl in Hw2. destruct (spec_step sp o) as [[sp' out]|] eqn:Es; [|discriminate].
  pose proof (lfinal_R_exact pre plt_new [] sp R_init Hf) as HR.
  destruct (lstep_refines _ _ _ _ _ HR Es) as (s' & El & HR').
  exists sp, sp', out. split; [exact Hf|]. split; [exact Es|]. split; [exact HR|].
  rewrite louts_eq, louts_from_app, app_nth2 by (rewrite louts_from_length; lia).
  rewrite louts_from_length, PeanoNat.Nat.sub_diag, (louts_from_cons _ _ _ _ _ _ El). reflexivity.
Qed.

(* ------------------------------------------------------------------------------------------ *)
(* 3. A request's own record in the specification state depends on its own operations only      *)

Definition upd (o : lop) (x : sreq) : sreq :=
  match o with
  | LDedup r k => {| s_id := r; s_scope := Some k; s_with := []; s_miss := false; s_count := 0; s_skip := 0 |}
  | LIgnore r ls => {| s_id := r; s_scope := s_scope x; s_with := s_with x ++ ls; s_miss := s_miss x;
                       s_count := s_count x; s_skip := s_skip x |}
  | LSkip r n => {| s_id := r; s_scope := s_scope x; s_with := s_with x; s_miss := s_miss x;
                    s_count := s_count x; s_skip := n |}
  | LRecord r l has => {| s_id := r; s_scope := s_scope x;
                          s_with := if has then s_with x ++ [l] else s_with x;
                          s_miss := s_miss x || negb has; s_count := s_count x + 1; s_skip := s_skip x |}
  | LFinish r => sfresh r
  end.

Lemma sget_step sp o sp' out r : spec_step sp o = Some (sp', out) ->
  sget r sp' = if N.eqb (req_of o) r then upd o (sget r sp) else sget r sp.
Proof.
  destruct o as [q k|q ls|q n|q l has|q]; simpl; intro H.
  - destruct (sfind q sp); [discriminate|]. inversion H; subst. rewrite sget_sput. simpl.
    destruct (N.eqb q r); reflexivity.
  - inversion H; subst. rewrite sget_sput. simpl. destruct (N.eqb_spec q r); [subst|]; reflexivity.
  - inversion H; subst. rewrite sget_sput. simpl. destruct (N.eqb_spec q r); [subst|]; reflexivity.
  - inversion H; subst. rewrite sget_sput. simpl. destruct (N.eqb_spec q r); [subst|]; reflexivity.
  - inversion H; subst. rewrite sget_sdel. destruct (N.eqb_spec q r); [subst|]; reflexivity.
Qed.

Lemma own_cons r o ops : own r (o :: ops) = if N.eqb (req_of o) r then o :: own r ops else own r ops.
Proof. reflexivity. Qed.
Lemma own_app r a b : own r (a ++ b) = own r a ++ own r b.
Proof. unfold own. apply filter_app. Qed.

Lemma own_state r : forall pre sp0 sp, spec_final sp0 pre = Some sp ->
  sget r sp = fold_left (fun x o => upd o x) (own r pre) (sget r sp0).
Proof.
  induction pre as [|o pre IH]; intros sp0 sp H; simpl in H.
  - inversion H. reflexivity.
  - destruct (spec_step sp0 o) as [[sp1 out]|] eqn:Es; [|discriminate].
    rewrite (IH _ _ H), (sget_step _ _ _ _ r Es), own_cons.
    destruct (N.eqb (req_of o) r); reflexivity.
Qed.

(* the state a request reaches by its extensions and its first link loads *)
Definition ign (q : rreq) : list cid := match rq_ignore q with Some ls => ls | None => [] end.
Definition skipv (q : rreq) : N := match rq_skip q with Some n => n | None => 0 end.
Definition present (recs : list (cid * bool)) : list cid := map fst (filter snd recs).
Definition any_missing (recs : list (cid * bool)) : bool := existsb (fun x => negb (snd x)) recs.

Lemma fold_recs r : forall recs x,
  fold_left (fun x o => upd o x) (rec_ops r recs) x =
  {| s_id := match recs with [] => s_id x | _ => r end; s_scope := s_scope x;
     s_with := s_with x ++ present recs; s_miss := s_miss x || any_missing recs;
     s_count := s_count x + N.of_nat (length recs); s_skip := s_skip x |}.
Proof.
  induction recs as [|[c h] recs IH]; intro x; simpl.
  - rewrite app_nil_r, orb_false_r, N.add_0_r. destruct x; reflexivity.
  - unfold rec_ops in IH. rewrite IH. simpl. f_equal.
    + destruct recs; reflexivity.
    + unfold present. simpl. destruct h; simpl; [now rewrite <- app_assoc | reflexivity].
    + unfold any_missing. simpl. now rewrite orb_assoc.
    + lia.
Qed.

Lemma fold_ext q :
  fold_left (fun x o => upd o x) (ext_ops q) (sfresh (rq_id q)) =
  {| s_id := rq_id q; s_scope := rq_dedup q; s_with := ign q; s_miss := false; s_count := 0; s_skip := skipv q |}.
Proof.
  unfold ext_ops, ign, skipv, sfresh.
  destruct (rq_dedup q), (rq_ignore q), (rq_skip q); reflexivity.
Qed.

Lemma own_state_at q recs1 :
  fold_left (fun x o => upd o x) (ext_ops q ++ rec_ops (rq_id q) recs1) (sfresh (rq_id q)) =
  {| s_id := rq_id q; s_scope := rq_dedup q; s_with := ign q ++ present recs1; s_miss := any_missing recs1;
     s_count := N.of_nat (length recs1); s_skip := skipv q |}.
Proof.
  rewrite fold_left_app, fold_ext, fold_recs. simpl. f_equal. now destruct recs1.
Qed.

(* a link is held in a scope either by the request itself or by another request in progress *)
Lemma held_split r sc l : forall sp, NoDup (ids sp) ->
  held sc l sp =
  (scope_eqb (s_scope (sget r sp)) sc && existsb (N.eqb l) (s_with (sget r sp))) || held sc l (sdel r sp).
Proof.
  induction sp as [|y sp IH]; intro Hn.
  - unfold sget. simpl. now rewrite andb_false_r.
  - inversion Hn as [|? ? Hnot Hn']; subst. specialize (IH Hn').
    unfold sget, sdel in *. simpl. destruct (N.eqb_spec (s_id y) r) as [E|E]; simpl.
    + assert (Hf : sfind r sp = None) by (apply sfind_none; now rewrite <- E).
      fold (sdel r sp). rewrite (sdel_none _ _ Hf). reflexivity.
    + unfold held in *. simpl. rewrite IH.
      destruct (scope_eqb (s_scope y) sc && existsb (N.eqb l) (s_with y));
        destruct (match sfind r sp with Some x => x | None => sfresh r end) as [i s w m c k]; simpl;
        destruct (scope_eqb s sc && existsb (N.eqb l) w); reflexivity.
Qed.

(* ------------------------------------------------------------------------------------------ *)
(* 4. The wire messages of a request inside a global execution                                   *)

Definition wire_gen (fs : bool -> N) (r : req) (s : plt) (ops : list lop) : list wmsg :=
  flat_map (fun x => if N.eqb (req_of (fst x)) r then msg_of fs (fst x) (snd x) else [])
           (combine ops (louts_from s ops)).

Lemma wire_is_gen fx R q ops :
  wire fx R q ops = wire_gen (final_status (snd (fst (rrun fx R (rq_plan q)))) (snd (rrun fx R (rq_plan q))))
                             (rq_id q) plt_new ops.
Proof. unfold wire, wire_gen, louts, louts_from. destruct (rrun fx R (rq_plan q)) as [[recs evs] ok]. reflexivity. Qed.

Lemma wire_gen_cons fs r s o rest s' out ok : lstep s o = (s', out, ok) ->
  wire_gen fs r s (o :: rest) =
  (if N.eqb (req_of o) r then msg_of fs o out else []) ++ wire_gen fs r s' rest.
Proof. intro E. unfold wire_gen. rewrite (louts_from_cons _ _ _ _ _ _ E). reflexivity. Qed.

Lemma wire_gen_app fs r s a b :
  wire_gen fs r s (a ++ b) = wire_gen fs r s a ++ wire_gen fs r (lfinal s a) b.
Proof.
  revert s. induction a as [|o a IH]; intro s; [reflexivity|].
  destruct (lstep s o) as [[s' out] ok] eqn:E. cbn [app].
  rewrite (wire_gen_cons _ _ _ _ _ _ _ _ E), (wire_gen_cons _ _ _ _ _ _ _ _ E). cbn [lfinal]. rewrite E, IH.
  now rewrite app_assoc.
Qed.

Definition recs_of (ops : list lop) : list (cid * bool) :=
  flat_map (fun o => match o with LRecord _ c h => [(c, h)] | _ => [] end) ops.

(* metadata on the wire = the request's own SendResponse calls, whatever the others do *)
Lemma wire_md fs r : forall ops s sp, R s sp -> wf_hist sp ops = true ->
  concat (map wm_md (wire_gen fs r s ops)) = recs_of (own r ops).
Proof.
  induction ops as [|o ops IH]; intros s sp HR Hw; [reflexivity|].
  simpl in Hw. destruct (spec_step sp o) as [[sp' out]|] eqn:Es; [|discriminate].
  destruct (lstep_refines _ _ _ _ _ HR Es) as (s' & El & HR').
  rewrite (wire_gen_cons _ _ _ _ _ _ _ _ El), own_cons, map_app, concat_app, (IH _ _ HR' Hw).
  destruct (N.eqb (req_of o) r); [|reflexivity].
  destruct o as [q k|q ls|q n|q l has|q]; simpl in Es.
  - destruct (sfind q sp); [discriminate|]. inversion Es; subst. reflexivity.
  - inversion Es; subst. reflexivity.
  - inversion Es; subst. reflexivity.
  - inversion Es; subst. reflexivity.
  - inversion Es; subst. reflexivity.
Qed.

Lemma recs_of_app a b : recs_of (a ++ b) = recs_of a ++ recs_of b.
Proof. unfold recs_of. apply flat_map_app. Qed.
Lemma recs_of_rec_ops r recs : recs_of (rec_ops r recs) = recs.
Proof. induction recs as [|[c h] recs IH]; simpl; [reflexivity | now rewrite IH]. Qed.
Lemma recs_of_ext q : recs_of (ext_ops q) = [].
Proof. unfold ext_ops. destruct (rq_dedup q), (rq_ignore q), (rq_skip q); reflexivity. Qed.

(* ------------------------------------------------------------------------------------------ *)
(* 5. C03                                                                                        *)

(* (1) metadata: for every plan, store, extension combination and every interleaving with other
   requests of the peer, the request's metadata concatenated over its messages is exactly one entry
   per link load of the plan run over the store, in that order, marked present or missing *)
Theorem c03_metadata (R : cid -> sres) q ops :
  wf_hist [] ops = true -> own (rq_id q) ops = own_ops true R q ->
  concat (map wm_md (wire true R q ops)) = md_of_events (fst (plain_run R (rq_plan q))).
Proof.
  intros Hw Ho. rewrite wire_is_gen, (wire_md _ _ ops plt_new [] R_init Hw), Ho.
  unfold own_ops. rewrite !recs_of_app, recs_of_ext, recs_of_rec_ops, rrun_is_plain. simpl.
  now rewrite app_nil_r.
Qed.

(* the send decision spelled out *)
Definition decision (q : rreq) (recs1 : list (cid * bool)) (c : cid) (h : bool) (others : spec) : bool :=
  h && (skipv q <? N.of_nat (length recs1) + 1) && negb (existsb (N.eqb c) (ign q)) &&
  negb (existsb (N.eqb c) (present recs1)) && negb (held (rq_dedup q) c others).

(* (2) blocks: the (|recs1|+1)-th link load of the request, wherever it falls in the peer's execution,
   is answered by one message carrying its metadata entry and — in that same message — the block iff
   the block is present, its index is beyond the skip count, it is not in the ignore set, the request
   has not traversed it as present before, and no OTHER request in progress in the same dedup scope
   holds it (C19's specification state, this request removed) *)
Theorem c03_blocks (R : cid -> sres) q pre c h post recs1 :
  let r := rq_id q in
  let ops := pre ++ LRecord r c h :: post in
  wf_hist [] ops = true ->
  own r pre = ext_ops q ++ rec_ops r recs1 ->
  exists sp, spec_final [] pre = Some sp /\
    let d := decision q recs1 c h (sdel r sp) in
    let k := N.of_nat (length recs1) + 1 in
    nth (length pre) (louts ops) ONone = OSend d k /\
    exists w1 w2, wire true R q ops = w1 ++ rec_msg r c h d k :: w2 /\ concat (map wm_md w1) = recs1.
Proof.
  intros r ops Hw Ho.
  destruct (out_at pre (LRecord r c h) post Hw) as (sp & sp' & out & Hf & Es & HR & Hn).
  exists sp. split; [exact Hf|].
  assert (Hx : sget r sp = {| s_id := r; s_scope := rq_dedup q; s_with := ign q ++ present recs1;
                              s_miss := any_missing recs1; s_count := N.of_nat (length recs1); s_skip := skipv q |}).
  { rewrite (own_state r pre [] sp Hf), Ho. apply own_state_at. }
  assert (Eout : out = OSend (decision q recs1 c h (sdel r sp)) (N.of_nat (length recs1) + 1)).
  { simpl in Es. inversion Es; subst sp' out. rewrite Hx. simpl. f_equal.
    rewrite (held_split r (rq_dedup q) c sp (r_nodup _ _ HR)), Hx. simpl.
    rewrite scope_eqb_refl, existsb_app. simpl. unfold decision.
    rewrite !negb_orb, !andb_assoc. reflexivity. }
  cbv zeta. split; [unfold ops; rewrite Hn; exact Eout|].
  destruct (wf_hist_app _ _ _ Hw) as (sp0 & Hf0 & Hw2). rewrite Hf in Hf0. inversion Hf0; subst sp0.
  destruct (lstep_refines _ _ _ _ _ HR Es) as (s' & El & HR').
  rewrite wire_is_gen. unfold ops. rewrite wire_gen_app, (wire_gen_cons _ _ _ _ _ _ _ _ El). simpl req_of.
  fold r. rewrite N.eqb_refl, Eout. simpl msg_of.
  eexists _, _. split; [reflexivity|].
  assert (Hwpre : wf_hist [] pre = true).
  { clear -Hf. revert Hf. generalize (@nil sreq). induction pre as [|o pre IH]; intros sp0 H; simpl in *; [reflexivity|].
    destruct (spec_step sp0 o) as [[sp1 out]|]; [|discriminate]. now apply IH. }
  rewrite (wire_md _ r pre plt_new [] R_init Hwpre). fold r in Ho. rewrite Ho.
  now rewrite recs_of_app, recs_of_ext, recs_of_rec_ops.
Qed.

(* (3) final status: the closing message of the request, wherever it falls, carries
   content-not-found iff the root was missing, complete-full iff no visited link was missing,
   complete-partial otherwise (failed-unknown iff the store failed hard) *)
Definition expected_status (R : cid -> sres) (t : ltree) : N :=
  let '(evs, ok) := plain_run R t in final_status evs ok (forallb snd (md_of_events evs)).

Lemma forallb_any_missing recs : negb (any_missing recs) = forallb snd recs.
Proof.
  unfold any_missing. induction recs as [|[c h] recs IH]; simpl; [reflexivity|].
  rewrite negb_orb, negb_involutive, IH. reflexivity.
Qed.

Theorem c03_status (R : cid -> sres) q pre post :
  let r := rq_id q in
  let ops := pre ++ LFinish r :: post in
  wf_hist [] ops = true ->
  own r pre = ext_ops q ++ rec_ops r (md_of_events (fst (plain_run R (rq_plan q)))) ->
  exists w1 w2, wire true R q ops = w1 ++ fin_msg r (expected_status R (rq_plan q)) :: w2 /\
    concat (map wm_md w1) = md_of_events (fst (plain_run R (rq_plan q))).
Proof.
  intros r ops Hw Ho. set (recs := md_of_events (fst (plain_run R (rq_plan q)))) in *.
  assert (Est : final_status (snd (fst (rrun true R (rq_plan q)))) (snd (rrun true R (rq_plan q))) (forallb snd recs) =
                expected_status R (rq_plan q)).
  { rewrite rrun_is_plain. simpl. unfold expected_status, recs. destruct (plain_run R (rq_plan q)); reflexivity. }
  destruct (out_at pre (LFinish r) post Hw) as (sp & sp' & out & Hf & Es & HR & Hn).
  assert (Hx : sget r sp = {| s_id := r; s_scope := rq_dedup q; s_with := ign q ++ present recs;
                              s_miss := any_missing recs; s_count := N.of_nat (length recs); s_skip := skipv q |}).
  { rewrite (own_state r pre [] sp Hf), Ho. apply own_state_at. }
  assert (Eout : out = OFin (forallb snd recs)).
  { simpl in Es. inversion Es; subst sp' out. rewrite Hx. simpl. now rewrite forallb_any_missing. }
  destruct (lstep_refines _ _ _ _ _ HR Es) as (s' & El & HR').
  rewrite wire_is_gen. unfold ops. rewrite wire_gen_app, (wire_gen_cons _ _ _ _ _ _ _ _ El). simpl req_of.
  fold r. rewrite N.eqb_refl, Eout. simpl msg_of. rewrite Est.
  eexists _, _. split; [reflexivity|].
  assert (Hwpre : wf_hist [] pre = true).
  { clear -Hf. revert Hf. generalize (@nil sreq). induction pre as [|o pre IH]; intros sp0 H; simpl in *; [reflexivity|].
    destruct (spec_step sp0 o) as [[sp1 out]|]; [|discriminate]. now apply IH. }
  rewrite (wire_md _ r pre plt_new [] R_init Hwpre). fold r in Ho. rewrite Ho.
  now rewrite recs_of_app, recs_of_ext, recs_of_rec_ops.
Qed.

(* the status rule, read off the plan *)
Lemma expected_status_rule R t :
  let '(evs, ok) := plain_run R t in
  let md := md_of_events evs in
  (expected_status R t = st_not_found <-> ok = true /\ root_skipped evs = true) /\
  (expected_status R t = st_full <-> ok = true /\ root_skipped evs = false /\ forallb snd md = true) /\
  (expected_status R t = st_partial <-> ok = true /\ root_skipped evs = false /\ forallb snd md = false) /\
  (expected_status R t = st_failed_unknown <-> ok = false).
Proof.
  unfold expected_status. destruct (plain_run R t) as [evs ok]. unfold final_status.
  destruct ok, (root_skipped evs), (forallb snd (md_of_events evs)); simpl;
    repeat split; intros; try discriminate; try tauto;
    repeat match goal with H : _ /\ _ |- _ => destruct H end; try discriminate; auto.
Qed.

(* when the root is missing the traversal consists of that one load: one Missing entry, no block *)
Lemma root_missing_run R p c body :
  R c = RMissing -> plain_run R (LNode p c body) = ([ELoad p c ASkip], true).
Proof. intro H. unfold plain_run. rewrite run_tree_node. unfold plain_ask. now rewrite H. Qed.

Lemma root_skipped_iff R p c body :
  root_skipped (fst (plain_run R (LNode p c body))) = true <-> R c = RMissing.
Proof.
  unfold plain_run. rewrite run_tree_node. unfold plain_ask.
  destruct (R c) eqn:E; simpl;
    try (destruct (run_items _ body tt) as [[u evs] ok]; simpl);
    split; intro H; try discriminate H; try reflexivity.
Qed.

(* ------------------------------------------------------------------------------------------ *)
(* 6. C24, responder half                                                                        *)

(* no block at an index the requestor asked to skip, none from the ignore set, none without data *)
Lemma c24_never_skipped q recs1 c h others :
  decision q recs1 c h others = true ->
  h = true /\ skipv q < N.of_nat (length recs1) + 1 /\ ~ In c (ign q).
Proof.
  unfold decision. intro H. repeat (apply andb_true_iff in H; destruct H as [H ?]).
  repeat split; auto.
  - now apply N.ltb_lt.
  - intro Hin. apply existsb_eqb_in' in Hin. rewrite Hin in *. discriminate.
Qed.

(* no block twice within one request: once a load of c was answered with the block, every later
   load of c by the same request is answered without it, whatever the other requests do *)
Lemma c24_never_twice q recs c h2 others :
  In (c, true) recs -> decision q recs c h2 others = false.
Proof.
  intro Hin. unfold decision.
  assert (E : existsb (N.eqb c) (present recs) = true).
  { apply existsb_eqb_in'. unfold present.
    apply in_map_iff. exists (c, true). split; [reflexivity|]. apply filter_In. auto. }
  rewrite E. simpl. now rewrite andb_false_r.
Qed.

Theorem c24_responder (R : cid -> sres) q pre1 c h1 mid h2 post recs1 recsm :
  let r := rq_id q in
  let ops := pre1 ++ LRecord r c h1 :: mid ++ LRecord r c h2 :: post in
  wf_hist [] ops = true ->
  own r pre1 = ext_ops q ++ rec_ops r recs1 ->
  own r mid = rec_ops r recsm ->
  forall d1 k1, nth (length pre1) (louts ops) ONone = OSend d1 k1 ->
  (d1 = true -> skipv q < k1) /\
  (d1 = true -> exists k2, nth (length (pre1 ++ LRecord r c h1 :: mid)) (louts ops) ONone = OSend false k2).
Proof.
  intros r ops Hw Ho1 Hom d1 k1 Hn1.
  destruct (c03_blocks R q pre1 c h1 (mid ++ LRecord r c h2 :: post) recs1 Hw Ho1) as (sp1 & _ & Hd1 & _).
  cbv zeta in Hd1. fold r in Hd1. fold ops in Hd1. rewrite Hn1 in Hd1. inversion Hd1; subst d1 k1.
  split.
  - intro Hd. now apply c24_never_skipped in Hd.
  - intro Hd. apply c24_never_skipped in Hd as (Hh & _ & _). subst h1.
    assert (Eops : ops = (pre1 ++ LRecord r c true :: mid) ++ LRecord r c h2 :: post)
      by (unfold ops; now rewrite <- app_assoc).
    assert (Ho2 : own r (pre1 ++ LRecord r c true :: mid) = ext_ops q ++ rec_ops r (recs1 ++ (c, true) :: recsm)).
    { rewrite own_app, own_cons. simpl req_of. rewrite N.eqb_refl, Ho1, Hom. unfold rec_ops.
      rewrite map_app. simpl. now rewrite <- app_assoc. }
    rewrite Eops in Hw.
    destruct (c03_blocks R q _ c h2 post _ Hw Ho2) as (sp2 & _ & Hd2 & _).
    cbv zeta in Hd2. fold r in Hd2. rewrite <- Eops in Hd2.
    rewrite (c24_never_twice q (recs1 ++ (c, true) :: recsm) c h2) in Hd2.
    + eexists. exact Hd2.
    + apply in_app_iff. right. now left.
Qed.

(* ------------------------------------------------------------------------------------------ *)
(* 7. The code as it was found: a present zero-length block is reported missing                  *)
Lemma c03_unrepaired_witness :
  let R := fun c : cid => if N.eqb c 1 then RPresentEmpty else RPresent in
  let q := {| rq_id := 1; rq_plan := LNode [] 0 (IChild (LNode [0] 1 INil) INil);
              rq_dedup := None; rq_ignore := None; rq_skip := None |} in
  let ops := own_ops false R q in
  wf_hist [] ops = true /\
  md_of_events (fst (plain_run R (rq_plan q))) = [(0, true); (1, true)] /\
  concat (map wm_md (wire false R q ops)) = [(0, true); (1, false)] /\
  map wm_status (wire false R q ops) = [st_partial_response; st_partial_response; st_partial].
Proof. vm_compute. repeat split. Qed.
