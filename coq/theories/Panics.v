(* Panics.v — C22: a panic in per-request code fails only that request.

   What go-graphsync does about panics is a matter of WHERE the user-supplied functions are called
   and which of the functions on that goroutine's stack has a deferred recover:

     - ipldutil/traverser.go  traverser.start: the go-ipld-prime traversal of one request runs in a
       goroutine of its own (`go func() {...}()`, runtime name start.func1; names are written here without the pointer-receiver
       punctuation: ipldutil.traverser.start.func1) whose deferred function
       passes recover() to the panic handler and, when that returns an error, hands it to the
       traverser's consumer with writeDone(err).  The prototype chooser, the codec (decoder chosen
       by the link system), the node reifier, everything selector evaluation calls on user nodes
       and the visitor run here.
     - the block loads are NOT done in that goroutine: the traverser parks in its own
       StorageReadOpener (traverser.loader) and its consumer — requestmanager/executor
       Executor.traverse -> reconciledloader BlockReadOpener -> loadLocal / loadRemote on the
       requestor, responsemanager/queryexecutor QueryExecutor.runTraversal -> loadBlock on the
       responder — calls the user's StorageReadOpener / StorageWriteOpener (and reads / writes /
       commits through what they return) on the taskqueue worker goroutine
       (taskqueue.WorkerTaskQueue.worker -> ExecuteTask -> ...).
     - panics/panics.go MakeHandler: nil -> nil; otherwise call the callback (if configured) with
       the recovered value and return RecoveredPanicErr{PanicObj: value}.

   The placement (per call site: goroutine, chain of go-graphsync functions from the goroutine's
   root to the caller, and for each whether it defers a recover that delivers the error) is DATA:
   GSgen.GenRecover is regenerated from the Go source on every run.  The semantics below is Go's:
   a panic unwinds the stack of ITS goroutine to the innermost deferred recover; if there is none
   the runtime ends the process.

   This file: the model (executable), the monitor and the case comparison.  Proofs: PanicsProofs.v. *)
From Coq Require Import List NArith Bool String Arith.
From GS Require Import Base.
Import ListNotations.

Inductive side := Requestor | Responder.
Inductive kind :=
  | KChooser      (* traversal.LinkTargetNodePrototypeChooser *)
  | KCodec        (* decoder returned by LinkSystem.DecoderChooser *)
  | KReifier      (* LinkSystem.NodeReifier *)
  | KSelector     (* selector evaluation (ParseSelector / WalkAdv) calling into user nodes *)
  | KVisitor      (* graphsync's visitor closure calling into user nodes (AsLargeBytes) *)
  | KSRead        (* LinkSystem.StorageReadOpener *)
  | KSReadStream  (* Read on the reader it returned *)
  | KSWrite       (* LinkSystem.StorageWriteOpener *)
  | KSWriteStream (* Write / SetBytes on the writer it returned *)
  | KSCommit.     (* the BlockWriteCommitter it returned *)
Inductive gor := GTraverser | GWorker.

(* what a function on the stack defers *)
Inductive frame_recover :=
  | NoRecover
  | Recover (delivers : bool) (cb : bool).
    (* deferred handler(recover()) with a handler made by panics.MakeHandler; delivers: the resulting error
       reaches the request's error path; cb: the handler was made from the configured panic callback *)
Record frame := mk_frame { f_name : string; f_rec : frame_recover }.
(* one call site of a user-supplied function; s_chain: go-graphsync functions, goroutine root first *)
Record site := mk_site { s_side : side; s_kind : kind; s_gor : gor; s_chain : list frame }.
(* panics.MakeHandler *)
Record handler_facts := mk_handler {
  h_nil_nil : bool;    (* handler(nil) = nil *)
  h_calls_cb : bool;   (* a configured callback is called with the recovered value *)
  h_carries : bool }.  (* the returned error carries the recovered value *)
Record cfg := mk_cfg { c_sites : list site; c_handler : handler_facts }.

Definition side_eqb (a b : side) : bool :=
  match a, b with Requestor, Requestor | Responder, Responder => true | _, _ => false end.
Definition kind_eqb (a b : kind) : bool :=
  match a, b with
  | KChooser, KChooser | KCodec, KCodec | KReifier, KReifier | KSelector, KSelector | KVisitor, KVisitor
  | KSRead, KSRead | KSReadStream, KSReadStream | KSWrite, KSWrite | KSWriteStream, KSWriteStream
  | KSCommit, KSCommit => true
  | _, _ => false
  end.

(* Go: the panic unwinds to the innermost frame of this goroutine that defers a recover *)
Definition unwind (chain : list frame) : option (bool * bool) :=
  fold_left (fun acc f => match f_rec f with Recover d w => Some (d, w) | NoRecover => acc end) chain None.

Definition site_ok (s : site) : bool :=
  match unwind (s_chain s) with Some (true, true) => true | _ => false end.
Definition handler_ok (h : handler_facts) : bool := h_nil_nil h && h_calls_cb h && h_carries h.
Definition sound_cfg (c : cfg) : bool := forallb site_ok (c_sites c) && handler_ok (c_handler c).

(* ---------- one request ---------- *)
Inductive err :=
  | EPanic (m : N)  (* RecoveredPanicErr carrying the panic value *)
  | EOpaque         (* an error that does not carry it *)
  | ESpurious.      (* an error although nothing panicked *)
Inductive outcome := Completed | Failed (e : err) | Hung.
Inductive rstate := Running (pc : nat) | Ended (o : outcome).

(* A request's run on one side: the sequence of user-function calls it makes (each at a call site, hence
   in a goroutine under a chain of frames), the oracle saying which call panics with which value,
   and whether a panic callback is configured on that instance. *)
Record req := mk_req { r_side : side; r_prog : list site; r_cb : bool; r_orc : nat -> option N }.

(* one scheduling quantum of the request: its next user-function call *)
Definition step_req (c : cfg) (rq : req) (st : rstate) : rstate * list N * option N :=
  match st with
  | Ended _ => (st, [], None)
  | Running pc =>
    match nth_error (r_prog rq) pc with
    | None =>
      (* traversal complete: the deferred handler sees recover() = nil *)
      (Ended (if h_nil_nil (c_handler c) then Completed else Failed ESpurious), [], None)
    | Some s =>
      match r_orc rq pc with
      | None => (Running (S pc), [], None)
      | Some m =>
        match unwind (s_chain s) with
        | None => (st, [], Some m)   (* nothing recovers on this goroutine: the runtime ends the process *)
        | Some (delivers, wired) =>
          (Ended (if delivers then Failed (if h_carries (c_handler c) then EPanic m else EOpaque) else Hung),
           if h_calls_cb (c_handler c) && wired && r_cb rq then [m] else [],
           None)
        end
      end
    end
  end.

(* the request alone, n quanta *)
Fixpoint solo (c : cfg) (rq : req) (n : nat) : rstate * list N * option N :=
  match n with
  | O => (Running 0, [], None)
  | S k =>
    let '(st, cbs, cr) := solo c rq k in
    match cr with
    | Some _ => (st, cbs, cr)
    | None => let '(st', cbs', cr') := step_req c rq st in (st', cbs ++ cbs', cr')
    end
  end.

(* ---------- the process: several requests, any interleaving ---------- *)
Record gstate := mk_g {
  g_crashed : option N;        (* the process died with this panic value *)
  g_sts : list rstate;
  g_cbs : list (nat * N) }.    (* panic callback invocations: (request, value), in order *)

Fixpoint upd {A} (i : nat) (x : A) (l : list A) : list A :=
  match l, i with
  | [], _ => []
  | _ :: r, O => x :: r
  | y :: r, S j => y :: upd j x r
  end.

Definition gstep (c : cfg) (reqs : list req) (g : gstate) (i : nat) : gstate :=
  match g_crashed g with
  | Some _ => g     (* a dead process does nothing *)
  | None =>
    match nth_error reqs i, nth_error (g_sts g) i with
    | Some rq, Some st =>
      let '(st', cbs, cr) := step_req c rq st in
      mk_g cr (upd i st' (g_sts g)) (g_cbs g ++ map (pair i) cbs)
    | _, _ => g
    end
  end.

Definition ginit (reqs : list req) : gstate := mk_g None (map (fun _ => Running 0) reqs) [].
(* a schedule names, quantum by quantum, the request that runs *)
Definition run (c : cfg) (reqs : list req) (sched : list nat) : gstate := fold_left (gstep c reqs) sched (ginit reqs).

Definition cbs_of (i : nat) (l : list (nat * N)) : list N :=
  map snd (filter (fun p => Nat.eqb (fst p) i) l).

(* the first call of the request that panics *)
Fixpoint scan (orc : nat -> option N) (pc len : nat) : option (nat * N) :=
  match len with
  | O => None
  | S l => match orc pc with Some m => Some (pc, m) | None => scan orc (S pc) l end
  end.
Definition first_panic (rq : req) : option (nat * N) := scan (r_orc rq) 0 (List.length (r_prog rq)).

(* what the property demands of a request after n quanta *)
Definition solo_spec (rq : req) (n : nat) : rstate * list N :=
  match first_panic rq with
  | Some (p, m) =>
    if Nat.leb n p then (Running n, [])
    else (Ended (Failed (EPanic m)), if r_cb rq then [m] else [])
  | None =>
    if Nat.leb n (List.length (r_prog rq)) then (Running n, []) else (Ended Completed, [])
  end.

Definition wf_req (c : cfg) (rq : req) : Prop :=
  forall s, In s (r_prog rq) -> In s (c_sites c) /\ s_side s = r_side rq.

(* ---------- the placement on the pinned commit (before the two fix: commits), kept for C22_refuted ---------- *)
Open Scope string_scope.
Definition fr_start := mk_frame "ipldutil.traverser.start.func1" (Recover true true).
Definition pinned_worker_req (leaf : string) : list frame :=
  [ mk_frame "taskqueue.WorkerTaskQueue.worker" NoRecover;
    mk_frame "requestmanager/executor.Executor.ExecuteTask" NoRecover;
    mk_frame "requestmanager/executor.Executor.traverse" NoRecover;
    mk_frame "requestmanager/reconciledloader.ReconciledLoader.BlockReadOpener" NoRecover;
    mk_frame "requestmanager/reconciledloader.ReconciledLoader.blockReadOpener" NoRecover;
    mk_frame leaf NoRecover ].
Definition pinned_worker_resp : list frame :=
  [ mk_frame "taskqueue.WorkerTaskQueue.worker" NoRecover;
    mk_frame "responsemanager/queryexecutor.QueryExecutor.ExecuteTask" NoRecover;
    mk_frame "responsemanager/queryexecutor.QueryExecutor.executeQuery" NoRecover;
    mk_frame "responsemanager/queryexecutor.QueryExecutor.runTraversal" NoRecover;
    mk_frame "responsemanager/queryexecutor.QueryExecutor.loadBlock" NoRecover ].
Definition ll := "requestmanager/reconciledloader.ReconciledLoader.loadLocal".
Definition lr := "requestmanager/reconciledloader.ReconciledLoader.loadRemote".
Definition pinned_cfg : cfg :=
  mk_cfg
    ( flat_map (fun sd => map (fun k => mk_site sd k GTraverser [fr_start]) [KChooser; KCodec; KReifier; KSelector])
               [Requestor; Responder]
      ++ [ mk_site Requestor KVisitor GTraverser [fr_start; mk_frame "requestmanager.RequestManager.requestTask.func1" NoRecover];
           mk_site Responder KVisitor GTraverser [fr_start; mk_frame "responsemanager.ResponseManager.taskDataForKey.func1" NoRecover];
            mk_site Requestor KSRead GWorker (pinned_worker_req ll);
           mk_site Requestor KSReadStream GWorker (pinned_worker_req ll);
           mk_site Requestor KSWrite GWorker (pinned_worker_req lr);
           mk_site Requestor KSWriteStream GWorker (pinned_worker_req lr);
           mk_site Requestor KSCommit GWorker (pinned_worker_req lr);
           mk_site Responder KSRead GWorker pinned_worker_resp;
           mk_site Responder KSReadStream GWorker pinned_worker_resp ] )
    (mk_handler true true true).
Close Scope string_scope.

(* ---------- the implementation's observation of one driver case ---------- *)
Open Scope N_scope.

Inductive robs :=       (* what the caller of Request saw of r1 *)
  | RCompleted          (* both channels closed, no error *)
  | RPanicErr (m : N)   (* an error that is a RecoveredPanicErr carrying m *)
  | RRemoteFailed       (* exactly: the responder ended the request with RequestFailedUnknown *)
  | RHung               (* channels not closed before the deadline *)
  | ROther
  | RNotRun.            (* the process died first *)

Definition robs_eqb (a b : robs) : bool :=
  match a, b with
  | RCompleted, RCompleted | RRemoteFailed, RRemoteFailed | RHung, RHung | ROther, ROther | RNotRun, RNotRun => true
  | RPanicErr x, RPanicErr y => N.eqb x y
  | _, _ => false
  end.

Record pcase := mk_pcase {
  pc_side : side;               (* instance whose user function panics *)
  pc_kind : option kind;        (* None: nothing panics *)
  pc_k : N;                     (* r1's block at which it panics; the panic value is 7000 + k *)
  pc_n1 : N;                    (* blocks of r1 *)
  pc_cb : bool;                 (* panic callback configured on both instances *)
  po_survived : bool;           (* the child process reached its end with exit status 0 *)
  po_crash : N;                 (* panic value printed by the dying process (0: none) *)
  po_r1 : robs;
  po_status : N;                (* r1's terminal status on the responder (0: none seen) *)
  po_cb_req : list N;           (* values passed to the requestor's panic callback *)
  po_cb_resp : list N;          (* ... to the responder's *)
  po_r2_same : bool;            (* r2 (in progress while r1 ran) delivered exactly what it delivers alone, no error *)
  po_r3_same : bool;            (* r3 (started after r1 ended) likewise *)
  po_site : list string;        (* go-graphsync functions on the stack of the call that panicked, root first *)
  po_chains : list (kind * list string) }.  (* every (kind, stack) under which a user function was called for r1 *)

Definition pvalue (pc : pcase) : N := 7000 + pc_k pc.
Definition nlist_eqb := list_eqb N.eqb.
Definition status_failed_unknown : N := 32.

(* A panic on the responder fails the RESPONSE (terminal status RequestFailedUnknown on the responder).
   What the requestor's caller then sees is the remote failure — except when the responder panicked
   while decoding / reifying / walking the LAST block, which it had already sent: the requestor then
   holds every block it asked for, its own traversal completes, and whether the late failure status
   still reaches a running request is a race go-graphsync does not resolve (the data is complete and
   verified either way).  Both outcomes are accepted there and only there. *)
Definition post_send (k : kind) : bool :=
  match k with KCodec | KReifier | KSelector | KVisitor => true | _ => false end.
Definition r1_seen_ok (pc : pcase) : bool :=
  robs_eqb (po_r1 pc) RRemoteFailed ||
  (robs_eqb (po_r1 pc) RCompleted && N.eqb (pc_k pc + 1) (pc_n1 pc) &&
   match pc_kind pc with Some k => post_send k | None => false end).

(* The property, on the implementation's observation. *)
Definition pcase_mon (pc : pcase) : bool :=
  po_survived pc && po_r2_same pc && po_r3_same pc &&
  match pc_kind pc with
  | None => robs_eqb (po_r1 pc) RCompleted && nlist_eqb (po_cb_req pc) [] && nlist_eqb (po_cb_resp pc) []
  | Some _ =>
    let want := if pc_cb pc then [pvalue pc] else [] in
    match pc_side pc with
    | Requestor =>
      robs_eqb (po_r1 pc) (RPanicErr (pvalue pc)) && nlist_eqb (po_cb_req pc) want && nlist_eqb (po_cb_resp pc) []
    | Responder =>
      r1_seen_ok pc && N.eqb (po_status pc) status_failed_unknown &&
      nlist_eqb (po_cb_resp pc) want && nlist_eqb (po_cb_req pc) []
    end
  end.

(* ---------- model prediction for a driver case ---------- *)
Definition strs_eqb := list_eqb String.eqb.
Definition chain_names (s : site) : list string := map f_name (s_chain s).
Definition site_matches (sd : side) (k : kind) (names : list string) (s : site) : bool :=
  side_eqb (s_side s) sd && kind_eqb (s_kind s) k && strs_eqb (chain_names s) names.
Definition find_site (c : cfg) sd k names : option site := find (site_matches sd k names) (c_sites c).
Definition side_sites (c : cfg) (sd : side) : list site := filter (fun s => side_eqb (s_side s) sd) (c_sites c).

Fixpoint blocks {A} (n : nat) (b : list A) : list A := match n with O => [] | S k => b ++ blocks k b end.

(* r2 is held after 3 quanta, r1 runs to its end, r2 runs to its end, then r3 — the driver's schedule *)
Definition case_sched (l1 l2 : nat) : list nat :=
  repeat 0%nat 3 ++ repeat 1%nat (l1 + 2) ++ repeat 0%nat (l2 + 2) ++ repeat 2%nat (l2 + 2).

Definition expect_r1 (sd : side) (st : rstate) : robs :=
  match st with
  | Running _ => ROther
  | Ended Completed => RCompleted
  | Ended Hung => RHung
  | Ended (Failed (EPanic m)) => match sd with Requestor => RPanicErr m | Responder => RRemoteFailed end
  | Ended (Failed _) => match sd with Requestor => ROther | Responder => RRemoteFailed end
  end.

Definition pcase_ok (c : cfg) (pc : pcase) : bool :=
  let sd := pc_side pc in
  let blk := side_sites c sd in
  let n1 := N.to_nat (pc_n1 pc) in
  let k := N.to_nat (pc_k pc) in
  (* every stack under which a user function ran is a call site the generated placement knows *)
  forallb (fun kc => match find_site c sd (fst kc) (snd kc) with Some _ => true | None => false end) (po_chains pc) &&
  match pc_kind pc with
  | None =>
    let quiet := mk_req sd (blocks n1 blk) (pc_cb pc) (fun _ => None) in
    let g := run c [quiet; quiet; quiet] (case_sched (List.length (r_prog quiet)) (List.length (r_prog quiet))) in
    match g_crashed g with
    | Some _ => negb (po_survived pc)
    | None =>
      po_survived pc && robs_eqb (po_r1 pc) (expect_r1 sd (nth 1 (g_sts g) (Running 0))) &&
      nlist_eqb (po_cb_req pc) [] && nlist_eqb (po_cb_resp pc) [] &&
      match nth 0 (g_sts g) (Running 0), nth 2 (g_sts g) (Running 0) with
      | Ended Completed, Ended Completed => po_r2_same pc && po_r3_same pc
      | _, _ => true
      end
    end
  | Some kd =>
    match find_site c sd kd (po_site pc) with
    | None => false    (* the call that panicked was made from a stack the placement does not list *)
    | Some s =>
      let prog1 := blocks k blk ++ s :: blocks (n1 - k - 1) blk in
      let at_ := List.length (blocks k blk) in
      let r1 := mk_req sd prog1 (pc_cb pc) (fun pc' => if Nat.eqb pc' at_ then Some (pvalue pc) else None) in
      let quiet := mk_req sd (blocks 3 blk) (pc_cb pc) (fun _ => None) in
      let g := run c [quiet; r1; quiet] (case_sched (List.length prog1) (List.length (r_prog quiet))) in
      match g_crashed g with
      | Some m => negb (po_survived pc) && N.eqb (po_crash pc) m
      | None =>
        let st1 := nth 1 (g_sts g) (Running 0) in
        let cbs := cbs_of 1 (g_cbs g) in
        po_survived pc &&
        match sd, st1 with
        | Responder, Ended (Failed _) => r1_seen_ok pc
        | _, _ => robs_eqb (po_r1 pc) (expect_r1 sd st1)
        end &&
        match sd with
        | Requestor => nlist_eqb (po_cb_req pc) cbs && nlist_eqb (po_cb_resp pc) []
        | Responder => nlist_eqb (po_cb_resp pc) cbs && nlist_eqb (po_cb_req pc) [] &&
                       N.eqb (po_status pc) (match st1 with Ended (Failed _) => status_failed_unknown | _ => po_status pc end)
        end &&
        (* the other requests of the model run are where they are alone *)
        match nth 0 (g_sts g) (Running 0), nth 2 (g_sts g) (Running 0) with
        | Ended Completed, Ended Completed => po_r2_same pc && po_r3_same pc
        | _, _ => true
        end
      end
    end
  end.
