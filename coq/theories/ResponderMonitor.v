(* ResponderMonitor.v — the executable statement of C03 (monitor_C03) and the wire monitor of the
   responder half of C24 (mon24_req) accept EVERY scheduled execution of the responder model:
   all plans, stores, extension combinations, any number of requests of the peer and every schedule
   (interleaving) in which each request is started once. *)
From Coq Require Import List NArith Bool Lia.
From GS Require Import Base Ltree LinkTracker LinkTrackerProofs Responder ResponderProofs.
Import ListNotations.
Open Scope N_scope.

(* ---------- small list facts ---------- *)
Definition somes {A} (l : list (option A)) : list A :=
  flat_map (fun o => match o with Some x => [x] | None => [] end) l.
Lemma somes_app {A} (a b : list (option A)) : somes (a ++ b) = somes a ++ somes b.
Proof. unfold somes. apply flat_map_app. Qed.

Lemma pair_eqb_refl x : pair_eqb x x = true.
Proof. unfold pair_eqb. now rewrite N.eqb_refl, Bool.eqb_reflx. Qed.
Lemma list_eqb_pair_refl l : list_eqb pair_eqb l l = true.
Proof. induction l as [|x l IH]; simpl; [reflexivity | now rewrite pair_eqb_refl, IH]. Qed.
Lemma list_eqb_N_refl l : list_eqb N.eqb l l = true.
Proof. induction l as [|x l IH]; simpl; [reflexivity | now rewrite N.eqb_refl, IH]. Qed.
Lemma is_prefix_app a b : is_prefix a (a ++ b) = true.
Proof. induction a as [|x a IH]; simpl; [reflexivity | now rewrite pair_eqb_refl, IH]. Qed.

Lemma nodupb_of_NoDup l : NoDup l -> nodupb l = true.
Proof.
  induction l as [|x l IH]; intro H; simpl; [reflexivity|]. inversion H; subst.
  rewrite IH by assumption. destruct (existsb (N.eqb x) l) eqn:E; [|reflexivity].
  apply existsb_eqb_in' in E. contradiction.
Qed.

(* ---------- the run of one request ---------- *)
Section Mon.
Variable St : cid -> sres.

Definition all_steps (q : rreq) : list (option (cid * bool)) :=
  steps_of true St (snd (fst (rrun true St (rq_plan q)))).
Definition fsof (q : rreq) : bool -> N :=
  final_status (snd (fst (rrun true St (rq_plan q)))) (snd (rrun true St (rq_plan q))).

Lemma rst_init_eq q :
  rst_init true St q = {| rs_q := q; rs_started := false; rs_steps := all_steps q; rs_fs := fsof q |}.
Proof. unfold rst_init, all_steps, fsof. destruct (rrun true St (rq_plan q)) as [[recs evs] ok]. reflexivity. Qed.

Lemma final_status_not_partial evs ok all : N.eqb (final_status evs ok all) st_partial_response = false.
Proof. unfold final_status. destruct ok, (root_skipped evs), all; reflexivity. Qed.

Lemma final_status_not_paused evs ok all : N.eqb (final_status evs ok all) st_paused = false.
Proof. unfold final_status. destruct ok, (root_skipped evs), all; reflexivity. Qed.

(* every load event of a run over the store carries the store's answer for its link *)
Definition sans (c : cid) : ans :=
  match St c with
  | RPresent | RPresentEmpty => AOk
  | RMissing => ASkip
  | RReadErr => AErr (ErrOther 1)
  | RCorrupt => AErr (ErrOther 2)
  end.
Definition ev_ok (e : ev) : Prop :=
  match e with
  | ELoad _ c a => a = sans c
  | EVisit _ => True
  end.

Lemma run_ev_ok :
  (forall t, Forall ev_ok (snd (fst (run_tree (plain_ask St) t tt)))) /\
  (forall l, Forall ev_ok (snd (fst (run_items (plain_ask St) l tt)))).
Proof.
  apply ltree_items_ind.
  - intros p c body IH. rewrite run_tree_node.
    change (plain_ask St tt p c) with (tt, sans c). cbv beta iota.
    destruct (sans c) as [| |e] eqn:Ea.
    + destruct (run_items (plain_ask St) body tt) as [[u evs] ok]. simpl in *. constructor; [|exact IH].
      simpl. now rewrite Ea.
    + simpl. constructor; [|constructor]. simpl. now rewrite Ea.
    + simpl. constructor; [|constructor]. simpl. now rewrite Ea.
  - simpl. constructor.
  - intros v rest IH. rewrite run_items_visit. destruct (run_items (plain_ask St) rest tt) as [[u evs] ok].
    simpl in *. constructor; [exact I | exact IH].
  - intros t IHt rest IHr. rewrite run_items_child.
    destruct (run_tree (plain_ask St) t tt) as [[u e1] ok1]. destruct u. simpl in IHt. destruct ok1.
    + destruct (run_items (plain_ask St) rest tt) as [[u e2] ok2]. simpl in *. apply Forall_app. auto.
    + exact IHt.
Qed.

Lemma steps_md evs : Forall ev_ok evs -> somes (steps_of true St evs) = md_of_events evs.
Proof.
  induction 1 as [|e evs He _ IH]; [reflexivity|].
  destruct e as [p c a|v]; [|exact IH]. simpl in He. subst a.
  simpl. unfold sans. destruct (St c); simpl; now rewrite IH.
Qed.

Lemma all_steps_md q : somes (all_steps q) = md_of_events (fst (plain_run St (rq_plan q))).
Proof.
  unfold all_steps. rewrite rrun_is_plain. simpl. apply steps_md.
  unfold plain_run. pose proof (proj1 run_ev_ok (rq_plan q)) as H.
  destruct (run_tree (plain_ask St) (rq_plan q) tt) as [[u evs] ok]. exact H.
Qed.

Lemma fsof_plain q all :
  fsof q all = final_status (fst (plain_run St (rq_plan q))) (snd (plain_run St (rq_plan q))) all.
Proof. unfold fsof. now rewrite rrun_is_plain. Qed.

(* ---------- what the messages of one request may look like ---------- *)
Definition own_rec (q : rreq) (dn : list (cid * bool)) : sreq :=
  {| s_id := rq_id q; s_scope := rq_dedup q; s_with := ign q ++ present dn; s_miss := any_missing dn;
     s_count := N.of_nat (length dn); s_skip := skipv q |}.

Definition sendable (q : rreq) (dn : list (cid * bool)) (c : cid) (h : bool) : Prop :=
  h = true /\ skipv q < N.of_nat (length dn) + 1 /\ ~ In c (ign q ++ present dn).

(* Tail q dn steps ms: from a state in which the request has made the SendResponse calls dn and the link
   loads [steps] remain, the messages ms are emitted (the schedule may stop anywhere) *)
Inductive Tail (q : rreq) : list (cid * bool) -> list (option (cid * bool)) -> list wmsg -> Prop :=
| T_stop dn steps : Tail q dn steps []
| T_rec dn c h rest send ms : rest <> [] -> (send = true -> sendable q dn c h) ->
    Tail q (dn ++ [(c, h)]) rest ms ->
    Tail q dn (Some (c, h) :: rest) (rec_msg (rq_id q) c h send (N.of_nat (length dn) + 1) :: ms)
| T_rec_fin dn c h send : (send = true -> sendable q dn c h) ->
    Tail q dn [Some (c, h)]
      [rec_msg (rq_id q) c h send (N.of_nat (length dn) + 1); fin_msg (rq_id q) (fsof q (forallb snd (dn ++ [(c, h)])))]
| T_err_fin dn : Tail q dn [None] [fin_msg (rq_id q) (fsof q (forallb snd dn))]
| T_err dn rest ms : rest <> [] -> Tail q dn rest ms -> Tail q dn (None :: rest) ms.

(* a request that was paused by the incoming-request hook emits RequestPaused first *)
Definition TailX (q : rreq) (started : bool) (dn : list (cid * bool)) (steps : list (option (cid * bool)))
    (ms : list wmsg) : Prop :=
  Tail q dn steps ms \/
  (started = false /\ exists ms', ms = pause_msg (rq_id q) :: ms' /\ Tail q dn steps ms').
Lemma tailx_true q dn steps ms : TailX q true dn steps ms -> Tail q dn steps ms.
Proof. intros [H|[H _]]; [exact H | discriminate]. Qed.

Definition is_term := is_final.

Definition Shape (q : rreq) (dn : list (cid * bool)) (steps : list (option (cid * bool))) (ms : list wmsg) : Prop :=
  (filter is_term ms = [] /\ exists rest, somes steps = concat (map wm_md ms) ++ rest) \/
  (exists pre, ms = pre ++ [fin_msg (rq_id q) (fsof q (forallb snd (dn ++ somes steps)))] /\
               filter is_term pre = [] /\ concat (map wm_md pre) = somes steps).

Lemma tail_shape q dn steps ms : Tail q dn steps ms -> Shape q dn steps ms.
Proof.
  unfold Shape.
  induction 1 as [dn steps|dn c h rest send ms Hne Hs HT IH|dn c h send Hs|dn|dn rest ms Hne HT IH].
  - left. split; [reflexivity|]. exists (somes steps). reflexivity.
  - destruct IH as [[Hf [rest' Hr]]|[pre [Hm [Hf Hc]]]].
    + left. split; [exact Hf|]. exists rest'. simpl. now rewrite Hr.
    + right. exists (rec_msg (rq_id q) c h send (N.of_nat (length dn) + 1) :: pre). split; [|split].
      * rewrite Hm. simpl. now rewrite <- app_assoc.
      * exact Hf.
      * simpl. now rewrite Hc.
  - right. exists [rec_msg (rq_id q) c h send (N.of_nat (length dn) + 1)]. simpl. repeat split; reflexivity.
  - right. exists []. simpl. rewrite app_nil_r. repeat split; reflexivity.
  - destruct IH as [[Hf [rest' Hr]]|[pre [Hm [Hf Hc]]]]; [left | right]; simpl; eauto.
Qed.

Lemma tailx_shape q b dn steps ms : TailX q b dn steps ms -> Shape q dn steps ms.
Proof.
  intros [H|(_ & ms' & -> & H)]; [now apply tail_shape|]. apply tail_shape in H.
  destruct H as [[Hf [rest' Hr]]|[pre [Hm [Hf Hc]]]].
  - left. split; [exact Hf|]. exists rest'. exact Hr.
  - right. exists (pause_msg (rq_id q) :: pre). split; [now rewrite Hm|]. split; [exact Hf | exact Hc].
Qed.

Lemma is_term_fin r st all : is_term (fin_msg r (final_status (fst st) (snd st) all)) = true.
Proof. unfold is_term, is_final. simpl. now rewrite final_status_not_partial, final_status_not_paused. Qed.

Lemma filter_term_app a b : filter is_term (a ++ b) = filter is_term a ++ filter is_term b.
Proof. apply filter_app. Qed.

(* the per-request clauses of monitor_C03 follow from the shape *)
Lemma tail_mon_req q tl : TailX q false [] (all_steps q) (msgs_of (rq_id q) tl) -> mon_req St tl q = true.
Proof.
  intro HT. apply tailx_shape in HT. unfold Shape in HT. unfold mon_req.
  rewrite all_steps_md in HT. simpl app in HT.
  destruct (plain_run St (rq_plan q)) as [evs ok] eqn:Epr. simpl fst in HT.
  change is_final with is_term.
  destruct HT as [[Hf [rest Hr]]|[pre [Hm [Hf Hc]]]].
  - rewrite Hf, Hr. apply is_prefix_app.
  - rewrite Hm, filter_term_app, Hf. simpl app.
    rewrite fsof_plain, Epr. simpl fst. simpl snd.
    assert (Et : is_term (fin_msg (rq_id q) (final_status evs ok (forallb snd (md_of_events evs)))) = true)
      by (apply (is_term_fin _ (evs, ok))).
    simpl filter. rewrite Et. rewrite map_app, concat_app, Hc. simpl. rewrite app_nil_r.
    rewrite list_eqb_pair_refl, N.eqb_refl, rev_app_distr. simpl. now rewrite N.eqb_refl.
Qed.

Definition BlocksOK (q : rreq) (dn : list (cid * bool)) (ms : list wmsg) : Prop :=
  NoDup (concat (map wm_blocks ms)) /\
  (forall c, In c (concat (map wm_blocks ms)) -> ~ In c (ign q ++ present dn)) /\
  forallb (fun m => match wm_blocks m with [] => true | _ => forallb (fun i => skipv q <? i) (wm_idx m) end) ms = true.

Lemma tail_blocks q dn steps ms : Tail q dn steps ms -> BlocksOK q dn ms.
Proof.
  unfold BlocksOK.
  induction 1 as [dn steps|dn c h rest send ms Hne Hs HT IH|dn c h send Hs|dn|dn rest ms Hne HT IH].
  - simpl. repeat split; [constructor | intros c []].
  - destruct IH as (Hn & Hd & Hk). simpl.
    assert (Hmono : forall c', In c' (concat (map wm_blocks ms)) -> ~ In c' (ign q ++ present dn)).
    { intros c' Hin Hc. apply (Hd c' Hin). unfold present in *. rewrite filter_app, map_app, app_assoc.
      apply in_app_iff. now left. }
    destruct send; simpl.
    + destruct (Hs eq_refl) as (Hh & Hlt & Hni). subst h. repeat split.
      * constructor; [|exact Hn]. intro Hin. apply (Hd c Hin).
        unfold present. rewrite filter_app, map_app. simpl. rewrite !in_app_iff. right. right. now left.
      * intros c' [<-|Hin]; [exact Hni | now apply Hmono].
      * apply N.ltb_lt in Hlt. now rewrite Hlt, Hk.
    + repeat split; auto.
  - simpl. destruct send; simpl.
    + destruct (Hs eq_refl) as (Hh & Hlt & Hni). repeat split.
      * constructor; [intros [] | constructor].
      * intros c' [<-|[]]. exact Hni.
      * apply N.ltb_lt in Hlt. now rewrite Hlt.
    + repeat split; [constructor | intros c' []].
  - simpl. repeat split; [constructor | intros c' []].
  - exact IH.
Qed.

Lemma tailx_blocks q b dn steps ms : TailX q b dn steps ms -> BlocksOK q dn ms.
Proof.
  intros [H|(_ & ms' & -> & H)]; [now apply (tail_blocks q dn steps)|]. apply tail_blocks in H. exact H.
Qed.

Lemma tail_mon24 q tl : TailX q false [] (all_steps q) (msgs_of (rq_id q) tl) -> mon24_req tl q = true.
Proof.
  intro HT. destruct (tailx_blocks _ _ _ _ _ HT) as (Hn & Hd & Hk). unfold mon24_req.
  fold (skipv q). fold (ign q). rewrite Hk. cbn [andb]. rewrite (nodupb_of_NoDup _ Hn). cbn [andb].
  apply forallb_forall. intros c Hc. apply negb_true_iff.
  destruct (existsb (N.eqb c) (ign q)) eqn:E; [|reflexivity].
  exfalso. apply (Hd c Hc). apply in_app_iff. left.
  apply existsb_exists in E. destruct E as [c' [Hin Heq]]. apply N.eqb_eq in Heq. now subst c'.
Qed.

(* ---------- the simulation invariant ---------- *)
Variable reqs : list rreq.

Definition rid (x : rst) : req := rq_id (rs_q x).

Definition PR (sp : spec) (x : rst) : Prop :=
  rs_fs x = fsof (rs_q x) /\
  rq_find (rid x) reqs = Some (rs_q x) /\
  exists dns, all_steps (rs_q x) = dns ++ rs_steps x /\
    (rs_started x = false -> dns = [] /\ sfind (rid x) sp = None) /\
    (rs_started x = true -> rs_steps x <> [] -> sget (rid x) sp = own_rec (rs_q x) (somes dns)).

Definition GI (s : plt) (sts : list rst) (sp : spec) : Prop :=
  LinkTrackerProofs.R s sp /\ NoDup (map rid sts) /\ Forall (PR sp) sts.

(* rst_find / rst_put *)
Lemma rst_find_in r sts x : rst_find r sts = Some x -> In x sts /\ rid x = r.
Proof.
  induction sts as [|y sts IH]; simpl; [discriminate|].
  destruct (N.eqb_spec (rq_id (rs_q y)) r) as [E|E]; intro H.
  - inversion H; subst. auto.
  - destruct (IH H). auto.
Qed.
Lemma rst_find_none r sts : rst_find r sts = None -> forall x, In x sts -> rid x <> r.
Proof.
  induction sts as [|y sts IH]; simpl; intros H x Hin; [contradiction|].
  destruct (N.eqb_spec (rq_id (rs_q y)) r) as [E|E]; [discriminate|].
  destruct Hin as [<-|Hin]; [exact E | now apply IH].
Qed.
Lemma nodup_in_eq sts x y : NoDup (map rid sts) -> In x sts -> In y sts -> rid x = rid y -> x = y.
Proof.
  induction sts as [|z sts IH]; simpl; intros Hn Hx Hy E; [contradiction|].
  inversion Hn as [|? ? Hnot Hn']; subst.
  destruct Hx as [<-|Hx], Hy as [<-|Hy]; auto.
  - exfalso. apply Hnot. rewrite E. now apply in_map.
  - exfalso. apply Hnot. rewrite <- E. now apply in_map.
Qed.
Lemma map_rid_put x' sts : map rid (rst_put x' sts) = map rid sts.
Proof.
  induction sts as [|y sts IH]; simpl; [reflexivity|].
  destruct (N.eqb_spec (rq_id (rs_q y)) (rq_id (rs_q x'))) as [E|E]; simpl; [|now rewrite IH].
  unfold rid. now rewrite E.
Qed.
Lemma in_put_self x x' sts : In x sts -> rid x = rid x' -> In x' (rst_put x' sts).
Proof.
  induction sts as [|y sts IH]; simpl; intros Hin E; [contradiction|].
  destruct (N.eqb_spec (rq_id (rs_q y)) (rq_id (rs_q x'))) as [E'|E']; [now left|].
  destruct Hin as [<-|Hin]; [contradiction | right; now apply IH].
Qed.
Lemma in_put_other y x' sts : In y sts -> rid y <> rid x' -> In y (rst_put x' sts).
Proof.
  induction sts as [|z sts IH]; simpl; intros Hin E; [contradiction|].
  destruct (N.eqb_spec (rq_id (rs_q z)) (rq_id (rs_q x'))) as [E'|E'].
  - destruct Hin as [<-|Hin]; [contradiction | now right].
  - destruct Hin as [<-|Hin]; [now left | right; now apply IH].
Qed.
Lemma in_put_inv y x' sts : In y (rst_put x' sts) -> y = x' \/ (In y sts /\ (rid y = rid x' -> In y sts /\ exists z, In z sts /\ rid z = rid x' /\ True)).
Proof.
  induction sts as [|z sts IH]; simpl; intro Hin; [contradiction|].
  destruct (N.eqb_spec (rq_id (rs_q z)) (rq_id (rs_q x'))) as [E'|E'].
  - destruct Hin as [<-|Hin]; [now left | right; split; [now right|]].
    intros _. split; [now right|]. exists z. auto.
  - destruct Hin as [<-|Hin].
    + right. split; [now left|]. intro E. contradiction.
    + destruct (IH Hin) as [->|[Hy Hz]]; [now left|]. right. split; [now right|].
      intro E. destruct (Hz E) as (A & z0 & B & C & _). split; [now right|]. exists z0. auto.
Qed.

(* an element of the updated table is the new record or an old record of another request *)
Lemma in_put_cases y x x' sts : NoDup (map rid sts) -> In x sts -> rid x = rid x' ->
  In y (rst_put x' sts) -> y = x' \/ (In y sts /\ rid y <> rid x').
Proof.
  induction sts as [|z sts IH]; simpl; intros Hn Hx E Hin; [contradiction|].
  inversion Hn as [|? ? Hnot Hn']; subst.
  destruct (N.eqb_spec (rq_id (rs_q z)) (rq_id (rs_q x'))) as [E'|E'].
  - destruct Hin as [<-|Hin]; [now left|]. right. split; [now right|].
    intro Ey. apply Hnot. change (rid z = rid x') in E'. rewrite E', <- Ey. now apply (in_map rid).
  - destruct Hx as [<-|Hx]; [unfold rid in E; contradiction|].
    destruct Hin as [<-|Hin]; [right; split; [now left | exact E']|].
    destruct (IH Hn' Hx E Hin) as [->|[A B]]; [now left | right; split; [now right | exact B]].
Qed.

(* operations of one request leave the other requests' records alone *)
Lemma sfind_step sp o sp' out r : spec_step sp o = Some (sp', out) -> req_of o <> r -> sfind r sp' = sfind r sp.
Proof.
  destruct o as [q k|q ls|q n|q l has|q]; simpl; intros H Hne.
  - destruct (sfind q sp); [discriminate|]. inversion H; subst. rewrite sfind_sput. simpl.
    destruct (N.eqb_spec q r); [contradiction | reflexivity].
  - inversion H; subst. rewrite sfind_sput. simpl. destruct (N.eqb_spec q r); [contradiction | reflexivity].
  - inversion H; subst. rewrite sfind_sput. simpl. destruct (N.eqb_spec q r); [contradiction | reflexivity].
  - inversion H; subst. rewrite sfind_sput. simpl. destruct (N.eqb_spec q r); [contradiction | reflexivity].
  - inversion H; subst. rewrite sfind_sdel. destruct (N.eqb_spec q r); [contradiction | reflexivity].
Qed.

Lemma PR_frame sp o sp' out x : spec_step sp o = Some (sp', out) -> req_of o <> rid x -> PR sp x -> PR sp' x.
Proof.
  intros Es Hne (Hfs & Hq & dns & Hd & Hns & Hst). split; [exact Hfs|]. split; [exact Hq|].
  exists dns. split; [exact Hd|]. split.
  - intro H. destruct (Hns H) as [A B]. split; [exact A|]. now rewrite (sfind_step _ _ _ _ _ Es Hne).
  - intros H1 H2. rewrite (sget_step _ _ _ _ (rid x) Es).
    destruct (N.eqb_spec (req_of o) (rid x)); [contradiction | now apply Hst].
Qed.

Lemma spec_ops_frame x : forall ops sp sp', spec_ops sp ops = Some sp' ->
  Forall (fun o => req_of o <> rid x) ops -> PR sp x -> PR sp' x.
Proof.
  induction ops as [|o ops IH]; intros sp sp' H Hf HP; simpl in H.
  - inversion H; now subst.
  - destruct (spec_step sp o) as [[sp1 out]|] eqn:Es; [|discriminate]. inversion Hf; subst.
    eapply IH; eauto. eapply PR_frame; eauto.
Qed.

Lemma spec_ops_final sp ops : spec_ops sp ops = spec_final sp ops.
Proof. revert sp. induction ops as [|o ops IH]; intro sp; simpl; [reflexivity|]. destruct (spec_step sp o) as [[sp1 out]|]; auto. Qed.
Lemma lsteps_final s ops : lsteps s ops = lfinal s ops.
Proof.
  revert s. induction ops as [|o ops IH]; intro s; simpl; [reflexivity|].
  destruct (lstep s o) as [[s' out] ok]. simpl. apply IH.
Qed.

Lemma ext_ops_req q : Forall (fun o => req_of o = rq_id q) (ext_ops q).
Proof. unfold ext_ops. destruct (rq_dedup q), (rq_ignore q), (rq_skip q); simpl; repeat constructor. Qed.

Lemma ext_ops_spec q sp : sfind (rq_id q) sp = None -> exists sp', spec_ops sp (ext_ops q) = Some sp'.
Proof.
  intro Hf. unfold ext_ops. destruct (rq_dedup q), (rq_ignore q), (rq_skip q); simpl; rewrite ?Hf; eauto.
Qed.

Lemma own_all r ops : Forall (fun o => req_of o = r) ops -> own r ops = ops.
Proof.
  induction 1 as [|o ops Ho _ IH]; [reflexivity|]. rewrite own_cons, Ho, N.eqb_refl, IH. reflexivity.
Qed.

Lemma ext_ops_state q sp sp' : sfind (rq_id q) sp = None -> spec_ops sp (ext_ops q) = Some sp' ->
  sget (rq_id q) sp' = own_rec q [].
Proof.
  intros Hf H. rewrite spec_ops_final in H. rewrite (own_state (rq_id q) _ _ _ H), (own_all _ _ (ext_ops_req q)).
  unfold sget at 1. rewrite Hf. pose proof (own_state_at q []) as E. simpl rec_ops in E. rewrite app_nil_r in E.
  exact E.
Qed.

Lemma upd_own_rec q dn c h :
  upd (LRecord (rq_id q) c h) (own_rec q dn) = own_rec q (dn ++ [(c, h)]).
Proof.
  unfold own_rec. simpl. f_equal.
  - unfold present. rewrite filter_app, map_app. simpl. destruct h; simpl; [now rewrite app_assoc | now rewrite app_nil_r].
  - unfold any_missing. rewrite existsb_app. simpl. now rewrite orb_false_r.
  - rewrite app_length. simpl. lia.
Qed.

(* ---------- one step of the simulation ---------- *)
Definition mon_act (a : sact) (sp : spec) (ms : list wmsg) : option spec :=
  match a with
  | SStart r =>
      match ms, rq_find r reqs with
      | [], Some q => spec_ops sp (ext_ops q)
      | _, _ => None
      end
  | SStep r => mon_msgs r sp ms
  | SStartPaused r =>
      match ms, rq_find r reqs with
      | [m], Some q => if wmsg_eqb m (pause_msg r) then spec_ops sp (ext_ops q) else None
      | _, _ => None
      end
  | SUnpause r => match ms with [] => Some sp | _ => None end
  end.

Lemma mon_tl_cons a ms tl sp :
  mon_tl reqs sp ((a, ms) :: tl) = match mon_act a sp ms with Some sp' => mon_tl reqs sp' tl | None => false end.
Proof.
  destruct a as [r|r|r|r]; simpl.
  - destruct ms; [|reflexivity]. destruct (rq_find r reqs); reflexivity.
  - reflexivity.
  - destruct ms as [|m [|m2 ms]]; try reflexivity. destruct (rq_find r reqs); [|reflexivity].
    destruct (wmsg_eqb m (pause_msg r)); reflexivity.
  - destruct ms; reflexivity.
Qed.

Lemma mon_msg_rec r sp c h send i sp1 : spec_step sp (LRecord r c h) = Some (sp1, OSend send i) ->
  mon_msg r sp (rec_msg r c h send i) = Some sp1.
Proof.
  intro H. unfold mon_msg, rec_msg. cbn -[spec_step]. rewrite N.eqb_refl. cbn -[spec_step]. rewrite H, N.eqb_refl.
  destruct send; cbn; rewrite ?N.eqb_refl; reflexivity.
Qed.
Lemma mon_msg_fin r sp st sp2 out : N.eqb st st_partial_response = false ->
  spec_step sp (LFinish r) = Some (sp2, out) -> mon_msg r sp (fin_msg r st) = Some sp2.
Proof.
  intros Hst H. unfold mon_msg, fin_msg. cbn -[spec_step]. rewrite N.eqb_refl, Hst. cbn -[spec_step]. now rewrite H.
Qed.

(* starting a request *)
Lemma step_start s sts sp x ms0 : GI s sts sp -> In x sts -> rs_started x = false ->
  let x' := {| rs_q := rs_q x; rs_started := true; rs_steps := rs_steps x; rs_fs := rs_fs x |} in
  sim_start s sts (rid x) ms0 = (lsteps s (ext_ops (rs_q x)), rst_put x' sts, ms0) /\
  exists sp', mon_act (SStart (rid x)) sp [] = Some sp' /\ mon_act (SStartPaused (rid x)) sp [pause_msg (rid x)] = Some sp' /\
    GI (lsteps s (ext_ops (rs_q x))) (rst_put x' sts) sp'.
Proof.
  intros (HR & Hn & Hall) Hin Hns x'.
  pose proof (proj1 (Forall_forall _ _) Hall) as Hall'.
  destruct (Hall' x Hin) as (Hfs & Hq & dns & Hd & Hnst & Hst).
  destruct (Hnst Hns) as [-> Hf].
  assert (Efind : rst_find (rid x) sts = Some x).
  { destruct (rst_find (rid x) sts) as [y|] eqn:E.
    - destruct (rst_find_in _ _ _ E) as [A B]. f_equal. now apply (nodup_in_eq sts).
    - exfalso. exact (rst_find_none _ _ E x Hin eq_refl). }
  split.
  - unfold sim_start. rewrite Efind, Hns. reflexivity.
  - destruct (ext_ops_spec (rs_q x) sp Hf) as (sp' & Hsp). exists sp'. split; [|split].
    + simpl. now rewrite Hq.
    + cbn [mon_act]. rewrite Hq. unfold wmsg_eqb, pause_msg. cbn. now rewrite N.eqb_refl.
    + split; [|split].
      * rewrite lsteps_final. apply (lfinal_R_exact _ _ _ _ HR). now rewrite <- spec_ops_final.
      * now rewrite map_rid_put.
      * apply Forall_forall. intros y Hy.
        destruct (in_put_cases y x x' sts Hn Hin eq_refl Hy) as [->|[Hy' Hne]].
        -- split; [exact Hfs|]. split; [exact Hq|]. exists []. split; [exact Hd|]. split.
           ++ simpl. discriminate.
           ++ intros _ _. simpl. apply (ext_ops_state (rs_q x) sp sp' Hf Hsp).
        -- apply (spec_ops_frame y _ _ _ Hsp); [|now apply Hall'].
           eapply Forall_impl; [|apply ext_ops_req]. simpl. intros o Ho. rewrite Ho. intro E. apply Hne. now rewrite <- E.
Qed.

(* one link load of a started request *)
Lemma step_load s sts sp x st rest : GI s sts sp -> In x sts -> rs_started x = true -> rs_steps x = st :: rest ->
  forall dns, all_steps (rs_q x) = dns ++ st :: rest ->
  let q := rs_q x in
  let x' := {| rs_q := q; rs_started := true; rs_steps := rest; rs_fs := rs_fs x |} in
  exists s' ms sp',
    sim_step s sts (SStep (rid x)) = (s', rst_put x' sts, ms) /\
    mon_act (SStep (rid x)) sp ms = Some sp' /\ GI s' (rst_put x' sts) sp' /\
    Forall (fun m => wm_req m = rid x) ms /\
    ms = (match st with
          | Some (c, h) => [rec_msg (rid x) c h
                              (h && (skipv q <? N.of_nat (length (somes dns)) + 1) && negb (held (rq_dedup q) c sp))
                              (N.of_nat (length (somes dns)) + 1)]
          | None => []
          end) ++
         (match rest with [] => [fin_msg (rid x) (fsof q (forallb snd (somes (dns ++ [st]))))] | _ => [] end) /\
    (forall c h, st = Some (c, h) ->
       h && (skipv q <? N.of_nat (length (somes dns)) + 1) && negb (held (rq_dedup q) c sp) = true ->
       sendable q (somes dns) c h).
Proof.
  intros (HR & Hn & Hall) Hin Hst Hsteps dns Hdns q x'.
  pose proof (proj1 (Forall_forall _ _) Hall) as Hall'.
  destruct (Hall' x Hin) as (Hfs & Hq & dns0 & Hd & _ & Hget).
  assert (dns0 = dns).
  { rewrite Hsteps in Hd. rewrite Hd in Hdns. now apply app_inv_tail in Hdns. }
  subst dns0. clear Hd.
  assert (Hx : sget (rid x) sp = own_rec q (somes dns)) by (apply Hget; [exact Hst | rewrite Hsteps; discriminate]).
  assert (Efind : rst_find (rid x) sts = Some x).
  { destruct (rst_find (rid x) sts) as [y|] eqn:E.
    - destruct (rst_find_in _ _ _ E) as [A B]. f_equal. now apply (nodup_in_eq sts).
    - exfalso. exact (rst_find_none _ _ E x Hin eq_refl). }
  set (r := rid x) in *.
  (* the record part *)
  assert (Hrec : exists s1 sp1 m1 dn1,
            dn1 = somes (dns ++ [st]) /\
            (let '(s1', m1') :=
               match st with
               | Some (c, h) => let '(s', out, _) := lstep s (LRecord r c h) in (s', msg_of (rs_fs x) (LRecord r c h) out)
               | None => (s, [])
               end in (s1', m1')) = (s1, m1) /\
            mon_msgs r sp m1 = Some sp1 /\ LinkTrackerProofs.R s1 sp1 /\
            (rest <> [] -> sget r sp1 = own_rec q dn1) /\
            s_miss (sget r sp1) = any_missing dn1 /\
            Forall (fun y => rid y <> r -> PR sp y -> PR sp1 y) sts /\
            m1 = match st with
                 | Some (c, h) => [rec_msg r c h
                              (h && (skipv q <? N.of_nat (length (somes dns)) + 1) && negb (held (rq_dedup q) c sp))
                              (N.of_nat (length (somes dns)) + 1)]
                 | None => []
                 end).
  { destruct st as [[c h]|].
    - set (send := h && (skipv q <? N.of_nat (length (somes dns)) + 1) && negb (held (rq_dedup q) c sp)).
      set (i := N.of_nat (length (somes dns)) + 1).
      assert (Es : exists sp1, spec_step sp (LRecord r c h) = Some (sp1, OSend send i)).
      { simpl. rewrite Hx. simpl. eexists. reflexivity. }
      destruct Es as (sp1 & Es).
      destruct (lstep_refines _ _ _ _ _ HR Es) as (s1 & El & HR1).
      assert (Hx1 : sget r sp1 = own_rec q (somes dns ++ [(c, h)])).
      { rewrite (sget_step _ _ _ _ r Es). simpl req_of. rewrite N.eqb_refl, Hx. apply upd_own_rec. }
      exists s1, sp1, [rec_msg r c h send i], (somes dns ++ [(c, h)]).
      split; [now rewrite somes_app|]. split; [now rewrite El|]. split; [|split; [exact HR1|split; [|split; [|split]]]].
      + cbn [mon_msgs]. now rewrite (mon_msg_rec _ _ _ _ _ _ _ Es).
      + intros _. exact Hx1.
      + now rewrite Hx1.
      + apply Forall_forall. intros y _ Hne HP. eapply PR_frame; eauto.
      + reflexivity.
    - exists s, sp, [], (somes dns). split; [rewrite somes_app; simpl; now rewrite app_nil_r|].
      split; [reflexivity|]. split; [reflexivity|]. split; [exact HR|]. split; [intros _; exact Hx|].
      split; [now rewrite Hx|]. split; [|reflexivity]. apply Forall_forall. auto. }
  destruct Hrec as (s1 & sp1 & m1 & dn1 & Edn1 & Estep1 & Hmon1 & HR1 & Hget1 & Hmiss1 & Hfr1 & Em1).
  (* the closing part *)
  assert (Hfin : exists s2 sp2 m2,
            (let '(s2', m2') :=
               match rest with
               | [] => let '(s', out, _) := lstep s1 (LFinish r) in (s', msg_of (rs_fs x) (LFinish r) out)
               | _ => (s1, [])
               end in (s2', m2')) = (s2, m2) /\
            mon_msgs r sp1 m2 = Some sp2 /\ LinkTrackerProofs.R s2 sp2 /\
            (rest <> [] -> sp2 = sp1) /\
            Forall (fun y => rid y <> r -> PR sp1 y -> PR sp2 y) sts /\
            m2 = match rest with [] => [fin_msg r (fsof q (forallb snd dn1))] | _ => [] end).
  { destruct rest as [|st2 rest2].
    - assert (Es : spec_step sp1 (LFinish r) = Some (sdel r sp1, OFin (forallb snd dn1))).
      { simpl. now rewrite Hmiss1, forallb_any_missing. }
      destruct (lstep_refines _ _ _ _ _ HR1 Es) as (s2 & El & HR2).
      exists s2, (sdel r sp1), [fin_msg r (fsof q (forallb snd dn1))].
      split; [rewrite El; simpl; now rewrite Hfs|]. split; [|split; [exact HR2|split; [intro H; now contradiction H|split]]].
      + cbn [mon_msgs]. unfold fsof. rewrite (mon_msg_fin _ _ _ _ _ (final_status_not_partial _ _ _) Es). reflexivity.
      + apply Forall_forall. intros y _ Hne HP. eapply PR_frame; eauto.
      + reflexivity.
    - exists s1, sp1, []. split; [reflexivity|]. split; [reflexivity|]. split; [exact HR1|].
      split; [intros _; reflexivity|]. split; [apply Forall_forall; auto | reflexivity]. }
  destruct Hfin as (s2 & sp2 & m2 & Estep2 & Hmon2 & HR2 & Hsame & Hfr2 & Em2).
  exists s2, (m1 ++ m2), sp2. split; [|split; [|split; [|split; [|split]]]].
  - unfold sim_step. rewrite Efind, Hst. cbn [negb]. rewrite Hsteps.
    destruct st as [[c h]|].
    + destruct (lstep s (LRecord r c h)) as [[sa oa] ka] eqn:E1. try rewrite E1 in Estep1.
      inversion Estep1; subst s1 m1.
      destruct rest as [|st2 rest2].
      * destruct (lstep sa (LFinish r)) as [[sb ob] kb] eqn:E2. try rewrite E2 in Estep2.
        inversion Estep2; subst s2 m2. reflexivity.
      * inversion Estep2; subst s2 m2. reflexivity.
    + inversion Estep1; subst s1 m1.
      destruct rest as [|st2 rest2].
      * destruct (lstep s (LFinish r)) as [[sb ob] kb] eqn:E2. try rewrite E2 in Estep2.
        inversion Estep2; subst s2 m2. reflexivity.
      * inversion Estep2; subst s2 m2. reflexivity.
  - simpl. clear -Hmon1 Hmon2. revert sp Hmon1. induction m1 as [|m m1 IH]; intros sp Hmon1; simpl in *.
    + inversion Hmon1; subst. exact Hmon2.
    + destruct (mon_msg r sp m) as [spm|]; [|discriminate]. now apply IH.
  - split; [exact HR2|]. split; [now rewrite map_rid_put|].
    apply Forall_forall. intros y Hy.
    destruct (in_put_cases y x x' sts Hn Hin eq_refl Hy) as [->|[Hy' Hne]].
    + split; [exact Hfs|]. split; [exact Hq|]. exists (dns ++ [st]). split; [|split].
      * simpl. unfold q. rewrite Hdns, <- app_assoc. reflexivity.
      * simpl. discriminate.
      * simpl. intros _ Hrest. rewrite (Hsame Hrest), <- Edn1. now apply Hget1.
    + pose proof (proj1 (Forall_forall _ _) Hfr1 y Hy' Hne) as F1.
      pose proof (proj1 (Forall_forall _ _) Hfr2 y Hy' Hne) as F2. apply F2, F1, Hall'. exact Hy'.
  - apply Forall_app. split.
    + rewrite Em1. destruct st as [[c h]|]; repeat constructor.
    + rewrite Em2. destruct rest; repeat constructor.
  - rewrite Em1, Em2, Edn1. reflexivity.
  - intros c h Est Hsend. subst st.
    apply andb_true_iff in Hsend as [Hsend Hheld]. apply andb_true_iff in Hsend as [Hh Hlt].
    split; [exact Hh|]. split; [now apply N.ltb_lt|].
    intro Hinw. apply negb_true_iff in Hheld.
    rewrite (held_split r (rq_dedup q) c sp (r_nodup _ _ HR)), Hx in Hheld. simpl in Hheld.
    rewrite scope_eqb_refl in Hheld. simpl in Hheld.
    apply existsb_eqb_in' in Hinw. rewrite Hinw in Hheld. discriminate.
Qed.

(* a step that does nothing: unknown request, not started, or already finished *)
Lemma step_noop s sts r :
  (forall x, In x sts -> rid x = r -> rs_started x = false \/ rs_steps x = []) ->
  sim_step s sts (SStep r) = (s, sts, []).
Proof.
  intro H. simpl. destruct (rst_find r sts) as [x|] eqn:E; [|reflexivity].
  destruct (rst_find_in _ _ _ E) as [A B]. destruct (H x A B) as [Hs|Hs]; rewrite Hs; simpl; [reflexivity|].
  destruct (rs_started x); reflexivity.
Qed.

(* ---------- schedules ---------- *)
Definition starts (sched : list sact) : list req :=
  flat_map (fun a => match a with SStart r | SStartPaused r => [r] | SStep _ | SUnpause _ => [] end) sched.

Definition SO (sts : list rst) (sched : list sact) : Prop :=
  NoDup (starts sched) /\
  forall r, In r (starts sched) -> exists x, In x sts /\ rid x = r /\ rs_started x = false.

(* case analysis of one action under the invariant *)
Lemma step_cases s sts sp a sched : GI s sts sp -> SO sts (a :: sched) ->
  exists s' sts' ms sp', sim_step s sts a = (s', sts', ms) /\ mon_act a sp ms = Some sp' /\
    GI s' sts' sp' /\ SO sts' sched /\
    forall x dns, In x sts -> all_steps (rs_q x) = dns ++ rs_steps x ->
      forall tlmsgs,
        (forall x1 dns1, In x1 sts' -> rs_q x1 = rs_q x -> all_steps (rs_q x1) = dns1 ++ rs_steps x1 ->
                         TailX (rs_q x) (rs_started x1) (somes dns1) (rs_steps x1) tlmsgs) ->
        TailX (rs_q x) (rs_started x) (somes dns) (rs_steps x) (filter (fun m => N.eqb (wm_req m) (rid x)) ms ++ tlmsgs).
Proof.
  intros HG (Hnd & Hso).
  destruct HG as (HR & Hn & Hall). pose proof (conj HR (conj Hn Hall)) as HG.
  destruct a as [r|r|r|r].
  - (* start *)
    destruct (Hso r (or_introl eq_refl)) as (x0 & Hin0 & Hr0 & Hns0). subst r.
    destruct (step_start s sts sp x0 [] HG Hin0 Hns0) as (Estep & sp' & Hmon & _ & HG').
    set (x0' := {| rs_q := rs_q x0; rs_started := true; rs_steps := rs_steps x0; rs_fs := rs_fs x0 |}) in *.
    exists (lsteps s (ext_ops (rs_q x0))), (rst_put x0' sts), [], sp'.
    split; [exact Estep|]. split; [exact Hmon|]. split; [exact HG'|]. split.
    + simpl in Hnd. inversion Hnd as [|? ? Hnot Hnd']; subst. split; [exact Hnd'|].
      intros r Hr. destruct (Hso r (or_intror Hr)) as (y & Hy & Ey & Hys). exists y. split; [|auto].
      apply in_put_other; [exact Hy|]. intro E. apply Hnot. rewrite <- Ey in Hr. rewrite E in Hr. exact Hr.
    + intros x dns Hin Hd tlmsgs Htl. simpl.
      destruct (N.eq_dec (rid x) (rid x0)) as [E|E].
      * assert (x = x0) by (now apply (nodup_in_eq sts)). subst x. left. apply tailx_true.
        apply (Htl x0' dns); [now apply (in_put_self x0) | reflexivity | exact Hd].
      * apply (Htl x dns); [now apply in_put_other | reflexivity | exact Hd].
  - (* step *)
    assert (Hso' : forall sts', (forall y, In y sts -> rs_started y = false -> In y sts') -> SO sts' sched).
    { intros sts' Hkeep. split; [exact Hnd|]. intros r' Hr'. destruct (Hso r' Hr') as (y & Hy & Ey & Hys).
      exists y. auto. }
    destruct (rst_find r sts) as [x0|] eqn:Efind.
    2:{ exists s, sts, [], sp. split; [apply step_noop; intros x Hx Ex; exfalso; exact (rst_find_none _ _ Efind x Hx Ex)|].
        split; [reflexivity|]. split; [exact HG|]. split; [apply Hso'; auto|].
        intros x dns Hin Hd tlmsgs Htl. simpl. apply (Htl x dns); auto. }
    destruct (rst_find_in _ _ _ Efind) as [Hin0 Hr0]. subst r.
    destruct (rs_started x0) eqn:Hst0.
    2:{ exists s, sts, [], sp. split.
        { apply step_noop. intros x Hx Ex. left. assert (x = x0) by (now apply (nodup_in_eq sts)). now subst. }
        split; [reflexivity|]. split; [exact HG|]. split; [apply Hso'; auto|].
        intros x dns Hin Hd tlmsgs Htl. simpl. apply (Htl x dns); auto. }
    destruct (rs_steps x0) as [|st rest] eqn:Hsteps0.
    { exists s, sts, [], sp. split.
      { apply step_noop. intros x Hx Ex. right. assert (x = x0) by (now apply (nodup_in_eq sts)). now subst. }
      split; [reflexivity|]. split; [exact HG|]. split; [apply Hso'; auto|].
      intros x dns Hin Hd tlmsgs Htl. simpl. apply (Htl x dns); auto. }
    pose proof (proj1 (Forall_forall _ _) Hall x0 Hin0) as (_ & _ & dns0 & Hd0 & _ & _).
    rewrite Hsteps0 in Hd0.
    destruct (step_load s sts sp x0 st rest HG Hin0 Hst0 Hsteps0 dns0 Hd0)
      as (s' & ms & sp' & Estep & Hmon & HG' & Hreq & Ems & Hsendable).
    set (x0' := {| rs_q := rs_q x0; rs_started := true; rs_steps := rest; rs_fs := rs_fs x0 |}) in *.
    exists s', (rst_put x0' sts), ms, sp'.
    split; [exact Estep|]. split; [exact Hmon|]. split; [exact HG'|]. split.
    + apply Hso'. intros y Hy Hys. apply in_put_other; [exact Hy|]. intro E.
      assert (y = x0) by (now apply (nodup_in_eq sts)). subst y. congruence.
    + intros x dns Hin Hd tlmsgs Htl.
      destruct (N.eq_dec (rid x) (rid x0)) as [E|E].
      * assert (x = x0) by (now apply (nodup_in_eq sts)). subst x.
        assert (Efil : filter (fun m => N.eqb (wm_req m) (rid x0)) ms = ms).
        { clear -Hreq. induction Hreq as [|m ms Hm _ IH]; simpl; [reflexivity|]. now rewrite Hm, N.eqb_refl, IH. }
        rewrite Efil. rewrite Hsteps0 in Hd |- *.
        assert (dns = dns0) by (rewrite Hd0 in Hd; now apply app_inv_tail in Hd). subst dns.
        assert (Hnext : Tail (rs_q x0) (somes (dns0 ++ [st])) rest tlmsgs).
        { apply tailx_true. apply (Htl x0' (dns0 ++ [st])); [now apply (in_put_self x0) | reflexivity|].
          simpl. rewrite Hd0, <- app_assoc. reflexivity. }
        rewrite Ems. unfold rid in *. left.
        destruct st as [[c h]|]; destruct rest as [|st2 rest2]; simpl app.
        -- assert (tlmsgs = []) by (inversion Hnext; reflexivity). subst tlmsgs.
           rewrite somes_app. simpl. apply T_rec_fin. intro Hs. now apply (Hsendable c h).
        -- rewrite somes_app in Hnext. simpl in Hnext. apply T_rec; [discriminate | | exact Hnext].
           intro Hs. now apply (Hsendable c h).
        -- assert (tlmsgs = []) by (inversion Hnext; reflexivity). subst tlmsgs.
           rewrite somes_app. simpl. rewrite app_nil_r. apply T_err_fin.
        -- rewrite somes_app in Hnext. simpl in Hnext. rewrite app_nil_r in Hnext.
           apply T_err; [discriminate | exact Hnext].
      * assert (Efil : filter (fun m => N.eqb (wm_req m) (rid x)) ms = []).
        { clear -Hreq E. induction Hreq as [|m ms Hm _ IH]; simpl; [reflexivity|]. rewrite Hm.
          destruct (N.eqb_spec (rid x0) (rid x)); [congruence | exact IH]. }
        rewrite Efil. simpl. apply (Htl x dns); [now apply in_put_other | reflexivity | exact Hd].
  - (* start of a request paused by the incoming-request hook *)
    destruct (Hso r (or_introl eq_refl)) as (x0 & Hin0 & Hr0 & Hns0). subst r.
    destruct (step_start s sts sp x0 [pause_msg (rid x0)] HG Hin0 Hns0) as (Estep & sp' & _ & Hmon & HG').
    set (x0' := {| rs_q := rs_q x0; rs_started := true; rs_steps := rs_steps x0; rs_fs := rs_fs x0 |}) in *.
    exists (lsteps s (ext_ops (rs_q x0))), (rst_put x0' sts), [pause_msg (rid x0)], sp'.
    split; [exact Estep|]. split; [exact Hmon|]. split; [exact HG'|]. split.
    + simpl in Hnd. inversion Hnd as [|? ? Hnot Hnd']; subst. split; [exact Hnd'|].
      intros r Hr. destruct (Hso r (or_intror Hr)) as (y & Hy & Ey & Hys). exists y. split; [|auto].
      apply in_put_other; [exact Hy|]. intro E. apply Hnot. rewrite <- Ey in Hr. rewrite E in Hr. exact Hr.
    + intros x dns Hin Hd tlmsgs Htl. cbn [filter pause_msg wm_req].
      destruct (N.eqb_spec (rid x0) (rid x)) as [E|E].
      * assert (x = x0) by (now apply (nodup_in_eq sts)). subst x. cbn [app]. right. split; [exact Hns0|].
        exists tlmsgs. split; [reflexivity|]. apply tailx_true.
        apply (Htl x0' dns); [now apply (in_put_self x0) | reflexivity | exact Hd].
      * cbn [app]. apply (Htl x dns); [apply in_put_other; [exact Hin | intro E2; apply E; symmetry; exact E2] | reflexivity | exact Hd].
  - (* unpause: the task is queued, nothing reaches the tracker or the wire *)
    exists s, sts, [], sp. split; [reflexivity|]. split; [reflexivity|]. split; [exact HG|]. split; [split; assumption|].
    intros x dns Hin Hd tlmsgs Htl. simpl. apply (Htl x dns); auto.
Qed.

Lemma msgs_of_cons r a ms tl :
  msgs_of r ((a, ms) :: tl) = filter (fun m => N.eqb (wm_req m) r) ms ++ msgs_of r tl.
Proof. unfold msgs_of. simpl. now rewrite filter_app. Qed.

(* the whole simulation *)
Lemma sim_ok : forall sched s sts sp, GI s sts sp -> SO sts sched ->
  mon_tl reqs sp (sim s sts sched) = true /\
  forall x dns, In x sts -> all_steps (rs_q x) = dns ++ rs_steps x ->
    TailX (rs_q x) (rs_started x) (somes dns) (rs_steps x) (msgs_of (rid x) (sim s sts sched)).
Proof.
  induction sched as [|a sched IH]; intros s sts sp HG HS.
  - split; [reflexivity|]. intros. left. apply T_stop.
  - destruct (step_cases s sts sp a sched HG HS) as (s' & sts' & ms & sp' & Estep & Hmon & HG' & HS' & Htail).
    destruct (IH s' sts' sp' HG' HS') as [IH1 IH2].
    simpl sim. rewrite Estep. split.
    + rewrite mon_tl_cons, Hmon. exact IH1.
    + intros x dns Hin Hd. rewrite msgs_of_cons. apply (Htail x dns Hin Hd).
      intros x1 dns1 Hin1 Eq Hd1. rewrite <- Eq.
      replace (rid x) with (rid x1) by (unfold rid; now rewrite Eq). now apply IH2.
Qed.

End Mon.

(* ---------- the theorem ---------- *)
Lemma rq_find_in reqs q : NoDup (map rq_id reqs) -> In q reqs -> rq_find (rq_id q) reqs = Some q.
Proof.
  induction reqs as [|y reqs IH]; simpl; intros Hn Hin; [contradiction|].
  inversion Hn as [|? ? Hnot Hn']; subst. destruct Hin as [->|Hin]; [now rewrite N.eqb_refl|].
  destruct (N.eqb_spec (rq_id y) (rq_id q)) as [E|E]; [|now apply IH].
  exfalso. apply Hnot. rewrite E. now apply in_map.
Qed.

Theorem c03_monitor (St : cid -> sres) (reqs : list rreq) (sched : list sact) :
  NoDup (map rq_id reqs) -> NoDup (starts sched) -> incl (starts sched) (map rq_id reqs) ->
  let tl := sim plt_new (map (rst_init true St) reqs) sched in
  monitor_C03 St reqs tl = true /\ forallb (mon24_req tl) reqs = true.
Proof.
  intros Hn Hns Hincl tl.
  set (sts := map (rst_init true St) reqs) in *.
  assert (Hids : map (rid) sts = map rq_id reqs).
  { unfold sts. rewrite map_map. apply map_ext. intro q. now rewrite rst_init_eq. }
  assert (HG : GI St reqs plt_new sts []).
  { split; [exact R_init|]. split; [now rewrite Hids|].
    apply Forall_forall. intros x Hx. unfold sts in Hx. apply in_map_iff in Hx as (q & <- & Hq).
    rewrite rst_init_eq. split; [reflexivity|]. split; [simpl; now apply rq_find_in|].
    exists []. simpl. repeat split; try reflexivity. discriminate. }
  assert (HS : SO sts sched).
  { split; [exact Hns|]. intros r Hr. apply Hincl in Hr. apply in_map_iff in Hr as (q & <- & Hq).
    exists (rst_init true St q). split; [unfold sts; now apply in_map|]. rewrite rst_init_eq. auto. }
  destruct (sim_ok St reqs sched plt_new sts [] HG HS) as [H1 H2]. fold tl in H1, H2.
  assert (HT : forall q, In q reqs -> TailX St q false [] (all_steps St q) (msgs_of (rq_id q) tl)).
  { intros q Hq. specialize (H2 (rst_init true St q) []).
    rewrite rst_init_eq in H2. simpl in H2. apply H2; [|reflexivity].
    rewrite <- rst_init_eq. unfold sts. now apply in_map. }
  split.
  - unfold monitor_C03. rewrite H1. simpl. apply forallb_forall. intros q Hq. apply tail_mon_req. now apply HT.
  - apply forallb_forall. intros q Hq. apply (tail_mon24 St). now apply HT.
Qed.
