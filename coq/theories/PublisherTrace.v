(* PublisherTrace.v — executable definitions for the per-subscription reading of C18 (no proofs here, so the
   correspondence run can evaluate them whatever happens to a proof): the projections of one subscriber's
   deliveries onto one topic, the two-bit specification automaton of one subscription, and the check that an
   observed history (of the model or of the Go publisher) shows, for every observed subscriber and every topic
   named in the calls, exactly the automaton's trace. *)
From Coq Require Import List NArith Bool Arith.
From GS Require Import Base Publisher.
Import ListNotations.
Open Scope N_scope.

(* projections of what a subscriber received during one call *)
Definition nexts (t : topic) (evs : list pev) : list N :=
  flat_map (fun e => match e with ENext t' x => if N.eqb t' t then [x] else [] | EClose _ => [] end) evs.
Definition closed_topics (evs : list pev) : list topic :=
  flat_map (fun e => match e with EClose t' => [t'] | ENext _ _ => [] end) evs.
Definition nclose (t : topic) (evs : list pev) : nat := count_occ N.eq_dec (closed_topics evs) t.

(* the specification automaton of ONE subscription (t, s): (publisher closed, subscription active) *)
Definition sub_step (t : topic) (s : subr) (st : bool * bool) (o : pop) : bool * bool :=
  let '(cl, b) := st in
  if cl then (true, b)
  else match o with
       | PSubscribe t' s' => (false, b || (N.eqb t' t && N.eqb s' s))
       | PUnsubscribe s' => (false, b && negb (N.eqb s' s))
       | PPublish _ _ => (false, b)
       | PClose t' => (false, b && negb (N.eqb t' t))
       | PShutdown => (true, false)
       end.
Definition live (st : bool * bool) : bool := negb (fst st) && snd st.
Definition exp_next (t : topic) (st : bool * bool) (o : pop) : list N :=
  match o with PPublish t' e => if live st && N.eqb t' t then [e] else [] | _ => [] end.
Definition exp_close (t : topic) (s : subr) (st : bool * bool) (o : pop) : nat :=
  if live st && negb (live (sub_step t s st o)) then 1%nat else 0%nat.
Fixpoint exp_trace (t : topic) (s : subr) (st : bool * bool) (ops : list pop) : list (list N * nat) :=
  match ops with
  | [] => []
  | o :: rest => (exp_next t st o, exp_close t s st o) :: exp_trace t s (sub_step t s st o) rest
  end.
Definition seen_trace (t : topic) (obsl : list pobs) : list (list N * nat) :=
  map (fun ob => (nexts t (hd [] ob), nclose t (hd [] ob))) obsl.


(* the same projection for the i-th subscriber of a larger observed universe *)
Definition col_trace (t : topic) (i : nat) (obsl : list pobs) : list (list N * nat) :=
  map (fun ob => (nexts t (nth i ob []), nclose t (nth i ob []))) obsl.

Definition trace_eqb (a b : list (list N * nat)) : bool :=
  list_eqb (fun x y => list_eqb N.eqb (fst x) (fst y) && Nat.eqb (snd x) (snd y)) a b.
Definition op_topics (o : pop) : list topic :=
  match o with PSubscribe t _ => [t] | PPublish t _ => [t] | PClose t => [t] | _ => [] end.
(* every observed subscriber, every topic named in the calls: the observed history is the automaton's trace *)
Definition pcase_hist (c : pcase) : bool :=
  let ts := flat_map op_topics (pc_ops c) in
  forallb (fun '(i, s) =>
             forallb (fun t => trace_eqb (col_trace t i (pc_obs c)) (exp_trace t s (false, false) (pc_ops c))) ts)
          (combine (seq 0 (length (pc_univ c))) (pc_univ c)).
