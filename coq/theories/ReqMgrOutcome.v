(* ReqMgrOutcome.v — history-level outcome theorems for status-derived terminal errors (C04 S3, S4). *)
From Coq Require Import List NArith Bool Arith Lia.
From GS Require Import Base ReqMgr ReqMgrProofs ReqMgrCC ReqMgrInv ReqMgrAbs ReqMgrAbsK ReqMgrAbsV ReqMgrInvK ReqMgrCount.
Import ListNotations.
Open Scope nat_scope.

Definition is_stat (e : err) : bool := match e with ErrStatus _ => true | _ => false end.
Definition is_statn (n : N) (e : err) : bool := match e with ErrStatus m => N.eqb m n | _ => false end.

(* number of deliveries on the returned error channel of errors selected by P *)
Notation delivered := dP.
(* number of steps of the run at which the loop records an error selected by P as the FIRST terminal error
   of the request (a failure status processed while the request is in the table, no response-hook error) *)
Notation recorded := created.

(* tokens are gone once the error channel is closed and the caller never cancelled *)
Lemma T_zero P pl ls s es :
  run (init pl) ls = Some (s, es) -> cctx s = false -> ec s = ECExit -> T P s = 0.
Proof.
  intros R C X. unfold T.
  assert (iclosed s = true) as IC.
  { pose proof (cinv_reach _ _ _ _ R) as CI. unfold cinv in CI. rewrite X, C in CI.
    destruct (rc s) as [[|]|[|] [|] [|]|], (iclosed s); simpl in CI; try discriminate CI; reflexivity. }
  destruct (closed_entry_gone _ _ _ _ R IC) as [E _]. rewrite E. simpl.
  rewrite (Jx_reach _ _ _ _ R X). reflexivity.
Qed.

Section Out.
Variable P : err -> bool.
Hypothesis P_cc : P ErrCC = false.
Hypothesis P_hook : P ErrHook = false.
Hypothesis P_miss : P ErrMissing = false.
Hypothesis P_hard : P ErrHard = false.

Theorem delivered_le_recorded pl ls s es :
  run (init pl) ls = Some (s, es) -> delivered P es <= recorded P (init pl) ls /\ recorded P (init pl) ls <= 1.
Proof.
  intro R. destruct (run_T P P_cc P_hook P_miss P_hard _ _ _ _ R (X1_init P pl) eq_refl) as [I _].
  pose proof (created_le P ls (init pl)) as C. simpl in C.
  assert (T P (init pl) = 0) as T0 by reflexivity. rewrite T0 in I. lia.
Qed.

Theorem delivered_eq_recorded pl ls s es :
  run (init pl) ls = Some (s, es) -> cctx s = false -> ec s = ECExit ->
  delivered P es = recorded P (init pl) ls.
Proof.
  intros R C X. destruct (run_T P P_cc P_hook P_miss P_hard _ _ _ _ R (X1_init P pl) eq_refl) as [_ E].
  specialize (E C). rewrite (T_zero P _ _ _ _ R C X) in E.
  assert (T P (init pl) = 0) as T0 by reflexivity. rewrite T0 in E. lia.
Qed.
End Out.

(* S3: at most one status-derived error is ever delivered, whatever happens *)
Theorem c04_status_error_at_most_once pl ls s es :
  run (init pl) ls = Some (s, es) -> delivered is_stat es <= 1.
Proof.
  intro R. destruct (delivered_le_recorded is_stat eq_refl eq_refl eq_refl eq_refl _ _ _ _ R). lia.
Qed.

(* S3: if the caller never cancels its context, then by the time the returned error channel is closed
   AsError(n) has been delivered exactly as many times (0 or 1) as failure status n was recorded as the
   first terminal error; and no other status error has been delivered *)
Theorem c04_failure_status_exactly_once pl ls s es n :
  run (init pl) ls = Some (s, es) -> cctx s = false -> ec s = ECExit ->
  delivered (is_statn n) es = recorded (is_statn n) (init pl) ls /\
  recorded (is_statn n) (init pl) ls <= 1 /\
  delivered is_stat es = recorded is_stat (init pl) ls.
Proof.
  intros R C X. split; [|split].
  - exact (delivered_eq_recorded (is_statn n) eq_refl eq_refl eq_refl eq_refl _ _ _ _ R C X).
  - apply (delivered_le_recorded (is_statn n) eq_refl eq_refl eq_refl eq_refl _ _ _ _ R).
  - exact (delivered_eq_recorded is_stat eq_refl eq_refl eq_refl eq_refl _ _ _ _ R C X).
Qed.

(* S4: without a failure status recorded as first terminal error (in particular after a success status
   only) no status-derived terminal error is delivered, ever *)
Theorem c04_no_failure_no_status_error pl ls s es :
  run (init pl) ls = Some (s, es) -> recorded is_stat (init pl) ls = 0 -> delivered is_stat es = 0.
Proof.
  intros R Z. destruct (delivered_le_recorded is_stat eq_refl eq_refl eq_refl eq_refl _ _ _ _ R). lia.
Qed.

(* ---------- a run whose environment sends no failure status records none ---------- *)
Definition fail_msg (m : msg) : bool :=
  match m with MResp r => match r_status r with SFail _ => true | _ => false end | _ => false end.
Definition fail_label (l : label) : bool :=
  match l with LEnvResp r => match r_status r with SFail _ => true | _ => false end | _ => false end.
Definition nofail (s : st) : Prop := forallb (fun m => negb (fail_msg m)) (mbox s) = true.

Lemma coe_mbox e eo s : mbox (cancel_on_error e eo s) = mbox s.
Proof. unfold cancel_on_error, terminate, term2, term3. destruct (e_state e), (e_terr e), eo, (e_started e); reflexivity. Qed.
Lemma terminate_mbox e rel s : mbox (terminate e rel s) = mbox s.
Proof. unfold terminate, term2, term3. destruct (e_terr e), (e_started e), rel; reflexivity. Qed.
Lemma term2_mbox a rel s : mbox (term2 a rel s) = mbox s.
Proof. unfold term2, term3. destruct a, rel; reflexivity. Qed.
Lemma handle_mbox m s s1 e1 : handle m s = Some (s1, e1) -> mbox s1 = mbox s.
Proof.
  unfold handle. intro H. dm H; inv H; simpl; rewrite ?coe_mbox, ?terminate_mbox; simpl; auto;
    repeat match goal with |- context [cancel_on_error ?a ?b ?c] => rewrite (coe_mbox a b c) end; simpl; auto.
Qed.

Lemma forallb_snoc {A} (f : A -> bool) l x : forallb f (l ++ [x]) = forallb f l && f x.
Proof. rewrite forallb_app. simpl. rewrite andb_true_r. reflexivity. Qed.

Lemma raw_nofail s l s1 e1 :
  step_raw s l = Some (s1, e1) -> fail_label l = false -> nofail s -> nofail s1.
Proof.
  unfold nofail. intros H F N. destruct l; simpl in H; try (inv H; simpl; rewrite ?forallb_snoc, ?N; simpl; auto; fail).
  - inv H. simpl. rewrite forallb_snoc, N. simpl in F. simpl. destruct (r_status r); [reflexivity | reflexivity | discriminate F].
  - dm H; inv H; simpl; auto.
  - dm H; inv H; simpl; auto.
  - destruct (lpc s); try discriminate H.
    + destruct (mbox s) as [|m r] eqn:M; [discriminate H|]. apply handle_mbox in H. simpl in H. rewrite H.
      simpl in N. apply andb_true_iff in N as [_ N]. exact N.
    + destruct (trav s); try discriminate H. inv H. unfold term3. destruct rel; simpl; exact N.
  - dm H; inv H; simpl; auto.
  - unfold exec_step, after_err, trav_ok, trav_skip in H. dm H; inv H; simpl; rewrite ?forallb_snoc, ?N; auto.
  - dm H; try (inv H; simpl; auto; fail). unfold recv_visit in Heqo. dm Heqo; inv Heqo; inv H; simpl; auto.
  - dm H. inv H. assert (mbox s1 = mbox s2) as Q by (unfold recv_err in Heqo0; dm Heqo0; inv Heqo0; reflexivity).
    rewrite Q. unfold send_err, trav_skip in Heqo. dm Heqo; inv Heqo; simpl; rewrite ?term2_mbox; auto.
  - dm H; inv H; simpl; rewrite ?forallb_snoc, ?N; auto.
  - dm H; inv H; simpl; auto.
Qed.

Lemma norm_mbox s1 e1 : mbox (fst (with_norm (s1, e1))) = mbox s1.
Proof.
  unfold with_norm, rc_norm, ec_norm.
  destruct (rc s1) as [[|]|[|] [|] [|]|]; simpl; try destruct (Nat.eqb (rbuf s1) 0); simpl;
    destruct (ec s1) as [[|]|[|]|]; simpl; try destruct (ebuf s1); reflexivity.
Qed.

Lemma creates_nofail P s l : nofail s -> creates P s l = 0.
Proof.
  unfold nofail, creates. intro N. destruct l; auto. destruct (lpc s); auto. destruct (mbox s) as [|[]]; auto.
  destruct (ent s) as [en|]; auto. destruct (e_terr en); auto. simpl in N. destruct (r_status r); auto. discriminate N.
Qed.

Theorem recorded_zero P : forall ls s,
  nofail s -> forallb (fun l => negb (fail_label l)) ls = true -> created P s ls = 0.
Proof.
  induction ls as [|l ls IH]; intros s N F; simpl; [reflexivity|].
  simpl in F. apply andb_true_iff in F as [F1 F2]. apply negb_true_iff in F1.
  rewrite (creates_nofail P s l N). destruct (step s l) as [[s1 e1]|] eqn:S; [|reflexivity].
  simpl. apply IH; [|exact F2].
  unfold step in S. destruct (step_raw s l) as [[sa ea]|] eqn:R; [|discriminate].
  pose proof (raw_nofail _ _ _ _ R F1 N) as N1. pose proof (norm_mbox sa ea) as Q.
  destruct (with_norm (sa, ea)) as [sb eb]. inv S. unfold nofail in *. simpl in Q. rewrite Q. exact N1.
Qed.

(* S4, in terms of the environment: if the responder never sends a failure status (partial and success
   statuses only, any number, any interleaving with cancels, pauses, hook errors), no status-derived
   terminal error is ever delivered *)
Theorem c04_success_only_no_status_error pl ls s es :
  run (init pl) ls = Some (s, es) -> forallb (fun l => negb (fail_label l)) ls = true -> delivered is_stat es = 0.
Proof.
  intros R F. apply (c04_no_failure_no_status_error _ _ _ _ R). apply recorded_zero; [reflexivity | exact F].
Qed.
