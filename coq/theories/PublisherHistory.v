(* PublisherHistory.v — C18 read off per subscription: from the refinement theorem (monitor_C18 accepts every
   run of the publisher model) to the statement of the property in its own words.  For one subscriber [s] and
   one topic [t] the expected trace is computed from the calls alone by a two-bit automaton
   (publisher shut down?, subscription (t,s) active?); the theorem says that, call by call, what [s] is handed
   for [t] is exactly: the event of a publish on [t] while the subscription is active, one close when the
   subscription ends (topic closed, [s] unsubscribed, or shutdown), and nothing otherwise. *)
From Coq Require Import List NArith Bool Lia Arith.
From GS Require Import Base Publisher PublisherTrace PublisherProofs.
Import ListNotations.
Open Scope N_scope.

(* ---- closes_exactly: one close per listed topic, nothing else ---- *)
Lemma pev_eqb_eq a b : pev_eqb a b = true <-> a = b.
Proof.
  destruct a as [t e|t], b as [u f|u]; cbn [pev_eqb]; try (split; [discriminate | discriminate]).
  - rewrite andb_true_iff, !N.eqb_eq. split; [intros [-> ->]; reflexivity | intros H; injection H; auto].
  - rewrite N.eqb_eq. split; [intros ->; reflexivity | intros H; injection H; auto].
Qed.

Lemma all_close_nexts t evs : forallb is_close evs = true -> nexts t evs = [].
Proof.
  induction evs as [|e evs IH]; cbn [forallb nexts flat_map]; [reflexivity|].
  rewrite andb_true_iff. intros [He Hr]. destruct e as [u x|u]; [discriminate|].
  cbn [app]. apply IH, Hr.
Qed.

Lemma all_close_length evs : forallb is_close evs = true -> length (closed_topics evs) = length evs.
Proof.
  induction evs as [|e evs IH]; cbn [forallb closed_topics flat_map length]; [reflexivity|].
  rewrite andb_true_iff. intros [He Hr]. destruct e as [u x|u]; [discriminate|].
  cbn [app length]. f_equal. apply IH, Hr.
Qed.

Lemma in_closed_topics u evs : In (EClose u) evs -> In u (closed_topics evs).
Proof. intro H. unfold closed_topics. apply in_flat_map. exists (EClose u). split; [exact H | left; reflexivity]. Qed.

Lemma closes_exactly_count t ts evs : NoDup ts -> closes_exactly ts evs = true ->
  nexts t evs = [] /\ nclose t evs = if mem t ts then 1%nat else 0%nat.
Proof.
  intros Hnd H. unfold closes_exactly in H. rewrite !andb_true_iff in H. destruct H as [[Hlen Hcl] Hall].
  apply Nat.eqb_eq in Hlen. split; [apply all_close_nexts, Hcl|].
  pose proof (all_close_length evs Hcl) as Hl.
  assert (Hincl : incl ts (closed_topics evs)).
  { intros u Hu. rewrite forallb_forall in Hall. specialize (Hall u Hu).
    apply existsb_exists in Hall. destruct Hall as [e [He Heq]]. apply pev_eqb_eq in Heq. subst e.
    apply in_closed_topics, He. }
  assert (Hle : (length (closed_topics evs) <= length ts)%nat) by lia.
  pose proof (NoDup_incl_NoDup Hnd Hle Hincl) as Hnd'.
  pose proof (NoDup_length_incl Hnd Hle Hincl) as Hincl'.
  unfold nclose. destruct (mem t ts) eqn:Hm.
  - apply mem_in in Hm. apply (proj1 (NoDup_count_occ' N.eq_dec _) Hnd'), Hincl, Hm.
  - apply count_occ_not_In. intro Hin. apply Hincl', mem_in in Hin. congruence.
Qed.

Lemma all_empty_hd (ob : pobs) :
  forallb (fun evs : list pev => match evs with [] => true | _ => false end) ob = true -> hd [] ob = [].
Proof. destruct ob as [|[|e evs] ob]; cbn; [reflexivity | reflexivity | discriminate]. Qed.

Lemma nclose_nil t : nclose t [] = 0%nat. Proof. reflexivity. Qed.

(* one call: whatever observation the specification monitor accepts shows, for subscription (t,s), exactly the
   expected events, and the monitor's active set moves like the two-bit automaton *)
Lemma spec_step_sub t s cl a o ob cl' a' :
  NoDup a -> spec_pstep cl a [s] o ob = (cl', a', true) ->
  NoDup a' /\
  sub_step t s (cl, is_active t s a) o = (cl', is_active t s a') /\
  nexts t (hd [] ob) = exp_next t (cl, is_active t s a) o /\
  nclose t (hd [] ob) = exp_close t s (cl, is_active t s a) o.
Proof.
  intros Hnd H. unfold spec_pstep in H. unfold exp_close.
  destruct cl.
  { injection H as <- <- Hob. rewrite (all_empty_hd _ Hob).
    split; [exact Hnd|]. split; [reflexivity|]. split; [destruct o; reflexivity | reflexivity]. }
  destruct o as [t' s'|s'|t' e|t'|].
  - (* subscribe *)
    injection H as <- <- Hob. rewrite (all_empty_hd _ Hob).
    split; [apply nodup_act_add, Hnd|]. cbn [sub_step exp_next live fst snd negb andb].
    rewrite is_active_add. unfold pair_eqb. cbn [fst snd].
    rewrite (N.eqb_sym t t'), (N.eqb_sym s s').
    split; [reflexivity|]. split; [reflexivity|].
    rewrite nclose_nil. destruct (is_active t s a), (N.eqb t' t && N.eqb s' s); reflexivity.
  - (* unsubscribe *)
    injection H as <- <- Hob. rewrite andb_true_iff in Hob. destruct Hob as [Hlen Hall].
    destruct ob as [|evs [|x ob]]; cbn [length] in Hlen; try discriminate.
    cbn [combine forallb] in Hall. rewrite andb_true_r in Hall. cbn [hd].
    split; [apply NoDup_filter, Hnd|]. cbn [sub_step exp_next live fst snd negb andb].
    rewrite is_active_filter. cbn [snd]. rewrite (N.eqb_sym s s').
    split; [reflexivity|]. split.
    + destruct (N.eqb s' s) eqn:E.
      * apply N.eqb_eq in E. subst s'. rewrite N.eqb_refl in Hall.
        apply (closes_exactly_count t _ _ (nodup_topics_of s a Hnd)) in Hall. apply Hall.
      * rewrite N.eqb_sym in E. rewrite E in Hall. destruct evs; [reflexivity | discriminate].
    + destruct (N.eqb s' s) eqn:E.
      * apply N.eqb_eq in E. subst s'. rewrite N.eqb_refl in Hall.
        apply (closes_exactly_count t _ _ (nodup_topics_of s a Hnd)) in Hall. destruct Hall as [_ ->].
        rewrite mem_topics_of. destruct (is_active t s a); reflexivity.
      * rewrite N.eqb_sym in E. rewrite E in Hall. destruct evs; [|discriminate].
        rewrite nclose_nil. destruct (is_active t s a); reflexivity.
  - (* publish *)
    injection H as <- <- Hob. apply (list_eqb_eq _ (list_eqb_eq _ pev_eqb_eq)) in Hob. subst ob.
    split; [exact Hnd|]. cbn [sub_step exp_next live fst snd negb andb map hd].
    split; [reflexivity|]. destruct (N.eqb t' t) eqn:E.
    + apply N.eqb_eq in E. subst t'. destruct (is_active t s a); cbn [nexts flat_map app andb].
      * rewrite N.eqb_refl. split; reflexivity.
      * split; reflexivity.
    + destruct (is_active t' s a); cbn [nexts flat_map app andb].
      * rewrite E, andb_false_r. split; [reflexivity|].
        destruct (is_active t s a); reflexivity.
      * rewrite andb_false_r. split; [reflexivity|]. destruct (is_active t s a); reflexivity.
  - (* close topic *)
    injection H as <- <- Hob. apply (list_eqb_eq _ (list_eqb_eq _ pev_eqb_eq)) in Hob. subst ob.
    split; [apply NoDup_filter, Hnd|]. cbn [sub_step exp_next live fst snd negb andb map hd].
    rewrite is_active_filter. cbn [fst]. rewrite (N.eqb_sym t t').
    split; [reflexivity|]. destruct (N.eqb t' t) eqn:E.
    + apply N.eqb_eq in E. subst t'. destruct (is_active t s a).
      * split; [reflexivity|]. unfold nclose. cbn [closed_topics flat_map app count_occ].
        destruct (N.eq_dec t t); [reflexivity | congruence].
      * split; reflexivity.
    + destruct (is_active t' s a).
      * split; [reflexivity|]. unfold nclose. cbn [closed_topics flat_map app count_occ].
        destruct (N.eq_dec t' t) as [->|_]; [rewrite N.eqb_refl in E; discriminate|].
        destruct (is_active t s a); reflexivity.
      * split; [reflexivity|]. rewrite nclose_nil. destruct (is_active t s a); reflexivity.
  - (* shutdown *)
    injection H as <- <- Hob. rewrite andb_true_iff in Hob. destruct Hob as [Hlen Hall].
    destruct ob as [|evs [|x ob]]; cbn [length] in Hlen; try discriminate.
    cbn [combine forallb] in Hall. rewrite andb_true_r in Hall. cbn [hd].
    apply (closes_exactly_count t _ _ (nodup_topics_of s a Hnd)) in Hall. destruct Hall as [Hn Hc].
    split; [constructor|]. cbn [sub_step exp_next live fst snd negb andb is_active existsb].
    split; [reflexivity|]. split; [exact Hn|]. rewrite Hc, mem_topics_of.
    destruct (is_active t s a); reflexivity.
Qed.

Lemma monitor18_trace t s : forall ops obsl cl a, NoDup a ->
  monitor18 cl a [s] ops obsl = true ->
  seen_trace t obsl = exp_trace t s (cl, is_active t s a) ops.
Proof.
  induction ops as [|o ops IH]; intros obsl cl a Hnd H; destruct obsl as [|ob obsl]; cbn [monitor18] in H;
    try discriminate; [reflexivity|].
  destruct (spec_pstep cl a [s] o ob) as [[cl' a'] ok] eqn:Hs.
  rewrite andb_true_iff in H. destruct H as [Hok Hrest]. subst ok.
  destruct (spec_step_sub t s cl a o ob cl' a' Hnd Hs) as [Hnd' [Hst [Hn Hc]]].
  cbn [seen_trace map exp_trace]. rewrite Hn, Hc, Hst. f_equal.
  apply (IH obsl cl' a' Hnd' Hrest).
Qed.

(* The property, per subscription, for every history of calls: call by call, subscriber [s] receives for topic
   [t] exactly the events published on [t] while its subscription is active (so: in publication order, none
   before it subscribed, none after the topic was closed / it unsubscribed / the publisher shut down), and
   exactly one close at the call that ends the subscription. *)
Theorem c18_history t s ops :
  seen_trace t (prun [s] pub_new ops) = exp_trace t s (false, false) ops.
Proof.
  change (false, false) with (false, is_active t s []).
  apply monitor18_trace; [constructor | apply c18_monitor].
Qed.

(* Aggregated over the whole history: the ordered list of [t]-events [s] ever received, and how many times it
   was told that (t, s) ended. *)
Definition all_nexts (t : topic) (s : subr) (ops : list pop) : list N :=
  flat_map fst (seen_trace t (prun [s] pub_new ops)).
Definition all_closes (t : topic) (s : subr) (ops : list pop) : nat :=
  fold_right Nat.add 0%nat (map snd (seen_trace t (prun [s] pub_new ops))).
Corollary c18_history_totals t s ops :
  all_nexts t s ops = flat_map fst (exp_trace t s (false, false) ops) /\
  all_closes t s ops = fold_right Nat.add 0%nat (map snd (exp_trace t s (false, false) ops)).
Proof. unfold all_nexts, all_closes. rewrite c18_history. split; reflexivity. Qed.

(* the automaton never reports an event or a close after shutdown, nor while the subscription is not active *)
Lemma exp_trace_dead t s : forall ops b, exp_trace t s (true, b) ops = map (fun _ => ([], 0%nat)) ops.
Proof.
  induction ops as [|o ops IH]; intro b; cbn [exp_trace map]; [reflexivity|].
  rewrite <- (IH b). unfold exp_close, live. cbn [sub_step fst snd negb andb]. f_equal.
  destruct o; reflexivity.
Qed.

(* ---- the same for the i-th subscriber of any observed universe ---- *)
Lemma nth_pobserve univ i s out : nth_error univ i = Some s -> nth i (pobserve univ out) [] = events_of s out.
Proof.
  intro H. unfold pobserve. apply nth_error_nth.
  apply (map_nth_error (fun s0 => events_of s0 out)), H.
Qed.

Lemma col_trace_single t univ i s : nth_error univ i = Some s -> forall ops p,
  col_trace t i (prun univ p ops) = seen_trace t (prun [s] p ops).
Proof.
  intro H. induction ops as [|o ops IH]; intro p; cbn [prun]; [reflexivity|].
  destruct (pstep p o) as [p' out]. cbn [col_trace seen_trace map]. f_equal.
  - rewrite (nth_pobserve univ i s out H). reflexivity.
  - apply IH.
Qed.

Theorem c18_history_univ t univ i s ops : nth_error univ i = Some s ->
  col_trace t i (prun univ pub_new ops) = exp_trace t s (false, false) ops.
Proof. intro H. rewrite (col_trace_single t univ i s H). apply c18_history. Qed.
