(* C06Again.v — going online again from ANY offline state of a paused-and-resumed request (stale queue, path
   tracker set, errors recorded): SetRemoteOnline(true) clears the queue and creates the verifier over the whole
   record, the request carries do-not-send-first-blocks = blocks loaded so far (possibly fewer than the links the
   verifier will reach: failed loads), RetryLastLoad replays the response — under any chunking and delivery —
   and leaves the loader in the online state of C02Chunks with the rest of the stream. *)
From Coq Require Import List Arith NArith Bool Lia ZifyBool ZifyNat ZifyN.
From GS Require Import Base Ltree RecLoader ReqExec RecLoaderProofs C02Online C02Chunks C02Prefix C02Trie C02Replay C02Quiet C02PrefixProofs.
From GS Require Import PauseExec PauseProofs C06Frame C06Stale.
Import ListNotations.
Open Scope N_scope.
Local Arguments N.add : simpl never.

(* the replay looks at links and actions only *)
Lemma vreplay_same_md T : forall A A' v u vf u',
  map strip A = map strip A' ->
  (forall rest, vreplay T v u (A' ++ rest) = Some (vf, u', rest)) ->
  forall rest, vreplay T v u (A ++ rest) = Some (vf, u', rest).
Proof.
  induction A as [|a A IH]; intros A' v u vf u' Hm H rest.
  - destruct A'; [|discriminate]. apply H.
  - destruct A' as [|a' A']; [discriminate|]. cbn [map] in Hm. unfold strip at 1 3 in Hm. injection Hm as El Ea Hm.
    pose proof (H []) as Hnil. cbn [app vreplay] in Hnil |- *.
    destruct (vdone T v) eqn:Ed; [inversion Hnil|].
    rewrite El, Ea. destruct (verify_next T v (i_link a') (did_follow (i_act a'))) as [e|v1] eqn:Ev; [discriminate|].
    apply (IH A' v1 _ vf u' Hm). intro rest'. specialize (H rest'). cbn [app vreplay] in H. now rewrite Ed, Ev in H.
Qed.

Lemma seen_after_ext its : forall s1 s2, (forall c, existsb (N.eqb c) s1 = existsb (N.eqb c) s2) ->
  forall c, existsb (N.eqb c) (seen_after s1 its) = existsb (N.eqb c) (seen_after s2 its).
Proof.
  induction its as [|it its IH]; intros s1 s2 H c; [apply H|]. cbn [seen_after].
  destruct (i_act it); try (now apply IH). apply IH. intro c0. cbn. now rewrite H.
Qed.

Section Again.
  Variable t0 : ltree.
  Variable R : store.
  Variable sizes : list nat.
  Notation E := (exec_ask proper_prefix (honest t0 R sizes) 0).
  Notation F0 := (fst (emit_tree R t0 [])).

  Lemma exec_miss x p c x1 p' c' l :
    load_call proper_prefix x p c = (x1, Some (RErr (EMissing p' c') l)) -> x_sent x1 = false -> x_cancelled x1 = false ->
    E x p c = xfinish p c (retry_call proper_prefix (go_online (honest t0 R sizes) 0 x1)).
  Proof. intros El Hs Hc. unfold exec_ask. rewrite El, Hs, Hc. unfold xfinish. reflexivity. Qed.

  Lemma enter_replay X2 p c chunks seen0 T v0 vf u S' :
    x_feed X2 = mkfeed chunks -> inv3 R seen0 chunks X2 -> stq X2 = [] ->
    r_verifier (x_rl X2) = Some v0 -> r_record (x_rl X2) = T -> r_last (x_rl X2) = None ->
    vreplay T v0 (unf X2) (concat chunks) = Some (vf, u, S') ->
    exists pre chunks' x2,
      load_call proper_prefix X2 p c = load_wait proper_prefix (mkfeed chunks') x2 p c /\ concat chunks = pre ++ S' /\
      inv2 R (seen_after seen0 pre) chunks' x2 /\ stq x2 ++ concat chunks' = S' /\ unf x2 = u /\
      x_store x2 = x_store X2 /\ x_errs x2 = x_errs X2.
  Proof.
    intros Hf Hi Hq Hv Hr Hl Hrp. unfold load_call. destruct (pop_sched X2) as [n x0] eqn:Ep.
    assert (H0 : x_feed x0 = mkfeed chunks /\ inv3 R seen0 chunks x0 /\ stq x0 = [] /\ unf x0 = unf X2 /\
                 x_store x0 = x_store X2 /\ x_errs x0 = x_errs X2 /\ r_verifier (x_rl x0) = Some v0 /\
                 r_record (x_rl x0) = T /\ r_last (x_rl x0) = None).
    { unfold pop_sched in Ep. destruct (x_sched X2); inversion Ep; subst; cbn; auto 12. }
    destruct H0 as (Hf0 & Hi0 & Hq0 & Hu0 & Hs0 & He0 & Hv0 & Hr0 & Hl0).
    destruct (deliver_n3 R seen0 n chunks x0 Hf0 Hi0) as (chunks1 & A & B & C & D & F & G & V & W & Z).
    remember (deliver_n n x0) as x1 eqn:Ex1. clear Ex1.
    assert (Ebs : bro_start (x_rl x1) = x_rl x1) by (apply bro_start_nolast; congruence).
    rewrite Ebs, x_with_id, A.
    assert (Hrp1 : vreplay T v0 (unf x1) (stq x1 ++ concat chunks1) = Some (vf, u, S')).
    { rewrite D, Hu0, C, Hq0. exact Hrp. }
    destruct (lw_replay R proper_prefix T p c S' vf u chunks1 seen0 x1 v0 B ltac:(congruence) ltac:(congruence) Hrp1)
      as (pre & chunks' & x2 & E2 & Ep2 & I2 & Q2 & U2 & St2 & Er2).
    exists pre, chunks', x2. split; [exact E2|]. split; [rewrite C, Hq0 in Ep2; exact Ep2|].
    split; [exact I2|]. split; [exact Q2|]. split; [exact U2|]. split; congruence.
  Qed.

  Lemma feed_skip PN vq nb :
    aget (root_cid t0) R <> None -> F0 = PN ++ vq -> (nb <= length PN)%nat ->
    exists chunks, honest t0 R sizes (N.max 0 (N.of_nat nb)) = mkfeed chunks /\
                   concat chunks = map strip (firstn nb PN) ++ skipn nb PN ++ vq /\ chunks <> [].
  Proof.
    intros Hroot HF Hnb. unfold honest, resp_status. destruct (aget (root_cid t0) R) as [b|]; [|congruence].
    rewrite N.max_r by lia. rewrite resp_items_skip, resp_items_emit, HF, Nat2N.id. unfold stripk.
    rewrite firstn_app, skipn_app. replace (nb - length PN)%nat with 0%nat by lia. cbn [firstn skipn]. rewrite app_nil_r.
    apply mk_msgs_feed.
  Qed.

  (* the state just after the load that missed, and what the retry starts from *)
  Lemma requested_again x1 p c rm T nb PN vq V vf :
    x_sent x1 = false -> x_cancelled x1 = false -> x_feed x1 = [] -> r_open (x_rl x1) = false ->
    r_last (x_rl x1) = Some {| a_path := p; a_link := c; a_ok := false; a_remote := rm |} ->
    r_record (x_rl x1) = T -> x_nblocks x1 = N.of_nat nb ->
    aget (root_cid t0) R <> None -> F0 = PN ++ vq -> (nb <= length PN)%nat -> map strip PN = map (ent R) V ->
    (forall u rest, vreplay T (new_verifier T) u (map (ent R) V ++ rest) = Some (vf, ulast R u V, rest)) ->
    exists sX chunks' x2,
      retry_call proper_prefix (go_online (honest t0 R sizes) 0 x1) = load_wait proper_prefix (mkfeed chunks') x2 p c /\
      inv2 R sX chunks' x2 /\ (forall c0, existsb (N.eqb c0) sX = existsb (N.eqb c0) (seen_after [] PN)) /\
      stq x2 ++ concat chunks' = vq /\ unf x2 = ulast R (unf x1) V /\ x_store x2 = x_store x1 /\ x_errs x2 = x_errs x1.
  Proof.
    intros Hs Hc Hf Ho Hl Hr Hn Hroot HF Hnb Hstr HRP.
    destruct (feed_skip PN vq nb Hroot HF Hnb) as (chunks & Ef & Ec & Hne).
    set (P1 := firstn nb PN) in *. set (P2 := skipn nb PN) in *.
    assert (EPN : PN = P1 ++ P2) by (unfold P1, P2; now rewrite firstn_skipn).
    assert (Hok0 : eok R [] (P1 ++ (P2 ++ vq))) by (rewrite app_assoc, <- EPN, <- HF; apply (proj1 (emit_ok R))).
    destruct (eok_go R P1 (P2 ++ vq) Hok0) as [Hokg Hext].
    (* the state the retried load starts from *)
    destruct x1 as [rl1 st sent nbk canc errs feed sched lg]. destruct rl1 as [op q ver rec last unfd].
    cbn [x_rl x_store x_sent x_nblocks x_cancelled x_errs x_feed r_open r_last r_record unf r_unfollowed] in *. subst sent canc feed op last rec nbk.
    set (X2 := {| x_rl := {| r_open := true; r_q := rq_empty; r_verifier := Some (new_verifier T); r_record := T; r_last := None; r_unfollowed := unfd |};
                  x_store := st; x_sent := true; x_nblocks := N.of_nat nb; x_cancelled := false; x_errs := errs;
                  x_feed := honest t0 R sizes (N.max 0 (N.of_nat nb)); x_sched := sched;
                  x_log := XSend (N.max 0 (N.of_nat nb)) :: lg |}).
    assert (Erc : retry_call proper_prefix (go_online (honest t0 R sizes) 0
                    {| x_rl := {| r_open := false; r_q := q; r_verifier := ver; r_record := T;
                                  r_last := Some {| a_path := p; a_link := c; a_ok := false; a_remote := rm |}; r_unfollowed := unfd |};
                       x_store := st; x_sent := false; x_nblocks := N.of_nat nb; x_cancelled := false; x_errs := errs;
                       x_feed := []; x_sched := sched; x_log := lg |}) = load_call proper_prefix X2 p c).
    { unfold retry_call, go_online, retry_prepare.
      cbn [x_rl x_store x_sent x_nblocks x_cancelled x_errs x_feed x_sched x_log set_online r_open r_last andb negb set_verifier set_q
           a_remote a_path a_link x_with_rl set_last r_q r_verifier r_record r_unfollowed app].
      destruct rm; reflexivity. }
    rewrite Erc.
    assert (Hi2 : inv3 R (seen_after [] P1) chunks X2).
    { unfold inv3, stq, X2. cbn [x_rl x_sent x_cancelled r_q r_open q_detached q_items rq_empty app].
      rewrite Ec. repeat split; auto. destruct chunks; [congruence | reflexivity]. }
    assert (Hrp : vreplay T (new_verifier T) (unf X2) (concat chunks) = Some (vf, ulast R unfd V, vq)).
    { rewrite Ec, app_assoc. apply (vreplay_same_md T (map strip P1 ++ P2) (map (ent R) V)); [|intro rest; apply HRP].
      rewrite map_app, !map_map.
      transitivity (map strip PN); [rewrite EPN, map_app; f_equal; apply map_ext; reflexivity | rewrite Hstr; apply map_ext; reflexivity]. }
    destruct (enter_replay X2 p c chunks (seen_after [] P1) T (new_verifier T) vf (ulast R unfd V) vq Ef Hi2 eq_refl eq_refl eq_refl eq_refl Hrp)
      as (pre & chunks' & x2 & E2 & Ep2 & I2 & Q2 & U2 & St2 & Er2).
    assert (Epre : pre = map strip P1 ++ P2).
    { rewrite Ec, app_assoc in Ep2. apply app_inv_tail in Ep2. now symmetry. }
    subst pre. exists (seen_after (seen_after [] P1) (map strip P1 ++ P2)), chunks', x2.
    split; [exact E2|]. split; [exact I2|]. split; [|auto].
    intro c0. rewrite seen_after_app, EPN, seen_after_app. apply seen_after_ext. exact Hext.
  Qed.
End Again.
