(* MsgQueueOrder.v — the content half of "messages to a peer leave in the order they were queued" (C17):
   the executable monitor.  The items a transaction queues are its link entries (request, link, present?), in
   the order of its operations; a present link's block travels in the same message.  On the wire, the entries of
   one request inside one message are ordered (a list); entries of different requests inside one message are
   not (Go maps), so the order between requests is checked at message granularity.  No proofs here. *)
From Coq Require Import List NArith Bool Arith.
From GS Require Export Base MsgQueue.
Import ListNotations.
Open Scope N_scope.

Definition item := (req * (link * bool))%type.
Definition item_eqb (a b : item) : bool := N.eqb (fst a) (fst b) && lb_eqb (snd a) (snd b).

Definition items_of (r : req) (ops : list top) : list item :=
  flat_map (fun o => match o with TBlock l _ has => [(r, (l, has))] | _ => [] end) ops.

(* index of the first occurrence of x in q at or after position skip (i counts the positions passed) *)
Fixpoint find_idx (x : item) (q : list item) (skip i : nat) : option nat :=
  match q with
  | [] => None
  | y :: q' =>
      match skip with
      | S k => find_idx x q' k (S i)
      | O => if item_eqb x y then Some i else find_idx x q' O (S i)
      end
  end.

(* the entries of one request in one message, matched in order against the queue log from the request's
   pointer on; returns the new pointer and the positions used *)
Fixpoint match_links (q : list item) (r : req) (links : list (link * bool)) (ptr : nat) (acc : list nat) : option (nat * list nat) :=
  match links with
  | [] => Some (ptr, acc)
  | lk :: rest =>
      match find_idx (r, lk) q ptr O with
      | Some i => match_links q r rest (S i) (i :: acc)
      | None => None
      end
  end.

Definition wmsg := (list (req * (N * list (link * bool))) * list link)%type.

Fixpoint match_msg (q : list item) (resps : list (req * (N * list (link * bool)))) (ptrs : list (N * nat)) (acc : list nat)
  : option (list (N * nat) * list nat) :=
  match resps with
  | [] => Some (ptrs, acc)
  | (r, (_, links)) :: rest =>
      let ptr := match aget r ptrs with Some p => p | None => O end in
      match match_links q r links ptr acc with
      | Some (ptr', acc') => match_msg q rest (aput r ptr' ptrs) acc'
      | None => None
      end
  end.

(* every present link of a message has its block in that message *)
Definition blocks_present (m : wmsg) : bool :=
  forallb (fun x => forallb (fun lk => negb (snd lk) || existsb (N.eqb (fst lk)) (snd m)) (snd (snd x))) (fst m).

(* messages in wire order: per request the entries continue in queue order (nothing invented, nothing
   overtaking inside a request); every entry of a message was queued after every entry of the messages before *)
Fixpoint mon17_msgs (q : list item) (msgs : list wmsg) (ptrs : list (N * nat)) (lo : nat) : bool :=
  match msgs with
  | [] => true
  | m :: rest =>
      match match_msg q (fst m) ptrs [] with
      | None => false
      | Some (ptrs', ps) =>
          blocks_present m && forallb (fun p => Nat.leb lo p) ps &&
          mon17_msgs q rest ptrs' (fold_right (fun p acc => Nat.max (S p) acc) lo ps)
      end
  end.

Definition mon17 (q : list item) (msgs : list wmsg) : bool := mon17_msgs q msgs [] O.

(* plain cases (driver msgqueue): every transaction is built, or refused as a whole, when its label is applied *)
Definition label_items (l : qlabel) : list item := match l with LBuild r ops => items_of r ops | _ => [] end.
Definition qcase_mon17 (c : qcase) : bool :=
  mon17 (flat_map (fun lh => label_items (fst lh)) (qc_labels c)) (flat_map qo_wire (qc_obs c)).
