(* C06After.v — C06, requestor side: pauses that take effect after the request was sent, resumed once the
   in-flight messages of the cancelled response are gone ("drained"), at any block indices: when the responder
   holds every block of the plan, the paused-and-resumed request ends exactly as the reference says
   (= as the request that was never paused does, C02). *)
From Coq Require Import List Arith NArith Bool Lia ZifyBool ZifyNat ZifyN.
From GS Require Import Base Ltree RecLoader ReqExec RecLoaderProofs C02Online C02Chunks C02Prefix C02Trie C02Replay C02Quiet C02PrefixProofs.
From GS Require Import PauseExec PauseProofs C06Frame C06Stale.
From GS Require C02Run.
Import ListNotations.
Open Scope N_scope.
Local Arguments N.add : simpl never.

Definition drained (pauses : list pause) : bool := forallb (fun pa => Nat.eqb (pa_inflight pa) 0) pauses.
(* the responder holds every block of the plan *)
Definition resp_complete (t : ltree) (R : store) : bool :=
  forallb (fun c => match aget c R with Some _ => true | None => false end) (plan_cids t).

Section After.
  Variable t0 : ltree.
  Variable R : store.
  Variable sizes : list nat.
  Hypothesis Hrc : forall c, In c (plan_cids t0) -> aget c R <> None.
  Hypothesis Hord : trie_ordered t0 = true.
  Notation E := (exec_ask proper_prefix (honest t0 R sizes) 0).
  Notation PE := (pexec_ask proper_prefix (honest t0 R sizes) 0 false).
  Notation F0 := (fst (emit_tree R t0 [])).

  Definition base (ns : list (path * cid)) (PN vq : list item) (seen : list cid) (restN : list (path * cid)) (x : xstate) : Prop :=
    x_cancelled x = false /\ x_errs x = [] /\ eff (x_rl x) = trie_of ns /\ x_nblocks x = N.of_nat (length ns) /\
    F0 = PN ++ vq /\ map strip PN = map (ent R) ns /\
    (forall c, existsb (N.eqb c) seen = existsb (N.eqb c) (seen_after [] PN)) /\
    covers (x_store x) seen /\ agree R (x_store x) /\ tnodes t0 = ns ++ restN.
  Definition phA (seen : list cid) (vq : list item) (x : xstate) : Prop :=
    x_sent x = true /\ onl2 R seen x /\ mq2 x = vq /\ unf x = [].
  Definition phO (seen : list cid) (vq : list item) (x : xstate) : Prop :=
    offl x /\ unf x = [] /\ (exists dropped, vq = stq x ++ dropped) /\ eok R seen (stq x).
  Definition PG (seen : list cid) (vq : list item) (ns restN : list (path * cid)) (x : xstate) : Prop :=
    (exists PN, base ns PN vq seen restN x) /\ (phA seen vq x \/ phO seen vq x).

  (* ---- the pause itself ---- *)
  Lemma pexec_ok ps p c x' :
    E (p_x ps) p c = (x', AOk) -> drained (p_pauses ps) = true ->
    exists x'', PE ps p c = ({| p_x := x''; p_pauses := p_pauses ps |}, AOk) /\ (x'' = x' \/ x'' = pause_resume 0 x').
  Proof.
    intros Ee Hd. unfold pexec_ask. rewrite Ee. cbn [andb].
    destruct (find (fun pa => pa_block pa =? x_nblocks x') (p_pauses ps)) as [pa|] eqn:Ef.
    - apply find_some in Ef as [Hin _]. unfold drained in Hd. rewrite forallb_forall in Hd. specialize (Hd pa Hin).
      apply Nat.eqb_eq in Hd. rewrite Hd. eexists. split; [reflexivity | now right].
    - eexists. split; [reflexivity | now left].
  Qed.

  Lemma eff_set_online b r : eff (set_online b r) = eff r.
  Proof. rewrite !eff_eq. unfold set_online. destruct (b && negb (r_open r)); reflexivity. Qed.

  Lemma pause_keeps seen vq ns restN x : PG seen vq ns restN x -> PG seen vq ns restN (pause_resume 0 x).
  Proof.
    intros [(PN & B) Hph]. destruct Hph as [(Hs & Ho & Hm & Hu)|HO].
    - (* online: the loader goes offline, what was queued stays, what was in flight is gone *)
      split.
      + exists PN. destruct B as (B1 & B2 & B3 & B4 & B5 & B6 & B7 & B8 & B9 & B10).
        unfold base, pause_resume. cbn [x_cancelled x_errs x_rl x_nblocks x_store]. rewrite eff_set_online. auto 12.
      + right. destruct Ho as (chunks & Hf & (I1 & I2 & (Ld & Lv) & I4 & I5)).
        unfold phO, offl, pause_resume, stq, unf in *. cbn [x_sent x_cancelled x_feed x_rl firstn].
        assert (Eq : r_q (set_online false (x_rl x)) = r_q (x_rl x)) by reflexivity.
        assert (Eu : r_unfollowed (set_online false (x_rl x)) = r_unfollowed (x_rl x)) by reflexivity.
        rewrite Eq, Eu. split; [|split; [exact Hu|split]].
        * split; [reflexivity|]. split; [exact I2|]. split; [reflexivity|]. split; [reflexivity|].
          unfold lon. rewrite Eq. split; [exact Ld|].
          destruct Lv as [Lv|[Lv|Lv]]; [left; exact Lv | right; left; exact Lv | right; right; destruct Lv; split; auto].
        * exists (flat_map msg_items (x_feed x)). rewrite <- Hm. reflexivity.
        * now destruct (eok_app_inv R _ _ _ I5).
    - (* already offline: nothing changes *)
      destruct HO as ((Hs & Hc & Hf & Hop & Hl) & Hrest).
      assert (Eid : pause_resume 0 x = x).
      { apply (pause_resume_calm 0 x Hs). intros _. auto. }
      rewrite Eid. split; [exists PN; exact B | right; split; [|exact Hrest]].
      unfold offl. auto.
  Qed.

  Lemma ulast_all_pres ns u : (forall q c, In (q, c) ns -> pres R c = true) -> ulast R u ns = u.
  Proof.
    revert u. induction ns as [|[q c] ns IH]; intros u H; [reflexivity|]. unfold ulast. cbn [fold_left fst snd].
    rewrite (H q c (or_introl eq_refl)). apply IH. intros q' c' Hin. apply (H q' c'). now right.
  Qed.

  (* ---- one load of a link whose block the responder holds, in any phase ---- *)
  Lemma estep seen h t ns restN' x p c b :
    PG seen (h :: t) ns ((p, c) :: restN') x ->
    aget c R = Some b ->
    h = {| i_link := c; i_act := Present; i_blk := if negb (existsb (N.eqb c) seen) then Some b else None |} ->
    (ns <> [] \/ aget c (x_store x) <> None) ->
    (forall q c', In (q, c') ns -> pres R c' = true) ->
    exists x', E x p c = (x', AOk) /\ PG (c :: seen) t (ns ++ [(p, c)]) restN' x' /\ x_store x' = aput c b (x_store x).
  Proof.
    intros [(PN & B) Hph] ER Hh Hne Hpres.
    destruct B as (B1 & B2 & B3 & B4 & B5 & B6 & B7 & B8 & B9 & B10).
    (* the store afterwards, whichever way the block was obtained *)
    assert (Hst : forall st', st' = (match i_blk h with Some b' => aput c b' (x_store x) | None => x_store x end) ->
                              st' = aput c b (x_store x)).
    { intros st' ->. subst h. cbn [i_blk]. destruct (existsb (N.eqb c) seen) eqn:Es; cbn [negb]; [|reflexivity].
      apply existsb_eqb_in' in Es. destruct (aget c (x_store x)) as [b0|] eqn:Eg; [|exfalso; now apply (B8 c Es)].
      rewrite (B9 c b0 b Eg ER) in Eg. now rewrite (aput_same c b _ Eg). }
    assert (Hav : i_blk h <> None \/ aget c (x_store x) <> None).
    { subst h. cbn [i_blk]. destruct (existsb (N.eqb c) seen) eqn:Es; cbn [negb]; [right | left; discriminate].
      apply existsb_eqb_in' in Es. now apply B8. }
    (* what remains to be shown once the step itself is known *)
    assert (Hpost : forall x', E x p c = (x', AOk) -> x_cancelled x' = false -> x_errs x' = [] ->
                      x_store x' = aput c b (x_store x) ->
                      exists PN', base (ns ++ [(p, c)]) PN' t (c :: seen) restN' x').
    { intros x' Ee Hc He Hs. exists (PN ++ [h]).
      destruct (exec_frame proper_prefix (honest t0 R sizes) 0 x p c x' AOk Ee (or_introl eq_refl)) as [F1 F2].
      unfold base. split; [exact Hc|]. split; [exact He|]. split; [rewrite F1, B3, trie_of_snoc; reflexivity|].
      split; [rewrite F2, B4, app_length; cbn [length]; lia|].
      split; [rewrite B5, <- app_assoc; reflexivity|].
      split; [rewrite !map_app, B6; cbn [map]; f_equal; subst h; unfold strip, ent, pres; cbn; now rewrite ER|].
      split; [intro c0; rewrite seen_after_app; subst h; cbn [seen_after i_act i_link existsb]; now rewrite B7|].
      split; [rewrite Hs; now apply covers_aput|]. split; [rewrite Hs; now apply agree_aput|].
      rewrite B10, <- app_assoc. reflexivity. }
    destruct Hph as [(Hs & Ho & Hm & Hu)|(HO & Hu & (dropped & Hdr) & Hok)].
    - (* online *)
      destruct (H_head2 R proper_prefix (honest t0 R sizes) 0 seen x p c h t Ho Hm (or_introl Hu)) as (x' & a & Ee & Ho' & Hm' & Hu' & Hb).
      { subst h. reflexivity. }
      assert (Ha : a = AOk /\ x_store x' = aput c b (x_store x) /\ x_errs x' = []).
      { destruct (i_blk h) as [b'|] eqn:Eb.
        - destruct Hb as (-> & Hb2 & Hb3). split; [reflexivity|]. split; [apply Hst; exact Hb2 | now rewrite Hb3].
        - destruct Hb as (-> & Hb2 & Hb3). destruct Hav as [Hav|Hav]; [congruence|].
          unfold local_ans, local_errs in *. destruct (aget c (x_store x)); [|congruence].
          split; [reflexivity|]. split; [apply Hst; exact Hb2 | now rewrite Hb3, B2]. }
      destruct Ha as (-> & Hst' & He'). exists x'. split; [exact Ee|]. split; [|exact Hst'].
      pose proof Ho' as (ch & _ & (Hs' & Hc' & _)).
      split; [apply (Hpost x' Ee Hc' He' Hst')|]. left.
      unfold seen_step in Ho'. subst h. cbn [i_act i_link did_follow] in Ho', Hu'. repeat split; auto.
    - destruct (stq x) as [|h0 t0'] eqn:Eq.
      + (* nothing queued *)
        cbn [app] in Hdr. subst dropped.
        destruct (aget c (x_store x)) as [b0|] eqn:Eg.
        * destruct (o_local t0 R sizes x p c b0 HO Eq Eg) as (x' & Ee & HO' & Hq' & Hu' & Hs' & He').
          assert (Hst' : x_store x' = aput c b (x_store x)).
          { rewrite Hs'. rewrite (B9 c b0 b Eg ER) in Eg. now rewrite (aput_same c b _ Eg). }
          exists x'. split; [exact Ee|]. split; [|exact Hst'].
          pose proof HO' as (_ & Hc' & _).
          split; [apply (Hpost x' Ee Hc'); [now rewrite He' | exact Hst']|]. right.
          split; [exact HO'|]. split; [now rewrite Hu'|]. rewrite Hq'. split; [exists t; reflexivity | exact I].
        * (* online again *)
          destruct Hne as [Hne|Hne]; [|congruence].
          destruct (o_miss t0 R sizes ns x p c HO Eq Hu B2 Eg B3 B4) as (sch & lg & Em). rewrite Em.
          assert (Hok0 : eok R [] (PN ++ h :: t)) by (rewrite <- B5; apply (proj1 (emit_ok R))).
          destruct (eok_go R PN (h :: t) Hok0) as [Hokg Hext].
          assert (Hroot : aget (root_cid t0) R <> None) by (apply Hrc; destruct t0; cbn; now left).
          assert (HRP : vreplay (trie_of ns) (new_verifier (trie_of ns)) [] (map (ent R) ns ++ h :: t) = Some (VEmpty, [], h :: t)).
          { rewrite <- (ulast_all_pres ns [] Hpres) at 2. apply replay_own; [exact Hne | apply (trie_ordered_prefix t0 ns _ Hord B10) |].
            intros q c1 Hin Hp. rewrite (Hpres q c1 Hin) in Hp. discriminate. }
          destruct (g_enter t0 (x_store x) R sizes ns PN (h :: t) (seen_after [] PN) [] B5 B6 Hroot Hokg HRP sch lg p c)
            as (chunks' & x2 & E2 & I2 & Q2 & U2 & St2 & Er2). rewrite E2.
          destruct (lw_head R proper_prefix _ p c chunks' x2 h t I2 Q2 (or_introl U2)) as (x1 & res & E1 & Hp & Hu1 & He1 & Hbk).
          { subst h. reflexivity. }
          rewrite E1. destruct (post_onl2 R _ x1 _ Hp) as [Ho1 Hm1].
          pose proof Ho1 as (ch1 & _ & (Hs1' & Hc1' & _)).
          destruct (xfinish_ok p c x1 res Hc1') as (x' & Ex & F1 & F2 & F3 & F4 & F5 & F6).
          rewrite Hs1' in F4.
          destruct (onl2_transfer R _ x1 x' Ho1 F1 F3 F4 F5) as (G1 & G2 & G3).
          assert (Hblk : i_blk h = Some b).
          { subst h. cbn [i_blk]. rewrite (covers_notin (x_store x) seen c B8 Eg). reflexivity. }
          rewrite Hblk in Hbk. destruct Hbk as [Hb1 ->]. cbn [ans_of errs_of] in *. rewrite app_nil_r in F6.
          assert (Hst' : x_store x' = aput c b (x_store x)) by (rewrite F2, Hb1, St2; reflexivity).
          exists x'. split; [exact Ex|]. split; [|exact Hst'].
          assert (Ee : E x p c = (x', AOk)) by (rewrite Em, E2, E1; exact Ex).
          split; [apply (Hpost x' Ee F5); [rewrite F6, He1, Er2; reflexivity | exact Hst']|]. left.
          split; [exact F4|]. split; [|split; [rewrite G2; exact Hm1 | rewrite G3, Hu1; subst h; reflexivity]].
          apply (onl2_ext R (seen_step h (seen_after (seen_after [] PN) (map strip PN))) (c :: seen) x'); [|exact G1].
          intro c0. subst h. unfold seen_step. cbn [i_act i_link existsb]. now rewrite Hext, B7.
      + (* the head of what is still queued *)
        cbn [app] in Hdr. injection Hdr as <- Ht.
        destruct (o_head t0 R sizes x p c h t0' HO Eq Hu) as (x' & Ee & HO' & Hq' & Hu' & Hs' & He'); [subst h; reflexivity | subst h; reflexivity | exact Hav |].
        assert (Hst' : x_store x' = aput c b (x_store x)) by (apply Hst; exact Hs').
        exists x'. split; [exact Ee|]. split; [|exact Hst'].
        pose proof HO' as (_ & Hc' & _).
        split; [apply (Hpost x' Ee Hc'); [now rewrite He' | exact Hst']|]. right.
        split; [exact HO'|]. split; [exact Hu'|]. rewrite Hq'. split; [exists dropped; exact Ht|].
        cbn [eok] in Hok. subst h. cbn [i_act i_link] in Hok. destruct Hok as (b' & _ & _ & Hok). exact Hok.
  Qed.

  Lemma pstep seen h t ns restN' ps p c b :
    PG seen (h :: t) ns ((p, c) :: restN') (p_x ps) -> drained (p_pauses ps) = true ->
    aget c R = Some b ->
    h = {| i_link := c; i_act := Present; i_blk := if negb (existsb (N.eqb c) seen) then Some b else None |} ->
    (ns <> [] \/ aget c (x_store (p_x ps)) <> None) ->
    (forall q c', In (q, c') ns -> pres R c' = true) ->
    exists ps', PE ps p c = (ps', AOk) /\ p_pauses ps' = p_pauses ps /\
                PG (c :: seen) t (ns ++ [(p, c)]) restN' (p_x ps') /\ x_store (p_x ps') = aput c b (x_store (p_x ps)).
  Proof.
    intros HG Hd ER Hh Hne Hpres.
    destruct (estep seen h t ns restN' (p_x ps) p c b HG ER Hh Hne Hpres) as (x' & Ee & HG' & Hst).
    destruct (pexec_ok ps p c x' Ee Hd) as (x'' & Ep & [->| ->]).
    - eexists. split; [exact Ep|]. cbn [p_x p_pauses]. auto.
    - eexists. split; [exact Ep|]. cbn [p_x p_pauses]. split; [reflexivity|]. split; [now apply pause_keeps | exact Hst].
  Qed.

  (* ---- the whole plan ---- *)
  Definition SimPT (t : ltree) : Prop :=
    forall ps seen ns restN rest,
      PG seen (fst (emit_tree R t seen) ++ rest) ns (tnodes t ++ restN) (p_x ps) -> drained (p_pauses ps) = true -> ns <> [] ->
      (forall q c', In (q, c') ns -> pres R c' = true) -> (forall c, In c (plan_cids t) -> aget c R <> None) ->
      let '(ps', evs, ok) := run_tree PE t ps in
      let '(st', o) := ref_tree R t true (x_store (p_x ps)) in
      ok = true /\ p_pauses ps' = p_pauses ps /\ PG (snd (emit_tree R t seen)) rest (ns ++ tnodes t) restN (p_x ps') /\
      x_store (p_x ps') = st' /\ visits_of evs = ovisits o /\ merrs o = [].
  Definition SimPI (l : items) : Prop :=
    forall ps seen ns restN rest,
      PG seen (fst (emit_items R l seen) ++ rest) ns (inodes l ++ restN) (p_x ps) -> drained (p_pauses ps) = true -> ns <> [] ->
      (forall q c', In (q, c') ns -> pres R c' = true) -> (forall c, In c (items_cids l) -> aget c R <> None) ->
      let '(ps', evs, ok) := run_items PE l ps in
      let '(st', o) := ref_items R l true (x_store (p_x ps)) in
      ok = true /\ p_pauses ps' = p_pauses ps /\ PG (snd (emit_items R l seen)) rest (ns ++ inodes l) restN (p_x ps') /\
      x_store (p_x ps') = st' /\ visits_of evs = ovisits o /\ merrs o = [].

  Lemma simP_all : (forall t, SimPT t) /\ (forall l, SimPI l).
  Proof.
    apply (ltree_items_ind SimPT SimPI).
    - intros p c body IH ps seen ns restN rest HG Hd Hne Hpres Hc.
      destruct (aget c R) as [b|] eqn:ER; [|exfalso; apply (Hc c); [cbn; now left | exact ER]].
      rewrite (emit_present R p c body b seen ER) in HG |- *. cbn [fst snd app tnodes] in HG |- *.
      destruct (pstep seen _ _ ns (inodes body ++ restN) ps p c b HG Hd ER eq_refl (or_introl Hne) Hpres) as (ps1 & Ep & Hp1 & HG1 & Hs1).
      rewrite run_tree_node, Ep, ref_tree_eq, ER.
      assert (Hpres1 : forall q c', In (q, c') (ns ++ [(p, c)]) -> pres R c' = true).
      { intros q c' Hin. apply in_app_iff in Hin as [Hin|[Hin|[]]]; [now apply (Hpres q)|]. injection Hin as <- <-. unfold pres. now rewrite ER. }
      assert (Hc1 : forall c0, In c0 (items_cids body) -> aget c0 R <> None) by (intros c0 H0; apply Hc; cbn; now right).
      rewrite <- Hp1 in Hd.
      specialize (IH ps1 (c :: seen) (ns ++ [(p, c)]) restN rest HG1 Hd ltac:(destruct ns; discriminate) Hpres1 Hc1).
      rewrite Hs1 in IH.
      destruct (run_items PE body ps1) as [[ps2 evs] ok]. destruct (ref_items R body true (aput c b (x_store (p_x ps)))) as [st' o].
      destruct IH as (A & B & C & D & F & G). rewrite <- app_assoc in C. cbn [app] in C.
      destruct (aget c (x_store (p_x ps))); (split; [exact A|]; split; [congruence|]; split; [exact C|]; auto).
    - intros ps seen ns restN rest HG Hd Hne Hpres Hc. cbn in *. rewrite app_nil_r. auto 10.
    - intros v r IH ps seen ns restN rest HG Hd Hne Hpres Hc. rewrite run_items_visit, ref_items_visit.
      rewrite emit_items_visit in *. specialize (IH ps seen ns restN rest HG Hd Hne Hpres Hc).
      destruct (run_items PE r ps) as [[ps2 evs] ok]. destruct (ref_items R r true (x_store (p_x ps))) as [st' o].
      destruct IH as (A & B & C & D & F & G). cbn [visits_of ovisits inodes]. rewrite merrs_visit, F. auto 10.
    - intros t IHt r IHr ps seen ns restN rest HG Hd Hne Hpres Hc. rewrite run_items_child, ref_items_child.
      rewrite emit_items_child in HG |- *.
      destruct (emit_tree R t seen) as [a s1] eqn:Ea. destruct (emit_items R r s1) as [b s2] eqn:Eb. cbn [fst snd inodes] in HG |- *.
      rewrite <- !app_assoc in HG.
      assert (Hct : forall c0, In c0 (plan_cids t) -> aget c0 R <> None) by (intros c0 H0; apply Hc; cbn; apply in_app_iff; now left).
      assert (Hcr : forall c0, In c0 (items_cids r) -> aget c0 R <> None) by (intros c0 H0; apply Hc; cbn; apply in_app_iff; now right).
      specialize (IHt ps seen ns (inodes r ++ restN) (b ++ rest)). rewrite Ea in IHt. cbn [fst snd] in IHt.
      specialize (IHt HG Hd Hne Hpres Hct).
      destruct (run_tree PE t ps) as [[ps1 e1] ok1]. destruct (ref_tree R t true (x_store (p_x ps))) as [st1 o1].
      destruct IHt as (A & B & C & D & F & G). subst ok1.
      assert (Hpres1 : forall q c', In (q, c') (ns ++ tnodes t) -> pres R c' = true).
      { intros q c' Hin. apply in_app_iff in Hin as [Hin|Hin]; [now apply (Hpres q)|].
        assert (Hin' : In c' (plan_cids t)) by (rewrite <- (proj1 C02Run.tnodes_cids); apply in_map_iff; exists (q, c'); auto).
        specialize (Hct c' Hin'). unfold pres. destruct (aget c' R); [reflexivity | congruence]. }
      rewrite <- B in Hd.
      specialize (IHr ps1 s1 (ns ++ tnodes t) restN rest). rewrite Eb in IHr. cbn [fst snd] in IHr.
      assert (Hne1 : ns ++ tnodes t <> []) by (intro H0; apply app_eq_nil in H0 as [H0 _]; exact (Hne H0)).
      specialize (IHr C Hd Hne1 Hpres1 Hcr). rewrite D in IHr.
      destruct (run_items PE r ps1) as [[ps2 e2] ok2]. destruct (ref_items R r true st1) as [st2 o2].
      destruct IHr as (A2 & B2 & C2 & D2 & F2 & G2).
      rewrite visits_of_app, ovisits_app, merrs_app, F, F2, G, G2. rewrite <- app_assoc in C2.
      split; [exact A2|]. split; [congruence|]. auto.
  Qed.
End After.

Theorem c06_after_complete t L R sizes sched pauses :
  agree R L -> resp_complete t R = true -> trie_ordered t = true -> drained pauses = true ->
  paused_outcome t L R sizes sched pauses = ref_outcome t L R.
Proof.
  intros Hag Hrc Hord Hdr.
  assert (Hrc' : forall c, In c (plan_cids t) -> aget c R <> None).
  { unfold resp_complete in Hrc. rewrite forallb_forall in Hrc. intros c Hc. specialize (Hrc c Hc). destruct (aget c R); [discriminate | discriminate]. }
  destruct t as [p c body]. set (t0 := LNode p c body) in *.
  destruct (aget c R) as [b|] eqn:ER; [|exfalso; apply (Hrc' c); [cbn; now left | exact ER]].
  unfold paused_outcome, ref_outcome, run_paused.
  change (run_tree (pexec_ask proper_prefix (honest t0 R sizes) 0 false) t0 {| p_x := x_init L [] sched; p_pauses := pauses |})
    with (run_tree (pexec_ask proper_prefix (honest t0 R sizes) 0 false) t0 (Build_pstate (x_init L [] sched) pauses)).
  set (ps0 := Build_pstate (x_init L [] sched) pauses).
  set (it0 := {| i_link := c; i_act := Present; i_blk := if negb (existsb (N.eqb c) []) then Some b else None |}).
  set (its := fst (emit_items R body [c])).
  assert (HF : fst (emit_tree R t0 []) = it0 :: its) by (unfold t0; rewrite (emit_present R p c body b [] ER); reflexivity).
  (* the root *)
  assert (Hroot : exists ps1, pexec_ask proper_prefix (honest t0 R sizes) 0 false ps0 p c = (ps1, AOk) /\ p_pauses ps1 = pauses /\ PG t0 R [c] its [(p, c)] (inodes body) (p_x ps1) /\ x_store (p_x ps1) = aput c b L).
  { destruct (aget c L) as [b0|] eqn:EL.
    - assert (HG0 : PG t0 R [] (it0 :: its) [] ((p, c) :: inodes body) (p_x ps0)).
      { split.
        - exists []. unfold base, ps0, x_init. cbn [p_x x_cancelled x_errs x_rl x_nblocks x_store app map length].
          repeat split; auto; try exact HF. intros c0 [].
        - right. unfold phO, offl, stq, unf, lon, ps0, x_init. cbn. repeat split; auto. exists (it0 :: its). reflexivity. }
      destruct (pstep t0 R sizes Hrc' Hord [] it0 its [] (inodes body) ps0 p c b HG0 Hdr ER eq_refl) as (ps1 & Ep & Hp1 & HG1 & Hs1).
      { right. unfold ps0. cbn. now rewrite EL. } { intros q c' []. }
      exists ps1. auto.
    - destruct (first_step2 R p c body L sizes sched b EL ER) as (x1 & E1 & Hx1 & Hq1 & Hu1 & Hs1 & He1).
      cbv zeta in E1. fold t0 in E1.
      pose proof Hx1 as (ch & _ & (Hsent & Hcan & _)).
      destruct (exec_frame proper_prefix (honest t0 R sizes) 0 _ p c x1 AOk E1 (or_introl eq_refl)) as [F1 F2].
      assert (HG1 : PG t0 R [c] its [(p, c)] (inodes body) x1).
      { split.
        - exists [it0]. unfold base. split; [exact Hcan|]. split; [exact He1|]. split; [rewrite F1; reflexivity|].
          split; [rewrite F2; reflexivity|]. split; [exact HF|].
          split; [unfold it0, strip, ent, pres; cbn; now rewrite ER|]. split; [intro c0; reflexivity|].
          split; [rewrite Hs1; apply covers_aput; intros c' []|]. split; [rewrite Hs1; now apply agree_aput | reflexivity].
        - left. unfold phA. auto. }
      destruct (pexec_ok t0 R sizes ps0 p c x1 E1 Hdr) as (x'' & Ep & [->| ->]).
      + eexists. split; [exact Ep|]. cbn [p_x p_pauses]. auto.
      + eexists. split; [exact Ep|]. cbn [p_x p_pauses]. split; [reflexivity|]. split; [now apply pause_keeps | exact Hs1]. }
  destruct Hroot as (ps1 & Ep & Hp1 & HG1 & Hs1).
  rewrite (run_tree_node (pexec_ask proper_prefix (honest t0 R sizes) 0 false) p c body ps0
             : run_tree (pexec_ask proper_prefix (honest t0 R sizes) 0 false) t0 ps0 = _), Ep.
  rewrite (ref_tree_eq R p c body true L : ref_tree R t0 true L = _), ER.
  destruct (simP_all t0 R sizes Hrc' Hord) as [_ HI].
  assert (HG1' : PG t0 R [c] (fst (emit_items R body [c]) ++ []) [(p, c)] (inodes body ++ []) (p_x ps1)) by (rewrite !app_nil_r; exact HG1).
  rewrite <- Hp1 in Hdr.
  specialize (HI body ps1 [c] [(p, c)] [] [] HG1' Hdr ltac:(discriminate)).
  assert (Hpres1 : forall q c', In (q, c') [(p, c)] -> pres R c' = true).
  { intros q c' [Hin|[]]. injection Hin as <- <-. unfold pres. now rewrite ER. }
  specialize (HI Hpres1 ltac:(intros c0 H0; apply Hrc'; cbn; now right)). rewrite Hs1 in HI.
  destruct (run_items (pexec_ask proper_prefix (honest t0 R sizes) 0 false) body ps1) as [[ps2 evs] ok].
  destruct (ref_items R body true (aput c b L)) as [st' o].
  destruct HI as (A & B & C & D & F & G). subst ok.
  destruct C as [(PN & (C1 & C2 & _)) _].
  assert (Hom : omissing o = []) by (unfold merrs in G; now apply map_eq_nil in G).
  unfold outcome_of, final_errs. cbn [fst snd o_visits o_missing o_other_errs o_store o_complete]. rewrite visits_load, C1, C2, F, D.
  destruct (aget c L); cbn; rewrite Hom; reflexivity.
Qed.
