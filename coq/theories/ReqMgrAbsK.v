(* ReqMgrAbsK.v — the K half (loop, executor, traverser, loader, contexts) of the abstraction of ReqMgr.step
   and the proof that every concrete step is matched by an abstract move (simulation). *)
From Coq Require Import List NArith Bool Arith Lia.
From GS Require Import Base ReqMgr ReqMgrProofs ReqMgrAbs.
Import ListNotations.

Section Sim.
Variable n0 : N.
Variable nk : ek -> ek.
Hypothesis nk_miss : nk KMiss = KMiss.
Hypothesis nk_other : forall k, k <> KMiss -> nk k <> KMiss.

Definition absk (e : err) : ek :=
  nk (match e with ErrCC => KCC | ErrStatus n => if N.eqb n n0 then KStat else KStatO
               | ErrHook => KHook | ErrMissing => KMiss | ErrHard => KHard end).
Definition aent (o : option entry) : option aentry :=
  match o with
  | None => None
  | Some e => Some (Build_aentry (e_state e) (match e_terr e with Some x => Some (absk x) | None => None end) (e_started e))
  end.
Definition imb (l : list msg) : imq :=
  fold_right (fun m q => match m with
                         | MGetTask => QCons IGetTask q | MRelease p => QCons (IRelease p) q
                         | MCancel false => QCons ICancel q | _ => q end) QNil l.
Definition alpc' (p : loop_pc) : alpc :=
  match p with LIdle => ALIdle | LTermSend e r => ALTermSend (absk e) r | LShutdown r => ALShutdown r end.
Definition axpc' (x : exec_pc) : axpc :=
  match x with
  | XIdle => AXIdle | XPopped => AXPopped | XAwaitTask => AXAwaitTask | XTop b => AXTop b | XLoad b => AXLoad b
  | XLocal a b => AXLocal a b | XGoOnline a => AXGoOnline a | XSendErr e b => AXSendErr (absk e) b
  | XHooks a b => AXHooks a b | XFin None => AXFin None | XFin (Some e) => AXFin (Some (absk e))
  | XFinSend e => AXFinSend (absk e) | XRelease p => AXRelease p | XAwaitDone => AXAwaitDone
  end.
Definition atrav' (t : trav_pc) : atrav :=
  match t with TNone => ATNone | TLoader => ATLoader | TRun v => ATRun (negb (Nat.eqb v 0)) | TDone f => ATDone f end.
Definition summ (r : rc_pc) : rc_pc :=
  match r with RCRun _ | RCDrain false _ _ => RCDrain false true true | RCDrain true _ _ => RCDrain true true true | RCExit => RCExit end.

Definition aK (s : st) : ast :=
  mkA (aent (ent s)) (imb (mbox s)) (alpc' (lpc s)) (tq s) (axpc' (xpc s)) (atrav' (trav s))
      (negb (Nat.eqb (rq s) 0)) (ropen s) (ptok s) (rctx s) (tctx s) (cctx s) (iclosed s)
      (summ (rc s)) false (ECRun true) eb0.

Definition knorm (a : ast) : ast :=
  t_eb eb0 (t_ec (ECRun true) (t_rbuf false (t_rc (match a_rc a with RCDrain x _ _ => RCDrain x true true | r => r end) a))).

(* K moves: an abstract move followed by re-normalisation of the collector summary, or "the response collector exited" *)
Inductive kmove := KM (mv : amove) | KExit.
Definition kstep (a : ast) (m : kmove) : option ast :=
  match m with
  | KM mv => match a_step nk a mv with Some (a', _) => Some (knorm a') | None => None end
  | KExit => Some (t_rc RCExit a)
  end.

Lemma imb_app l m : imb (l ++ [m]) =
  match m with
  | MGetTask => qsnoc (imb l) IGetTask | MRelease p => qsnoc (imb l) (IRelease p)
  | MCancel false => qsnoc (imb l) ICancel | _ => imb l end.
Proof.
  induction l as [|x l IH]; simpl.
  - destruct m as [[|]| | | | |]; reflexivity.
  - rewrite IH. destruct x as [[|]| | | | |], m as [[|]| | | | |]; reflexivity.
Qed.

(* ---------- loop pieces ---------- *)
Lemma k_term3 rel s : aK (term3 rel s) = a_term3 rel (aK s).
Proof. unfold term3, a_term3. destruct rel; reflexivity. Qed.
Lemma k_term2 st rel s : aK (term2 st rel s) = a_term2 st rel (aK s).
Proof. unfold term2, a_term2, term3, a_term3. destruct st, rel; reflexivity. Qed.
Lemma k_terminate e rel s :
  aK (terminate e rel s) =
  a_terminate (Build_aentry (e_state e) (match e_terr e with Some x => Some (absk x) | None => None end) (e_started e)) rel (aK s).
Proof. unfold terminate, a_terminate. simpl. destruct (e_terr e); [reflexivity | apply k_term2]. Qed.
Lemma k_coe e eo s :
  aK (cancel_on_error e eo s) =
  a_coe (Build_aentry (e_state e) (match e_terr e with Some x => Some (absk x) | None => None end) (e_started e))
        (match eo with Some x => Some (absk x) | None => None end) (aK s).
Proof.
  unfold cancel_on_error, a_coe. simpl.
  destruct (e_state e); try (rewrite k_terminate; simpl; destruct (e_terr e), eo; reflexivity).
  destruct (e_terr e), eo; reflexivity.
Qed.

Definition asc_of (c : sclass) : asc :=
  match c with SPartial => APartial | SSucc => ASucc | SFail n => if N.eqb n n0 then AFailN else AFailO end.
Definition absm (m : msg) : amsg :=
  match m with
  | MResp r => AMResp (asc_of (r_status r)) (negb (Nat.eqb (r_items r) 0)) (r_hookerr r)
  | MPause => AMPause | MUnpause => AMUnpause | _ => AMCancelApi
  end.
Definition env_msg (m : msg) : bool :=
  match m with MCancel true | MResp _ | MPause | MUnpause => true | _ => false end.
Definition imsg_of (m : msg) : imsg :=
  match m with MGetTask => IGetTask | MRelease p => IRelease p | _ => ICancel end.

Lemma pos_add a b : negb (Nat.eqb (a + b) 0) = negb (Nat.eqb a 0) || negb (Nat.eqb b 0).
Proof. destruct a, b; reflexivity. Qed.

Lemma aK_ent s : a_ent (aK s) = aent (ent s). Proof. reflexivity. Qed.

Lemma k_fail_tail s2 :
  aK (match ent s2 with Some e2 => if e_started e2 then s_ropen false s2 else s2 | None => s2 end) =
  match a_ent (aK s2) with Some e2 => if ae_started e2 then t_ropen false (aK s2) else aK s2 | None => aK s2 end.
Proof. rewrite aK_ent. destruct (ent s2) as [e2|]; simpl; [destruct (e_started e2); reflexivity | reflexivity]. Qed.

Lemma k_handle_env m s s' es :
  env_msg m = true -> handle m s = Some (s', es) -> fst (a_handle_env nk (absm m) (aK s)) = aK s'.
Proof.
  intros Em H. destruct m as [[|]|r| | | |]; try discriminate Em; unfold handle in H; unfold a_handle_env, absm;
    rewrite aK_ent; destruct (ent s) as [e|] eqn:E; simpl.
  - inv H. rewrite k_coe. reflexivity.
  - inv H. reflexivity.
  - destruct (r_hookerr r) eqn:Hk.
    + inv H. rewrite k_coe. reflexivity.
    + assert (aK (if e_started e && ropen s then s_rq (rq s + r_items r) s else s) =
              (if e_started e && ropen s then t_rq (negb (Nat.eqb (rq s) 0) || negb (Nat.eqb (r_items r) 0)) (aK s) else aK s)) as A1.
      { destruct (e_started e && ropen s); [|reflexivity]. unfold aK. simpl. rewrite pos_add. reflexivity. }
      destruct (r_status r) as [| |n] eqn:St; simpl.
      * inv H. symmetry. exact A1.
      * inv H. rewrite <- A1. destruct (e_started e); reflexivity.
      * inv H. rewrite k_fail_tail, k_coe, A1. unfold absk. destruct (N.eqb n n0); reflexivity.
  - inv H. reflexivity.
  - destruct (e_state e); inv H; reflexivity.
  - inv H. reflexivity.
  - destruct (e_state e); inv H; reflexivity.
  - inv H. reflexivity.
Qed.

Lemma aK_xpc s : a_xpc (aK s) = axpc' (xpc s). Proof. reflexivity. Qed.

Lemma k_handle_int m s s' es :
  env_msg m = false -> handle m s = Some (s', es) ->
  exists aes, a_handle_int (imsg_of m) (aK s) = Some (aK s', aes).
Proof.
  intros Em H. destruct m as [[|]|r| |p| |]; try discriminate Em; unfold handle in H; unfold a_handle_int, imsg_of;
    rewrite aK_ent, ?aK_xpc; destruct (ent s) as [e|] eqn:E; simpl.
  - inv H. rewrite k_coe. eexists. reflexivity.
  - inv H. eexists. reflexivity.
  - destruct (xpc s) eqn:X; try discriminate H. inv H. simpl. eexists.
    destruct (e_started e); reflexivity.
  - destruct (xpc s) eqn:X; try discriminate H. inv H. simpl. eexists. reflexivity.
  - destruct (xpc s) eqn:X; try discriminate H. simpl.
    destruct (p && negb (rctx s)) eqn:P; inv H.
    + eexists. reflexivity.
    + rewrite k_terminate. eexists. reflexivity.
  - destruct (xpc s) eqn:X; try discriminate H. inv H. simpl. eexists. reflexivity.
Qed.

Definition vok_pos (s : st) : bool := match plan s with p :: _ => negb (Nat.eqb (p_vok p) 0) | [] => false end.
Definition orc_exec (s : st) : orc := Build_orc (Nat.leb 2 (rq s)) (vok_pos s) KCC.

Lemma pred_pos n : negb (Nat.eqb (pred n) 0) = Nat.leb 2 n.
Proof. destruct n as [|[|n]]; reflexivity. Qed.

Lemma k_exec c s s' es :
  exec_step c s = Some (s', es) -> exists aes, a_exec_step nk c (orc_exec s) (aK s) = Some (aK s', aes).
Proof.
  unfold exec_step, a_exec_step, after_err, a_after_err, trav_ok, a_trav_ok, orc_exec, vok_pos. intro H.
  rewrite aK_xpc. destruct (xpc s) eqn:X; simpl; try discriminate H.
  - inv H. eexists. unfold aK. simpl. rewrite imb_app, X. reflexivity.
  - destruct (trav s) as [| |v|[|]] eqn:T; inv H; eexists; unfold aK; simpl; rewrite T, X; reflexivity.
  - assert (forall b, a_rq (aK s) = b -> negb (Nat.eqb (rq s) 0) = b) as _ by (intros; assumption).
    change (a_rq (aK s)) with (negb (Nat.eqb (rq s) 0)). change (a_ropen (aK s)) with (ropen s).
    destruct c; try discriminate H.
    + destruct (negb (Nat.eqb (rq s) 0)); [|discriminate H]. inv H. eexists. unfold aK. simpl. rewrite pred_pos, X. reflexivity.
    + destruct (negb (Nat.eqb (rq s) 0)); [|discriminate H]. inv H. eexists. unfold aK. simpl.
      destruct (plan s) as [|p pl]; simpl; rewrite pred_pos, X; reflexivity.
    + destruct (negb (Nat.eqb (rq s) 0)); [|discriminate H]. inv H. eexists. unfold aK. simpl. rewrite pred_pos, X. reflexivity.
    + destruct (negb (Nat.eqb (rq s) 0)); [|discriminate H]. inv H. eexists. unfold aK. simpl. rewrite pred_pos, X. reflexivity.
    + destruct (negb (Nat.eqb (rq s) 0) || negb (ropen s)); [|discriminate H]. inv H. eexists. unfold aK. simpl. rewrite X. reflexivity.
  - destruct c; try discriminate H.
    + inv H. eexists. unfold aK. simpl. destruct (plan s) as [|p pl]; simpl; rewrite X; reflexivity.
    + destruct sent; inv H; eexists; unfold aK; simpl; rewrite X; reflexivity.
  - destruct (rctx s) eqn:R; inv H; eexists; unfold aK; simpl; rewrite R, X; reflexivity.
  - destruct (rctx s) eqn:R; inv H. eexists. unfold aK. simpl. rewrite R, X. reflexivity.
  - destruct (ok && match c with CHookErr => true | _ => false end) eqn:Hk; [|destruct (ptok s) eqn:P];
      inv H; eexists; unfold aK; simpl; rewrite ?Hk, ?P, ?X; simpl; reflexivity.
  - destruct w; inv H; eexists; unfold aK; simpl; rewrite X; reflexivity.
  - destruct (rctx s) eqn:R; inv H. eexists. unfold aK. simpl. rewrite R, X. reflexivity.
  - inv H. eexists. unfold aK. simpl. rewrite imb_app, X. reflexivity.
Qed.

(* ---------- rendezvous ---------- *)
Definition orc_skip (s : st) : orc :=
  Build_orc (match plan s with p :: _ => p_root p | [] => false end)
            (match plan s with p :: _ => negb (Nat.eqb (p_vskip p) 0) | [] => false end) KCC.

Lemma k_trav_skip s : aK (trav_skip s) = a_trav_skip (orc_skip s) (aK s).
Proof.
  unfold trav_skip, a_trav_skip, orc_skip. destruct (plan s) as [|p pl]; simpl; [reflexivity|].
  destruct (p_root p); reflexivity.
Qed.

Lemma absk_miss e : match absk e with KMiss => true | _ => false end = match e with ErrMissing => true | _ => false end.
Proof.
  unfold absk. destruct e; try (rewrite nk_miss; reflexivity);
    match goal with |- context [nk ?k] => pose proof (nk_other k) as Hn; destruct (nk k); try reflexivity; exfalso; apply Hn; [|reflexivity] end;
    try discriminate. destruct (N.eqb n n0); discriminate.
Qed.

Lemma k_send_err src s e s1 :
  send_err src s = Some (e, s1) -> a_send_err src (orc_skip s) (aK s) = Some (absk e, aK s1).
Proof.
  unfold send_err, a_send_err. intro H. destruct src.
  - rewrite aK_xpc. destruct (xpc s) eqn:X; try discriminate H. inv H. simpl.
    pose proof (absk_miss e) as M. destruct e; simpl in *;
      try (destruct (absk _) eqn:A; try discriminate M; unfold aK; simpl; rewrite ?X, ?A; reflexivity).
    destruct (absk ErrMissing) eqn:A; try discriminate M. rewrite <- k_trav_skip.
    unfold aK. simpl. rewrite ?X, ?A. reflexivity.
  - rewrite aK_xpc. destruct (xpc s) eqn:X; try discriminate H. inv H. simpl. unfold aK. simpl. rewrite ?X. reflexivity.
  - change (a_lpc (aK s)) with (alpc' (lpc s)). rewrite aK_ent.
    destruct (lpc s) eqn:L; try discriminate H. destruct (ent s) as [en|] eqn:E; try discriminate H. inv H. simpl.
    rewrite k_term2. reflexivity.
Qed.

(* ---------- one raw step ---------- *)
Definition a_raw (a : ast) (mv : amove) : option (ast * list aev) :=
  match mv with
  | AM l o => a_step_raw nk a l o
  | AMEnv m => match a_lpc a with ALIdle => Some (a_handle_env nk m a) | _ => None end
  end.
Definition kstep' (a : ast) (m : kmove) : option ast :=
  match m with
  | KM mv => match a_raw a mv with Some (a', _) => Some (knorm a') | None => None end
  | KExit => Some (t_rc RCExit a)
  end.

Lemma knorm_aK s : knorm (aK s) = aK s.
Proof. unfold knorm, aK. simpl. destruct (rc s) as [?|[|] ? ?|]; reflexivity. Qed.

Definition klabs : list label :=
  [LEnvCtxCancel; LLoop; LWorker;
   LExec CConsume; LExec CRemOk; LExec CRemHard; LExec CRemMiss; LExec CLoc; LExec CLocOk; LExec CLocMiss; LExec CHookErr;
   LTrav TCVisit DstRC; LTrav TCNext DstRC; LTrav TCFail DstRC;
   LErr SrcExec DstEC; LErr SrcFin DstEC; LErr SrcLoop DstEC; LRC RSendCancel].
Definition kmoves : list amove := flat_map (fun l => map (AM l) orcs4) klabs ++ map AMEnv amsgs.

Lemma in_kmoves_lab l b1 b2 : In l klabs -> In (AM l (Build_orc b1 b2 KCC)) kmoves.
Proof.
  intro H. unfold kmoves. apply in_or_app. left. apply in_flat_map. exists l. split; [exact H|].
  apply in_map. destruct b1, b2; simpl; tauto.
Qed.
Lemma in_kmoves_env m : In (AMEnv (absm m)) kmoves.
Proof.
  unfold kmoves. apply in_or_app. right. apply in_map.
  destruct m as [a|r| |p| |]; simpl; try tauto.
  unfold asc_of. destruct (r_status r) as [| |n]; [| |destruct (N.eqb n n0)];
    destruct (Nat.eqb (r_items r) 0), (r_hookerr r); simpl; tauto.
Qed.

Definition ksim1 (a a1 : ast) : Prop :=
  a1 = a \/ a1 = t_rc RCExit a \/ exists mv, In mv kmoves /\ kstep' a (KM mv) = Some a1.

Lemma k_raw s l s1 e1 : step_raw s l = Some (s1, e1) -> ksim1 (aK s) (aK s1).
Proof.
  unfold ksim1. destruct l; simpl; intro H.
  - inv H. left. unfold aK. simpl. rewrite imb_app. reflexivity.
  - inv H. right. right. exists (AM LEnvCtxCancel (Build_orc false false KCC)). split; [apply in_kmoves_lab; simpl; tauto|].
    simpl. unfold knorm, aK. simpl. destruct (rc s) as [?|[|] ? ?|]; reflexivity.
  - inv H. left. unfold aK. simpl. rewrite imb_app. reflexivity.
  - inv H. left. unfold aK. simpl. rewrite imb_app. reflexivity.
  - inv H. left. unfold aK. simpl. rewrite imb_app. reflexivity.
  - inv H. left. reflexivity.
  - dm H; inv H. left. unfold aK. simpl. rw. reflexivity.
  - dm H; inv H; left; unfold aK; simpl; rw; reflexivity.
  - (* LLoop *)
    destruct (lpc s) eqn:L; try discriminate H.
    + destruct (mbox s) as [|m r] eqn:M; [discriminate H|].
      destruct (env_msg m) eqn:Em.
      * right. right. exists (AMEnv (absm m)). split; [apply in_kmoves_env|].
        pose proof (k_handle_env _ _ _ _ Em H) as K. simpl.
        change (a_lpc (aK s)) with (alpc' (lpc s)). rewrite L. simpl.
        assert (aK s = aK (s_mbox r s)) as Q.
        { unfold aK. simpl. rewrite M. destruct m as [[|]| | | | |]; try discriminate Em; reflexivity. }
        rewrite Q. destruct (a_handle_env nk (absm m) (aK (s_mbox r s))) as [a' ev'] eqn:R. simpl in K. subst a'.
        rewrite knorm_aK. reflexivity.
      * right. right. exists (AM LLoop (Build_orc false false KCC)). split; [apply in_kmoves_lab; simpl; tauto|].
        destruct (k_handle_int _ _ _ _ Em H) as [aes K]. simpl.
        change (a_lpc (aK s)) with (alpc' (lpc s)). rewrite L. simpl.
        change (a_mb (aK s)) with (imb (mbox s)). rewrite M.
        assert (imb (m :: r) = QCons (imsg_of m) (imb r)) as Q by (destruct m as [[|]| | | | |]; try discriminate Em; reflexivity).
        rewrite Q. change (t_mb (imb r) (aK s)) with (aK (s_mbox r s)). rewrite K, knorm_aK. reflexivity.
    + destruct (trav s) eqn:T; try discriminate H. inv H.
      right. right. exists (AM LLoop (Build_orc false false KCC)). split; [apply in_kmoves_lab; simpl; tauto|].
      simpl. change (a_lpc (aK s)) with (alpc' (lpc s)). rewrite L. simpl.
      change (a_trav (aK s)) with (atrav' (trav s)). rewrite T. simpl. rewrite <- k_term3, knorm_aK. reflexivity.
  - dm H; inv H. right. right. exists (AM LWorker (Build_orc false false KCC)). split; [apply in_kmoves_lab; simpl; tauto|].
    cbn [kstep' a_raw a_step_raw]. change (a_tq (aK s)) with (tq s). change (a_xpc (aK s)) with (axpc' (xpc s)). rw. cbn [axpc'].
    change (t_xpc AXPopped (t_tq false (aK s))) with (aK (s_xpc XPopped (s_tq false s))). rewrite knorm_aK. reflexivity.
  - destruct (k_exec _ _ _ _ H) as [aes K].
    right. right. exists (AM (LExec c) (orc_exec s)). split; [apply in_kmoves_lab; destruct c; simpl; tauto|].
    simpl. rewrite K, knorm_aK. reflexivity.
  - (* LTrav *)
    destruct (tctx s) eqn:TC.
    + dm H; inv H; right; right; exists (AM (LTrav TCFail DstRC) (Build_orc false false KCC));
        (split; [apply in_kmoves_lab; simpl; tauto|]); simpl;
        change (a_tctx (aK s)) with (tctx s); rewrite TC; change (a_trav (aK s)) with (atrav' (trav s)); rw; simpl;
        match goal with |- context [t_trav (ATDone true) (aK ?x)] => change (t_trav (ATDone true) (aK x)) with (aK (s_trav (TDone true) x)) end;
        rewrite knorm_aK; reflexivity.
    + destruct (trav s) as [| |v|f] eqn:T; try discriminate H. destruct c.
      * destruct v as [|v]; [discriminate H|]. destruct (recv_visit d s) as [s2|] eqn:RV; [|discriminate H]. inv H.
        right. right. exists (AM (LTrav TCVisit DstRC) (Build_orc false (negb (Nat.eqb v 0)) KCC)).
        split; [apply in_kmoves_lab; simpl; tauto|]. simpl.
        change (a_tctx (aK s)) with (tctx s). rewrite TC. change (a_trav (aK s)) with (atrav' (trav s)). rewrite T. simpl.
        assert (aK s2 = aK s /\ (exists x, summ (rc s) = RCDrain x true true)) as [Q [x Sx]].
        { unfold recv_visit in RV. destruct d; dm RV; inv RV; split; try reflexivity; simpl; eauto;
          try (destruct sent; eauto). }
        unfold a_recv_visit. change (a_rc (aK s)) with (summ (rc s)). rewrite Sx.
        change (t_trav (ATRun (negb (Nat.eqb v 0))) (aK s)) with (aK (s_trav (TRun v) s)).
        rewrite knorm_aK. unfold aK. simpl. unfold aK in Q. inv Q. rw. reflexivity.
      * destruct v as [|v]; [|discriminate H]. inv H.
        right. right. exists (AM (LTrav TCNext DstRC) (Build_orc (match plan s with [] => false | _ => true end) false KCC)).
        split; [apply in_kmoves_lab; simpl; tauto|]. simpl.
        change (a_tctx (aK s)) with (tctx s). rewrite TC. change (a_trav (aK s)) with (atrav' (trav s)). rewrite T. simpl.
        destruct (plan s); cbv iota.
        -- unfold knorm, aK; simpl; destruct (rc s) as [?|[|] ? ?|]; reflexivity.
        -- unfold knorm, aK; simpl; destruct (rc s) as [?|[|] ? ?|]; reflexivity.
      * destruct v; inv H; right; right; exists (AM (LTrav TCFail DstRC) (Build_orc false false KCC));
        (split; [apply in_kmoves_lab; simpl; tauto|]); simpl;
        change (a_tctx (aK s)) with (tctx s); rewrite TC; change (a_trav (aK s)) with (atrav' (trav s)); rewrite T; simpl;
        unfold knorm, aK; simpl; destruct (rc s) as [?|[|] ? ?|]; reflexivity.
  - (* LErr *)
    destruct (send_err s0 s) as [[e s2]|] eqn:SE; [|discriminate H].
    destruct (recv_err d e s2) as [s3|] eqn:RE; [|discriminate H]. inv H.
    right. right. exists (AM (LErr s0 DstEC) (orc_skip s)). split; [apply in_kmoves_lab; destruct s0; simpl; tauto|].
    simpl. rewrite (k_send_err _ _ _ _ SE). unfold a_recv_err. change (a_ec (aK s2)) with (ECRun true).
    assert (aK s1 = aK s2) as Q. { unfold recv_err in RE. destruct d; dm RE; inv RE; reflexivity. }
    rewrite Q. unfold knorm, aK. simpl. destruct (rc s2) as [?|[|] ? ?|]; reflexivity.
  - (* LRC *)
    destruct (rc s) as [[|]|[|] x y|] eqn:R; destruct c; simpl in H; dm H; inv H;
      try (left; unfold aK; simpl; rewrite R; reflexivity);
      try (right; left; unfold aK; simpl; rewrite R; reflexivity).
    all: right; right; exists (AM (LRC RSendCancel) (Build_orc false false KCC)); (split; [apply in_kmoves_lab; simpl; tauto|]);
      simpl; change (a_rc (aK s)) with (summ (rc s)); rewrite R; simpl;
      unfold knorm, aK; simpl; rewrite imb_app; reflexivity.
  - dm H; inv H; left; unfold aK; simpl; reflexivity.
Qed.

Lemma k_norm s1 e1 :
  aK (fst (with_norm (s1, e1))) = aK s1 \/ aK (fst (with_norm (s1, e1))) = t_rc RCExit (aK s1).
Proof.
  unfold with_norm, rc_norm, ec_norm.
  destruct (rc s1) as [[|]|[|] [|] [|]|] eqn:R; simpl; try destruct (Nat.eqb (rbuf s1) 0); simpl;
    match goal with |- context [ec_norm] => idtac | _ => idtac end;
    repeat match goal with |- context [match ec ?x with _ => _ end] => destruct (ec x) as [[|]|?|] eqn:?; simpl end;
    repeat match goal with |- context [match ebuf ?x with _ => _ end] => destruct (ebuf x) eqn:?; simpl end;
    unfold aK; simpl; rewrite ?R; simpl; auto.
Qed.

(* a set of abstract states closed under the K moves contains the abstraction of every successor *)
Definition kclosed (P : ast -> Prop) : Prop :=
  (forall a, P a -> P (t_rc RCExit a)) /\
  (forall a mv a', P a -> In mv kmoves -> kstep' a (KM mv) = Some a' -> P a').

Theorem k_step P s l s' es : kclosed P -> step s l = Some (s', es) -> P (aK s) -> P (aK s').
Proof.
  intros [C1 C2] H Pa. unfold step in H. destruct (step_raw s l) as [[s1 e1]|] eqn:R; [|discriminate].
  assert (P (aK s1)) as P1.
  { destruct (k_raw _ _ _ _ R) as [E|[E|[mv [Hin E]]]]; [rewrite E; exact Pa | rewrite E; apply C1; exact Pa | eapply C2; eauto]. }
  destruct (k_norm s1 e1) as [E|E]; destruct (with_norm (s1, e1)) as [s2 e2]; inv H; simpl in E; rewrite E; auto.
Qed.
End Sim.
