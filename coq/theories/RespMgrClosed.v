(* RespMgrClosed.v — C05: V (RespMgrReach.v) contains the initial state and is closed under every label x
   select order x more-blocks bit, by computation. *)
From Coq Require Import List NArith Bool FMapPositive Lia.
From GS Require Import Base RespMgr RespMgrReach.
Import ListNotations.
Open Scope N_scope.

(* V is closed under every transition, and contains the initial state: by computation *)
Definition closed_ok : bool := forallb (fun s => forallb (fun x => state_eqb x s || memb x V) (succs s)) V_elems.
Lemma closed_ok_true : closed_ok = true.
Proof. vm_compute. reflexivity. Qed.
Lemma init_in_V : memb init V = true.
Proof. vm_compute. reflexivity. Qed.

