(* C06Stale.v — the executor after a pause that took effect once the request had been sent
   (executor.go: ErrPaused after the block; ExecuteTask: cancel sent, SetRemoteOnline(false); Unpause: a new
   traverse() with requestSent = false on the same loader): the loader is offline but keeps the items that were
   queued; loads go on consuming them; the first load that finds neither a queued item nor a local block takes
   the executor online again (queue cleared, new verifier over everything loaded so far, request with
   do-not-send-first-blocks = blocks loaded so far), the response is replayed and the load continues. *)
From Coq Require Import List Arith NArith Bool Lia ZifyBool ZifyNat ZifyN.
From GS Require Import Base Ltree RecLoader ReqExec RecLoaderProofs C02Online C02Chunks C02Prefix C02Trie C02Replay C02Quiet C02PrefixProofs.
From GS Require Import PauseExec PauseProofs C06Frame.
Import ListNotations.
Open Scope N_scope.
Local Arguments N.add : simpl never.

Section Off.
  Variable t0 : ltree.
  Variable R : store.
  Variable sizes : list nat.
  Notation E := (exec_ask proper_prefix (honest t0 R sizes) 0).

  (* nothing sent (or: paused and resumed), loader offline, no message in flight *)
  Definition offl (x : xstate) : Prop :=
    x_sent x = false /\ x_cancelled x = false /\ x_feed x = [] /\ r_open (x_rl x) = false /\ lon (x_rl x).

  Lemma load_call_nofeed x p c r' st' res :
    x_feed x = [] -> bro_try proper_prefix (bro_start (x_rl x)) (x_store x) p c = (r', st', Some res) ->
    exists x1, load_call proper_prefix x p c = (x1, Some res) /\ x_rl x1 = r' /\ x_store x1 = st' /\
               x_sent x1 = x_sent x /\ x_cancelled x1 = x_cancelled x /\ x_feed x1 = [] /\ x_errs x1 = x_errs x.
  Proof.
    intros Hf Et. unfold load_call. destruct (pop_sched x) as [n x0] eqn:Ep.
    assert (H0 : x_feed x0 = [] /\ x_rl x0 = x_rl x /\ x_store x0 = x_store x /\ x_sent x0 = x_sent x /\
                 x_cancelled x0 = x_cancelled x /\ x_errs x0 = x_errs x).
    { unfold pop_sched in Ep. destruct (x_sched x); inversion Ep; subst; cbn; auto 10. }
    destruct H0 as (Hf0 & Hr0 & Hst0 & Hs0 & Hc0 & He0).
    rewrite (deliver_n_nofeed n x0 Hf0). cbn [x_with_rl x_feed x_rl x_store]. rewrite Hf0.
    cbn [load_wait x_rl x_store x_with_rl]. rewrite Hr0, Hst0, Et.
    destruct res as [b [|]|e l]; (eexists; split; [reflexivity|]); cbn; auto 10.
  Qed.

  Lemma exec_data x p c x1 b l :
    load_call proper_prefix x p c = (x1, Some (RData b l)) ->
    exists x', E x p c = (x', AOk) /\ x_rl x' = x_rl x1 /\ x_store x' = x_store x1 /\ x_sent x' = x_sent x1 /\
               x_cancelled x' = x_cancelled x1 /\ x_feed x' = x_feed x1 /\ x_errs x' = x_errs x1.
  Proof. intro El. unfold exec_ask. rewrite El. eexists. split; [reflexivity|]. cbn. auto 10. Qed.

  (* the head of the queue left over from the cancelled response is consumed *)
  Lemma o_head x p c h t' :
    offl x -> stq x = h :: t' -> unf x = [] -> i_link h = c -> i_act h = Present ->
    (i_blk h <> None \/ aget c (x_store x) <> None) ->
    exists x', E x p c = (x', AOk) /\ offl x' /\ stq x' = t' /\ unf x' = [] /\
               x_store x' = (match i_blk h with Some b => aput c b (x_store x) | None => x_store x end) /\
               x_errs x' = x_errs x.
  Proof.
    intros (Hs & Hc & Hf & Ho & Hl) Hq Hu Hlk Hact Hav. unfold stq, unf in *.
    destruct (bro_start_lon (x_rl x) Hl) as (Hl1 & Hq1 & Hu1 & Ho1).
    destruct (bro_try_head2 proper_prefix (bro_start (x_rl x)) (x_store x) p c h t' Hl1) as (r' & st' & res & Et & Hl' & Hq' & Ho' & Hu' & Hb).
    { now rewrite Hq1. } { left. now rewrite Hu1. } { exact Hlk. }
    assert (Hres : exists b l, res = RData b l /\ st' = (match i_blk h with Some b => aput c b (x_store x) | None => x_store x end)).
    { destruct (i_blk h) as [b|].
      - destruct Hb as [-> ->]. eauto.
      - destruct Hb as [-> ->]. destruct Hav as [Hav|Hav]; [congruence|]. unfold load_local.
        destruct (aget c (x_store x)) as [b0|]; [eauto | congruence]. }
    destruct Hres as (b & l & -> & Est).
    destruct (load_call_nofeed x p c _ _ _ Hf Et) as (x1 & E1 & F1 & F2 & F3 & F4 & F5 & F6).
    destruct (exec_data x p c x1 b l E1) as (x' & Ex & G1 & G2 & G3 & G4 & G5 & G6).
    exists x'. split; [exact Ex|]. unfold offl. rewrite G1, G2, G3, G4, G5, G6, F1, F2, F3, F4, F5, F6, Hq', Ho', Ho1, Hu', Hact.
    split; [split; [exact Hs|split; [exact Hc|split; [reflexivity|split; [exact Ho|exact Hl']]]]|].
    split; [reflexivity|]. split; [reflexivity|]. split; [exact Est | reflexivity].
  Qed.

  (* nothing queued: the local store *)
  Lemma o_local x p c b0 :
    offl x -> stq x = [] -> aget c (x_store x) = Some b0 ->
    exists x', E x p c = (x', AOk) /\ offl x' /\ stq x' = [] /\ unf x' = unf x /\ x_store x' = x_store x /\ x_errs x' = x_errs x.
  Proof.
    intros (Hs & Hc & Hf & Ho & Hl) Hq Hb. unfold stq, unf in *.
    destruct (bro_start_lon (x_rl x) Hl) as (Hl1 & Hq1 & Hu1 & Ho1).
    destruct (bro_try_closed proper_prefix (bro_start (x_rl x)) (x_store x) p c Hl1) as (r' & Et & Hl' & Hq' & Hu' & Ho').
    { now rewrite Hq1. } { now rewrite Ho1. }
    unfold load_local in Et. rewrite Hb in Et.
    destruct (load_call_nofeed x p c _ _ _ Hf Et) as (x1 & E1 & F1 & F2 & F3 & F4 & F5 & F6).
    destruct (exec_data x p c x1 b0 true E1) as (x' & Ex & G1 & G2 & G3 & G4 & G5 & G6).
    exists x'. split; [exact Ex|]. unfold offl. rewrite G1, G2, G3, G4, G5, G6, F1, F2, F3, F4, F5, F6, Hq', Ho', Hu', Hu1.
    split; [split; [exact Hs|split; [exact Hc|split; [reflexivity|split; [reflexivity|exact Hl']]]]|].
    split; [reflexivity|]. split; [reflexivity|]. split; reflexivity.
  Qed.

  (* nothing queued and not held locally: online again *)
  Lemma o_miss ns x p c :
    offl x -> stq x = [] -> unf x = [] -> x_errs x = [] -> aget c (x_store x) = None ->
    eff (x_rl x) = trie_of ns -> x_nblocks x = N.of_nat (length ns) ->
    exists sch lg, E x p c = xfinish p c (load_call proper_prefix (gstate t0 (x_store x) R sizes ns sch lg) p c).
  Proof.
    destruct x as [rl0 st sent nb canc errs feed sched lg]. destruct rl0 as [op q ver rec last unfd].
    destruct q as [qi lc det].
    unfold offl, stq, unf, eff. cbn [x_rl x_store x_sent x_nblocks x_cancelled x_errs x_feed r_open r_q r_verifier r_unfollowed q_items].
    intros (-> & -> & -> & -> & Hl) -> -> -> Hb Hrec ->.
    assert (Hd : det = false) by (destruct Hl as [Hd _]; exact Hd). subst det.
    unfold exec_ask, load_call, pop_sched. cbn [x_sched].
    assert (Hlc : forall sch, exists lg',
      load_wait proper_prefix []
        {| x_rl := bro_start {| r_open := false; r_q := {| q_items := []; q_lc := lc; q_detached := false |}; r_verifier := ver;
                                r_record := rec; r_last := last; r_unfollowed := [] |};
           x_store := st; x_sent := false; x_nblocks := N.of_nat (length ns); x_cancelled := false; x_errs := [];
           x_feed := []; x_sched := sch; x_log := lg |} p c =
      ({| x_rl := {| r_open := false; r_q := {| q_items := []; q_lc := lc; q_detached := false |}; r_verifier := ver;
                     r_record := trie_of ns; r_last := Some {| a_path := p; a_link := c; a_ok := false; a_remote := false |};
                     r_unfollowed := [] |};
          x_store := st; x_sent := false; x_nblocks := N.of_nat (length ns); x_cancelled := false; x_errs := [];
          x_feed := []; x_sched := sch; x_log := lg' |}, Some (RErr (EMissing p c) true))).
    { intro sch. rewrite <- Hrec. destruct last as [a|]; cbn; unfold load_local; rewrite Hb; cbn; eexists; reflexivity. }
    assert (Hfin : forall sch lg',
      exists sch2 lg2,
      xfinish p c
        (match Some (RErr (EMissing p c) true) with
         | Some (RErr (EMissing _ _) _) =>
             retry_call proper_prefix (go_online (honest t0 R sizes) 0
               {| x_rl := {| r_open := false; r_q := {| q_items := []; q_lc := lc; q_detached := false |}; r_verifier := ver;
                             r_record := trie_of ns; r_last := Some {| a_path := p; a_link := c; a_ok := false; a_remote := false |};
                             r_unfollowed := [] |};
                  x_store := st; x_sent := false; x_nblocks := N.of_nat (length ns); x_cancelled := false; x_errs := [];
                  x_feed := []; x_sched := sch; x_log := lg' |})
         | _ => (x_init [] [] [], None)
         end) =
      xfinish p c (load_call proper_prefix (gstate t0 st R sizes ns sch2 lg2) p c)).
    { intros sch lg'. unfold retry_call, go_online, retry_prepare.
      cbn [x_rl x_store x_sent x_nblocks x_cancelled x_errs x_feed x_sched x_log set_online r_open r_last andb negb set_verifier set_q
           a_remote a_path a_link x_with_rl set_last r_q r_verifier r_record r_unfollowed app].
      eexists. eexists. unfold gstate. reflexivity. }
    destruct sched as [|n s]; rewrite deliver_n_nofeed by reflexivity.
    - cbn [x_with_rl x_feed x_rl x_store x_sent x_nblocks x_cancelled x_errs x_sched x_log].
      destruct (Hlc []) as (lg' & Eb). unfold x_with_rl in Eb |- *. cbn [x_rl x_store x_sent x_nblocks x_cancelled x_errs x_feed x_sched x_log] in Eb |- *. rewrite Eb. cbn [x_sent x_cancelled].
      destruct (Hfin [] lg') as (sch2 & lg2 & Ef). exists sch2, lg2. etransitivity; [|exact Ef]. reflexivity.
    - cbn [x_with_rl x_feed x_rl x_store x_sent x_nblocks x_cancelled x_errs x_sched x_log].
      destruct (Hlc s) as (lg' & Eb). unfold x_with_rl in Eb |- *. cbn [x_rl x_store x_sent x_nblocks x_cancelled x_errs x_feed x_sched x_log] in Eb |- *. rewrite Eb. cbn [x_sent x_cancelled].
      destruct (Hfin s lg') as (sch2 & lg2 & Ef). exists sch2, lg2. etransitivity; [|exact Ef]. reflexivity.
  Qed.
End Off.
