(* AllocConc.v — concurrent callers of /repo/allocator/allocator.go (extends C13, C14).

   Every exported method of allocator.Allocator holds allocLk for its whole body
   (allocator.go: AllocateBlockMemory / ReleaseBlockMemory / ReleasePeerMemory take a.allocLk.Lock()
   first and release it by defer).  Calls issued by concurrent callers therefore take effect as SOME
   sequence of the atomic steps of Alloc.step.  A script step is one call (as in Alloc.run) or a
   GROUP of calls issued at once by different goroutines; the effect of a group is the effect of some
   permutation of its calls run one after the other.

   Result channels.  The harness names the result channel of an AllocateBlockMemory call by the
   position of the call in the script ("harness ticket"); the model names it by the order in which
   the calls took the lock (Alloc.next_tkt, "model ticket").  Inside a group the two orders differ, so
   a run carries the renaming model ticket -> harness ticket and outcomes are reported renamed.

   This file: the executable acceptor over observed grouped histories (which linearisations explain
   what was seen?) and the executable C13 monitor for grouped histories.  No proofs here. *)
From Coq Require Import List NArith Bool.
From GS Require Export Base Alloc.
Import ListNotations.
Open Scope N_scope.

Inductive gstep := GOne (o : op) | GGroup (os : list op).
Definition g_ops (g : gstep) : list op := match g with GOne o => [o] | GGroup os => os end.

(* a call of a step: its position in the step, the operation, the harness ticket of its result
   channel (meaningful for OAlloc only) *)
Record top := { t_idx : N; t_op : op; t_tk : ticket }.

Definition is_alloc (o : op) : bool := match o with OAlloc _ _ => true | _ => false end.

Fixpoint tag (i : N) (nt : ticket) (os : list op) : list top :=
  match os with
  | [] => []
  | o :: r => {| t_idx := i; t_op := o; t_tk := nt |} :: tag (i + 1) (if is_alloc o then nt + 1 else nt) r
  end.

Definition n_allocs (os : list op) : N :=
  fold_right (fun o n => if is_alloc o then n + 1 else n) 0 os.

(* renaming: model ticket -> harness ticket (identity where unbound) *)
Definition rmap := list (ticket * ticket).
Fixpoint ren_get (t : ticket) (r : rmap) : ticket :=
  match r with
  | [] => t
  | (m, h) :: r' => if N.eqb t m then h else ren_get t r'
  end.
Definition ren_out (r : rmap) (o : out) : out :=
  match o with Granted t => Granted (ren_get t r) | Failed t => Failed (ren_get t r) end.

(* run the calls of one step in the given order: Alloc.step for each, in turn.
   Result: state, renaming, outcomes (model tickets, in delivery order), error flag of each call
   keyed by its position, fuel-ok *)
Fixpoint run_block (s : st) (r : rmap) (b : list top) : st * rmap * list out * list (N * bool) * bool :=
  match b with
  | [] => (s, r, [], [], true)
  | t :: b' =>
      let r1 := if is_alloc (t_op t) then (next_tkt s, t_tk t) :: r else r in
      let '(s1, outs, err, ok) := step s (t_op t) in
      let '(s2, r2, outs2, errs2, ok2) := run_block s1 r1 b' in
      (s2, r2, outs ++ outs2, (t_idx t, err) :: errs2, ok && ok2)
  end.

(* ---- observations of a step ---------------------------------------------------------------- *)
(* [go]: what Alloc.observe reports after the step (outcomes of all result channels that fired during
   the step, sorted by harness ticket; o_err unused = false); [go_errs]: the returned-error flag of
   each call of the step, in script order *)
Record gobs := { go : obs; go_errs : list bool }.

Fixpoint err_get (i : N) (l : list (N * bool)) : bool :=
  match l with
  | [] => false
  | (j, e) :: r => if N.eqb i j then e else err_get i r
  end.
Fixpoint nseq (i : N) (n : nat) : list N :=
  match n with O => [] | S k => i :: nseq (i + 1) k end.
Definition errs_in_order (n : nat) (l : list (N * bool)) : list bool :=
  map (fun i => err_get i l) (nseq 0 n).

Definition gobserve (univ : list peer) (s : st) (r : rmap) (outs : list out) (errs : list (N * bool))
           (n : nat) : gobs :=
  {| go := observe univ s (map (ren_out r) outs) false; go_errs := errs_in_order n errs |}.

Definition gobs_eqb (a b : gobs) : bool :=
  obs_eqb (go a) (go b) && list_eqb Bool.eqb (go_errs a) (go_errs b).

(* ---- permutations --------------------------------------------------------------------------- *)
Fixpoint inserts {A} (x : A) (l : list A) : list (list A) :=
  match l with
  | [] => [[x]]
  | y :: r => (x :: l) :: map (cons y) (inserts x r)
  end.
Fixpoint perms {A} (l : list A) : list (list A) :=
  match l with
  | [] => [[]]
  | x :: r => flat_map (inserts x) (perms r)
  end.

(* ---- the acceptor --------------------------------------------------------------------------- *)
Definition cand := (st * rmap)%type.

(* all ways one candidate can explain the observation of step g *)
Definition adv (univ : list peer) (nt : ticket) (g : gstep) (ob : gobs) (c : cand) : list cand :=
  flat_map (fun b =>
              let '(s', r', outs, errs, ok) := run_block (fst c) (snd c) b in
              if ok && gobs_eqb (gobserve univ s' r' outs errs (length (g_ops g))) ob
              then [(s', r')] else [])
           (perms (tag 0 nt (g_ops g))).

(* candidates that cannot be told apart by any later observation are merged: same configuration and
   counters, same per-peer status for every peer of the universe (table order is not observable:
   Alloc.v header), and the same harness names for the tickets still waiting *)
Definition pend_eqb (a b : pend) : bool :=
  N.eqb (p_amt a) (p_amt b) && N.eqb (p_idx a) (p_idx b) && N.eqb (p_tkt a) (p_tkt b).
Definition pstat_eqb (a b : pstat) : bool :=
  N.eqb (ps_alloc a) (ps_alloc b) && list_eqb pend_eqb (ps_pend a) (ps_pend b).
Definition pend_tkts (s : st) : list ticket :=
  flat_map (fun x => map p_tkt (ps_pend (snd x))) (peers s).
Definition cand_eqb (univ : list peer) (a b : cand) : bool :=
  let '(sa, ra) := a in
  let '(sb, rb) := b in
  N.eqb (max_total sa) (max_total sb) && N.eqb (max_peer sa) (max_peer sb) &&
  N.eqb (total sa) (total sb) && N.eqb (next_idx sa) (next_idx sb) && N.eqb (next_tkt sa) (next_tkt sb) &&
  Nat.eqb (length (peers sa)) (length (peers sb)) &&
  forallb (fun p => option_eqb pstat_eqb (lookup p (peers sa)) (lookup p (peers sb))) univ &&
  forallb (fun t => N.eqb (ren_get t ra) (ren_get t rb)) (pend_tkts sa).

Fixpoint dedup (univ : list peer) (l : list cand) : list cand :=
  match l with
  | [] => []
  | c :: r => let r' := dedup univ r in if existsb (cand_eqb univ c) r' then r' else c :: r'
  end.

(* [dd]: the merging function (dedup, or the identity for the completeness statement) *)
Fixpoint acc_with (dd : list cand -> list cand) (univ : list peer) (cs : list cand) (nt : ticket)
         (script : list gstep) (obsl : list gobs) : bool :=
  match script, obsl with
  | [], [] => match cs with [] => false | _ => true end
  | g :: script', ob :: obsl' =>
      match dd (flat_map (adv univ nt g ob) cs) with
      | [] => false
      | cs' => acc_with dd univ cs' (nt + n_allocs (g_ops g)) script' obsl'
      end
  | _, _ => false
  end.

Definition acc (univ : list peer) := acc_with (dedup univ) univ.
Definition acc_nd (univ : list peer) := acc_with (fun l => l) univ.

(* the model's own run of a grouped script with every group taken in script order *)
Fixpoint grun (univ : list peer) (s : st) (r : rmap) (nt : ticket) (script : list gstep) : list gobs :=
  match script with
  | [] => []
  | g :: script' =>
      let '(s', r', outs, errs, _) := run_block s r (tag 0 nt (g_ops g)) in
      gobserve univ s' r' outs errs (length (g_ops g)) :: grun univ s' r' (nt + n_allocs (g_ops g)) script'
  end.

(* ============================================================================================ *)
(* C13 on a grouped observed history.  A single call is checked by the clauses of Alloc.monitor13
   (exact granted-minus-released ledger).  For a group only what does not depend on the order of its
   calls is checked: reported total = sum of the reported per-peer totals, both limits, no peer holds
   more than it held plus what this step granted it, no peer lost more than the step's releases could
   take (unless the step released the whole peer), and the all-released clause.  The ledger then
   continues from the reported per-peer totals. *)
Definition sumN (l : list N) : N := fold_right N.add 0 l.

Definition tk_ext_ops (tk : tkt_info) (nt : ticket) (os : list op) : tkt_info * ticket :=
  fold_left (fun acc o => match o with
                          | OAlloc p a => ((snd acc, (p, a)) :: fst acc, snd acc + 1)
                          | _ => acc
                          end) os (tk, nt).

Definition granted_to (tk : tkt_info) (p : peer) (outs : list out) : N :=
  fold_right (fun o acc => match o with
                           | Granted t => match tkt_lookup t tk with
                                          | Some (q, a) => if N.eqb q p then a + acc else acc
                                          | None => acc
                                          end
                           | Failed _ => acc
                           end) 0 outs.

Definition released_of (p : peer) (os : list op) : N :=
  fold_right (fun o acc => match o with
                           | ORelease q a => if N.eqb q p then a + acc else acc
                           | _ => acc
                           end) 0 os.
Definition has_relpeer (p : peer) (os : list op) : bool :=
  existsb (fun o => match o with OReleasePeer q => N.eqb q p | _ => false end) os.

Definition obs_one (ob : gobs) : obs :=
  {| o_outs := o_outs (go ob); o_err := hd false (go_errs ob); o_total := o_total (go ob);
     o_pending := o_pending (go ob); o_npending := o_npending (go ob); o_allocs := o_allocs (go ob) |}.

Definition group_clauses (mt mp : N) (univ : list peer) (tk' : tkt_info) (l : ledger) (os : list op)
           (ob : gobs) : bool :=
  let o := go ob in
  Nat.eqb (length (o_allocs o)) (length univ) &&
  Nat.eqb (length (go_errs ob)) (length os) &&
  N.eqb (o_total o) (sumN (o_allocs o)) &&
  (o_total o <=? mt) && forallb (fun a => a <=? mp) (o_allocs o) &&
  forallb (fun pc => let p := fst pc in let cur := snd pc in
                     let was := led_get p l + granted_to tk' p (o_outs o) in
                     (cur <=? was) && (has_relpeer p os || (was <=? cur + released_of p os)))
          (combine univ (o_allocs o)) &&
  (if N.eqb (o_total o) 0 && amounts_within mt mp tk'
   then N.eqb (o_pending o) 0 && N.eqb (o_npending o) 0 else true).

Fixpoint gmonitor13 (mt mp : N) (univ : list peer) (tk : tkt_info) (nt : ticket) (l : ledger)
         (script : list gstep) (obsl : list gobs) : bool :=
  match script, obsl with
  | [], [] => true
  | GOne o :: script', ob :: obsl' =>
      let '(tk', nt') := tk_ext_ops tk nt [o] in
      monitor13 mt mp univ tk nt l [o] [obs_one ob] &&
      gmonitor13 mt mp univ tk' nt' (ledger_step tk' l o (obs_one ob)) script' obsl'
  | GGroup os :: script', ob :: obsl' =>
      let '(tk', nt') := tk_ext_ops tk nt os in
      group_clauses mt mp univ tk' l os ob &&
      gmonitor13 mt mp univ tk' nt' (combine univ (o_allocs (go ob))) script' obsl'
  | _, _ => false
  end.

(* ============================================================================================ *)
(* C14 on a grouped observed history: the clauses of the waiting-room specification that do not depend
   on the order of a group's calls.  [open]: tickets issued and not yet resolved, with peer, amount and
   the index of the step that issued them (tickets of an earlier step queued before tickets of a later
   step; inside one step the queueing order is unknown).
   - a result channel fires at most once, and only for an issued ticket;
   - per-peer FIFO across steps: when a ticket is resolved no ticket of the same peer issued by an
     earlier step is left waiting;
   - a ticket fails only in a step that released its peer; a step that released a peer (without error)
     leaves no ticket of that peer from earlier steps waiting;
   - no lost wake-up: it is never the case that every possible queue head (per peer, the waiting tickets
     of the earliest step) fits both its peer's limit and the total limit;
   - a single AllocateBlockMemory is granted in the call iff its peer has nothing waiting and the
     amount fits both limits (judged on the totals reported after the previous step). *)
Record otk := { ot_t : ticket; ot_p : peer; ot_a : N; ot_k : N }.

Fixpoint new_tickets (k : N) (nt : ticket) (os : list op) : list otk :=
  match os with
  | [] => []
  | OAlloc p a :: r => {| ot_t := nt; ot_p := p; ot_a := a; ot_k := k |} :: new_tickets k (nt + 1) r
  | _ :: r => new_tickets k nt r
  end.

Fixpoint otk_find (t : ticket) (l : list otk) : option otk :=
  match l with [] => None | x :: r => if N.eqb t (ot_t x) then Some x else otk_find t r end.
Definition otk_remove (t : ticket) (l : list otk) : list otk :=
  filter (fun x => negb (N.eqb t (ot_t x))) l.

Definition relpeer_ok (p : peer) (os : list op) (errs : list bool) : bool :=
  existsb (fun oe => match fst oe with OReleasePeer q => N.eqb q p && negb (snd oe) | _ => false end)
          (combine os errs).

(* resolve the outcomes one by one against the open set *)
Fixpoint resolve14 (os : list op) (errs : list bool) (outs : list out) (open : list otk)
  : option (list otk * list otk) :=   (* remaining open, resolved *)
  match outs with
  | [] => Some (open, [])
  | o :: r =>
      match otk_find (out_tkt o) open with
      | None => None
      | Some x =>
          if match o with Failed _ => negb (relpeer_ok (ot_p x) os errs) | Granted _ => false end then None
          else match resolve14 os errs r (otk_remove (out_tkt o) open) with
               | Some (op', res) => Some (op', x :: res)
               | None => None
               end
      end
  end.

Definition min_step (p : peer) (open : list otk) : option N :=
  fold_right (fun x acc => if N.eqb (ot_p x) p
                           then match acc with None => Some (ot_k x)
                                             | Some m => Some (N.min m (ot_k x)) end
                           else acc) None open.

Definition weak_stable (mt mp : N) (l : ledger) (tot : N) (open : list otk) : bool :=
  match open with
  | [] => true
  | _ => negb (forallb (fun x => match min_step (ot_p x) open with
                                 | Some m => if N.eqb m (ot_k x)
                                             then fits (led_get (ot_p x) l) (ot_a x) mp && fits tot (ot_a x) mt
                                             else true
                                 | None => true
                                 end) open)
  end.

Fixpoint gmonitor14 (mt mp : N) (univ : list peer) (k : N) (nt : ticket) (open : list otk)
         (l : ledger) (tot : N) (script : list gstep) (obsl : list gobs) : bool :=
  match script, obsl with
  | [], [] => true
  | g :: script', ob :: obsl' =>
      let os := g_ops g in
      let o := go ob in
      let errs := go_errs ob in
      let fresh := new_tickets k nt os in
      match resolve14 os errs (o_outs o) (open ++ fresh) with
      | None => false
      | Some (open', res) =>
          let l' := combine univ (o_allocs o) in
          Nat.eqb (length errs) (length os) &&
          (* FIFO across steps *)
          forallb (fun x => negb (existsb (fun y => N.eqb (ot_p y) (ot_p x) && (ot_k y <? ot_k x)) open')) res &&
          (* a released peer keeps nothing waiting from earlier steps *)
          forallb (fun y => negb ((ot_k y <? k) && relpeer_ok (ot_p y) os errs)) open' &&
          weak_stable mt mp l' (o_total o) open' &&
          match g with
          | GOne (OAlloc p a) =>
              let now := negb (existsb (fun y => N.eqb (ot_p y) p) open) &&
                         fits tot a mt && fits (led_get p l) a mp in
              negb (hd false errs) &&
              list_eqb out_eqb (o_outs o) (if now then [Granted nt] else [])
          | GOne _ => if hd false errs then list_eqb out_eqb (o_outs o) [] else true
          | GGroup _ => true
          end &&
          gmonitor14 mt mp univ (k + 1) (nt + n_allocs os) open' l' (o_total o) script' obsl'
      end
  | _, _ => false
  end.

Definition script_ops (script : list gstep) : list op := flat_map g_ops script.

(* ---- correspondence entry points used by the cases files ------------------------------------- *)
Record ccase := { cc_mt : N; cc_mp : N; cc_univ : list peer; cc_script : list gstep; cc_obs : list gobs }.

Definition ccase_agrees (c : ccase) : bool :=
  univ_ok (cc_univ c) (script_ops (cc_script c)) &&
  acc (cc_univ c) [(init (cc_mt c) (cc_mp c), [])] 0 (cc_script c) (cc_obs c).
Definition ccase_mon13 (c : ccase) : bool :=
  gmonitor13 (cc_mt c) (cc_mp c) (cc_univ c) [] 0 [] (cc_script c) (cc_obs c).
Definition ccase_mon14 (c : ccase) : bool :=
  gmonitor14 (cc_mt c) (cc_mp c) (cc_univ c) 0 0 [] [] 0 (cc_script c) (cc_obs c).
