(* SelWalkProofs.v — C08: the regenerated walking selector finds exactly the recursion limits of any
   selector spec, whatever clauses they are nested under. *)
From Coq Require Import List String ZArith Bool Lia.
From GS Require Import SelWalk.
From GSgen Require Import GenMaxDepthSel.
Import ListNotations.
Open Scope string_scope.
Open Scope list_scope.

(* induction principle for the nested type [sel] *)
Section SelInd.
  Variable P : sel -> Prop.
  Hypothesis HM : P SMatcher.
  Hypothesis HE : P SEdge.
  Hypothesis HA : forall n, P n -> P (SAll n).
  Hypothesis HF : forall fs, Forall (fun kv => P (snd kv)) fs -> P (SFields fs).
  Hypothesis HI : forall i n, P n -> P (SIndex i n).
  Hypothesis HR : forall a b n, P n -> P (SRange a b n).
  Hypothesis HU : forall l, Forall P l -> P (SUnion l).
  Hypothesis HRec : forall lim seq stop, P seq -> P (SRec lim seq stop).
  Hypothesis HInt : forall adl n, P n -> P (SInterp adl n).
  Fixpoint sel_ind' (s : sel) : P s :=
    match s with
    | SMatcher => HM
    | SEdge => HE
    | SAll n => HA n (sel_ind' n)
    | SFields fs => HF fs ((fix go (l : list (string * sel)) : Forall (fun kv => P (snd kv)) l :=
                              match l with
                              | [] => Forall_nil _
                              | kv :: r => Forall_cons kv (sel_ind' (snd kv)) (go r)
                              end) fs)
    | SIndex i n => HI i n (sel_ind' n)
    | SRange a b n => HR a b n (sel_ind' n)
    | SUnion l => HU l ((fix go (l : list sel) : Forall P l :=
                           match l with
                           | [] => Forall_nil _
                           | x :: r => Forall_cons x (sel_ind' x) (go r)
                           end) l)
    | SRec lim seq stop => HRec lim seq stop (sel_ind' seq)
    | SInterp adl n => HInt adl n (sel_ind' n)
    end.
End SelInd.

(* the compiled walking selector, computed from the regenerated spec *)
Definition W : csel := Eval vm_compute in compile max_depth_spec.
Lemma W_is_compiled : compile max_depth_spec = W.
Proof. vm_compute. reflexivity. Qed.

(* walking the children of a map / list, as separate functions for rewriting *)
Fixpoint walk_entries (s : csel) (l : list (string * node)) : list node :=
  match l with
  | [] => []
  | (k, v) :: r =>
      (if wants s (Some k) then match explore s (Some k) with Some nx => walk nx v | None => [] end else [])
      ++ walk_entries s r
  end.
Fixpoint walk_elems (s : csel) (l : list node) : list node :=
  match l with
  | [] => []
  | v :: r =>
      (if wants s None then match explore s None with Some nx => walk nx v | None => [] end else [])
      ++ walk_elems s r
  end.
Lemma walk_map s l : walk s (NMap l) = (if is_match s then [NMap l] else []) ++ walk_entries s l.
Proof. simpl. f_equal. induction l as [|[k v] r IH]; simpl; [reflexivity | now rewrite IH]. Qed.
Lemma walk_list s l : walk s (NList l) = (if is_match s then [NList l] else []) ++ walk_elems s l.
Proof. simpl. f_equal. induction l as [|v r IH]; simpl; [reflexivity | now rewrite IH]. Qed.

Lemma walk_limit lim : walk CMatcher (limit_node lim) = [limit_node lim].
Proof. destruct lim; reflexivity. Qed.

Definition F7 : csel := Eval vm_compute in match W with CRec s _ _ => s | _ => CMatcher end.
Definition XAll : csel := CRec F7 (CAll CEdge) None.    (* the walker positioned on a map/list of selectors *)

Lemma W_shape : W = CRec F7 F7 None.
Proof. reflexivity. Qed.

Lemma entries_all (fs : list (string * sel)) :
  walk_entries XAll (map (fun kv => (fst kv, to_node (snd kv))) fs) =
  flat_map (fun kv => walk W (to_node (snd kv))) fs.
Proof. induction fs as [|[k v] r IH]; [reflexivity|]. cbn -[walk W F7]. now rewrite IH. Qed.

Lemma elems_all (l : list sel) :
  walk_elems XAll (map to_node l) = flat_map (fun x => walk W (to_node x)) l.
Proof. induction l as [|x r IH]; [reflexivity|]. cbn -[walk W F7]. now rewrite IH. Qed.

Ltac wstep := repeat (rewrite ?walk_map, ?walk_list; cbn -[walk]).

Theorem walk_finds_limits : forall s, walk W (to_node s) = map limit_node (limits s).
Proof.
  induction s using sel_ind'.
  - vm_compute. reflexivity.
  - vm_compute. reflexivity.
  - (* explore-all *)
    unfold W in *. cbn [to_node limits]. wstep. rewrite IHs. now rewrite !app_nil_r.
  - (* explore-fields *)
    cbn [to_node limits]. unfold W at 1. wstep. fold F7. fold XAll. rewrite entries_all, !app_nil_r.
    induction H as [|kv r Hkv Hr IH]; [reflexivity|]. cbn [flat_map]. rewrite map_app, Hkv, IH. reflexivity.
  - (* explore-index *)
    unfold W in *. cbn [to_node limits]. wstep. rewrite IHs. now rewrite !app_nil_r.
  - (* explore-range *)
    unfold W in *. cbn [to_node limits]. wstep. rewrite IHs. now rewrite !app_nil_r.
  - (* explore-union *)
    cbn [to_node limits]. unfold W at 1. wstep. fold F7. fold XAll. rewrite elems_all, !app_nil_r.
    induction H as [|x r Hx Hr IH]; [reflexivity|]. cbn [flat_map]. rewrite map_app, Hx, IH. reflexivity.
  - (* explore-recursive *)
    unfold W in *. cbn [to_node limits]. destruct stop; wstep; rewrite IHs, ?app_nil_r;
      destruct lim; reflexivity.
  - (* interpret-as *)
    unfold W in *. cbn [to_node limits]. wstep. rewrite IHs. now rewrite !app_nil_r.
Qed.

Lemma limit_ok_node maxd lim : limit_ok maxd (limit_node lim) = lim_le maxd lim.
Proof. destruct lim; reflexivity. Qed.

(* the validator's verdict on any rendered spec is exactly "every recursion limit is a depth <= max" *)
Lemma c08_validate maxd s : validate max_depth_spec maxd (to_node s) = all_limits_le maxd s.
Proof.
  unfold validate, all_limits_le. rewrite W_is_compiled, walk_finds_limits.
  induction (limits s) as [|l r IH]; [reflexivity|]. simpl. now rewrite limit_ok_node, IH.
Qed.
