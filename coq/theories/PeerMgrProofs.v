(* PeerMgrProofs.v — C17: every live process is the one its peer's table entry holds. *)
From Coq Require Import List NArith Bool Lia.
From GS Require Import Base PeerMgr.
Import ListNotations.
Open Scope N_scope.

Record PMInv (s : pm) : Prop := {
  (* a live process is the table's process for its peer *)
  live_in_table : forall q p, aget q (queues s) = Some (p, QLive) -> exists rc, aget p (table s) = Some (rc, q);
  (* table entries point at processes of that peer that have not exited *)
  table_ok : forall p rc q, aget p (table s) = Some (rc, q) ->
             exists st, aget q (queues s) = Some (p, st) /\ st <> QExited;
  ids_below : forall q x, aget q (queues s) = Some x -> q < next_q s
}.

Lemma PMInv_new : PMInv pm_new.
Proof. constructor; simpl; intros; discriminate. Qed.

Lemma aget_set_status q q' st qs :
  aget q' (set_status q st qs) =
  if N.eqb q' q then match aget q qs with Some (p, _) => Some (p, st) | None => None end else aget q' qs.
Proof.
  unfold set_status. destruct (aget q qs) as [[p st0]|] eqn:E.
  - destruct (N.eqb_spec q' q) as [->|Hne]; [apply aget_aput_eq | apply aget_aput_neq; congruence].
  - destruct (N.eqb_spec q' q) as [->|Hne]; [exact E | reflexivity].
Qed.

Lemma get_or_create_inv p s : PMInv s ->
  let '(s1, (rc, q)) := get_or_create p s in
  PMInv s1 /\ aget p (table s1) = Some (rc, q) /\
  (aget p (table s) = Some (rc, q) /\ s1 = s \/
   aget p (table s) = None /\ q = next_q s /\ rc = 0 /\ aget q (queues s1) = Some (p, QLive)).
Proof.
  intros [H1 H2 H3]. unfold get_or_create. destruct (aget p (table s)) as [[rc q]|] eqn:E.
  - split; [constructor; assumption|]. split; [exact E|]. left; auto.
  - split; [|split; [simpl; apply aget_aput_eq | right; repeat split; simpl; auto; apply aget_aput_eq]].
    constructor; simpl.
    + intros q p' Hq. destruct (N.eqb_spec (next_q s) q) as [<-|Hne].
      * rewrite aget_aput_eq in Hq. inversion Hq; subst. exists 0. apply aget_aput_eq.
      * rewrite aget_aput_neq in Hq by assumption. destruct (H1 _ _ Hq) as [rc Hrc]. exists rc.
        destruct (N.eqb_spec p p') as [->|]; [congruence | now rewrite aget_aput_neq].
    + intros p' rc q Hp. destruct (N.eqb_spec p p') as [<-|Hne].
      * rewrite aget_aput_eq in Hp. inversion Hp; subst. exists QLive. rewrite aget_aput_eq. split; [reflexivity | discriminate].
      * rewrite aget_aput_neq in Hp by assumption. destruct (H2 _ _ _ Hp) as (st & Hq & Hst).
        exists st. split; [|exact Hst]. rewrite aget_aput_neq; [exact Hq|]. pose proof (H3 _ _ Hq). lia.
    + intros q x Hq. destruct (N.eqb_spec (next_q s) q) as [<-|Hne]; [lia|].
      rewrite aget_aput_neq in Hq by assumption. pose proof (H3 _ _ Hq). lia.
Qed.

Lemma pstep_inv s l : PMInv s -> PMInv (fst (pstep s l)).
Proof.
  intro HI. destruct l as [p|p|p|q|q]; simpl.
  - (* connected *)
    pose proof (get_or_create_inv p s HI) as H. destruct (get_or_create p s) as [s1 [rc q]].
    destruct H as ([H1 H2 H3] & Ht & _). simpl. constructor; simpl.
    + intros q' p' Hq. destruct (H1 _ _ Hq) as [rc' Hrc]. destruct (N.eqb_spec p p') as [<-|Hne].
      * rewrite aget_aput_eq. rewrite Ht in Hrc. inversion Hrc; subst. eauto.
      * rewrite aget_aput_neq by assumption. eauto.
    + intros p' rc' q' Hp. destruct (N.eqb_spec p p') as [<-|Hne].
      * rewrite aget_aput_eq in Hp. inversion Hp; subst. eapply H2; eauto.
      * rewrite aget_aput_neq in Hp by assumption. eapply H2; eauto.
    + exact H3.
  - (* disconnected *)
    destruct HI as [H1 H2 H3]. destruct (aget p (table s)) as [[rc q]|] eqn:E; [|constructor; assumption].
    destruct (1 <? rc); simpl.
    + constructor; simpl; auto.
      * intros q' p' Hq. destruct (H1 _ _ Hq) as [rc' Hrc]. destruct (N.eqb_spec p p') as [<-|Hne].
        -- rewrite aget_aput_eq. rewrite E in Hrc. inversion Hrc; subst. eauto.
        -- rewrite aget_aput_neq by assumption. eauto.
      * intros p' rc' q' Hp. destruct (N.eqb_spec p p') as [<-|Hne].
        -- rewrite aget_aput_eq in Hp. inversion Hp; subst. eapply H2; eauto.
        -- rewrite aget_aput_neq in Hp by assumption. eapply H2; eauto.
    + destruct (H2 _ _ _ E) as (st & Hq & Hst).
      assert (Hqs : forall q', aget q' (match aget q (queues s) with
                                         | Some (_, QLive) => set_status q QSignalled (queues s)
                                         | _ => queues s end) =
                               if N.eqb q' q then Some (p, match st with QLive => QSignalled | x => x end)
                               else aget q' (queues s)).
      { intro q'. rewrite Hq. destruct st; try (destruct (N.eqb_spec q' q) as [->|]; [exact Hq | reflexivity]).
        rewrite aget_set_status, Hq. reflexivity. }
      constructor; simpl.
      * intros q' p' Hq'. rewrite Hqs in Hq'. destruct (N.eqb_spec q' q) as [->|Hne].
        -- inversion Hq'; subst. destruct st; discriminate.
        -- destruct (H1 _ _ Hq') as [rc' Hrc]. exists rc'. destruct (N.eqb_spec p p') as [<-|Hnp].
           ++ rewrite E in Hrc. inversion Hrc; subst. contradiction.
           ++ now rewrite aget_adel_neq.
      * intros p' rc' q' Hp. destruct (N.eqb_spec p p') as [<-|Hnp].
        -- now rewrite aget_adel_eq in Hp.
        -- rewrite aget_adel_neq in Hp by assumption. destruct (H2 _ _ _ Hp) as (st' & Hq' & Hst').
           rewrite Hqs. destruct (N.eqb_spec q' q) as [->|Hne].
           ++ rewrite Hq in Hq'. inversion Hq'; subst. contradiction.
           ++ eauto.
      * intros q' x Hq'. rewrite Hqs in Hq'. destruct (N.eqb_spec q' q) as [->|Hne]; [eapply H3; eauto | eapply H3; eauto].
  - (* get process *)
    pose proof (get_or_create_inv p s HI) as H. destruct (get_or_create p s) as [s1 [rc q]].
    destruct H as (HI1 & _). exact HI1.
  - (* self shutdown *)
    destruct HI as [H1 H2 H3]. destruct (aget q (queues s)) as [[p st]|] eqn:E; [|constructor; assumption].
    destruct st; try (constructor; assumption). simpl. constructor; simpl.
    + intros q' p' Hq'. rewrite aget_set_status, E in Hq'. destruct (N.eqb_spec q' q); [discriminate | eauto].
    + intros p' rc q' Hp. destruct (H2 _ _ _ Hp) as (st' & Hq' & Hst'). rewrite aget_set_status, E.
      destruct (N.eqb_spec q' q) as [->|Hne].
      * rewrite E in Hq'. inversion Hq'; subst. exists QSignalled. split; [reflexivity | discriminate].
      * eauto.
    + intros q' x Hq'. rewrite aget_set_status, E in Hq'. destruct (N.eqb_spec q' q) as [->|Hne]; eapply H3; eauto.
  - (* exit *)
    destruct HI as [H1 H2 H3]. destruct (aget q (queues s)) as [[p st]|] eqn:E; [|constructor; assumption].
    destruct st; try (constructor; assumption). simpl.
    set (t' := match aget p (table s) with
               | Some (_, q') => if N.eqb q' q then adel p (table s) else table s
               | None => table s end).
    assert (Ht' : forall p', aget p' t' = match aget p' (table s) with
                                           | Some (rc, q') => if N.eqb q' q then None else Some (rc, q')
                                           | None => None end).
    { intro p'. unfold t'. destruct (aget p (table s)) as [[rc0 q0]|] eqn:Et.
      - destruct (N.eqb_spec q0 q) as [->|Hne].
        + destruct (N.eqb_spec p p') as [<-|Hnp].
          * rewrite aget_adel_eq, Et, N.eqb_refl. reflexivity.
          * rewrite aget_adel_neq by assumption. destruct (aget p' (table s)) as [[rc1 q1]|] eqn:Et1; [|reflexivity].
            destruct (N.eqb_spec q1 q) as [->|]; [|reflexivity].
            destruct (H2 _ _ _ Et1) as (st1 & Hq1 & _). rewrite E in Hq1. inversion Hq1; subst. contradiction.
        + destruct (aget p' (table s)) as [[rc1 q1]|] eqn:Et1; [|reflexivity].
          destruct (N.eqb_spec q1 q) as [->|]; [|reflexivity].
          destruct (H2 _ _ _ Et1) as (st1 & Hq1 & _). rewrite E in Hq1. inversion Hq1; subst.
          rewrite Et in Et1. inversion Et1; subst. contradiction.
      - destruct (aget p' (table s)) as [[rc1 q1]|] eqn:Et1; [|reflexivity].
        destruct (N.eqb_spec q1 q) as [->|]; [|reflexivity].
        destruct (H2 _ _ _ Et1) as (st1 & Hq1 & _). rewrite E in Hq1. inversion Hq1; subst. congruence. }
    constructor; simpl.
    + intros q' p' Hq'. rewrite aget_set_status, E in Hq'. destruct (N.eqb_spec q' q) as [->|Hne]; [discriminate|].
      destruct (H1 _ _ Hq') as [rc Hrc]. exists rc. rewrite Ht', Hrc.
      destruct (N.eqb_spec q' q); [contradiction | reflexivity].
    + intros p' rc q' Hp. rewrite Ht' in Hp. destruct (aget p' (table s)) as [[rc1 q1]|] eqn:Et1; [|discriminate].
      destruct (N.eqb_spec q1 q) as [->|Hne]; [discriminate|]. inversion Hp; subst.
      destruct (H2 _ _ _ Et1) as (st' & Hq' & Hst'). rewrite aget_set_status, E.
      destruct (N.eqb_spec q' q); [contradiction | eauto].
    + intros q' x Hq'. rewrite aget_set_status, E in Hq'. destruct (N.eqb_spec q' q) as [->|Hne]; eapply H3; eauto.
Qed.

Lemma prun_inv : forall ls s, PMInv s -> PMInv (prun_pm s ls).
Proof. induction ls as [|l r IH]; intros s H; simpl; [exact H | apply IH, pstep_inv, H]. Qed.

(* at most one live process per peer, in every reachable state *)
Lemma c17_one_live ls p q1 q2 :
  let s := prun_pm pm_new ls in
  aget q1 (queues s) = Some (p, QLive) -> aget q2 (queues s) = Some (p, QLive) -> q1 = q2.
Proof.
  intros s A B. pose proof (prun_inv ls pm_new PMInv_new) as [H1 _ _]. fold s in H1.
  destruct (H1 _ _ A) as [r1 E1]. destruct (H1 _ _ B) as [r2 E2]. congruence.
Qed.

(* the last disconnect leaves no live process for the peer *)
Lemma c17_last_disconnect ls p rc q :
  let s := prun_pm pm_new ls in
  aget p (table s) = Some (rc, q) -> rc <= 1 ->
  let s' := fst (pstep s (LDisconnected p)) in
  aget p (table s') = None /\ forall q', aget q' (queues s') <> Some (p, QLive).
Proof.
  intros s Ht Hrc s'. pose proof (prun_inv ls pm_new PMInv_new) as HI. fold s in HI.
  pose proof (pstep_inv s (LDisconnected p) HI) as [H1' _ _]. fold s' in H1'.
  assert (Hnone : aget p (table s') = None).
  { unfold s'. simpl. rewrite Ht. destruct (N.ltb_spec 1 rc); [lia|]. simpl. apply aget_adel_eq. }
  split; [exact Hnone|]. intros q' Hq'. destruct (H1' _ _ Hq') as [rc' E]. congruence.
Qed.

(* GetProcess hands out the table's process, creating a live one only when the peer has none *)
Lemma c17_get_process ls p :
  let s := prun_pm pm_new ls in
  let '(s', ret) := pstep s (LGetProcess p) in
  exists rc q, ret = Some q /\ aget p (table s') = Some (rc, q) /\
    (aget p (table s) = Some (rc, q) /\ s' = s \/ aget p (table s) = None /\ is_live s' q = true).
Proof.
  intro s. pose proof (prun_inv ls pm_new PMInv_new) as HI. fold s in HI. simpl.
  pose proof (get_or_create_inv p s HI) as H. destruct (get_or_create p s) as [s1 [rc q]].
  destruct H as (_ & Ht & Hc). exists rc, q. split; [reflexivity|]. split; [exact Ht|].
  destruct Hc as [[A B]|(A & _ & _ & D)]; [left; auto | right; split; [exact A|]]. unfold is_live. now rewrite D.
Qed.

(* ---------- no process outlives the last disconnect ---------- *)
Fixpoint cnt_run (cs : peer -> N) (ls : list plabel) : peer -> N :=
  match ls with [] => cs | l :: r => cnt_run (cnt_step cs l) r end.

Definition RcInv (s : pm) (cs : peer -> N) : Prop :=
  forall p rc q, aget p (table s) = Some (rc, q) -> rc <= cs p.

Lemma rc_step s cs l : RcInv s cs -> RcInv (fst (pstep s l)) (cnt_step cs l).
Proof.
  intros HR p rc q. destruct l as [p0|p0|p0|q0|q0]; simpl.
  - unfold get_or_create. destruct (aget p0 (table s)) as [[rc0 q1]|] eqn:E0; simpl.
    + destruct (N.eqb_spec p p0) as [->|Hne].
      * rewrite aget_aput_eq. intro E. inversion E; subst. pose proof (HR _ _ _ E0). lia.
      * rewrite aget_aput_neq by congruence. apply HR.
    + destruct (N.eqb_spec p p0) as [->|Hne].
      * rewrite aget_aput_eq. intro E. inversion E; subst. lia.
      * rewrite !aget_aput_neq by congruence. apply HR.
  - destruct (aget p0 (table s)) as [[rc0 q1]|] eqn:E0.
    + destruct (N.ltb_spec 1 rc0); simpl.
      * destruct (N.eqb_spec p p0) as [->|Hne].
        -- rewrite aget_aput_eq. intro E. inversion E; subst. pose proof (HR _ _ _ E0). lia.
        -- rewrite aget_aput_neq by congruence. apply HR.
      * destruct (N.eqb_spec p p0) as [->|Hne].
        -- now rewrite aget_adel_eq.
        -- rewrite aget_adel_neq by congruence. apply HR.
    + simpl. destruct (N.eqb_spec p p0) as [->|Hne]; [rewrite E0; discriminate | apply HR].
  - unfold get_or_create. destruct (aget p0 (table s)) as [[rc0 q1]|] eqn:E0; simpl; [apply HR|].
    destruct (N.eqb_spec p p0) as [->|Hne].
    + rewrite aget_aput_eq. intro E. inversion E; subst. lia.
    + rewrite aget_aput_neq by congruence. apply HR.
  - destruct (aget q0 (queues s)) as [[p1 st]|]; [destruct st|]; simpl; apply HR.
  - destruct (aget q0 (queues s)) as [[p1 st]|]; [destruct st|]; simpl; try apply HR.
    intro E. destruct (aget p1 (table s)) as [[rc1 q1]|] eqn:E1; [|eapply HR; eauto].
    destruct (N.eqb q1 q0); [|eapply HR; eauto].
    destruct (N.eqb_spec p p1) as [->|Hne]; [now rewrite aget_adel_eq in E|].
    rewrite aget_adel_neq in E by congruence. eapply HR; eauto.
Qed.

Lemma rc_run : forall ls s cs, RcInv s cs -> RcInv (prun_pm s ls) (cnt_run cs ls).
Proof. induction ls as [|l r IH]; intros s cs H; simpl; [exact H | apply IH, rc_step, H]. Qed.

(* after a Disconnected that leaves the peer with no connection, the peer has no live process *)
Lemma c17_no_outlive ls p :
  let s := prun_pm pm_new ls in
  cnt_run (fun _ => 0) (ls ++ [LDisconnected p]) p = 0 ->
  let s' := fst (pstep s (LDisconnected p)) in
  forall q, aget q (queues s') <> Some (p, QLive).
Proof.
  intros s Hc s' q Hq.
  assert (Hrun : forall ls' cs, cnt_run cs (ls' ++ [LDisconnected p]) = cnt_step (cnt_run cs ls') (LDisconnected p)).
  { induction ls' as [|l r IH]; intro cs; simpl; [reflexivity | apply IH]. }
  rewrite Hrun in Hc. simpl in Hc. rewrite N.eqb_refl in Hc.
  pose proof (prun_inv ls pm_new PMInv_new) as HI. fold s in HI.
  assert (HR : RcInv s (cnt_run (fun _ => 0) ls)) by (apply rc_run; intros p0 rc0 q0 H; discriminate).
  pose proof (pstep_inv s (LDisconnected p) HI) as [H1' _ _]. fold s' in H1'.
  destruct (H1' _ _ Hq) as [rc' E]. unfold s' in E. simpl in E.
  destruct (aget p (table s)) as [[rc0 q0]|] eqn:Et.
  - pose proof (HR _ _ _ Et). destruct (N.ltb_spec 1 rc0); [lia|]. simpl in E. now rewrite aget_adel_eq in E.
  - simpl in E. congruence.
Qed.
