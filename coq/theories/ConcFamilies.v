(* ConcFamilies.v — C20: further families of the `concurrent` driver in which one request (the victim) shares
   nothing with the others that could excuse a difference: the other requests use another deduplication scope, or
   are finished / cancelled before the victim runs, or run over disjoint DAGs.  The victim must end exactly as it
   would alone, with every block it fetched in the store, and nothing in the store under a wrong key. *)
From Coq Require Import List NArith Bool.
From GS Require Import Base Ltree RecLoader ReqExec Concurrent.
Import ListNotations.
Open Scope N_scope.

Record fcase := {
  fc_family : N;            (* 1 do-not-send-cids + dedup key of an earlier request; 2 shared dedup key whose first
                               request finished early, default-scope request running ahead; 3 another request cancelled
                               with block-carrying items queued; 4 an earlier request over the same DAG cancelled while
                               paused on the responder, its partial data discarded *)
  fc_plan : ltree; fc_L : list cid; fc_R : list cid;
  fc_obs : outcome;         (* what the victim delivered *)
  fc_store : list N;        (* the requestor's store at the end (all requests) *)
  fc_bad_block : bool       (* some stored block does not hash to its key *)
}.
(* the property *)
Definition fcase_mon (c : fcase) : bool :=
  let ref := solo (store_of (fc_L c)) (store_of (fc_R c)) {| cq_plan := fc_plan c; cq_dedup := None |} in
  same_result (fc_obs c) ref &&
  forallb (fun k => existsb (N.eqb k) (fc_store c)) (o_store ref) &&
  negb (fc_bad_block c).
(* model against implementation: the victim alone *)
Definition fcase_ok (c : fcase) : bool :=
  wf_plan (fc_plan c) &&
  same_result (fc_obs c) (model_outcome (fc_plan c) (store_of (fc_L c)) (store_of (fc_R c)) [] []).
