(* Cbor.v — the DAG-CBOR codec as go-graphsync uses it:
     encode = go-ipld-prime v0.24.0 codec/dagcbor Marshal (MapSortMode_RFC7049, AllowLinks) over refmt's
              cbor encoder (shortest heads, float64 only, tag 42 + 0x00 multibase prefix for links);
     decode = codec/dagcbor Unmarshal in strict mode over refmt v0.90.0 cbor.Decoder with
              RejectIndefinite, RejectNonMinimalInteger, RejectNaN, RejectInfinity, CoerceUndefToNull:
              one optional tag per item (ignored unless the item is a byte string; then it must be 42),
              duplicate map keys rejected, any key order accepted, allocation budget, depth limit,
              32 MiB cap per string, cid.Cast on link payloads.
   Model only; proofs in CborProofs.v. *)
From Coq Require Import List NArith ZArith Bool.
From GS Require Import Base Varint.
Import ListNotations.
Open Scope N_scope.

Inductive node :=
| NNull
| NBool (b : bool)
| NInt (z : Z)               (* -2^63 .. 2^64-1 (values above 2^63-1 are go-ipld-prime "uint nodes") *)
| NFloat (bits : N)          (* IEEE-754 binary64 bit pattern; not interpreted *)
| NStr (s : bytes)
| NBytes (s : bytes)
| NLink (c : bytes)          (* binary CID *)
| NList (l : list node)
| NMap (kvs : list (bytes * node)).

(* ---------- heads ---------- *)
Definition enc_head (major arg : N) : bytes :=
  if arg <? 24 then [major * 32 + arg]
  else if arg <? 256 then [major * 32 + 24; arg]
  else if arg <? 65536 then (major * 32 + 25) :: be 2 arg
  else if arg <? 4294967296 then (major * 32 + 26) :: be 4 arg
  else (major * 32 + 27) :: be 8 arg.

Definition take_k (k : nat) (bs : bytes) : option (bytes * bytes) :=
  if (length bs <? k)%nat then None else Some (firstn k bs, skipn k bs).

(* refmt decodeUint with RejectNonMinimalInteger; info = low 5 bits *)
Definition dec_arg (info : N) (r : bytes) : option (N * bytes) :=
  if info <? 24 then Some (info, r)
  else if info =? 24 then
    match take_k 1 r with Some (v, r') => if be_dec v <? 24 then None else Some (be_dec v, r') | None => None end
  else if info =? 25 then
    match take_k 2 r with Some (v, r') => if be_dec v <? 256 then None else Some (be_dec v, r') | None => None end
  else if info =? 26 then
    match take_k 4 r with Some (v, r') => if be_dec v <? 65536 then None else Some (be_dec v, r') | None => None end
  else if info =? 27 then
    match take_k 8 r with Some (v, r') => if be_dec v <? 4294967296 then None else Some (be_dec v, r') | None => None end
  else None.

(* ---------- map key order (codec.MapSortMode_RFC7049: shorter first, then bytewise) ---------- *)
Fixpoint bytes_ltb (a b : bytes) : bool :=
  match a, b with
  | [], [] => false
  | [], _ :: _ => true
  | _ :: _, [] => false
  | x :: a', y :: b' => if x <? y then true else if y <? x then false else bytes_ltb a' b'
  end.
Definition key_ltb (a b : bytes) : bool :=
  if (length a <? length b)%nat then true
  else if (length b <? length a)%nat then false
  else bytes_ltb a b.

Section Sort.
  Context {V : Type}.
  Fixpoint kv_insert (x : bytes * V) (l : list (bytes * V)) : list (bytes * V) :=
    match l with
    | [] => [x]
    | y :: r => if key_ltb (fst y) (fst x) then y :: kv_insert x r else x :: l
    end.
  Fixpoint kv_sort (l : list (bytes * V)) : list (bytes * V) :=
    match l with
    | [] => []
    | x :: r => kv_insert x (kv_sort r)
    end.
End Sort.

(* ---------- encoder ---------- *)
Definition enc_str (s : bytes) : bytes := enc_head 3 (blen s) ++ s.
Definition enc_pair (kv : bytes * bytes) : bytes := enc_str (fst kv) ++ snd kv.

Fixpoint encode (n : node) : bytes :=
  match n with
  | NNull => [246]
  | NBool false => [244]
  | NBool true => [245]
  | NInt z => if (0 <=? z)%Z then enc_head 0 (Z.to_N z) else enc_head 1 (Z.to_N (-1 - z))
  | NFloat b => 251 :: be 8 b
  | NStr s => enc_str s
  | NBytes s => enc_head 2 (blen s) ++ s
  | NLink c => [216; 42] ++ enc_head 2 (blen c + 1) ++ 0 :: c
  | NList l => enc_head 4 (blen l) ++ concat (map encode l)
  | NMap kvs =>
      enc_head 5 (blen kvs) ++
      concat (map enc_pair (kv_sort (map (fun kv => match kv with (k, v) => (k, encode v) end) kvs)))
  end.

(* what a decoder hands back for an encoded node: map entries in wire (= sorted) order *)
Fixpoint canon (n : node) : node :=
  match n with
  | NList l => NList (map canon l)
  | NMap kvs => NMap (kv_sort (map (fun kv => match kv with (k, v) => (k, canon v) end) kvs))
  | _ => n
  end.

(* ---------- CID syntax: go-cid Cast (CidFromBytes + no trailing bytes) ---------- *)
Definition MaxInt32 : N := 2147483647.
Definition multihash_len (bs : bytes) : option N :=      (* go-multihash readMultihashFromBuf: bytes used *)
  if blen bs <? 2 then None else
  match uvarint_dec_opt bs with
  | None => None
  | Some (_, r1) =>
      match uvarint_dec_opt r1 with
      | None => None
      | Some (l, r2) =>
          if MaxInt32 <? l then None
          else if blen r2 <? l then None
          else Some (blen bs - blen r2 + l)
      end
  end.
Definition cid_cast_ok (c : bytes) : bool :=
  match c with
  | 18 :: 32 :: _ :: _ => blen c =? 34
  | _ =>
      match uvarint_dec_opt c with
      | Some (1, r1) =>
          match uvarint_dec_opt r1 with
          | Some (_, r2) => match multihash_len r2 with Some l => l =? blen r2 | None => false end
          | None => false
          end
      | _ => false
      end
  end.

(* ---------- floats ---------- *)
Definition f64_finite (b : N) : bool := negb ((b / 4503599627370496) mod 2048 =? 2047).
(* float32 bits -> float64 bits (exact); None for NaN/Inf *)
Definition f32_to_f64 (w : N) : option N :=
  let s := (w / 2147483648) mod 2 in
  let e := (w / 8388608) mod 256 in
  let m := w mod 8388608 in
  if e =? 255 then None
  else if e =? 0 then
    (if m =? 0 then Some (s * 9223372036854775808)
     else let k := N.log2 m in
          Some (s * 9223372036854775808 + (k + 874) * 4503599627370496 + (m - 2 ^ k) * 2 ^ (52 - k)))
  else Some (s * 9223372036854775808 + (e + 896) * 4503599627370496 + m * 536870912).
(* refmt halfFloatToFloatBits *)
Definition f16_to_f32 (y : N) : option N :=
  let s := (y / 32768) mod 2 in
  let e := (y / 1024) mod 32 in
  let m := y mod 1024 in
  if e =? 31 then None
  else if e =? 0 then
    (if m =? 0 then Some (s * 2147483648)
     else let k := N.log2 m in   (* shifts until bit 10 is set: 10 - k of them *)
          Some (s * 2147483648 + (113 - (10 - k)) * 8388608 + ((m * 2 ^ (10 - k)) mod 1024) * 8192))
  else Some (s * 2147483648 + (e + 112) * 8388608 + m * 8192).

(* ---------- decoder ---------- *)
Inductive dres (A : Type) := DOk (a : A) | DErr | DFuel.
Arguments DOk {A} a. Arguments DErr {A}. Arguments DFuel {A}.

Definition MaxInt : N := 9223372036854775807.
Definition MaxChunk : N := 33554432.
Definition MaxDepth : N := 1024.
Definition Budget0 : N := 10485760.
Definition mapEntryCost : N := 8.
Definition listEntryCost : N := 4.

(* refmt stepHelper_acceptValue, tag part: at most one tag; the tag number is a length-style head *)
Definition dec_tag (bs : bytes) : option (option N * N * bytes) :=
  match bs with
  | [] => None
  | b :: r =>
      if b / 32 =? 6 then
        match dec_arg (b mod 32) r with
        | None => None
        | Some (t, r1) =>
            if MaxInt <? t then None else
            match r1 with
            | [] => None
            | b2 :: r2 => if b2 / 32 =? 6 then None else Some (Some t, b2, r2)
            end
        end
      else Some (None, b, r)
  end.

(* definite-length string/bytes body: refmt decodeBytes / decodeString *)
Definition dec_chunk (info : N) (r : bytes) : option (bytes * bytes) :=
  match dec_arg info r with
  | None => None
  | Some (n, r1) => if MaxInt <? n then None else if MaxChunk <? n then None else take_n n r1
  end.

(* every item that is not a list or a map; returns node, remaining budget, remaining input *)
Definition dec_scalar (tg : option N) (b : N) (r : bytes) (budget : N) : option (node * N * bytes) :=
  let mj := b / 32 in let info := b mod 32 in
  if mj =? 0 then
    match dec_arg info r with
    | Some (v, r1) => if budget <? 1 then None else Some (NInt (Z.of_N v), budget - 1, r1)
    | None => None
    end
  else if mj =? 1 then
    match dec_arg info r with
    | Some (v, r1) =>
        (* refmt decodeNegInt: pos := ui + 1 in uint64 (wraps to 0 for ui = 2^64-1, which then
           passes the range test and yields -0 = 0); pos > 2^63 is an error *)
        if v =? 18446744073709551615 then (if budget <? 1 then None else Some (NInt 0, budget - 1, r1))
        else if MaxInt <? v then None else if budget <? 1 then None
        else Some (NInt (- Z.of_N v - 1), budget - 1, r1)
    | None => None
    end
  else if mj =? 2 then
    match dec_chunk info r with
    | Some (s, r1) =>
        if budget <? blen s then None else
        match tg with
        | None => Some (NBytes s, budget - blen s, r1)
        | Some t =>
            if t =? 42 then
              match s with
              | 0 :: c => if cid_cast_ok c then Some (NLink c, budget - blen s, r1) else None
              | _ => None
              end
            else None
        end
    | None => None
    end
  else if mj =? 3 then
    match dec_chunk info r with
    | Some (s, r1) => if budget <? blen s then None else Some (NStr s, budget - blen s, r1)
    | None => None
    end
  else if mj =? 7 then
    if (b =? 246) || (b =? 247) then Some (NNull, budget, r)
    else if b =? 244 then (if budget <? 1 then None else Some (NBool false, budget - 1, r))
    else if b =? 245 then (if budget <? 1 then None else Some (NBool true, budget - 1, r))
    else if b =? 251 then
      match take_k 8 r with
      | Some (v, r1) => if f64_finite (be_dec v) then (if budget <? 1 then None else Some (NFloat (be_dec v), budget - 1, r1)) else None
      | None => None
      end
    else if b =? 250 then
      match take_k 4 r with
      | Some (v, r1) => match f32_to_f64 (be_dec v) with
                        | Some f => if budget <? 1 then None else Some (NFloat f, budget - 1, r1)
                        | None => None end
      | None => None
      end
    else if b =? 249 then
      match take_k 2 r with
      | Some (v, r1) => match f16_to_f32 (be_dec v) with
                        | Some w => match f32_to_f64 w with
                                    | Some f => if budget <? 1 then None else Some (NFloat f, budget - 1, r1)
                                    | None => None end
                        | None => None end
      | None => None
      end
    else None
  else None.

(* a map key: optional tag (ignored), then a definite-length text string *)
Definition dec_key (bs : bytes) : option (bytes * bytes) :=
  match dec_tag bs with
  | Some (_, b, r) => if b / 32 =? 3 then dec_chunk (b mod 32) r else None
  | None => None
  end.

Fixpoint dec (fuel : nat) (depth budget : N) (bs : bytes) {struct fuel} : dres (node * N * bytes) :=
  match fuel with
  | O => DFuel
  | S f =>
      match dec_tag bs with
      | None => DErr
      | Some (tg, b, r) =>
          if b / 32 =? 4 then
            match dec_arg (b mod 32) r with
            | None => DErr
            | Some (n, r1) =>
                if MaxInt <? n then DErr else if MaxDepth <=? depth then DErr else if budget <? n then DErr
                else match dec_list f (depth + 1) (budget - n) n r1 with
                     | DOk (l, bu, r2) => DOk (NList l, bu, r2)
                     | DErr => DErr
                     | DFuel => DFuel
                     end
            end
          else if b / 32 =? 5 then
            match dec_arg (b mod 32) r with
            | None => DErr
            | Some (n, r1) =>
                if MaxInt <? n then DErr else if MaxDepth <=? depth then DErr else if budget <? n then DErr
                else match dec_map f (depth + 1) (budget - n) n [] r1 with
                     | DOk (kvs, bu, r2) => DOk (NMap kvs, bu, r2)
                     | DErr => DErr
                     | DFuel => DFuel
                     end
            end
          else match dec_scalar tg b r budget with
               | Some x => DOk x
               | None => DErr
               end
      end
  end
with dec_list (fuel : nat) (depth budget count : N) (bs : bytes) {struct fuel} : dres (list node * N * bytes) :=
  match fuel with
  | O => DFuel
  | S f =>
      if count =? 0 then DOk ([], budget, bs)
      else if budget <? listEntryCost then DErr
      else match dec f depth (budget - listEntryCost) bs with
           | DOk (v, bu, r) =>
               match dec_list f depth bu (count - 1) r with
               | DOk (l, bu2, r2) => DOk (v :: l, bu2, r2)
               | DErr => DErr
               | DFuel => DFuel
               end
           | DErr => DErr
           | DFuel => DFuel
           end
  end
with dec_map (fuel : nat) (depth budget count : N) (seen : list bytes) (bs : bytes) {struct fuel}
  : dres (list (bytes * node) * N * bytes) :=
  match fuel with
  | O => DFuel
  | S f =>
      if count =? 0 then DOk ([], budget, bs)
      else match dec_key bs with
           | None => DErr
           | Some (k, r) =>
               if budget <? blen k + mapEntryCost then DErr
               else if existsb (bytes_eqb k) seen then DErr
               else match dec f depth (budget - (blen k + mapEntryCost)) r with
                    | DOk (v, bu, r1) =>
                        match dec_map f depth bu (count - 1) (k :: seen) r1 with
                        | DOk (kvs, bu2, r2) => DOk ((k, v) :: kvs, bu2, r2)
                        | DErr => DErr
                        | DFuel => DFuel
                        end
                    | DErr => DErr
                    | DFuel => DFuel
                    end
           end
  end.

(* one item from the front of a byte string *)
(* fuel: dec needs at most 2*|bs|+1 steps, the element loops 2*|bs|+2 (CborProofs.dec_fuel_enough) *)
Definition decode (bs : bytes) : dres (node * N * bytes) := dec (S (S (2 * List.length bs))) 0 Budget0 bs.

(* dagcbor.Decode on a whole block: exactly one item, nothing after it (ErrTrailingBytes) *)
Definition decode_block (bs : bytes) : dres node :=
  match decode bs with
  | DOk (n, _, []) => DOk n
  | DOk (_, _, _ :: _) => DErr
  | DErr => DErr
  | DFuel => DFuel
  end.

(* ---------- cost / depth of a node as the decoder accounts them ---------- *)
Fixpoint cost (n : node) : N :=
  match n with
  | NNull => 0
  | NBool _ | NInt _ | NFloat _ => 1
  | NStr s | NBytes s => blen s
  | NLink c => blen c + 1
  | NList l => blen l + fold_right (fun v acc => listEntryCost + cost v + acc) 0 l
  | NMap kvs => blen kvs + fold_right (fun kv acc => match kv with (k, v) => blen k + mapEntryCost + cost v + acc end) 0 kvs
  end.
Fixpoint ndepth (n : node) : N :=
  match n with
  | NList l => 1 + fold_right (fun v acc => N.max (ndepth v) acc) 0 l
  | NMap kvs => 1 + fold_right (fun kv acc => match kv with (_, v) => N.max (ndepth v) acc end) 0 kvs
  | _ => 0
  end.

(* ---------- boolean equality ---------- *)
Fixpoint node_eqb (a b : node) : bool :=
  match a, b with
  | NNull, NNull => true
  | NBool x, NBool y => Bool.eqb x y
  | NInt x, NInt y => Z.eqb x y
  | NFloat x, NFloat y => N.eqb x y
  | NStr x, NStr y => bytes_eqb x y
  | NBytes x, NBytes y => bytes_eqb x y
  | NLink x, NLink y => bytes_eqb x y
  | NList x, NList y =>
      (fix go (x y : list node) : bool :=
         match x, y with
         | [], [] => true
         | u :: x', v :: y' => node_eqb u v && go x' y'
         | _, _ => false
         end) x y
  | NMap x, NMap y =>
      (fix go (x y : list (bytes * node)) : bool :=
         match x, y with
         | [], [] => true
         | (k, u) :: x', (q, v) :: y' => bytes_eqb k q && node_eqb u v && go x' y'
         | _, _ => false
         end) x y
  | _, _ => false
  end.
