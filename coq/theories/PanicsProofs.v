(* PanicsProofs.v — proofs for C22 over the model of Panics.v. *)
From Coq Require Import List NArith Bool String Arith Lia.
From GS Require Import Base Panics.
Import ListNotations.
Close Scope N_scope.
Open Scope nat_scope.

(* ---------- soundness of a placement, unpacked ---------- *)
Lemma sound_site c s : sound_cfg c = true -> In s (c_sites c) -> unwind (s_chain s) = Some (true, true).
Proof.
  unfold sound_cfg. intros H Hin. apply andb_true_iff in H as [H _].
  rewrite forallb_forall in H. specialize (H s Hin). unfold site_ok in H.
  destruct (unwind (s_chain s)) as [[[] []]|]; try discriminate. reflexivity.
Qed.

Lemma sound_handler c : sound_cfg c = true ->
  h_nil_nil (c_handler c) = true /\ h_calls_cb (c_handler c) = true /\ h_carries (c_handler c) = true.
Proof.
  unfold sound_cfg, handler_ok. intro H. apply andb_true_iff in H as [_ H].
  apply andb_true_iff in H as [H H3]. apply andb_true_iff in H as [H1 H2]. auto.
Qed.

(* one quantum of a request under a sound placement *)
Lemma step_sound c rq pc : sound_cfg c = true -> wf_req c rq ->
  step_req c rq (Running pc) =
    match nth_error (r_prog rq) pc with
    | None => (Ended Completed, [], None)
    | Some _ =>
      match r_orc rq pc with
      | None => (Running (S pc), [], None)
      | Some m => (Ended (Failed (EPanic m)), if r_cb rq then [m] else [], None)
      end
    end.
Proof.
  intros Hs Hwf. destruct (sound_handler c Hs) as (H1 & H2 & H3).
  unfold step_req. destruct (nth_error (r_prog rq) pc) as [s|] eqn:En.
  - destruct (r_orc rq pc) as [m|]; [|reflexivity].
    apply nth_error_In in En. destruct (Hwf s En) as [Hin _].
    rewrite (sound_site c s Hs Hin). rewrite H2, H3. reflexivity.
  - rewrite H1. reflexivity.
Qed.

(* ---------- the first panicking call ---------- *)
Lemma scan_some orc : forall len pc p m, scan orc pc len = Some (p, m) ->
  pc <= p < pc + len /\ orc p = Some m /\ (forall q, pc <= q < p -> orc q = None).
Proof.
  induction len as [|l IH]; simpl; intros pc p m H; [discriminate|].
  destruct (orc pc) as [m'|] eqn:E.
  - inversion H; subst. split; [lia|]. split; [exact E|]. intros q Hq. lia.
  - apply IH in H as (Hr & Ho & Hb). split; [lia|]. split; [exact Ho|].
    intros q Hq. destruct (Nat.eq_dec q pc) as [->|]; [exact E|]. apply Hb. lia.
Qed.

Lemma scan_none orc : forall len pc, scan orc pc len = None -> forall q, pc <= q < pc + len -> orc q = None.
Proof.
  induction len as [|l IH]; simpl; intros pc H q Hq; [lia|].
  destruct (orc pc) eqn:E; [discriminate|].
  destruct (Nat.eq_dec q pc) as [->|]; [exact E|]. apply (IH (S pc) H). lia.
Qed.

(* ---------- a request alone does what the property demands ---------- *)
Lemma solo_ok c rq : sound_cfg c = true -> wf_req c rq ->
  forall n, solo c rq n = (fst (solo_spec rq n), snd (solo_spec rq n), None).
Proof.
  intros Hs Hwf. induction n as [|n IH].
  - simpl. unfold solo_spec. destruct (first_panic rq) as [[p m]|]; simpl; reflexivity.
  - cbn [solo]. rewrite IH. clear IH. unfold solo_spec.
    destruct (first_panic rq) as [[p m]|] eqn:Ef; unfold first_panic in Ef.
    + apply scan_some in Ef as (Hr & Ho & Hb). simpl in Hr.
      destruct (Nat.leb_spec n p) as [Hle|Hgt]; cbn [fst snd].
      * rewrite (step_sound c rq n Hs Hwf).
        destruct (nth_error (r_prog rq) n) eqn:En;
          [|apply nth_error_None in En; lia].
        destruct (Nat.eq_dec n p) as [->|Hne].
        -- rewrite Ho. destruct (Nat.leb_spec (S p) p); [lia|]. reflexivity.
        -- rewrite (Hb n) by lia. destruct (Nat.leb_spec (S n) p); [reflexivity|lia].
      * destruct (Nat.leb_spec (S n) p); [lia|]. cbn [step_req]. now rewrite app_nil_r.
    + pose proof (scan_none _ _ _ Ef) as Hn. simpl in Hn.
      destruct (Nat.leb_spec n (List.length (r_prog rq))) as [Hle|Hgt]; cbn [fst snd].
      * rewrite (step_sound c rq n Hs Hwf).
        destruct (nth_error (r_prog rq) n) eqn:En.
        -- assert (n < List.length (r_prog rq)) by (apply nth_error_Some; congruence).
           rewrite (Hn n) by lia. destruct (Nat.leb_spec (S n) (List.length (r_prog rq))); [reflexivity|lia].
        -- apply nth_error_None in En.
           destruct (Nat.leb_spec (S n) (List.length (r_prog rq))); [lia|reflexivity].
      * destruct (Nat.leb_spec (S n) (List.length (r_prog rq))); [lia|]. cbn [step_req]. reflexivity.
Qed.

(* ---------- lists ---------- *)
Lemma length_upd {A} i (x : A) l : List.length (upd i x l) = List.length l.
Proof. revert i; induction l as [|y l IH]; intros [|i]; simpl; auto. Qed.

Lemma nth_error_upd_same {A} i (x : A) l : i < List.length l -> nth_error (upd i x l) i = Some x.
Proof.
  revert i; induction l as [|y l IH]; intros [|i]; simpl; intro H; try lia; [reflexivity|].
  apply IH. lia.
Qed.

Lemma nth_error_upd_other {A} i j (x : A) l : i <> j -> nth_error (upd i x l) j = nth_error l j.
Proof.
  revert i j; induction l as [|y l IH]; intros [|i] [|j] H; simpl; try reflexivity; try lia.
  apply IH. lia.
Qed.

Lemma cbs_of_app i a b : cbs_of i (a ++ b) = cbs_of i a ++ cbs_of i b.
Proof. unfold cbs_of. now rewrite filter_app, map_app. Qed.

Lemma cbs_of_pair_same i l : cbs_of i (map (pair i) l) = l.
Proof.
  unfold cbs_of. induction l as [|x l IH]; simpl; [reflexivity|].
  rewrite Nat.eqb_refl. simpl. now rewrite IH.
Qed.

Lemma cbs_of_pair_other i j l : i <> j -> cbs_of j (map (pair i) l) = [].
Proof.
  intro H. unfold cbs_of. induction l as [|x l IH]; simpl; [reflexivity|].
  destruct (Nat.eqb_spec i j); [contradiction|]. exact IH.
Qed.

Lemma run_snoc c reqs sched i : run c reqs (sched ++ [i]) = gstep c reqs (run c reqs sched) i.
Proof. unfold run. now rewrite fold_left_app. Qed.

Definition cnt (sched : list nat) (i : nat) : nat := count_occ Nat.eq_dec sched i.

Lemma cnt_snoc_same sched i : cnt (sched ++ [i]) i = S (cnt sched i).
Proof. unfold cnt. rewrite count_occ_app. simpl. destruct (Nat.eq_dec i i); [lia|contradiction]. Qed.

Lemma cnt_snoc_other sched i j : i <> j -> cnt (sched ++ [i]) j = cnt sched j.
Proof. intro H. unfold cnt. rewrite count_occ_app. simpl. destruct (Nat.eq_dec i j); [contradiction|lia]. Qed.

(* ---------- the process: every request is where it would be alone ---------- *)
Definition inv (reqs : list req) (sched : list nat) (g : gstate) : Prop :=
  g_crashed g = None /\ List.length (g_sts g) = List.length reqs /\
  forall i rq, nth_error reqs i = Some rq ->
    nth_error (g_sts g) i = Some (fst (solo_spec rq (cnt sched i))) /\
    cbs_of i (g_cbs g) = snd (solo_spec rq (cnt sched i)).

Lemma solo_spec_0 rq : solo_spec rq 0 = (Running 0, []).
Proof. unfold solo_spec. destruct (first_panic rq) as [[p m]|]; reflexivity. Qed.

Lemma inv_init reqs : inv reqs [] (ginit reqs).
Proof.
  unfold inv, ginit; simpl. split; [reflexivity|]. split; [apply map_length|].
  intros i rq H. rewrite solo_spec_0. simpl. split; [|reflexivity].
  rewrite nth_error_map, H. reflexivity.
Qed.

Lemma inv_step c reqs sched g i :
  sound_cfg c = true -> (forall rq, In rq reqs -> wf_req c rq) ->
  inv reqs sched g -> inv reqs (sched ++ [i]) (gstep c reqs g i).
Proof.
  intros Hs Hwf (Hc & Hl & Hi). unfold gstep. rewrite Hc.
  destruct (nth_error reqs i) as [rq|] eqn:Er.
  - destruct (Hi i rq Er) as [Hst Hcb]. rewrite Hst.
    assert (Hwfr : wf_req c rq) by (apply Hwf; eapply nth_error_In; eauto).
    pose proof (solo_ok c rq Hs Hwfr (S (cnt sched i))) as HS. cbn [solo] in HS.
    rewrite (solo_ok c rq Hs Hwfr (cnt sched i)) in HS.
    destruct (step_req c rq (fst (solo_spec rq (cnt sched i)))) as [[st' cbs] cr] eqn:Est.
    injection HS as H1 H2 H3. subst cr.
    assert (Hlt : i < List.length (g_sts g)) by (rewrite Hl; apply nth_error_Some; congruence).
    unfold inv; cbn [g_crashed g_sts g_cbs]. split; [reflexivity|]. split; [now rewrite length_upd|].
    intros j rq' Hj. destruct (Nat.eq_dec i j) as [<-|Hne].
    + rewrite Er in Hj. inversion Hj; subst rq'. rewrite cnt_snoc_same.
      rewrite nth_error_upd_same by exact Hlt. rewrite cbs_of_app, cbs_of_pair_same, Hcb.
      split; [now rewrite H1 | exact H2].
    + rewrite cnt_snoc_other by exact Hne. rewrite nth_error_upd_other by exact Hne.
      rewrite cbs_of_app, (cbs_of_pair_other i j) by exact Hne. rewrite app_nil_r. apply Hi. exact Hj.
  - split; [exact Hc|]. split; [exact Hl|]. intros j rq' Hj.
    assert (i <> j) by (intro; subst; congruence).
    rewrite cnt_snoc_other by assumption. apply Hi. exact Hj.
Qed.

Lemma inv_run c reqs : sound_cfg c = true -> (forall rq, In rq reqs -> wf_req c rq) ->
  forall sched, inv reqs sched (run c reqs sched).
Proof.
  intros Hs Hwf sched. induction sched as [|i sched IH] using rev_ind.
  - apply inv_init.
  - rewrite run_snoc. apply inv_step; assumption.
Qed.

(* ---------- C22, for any sound placement ---------- *)
Theorem c22_general c : sound_cfg c = true ->
  forall reqs sched, (forall rq, In rq reqs -> wf_req c rq) ->
  let g := run c reqs sched in
  g_crashed g = None /\
  forall i rq, nth_error reqs i = Some rq ->
    nth_error (g_sts g) i = Some (fst (solo_spec rq (cnt sched i))) /\
    cbs_of i (g_cbs g) = snd (solo_spec rq (cnt sched i)).
Proof.
  intros Hs reqs sched Hwf g. destruct (inv_run c reqs Hs Hwf sched) as (H1 & _ & H3). auto.
Qed.

(* what solo_spec says once the request has had its quanta *)
Lemma solo_spec_done rq n : List.length (r_prog rq) < n ->
  solo_spec rq n =
    match first_panic rq with
    | Some (_, m) => (Ended (Failed (EPanic m)), if r_cb rq then [m] else [])
    | None => (Ended Completed, [])
    end.
Proof.
  intro H. unfold solo_spec. destruct (first_panic rq) as [[p m]|] eqn:E.
  - unfold first_panic in E. apply scan_some in E as (Hr & _). simpl in Hr.
    destruct (Nat.leb_spec n p); [lia|reflexivity].
  - destruct (Nat.leb_spec n (List.length (r_prog rq))); [lia|reflexivity].
Qed.

(* a request that panics ends with the error that carries the panic, and the callback saw it exactly once;
   one that does not panic completes; nothing else ever reaches the callback for that request *)
Corollary c22_outcome c : sound_cfg c = true ->
  forall reqs sched, (forall rq, In rq reqs -> wf_req c rq) ->
  forall i rq, nth_error reqs i = Some rq -> List.length (r_prog rq) < cnt sched i ->
  let g := run c reqs sched in
  g_crashed g = None /\
  match first_panic rq with
  | Some (_, m) => nth_error (g_sts g) i = Some (Ended (Failed (EPanic m))) /\
                   cbs_of i (g_cbs g) = (if r_cb rq then [m] else [])
  | None => nth_error (g_sts g) i = Some (Ended Completed) /\ cbs_of i (g_cbs g) = []
  end.
Proof.
  intros Hs reqs sched Hwf i rq Hi Hn g. destruct (c22_general c Hs reqs sched Hwf) as [Hc Hall].
  split; [exact Hc|]. destruct (Hall i rq Hi) as [H1 H2]. fold g in H1, H2.
  rewrite (solo_spec_done rq _ Hn) in H1, H2. destruct (first_panic rq) as [[p m]|]; simpl in *; auto.
Qed.

(* non-interference: replace request i by anything (panicking where it did not, or not panicking):
   every other request is where it was, with the same callback history *)
Corollary c22_noninterference c : sound_cfg c = true ->
  forall reqs reqs' sched i,
  (forall rq, In rq reqs -> wf_req c rq) -> (forall rq, In rq reqs' -> wf_req c rq) ->
  (forall j, j <> i -> nth_error reqs j = nth_error reqs' j) ->
  forall j, j <> i -> nth_error reqs j <> None ->
    nth_error (g_sts (run c reqs sched)) j = nth_error (g_sts (run c reqs' sched)) j /\
    cbs_of j (g_cbs (run c reqs sched)) = cbs_of j (g_cbs (run c reqs' sched)).
Proof.
  intros Hs reqs reqs' sched i Hwf Hwf' Hsame j Hj Hsome.
  destruct (nth_error reqs j) as [rq|] eqn:E; [|contradiction].
  destruct (c22_general c Hs reqs sched Hwf) as [_ H1].
  destruct (c22_general c Hs reqs' sched Hwf') as [_ H2].
  destruct (H1 j rq E) as [A1 B1]. rewrite (Hsame j Hj) in E. destruct (H2 j rq E) as [A2 B2].
  rewrite A1, A2, B1, B2. auto.
Qed.

(* ---------- tightness: an unprotected call site does take the process down ---------- *)
Lemma crashed_stuck c reqs sched g : g_crashed g <> None -> fold_left (gstep c reqs) sched g = g.
Proof.
  intro H. induction sched as [|i sched IH]; simpl; [reflexivity|].
  unfold gstep at 2. destruct (g_crashed g); [exact IH|contradiction].
Qed.

Theorem c22_tight c s m other : unwind (s_chain s) = None ->
  let bad := mk_req (s_side s) [s] true (fun _ => Some m) in
  forall sched,
  let g := run c [bad; other] (0 :: sched) in
  g_crashed g = Some m /\ nth_error (g_sts g) 1 = Some (Running 0).
Proof.
  intros Hu bad sched g. subst g. unfold run. cbn [fold_left].
  assert (E : gstep c [bad; other] (ginit [bad; other]) 0 = mk_g (Some m) [Running 0; Running 0] []).
  { unfold gstep, ginit, step_req. simpl. rewrite Hu. reflexivity. }
  rewrite E. rewrite crashed_stuck by (simpl; discriminate). simpl. auto.
Qed.

(* ---------- the placement read from the current source ---------- *)
From GSgen Require Import GenRecover.
Close Scope string_scope.

(* every listed call site has, on its own goroutine's stack, a deferred recover whose handler was made from
   the configured callback and whose error is delivered; MakeHandler has its three properties.
   gen_cfg is regenerated from /repo on every run: removing or weakening a recover breaks this line. *)
Lemma gen_cfg_sound : sound_cfg gen_cfg = true.
Proof. vm_compute. reflexivity. Qed.

Lemma c22_holds : forall reqs sched, (forall rq, In rq reqs -> wf_req gen_cfg rq) ->
  let g := run gen_cfg reqs sched in
  g_crashed g = None /\
  forall i rq, nth_error reqs i = Some rq ->
    nth_error (g_sts g) i = Some (fst (solo_spec rq (cnt sched i))) /\
    cbs_of i (g_cbs g) = snd (solo_spec rq (cnt sched i)).
Proof. exact (c22_general gen_cfg gen_cfg_sound). Qed.

Lemma c22_outcome_gen : forall reqs sched, (forall rq, In rq reqs -> wf_req gen_cfg rq) ->
  forall i rq, nth_error reqs i = Some rq -> List.length (r_prog rq) < cnt sched i ->
  let g := run gen_cfg reqs sched in
  g_crashed g = None /\
  match first_panic rq with
  | Some (_, m) => nth_error (g_sts g) i = Some (Ended (Failed (EPanic m))) /\
                   cbs_of i (g_cbs g) = (if r_cb rq then [m] else [])
  | None => nth_error (g_sts g) i = Some (Ended Completed) /\ cbs_of i (g_cbs g) = []
  end.
Proof. exact (c22_outcome gen_cfg gen_cfg_sound). Qed.

Lemma c22_noninterference_gen : forall reqs reqs' sched i,
  (forall rq, In rq reqs -> wf_req gen_cfg rq) -> (forall rq, In rq reqs' -> wf_req gen_cfg rq) ->
  (forall j, j <> i -> nth_error reqs j = nth_error reqs' j) ->
  forall j, j <> i -> nth_error reqs j <> None ->
    nth_error (g_sts (run gen_cfg reqs sched)) j = nth_error (g_sts (run gen_cfg reqs' sched)) j /\
    cbs_of j (g_cbs (run gen_cfg reqs sched)) = cbs_of j (g_cbs (run gen_cfg reqs' sched)).
Proof. exact (c22_noninterference gen_cfg gen_cfg_sound). Qed.

(* ---------- the pinned commit: storage functions were called with nothing to recover ---------- *)
Definition pinned_resp_sread : site := mk_site Responder KSRead GWorker pinned_worker_resp.
Definition pinned_req_quiet : req :=
  mk_req Requestor [mk_site Requestor KCodec GTraverser [fr_start]] true (fun _ => None).

Lemma c22_refuted_pinned :
  let bad := mk_req Responder [pinned_resp_sread] true (fun _ => Some 7000%N) in
  (forall rq, In rq [bad; pinned_req_quiet] -> wf_req pinned_cfg rq) /\
  forall sched,
    g_crashed (run pinned_cfg [bad; pinned_req_quiet] (0 :: sched)) = Some 7000%N /\
    nth_error (g_sts (run pinned_cfg [bad; pinned_req_quiet] (0 :: sched))) 1 = Some (Running 0).
Proof.
  intro bad. split.
  - intros rq [<-|[<-|[]]] s Hs; simpl in Hs; destruct Hs as [<-|[]]; (split; [|reflexivity]);
      unfold pinned_cfg, pinned_resp_sread; cbn [c_sites]; apply in_or_app.
    + right. simpl. do 7 right. left. reflexivity.
    + left. simpl. right. left. reflexivity.
  - intro sched. apply (c22_tight pinned_cfg pinned_resp_sread 7000%N pinned_req_quiet). reflexivity.
Qed.

(* ---------- agreement: a case on which the implementation agrees with the model of a sound placement
   satisfies the property monitor ---------- *)
Lemma blocks_in {A} (b : list A) x : forall n, In x (blocks n b) -> In x b.
Proof. induction n as [|n IH]; simpl; [tauto|]. rewrite in_app_iff. tauto. Qed.

Lemma side_eqb_eq a b : side_eqb a b = true -> a = b.
Proof. destruct a, b; simpl; congruence. Qed.

Lemma side_sites_in c sd s : In s (side_sites c sd) -> In s (c_sites c) /\ s_side s = sd.
Proof. unfold side_sites. rewrite filter_In. intros [H1 H2]. split; [exact H1|now apply side_eqb_eq]. Qed.

Lemma find_site_some c sd k names s : find_site c sd k names = Some s -> In s (c_sites c) /\ s_side s = sd.
Proof.
  unfold find_site. intro H. apply find_some in H as [H1 H2]. split; [exact H1|].
  unfold site_matches in H2. apply andb_true_iff in H2 as [H2 _]. apply andb_true_iff in H2 as [H2 _].
  now apply side_eqb_eq.
Qed.

Lemma cnt_repeat_same i n : cnt (repeat i n) i = n.
Proof. unfold cnt. induction n as [|n IH]; simpl; [reflexivity|]. destruct (Nat.eq_dec i i); [lia|contradiction]. Qed.

Lemma cnt_repeat_other i j n : i <> j -> cnt (repeat i n) j = 0.
Proof. intro H. unfold cnt. induction n as [|n IH]; simpl; [reflexivity|]. destruct (Nat.eq_dec i j); [contradiction|exact IH]. Qed.

Lemma cnt_app a b i : cnt (a ++ b) i = cnt a i + cnt b i.
Proof. unfold cnt. apply count_occ_app. Qed.

Lemma cnt_case_sched l1 l2 :
  cnt (case_sched l1 l2) 0 = 3 + (l2 + 2) /\ cnt (case_sched l1 l2) 1 = l1 + 2 /\ cnt (case_sched l1 l2) 2 = l2 + 2.
Proof.
  unfold case_sched. rewrite !cnt_app.
  repeat (rewrite cnt_repeat_same || rewrite cnt_repeat_other by lia).
  lia.
Qed.

Lemma scan_const_none : forall len pc, scan (fun _ => None) pc len = None.
Proof. induction len as [|l IH]; simpl; auto. Qed.

Lemma scan_single a v : forall len pc, pc <= a < pc + len ->
  scan (fun q => if Nat.eqb q a then Some v else None) pc len = Some (a, v).
Proof.
  induction len as [|l IH]; simpl; intros pc H; [lia|].
  destruct (Nat.eqb_spec pc a) as [->|Hne]; [reflexivity|]. apply IH. lia.
Qed.

Lemma nth_error_nth' {A} (l : list A) i x d : nth_error l i = Some x -> nth i l d = x.
Proof. revert i; induction l as [|y l IH]; intros [|i]; simpl; intro H; try discriminate; [congruence|auto]. Qed.

Lemma nlist_eqb_eq a b : nlist_eqb a b = true -> a = b.
Proof. unfold nlist_eqb. apply list_eqb_eq. intros x y. apply N.eqb_eq. Qed.

Lemma nlist_eqb_refl a : nlist_eqb a a = true.
Proof. unfold nlist_eqb. apply list_eqb_eq; [intros x y; apply N.eqb_eq|reflexivity]. Qed.

Theorem pcase_agree c pc : sound_cfg c = true -> pcase_ok c pc = true -> pcase_mon pc = true.
Proof.
  intros Hs Hok. unfold pcase_ok in Hok. apply andb_true_iff in Hok as [_ Hok].
  unfold pcase_mon.
  destruct (pc_kind pc) as [kd|] eqn:Ek.
  - (* a panic was injected *)
    destruct (find_site c (pc_side pc) kd (po_site pc)) as [s|] eqn:Ef; [|discriminate].
    apply find_site_some in Ef as [Hin Hside].
    set (sd := pc_side pc) in *. set (blk := side_sites c sd) in *.
    set (k := N.to_nat (pc_k pc)) in *. set (n1 := N.to_nat (pc_n1 pc)) in *.
    set (prog1 := blocks k blk ++ s :: blocks (n1 - k - 1) blk) in *.
    set (at_ := List.length (blocks k blk)) in *.
    set (r1 := mk_req sd prog1 (pc_cb pc) (fun pc' => if Nat.eqb pc' at_ then Some (pvalue pc) else None)) in *.
    set (quiet := mk_req sd (blocks 3 blk) (pc_cb pc) (fun _ => None)) in *.
    set (sched := case_sched (List.length prog1) (List.length (r_prog quiet))) in *.
    assert (Hwf : forall rq, In rq [quiet; r1; quiet] -> wf_req c rq).
    { assert (Hq : wf_req c quiet).
      { intros x Hx. unfold quiet in Hx. cbn [r_prog] in Hx. apply blocks_in in Hx. now apply side_sites_in. }
      assert (H1 : wf_req c r1).
      { intros x Hx. unfold r1 in Hx. cbn [r_prog] in Hx. unfold prog1 in Hx. apply in_app_iff in Hx as [Hx|[<-|Hx]].
        - apply blocks_in in Hx. now apply side_sites_in.
        - auto.
        - apply blocks_in in Hx. now apply side_sites_in. }
      intros rq [<-|[<-|[<-|[]]]]; assumption. }
    destruct (c22_general c Hs [quiet; r1; quiet] sched Hwf) as [Hc Hall].
    rewrite Hc in Hok.
    destruct (cnt_case_sched (List.length prog1) (List.length (r_prog quiet))) as (C0 & C1 & C2). fold sched in C0, C1, C2.
    destruct (Hall 0 quiet eq_refl) as [S0 _]. destruct (Hall 1 r1 eq_refl) as [S1 B1]. destruct (Hall 2 quiet eq_refl) as [S2 _].
    rewrite solo_spec_done in S0 by (rewrite C0; simpl; lia).
    rewrite solo_spec_done in S2 by (rewrite C2; simpl; lia).
    rewrite solo_spec_done in S1, B1 by (rewrite C1; simpl; lia).
    assert (Fq : first_panic quiet = None) by (unfold first_panic; apply scan_const_none).
    assert (F1 : first_panic r1 = Some (at_, pvalue pc)).
    { unfold first_panic. simpl. apply scan_single. unfold prog1. rewrite app_length. simpl. fold at_. lia. }
    rewrite Fq in S0, S2. rewrite F1 in S1, B1. cbn [fst snd] in S0, S1, S2, B1.
    rewrite (nth_error_nth' _ _ _ (Running 0) S0), (nth_error_nth' _ _ _ (Running 0) S1), (nth_error_nth' _ _ _ (Running 0) S2) in Hok.
    rewrite B1 in Hok. cbn [r_cb r1] in Hok.
    repeat (apply andb_true_iff in Hok as [Hok ?]).
    destruct sd eqn:Esd; cbn [expect_r1] in *.
    + repeat match goal with H : _ && _ = true |- _ => apply andb_true_iff in H as [? ?] end.
      repeat (apply andb_true_iff; split); try assumption.
    + repeat match goal with H : _ && _ = true |- _ => apply andb_true_iff in H as [? ?] end.
      repeat (apply andb_true_iff; split); try assumption.
  - (* nothing panics *)
    set (sd := pc_side pc) in *. set (blk := side_sites c sd) in *.
    set (n1 := N.to_nat (pc_n1 pc)) in *.
    set (quiet := mk_req sd (blocks n1 blk) (pc_cb pc) (fun _ => None)) in *.
    set (sched := case_sched (List.length (r_prog quiet)) (List.length (r_prog quiet))) in *.
    assert (Hwf : forall rq, In rq [quiet; quiet; quiet] -> wf_req c rq).
    { assert (Hq : wf_req c quiet).
      { intros x Hx. unfold quiet in Hx. cbn [r_prog] in Hx. apply blocks_in in Hx. now apply side_sites_in. }
      intros rq [<-|[<-|[<-|[]]]]; assumption. }
    destruct (c22_general c Hs [quiet; quiet; quiet] sched Hwf) as [Hc Hall].
    rewrite Hc in Hok.
    destruct (cnt_case_sched (List.length (r_prog quiet)) (List.length (r_prog quiet))) as (C0 & C1 & C2). fold sched in C0, C1, C2.
    destruct (Hall 0 quiet eq_refl) as [S0 _]. destruct (Hall 1 quiet eq_refl) as [S1 _]. destruct (Hall 2 quiet eq_refl) as [S2 _].
    rewrite solo_spec_done in S0 by (rewrite C0; lia).
    rewrite solo_spec_done in S1 by (rewrite C1; lia).
    rewrite solo_spec_done in S2 by (rewrite C2; lia).
    assert (Fq : first_panic quiet = None) by (unfold first_panic; apply scan_const_none).
    rewrite Fq in S0, S1, S2. cbn [fst] in S0, S1, S2.
    rewrite (nth_error_nth' _ _ _ (Running 0) S0), (nth_error_nth' _ _ _ (Running 0) S1), (nth_error_nth' _ _ _ (Running 0) S2) in Hok.
    cbn [expect_r1] in Hok.
    repeat match goal with H : _ && _ = true |- _ => apply andb_true_iff in H as [? ?] end.
    repeat (apply andb_true_iff; split); try assumption.
Qed.

Lemma pcase_agree_gen pc : pcase_ok gen_cfg pc = true -> pcase_mon pc = true.
Proof. exact (pcase_agree gen_cfg pc gen_cfg_sound). Qed.
