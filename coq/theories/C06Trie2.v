(* C06Trie2.v — how the traversal record grows along a run that contains failed loads and loads attempted
   below links the responder lacks: recording a path that is last in the record's order and has only
   responder-held links above it appends it to the links the Verifier reaches; recording a path below a link
   the responder lacks changes nothing the Verifier reaches.  (Maintains the hypotheses of C06Trie.replay_vis.) *)
From Coq Require Import List Arith NArith Bool Lia.
From GS Require Import Base Ltree RecLoader ReqExec RecLoaderProofs C02Online C02Prefix C02Trie C02PrefixProofs C02Contig C06Trie.
Import ListNotations.
Open Scope N_scope.

(* attempts: path, link, whether the load succeeded *)
Definition att := (path * cid * bool)%type.
Definition pcs (A : list att) : list (path * cid) := map fst A.
Definition trie_att (A : list att) : trec :=
  fold_left (fun T a => record_step (fst (fst a)) (snd (fst a)) (snd a) T) A trec_empty.
Lemma trie_att_snoc A p c ok : trie_att (A ++ [(p, c, ok)]) = record_step p c ok (trie_att A).
Proof. unfold trie_att. now rewrite fold_left_app. Qed.
Definition nok (A : list att) : nat := length (filter (fun a : att => snd a) A).

Lemma trie_att_twf A : A <> [] -> twf (trie_att A).
Proof.
  induction A as [|[[p c] ok] A IH] using rev_ind; [congruence|]. intros _. rewrite trie_att_snoc.
  apply record_step_twf. destruct A as [|a A]; [now right | left; apply IH; discriminate].
Qed.
Lemma trie_att_ksd A : ksd (trie_att A).
Proof. induction A as [|[[p c] ok] A IH] using rev_ind; [apply ksd_empty|]. rewrite trie_att_snoc. now apply record_step_ksd. Qed.

Lemma tlist_nonempty_twf : forall t pth, twf t -> tlist t pth <> [].
Proof.
  induction t as [lnk succ kids IHk] using trec_ind2. intros pth Hw. inversion Hw as [l0 s0 k0 Hne Hwk]; subst.
  rewrite tlist_eq. destruct lnk as [l|]; [discriminate|]. cbn [app].
  destruct kids as [|[s k] r]; [destruct Hne; congruence|]. cbn [tlist_kids].
  apply Forall_cons_iff in IHk as [IH1 _]. apply Forall_cons_iff in Hwk as [Hw1 _]. cbn [snd] in *.
  intro E. apply app_eq_nil in E as [E _]. now apply (IH1 (pth ++ [s]) Hw1).
Qed.

(* ---------- the link recorded at a path ---------- *)
Fixpoint kid (sg : seg) (kids : list (seg * trec)) : option trec :=
  match kids with [] => None | (s, k) :: r => if N.eqb s sg then Some k else kid sg r end.
Fixpoint link_at (t : trec) (q : path) : option cid :=
  match q with
  | [] => t_lnk t
  | sg :: q' => match kid sg (t_kids t) with Some k => link_at k q' | None => None end
  end.
Lemma link_at_empty q : link_at trec_empty q = None.
Proof. destruct q; reflexivity. Qed.
Lemma kid_app_found sg k1 k k2 : ~ In sg (map fst k1) -> kid sg (k1 ++ (sg, k) :: k2) = Some k.
Proof.
  induction k1 as [|[s k0] r IH]; intro H; cbn [app kid]; [now rewrite N.eqb_refl|].
  destruct (N.eqb_spec s sg) as [->|_]; [exfalso; apply H; now left|]. apply IH. intro Hin. apply H. now right.
Qed.
Lemma kid_app_notfound sg k1 k2 : ~ In sg (map fst k1) -> kid sg (k1 ++ k2) = kid sg k2.
Proof.
  induction k1 as [|[s k0] r IH]; intro H; cbn [app kid]; [reflexivity|].
  destruct (N.eqb_spec s sg) as [->|_]; [exfalso; apply H; now left|]. apply IH. intro Hin. apply H. now right.
Qed.
Lemma kid_none sg kids : ~ In sg (map fst kids) -> kid sg kids = None.
Proof. intro H. rewrite <- (app_nil_r kids). now rewrite kid_app_notfound. Qed.
Lemma kid_other sg s k1 (k k' : trec) k2 : s <> sg -> kid s (k1 ++ (sg, k) :: k2) = kid s (k1 ++ (sg, k') :: k2).
Proof.
  intro Hn. induction k1 as [|[s0 k0] r IH]; cbn [app kid].
  - destruct (N.eqb_spec sg s); [congruence | reflexivity].
  - destruct (N.eqb s0 s); [reflexivity | exact IH].
Qed.

Lemma kid_snoc_other s sg ks (k : trec) : sg <> s -> kid s (ks ++ [(sg, k)]) = kid s ks.
Proof.
  intro Hn. induction ks as [|[s0 k0] r IHr]; cbn [app kid].
  - destruct (N.eqb_spec sg s); [congruence | reflexivity].
  - destruct (N.eqb s0 s); [reflexivity | exact IHr].
Qed.

Lemma link_at_record : forall p c ok t q,
  link_at (record_step p c ok t) q = if path_eqb p q then Some c else link_at t q.
Proof.
  induction p as [|sg p IH]; intros c ok t q.
  - destruct q as [|s q]; cbn [record_step link_at path_eqb list_eqb t_lnk t_kids]; reflexivity.
  - destruct q as [|s q]; [reflexivity|]. cbn [record_step link_at t_kids path_eqb list_eqb].
    destruct (upd_kids_cases (record_step p c ok) sg (t_kids t)) as [[Hni E]|(k1 & k & k2 & E1 & Hni & E2)].
    + rewrite E. destruct (N.eqb_spec sg s) as [->|Hn]; cbn [andb].
      * rewrite (kid_app_found s (t_kids t) _ [] Hni), (kid_none s _ Hni). rewrite IH, link_at_empty. unfold path_eqb. reflexivity.
      * now rewrite (kid_snoc_other s sg (t_kids t) _ Hn).
    + rewrite E2, E1. destruct (N.eqb_spec sg s) as [->|Hn]; cbn [andb].
      * rewrite !(kid_app_found s k1 _ k2 Hni). rewrite IH. unfold path_eqb. reflexivity.
      * now rewrite (kid_other sg s k1 (record_step p c ok k) k k2) by congruence.
Qed.

Lemma path_eqb_eq a b : path_eqb a b = true <-> a = b.
Proof. unfold path_eqb. apply (list_eqb_eq N.eqb N.eqb_eq). Qed.

(* a link attempted earlier at a different path is still there *)
Lemma link_at_trie A : forall q c ok,
  In (q, c, ok) A -> (forall a b, before a b (pcs A) -> prefix (fst b) (fst a) = false) -> link_at (trie_att A) q = Some c.
Proof.
  induction A as [|[[p c0] ok0] A IH] using rev_ind; intros q c ok Hin Hord; [contradiction|].
  rewrite trie_att_snoc, link_at_record. apply in_app_iff in Hin as [Hin|[Hin|[]]].
  - destruct (path_eqb p q) eqn:Ep.
    + apply path_eqb_eq in Ep. subst q. exfalso.
      assert (Hb : before (p, c) (p, c0) (pcs (A ++ [(p, c0, ok0)]))).
      { apply in_split in Hin as (l1 & l2 & ->). exists (pcs l1), (pcs l2), [].
        unfold pcs. rewrite !map_app. cbn [map fst]. rewrite <- app_assoc. reflexivity. }
      pose proof (Hord _ _ Hb) as Hf. cbn [fst] in Hf. now rewrite prefix_refl in Hf.
    + apply (IH q c ok Hin). intros a b Hab. apply Hord. unfold pcs. rewrite map_app. destruct Hab as (l1 & l2 & l3 & E).
      unfold pcs in E. rewrite E. exists l1, l2, (l3 ++ map fst [(p, c0, ok0)]). rewrite <- !app_assoc. cbn [app]. rewrite <- !app_assoc. reflexivity.
  - inversion Hin; subst. assert (Ep : path_eqb q q = true) by now apply path_eqb_eq. now rewrite Ep.
Qed.

Section Grow.
  Variable R : store.

  Lemma vlist_kids_app k1 k2 pth : vlist_kids R (k1 ++ k2) pth = vlist_kids R k1 pth ++ vlist_kids R k2 pth.
  Proof. induction k1 as [|[s k] r IH]; cbn [app vlist_kids]; [reflexivity|]. now rewrite IH, app_assoc. Qed.

  Lemma reach_ok_empty : reach_ok R trec_empty.
  Proof. constructor; [intros c H; discriminate | intros _; constructor]. Qed.

  (* ---- below a link the responder lacks: invisible ---- *)
  Lemma record_under : forall p c ok t pth q l,
    proper_prefix q p = true -> link_at t q = Some l -> pres R l = false ->
    vlist R (record_step p c ok t) pth = vlist R t pth /\ (reach_ok R t -> reach_ok R (record_step p c ok t)).
  Proof.
    induction p as [|sg p IH]; intros c ok t pth q l Hpp Hl Hp; [now rewrite proper_prefix_nil_r in Hpp|].
    destruct t as [lnk s kids]. cbn [record_step t_kids t_lnk t_succ].
    destruct q as [|s0 q].
    - cbn [link_at t_lnk] in Hl. subst lnk. rewrite !vlist_eq, Hp. split; [reflexivity|].
      intros _. constructor; [intros c0 E Hc0; inversion E; subst; congruence | discriminate].
    - cbn [proper_prefix] in Hpp. apply andb_true_iff in Hpp as [Es Hpp]. apply N.eqb_eq in Es. subst s0.
      cbn [link_at t_kids] in Hl. destruct (kid sg kids) as [k|] eqn:Ek; [|discriminate].
      destruct (upd_kids_cases (record_step p c ok) sg kids) as [[Hni E]|(k1 & k0 & k2 & E1 & Hni & E2)].
      + rewrite (kid_none sg kids Hni) in Ek. discriminate.
      + subst kids. rewrite (kid_app_found sg k1 k0 k2 Hni) in Ek. inversion Ek; subst k0.
        destruct (IH c ok k (pth ++ [sg]) q l Hpp Hl Hp) as [Ev Er]. rewrite E2. split.
        * rewrite !vlist_eq, !vlist_kids_app. cbn [vlist_kids]. unfold seg in *. now rewrite Ev.
        * intro Hr. inversion Hr as [l1 s1 kk Hlnk Hnone]; subst.
          assert (Hrep : Forall (fun sk : seg * trec => reach_ok R (snd sk)) (k1 ++ (sg, k) :: k2) ->
                         Forall (fun sk : seg * trec => reach_ok R (snd sk)) (k1 ++ (sg, record_step p c ok k) :: k2)).
          { intro HF. apply Forall_app in HF as [H1 H2]. apply Forall_cons_iff in H2 as [H0 H2]. apply Forall_app. split; [exact H1|].
            constructor; [cbn [snd] in *; now apply Er | exact H2]. }
          constructor.
          -- intros c0 E Hc0. destruct (Hlnk c0 E Hc0) as [Hs HF]. split; [exact Hs | now apply Hrep].
          -- intro E. apply Hrep. now apply Hnone.
  Qed.

  (* ---- last in the record's order, only responder-held links above: appended ---- *)
  Lemma last_kid lnk s k1 sg k k2 pth p :
    Forall (fun sk : seg * trec => twf (snd sk)) (k1 ++ (sg, k) :: k2) -> NoDup (map fst (k1 ++ (sg, k) :: k2)) ->
    (forall a b, before a b (tlist (TRec lnk s (k1 ++ (sg, k) :: k2)) pth) -> forall q, prefix q (fst a) = true ->
       prefix q (pth ++ sg :: p) = true -> prefix q (fst b) = true) ->
    k2 = [].
  Proof.
    intros Hwk Hnd HB. destruct k2 as [|[s' k'] k2']; [reflexivity|]. exfalso.
    apply Forall_app in Hwk as [_ Hw2]. apply Forall_cons_iff in Hw2 as [Hw0 Hw2]. apply Forall_cons_iff in Hw2 as [Hw' _]. cbn [snd] in *.
    pose proof (tlist_nonempty_twf k (pth ++ [sg]) Hw0) as Hn1. pose proof (tlist_nonempty_twf k' (pth ++ [s']) Hw') as Hn2.
    destruct (tlist k (pth ++ [sg])) as [|a ra] eqn:Ea; [congruence|]. destruct (tlist k' (pth ++ [s'])) as [|b rb] eqn:Eb; [congruence|].
    rewrite tlist_eq, tlist_kids_app in HB. cbn [tlist_kids] in HB.
    assert (Hab : before a b ((match lnk with Some l0 => [(pth, l0)] | None => [] end) ++
                               tlist_kids k1 pth ++ tlist k (pth ++ [sg]) ++ tlist k' (pth ++ [s']) ++ tlist_kids k2' pth)).
    { rewrite Ea, Eb. apply before_app_l. apply before_app_l. apply before_in; [now left|]. now left. }
    assert (Hpa : prefix (pth ++ [sg]) (fst a) = true).
    { destruct a as [qa ca]. apply (tlist_prefix k (pth ++ [sg]) qa ca). rewrite Ea. now left. }
    assert (Hpn : prefix (pth ++ [sg]) (pth ++ sg :: p) = true).
    { replace (pth ++ sg :: p) with ((pth ++ [sg]) ++ p) by (now rewrite <- app_assoc). apply prefix_app_same. }
    pose proof (HB a b Hab (pth ++ [sg]) Hpa Hpn) as Hpb.
    assert (Hpb' : prefix (pth ++ [s']) (fst b) = true).
    { destruct b as [qb cb]. apply (tlist_prefix k' (pth ++ [s']) qb cb). rewrite Eb. now left. }
    pose proof (prefix_snoc_eq pth sg s' (fst b) Hpb Hpb') as Es. subst s'.
    rewrite map_app in Hnd. cbn in Hnd. apply NoDup_remove_2 in Hnd. apply Hnd. apply in_app_iff. right. now left.
  Qed.

  Lemma record_last2 : forall p c ok t pth,
    (twf t \/ t = trec_empty) -> ksd t ->
    (forall q c', In (q, c') (tlist t pth) -> prefix (pth ++ p) q = false) ->
    (forall a b, before a b (tlist t pth) -> forall q, prefix q (fst a) = true -> prefix q (pth ++ p) = true -> prefix q (fst b) = true) ->
    (forall q l, proper_prefix q p = true -> link_at t q = Some l -> pres R l = true) ->
    tlist (record_step p c ok t) pth = tlist t pth ++ [(pth ++ p, c)] /\
    vlist R (record_step p c ok t) pth = vlist R t pth ++ [(pth ++ p, c)] /\
    (reach_ok R t -> (pres R c = true -> ok = true) -> reach_ok R (record_step p c ok t)).
  Proof.
    induction p as [|sg p IH]; intros c ok t pth Hw Hk HA HB HP.
    - assert (He : tlist t pth = []).
      { destruct (tlist t pth) as [|[q c'] r] eqn:E; [reflexivity|]. exfalso.
        assert (Hin : In (q, c') (tlist t pth)) by (rewrite E; now left).
        pose proof (tlist_prefix t pth q c' Hin) as Hp. specialize (HA q c' (or_introl eq_refl)). rewrite app_nil_r in HA. congruence. }
      assert (Hkids : t_kids t = [] /\ t_lnk t = None).
      { destruct t as [l s kids]. rewrite tlist_eq in He. apply app_eq_nil in He as [Hl Hk0]. destruct l; [discriminate|].
        split; [|reflexivity]. destruct kids as [|[s0 k0] r]; [reflexivity|]. exfalso.
        destruct Hw as [Hw|Hw]; [|discriminate]. inversion Hw as [l1 s1 kk _ Hwk]; subst.
        apply Forall_cons_iff in Hwk as [Hw0 _]. cbn [snd tlist_kids] in *. apply app_eq_nil in Hk0 as [Hk0 _].
        now apply (tlist_nonempty_twf k0 (pth ++ [s0]) Hw0). }
      destruct t as [l s kids]. cbn [t_kids t_lnk] in Hkids. destruct Hkids as [-> ->].
      cbn [record_step t_kids]. rewrite !tlist_eq, !vlist_eq. rewrite (app_nil_r pth). cbn [tlist_kids vlist_kids app].
      split; [reflexivity|]. split; [destruct (pres R c); reflexivity|].
      intros _ Hok. constructor; [intros c0 E Hc0; inversion E; subst; split; [now apply Hok | constructor] | discriminate].
    - destruct t as [l s kids]. inversion Hk as [l0 s0 k0 Hnd Hkk]; subst.
      cbn [record_step t_kids t_lnk t_succ].
      assert (Hwk : Forall (fun sk : seg * trec => twf (snd sk)) kids).
      { destruct Hw as [Hw|Hw]; [inversion Hw; subst; assumption | inversion Hw; constructor]. }
      assert (Hl : forall l0, l = Some l0 -> pres R l0 = true) by (intros l0 ->; apply (HP [] l0); reflexivity).
      assert (Hvl : forall kk, vlist R (TRec l s kk) pth = (match l with Some l0 => [(pth, l0)] | None => [] end) ++ vlist_kids R kk pth).
      { intro kk. rewrite vlist_eq. destruct l as [l0|]; [rewrite (Hl l0 eq_refl)|]; reflexivity. }
      assert (Hro : forall kk, Forall (fun sk : seg * trec => reach_ok R (snd sk)) kk -> (l <> None -> s = true) -> reach_ok R (TRec l s kk)).
      { intros kk HF Hs. constructor; [intros c0 E _; split; [apply Hs; congruence | exact HF] | intros _; exact HF]. }
      assert (Hrk : reach_ok R (TRec l s kids) -> Forall (fun sk : seg * trec => reach_ok R (snd sk)) kids /\ (l <> None -> s = true)).
      { intro Hr. inversion Hr as [l1 s1 kk Hlnk Hnone]; subst. destruct l as [l0|].
        - destruct (Hlnk l0 eq_refl (Hl l0 eq_refl)) as [Hs HF]. split; [exact HF | intros _; exact Hs].
        - split; [now apply Hnone | congruence]. }
      destruct (upd_kids_cases (record_step p c ok) sg kids) as [[Hni E]|(k1 & k & k2 & E1 & Hni & E2)].
      + destruct (IH c ok trec_empty (pth ++ [sg])) as (T1 & V1 & R1); [now right | apply ksd_empty | intros q c' [] | | |].
        { intros a b (l1 & l2 & l3 & Eb). destruct l1; discriminate. }
        { intros q l0 _ Hq. rewrite link_at_empty in Hq. discriminate. }
        cbn [tlist vlist app] in T1, V1. rewrite <- app_assoc in T1, V1. cbn [app] in T1, V1. unfold seg in *.
        rewrite E. split; [|split].
        * rewrite !tlist_eq, tlist_kids_app. cbn [tlist_kids]. unfold seg in *. rewrite T1, app_nil_r, <- !app_assoc. reflexivity.
        * rewrite !Hvl, vlist_kids_app. cbn [vlist_kids]. unfold seg in *. rewrite V1, app_nil_r, <- !app_assoc. reflexivity.
        * intros Hr Hok. destruct (Hrk Hr) as [HF Hs]. apply Hro; [|exact Hs]. apply Forall_app. split; [exact HF|].
          constructor; [|constructor]. cbn [snd]. apply R1; [apply reach_ok_empty | exact Hok].
      + subst kids. pose proof (last_kid l s k1 sg k k2 pth p Hwk Hnd HB) as ->.
        apply Forall_app in Hwk as [Hw1 Hw2]. apply Forall_cons_iff in Hw2 as [Hw0 _]. cbn [snd] in Hw0.
        apply Forall_app in Hkk as [Hk1 Hk2]. apply Forall_cons_iff in Hk2 as [Hk0 _]. cbn [snd] in Hk0.
        rewrite tlist_eq, tlist_kids_app in HA, HB. cbn [tlist_kids] in HA, HB. rewrite app_nil_r in HA, HB.
        destruct (IH c ok k (pth ++ [sg])) as (T1 & V1 & R1); [now left | exact Hk0 | | | |].
        { intros q c' Hin. rewrite <- app_assoc. cbn [app]. apply (HA q c'). apply in_app_iff. right. apply in_app_iff. now right. }
        { intros a b Hab q Hq1 Hq2. rewrite <- app_assoc in Hq2. cbn [app] in Hq2. apply (HB a b); [|exact Hq1|exact Hq2].
          apply before_app_l. now apply before_app_l. }
        { intros q l0 Hpp Hq. apply (HP (sg :: q) l0); [cbn; now rewrite N.eqb_refl|].
          cbn [link_at t_kids]. now rewrite (kid_app_found sg k1 k [] Hni). }
        rewrite <- app_assoc in T1, V1. cbn [app] in T1, V1. unfold seg in *.
        rewrite E2. split; [|split].
        * rewrite !tlist_eq, !tlist_kids_app. cbn [tlist_kids]. unfold seg in *. rewrite T1, !app_nil_r, <- !app_assoc. reflexivity.
        * rewrite !Hvl, !vlist_kids_app. cbn [vlist_kids]. unfold seg in *. rewrite V1, !app_nil_r, <- !app_assoc. reflexivity.
        * intros Hr Hok. destruct (Hrk Hr) as [HF Hs]. apply Hro; [|exact Hs].
          apply Forall_app in HF as [H1 H2]. apply Forall_cons_iff in H2 as [H0 _]. apply Forall_app. split; [exact H1|].
          constructor; [|constructor]. cbn [snd] in *. now apply R1.
  Qed.
End Grow.

(* the order part alone (no condition on what lies above) *)
Lemma record_last_tl : forall p c ok t pth,
  (twf t \/ t = trec_empty) -> ksd t ->
  (forall q c', In (q, c') (tlist t pth) -> prefix (pth ++ p) q = false) ->
  (forall a b, before a b (tlist t pth) -> forall q, prefix q (fst a) = true -> prefix q (pth ++ p) = true -> prefix q (fst b) = true) ->
  tlist (record_step p c ok t) pth = tlist t pth ++ [(pth ++ p, c)].
Proof.
  induction p as [|sg p IH]; intros c ok t pth Hw Hk HA HB.
  - assert (He : tlist t pth = []).
    { destruct (tlist t pth) as [|[q c'] r] eqn:E; [reflexivity|]. exfalso.
      assert (Hin : In (q, c') (tlist t pth)) by (rewrite E; now left).
      pose proof (tlist_prefix t pth q c' Hin) as Hp. specialize (HA q c' (or_introl eq_refl)). rewrite app_nil_r in HA. congruence. }
    destruct t as [l s kids]. rewrite tlist_eq in He. apply app_eq_nil in He as [Hl Hk0]. destruct l; [discriminate|].
    cbn [record_step t_kids]. rewrite !tlist_eq, Hk0. cbn [app]. now rewrite app_nil_r.
  - destruct t as [l s kids]. inversion Hk as [l0 s0 k0 Hnd Hkk]; subst.
    cbn [record_step t_kids t_lnk t_succ].
    assert (Hwk : Forall (fun sk : seg * trec => twf (snd sk)) kids).
    { destruct Hw as [Hw|Hw]; [inversion Hw; subst; assumption | inversion Hw; constructor]. }
    destruct (upd_kids_cases (record_step p c ok) sg kids) as [[Hni E]|(k1 & k & k2 & E1 & Hni & E2)].
    + assert (T1 : tlist (record_step p c ok trec_empty) (pth ++ [sg]) = [(pth ++ sg :: p, c)]).
      { rewrite (IH c ok trec_empty (pth ++ [sg])); [|now right | apply ksd_empty | intros q c' [] |].
        - cbn [tlist app]. now rewrite <- app_assoc.
        - intros a b (l1 & l2 & l3 & Eb). destruct l1; discriminate. }
      rewrite E, !tlist_eq, tlist_kids_app. cbn [tlist_kids]. unfold seg in *. rewrite T1, app_nil_r, <- !app_assoc. reflexivity.
    + subst kids. pose proof (last_kid l s k1 sg k k2 pth p Hwk Hnd HB) as ->.
      apply Forall_app in Hwk as [Hw1 Hw2]. apply Forall_cons_iff in Hw2 as [Hw0 _]. cbn [snd] in Hw0.
      apply Forall_app in Hkk as [Hk1 Hk2]. apply Forall_cons_iff in Hk2 as [Hk0 _]. cbn [snd] in Hk0.
      rewrite tlist_eq, tlist_kids_app in HA, HB. cbn [tlist_kids] in HA, HB. rewrite app_nil_r in HA, HB.
      assert (T1 : tlist (record_step p c ok k) (pth ++ [sg]) = tlist k (pth ++ [sg]) ++ [(pth ++ sg :: p, c)]).
      { rewrite (IH c ok k (pth ++ [sg])); [| now left | exact Hk0 | |].
        - now rewrite <- app_assoc.
        - intros q c' Hin. rewrite <- app_assoc. cbn [app]. apply (HA q c'). apply in_app_iff. right. apply in_app_iff. now right.
        - intros a b Hab q Hq1 Hq2. rewrite <- app_assoc in Hq2. cbn [app] in Hq2. apply (HB a b); [|exact Hq1|exact Hq2].
          apply before_app_l. now apply before_app_l. }
      rewrite E2, !tlist_eq, !tlist_kids_app. cbn [tlist_kids]. unfold seg in *. rewrite T1, !app_nil_r, <- !app_assoc. reflexivity.
Qed.

(* ---------- along a sequence of attempts ---------- *)
Lemma link_at_trie_inv A : forall q l, link_at (trie_att A) q = Some l -> exists ok, In (q, l, ok) A.
Proof.
  induction A as [|[[p c] ok] A IH] using rev_ind; intros q l H; [rewrite link_at_empty in H; discriminate|].
  rewrite trie_att_snoc, link_at_record in H. destruct (path_eqb p q) eqn:Ep.
  - apply path_eqb_eq in Ep. inversion H; subst. exists ok. apply in_app_iff. right. now left.
  - destruct (IH q l H) as (ok' & Hin). exists ok'. apply in_app_iff. now left.
Qed.

Lemma AB_of_good ns p c :
  orderedb (ns ++ [(p, c)]) = true -> contigb (ns ++ [(p, c)]) = true ->
  (forall q c', In (q, c') ns -> prefix ([] ++ p) q = false) /\
  (forall a b, before a b ns -> forall q, prefix q (fst a) = true -> prefix q ([] ++ p) = true -> prefix q (fst b) = true).
Proof.
  intros Ho Hc. cbn [app]. split.
  - intros q c' Hin. apply (orderedb_spec _ Ho (q, c') (p, c)). apply in_split in Hin as (l1 & l2 & ->). exists l1, l2, []. now rewrite <- app_assoc.
  - intros a b Hab q Hq1 Hq2.
    assert (H3 : contig3 a b (p, c) = true).
    { apply (contigb_spec _ Hc). destruct Hab as (l1 & l2 & l3 & ->). exists l1, (l2 ++ b :: l3 ++ [(p, c)]).
      split; [now rewrite <- !app_assoc, <- !app_comm_cons, <- app_assoc|]. exists l2, l3, []. reflexivity. }
    unfold contig3 in H3. cbn [fst] in H3. apply (prefix_trans q (lcp (fst a) p) (fst b)); [|exact H3]. now apply lcp_spec.
Qed.

Section Along.
  Variable R : store.
  (* the record of a sequence of attempts, as the go-online step needs it *)
  Definition rec_ok (A : list att) (V : list (path * cid)) : Prop :=
    (twf (trie_att A) \/ A = []) /\ tlist (trie_att A) [] = pcs A /\ vlist R (trie_att A) [] = V /\ reach_ok R (trie_att A).

  Lemma rec_ok_nil : rec_ok [] [].
  Proof. unfold rec_ok. split; [now right|]. split; [reflexivity|]. split; [reflexivity | apply reach_ok_empty]. Qed.

  Lemma twf_or_empty A : (twf (trie_att A) \/ A = []) -> (twf (trie_att A) \/ trie_att A = trec_empty).
  Proof. intros [H| ->]; [now left | now right]. Qed.

  (* a link the responder's traversal reaches *)
  Lemma rec_ok_visible A V p c ok :
    rec_ok A V -> orderedb (pcs A ++ [(p, c)]) = true -> contigb (pcs A ++ [(p, c)]) = true ->
    (forall q c' ok', In (q, c', ok') A -> pres R c' = false -> proper_prefix q p = false) ->
    (pres R c = true -> ok = true) ->
    rec_ok (A ++ [(p, c, ok)]) (V ++ [(p, c)]).
  Proof.
    intros (Hw & Ht & Hv & Hr) Ho Hc HM Hok. destruct (AB_of_good (pcs A) p c Ho Hc) as [HA HB].
    rewrite <- Ht in HA, HB.
    destruct (record_last2 R p c ok (trie_att A) [] (twf_or_empty A Hw) (trie_att_ksd A) HA HB) as (T1 & V1 & R1).
    { intros q l Hpp Hl. destruct (link_at_trie_inv A q l Hl) as (ok' & Hin).
      destruct (pres R l) eqn:Ep; [reflexivity|]. rewrite (HM q l ok' Hin Ep) in Hpp. discriminate. }
    unfold rec_ok. rewrite trie_att_snoc. split; [left; apply record_step_twf; now apply twf_or_empty|].
    split; [rewrite T1, Ht; unfold pcs; rewrite map_app; reflexivity|]. split; [rewrite V1, Hv; reflexivity | now apply R1].
  Qed.

  (* a link below a link the responder lacks *)
  Lemma rec_ok_invisible A V p c ok q l okq :
    rec_ok A V -> orderedb (pcs A ++ [(p, c)]) = true -> contigb (pcs A ++ [(p, c)]) = true ->
    In (q, l, okq) A -> pres R l = false -> proper_prefix q p = true ->
    rec_ok (A ++ [(p, c, ok)]) V.
  Proof.
    intros (Hw & Ht & Hv & Hr) Ho Hc Hin Hp Hpp. destruct (AB_of_good (pcs A) p c Ho Hc) as [HA HB].
    rewrite <- Ht in HA, HB.
    pose proof (record_last_tl p c ok (trie_att A) [] (twf_or_empty A Hw) (trie_att_ksd A) HA HB) as T1.
    assert (Hl : link_at (trie_att A) q = Some l).
    { apply (link_at_trie A q l okq Hin). apply orderedb_spec. apply (orderedb_app _ [(p, c)] Ho). }
    destruct (record_under R p c ok (trie_att A) [] q l Hpp Hl Hp) as [V1 R1].
    unfold rec_ok. rewrite trie_att_snoc. split; [left; apply record_step_twf; now apply twf_or_empty|].
    split; [rewrite T1, Ht; unfold pcs; rewrite map_app; reflexivity|]. split; [rewrite V1; exact Hv | now apply R1].
  Qed.

  (* what the go-online step uses *)
  Lemma rec_ok_replay A V : rec_ok A V -> exists vf, forall u rest,
    vreplay (trie_att A) (new_verifier (trie_att A)) u (map (ent R) V ++ rest) = Some (vf, ulast R u V, rest).
  Proof.
    intros ([Hw| ->] & Ht & Hv & Hr).
    - exists VEmpty. intros u rest. rewrite <- Hv. now apply replay_vis.
    - cbn in Hv. subst V. exists (VAt []). intros u rest. cbn [map app]. destruct rest; reflexivity.
  Qed.
End Along.
