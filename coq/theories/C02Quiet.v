(* C02Quiet.v — the executor before the request is sent (loads answered from the local store, each one
   recorded in the traversal record) and the step that takes it online at the first local miss:
   SetRemoteOnline(true), the request with do-not-send-first-blocks = blocks loaded so far, RetryLastLoad
   replaying the recorded prefix against the response, then the missed link itself. *)
From Coq Require Import List Arith NArith Bool Lia ZifyBool ZifyNat ZifyN.
From GS Require Import Base Ltree RecLoader ReqExec RecLoaderProofs C02Online C02Chunks C02Prefix C02Trie C02Replay.
Import ListNotations.
Open Scope N_scope.
Local Arguments N.add : simpl never.

Section Quiet.
  Variable t0 : ltree.
  Variables L R : store.
  Variable sizes : list nat.
  Notation E := (exec_ask proper_prefix (honest t0 R sizes) 0).

  (* nothing sent yet: offline, nothing queued, [ns] = the links loaded so far, all of them recorded once the
     pending attempt is *)
  Definition qinv (ns : list (path * cid)) (x : xstate) : Prop :=
    x_sent x = false /\ x_cancelled x = false /\ x_feed x = [] /\ x_store x = L /\ x_errs x = [] /\
    x_nblocks x = N.of_nat (length ns) /\
    r_open (x_rl x) = false /\ r_q (x_rl x) = rq_empty /\ r_verifier (x_rl x) = None /\ r_unfollowed (x_rl x) = [] /\
    r_record (bro_start (x_rl x)) = trie_of ns.

  Definition qstate (ns : list (path * cid)) (p : path) (c : cid) (ok : bool) sch lg : xstate :=
    {| x_rl := {| r_open := false; r_q := rq_empty; r_verifier := None; r_record := trie_of ns;
                  r_last := Some {| a_path := p; a_link := c; a_ok := ok; a_remote := false |};
                  r_unfollowed := [] |};
       x_store := L; x_sent := false; x_nblocks := N.of_nat (length ns); x_cancelled := false; x_errs := [];
       x_feed := []; x_sched := sch; x_log := lg |}.

  Lemma q_load ns x p c :
    qinv ns x ->
    exists sch lg, load_call proper_prefix x p c =
                   (qstate ns p c (RecLoader.res_ok (load_local L p c)) sch lg, Some (load_local L p c)).
  Proof.
    destruct x as [rl0 st sent nb canc errs feed sched lg]. destruct rl0 as [op q ver rec last unfd].
    unfold qinv. cbn [x_rl x_store x_sent x_nblocks x_cancelled x_errs x_feed r_open r_q r_verifier r_unfollowed].
    intros (-> & -> & -> & -> & -> & -> & -> & -> & -> & -> & Hrec).
    unfold load_call, pop_sched. cbn [x_sched].
    assert (Hb : forall sch, exists lg',
      load_wait proper_prefix []
        (x_with_rl {| x_rl := {| r_open := false; r_q := rq_empty; r_verifier := None; r_record := rec; r_last := last; r_unfollowed := [] |};
                      x_store := L; x_sent := false; x_nblocks := N.of_nat (length ns); x_cancelled := false; x_errs := [];
                      x_feed := []; x_sched := sch; x_log := lg |}
           (bro_start {| r_open := false; r_q := rq_empty; r_verifier := None; r_record := rec; r_last := last; r_unfollowed := [] |}) L) p c =
      (qstate ns p c (RecLoader.res_ok (load_local L p c)) sch lg', Some (load_local L p c))).
    { intro sch. unfold qstate. rewrite <- Hrec.
      destruct last as [a|]; cbn; unfold load_local; destruct (aget c L) as [b|];
        cbn; eexists; reflexivity. }
    destruct sched as [|n s]; rewrite deliver_n_nofeed by reflexivity;
      cbn [x_with_rl x_feed x_rl x_store]; [destruct (Hb []) as (lg' & Eb) | destruct (Hb s) as (lg' & Eb)];
      eexists; exists lg'; exact Eb.
  Qed.

  (* a link the local store holds *)
  Lemma q_hit ns x p c b :
    qinv ns x -> aget c L = Some b ->
    exists x', E x p c = (x', AOk) /\ qinv (ns ++ [(p, c)]) x'.
  Proof.
    intros Hx Hb. destruct (q_load ns x p c Hx) as (sch & lg & El).
    unfold exec_ask. rewrite El. unfold load_local. rewrite Hb. cbn [RecLoader.res_ok].
    eexists. split; [reflexivity|].
    unfold qinv, qstate. cbn [x_rl x_store x_sent x_nblocks x_cancelled x_errs x_feed x_logged r_open r_q r_verifier r_unfollowed bro_start r_last
                               set_last set_record r_record a_path a_link a_ok].
    rewrite trie_of_snoc, app_length. cbn [fst snd length]. repeat split; auto. lia.
  Qed.

  (* the tail of Executor.traverse's iteration after the load (advanceTraversal) *)
  Definition xfinish (p : path) (c : cid) (r : xstate * option lresult) : xstate * ans :=
    let '(x2, o2) := r in
    match o2 with
    | None => (x2, AErr (ErrOther hang_code))
    | Some res =>
        let x3 := x_logged x2 (XLoad p c res) in
        match res with
        | RData _ _ =>
            ({| x_rl := x_rl x3; x_store := x_store x3; x_sent := x_sent x3; x_nblocks := x_nblocks x3 + 1;
                x_cancelled := x_cancelled x3; x_errs := x_errs x3; x_feed := x_feed x3; x_sched := x_sched x3;
                x_log := x_log x3 |}, AOk)
        | RErr e _ =>
            if x_cancelled x3 then (x3, AErr (ErrOther cancel_code))
            else
              let x4 := {| x_rl := x_rl x3; x_store := x_store x3; x_sent := x_sent x3; x_nblocks := x_nblocks x3;
                           x_cancelled := x_cancelled x3; x_errs := x_errs x3 ++ [e]; x_feed := x_feed x3;
                           x_sched := x_sched x3; x_log := x_log x3 |} in
              match e with
              | EMissing _ _ => (x4, ASkip)
              | _ => (x4, AErr (ErrOther (err_code e)))
              end
        end
    end.

  Lemma xfinish_ok p c x1 res :
    x_cancelled x1 = false ->
    exists x', xfinish p c (x1, Some res) = (x', ans_of res) /\ x_rl x' = x_rl x1 /\ x_store x' = x_store x1 /\
               x_feed x' = x_feed x1 /\ x_sent x' = x_sent x1 /\ x_cancelled x' = false /\ x_errs x' = x_errs x1 ++ errs_of res.
  Proof.
    intro Hc. unfold xfinish. destruct res as [b l|e l].
    - eexists. split; [reflexivity|]. cbn. rewrite app_nil_r. auto 10.
    - cbn [x_logged x_cancelled]. rewrite Hc. destruct e; (eexists; split; [reflexivity|]); cbn; auto 10.
  Qed.

  (* the state in which the retried load starts *)
  Definition gstate (ns : list (path * cid)) sch lg : xstate :=
    {| x_rl := {| r_open := true; r_q := rq_empty; r_verifier := Some (new_verifier (trie_of ns)); r_record := trie_of ns;
                  r_last := None; r_unfollowed := [] |};
       x_store := L; x_sent := true; x_nblocks := N.of_nat (length ns); x_cancelled := false; x_errs := [];
       x_feed := honest t0 R sizes (N.max 0 (N.of_nat (length ns))); x_sched := sch; x_log := lg |}.

  (* the first local miss: online, request sent, the load retried *)
  Lemma q_miss ns x p c :
    qinv ns x -> aget c L = None ->
    exists sch lg, E x p c = xfinish p c (load_call proper_prefix (gstate ns sch lg) p c).
  Proof.
    intros Hx Hb. destruct (q_load ns x p c Hx) as (sch & lg & El).
    unfold exec_ask. rewrite El. unfold load_local. rewrite Hb. cbn [RecLoader.res_ok].
    unfold qstate. cbn [x_sent x_cancelled]. unfold retry_call, go_online, retry_prepare.
    cbn [x_rl x_store x_sent x_nblocks x_cancelled x_errs x_feed x_sched x_log set_online r_open r_last andb negb set_verifier set_q
         a_remote a_path a_link x_with_rl set_last r_q r_verifier r_record r_unfollowed app].
    exists sch. eexists. unfold xfinish, gstate. reflexivity.
  Qed.

  (* ---- the retried load ---- *)
  Section Online.
    Variables (ns : list (path * cid)) (PN S' : list item) (seen0 : list cid) (u : path).
    Hypothesis HF0 : fst (emit_tree R t0 []) = PN ++ S'.
    Hypothesis Hstrip : map strip PN = map (ent R) ns.
    Hypothesis Hroot : aget (root_cid t0) R <> None.
    Hypothesis Heok : eok R seen0 (map strip PN ++ S').
    Hypothesis HRP : vreplay (trie_of ns) (new_verifier (trie_of ns)) [] (map (ent R) ns ++ S') = Some (VEmpty, u, S').

    Lemma length_PN : length PN = length ns.
    Proof. rewrite <- (map_length strip PN), Hstrip. apply map_length. Qed.

    Lemma g_feed : exists chunks, honest t0 R sizes (N.max 0 (N.of_nat (length ns))) = mkfeed chunks /\
                                  concat chunks = map strip PN ++ S' /\ chunks <> [].
    Proof.
      unfold honest, resp_status. destruct (aget (root_cid t0) R) as [b|]; [|congruence].
      rewrite N.max_r by lia. rewrite resp_items_skip, resp_items_emit, HF0, Nat2N.id, <- length_PN, stripk_app.
      apply mk_msgs_feed.
    Qed.

    Lemma g_enter sch lg p c :
      exists chunks' x2,
        load_call proper_prefix (gstate ns sch lg) p c = load_wait proper_prefix (mkfeed chunks') x2 p c /\
        inv2 R (seen_after seen0 (map strip PN)) chunks' x2 /\ stq x2 ++ concat chunks' = S' /\ unf x2 = u /\
        x_store x2 = L /\ x_errs x2 = [].
    Proof.
      destruct g_feed as (chunks & Ef & Ec & Hne).
      set (xg := gstate ns sch lg).
      assert (Hfg : x_feed xg = mkfeed chunks) by exact Ef.
      assert (Hig : inv3 R seen0 chunks xg).
      { unfold inv3, stq, xg, gstate. cbn [x_rl x_sent x_cancelled r_q r_open q_detached q_items rq_empty app].
        rewrite Ec. repeat split; auto. destruct chunks; [congruence | reflexivity]. }
      unfold load_call. destruct (pop_sched xg) as [n x0] eqn:Ep.
      assert (H0 : x_feed x0 = mkfeed chunks /\ inv3 R seen0 chunks x0 /\ stq x0 = [] /\ unf x0 = [] /\
                   x_store x0 = L /\ x_errs x0 = [] /\ r_verifier (x_rl x0) = Some (new_verifier (trie_of ns)) /\
                   r_record (x_rl x0) = trie_of ns /\ r_last (x_rl x0) = None).
      { unfold pop_sched in Ep. destruct (x_sched xg); inversion Ep; subst; cbn; auto 12. }
      destruct H0 as (Hf0 & Hi0 & Hq0 & Hu0 & Hs0 & He0 & Hv0 & Hr0 & Hl0).
      destruct (deliver_n3 R seen0 n chunks x0 Hf0 Hi0) as (chunks1 & A & B & C & D & F & G & V & W & Z).
      remember (deliver_n n x0) as x1 eqn:Ex1. clear Ex1.
      assert (Ebs : bro_start (x_rl x1) = x_rl x1) by (apply bro_start_nolast; congruence).
      rewrite Ebs, x_with_id, A.
      assert (Hrp : vreplay (trie_of ns) (new_verifier (trie_of ns)) (unf x1) (stq x1 ++ concat chunks1) = Some (VEmpty, u, S')).
      { rewrite D, Hu0, C, Hq0, Ec, Hstrip. exact HRP. }
      destruct (lw_replay R proper_prefix (trie_of ns) p c S' VEmpty u chunks1 seen0 x1 (new_verifier (trie_of ns)) B
                  ltac:(congruence) ltac:(congruence) Hrp) as (pre & chunks' & x2 & E2 & Ep2 & I2 & Q2 & U2 & St2 & Er2).
      assert (Epre : pre = map strip PN).
      { rewrite C, Hq0, Ec in Ep2. cbn [app] in Ep2. apply app_inv_tail in Ep2. now symmetry. }
      subst pre. exists chunks', x2. split; [exact E2|]. split; [exact I2|]. split; [exact Q2|]. split; [exact U2|].
      split; congruence.
    Qed.

    (* T: the responder's own traversal reaches the missed link: its entry is the head of what is left *)
    Lemma q_online_T x p c h t :
      qinv ns x -> aget c L = None -> S' = h :: t -> i_link h = c ->
      (u = [] \/ proper_prefix u p = false) ->
      exists x' a, E x p c = (x', a) /\ onl2 R (seen_step h (seen_after seen0 (map strip PN))) x' /\ mq2 x' = t /\
        unf x' = (if did_follow (i_act h) then [] else p) /\
        match i_blk h with
        | Some b => a = AOk /\ x_store x' = aput c b L /\ x_errs x' = []
        | None => a = ASkip /\ x_store x' = L /\ x_errs x' = [EMissing p c]
        end.
    Proof.
      intros Hx Hb HS Hc Hu. destruct (q_miss ns x p c Hx Hb) as (sch & lg & Eq). rewrite Eq.
      destruct (g_enter sch lg p c) as (chunks' & x2 & E2 & I2 & Q2 & U2 & St2 & Er2). rewrite E2.
      rewrite HS in Q2.
      assert (Hu2 : unf x2 = [] \/ proper_prefix (unf x2) p = false) by (rewrite U2; exact Hu).
      destruct (lw_head R proper_prefix _ p c chunks' x2 h t I2 Q2 Hu2 Hc) as (x1 & res & E1 & Hp & Hu1 & He1 & Hbk).
      rewrite E1. destruct (post_onl2 R _ x1 _ Hp) as [Ho1 Hm1].
      pose proof Ho1 as (ch1 & _ & (Hs1' & Hc1' & _)).
      destruct (xfinish_ok p c x1 res Hc1') as (x' & Ex & F1 & F2 & F3 & F4 & F5 & F6).
      rewrite Hs1' in F4.
      destruct (onl2_transfer R _ x1 x' Ho1 F1 F3 F4 F5) as (G1 & G2 & G3).
      exists x', (ans_of res). split; [exact Ex|]. split; [exact G1|]. split; [now rewrite G2|]. split; [now rewrite G3|].
      destruct (i_blk h) as [b|].
      - destruct Hbk as [Hb1 ->]. cbn [ans_of errs_of] in *. rewrite app_nil_r in F6.
        split; [reflexivity|]. split; [rewrite F2, Hb1, St2; reflexivity|]. rewrite F6, He1, Er2. reflexivity.
      - destruct Hbk as [Hb1 ->]. rewrite St2 in *. unfold load_local in *. rewrite Hb in *. cbn [ans_of errs_of] in *.
        split; [reflexivity|]. split; [rewrite F2, Hb1; reflexivity|]. rewrite F6, He1, Er2. reflexivity.
    Qed.

    (* F: the missed link lies below the last link of the prefix, which the responder lacks: local only *)
    Lemma q_online_F x p c :
      qinv ns x -> aget c L = None -> u <> [] -> proper_prefix u p = true ->
      exists x', E x p c = (x', ASkip) /\ onl2 R (seen_after seen0 (map strip PN)) x' /\ mq2 x' = S' /\
        unf x' = u /\ x_store x' = L /\ x_errs x' = [EMissing p c].
    Proof.
      intros Hx Hb Hu1 Hu2. destruct (q_miss ns x p c Hx Hb) as (sch & lg & Eq). rewrite Eq.
      destruct (g_enter sch lg p c) as (chunks' & x2 & E2 & I2 & Q2 & U2 & St2 & Er2). rewrite E2.
      assert (Hc2 : stq x2 ++ concat chunks' = [] \/ (unf x2 <> [] /\ proper_prefix (unf x2) p = true)) by (right; rewrite U2; auto).
      destruct (lw_local R proper_prefix _ p c chunks' x2 I2 Hc2) as (x1 & E1 & Hp & Hu1' & Hs1 & He1).
      rewrite E1. destruct (post_onl2 R _ x1 _ Hp) as [Ho1 Hm1].
      pose proof Ho1 as (ch1 & _ & (Hs1' & Hc1' & _)).
      destruct (xfinish_ok p c x1 (load_local (x_store x2) p c) Hc1') as (x' & Ex & F1 & F2 & F3 & F4 & F5 & F6).
      rewrite Hs1' in F4.
      destruct (onl2_transfer R _ x1 x' Ho1 F1 F3 F4 F5) as (G1 & G2 & G3).
      rewrite St2 in *. unfold load_local in *. rewrite Hb in *. cbn [ans_of errs_of] in *.
      exists x'. split; [exact Ex|]. split; [exact G1|]. split; [rewrite G2, Hm1; exact Q2|]. split; [rewrite G3, Hu1'; exact U2|].
      split; [congruence|]. rewrite F6, He1, Er2. reflexivity.
    Qed.
  End Online.
End Quiet.
