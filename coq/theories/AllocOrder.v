(* AllocOrder.v — a stronger executable monitor of C14 (no proofs here).

   [monitor14] (Alloc.v) checks per-peer head order, the immediate-grant rule and the post-state
   [stable] of every call.  It does not check WHICH eligible head a grant of a release /
   release-peer call takes: a processPendingAllocations that keeps granting the same peer's backlog
   (passing over an earlier-requested eligible head of another peer) ends in a stable post-state and
   is accepted.  [monitor14x] adds the clause of the property text "… and no earlier-requested
   waiting allocation that fits its own peer's limit is still ahead of it":

     when an outcome [Granted t] of a release / release-peer call is applied (outcomes of one call
     are applied sorted by ticket), t must be the smallest ticket among the eligible waiting heads
     at that moment — the queue heads that fit their own peer's limit w.r.t. the current ledger —
     of the peers other than the one being released (whose waiting tickets all fail in that call).

   It also asks whether an error of a release / release-peer call was legitimate: [monitor14] accepts
   any step whose call returned an error; [monitor14x] requires that the peer then holds nothing and
   has nothing waiting ([idle_peer]) — the call can only fail for an unknown peer.  (The converse is
   not required: an idle status may linger.)

   [monitor14] / [monitor_C14] are unchanged; the apply step reuses [apply_outs14]. *)
From Coq Require Import List NArith Bool.
From GS Require Export Base Alloc.
Import ListNotations.
Open Scope N_scope.

Definition not_failing (f : option peer) (q : peer) : bool :=
  match f with Some fp => negb (N.eqb q fp) | None => true end.

(* eligible heads of the peers that are not being released *)
Definition elig_x (f : option peer) (mp : N) (w : waitq) (l : ledger) : list (ticket * peer * N) :=
  filter (fun x => not_failing f (snd (fst x))) (eligible_heads mp w l).

(* a grant takes the earliest-requested eligible head *)
Definition min_ok (f : option peer) (mp : N) (o : out) (w : waitq) (l : ledger) : bool :=
  match o with
  | Granted t => forallb (fun x => t <=? fst (fst x)) (elig_x f mp w l)
  | Failed _ => true
  end.

Fixpoint apply_outs14x (tk : tkt_info) (mp : N) (outs : list out) (w : waitq) (l : ledger)
         (failing : option peer) : option (waitq * ledger) :=
  match outs with
  | [] => Some (w, l)
  | o :: r =>
      if min_ok failing mp o w l then
        match apply_outs14 tk [o] w l failing with
        | Some (w', l') => apply_outs14x tk mp r w' l' failing
        | None => None
        end
      else None
  end.

(* a release / release-peer call may only return an error for a peer that holds nothing and has
   nothing waiting *)
Definition idle_peer (p : peer) (w : waitq) (l : ledger) : bool :=
  N.eqb (led_get p l) 0 && match wq_get p w with [] => true | _ => false end.

(* [monitor14] with [apply_outs14x] in place of [apply_outs14] and [idle_peer] on erroring calls *)
Fixpoint monitor14x (mt mp : N) (tk : tkt_info) (nt : ticket) (w : waitq) (l : ledger)
         (ops : list op) (obsl : list obs) : bool :=
  match ops, obsl with
  | [], [] => true
  | o :: ops', ob :: obs' =>
      let tk' := match o with OAlloc p a => (nt, (p, a)) :: tk | _ => tk end in
      let nt' := match o with OAlloc _ _ => nt + 1 | _ => nt end in
      match o with
      | OAlloc p a =>
          let now := match wq_get p w with [] => fits (led_sum l) a mt && fits (led_get p l) a mp
                                      | _ => false end in
          if now then
            list_eqb out_eqb (o_outs ob) [Granted nt] && negb (o_err ob) &&
            let l' := led_set p (led_get p l + a) l in
            stable mt mp w l' && monitor14x mt mp tk' nt' w l' ops' obs'
          else
            list_eqb out_eqb (o_outs ob) [] && negb (o_err ob) &&
            let w' := wq_set p (wq_get p w ++ [(nt, a)]) w in
            stable mt mp w' l && monitor14x mt mp tk' nt' w' l ops' obs'
      | ORelease p a =>
          if o_err ob then list_eqb out_eqb (o_outs ob) [] && idle_peer p w l &&
                           monitor14x mt mp tk' nt' w l ops' obs'
          else
            let cur := led_get p l in
            let l1 := led_set p (cur - (if a <=? cur then a else cur)) l in
            match apply_outs14x tk' mp (o_outs ob) w l1 None with
            | Some (w', l') => stable mt mp w' l' && monitor14x mt mp tk' nt' w' l' ops' obs'
            | None => false
            end
      | OReleasePeer p =>
          if o_err ob then list_eqb out_eqb (o_outs ob) [] && idle_peer p w l &&
                           monitor14x mt mp tk' nt' w l ops' obs'
          else
            let l1 := led_set p 0 l in
            match apply_outs14x tk' mp (o_outs ob) w l1 (Some p) with
            | Some (w', l') =>
                match wq_get p w' with [] => true | _ => false end &&
                stable mt mp w' l' && monitor14x mt mp tk' nt' w' l' ops' obs'
            | None => false
            end
      end
  | _, _ => false
  end.

Definition monitor_C14x (mt mp : N) (ops : list op) (obsl : list obs) : bool :=
  monitor14x mt mp [] 0 [] [] ops obsl.

(* entry point for cases_*.v (check MON14X) *)
Definition case_mon14x (c : acase) : bool := monitor_C14x (c_mt c) (c_mp c) (c_ops c) (c_obs c).
