(* C06Gen.v — C06, requestor side, responders that lack blocks: one executor iteration of a paused-and-resumed
   request in every phase (online; offline with or without stale queued items) for the two kinds of loads of
   the C02 simulation: a link whose entry is the head of the remaining (virtual) response, and a link below a
   link the responder lacks.  The ghost state: the remaining honest stream, the path tracker the never-paused
   run would have, the attempts so far and those the Verifier can reach. *)
From Coq Require Import List Arith NArith Bool Lia ZifyBool ZifyNat ZifyN.
From GS Require Import Base Ltree RecLoader ReqExec RecLoaderProofs C02Online C02Chunks C02Prefix C02Trie C02Replay C02Quiet C02PrefixProofs C02Contig.
From GS Require Import PauseExec PauseProofs C06Frame C06Stale C06After C06Trie C06Trie2 C06Again.
From GS Require Traffic TrafficProofs.
Import ListNotations.
Open Scope N_scope.
Local Arguments N.add : simpl never.

Lemma ulast_indep R V u1 u2 : (exists q c, In (q, c) V /\ pres R c = false) -> ulast R u1 V = ulast R u2 V.
Proof.
  revert u1 u2. induction V as [|[q c] V IH]; intros u1 u2 (q0 & c0 & Hin & Hp); [contradiction|].
  unfold ulast. cbn [fold_left fst snd]. fold (ulast R (if pres R c then u1 else q) V). fold (ulast R (if pres R c then u2 else q) V).
  destruct (pres R c) eqn:Ep; [|reflexivity]. apply IH. destruct Hin as [E|Hin]; [inversion E; subst; congruence|]. eauto.
Qed.
Lemma ulast_snoc R u V q c : ulast R u (V ++ [(q, c)]) = if pres R c then ulast R u V else q.
Proof. rewrite ulast_app. reflexivity. Qed.

Section Gen.
  Variable t0 : ltree.
  Variable R : store.
  Variable sizes : list nat.
  Hypothesis Hroot : aget (root_cid t0) R <> None.
  Notation E := (exec_ask proper_prefix (honest t0 R sizes) 0).
  Notation F0 := (fst (emit_tree R t0 [])).

  (* ---- the first attempt of a load that misses while offline ---- *)
  Definition missed (x x1 : xstate) (p : path) (c : cid) (ru : path) : Prop :=
    (exists l, load_call proper_prefix x p c = (x1, Some (RErr (EMissing p c) l))) /\
    x_sent x1 = false /\ x_cancelled x1 = false /\ x_feed x1 = [] /\ r_open (x_rl x1) = false /\
    x_store x1 = x_store x /\ x_errs x1 = x_errs x /\ unf x1 = ru.

  Lemma missed_rec x x1 p c ru : missed x x1 p c ru ->
    r_record (x_rl x1) = eff (x_rl x) /\ x_nblocks x1 = x_nblocks x /\
    exists rm, r_last (x_rl x1) = Some {| a_path := p; a_link := c; a_ok := false; a_remote := rm |}.
  Proof.
    intros ((l & El) & _). destruct (load_call_rec proper_prefix x p c x1 _ El) as [Hr (u & Hl)].
    split; [exact Hr|]. split; [|exists u; exact Hl].
    destruct (TrafficProofs.load_call_grows proper_prefix _ _ _ _ _ El) as (_ & Nb & _). exact Nb.
  Qed.

  Lemma try_closed_miss x p c :
    offl x -> stq x = [] -> aget c (x_store x) = None -> exists x1, missed x x1 p c (unf x).
  Proof.
    intros (Hs & Hc & Hf & Ho & Hl) Hq Hb. unfold stq, unf in *.
    destruct (bro_start_lon (x_rl x) Hl) as (Hl1 & Hq1 & Hu1 & Ho1).
    destruct (bro_try_closed proper_prefix (bro_start (x_rl x)) (x_store x) p c Hl1) as (r' & Et & Hl' & Hq' & Hu' & Ho').
    { now rewrite Hq1. } { now rewrite Ho1. }
    unfold load_local in Et. rewrite Hb in Et.
    destruct (load_call_nofeed x p c _ _ _ Hf Et) as (x1 & E1 & F1 & F2 & F3 & F4 & F5 & F6).
    exists x1. unfold missed, unf. rewrite F1, F2, F3, F4, F5, F6, Hu', Hu1, Ho'. split; [eexists; exact E1|]. auto 10.
  Qed.

  Lemma try_below_miss x p c h t' :
    offl x -> stq x = h :: t' -> unf x <> [] -> proper_prefix (unf x) p = true -> aget c (x_store x) = None ->
    exists x1, missed x x1 p c (unf x).
  Proof.
    intros (Hs & Hc & Hf & Ho & Hl) Hq Hu Hb Hg. unfold stq, unf in *.
    destruct (bro_start_lon (x_rl x) Hl) as (Hl1 & Hq1 & Hu1 & Ho1).
    destruct (bro_try_below2 proper_prefix (bro_start (x_rl x)) (x_store x) p c h t' Hl1) as (r' & Et & Hl' & Hq' & Hu' & Ho').
    { now rewrite Hq1. } { now rewrite Hu1. } { now rewrite Hu1. }
    unfold load_local in Et. rewrite Hg in Et.
    destruct (load_call_nofeed x p c _ _ _ Hf Et) as (x1 & E1 & F1 & F2 & F3 & F4 & F5 & F6).
    exists x1. unfold missed, unf. rewrite F1, F2, F3, F4, F5, F6, Hu', Hu1, Ho', Ho1. split; [eexists; exact E1|]. auto 10.
  Qed.

  Lemma try_head_miss x p c h t' :
    offl x -> stq x = h :: t' -> (unf x = [] \/ proper_prefix (unf x) p = false) -> i_link h = c -> i_blk h = None ->
    aget c (x_store x) = None ->
    exists x1, missed x x1 p c (if did_follow (i_act h) then [] else p).
  Proof.
    intros (Hs & Hc & Hf & Ho & Hl) Hq Hu Hlk Hblk Hg. unfold stq, unf in *.
    destruct (bro_start_lon (x_rl x) Hl) as (Hl1 & Hq1 & Hu1 & Ho1).
    destruct (bro_try_head2 proper_prefix (bro_start (x_rl x)) (x_store x) p c h t' Hl1) as (r' & st' & res & Et & Hl' & Hq' & Ho' & Hu' & Hb).
    { now rewrite Hq1. } { now rewrite Hu1. } { exact Hlk. }
    rewrite Hblk in Hb. destruct Hb as [-> ->]. unfold load_local in Et. rewrite Hg in Et.
    destruct (load_call_nofeed x p c _ _ _ Hf Et) as (x1 & E1 & F1 & F2 & F3 & F4 & F5 & F6).
    exists x1. unfold missed, unf. rewrite F1, F2, F3, F4, F5, F6, Hu', Ho', Ho1. split; [eexists; exact E1|]. auto 10.
  Qed.

  (* ---- online again, then the load itself ---- *)
  Section AgainLoad.
    Variables (x x1 : xstate) (p : path) (c : cid) (ru : path).
    Variables (A : list att) (V : list (path * cid)) (PN vq : list item).
    Hypothesis Hm : missed x x1 p c ru.
    Hypothesis Heff : eff (x_rl x) = trie_att A.
    Hypothesis Hnb : x_nblocks x = N.of_nat (nok A).
    Hypothesis HF : F0 = PN ++ vq.
    Hypothesis Hstr : map strip PN = map (ent R) V.
    Hypothesis Hrec : rec_ok R A V.
    Hypothesis Hle : (nok A <= length V)%nat.

    Lemma again_enter :
      exists sX chunks' x2,
        E x p c = xfinish p c (load_wait proper_prefix (mkfeed chunks') x2 p c) /\
        inv2 R sX chunks' x2 /\ (forall c0, existsb (N.eqb c0) sX = existsb (N.eqb c0) (seen_after [] PN)) /\
        stq x2 ++ concat chunks' = vq /\ unf x2 = ulast R ru V /\ x_store x2 = x_store x /\ x_errs x2 = x_errs x.
    Proof.
      destruct (missed_rec x x1 p c ru Hm) as (Hr & Hn & (rm & Hl)).
      destruct Hm as ((l & El) & Hs & Hc & Hf & Ho & Hst & Her & Hu).
      destruct (rec_ok_replay R A V Hrec) as (vf & HRP).
      assert (Hlen : (nok A <= length PN)%nat) by (rewrite <- (map_length strip PN), Hstr, map_length; exact Hle).
      destruct (requested_again t0 R sizes x1 p c rm (trie_att A) (nok A) PN vq V vf Hs Hc Hf Ho Hl
                  ltac:(congruence) ltac:(congruence) Hroot HF Hlen Hstr HRP) as (sX & chunks' & x2 & E2 & I2 & X2 & Q2 & U2 & S2 & R2).
      exists sX, chunks', x2. rewrite (exec_miss t0 R sizes x p c x1 p c l El Hs Hc), E2.
      split; [reflexivity|]. split; [exact I2|]. split; [exact X2|]. split; [exact Q2|]. split; [congruence|]. split; congruence.
    Qed.

    Lemma again_head h t :
      vq = h :: t -> i_link h = c -> (ulast R ru V = [] \/ proper_prefix (ulast R ru V) p = false) ->
      exists sX x' res, E x p c = (x', ans_of res) /\ x_sent x' = true /\ onl2 R (seen_step h sX) x' /\
        (forall c0, existsb (N.eqb c0) sX = existsb (N.eqb c0) (seen_after [] PN)) /\
        mq2 x' = t /\ unf x' = (if did_follow (i_act h) then [] else p) /\
        match i_blk h with
        | Some b => x_store x' = aput c b (x_store x) /\ res = RData b false /\ x_errs x' = x_errs x
        | None => x_store x' = x_store x /\ res = load_local (x_store x) p c /\ x_errs x' = x_errs x ++ errs_of res
        end.
    Proof.
      intros Hvq Hlk Hu. destruct again_enter as (sX & chunks' & x2 & Ee & I2 & X2 & Q2 & U2 & S2 & R2).
      rewrite Hvq in Q2.
      assert (Hu2 : unf x2 = [] \/ proper_prefix (unf x2) p = false) by (rewrite U2; exact Hu).
      destruct (lw_head R proper_prefix _ p c chunks' x2 h t I2 Q2 Hu2 Hlk) as (x1' & res & E1 & Hp & Hu1 & He1 & Hbk).
      rewrite E1 in Ee. destruct (post_onl2 R _ x1' _ Hp) as [Ho1 Hm1].
      pose proof Ho1 as (ch1 & _ & (Hs1' & Hc1' & _)).
      destruct (xfinish_ok p c x1' res Hc1') as (x' & Ex & F1 & F2 & F3 & F4 & F5 & F6).
      rewrite Hs1' in F4.
      destruct (onl2_transfer R _ x1' x' Ho1 F1 F3 F4 F5) as (G1 & G2 & G3).
      exists sX, x', res. rewrite Ee. split; [exact Ex|]. split; [exact F4|]. split; [exact G1|]. split; [exact X2|].
      split; [now rewrite G2|]. split; [now rewrite G3|].
      destruct (i_blk h) as [b|].
      - destruct Hbk as [Hb1 ->]. cbn [errs_of] in F6. rewrite app_nil_r in F6.
        split; [rewrite F2, Hb1, S2; reflexivity|]. split; [reflexivity|]. rewrite F6, He1, R2. reflexivity.
      - destruct Hbk as [Hb1 ->]. rewrite S2 in *. split; [rewrite F2, Hb1; reflexivity|]. split; [reflexivity|].
        rewrite F6, He1, R2. reflexivity.
    Qed.

    Lemma again_local :
      ulast R ru V <> [] -> proper_prefix (ulast R ru V) p = true ->
      exists sX x', E x p c = (x', local_ans (x_store x) c) /\ x_sent x' = true /\ onl2 R sX x' /\
        (forall c0, existsb (N.eqb c0) sX = existsb (N.eqb c0) (seen_after [] PN)) /\
        mq2 x' = vq /\ unf x' = ulast R ru V /\ x_store x' = x_store x /\
        x_errs x' = x_errs x ++ local_errs (x_store x) p c.
    Proof.
      intros Hu1 Hu2. destruct again_enter as (sX & chunks' & x2 & Ee & I2 & X2 & Q2 & U2 & S2 & R2).
      assert (Hc2 : stq x2 ++ concat chunks' = [] \/ (unf x2 <> [] /\ proper_prefix (unf x2) p = true)) by (right; rewrite U2; auto).
      destruct (lw_local R proper_prefix _ p c chunks' x2 I2 Hc2) as (x1' & E1 & Hp & Hu1' & Hs1 & He1).
      rewrite E1 in Ee. destruct (post_onl2 R _ x1' _ Hp) as [Ho1 Hm1].
      pose proof Ho1 as (ch1 & _ & (Hs1' & Hc1' & _)).
      destruct (xfinish_ok p c x1' (load_local (x_store x2) p c) Hc1') as (x' & Ex & F1 & F2 & F3 & F4 & F5 & F6).
      rewrite Hs1' in F4.
      destruct (onl2_transfer R _ x1' x' Ho1 F1 F3 F4 F5) as (G1 & G2 & G3).
      destruct (load_local_ans (x_store x2) p c) as [A1 A2]. rewrite S2 in *.
      exists sX, x'. rewrite Ee, <- A1. split; [exact Ex|]. split; [exact F4|]. split; [exact G1|]. split; [exact X2|].
      split; [rewrite G2, Hm1; exact Q2|]. split; [rewrite G3, Hu1'; exact U2|]. split; [congruence|].
      rewrite F6, He1, R2, A2. reflexivity.
    Qed.
  End AgainLoad.
End Gen.

Definition ans_ok (a : ans) : bool := match a with AOk => true | _ => false end.
Lemma nok_snoc A p c ok : nok (A ++ [(p, c, ok)]) = (nok A + (if ok then 1 else 0))%nat.
Proof. unfold nok. rewrite filter_app, app_length. cbn [filter snd]. destruct ok; reflexivity. Qed.

Section Phases.
  Variable t0 : ltree.
  Variable R : store.
  Variable sizes : list nat.
  Hypothesis Hroot : aget (root_cid t0) R <> None.
  Notation E := (exec_ask proper_prefix (honest t0 R sizes) 0).
  Notation F0 := (fst (emit_tree R t0 [])).

  Definition ruok (V : list (path * cid)) (ru : path) : Prop := ru = [] \/ exists c, In (ru, c) V /\ pres R c = false.
  Definition base2 (A : list att) (V : list (path * cid)) (PN vq : list item) (seen : list cid) (vu : path) (x : xstate) : Prop :=
    x_cancelled x = false /\ eff (x_rl x) = trie_att A /\ x_nblocks x = N.of_nat (nok A) /\
    F0 = PN ++ vq /\ map strip PN = map (ent R) V /\
    (forall c, existsb (N.eqb c) seen = existsb (N.eqb c) (seen_after [] PN)) /\
    covers (x_store x) seen /\ agree R (x_store x) /\ rec_ok R A V /\ (nok A <= length V)%nat /\
    (vu = [] \/ ulast R [] V = vu) /\ (forall q c, In (q, c) V -> exists ok, In (q, c, ok) A).
  Definition phA2 (seen : list cid) (vq : list item) (vu : path) (x : xstate) : Prop :=
    x_sent x = true /\ onl2 R seen x /\ mq2 x = vq /\ unf x = vu.
  Definition phO2 (seen : list cid) (vq : list item) (vu : path) (V : list (path * cid)) (x : xstate) : Prop :=
    offl x /\ (exists dropped, vq = stq x ++ dropped) /\ eok R seen (stq x) /\ (stq x <> [] -> unf x = vu) /\ ruok V (unf x).
  Definition PG2 (seen : list cid) (vq : list item) (vu : path) (A : list att) (V : list (path * cid)) (x : xstate) : Prop :=
    (exists PN, base2 A V PN vq seen vu x) /\ (phA2 seen vq vu x \/ phO2 seen vq vu V x).

  (* the entry of link c at the head of the honest stream *)
  Definition is_head (h : item) (c : cid) (seen : list cid) : Prop :=
    i_link h = c /\
    ((i_act h = Present /\ exists b, aget c R = Some b /\ i_blk h = if negb (existsb (N.eqb c) seen) then Some b else None) \/
     (i_act h = Missing /\ aget c R = None /\ i_blk h = None)).

  Lemma ruok_mono V V' ru : ruok V ru -> ruok (V ++ V') ru.
  Proof. intros [H|(c & Hin & Hp)]; [now left | right; exists c; split; [apply in_app_iff; now left | exact Hp]]. Qed.
  Lemma ruok_ulast V ru : ruok V ru -> ruok V (ulast R ru V).
  Proof.
    intro H. destruct (ulast_cases R V ru) as [E|(c & Hin & Hp)]; [now rewrite E | right; exists c; auto].
  Qed.

  (* the stale head of the queue is consumed while offline *)
  Lemma o_head2 x p c h t' :
    offl x -> stq x = h :: t' -> (unf x = [] \/ proper_prefix (unf x) p = false) -> i_link h = c ->
    (i_blk h <> None \/ aget c (x_store x) <> None) ->
    exists x', E x p c = (x', AOk) /\ offl x' /\ stq x' = t' /\ unf x' = (if did_follow (i_act h) then [] else p) /\
               x_store x' = (match i_blk h with Some b => aput c b (x_store x) | None => x_store x end) /\
               x_errs x' = x_errs x.
  Proof.
    intros (Hs & Hc & Hf & Ho & Hl) Hq Hu Hlk Hav. unfold stq, unf in *.
    destruct (bro_start_lon (x_rl x) Hl) as (Hl1 & Hq1 & Hu1 & Ho1).
    destruct (bro_try_head2 proper_prefix (bro_start (x_rl x)) (x_store x) p c h t' Hl1) as (r' & st' & res & Et & Hl' & Hq' & Ho' & Hu' & Hb).
    { now rewrite Hq1. } { now rewrite Hu1. } { exact Hlk. }
    assert (Hres : exists b l, res = RData b l /\ st' = (match i_blk h with Some b => aput c b (x_store x) | None => x_store x end)).
    { destruct (i_blk h) as [b|].
      - destruct Hb as [-> ->]. eauto.
      - destruct Hb as [-> ->]. destruct Hav as [Hav|Hav]; [congruence|]. unfold load_local.
        destruct (aget c (x_store x)) as [b0|]; [eauto | congruence]. }
    destruct Hres as (b & l & -> & Est).
    destruct (load_call_nofeed x p c _ _ _ Hf Et) as (x1 & E1 & F1 & F2 & F3 & F4 & F5 & F6).
    destruct (exec_data t0 R sizes x p c x1 b l E1) as (x' & Ex & G1 & G2 & G3 & G4 & G5 & G6).
    exists x'. split; [exact Ex|]. unfold offl. rewrite G1, G2, G3, G4, G5, G6, F1, F2, F3, F4, F5, F6, Hq', Ho', Ho1, Hu'.
    split; [split; [exact Hs|split; [exact Hc|split; [reflexivity|split; [exact Ho|exact Hl']]]]|].
    split; [reflexivity|]. split; [reflexivity|]. split; [exact Est | reflexivity].
  Qed.

  Lemma head_facts h c seen st :
    is_head h c seen -> covers st seen -> agree R st ->
    pres R c = did_follow (i_act h) /\ (forall p : path, strip h = ent R (p, c)) /\
    (i_blk h <> None \/ aget c st <> None \/ (i_act h = Missing /\ aget c st = None)) /\
    (forall st', st' = (match i_blk h with Some b => aput c b st | None => st end) ->
       (i_act h = Present -> i_blk h = None -> True) ->
       (i_act h = Present -> aget c st' <> None) -> covers st' (seen_step h seen) /\ agree R st').
  Proof.
    intros [Hlk [(Ha & b & ER & Hb)|(Ha & ER & Hb)]] Hcov Hag; unfold strip, ent, seen_step, pres; cbn [snd]; rewrite Ha, ER, Hlk; cbn [did_follow].
    - split; [reflexivity|]. split; [reflexivity|]. split.
      + rewrite Hb. destruct (existsb (N.eqb c) seen) eqn:Es; cbn [negb]; [right; left | left; discriminate].
        apply existsb_eqb_in' in Es. now apply Hcov.
      + intros st' Est _ Hin. rewrite Hb in Est. destruct (existsb (N.eqb c) seen) eqn:Es; cbn [negb] in Est; subst st'.
        * split; [|exact Hag]. apply covers_mono; [exact Hcov|]. apply existsb_eqb_in' in Es. now apply Hcov.
        * split; [now apply covers_aput | now apply agree_aput].
    - split; [reflexivity|]. split; [reflexivity|]. split.
      + destruct (aget c st) eqn:Eg; [right; left; discriminate | right; right; auto].
      + intros st' Est _ _. rewrite Hb in Est. subst st'. auto.
  Qed.
End Phases.

Section Steps.
  Variable t0 : ltree.
  Variable R : store.
  Variable sizes : list nat.
  Hypothesis Hroot : aget (root_cid t0) R <> None.
  Notation E := (exec_ask proper_prefix (honest t0 R sizes) 0).
  Notation F0 := (fst (emit_tree R t0 [])).

  (* ---- a link the responder's traversal reaches: its entry is the head of the remaining stream ---- *)
  Lemma estepT seen h t vu A V x p c :
    PG2 t0 R seen (h :: t) vu A V x -> is_head R h c seen -> (vu = [] \/ proper_prefix vu p = false) ->
    orderedb (pcs A ++ [(p, c)]) = true -> contigb (pcs A ++ [(p, c)]) = true ->
    (forall q c' ok', In (q, c', ok') A -> pres R c' = false -> proper_prefix q p = false) ->
    exists x' a, E x p c = (x', a) /\
      PG2 t0 R (seen_step h seen) t (if did_follow (i_act h) then [] else p) (A ++ [(p, c, ans_ok a)]) (V ++ [(p, c)]) x' /\
      match i_blk h with
      | Some b => a = AOk /\ x_store x' = aput c b (x_store x) /\ x_errs x' = x_errs x
      | None => a = local_ans (x_store x) c /\ x_store x' = x_store x /\ x_errs x' = x_errs x ++ local_errs (x_store x) p c
      end.
  Proof.
    intros [(PN & B) Hph] Hh Hvu Ho Hc HM.
    destruct B as (B1 & B2 & B3 & B4 & B5 & B6 & B7 & B8 & B9 & B10 & B11 & B12).
    pose proof Hh as [Hlk _].
    destruct (head_facts R h c seen (x_store x) Hh B7 B8) as (Hpres & Hstrip & Hav & Hcov).
    set (vu' := if did_follow (i_act h) then [] else p).
    (* the invariant afterwards, whichever way the step went *)
    assert (Hpost : forall x' a, E x p c = (x', a) -> (a = AOk \/ a = ASkip) -> (pres R c = true -> a = AOk) ->
              x_cancelled x' = false -> covers (x_store x') (seen_step h seen) -> agree R (x_store x') ->
              exists PN', base2 t0 R (A ++ [(p, c, ans_ok a)]) (V ++ [(p, c)]) PN' t (seen_step h seen) vu' x').
    { intros x' a Ee Ha Hpa Hcan Hcv Hag. exists (PN ++ [h]).
      destruct (exec_frame proper_prefix (honest t0 R sizes) 0 x p c x' a Ee Ha) as [F1 F2].
      assert (Eok : (match a with AOk => true | _ => false end) = ans_ok a) by reflexivity.
      unfold base2. split; [exact Hcan|]. split; [rewrite F1, B2, trie_att_snoc, Eok; reflexivity|].
      split; [rewrite F2, B3, nok_snoc; destruct a; cbn [ans_ok]; lia|].
      split; [rewrite B4, <- app_assoc; reflexivity|].
      split; [rewrite !map_app, B5; cbn [map]; now rewrite (Hstrip p)|].
      split; [intro c0; rewrite seen_after_app; cbn [seen_after]; unfold seen_step; destruct (i_act h); cbn [existsb]; now rewrite ?B6|].
      split; [exact Hcv|]. split; [exact Hag|].
      split; [apply rec_ok_visible; auto; intro Hp; rewrite (Hpa Hp); reflexivity|].
      split; [rewrite nok_snoc, app_length; cbn [length]; destruct (ans_ok a); lia|].
      split.
      - unfold vu'. rewrite ulast_snoc, <- Hpres. destruct (pres R c); [now left | now right].
      - intros q c0 Hin. apply in_app_iff in Hin as [Hin|[Hin|[]]].
        + destruct (B12 q c0 Hin) as (ok & Hok). exists ok. apply in_app_iff. now left.
        + inversion Hin; subst. exists (ans_ok a). apply in_app_iff. right. now left. }
    (* the answer and the store in terms of the entry *)
    assert (Hans : forall a st', match i_blk h with
                                 | Some b => a = AOk /\ st' = aput c b (x_store x)
                                 | None => a = local_ans (x_store x) c /\ st' = x_store x
                                 end ->
                   (a = AOk \/ a = ASkip) /\ (pres R c = true -> a = AOk) /\ covers st' (seen_step h seen) /\ agree R st').
    { intros a st' Hb.
      assert (Est : st' = match i_blk h with Some b => aput c b (x_store x) | None => x_store x end)
        by (destruct (i_blk h); destruct Hb; assumption).
      assert (Hin : i_act h = Present -> aget c st' <> None).
      { intro Hact. destruct (i_blk h) as [b|] eqn:Eb.
        - destruct Hb as [_ ->]. rewrite aget_aput_eq. discriminate.
        - destruct Hb as [_ ->]. destruct Hav as [Hav|[Hav|[Hm _]]]; [congruence | exact Hav | congruence]. }
      destruct (Hcov st' Est (fun _ _ => I) Hin) as [Hcv Hag]. split; [|split; [|split; [exact Hcv | exact Hag]]].
      - destruct (i_blk h); destruct Hb as [-> _]; [now left|]. unfold local_ans. destruct (aget c (x_store x)); auto.
      - intro Hp. rewrite Hpres in Hp. destruct (i_blk h) as [b|] eqn:Eb; destruct Hb as [-> Hs]; [reflexivity|].
        unfold local_ans. destruct Hav as [Hav|[Hav|[Hm _]]]; [congruence | | destruct (i_act h); discriminate].
        destruct (aget c (x_store x)); [reflexivity | congruence]. }
    destruct Hph as [(Hs & Hon & Hm & Hu)|(HO & (dropped & Hdr) & Hok & Hqu & Hru)].
    - (* online *)
      destruct (H_head2 R proper_prefix (honest t0 R sizes) 0 seen x p c h t Hon Hm ltac:(rewrite Hu; exact Hvu) Hlk) as (x' & a & Ee & Ho' & Hm' & Hu' & Hb).
      pose proof Ho' as (ch & _ & (Hs' & Hc' & _)).
      destruct (Hans a (x_store x') ltac:(destruct (i_blk h); destruct Hb as (? & ? & ?); auto)) as (Ha & Hpa & Hcv & Hag).
      exists x', a. split; [exact Ee|]. split; [|exact Hb].
      split; [apply (Hpost x' a Ee Ha Hpa Hc' Hcv Hag)|]. left. unfold phA2. auto.
    - destruct (stq x) as [|h0 t0'] eqn:Eq.
      + (* nothing queued *)
        cbn [app] in Hdr. subst dropped.
        destruct (aget c (x_store x)) as [b0|] eqn:Eg.
        * (* held locally *)
          destruct (o_local t0 R sizes x p c b0 HO Eq Eg) as (x' & Ee & HO' & Hq' & Hu' & Hs' & He').
          assert (Hb : match i_blk h with
                       | Some b => AOk = AOk /\ x_store x' = aput c b (x_store x) /\ x_errs x' = x_errs x
                       | None => AOk = local_ans (x_store x) c /\ x_store x' = x_store x /\ x_errs x' = x_errs x ++ local_errs (x_store x) p c
                       end).
          { destruct Hh as [_ [(Ha & b & ER & Hb)|(Ha & ER & Hb)]]; rewrite Hb.
            - destruct (negb (existsb (N.eqb c) seen)).
              + split; [reflexivity|]. split; [|exact He']. rewrite Hs'. rewrite (B8 c b0 b Eg ER) in Eg. now rewrite (aput_same c b _ Eg).
              + unfold local_ans, local_errs. rewrite Eg, app_nil_r. auto.
            - unfold local_ans, local_errs. rewrite Eg, app_nil_r. auto. }
          pose proof HO' as (_ & Hc' & _).
          destruct (Hans AOk (x_store x') ltac:(destruct (i_blk h); destruct Hb as (? & ? & ?); auto)) as (Ha & Hpa & Hcv & Hag).
          exists x', AOk. split; [exact Ee|]. split; [|exact Hb].
          split; [apply (Hpost x' AOk Ee Ha Hpa Hc' Hcv Hag)|]. right. unfold phO2. rewrite Hq', Hu'.
          split; [exact HO'|]. split; [exists t; reflexivity|]. split; [exact I|]. split; [congruence | now apply ruok_mono].
        * (* online again *)
          destruct (try_closed_miss x p c HO Eq Eg) as (x1 & Hmiss).
          assert (Hu2 : ulast R (unf x) V = [] \/ proper_prefix (ulast R (unf x) V) p = false).
          { destruct (ruok_ulast R V (unf x) Hru) as [E0|(c1 & Hin & Hp1)]; [now left | right].
            destruct (B12 _ c1 Hin) as (ok1 & Hin1). apply (HM _ c1 ok1 Hin1 Hp1). }
          destruct (again_head t0 R sizes Hroot x x1 p c (unf x) A V PN (h :: t) Hmiss B2 B3 B4 B5 B9 B10 h t eq_refl Hlk Hu2)
            as (sX & x' & res & Ee & Hs' & Ho' & HX & Hm' & Hu' & Hb).
          pose proof Ho' as (ch & _ & (_ & Hc' & _)).
          assert (Hb' : match i_blk h with
                        | Some b => ans_of res = AOk /\ x_store x' = aput c b (x_store x) /\ x_errs x' = x_errs x
                        | None => ans_of res = local_ans (x_store x) c /\ x_store x' = x_store x /\ x_errs x' = x_errs x ++ local_errs (x_store x) p c
                        end).
          { destruct (i_blk h) as [b|]; destruct Hb as (Hb1 & -> & Hb3); [auto|].
            destruct (load_local_ans (x_store x) p c) as [A1 A2]. rewrite A1. rewrite A2 in Hb3. auto. }
          destruct (Hans (ans_of res) (x_store x') ltac:(destruct (i_blk h); destruct Hb' as (? & ? & ?); auto)) as (Ha & Hpa & Hcv & Hag).
          exists x', (ans_of res). split; [exact Ee|]. split; [|exact Hb'].
          split; [apply (Hpost x' _ Ee Ha Hpa Hc' Hcv Hag)|]. left. unfold phA2. split; [exact Hs'|]. split; [|auto].
          apply (onl2_ext R (seen_step h sX) (seen_step h seen) x'); [|exact Ho'].
          apply seen_step_ext. intro c0. now rewrite HX, B6.
      + (* the head of what is still queued *)
        cbn [app] in Hdr. injection Hdr as <- Ht.
        assert (Hur : unf x = vu) by (apply Hqu; discriminate).
        assert (Hu0 : unf x = [] \/ proper_prefix (unf x) p = false) by (rewrite Hur; exact Hvu).
        destruct Hav as [Hav|[Hav|(Hmis & Hnl)]].
        * destruct (o_head2 t0 R sizes x p c h t0' HO Eq Hu0 Hlk (or_introl Hav)) as (x' & Ee & HO' & Hq' & Hu' & Hs' & He').
          destruct (i_blk h) as [b|] eqn:Eb; [|congruence].
          assert (Hb : AOk = AOk /\ x_store x' = aput c b (x_store x) /\ x_errs x' = x_errs x) by auto.
          pose proof HO' as (_ & Hc' & _).
          destruct (Hans AOk (x_store x') (conj eq_refl Hs')) as (Ha & Hpa & Hcv & Hag).
          exists x', AOk. split; [exact Ee|]. split; [|exact Hb].
          split; [apply (Hpost x' AOk Ee Ha Hpa Hc' Hcv Hag)|]. right. unfold phO2. rewrite Hq', Hu'.
          split; [exact HO'|]. split; [exists dropped; exact Ht|].
          split; [|split; [reflexivity|]].
          -- cbn [eok] in Hok. unfold seen_step. destruct (i_act h); try contradiction.
             ++ destruct Hok as (b' & _ & _ & Hok). exact Hok.
             ++ destruct Hok as (_ & _ & Hok). exact Hok.
          -- destruct (did_follow (i_act h)) eqn:Ef; [now left | right]. exists c. split; [apply in_app_iff; right; now left|].
             congruence.
        * destruct (o_head2 t0 R sizes x p c h t0' HO Eq Hu0 Hlk (or_intror Hav)) as (x' & Ee & HO' & Hq' & Hu' & Hs' & He').
          assert (Hb : match i_blk h with
                       | Some b => AOk = AOk /\ x_store x' = aput c b (x_store x) /\ x_errs x' = x_errs x
                       | None => AOk = local_ans (x_store x) c /\ x_store x' = x_store x /\ x_errs x' = x_errs x ++ local_errs (x_store x) p c
                       end).
          { destruct (i_blk h) as [b|]; [auto|]. unfold local_ans, local_errs. destruct (aget c (x_store x)); [|congruence]. rewrite app_nil_r. auto. }
          pose proof HO' as (_ & Hc' & _).
          destruct (Hans AOk (x_store x') ltac:(destruct (i_blk h); destruct Hb as (? & ? & ?); auto)) as (Ha & Hpa & Hcv & Hag).
          exists x', AOk. split; [exact Ee|]. split; [|exact Hb].
          split; [apply (Hpost x' AOk Ee Ha Hpa Hc' Hcv Hag)|]. right. unfold phO2. rewrite Hq', Hu'.
          split; [exact HO'|]. split; [exists dropped; exact Ht|].
          split; [|split; [reflexivity|]].
          -- cbn [eok] in Hok. unfold seen_step. destruct (i_act h); try contradiction.
             ++ destruct Hok as (b' & _ & _ & Hok). exact Hok.
             ++ destruct Hok as (_ & _ & Hok). exact Hok.
          -- destruct (did_follow (i_act h)) eqn:Ef; [now left | right]. exists c. split; [apply in_app_iff; right; now left|].
             congruence.
        * (* the responder lacks it, so does the requestor: the stale entry is consumed, then online again *)
          assert (Hblk : i_blk h = None).
          { destruct Hh as [_ [(Ha & _)|(_ & _ & Hb)]]; [congruence | exact Hb]. }
          destruct (try_head_miss x p c h t0' HO Eq Hu0 Hlk Hblk Hnl) as (x1 & Hmiss).
          rewrite Hmis in Hmiss. cbn [did_follow] in Hmiss.
          assert (Hu2 : ulast R p V = [] \/ proper_prefix (ulast R p V) p = false).
          { right. destruct (ulast_cases R V p) as [E0|(c1 & Hin & Hp1)]; [rewrite E0; apply pp_irrefl|].
            destruct (B12 _ c1 Hin) as (ok1 & Hin1). apply (HM _ c1 ok1 Hin1 Hp1). }
          destruct (again_head t0 R sizes Hroot x x1 p c p A V PN (h :: t) Hmiss B2 B3 B4 B5 B9 B10 h t eq_refl Hlk Hu2)
            as (sX & x' & res & Ee & Hs' & Ho' & HX & Hm' & Hu' & Hb).
          pose proof Ho' as (ch & _ & (_ & Hc' & _)).
          rewrite Hblk in Hb |- *. destruct Hb as (Hb1 & -> & Hb3).
          destruct (load_local_ans (x_store x) p c) as [A1 A2]. rewrite A2 in Hb3.
          assert (Hb' : local_ans (x_store x) c = local_ans (x_store x) c /\ x_store x' = x_store x /\
                        x_errs x' = x_errs x ++ local_errs (x_store x) p c) by auto.
          rewrite A1 in Ee.
          destruct (Hans (local_ans (x_store x) c) (x_store x') ltac:(rewrite Hblk; auto)) as (Ha & Hpa & Hcv & Hag).
          exists x', (local_ans (x_store x) c). split; [exact Ee|]. split; [|exact Hb'].
          split; [apply (Hpost x' _ Ee Ha Hpa Hc' Hcv Hag)|]. left. unfold phA2. split; [exact Hs'|]. split; [|auto].
          apply (onl2_ext R (seen_step h sX) (seen_step h seen) x'); [|exact Ho'].
          apply seen_step_ext. intro c0. now rewrite HX, B6.
  Qed.

  (* ---- a link below a link the responder lacks, not held locally ---- *)
  Lemma estepF seen vq vu A V x p c :
    PG2 t0 R seen vq vu A V x -> vu <> [] -> proper_prefix vu p = true -> aget c (x_store x) = None ->
    orderedb (pcs A ++ [(p, c)]) = true -> contigb (pcs A ++ [(p, c)]) = true ->
    exists x', E x p c = (x', ASkip) /\ PG2 t0 R seen vq vu (A ++ [(p, c, false)]) V x' /\
               x_store x' = x_store x /\ x_errs x' = x_errs x ++ [EMissing p c].
  Proof.
    intros [(PN & B) Hph] Hvu Hpp Hg Ho Hc.
    destruct B as (B1 & B2 & B3 & B4 & B5 & B6 & B7 & B8 & B9 & B10 & B11 & B12).
    assert (Hul : ulast R [] V = vu) by (destruct B11 as [B11|B11]; [congruence | exact B11]).
    assert (Hmis : exists c1, In (vu, c1) V /\ pres R c1 = false).
    { destruct (ulast_cases R V []) as [E0|(c1 & Hin & Hp1)]; [congruence|]. rewrite Hul in Hin. eauto. }
    destruct Hmis as (c1 & Hin1 & Hp1). destruct (B12 vu c1 Hin1) as (ok1 & HinA).
    assert (Hind : forall ru, ulast R ru V = vu) by (intro ru; rewrite <- Hul; apply ulast_indep; eauto).
    assert (Hla : local_ans (x_store x) c = ASkip /\ local_errs (x_store x) p c = [EMissing p c]) by (unfold local_ans, local_errs; now rewrite Hg).
    destruct Hla as [Hla Hle].
    assert (Hpost : forall x', E x p c = (x', ASkip) -> x_cancelled x' = false -> x_store x' = x_store x ->
              exists PN', base2 t0 R (A ++ [(p, c, false)]) V PN' vq seen vu x').
    { intros x' Ee Hcan Hst. exists PN.
      destruct (exec_frame proper_prefix (honest t0 R sizes) 0 x p c x' ASkip Ee (or_intror eq_refl)) as [F1 F2].
      unfold base2. rewrite Hst. split; [exact Hcan|]. split; [rewrite F1, B2, trie_att_snoc; reflexivity|].
      split; [rewrite F2, B3, nok_snoc; cbn; lia|]. split; [exact B4|]. split; [exact B5|]. split; [exact B6|].
      split; [exact B7|]. split; [exact B8|].
      split; [apply (rec_ok_invisible R A V p c false vu c1 ok1); auto|].
      split; [rewrite nok_snoc; cbn; lia|]. split; [exact B11|].
      intros q c0 Hin. destruct (B12 q c0 Hin) as (ok & Hok). exists ok. apply in_app_iff. now left. }
    destruct Hph as [(Hs & Hon & Hm & Hu)|(HO & (dropped & Hdr) & Hok & Hqu & Hru)].
    - destruct (H_local2 R proper_prefix (honest t0 R sizes) 0 seen x p c Hon) as (x' & Ee & Ho' & Hm' & Hu' & Hs' & He').
      { right. rewrite Hu. auto. }
      rewrite Hla in Ee. rewrite Hle in He'.
      pose proof Ho' as (ch & _ & (Hs1 & Hc' & _)).
      exists x'. split; [exact Ee|]. split; [|auto].
      split; [apply (Hpost x' Ee Hc' Hs')|]. left. unfold phA2. split; [exact Hs1|]. split; [exact Ho'|]. split; congruence.
    - assert (Hmiss : exists x1 ru, missed x x1 p c ru).
      { destruct (stq x) as [|h0 t0'] eqn:Eq.
        - destruct (try_closed_miss x p c HO Eq Hg) as (x1 & Hx1). eauto.
        - assert (Hur : unf x = vu) by (apply Hqu; discriminate).
          destruct (try_below_miss x p c h0 t0' HO Eq ltac:(rewrite Hur; exact Hvu) ltac:(rewrite Hur; exact Hpp) Hg) as (x1 & Hx1). eauto. }
      destruct Hmiss as (x1 & ru & Hmiss).
      destruct (again_local t0 R sizes Hroot x x1 p c ru A V PN vq Hmiss B2 B3 B4 B5 B9 B10) as (sX & x' & Ee & Hs' & Ho' & HX & Hm' & Hu' & Hst' & He').
      { rewrite Hind. exact Hvu. } { rewrite Hind. exact Hpp. }
      rewrite Hla in Ee. rewrite Hle in He'. rewrite Hind in Hu'.
      pose proof Ho' as (ch & _ & (_ & Hc' & _)).
      exists x'. split; [exact Ee|]. split; [|auto].
      split; [apply (Hpost x' Ee Hc' Hst')|]. left. unfold phA2. split; [exact Hs'|]. split; [|auto].
      apply (onl2_ext R sX seen x'); [|exact Ho']. intro c0. now rewrite HX, B6.
  Qed.

  (* ---- the pause ---- *)
  Lemma pause_keeps2 seen vq vu A V x : PG2 t0 R seen vq vu A V x -> PG2 t0 R seen vq vu A V (pause_resume 0 x).
  Proof.
    intros [(PN & B) Hph]. destruct Hph as [(Hs & Ho & Hm & Hu)|HO].
    - split.
      + exists PN. destruct B as (B1 & B2 & B3 & B4 & B5 & B6 & B7 & B8 & B9 & B10 & B11 & B12).
        unfold base2, pause_resume. cbn [x_cancelled x_errs x_rl x_nblocks x_store]. rewrite eff_set_online. auto 14.
      + right. destruct B as (_ & _ & _ & _ & _ & _ & _ & _ & _ & _ & B11 & _).
        destruct Ho as (chunks & Hf & (I1 & I2 & (Ld & Lv) & I4 & I5)).
        unfold phO2, offl, pause_resume, stq, unf in *. cbn [x_sent x_cancelled x_feed x_rl firstn].
        assert (Eq : r_q (set_online false (x_rl x)) = r_q (x_rl x)) by reflexivity.
        assert (Eu : r_unfollowed (set_online false (x_rl x)) = r_unfollowed (x_rl x)) by reflexivity.
        rewrite Eq, Eu. split; [|split; [|split; [|split]]].
        * split; [reflexivity|]. split; [exact I2|]. split; [reflexivity|]. split; [reflexivity|].
          unfold lon. rewrite Eq. split; [exact Ld|].
          destruct Lv as [Lv|[Lv|Lv]]; [left; exact Lv | right; left; exact Lv | right; right; destruct Lv; split; auto].
        * exists (flat_map msg_items (x_feed x)). rewrite <- Hm. reflexivity.
        * now destruct (eok_app_inv R _ _ _ I5).
        * intros _. exact Hu.
        * rewrite Hu. destruct B11 as [->|B11]; [now left|]. rewrite <- B11. apply ruok_ulast. now left.
    - destruct HO as ((Hs & Hc & Hf & Hop & Hl) & Hrest).
      assert (Eid : pause_resume 0 x = x) by (apply (pause_resume_calm 0 x Hs); intros _; auto).
      rewrite Eid. split; [exists PN; exact B | right; split; [|exact Hrest]]. unfold offl. auto.
  Qed.
End Steps.
