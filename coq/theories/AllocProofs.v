(* AllocProofs.v — invariants of the allocator model (C13, C14). *)
From Coq Require Import List NArith Bool Lia.
From GS Require Import Base Alloc.
Import ListNotations.
Open Scope N_scope.

(* ---------- association list facts ---------- *)
Definition keys (l : list (peer * pstat)) : list peer := map fst l.
Definition psum (l : list (peer * pstat)) : N := fold_right (fun x acc => ps_alloc (snd x) + acc) 0 l.
Definition alloc_l (p : peer) (l : list (peer * pstat)) : N :=
  match lookup p l with Some ps => ps_alloc ps | None => 0 end.

Lemma lookup_set_eq p v l : lookup p (set p v l) = Some v.
Proof.
  induction l as [|[q w] l IH]; simpl.
  - now rewrite N.eqb_refl.
  - destruct (N.eqb_spec p q); simpl.
    + subst. now rewrite N.eqb_refl.
    + destruct (N.eqb_spec p q); [contradiction | exact IH].
Qed.

Lemma lookup_set_neq p q v l : p <> q -> lookup q (set p v l) = lookup q l.
Proof.
  intro Hn. induction l as [|[r w] l IH]; simpl.
  - destruct (N.eqb_spec q p); [congruence | reflexivity].
  - destruct (N.eqb_spec p r); simpl.
    + subst. destruct (N.eqb_spec q r); [congruence | reflexivity].
    + destruct (N.eqb_spec q r); [reflexivity | exact IH].
Qed.

Lemma lookup_remove_neq p q l : p <> q -> lookup q (remove p l) = lookup q l.
Proof.
  intro Hn. induction l as [|[r w] l IH]; simpl; [reflexivity|].
  destruct (N.eqb_spec p r); simpl.
  - subst. destruct (N.eqb_spec q r); [congruence | reflexivity].
  - destruct (N.eqb_spec q r); [reflexivity | exact IH].
Qed.

Lemma lookup_none_notin p l : lookup p l = None <-> ~ In p (keys l).
Proof.
  induction l as [|[q w] l IH]; simpl; [tauto|].
  destruct (N.eqb_spec p q); split; intro H; try discriminate.
  - exfalso; apply H; left; congruence.
  - intros [E|E]; [congruence | now apply IH].
  - apply IH. intro E; apply H; now right.
Qed.

Lemma lookup_remove_eq p l : NoDup (keys l) -> lookup p (remove p l) = None.
Proof.
  induction l as [|[q w] l IH]; simpl; intro Hn; [reflexivity|].
  inversion Hn as [|? ? Hq Hl]; subst.
  destruct (N.eqb_spec p q); simpl.
  - subst. now apply lookup_none_notin.
  - destruct (N.eqb_spec p q); [contradiction | now apply IH].
Qed.

Lemma keys_set p v l : keys (set p v l) = if existsb (N.eqb p) (keys l) then keys l else keys l ++ [p].
Proof.
  induction l as [|[q w] l IH]; simpl; [reflexivity|].
  destruct (N.eqb_spec p q); simpl; [reflexivity|].
  rewrite IH. destruct (existsb (N.eqb p) (keys l)); reflexivity.
Qed.

Lemma existsb_eqb_in p l : existsb (N.eqb p) l = true <-> In p l.
Proof.
  rewrite existsb_exists. split.
  - intros [x [Hx E]]. apply N.eqb_eq in E. now subst.
  - intro H. exists p. split; [exact H | apply N.eqb_refl].
Qed.

Lemma nodup_set p v l : NoDup (keys l) -> NoDup (keys (set p v l)).
Proof.
  intro H. rewrite keys_set. destruct (existsb (N.eqb p) (keys l)) eqn:E; [exact H|].
  assert (Hni : ~ In p (keys l)) by (intro Hin; apply existsb_eqb_in in Hin; congruence).
  clear E. induction (keys l) as [|k ks IH]; simpl.
  - constructor; [intros [] | constructor].
  - inversion H; subst. constructor.
    + rewrite in_app_iff. simpl. intros [?|[?|[]]]; [contradiction|]. apply Hni. now left.
    + apply IH; [assumption|]. intro; apply Hni; now right.
Qed.


Lemma keys_remove_incl p l x : In x (keys (remove p l)) -> In x (keys l).
Proof.
  induction l as [|[q w] l IH]; simpl; [tauto|].
  destruct (N.eqb_spec p q); simpl; [now right|]. intros [E|E]; [now left | right; now apply IH].
Qed.

Lemma nodup_remove p l : NoDup (keys l) -> NoDup (keys (remove p l)).
Proof.
  induction l as [|[q w] l IH]; simpl; intro H; [constructor|].
  inversion H; subst. destruct (N.eqb_spec p q); simpl; [assumption|].
  constructor; [|now apply IH]. intro Hin. apply keys_remove_incl in Hin. contradiction.
Qed.

Lemma psum_set p v l : psum (set p v l) + alloc_l p l = psum l + ps_alloc v.
Proof.
  unfold alloc_l. induction l as [|[q w] l IH]; simpl; [lia|].
  destruct (N.eqb_spec p q); simpl; [lia|].
  destruct (lookup p l); simpl in *; lia.
Qed.

Lemma psum_remove p l : psum (remove p l) + alloc_l p l = psum l.
Proof.
  unfold alloc_l. induction l as [|[q w] l IH]; simpl; [lia|].
  destruct (N.eqb_spec p q); simpl; [lia|].
  destruct (lookup p l); simpl in *; lia.
Qed.

Lemma in_lookup p ps l : NoDup (keys l) -> In (p, ps) l -> lookup p l = Some ps.
Proof.
  induction l as [|[q w] l IH]; simpl; intros Hn Hin; [contradiction|].
  inversion Hn; subst. destruct Hin as [E|Hin].
  - inversion E; subst. now rewrite N.eqb_refl.
  - destruct (N.eqb_spec p q).
    + subst. exfalso. match goal with H : ~ In _ _ |- _ => apply H end.
      change q with (fst (q, ps)). now apply in_map.
    + now apply IH.
Qed.

Lemma lookup_in p ps l : lookup p l = Some ps -> In (p, ps) l.
Proof.
  induction l as [|[q w] l IH]; simpl; [discriminate|].
  destruct (N.eqb_spec p q); intro H.
  - inversion H; subst. now left.
  - right. now apply IH.
Qed.

(* ---------- the comparator is a strict weak order (via a rank) ---------- *)
Definition rank (mp : N) (a : pstat) : N * N :=
  match ps_pend a with
  | [] => (2, ps_alloc a)
  | h :: _ => if fits (ps_alloc a) (p_amt h) mp then (0, p_idx h) else (1, 0)
  end.

Definition lexlt (x y : N * N) : bool :=
  (fst x <? fst y) || ((fst x =? fst y) && (snd x <? snd y)).

Lemma ps_less_rank mp a b : ps_less mp a b = lexlt (rank mp a) (rank mp b).
Proof.
  unfold ps_less, rank, lexlt.
  destruct (ps_pend a) as [|ha ra]; destruct (ps_pend b) as [|hb rb]; simpl.
  - reflexivity.
  - destruct (fits (ps_alloc b) (p_amt hb) mp); reflexivity.
  - destruct (fits (ps_alloc a) (p_amt ha) mp); reflexivity.
  - destruct (fits (ps_alloc a) (p_amt ha) mp); simpl;
      destruct (fits (ps_alloc b) (p_amt hb) mp); simpl; reflexivity.
Qed.

Lemma lexlt_asym x y : lexlt x y = true -> lexlt y x = false.
Proof.
  unfold lexlt. destruct x as [a b], y as [c d]; simpl.
  destruct (N.ltb_spec a c), (N.eqb_spec a c), (N.ltb_spec b d),
           (N.ltb_spec c a), (N.eqb_spec c a), (N.ltb_spec d b); simpl; try lia; auto.
Qed.

Lemma lexlt_negtrans x y z : lexlt x y = false -> lexlt y z = false -> lexlt x z = false.
Proof.
  unfold lexlt. destruct x as [a b], y as [c d], z as [e f]; simpl.
  destruct (N.ltb_spec a c), (N.eqb_spec a c), (N.ltb_spec b d),
           (N.ltb_spec c e), (N.eqb_spec c e), (N.ltb_spec d f),
           (N.ltb_spec a e), (N.eqb_spec a e), (N.ltb_spec b f); simpl; try lia; auto.
Qed.

Lemma min_peer_in mp l x : min_peer mp l = Some x -> In x l.
Proof.
  revert x. induction l as [|y l IH]; simpl; intros x H; [discriminate|].
  destruct (min_peer mp l) as [m|] eqn:E.
  - destruct (ps_less mp (snd m) (snd y)); inversion H; subst; [right; now apply IH | now left].
  - inversion H; now left.
Qed.

Lemma min_peer_none mp l : min_peer mp l = None -> l = [].
Proof.
  destruct l as [|y l]; simpl; [reflexivity|].
  destruct (min_peer mp l) as [m|]; [destruct (ps_less mp (snd m) (snd y))|]; discriminate.
Qed.

Lemma min_peer_min mp l m : min_peer mp l = Some m ->
  forall x, In x l -> ps_less mp (snd x) (snd m) = false.
Proof.
  revert m. induction l as [|y l IH]; simpl; intros m H x Hin; [contradiction|].
  destruct (min_peer mp l) as [m'|] eqn:E.
  - destruct (ps_less mp (snd m') (snd y)) eqn:L; inversion H; subst.
    + destruct Hin as [->|Hin].
      * rewrite ps_less_rank in *. now apply lexlt_asym.
      * now apply IH.
    + destruct Hin as [->|Hin].
      * rewrite ps_less_rank. unfold lexlt.
        destruct (N.ltb_spec (fst (rank mp (snd x))) (fst (rank mp (snd x)))); [lia|].
        rewrite N.ltb_irrefl. now rewrite andb_false_r.
      * specialize (IH m' eq_refl x Hin). rewrite ps_less_rank in *.
        eapply lexlt_negtrans; eauto.
  - apply min_peer_none in E. subst. inversion H; subst. destruct Hin as [->|[]].
    rewrite ps_less_rank. unfold lexlt. rewrite N.ltb_irrefl, N.ltb_irrefl. now rewrite andb_false_r.
Qed.

(* ---------- measure facts ---------- *)
Lemma pending_count_set p v old l : lookup p l = Some old ->
  (pending_count (set p v l) + length (ps_pend old) = pending_count l + length (ps_pend v))%nat.
Proof.
  unfold pending_count. induction l as [|[q w] l IH]; simpl; [discriminate|].
  destruct (N.eqb_spec p q); intro H; simpl.
  - inversion H; subst. lia.
  - specialize (IH H). lia.
Qed.

Lemma length_set_in p v old l : lookup p l = Some old -> length (set p v l) = length l.
Proof.
  induction l as [|[q w] l IH]; simpl; [discriminate|].
  destruct (N.eqb_spec p q); intro H; simpl; [reflexivity | now rewrite IH].
Qed.

Lemma length_remove_in p old l : lookup p l = Some old -> S (length (remove p l)) = length l.
Proof.
  induction l as [|[q w] l IH]; simpl; [discriminate|].
  destruct (N.eqb_spec p q); intro H; simpl; [reflexivity | now rewrite IH].
Qed.

Lemma pending_count_remove p old l : lookup p l = Some old ->
  (pending_count (remove p l) + length (ps_pend old) = pending_count l)%nat.
Proof.
  unfold pending_count. induction l as [|[q w] l IH]; simpl; [discriminate|].
  destruct (N.eqb_spec p q); intro H; simpl.
  - inversion H; subst. lia.
  - specialize (IH H). lia.
Qed.

(* ---------- invariants ---------- *)
Record Inv (s : st) : Prop := {
  inv_nodup : NoDup (keys (peers s));
  inv_sum : total s = psum (peers s);
  inv_tot : total s <= max_total s;
  inv_peer : forall p ps, lookup p (peers s) = Some ps -> ps_alloc ps <= max_peer s
}.

(* every waiting allocation is registered in the ticket table with its peer and amount *)
Definition TkInv (tk : tkt_info) (s : st) : Prop :=
  forall p ps x, lookup p (peers s) = Some ps -> In x (ps_pend ps) ->
                 tkt_lookup (p_tkt x) tk = Some (p, p_amt x).

(* granted amounts of a list of outcomes, per peer and in total *)
Definition gamt (tk : tkt_info) (p : peer) (outs : list out) : N :=
  fold_right (fun o acc => match o with
                           | Granted t => match tkt_lookup t tk with
                                          | Some (q, a) => if N.eqb q p then a + acc else acc
                                          | None => acc
                                          end
                           | Failed _ => acc
                           end) 0 outs.
Definition gtot (tk : tkt_info) (outs : list out) : N :=
  fold_right (fun o acc => match o with
                           | Granted t => match tkt_lookup t tk with
                                          | Some (_, a) => a + acc
                                          | None => acc
                                          end
                           | Failed _ => acc
                           end) 0 outs.

Lemma gamt_app tk p a b : gamt tk p (a ++ b) = gamt tk p a + gamt tk p b.
Proof.
  induction a as [|o a IH]; simpl; [reflexivity|].
  destruct o as [t|t]; [|exact IH].
  destruct (tkt_lookup t tk) as [[q x]|]; [|exact IH].
  destruct (N.eqb q p); lia.
Qed.
Lemma gtot_app tk a b : gtot tk (a ++ b) = gtot tk a + gtot tk b.
Proof.
  induction a as [|o a IH]; simpl; [reflexivity|].
  destruct o as [t|t]; [|exact IH].
  destruct (tkt_lookup t tk) as [[q x]|]; [|exact IH]. lia.
Qed.

(* where processPendingAllocations stops *)
Definition Stopped (s : st) : Prop :=
  match min_peer (max_peer s) (peers s) with
  | None => True
  | Some (p, ps) =>
      match ps_pend ps with
      | h :: _ => fits (total s) (p_amt h) (max_total s) = false \/
                  fits (ps_alloc ps) (p_amt h) (max_peer s) = false
      | [] => 0 < ps_alloc ps
      end
  end.

Definition pp_measure (s : st) : nat := (pending_count (peers s) + length (peers s))%nat.

Definition same_cfg (s s' : st) : Prop :=
  max_total s' = max_total s /\ max_peer s' = max_peer s /\
  next_tkt s' = next_tkt s /\ next_idx s' = next_idx s.

Definition all_granted (l : list out) : Prop := Forall (fun o => exists t, o = Granted t) l.

Lemma same_cfg_refl s : same_cfg s s.
Proof. unfold same_cfg; auto. Qed.

Lemma pp_stop tk s acc : Inv s -> TkInv tk s -> Stopped s ->
  exists s' new,
    (s, acc, true) = (s', acc ++ new, true) /\
    Inv s' /\ TkInv tk s' /\ same_cfg s s' /\ Stopped s' /\ all_granted new /\
    (forall p, alloc_of s' p = alloc_of s p + gamt tk p new) /\
    total s' = total s + gtot tk new /\
    (forall q, lookup q (peers s) = None -> lookup q (peers s') = None).
Proof.
  intros HI HT HS. exists s, []. rewrite app_nil_r.
  split; [reflexivity|]. split; [exact HI|]. split; [exact HT|]. split; [apply same_cfg_refl|].
  split; [exact HS|]. split; [constructor|]. split; [intro q; simpl; lia |].
  split; [simpl; lia | auto].
Qed.

Lemma process_pending_spec tk : forall fuel s acc,
  Inv s -> TkInv tk s -> (pp_measure s < fuel)%nat ->
  exists s' new,
    process_pending fuel s acc = (s', acc ++ new, true) /\
    Inv s' /\ TkInv tk s' /\ same_cfg s s' /\ Stopped s' /\ all_granted new /\
    (forall p, alloc_of s' p = alloc_of s p + gamt tk p new) /\
    total s' = total s + gtot tk new /\
    (forall q, lookup q (peers s) = None -> lookup q (peers s') = None).
Proof.
  induction fuel as [|f IH]; intros s acc HI HT Hm; [lia|].
  simpl. destruct (min_peer (max_peer s) (peers s)) as [[p ps]|] eqn:Emin.
  2:{ apply pp_stop; auto. unfold Stopped. now rewrite Emin. }
  pose proof (min_peer_in _ _ _ Emin) as Hin.
  pose proof (in_lookup _ _ _ (inv_nodup _ HI) Hin) as Hlk.
  destruct (ps_pend ps) as [|h rest] eqn:Epend.
  - (* no pending at the minimal peer *)
    destruct (N.ltb_spec 0 (ps_alloc ps)) as [Hpos|Hz].
    + apply pp_stop; auto. unfold Stopped. rewrite Emin, Epend. exact Hpos.
    + assert (Ha : ps_alloc ps = 0) by lia.
      set (s1 := with_peers s (total s) (remove p (peers s))).
      assert (HI1 : Inv s1).
      { constructor; simpl.
        - apply nodup_remove, HI.
        - pose proof (psum_remove p (peers s)) as E. unfold alloc_l in E. rewrite Hlk, Ha in E.
          rewrite (inv_sum _ HI). lia.
        - apply HI.
        - intros q qs Hq. destruct (N.eqb_spec p q) as [->|Hn].
          + rewrite lookup_remove_eq in Hq by apply HI. discriminate.
          + rewrite lookup_remove_neq in Hq by assumption. eapply inv_peer; eauto. }
      assert (HT1 : TkInv tk s1).
      { intros q qs x Hq Hx. simpl in Hq. destruct (N.eqb_spec p q) as [->|Hn].
        - rewrite lookup_remove_eq in Hq by apply HI. discriminate.
        - rewrite lookup_remove_neq in Hq by assumption. eapply HT; eauto. }
      assert (Hm1 : (pp_measure s1 < f)%nat).
      { unfold pp_measure in *. simpl.
        pose proof (length_remove_in _ _ _ Hlk). pose proof (pending_count_remove _ _ _ Hlk).
        rewrite Epend in *. simpl in *. lia. }
      destruct (IH s1 acc HI1 HT1 Hm1) as (s' & new & E & HI' & HT' & Hc & Hs & Hg & Hal & Htot & Habs).
      exists s', new. rewrite E.
      split; [reflexivity|]. split; [exact HI'|]. split; [exact HT'|].
      split; [exact Hc|]. split; [exact Hs|]. split; [exact Hg|]. split; [|split; [rewrite Htot; reflexivity|]].
      2:{ intros q Hq. apply Habs. simpl. destruct (N.eqb_spec p q) as [->|Hn];
          [apply lookup_remove_eq, HI | now rewrite lookup_remove_neq]. }
      * intro q. rewrite Hal. unfold alloc_of. simpl.
        destruct (N.eqb_spec p q) as [->|Hn].
        -- rewrite lookup_remove_eq by apply HI. rewrite Hlk. lia.
        -- now rewrite lookup_remove_neq.
  - (* a pending allocation at the minimal peer *)
    destruct (fits (total s) (p_amt h) (max_total s)) eqn:Ft; simpl.
    2:{ apply pp_stop; auto. unfold Stopped. rewrite Emin, Epend. now left. }
    destruct (fits (ps_alloc ps) (p_amt h) (max_peer s)) eqn:Fp; simpl.
    2:{ apply pp_stop; auto. unfold Stopped. rewrite Emin, Epend. now right. }
    unfold fits in Ft, Fp. apply N.leb_le in Ft, Fp.
    set (v := {| ps_alloc := ps_alloc ps + p_amt h; ps_pend := rest |}).
    set (s1 := with_peers s (total s + p_amt h) (set p v (peers s))).
    assert (HI1 : Inv s1).
    { constructor; simpl.
      - apply nodup_set, HI.
      - pose proof (psum_set p v (peers s)) as E. unfold alloc_l in E. rewrite Hlk in E.
        rewrite (inv_sum _ HI). simpl in E. lia.
      - exact Ft.
      - intros q qs Hq. destruct (N.eqb_spec p q) as [->|Hn].
        + rewrite lookup_set_eq in Hq. inversion Hq; subst. simpl. exact Fp.
        + rewrite lookup_set_neq in Hq by assumption. eapply inv_peer; eauto. }
    assert (HT1 : TkInv tk s1).
    { intros q qs x Hq Hx. simpl in Hq. destruct (N.eqb_spec p q) as [->|Hn].
      - rewrite lookup_set_eq in Hq. inversion Hq; subst. simpl in Hx.
        eapply HT; eauto. rewrite Epend. now right.
      - rewrite lookup_set_neq in Hq by assumption. eapply HT; eauto. }
    assert (Hm1 : (pp_measure s1 < f)%nat).
    { unfold pp_measure in *. simpl.
      pose proof (length_set_in p v _ _ Hlk). pose proof (pending_count_set p v _ _ Hlk).
      rewrite Epend in *. simpl in *. lia. }
    destruct (IH s1 (acc ++ [Granted (p_tkt h)]) HI1 HT1 Hm1)
      as (s' & new & E & HI' & HT' & Hc & Hs & Hg & Hal & Htot & Habs).
    exists s', (Granted (p_tkt h) :: new). rewrite E.
    assert (Htk : tkt_lookup (p_tkt h) tk = Some (p, p_amt h)).
    { eapply HT; eauto. rewrite Epend. now left. }
    split; [now rewrite <- app_assoc|]. split; [exact HI'|]. split; [exact HT'|].
    split; [exact Hc|]. split; [exact Hs|]. split; [constructor; [eauto | assumption]|]. split.
    + intro q. rewrite Hal. unfold alloc_of. simpl. rewrite Htk.
      destruct (N.eqb_spec p q) as [->|Hn].
      * rewrite lookup_set_eq, Hlk. simpl. lia.
      * rewrite lookup_set_neq by assumption. lia.
    + split; [rewrite Htot; simpl; rewrite Htk; lia|].
      intros q Hq. apply Habs. simpl. destruct (N.eqb_spec p q) as [->|Hn];
        [congruence | now rewrite lookup_set_neq].
Qed.

(* ---------- no lost wake-up, at the level of the model state ---------- *)
(* every waiting head that fits its own peer's limit has ahead of it (or is itself) a head that fits
   its own peer's limit, was requested no later, and does not fit under the total limit *)
Definition StableSt (s : st) : Prop :=
  forall p ps h r, lookup p (peers s) = Some ps -> ps_pend ps = h :: r ->
    fits (ps_alloc ps) (p_amt h) (max_peer s) = true ->
    exists q qs h' r', lookup q (peers s) = Some qs /\ ps_pend qs = h' :: r' /\
      fits (ps_alloc qs) (p_amt h') (max_peer s) = true /\ p_idx h' <= p_idx h /\
      fits (total s) (p_amt h') (max_total s) = false.

Lemma stopped_stable s : Inv s -> Stopped s -> StableSt s.
Proof.
  intros HI HS p ps h r Hlk Hp Hfit. unfold Stopped in HS.
  destruct (min_peer (max_peer s) (peers s)) as [[m ms]|] eqn:Emin.
  2:{ apply min_peer_none in Emin. rewrite Emin in Hlk. discriminate. }
  pose proof (min_peer_min _ _ _ Emin (p, ps) (lookup_in _ _ _ Hlk)) as Hle.
  rewrite ps_less_rank in Hle. simpl in Hle. unfold rank in Hle. rewrite Hp, Hfit in Hle.
  pose proof (in_lookup _ _ _ (inv_nodup _ HI) (min_peer_in _ _ _ Emin)) as Hm.
  destruct (ps_pend ms) as [|hm rm] eqn:Em.
  - unfold lexlt in Hle. simpl in Hle. discriminate.
  - destruct (fits (ps_alloc ms) (p_amt hm) (max_peer s)) eqn:Fm.
    + destruct HS as [HS|HS]; [|congruence].
      exists m, ms, hm, rm. repeat split; auto.
      unfold lexlt in Hle. simpl in Hle.
      destruct (N.ltb_spec (p_idx h) (p_idx hm)); [discriminate | assumption].
    + unfold lexlt in Hle. simpl in Hle. discriminate.
Qed.

Lemma fits_mono a b x m : a <= b -> fits a x m = false -> fits b x m = false.
Proof. unfold fits. intros H F. apply N.leb_gt in F. apply N.leb_gt. lia. Qed.

(* ---------- ledger facts ---------- *)
Lemma led_get_set q p v l : led_get q (led_set p v l) = if N.eqb q p then v else led_get q l.
Proof.
  induction l as [|[r w] l IH]; simpl.
  - destruct (N.eqb_spec q p); reflexivity.
  - destruct (N.eqb_spec p r); simpl.
    + subst. destruct (N.eqb_spec q r); reflexivity.
    + destruct (N.eqb_spec q r); simpl.
      * subst. destruct (N.eqb_spec r p); [congruence | reflexivity].
      * exact IH.
Qed.

Lemma led_sum_set p v l : led_sum (led_set p v l) + led_get p l = led_sum l + v.
Proof.
  unfold led_sum. induction l as [|[r w] l IH]; simpl; [lia|].
  destruct (N.eqb_spec p r); simpl; lia.
Qed.

Lemma apply_grants_get tk q outs : forall l,
  led_get q (apply_grants tk outs l) = led_get q l + gamt tk q outs.
Proof.
  unfold apply_grants. induction outs as [|o outs IH]; intro l; simpl; [lia|].
  rewrite IH. destruct o as [t|t]; [|reflexivity].
  destruct (tkt_lookup t tk) as [[p a]|]; [|reflexivity].
  rewrite led_get_set. rewrite (N.eqb_sym q p). destruct (N.eqb_spec p q); [subst|]; lia.
Qed.

Lemma apply_grants_sum tk outs : forall l,
  led_sum (apply_grants tk outs l) = led_sum l + gtot tk outs.
Proof.
  unfold apply_grants. induction outs as [|o outs IH]; intro l; simpl; [lia|].
  rewrite IH. destruct o as [t|t]; [|reflexivity].
  destruct (tkt_lookup t tk) as [[p a]|]; [|reflexivity].
  pose proof (led_sum_set p (led_get p l + a) l). lia.
Qed.

Lemma gamt_insert tk q o l : gamt tk q (insert_out o l) = gamt tk q (o :: l).
Proof.
  induction l as [|x l IH]; simpl; [reflexivity|].
  destruct (out_tkt o <=? out_tkt x); [reflexivity|]. simpl in *. rewrite IH.
  destruct o as [t|t], x as [u|u]; simpl; try reflexivity;
    repeat match goal with |- context [tkt_lookup ?t tk] => destruct (tkt_lookup t tk) as [[? ?]|] end;
    repeat match goal with |- context [N.eqb ?a q] => destruct (N.eqb a q) end; lia.
Qed.
Lemma gtot_insert tk o l : gtot tk (insert_out o l) = gtot tk (o :: l).
Proof.
  induction l as [|x l IH]; simpl; [reflexivity|].
  destruct (out_tkt o <=? out_tkt x); [reflexivity|]. simpl in *. rewrite IH.
  destruct o as [t|t], x as [u|u]; simpl; try reflexivity;
    repeat match goal with |- context [tkt_lookup ?t tk] => destruct (tkt_lookup t tk) as [[? ?]|] end; lia.
Qed.
Lemma gamt_sort tk q outs : gamt tk q (sort_outs outs) = gamt tk q outs.
Proof.
  unfold sort_outs. induction outs as [|o outs IH]; simpl; [reflexivity|].
  rewrite gamt_insert. simpl. now rewrite IH.
Qed.
Lemma gtot_sort tk outs : gtot tk (sort_outs outs) = gtot tk outs.
Proof.
  unfold sort_outs. induction outs as [|o outs IH]; simpl; [reflexivity|].
  rewrite gtot_insert. simpl. now rewrite IH.
Qed.

(* ---------- one step ---------- *)
Definition Good (s : st) : Prop := Inv s /\ StableSt s.
Definition TkRel (tk : tkt_info) (s : st) : Prop :=
  TkInv tk s /\ (forall t v, tkt_lookup t tk = Some v -> t < next_tkt s).

Definition tk_ext (tk : tkt_info) (nt : ticket) (o : op) : tkt_info :=
  match o with OAlloc p a => (nt, (p, a)) :: tk | _ => tk end.

(* what a peer holds after the release part of an operation, before any grants *)
Definition base_alloc (cur : peer -> N) (o : op) (err : bool) (q : peer) : N :=
  match o with
  | OAlloc _ _ => cur q
  | ORelease p a => if err then cur q
                    else if N.eqb q p then cur p - (if a <=? cur p then a else cur p) else cur q
  | OReleasePeer p => if err then cur q else if N.eqb q p then 0 else cur q
  end.

Lemma psum_ge p ps l : lookup p l = Some ps -> ps_alloc ps <= psum l.
Proof.
  induction l as [|[q w] l IH]; simpl; [discriminate|].
  destruct (N.eqb_spec p q); intro H.
  - inversion H; subst. lia.
  - specialize (IH H). lia.
Qed.

Lemma gamt_fails tk q (l : list pend) : gamt tk q (map (fun x => Failed (p_tkt x)) l) = 0.
Proof. induction l; simpl; auto. Qed.
Lemma gtot_fails tk (l : list pend) : gtot tk (map (fun x => Failed (p_tkt x)) l) = 0.
Proof. induction l; simpl; auto. Qed.

Lemma stable_transport s s' :
  max_total s' = max_total s -> max_peer s' = max_peer s -> total s <= total s' ->
  (forall q qs' h r, lookup q (peers s') = Some qs' -> ps_pend qs' = h :: r ->
     fits (ps_alloc qs') (p_amt h) (max_peer s') = true ->
     (exists qs r0, lookup q (peers s) = Some qs /\ ps_pend qs = h :: r0 /\ ps_alloc qs = ps_alloc qs') \/
     fits (total s') (p_amt h) (max_total s') = false) ->
  (forall q qs h r, lookup q (peers s) = Some qs -> ps_pend qs = h :: r ->
     exists qs' r', lookup q (peers s') = Some qs' /\ ps_pend qs' = h :: r' /\ ps_alloc qs' = ps_alloc qs) ->
  StableSt s -> StableSt s'.
Proof.
  intros Emt Emp Htot Hback Hfwd HS q qs' h r Hlk Hp Hfit.
  destruct (Hback q qs' h r Hlk Hp Hfit) as [(qs & r0 & Hl0 & Hp0 & Ha0)|Hself].
  - rewrite Emp, <- Ha0 in Hfit.
    destruct (HS q qs h r0 Hl0 Hp0 Hfit) as (w & ws & h' & r' & Hw & Hwp & Hwf & Hidx & Hnf).
    destruct (Hfwd w ws h' r' Hw Hwp) as (ws' & r'' & Hw' & Hwp' & Hwa').
    exists w, ws', h', r''. rewrite Emp, Emt, Hwa'. repeat split; auto.
    eapply fits_mono; eauto.
  - exists q, qs', h, r. repeat split; auto. lia.
Qed.

Definition step_post (tk : tkt_info) (s : st) (o : op) (s' : st) (outs : list out) (err : bool) : Prop :=
  let tk' := tk_ext tk (next_tkt s) o in
  Good s' /\ TkRel tk' s' /\
  max_total s' = max_total s /\ max_peer s' = max_peer s /\
  next_tkt s' = (match o with OAlloc _ _ => next_tkt s + 1 | _ => next_tkt s end) /\
  (forall q, alloc_of s' q = base_alloc (alloc_of s) o err q + gamt tk' q outs) /\
  total s' + alloc_of s (op_peer o) = total s + base_alloc (alloc_of s) o err (op_peer o) + gtot tk' outs /\
  (err = true -> outs = [] /\ s' = s) /\
  (forall p, o = OReleasePeer p -> err = false -> lookup p (peers s') = None).

Lemma alloc_of_unfold s q : alloc_of s q = alloc_l q (peers s).
Proof. reflexivity. Qed.

Lemma step_alloc tk s p a : Good s -> TkRel tk s ->
  exists s' outs, step s (OAlloc p a) = (s', outs, false, true) /\ step_post tk s (OAlloc p a) s' outs false.
Proof.
  intros [HI HS] [HT HB].
  set (ps := match lookup p (peers s) with Some x => x | None => {| ps_alloc := 0; ps_pend := [] |} end).
  assert (Hal : alloc_l p (peers s) = ps_alloc ps).
  { unfold alloc_l, ps. destruct (lookup p (peers s)); reflexivity. }
  assert (Hps : ps_alloc ps <= max_peer s).
  { unfold ps. destruct (lookup p (peers s)) eqn:E; [eapply inv_peer; eauto | simpl; lia]. }
  assert (Hpend : forall x, In x (ps_pend ps) -> lookup p (peers s) = Some ps).
  { unfold ps. destruct (lookup p (peers s)); [reflexivity | simpl; contradiction]. }
  assert (Hfresh : forall q qs x, lookup q (peers s) = Some qs -> In x (ps_pend qs) ->
                   tkt_lookup (p_tkt x) ((next_tkt s, (p, a)) :: tk) = Some (q, p_amt x)).
  { intros q qs x Hq Hx. simpl. pose proof (HT q qs x Hq Hx) as E. pose proof (HB _ _ E).
    destruct (N.eqb_spec (p_tkt x) (next_tkt s)); [lia | exact E]. }
  assert (HB' : forall s', next_tkt s' = next_tkt s + 1 ->
                forall t v, tkt_lookup t ((next_tkt s, (p, a)) :: tk) = Some v -> t < next_tkt s').
  { intros s' En t v. simpl. destruct (N.eqb_spec t (next_tkt s)); intro E.
    - lia.
    - apply HB in E. lia. }
  unfold step. fold ps.
  destruct (ps_pend ps) as [|h0 r0] eqn:Epend.
  - destruct (fits (total s) a (max_total s) && fits (ps_alloc ps) a (max_peer s)) eqn:Ef.
    + (* immediate grant *)
      apply andb_true_iff in Ef as [Ft Fp]. unfold fits in Ft, Fp. apply N.leb_le in Ft, Fp.
      eexists _, _. split; [reflexivity|].
      set (v := {| ps_alloc := ps_alloc ps + a; ps_pend := [] |}).
      set (s' := bump_tkt s (next_idx s) (total s + a) (set p v (peers s))).
      assert (HI' : Inv s').
      { constructor; simpl.
        - apply nodup_set, HI.
        - pose proof (psum_set p v (peers s)). rewrite (inv_sum _ HI). simpl in *. lia.
        - exact Ft.
        - intros q qs Hq. destruct (N.eqb_spec p q) as [->|Hn].
          + rewrite lookup_set_eq in Hq. inversion Hq; subst. exact Fp.
          + rewrite lookup_set_neq in Hq by assumption. eapply inv_peer; eauto. }
      unfold step_post. simpl tk_ext.
      split; [split; [exact HI'|]|].
      { apply (stable_transport s s'); simpl; auto; try lia.
        - intros q qs' h r Hq Hp Hfit. left. destruct (N.eqb_spec p q) as [->|Hn].
          + rewrite lookup_set_eq in Hq. inversion Hq; subst. discriminate.
          + rewrite lookup_set_neq in Hq by assumption. eauto.
        - intros q qs h r Hq Hp. destruct (N.eqb_spec p q) as [->|Hn].
          + assert (lookup q (peers s) = Some ps) by (unfold ps in *; rewrite Hq in *; congruence).
            assert (qs = ps) by congruence. subst. congruence.
          + exists qs, r. rewrite lookup_set_neq by assumption. auto. }
      split.
      { split; [|apply HB'; reflexivity].
        intros q qs x Hq Hx. simpl in Hq. destruct (N.eqb_spec p q) as [->|Hn].
        - rewrite lookup_set_eq in Hq. inversion Hq; subst. contradiction.
        - rewrite lookup_set_neq in Hq by assumption. eapply Hfresh; eauto. }
      split; [reflexivity|]. split; [reflexivity|]. split; [reflexivity|].
      split.
      { intro q. simpl. rewrite N.eqb_refl. rewrite !alloc_of_unfold. simpl.
        unfold alloc_l at 1. destruct (N.eqb_spec p q) as [->|Hn].
        - rewrite lookup_set_eq. simpl. fold (alloc_l q (peers s)). lia.
        - rewrite lookup_set_neq by assumption. fold (alloc_l q (peers s)). lia. }
      split; [simpl; rewrite N.eqb_refl; lia|].
      split; [discriminate | discriminate].
    + (* first waiting allocation of this peer *)
      eexists _, _. split; [reflexivity|].
      set (nw := {| p_amt := a; p_idx := next_idx s; p_tkt := next_tkt s |}).
      set (v := {| ps_alloc := ps_alloc ps; ps_pend := [nw] |}).
      set (s' := bump_tkt s (next_idx s + 1) (total s) (set p v (peers s))).
      assert (HI' : Inv s').
      { constructor; simpl.
        - apply nodup_set, HI.
        - pose proof (psum_set p v (peers s)). rewrite (inv_sum _ HI). simpl in *. lia.
        - apply HI.
        - intros q qs Hq. destruct (N.eqb_spec p q) as [->|Hn].
          + rewrite lookup_set_eq in Hq. inversion Hq; subst. exact Hps.
          + rewrite lookup_set_neq in Hq by assumption. eapply inv_peer; eauto. }
      unfold step_post. simpl tk_ext.
      split; [split; [exact HI'|]|].
      { apply (stable_transport s s'); simpl; auto; try lia.
        - intros q qs' h r Hq Hp Hfit. destruct (N.eqb_spec p q) as [->|Hn].
          + rewrite lookup_set_eq in Hq. inversion Hq; subst. simpl in *. inversion Hp; subst.
            right. simpl in *. rewrite Hfit in Ef. now rewrite andb_true_r in Ef.
          + left. rewrite lookup_set_neq in Hq by assumption. eauto.
        - intros q qs h r Hq Hp. destruct (N.eqb_spec p q) as [->|Hn].
          + assert (lookup q (peers s) = Some ps) by (unfold ps in *; rewrite Hq in *; congruence).
            assert (qs = ps) by congruence. subst. congruence.
          + exists qs, r. rewrite lookup_set_neq by assumption. auto. }
      split.
      { split; [|apply HB'; reflexivity].
        intros q qs x Hq Hx. simpl in Hq. destruct (N.eqb_spec p q) as [->|Hn].
        - rewrite lookup_set_eq in Hq. inversion Hq; subst. destruct Hx as [<-|[]].
          simpl. now rewrite N.eqb_refl.
        - rewrite lookup_set_neq in Hq by assumption. eapply Hfresh; eauto. }
      split; [reflexivity|]. split; [reflexivity|]. split; [reflexivity|].
      split.
      { intro q. simpl. rewrite !alloc_of_unfold. simpl.
        unfold alloc_l at 1. destruct (N.eqb_spec p q) as [->|Hn].
        - rewrite lookup_set_eq. simpl. lia.
        - rewrite lookup_set_neq by assumption. fold (alloc_l q (peers s)). lia. }
      split; [simpl; lia|].
      split; [discriminate | discriminate].
  - (* the peer already has waiting allocations: queue behind them *)
    eexists _, _. split; [reflexivity|].
    assert (Hlk : lookup p (peers s) = Some ps) by (apply (Hpend h0); now left).
    set (nw := {| p_amt := a; p_idx := next_idx s; p_tkt := next_tkt s |}).
    set (v := {| ps_alloc := ps_alloc ps; ps_pend := (h0 :: r0) ++ [nw] |}).
    set (s' := bump_tkt s (next_idx s + 1) (total s) (set p v (peers s))).
    assert (HI' : Inv s').
    { constructor; simpl.
      - apply nodup_set, HI.
      - pose proof (psum_set p v (peers s)). rewrite (inv_sum _ HI). simpl in *. lia.
      - apply HI.
      - intros q qs Hq. destruct (N.eqb_spec p q) as [->|Hn].
        + rewrite lookup_set_eq in Hq. inversion Hq; subst. exact Hps.
        + rewrite lookup_set_neq in Hq by assumption. eapply inv_peer; eauto. }
    unfold step_post. simpl tk_ext.
    split; [split; [exact HI'|]|].
    { apply (stable_transport s s'); simpl; auto; try lia.
      - intros q qs' h r Hq Hp Hfit. left. destruct (N.eqb_spec p q) as [->|Hn].
        + rewrite lookup_set_eq in Hq. inversion Hq; subst. simpl in *. inversion Hp; subst.
          exists ps, r0. auto.
        + rewrite lookup_set_neq in Hq by assumption. eauto.
      - intros q qs h r Hq Hp. destruct (N.eqb_spec p q) as [->|Hn].
        + assert (qs = ps) by congruence. subst. rewrite Epend in Hp. inversion Hp; subst.
          exists v, (r ++ [nw]). rewrite lookup_set_eq. auto.
        + exists qs, r. rewrite lookup_set_neq by assumption. auto. }
    split.
    { split; [|apply HB'; reflexivity].
      intros q qs x Hq Hx. simpl in Hq. destruct (N.eqb_spec p q) as [->|Hn].
      - rewrite lookup_set_eq in Hq. inversion Hq; subst. simpl in Hx.
        assert (Hx' : In x (h0 :: r0) \/ x = nw).
        { destruct Hx as [Hx|Hx]; [left; now left|].
          apply in_app_iff in Hx as [Hx|[<-|[]]]; [left; now right | now right]. }
        destruct Hx' as [Hx'| ->].
        + eapply Hfresh; eauto. now rewrite Epend.
        + simpl. now rewrite N.eqb_refl.
      - rewrite lookup_set_neq in Hq by assumption. eapply Hfresh; eauto. }
    split; [reflexivity|]. split; [reflexivity|]. split; [reflexivity|].
    split.
    { intro q. simpl. rewrite !alloc_of_unfold. simpl.
      unfold alloc_l at 1. destruct (N.eqb_spec p q) as [->|Hn].
      - rewrite lookup_set_eq. simpl. lia.
      - rewrite lookup_set_neq by assumption. fold (alloc_l q (peers s)). lia. }
    split; [simpl; lia|].
    split; [discriminate | discriminate].
Qed.

Lemma run_pending_spec tk s1 acc : Inv s1 -> TkInv tk s1 ->
  exists s' new,
    run_pending s1 acc = (s', acc ++ new, true) /\
    Inv s' /\ TkInv tk s' /\ same_cfg s1 s' /\ Stopped s' /\ all_granted new /\
    (forall p, alloc_of s' p = alloc_of s1 p + gamt tk p new) /\
    total s' = total s1 + gtot tk new /\
    (forall q, lookup q (peers s1) = None -> lookup q (peers s') = None).
Proof.
  intros HI HT. unfold run_pending, pp_fuel. apply process_pending_spec; auto.
Qed.

Lemma step_release tk s p a : Good s -> TkRel tk s ->
  exists s' outs err, step s (ORelease p a) = (s', outs, err, true) /\
                      step_post tk s (ORelease p a) s' outs err.
Proof.
  intros [HI HS] [HT HB]. unfold step.
  destruct (lookup p (peers s)) as [ps|] eqn:Hlk.
  2:{ exists s, [], true. split; [reflexivity|]. unfold step_post. simpl.
      split; [split; assumption|]. split; [split; assumption|].
      repeat (split; [reflexivity|]). split; [intro q; lia|]. split; [lia|].
      split; [auto | discriminate]. }
  set (eff := if a <=? ps_alloc ps then a else ps_alloc ps).
  assert (Heff : eff <= ps_alloc ps) by (unfold eff; destruct (N.leb_spec a (ps_alloc ps)); lia).
  pose proof (psum_ge _ _ _ Hlk) as Hge. rewrite <- (inv_sum _ HI) in Hge.
  assert (Etot : (if eff <=? total s then total s - eff else 0) = total s - eff).
  { destruct (N.leb_spec eff (total s)); lia. }
  rewrite Etot.
  set (v := {| ps_alloc := ps_alloc ps - eff; ps_pend := ps_pend ps |}).
  set (s1 := with_peers s (total s - eff) (set p v (peers s))).
  assert (HI1 : Inv s1).
  { constructor; simpl.
    - apply nodup_set, HI.
    - pose proof (psum_set p v (peers s)) as E. unfold alloc_l in E. rewrite Hlk in E.
      rewrite (inv_sum _ HI) in *. simpl in E. lia.
    - pose proof (inv_tot _ HI). lia.
    - intros q qs Hq. destruct (N.eqb_spec p q) as [->|Hn].
      + rewrite lookup_set_eq in Hq. inversion Hq; subst. simpl.
        pose proof (inv_peer _ HI _ _ Hlk). lia.
      + rewrite lookup_set_neq in Hq by assumption. eapply inv_peer; eauto. }
  assert (HT1 : TkInv tk s1).
  { intros q qs x Hq Hx. simpl in Hq. destruct (N.eqb_spec p q) as [->|Hn].
    - rewrite lookup_set_eq in Hq. inversion Hq; subst. simpl in Hx. eapply HT; eauto.
    - rewrite lookup_set_neq in Hq by assumption. eapply HT; eauto. }
  destruct (run_pending_spec tk s1 [] HI1 HT1)
    as (s' & new & E & HI' & HT' & (Ec1 & Ec2 & Ec3 & Ec4) & Hst & Hg & Hal & Htot & Habs).
  exists s', new, false. rewrite E. simpl app. split; [reflexivity|].
  unfold step_post. simpl tk_ext.
  split; [split; [exact HI' | now apply stopped_stable]|].
  split; [split; [exact HT'|]|].
  { intros t w Ht. rewrite Ec3. simpl. eapply HB; eauto. }
  split; [exact Ec1|]. split; [exact Ec2|]. split; [exact Ec3|].
  split.
  { intro q. rewrite Hal. simpl. f_equal. rewrite !alloc_of_unfold. simpl. unfold alloc_l.
    destruct (N.eqb_spec q p) as [->|Hn].
    - rewrite lookup_set_eq, Hlk. reflexivity.
    - rewrite lookup_set_neq by congruence. reflexivity. }
  split.
  { rewrite Htot. simpl. rewrite N.eqb_refl. rewrite !alloc_of_unfold. unfold alloc_l. rewrite Hlk.
    fold eff. lia. }
  split; [discriminate | discriminate].
Qed.

Lemma step_release_peer tk s p : Good s -> TkRel tk s ->
  exists s' outs err, step s (OReleasePeer p) = (s', outs, err, true) /\
                      step_post tk s (OReleasePeer p) s' outs err.
Proof.
  intros [HI HS] [HT HB]. unfold step.
  destruct (lookup p (peers s)) as [ps|] eqn:Hlk.
  2:{ exists s, [], true. split; [reflexivity|]. unfold step_post. simpl.
      split; [split; assumption|]. split; [split; assumption|].
      repeat (split; [reflexivity|]). split; [intro q; lia|]. split; [lia|].
      split; [auto | discriminate]. }
  pose proof (psum_ge _ _ _ Hlk) as Hge. rewrite <- (inv_sum _ HI) in Hge.
  assert (Etot : (if ps_alloc ps <=? total s then total s - ps_alloc ps else 0) = total s - ps_alloc ps).
  { destruct (N.leb_spec (ps_alloc ps) (total s)); lia. }
  rewrite Etot.
  set (s1 := with_peers s (total s - ps_alloc ps) (remove p (peers s))).
  assert (HI1 : Inv s1).
  { constructor; simpl.
    - apply nodup_remove, HI.
    - pose proof (psum_remove p (peers s)) as E. unfold alloc_l in E. rewrite Hlk in E.
      rewrite (inv_sum _ HI) in *. lia.
    - pose proof (inv_tot _ HI). lia.
    - intros q qs Hq. destruct (N.eqb_spec p q) as [->|Hn].
      + rewrite lookup_remove_eq in Hq by apply HI. discriminate.
      + rewrite lookup_remove_neq in Hq by assumption. eapply inv_peer; eauto. }
  assert (HT1 : TkInv tk s1).
  { intros q qs x Hq Hx. simpl in Hq. destruct (N.eqb_spec p q) as [->|Hn].
    - rewrite lookup_remove_eq in Hq by apply HI. discriminate.
    - rewrite lookup_remove_neq in Hq by assumption. eapply HT; eauto. }
  destruct (run_pending_spec tk s1 (map (fun x => Failed (p_tkt x)) (ps_pend ps)) HI1 HT1)
    as (s' & new & E & HI' & HT' & (Ec1 & Ec2 & Ec3 & Ec4) & Hst & Hg & Hal & Htot & Habs).
  eexists s', _, false. rewrite E. split; [reflexivity|].
  unfold step_post. simpl tk_ext.
  split; [split; [exact HI' | now apply stopped_stable]|].
  split; [split; [exact HT'|]|].
  { intros t w Ht. rewrite Ec3. simpl. eapply HB; eauto. }
  split; [exact Ec1|]. split; [exact Ec2|]. split; [exact Ec3|].
  split.
  { intro q. rewrite Hal, gamt_app, gamt_fails. simpl. rewrite !alloc_of_unfold. simpl. unfold alloc_l.
    destruct (N.eqb_spec q p) as [->|Hn].
    - rewrite lookup_remove_eq by apply HI. lia.
    - rewrite lookup_remove_neq by congruence. lia. }
  split.
  { rewrite Htot, gtot_app, gtot_fails. simpl. rewrite N.eqb_refl.
    rewrite !alloc_of_unfold. unfold alloc_l. rewrite Hlk. lia. }
  split; [discriminate|].
  intros p' Ep _. inversion Ep; subst. apply Habs. simpl. apply lookup_remove_eq, HI.
Qed.

Lemma step_spec tk s o : Good s -> TkRel tk s ->
  exists s' outs err, step s o = (s', outs, err, true) /\ step_post tk s o s' outs err.
Proof.
  intros HG HT. destruct o as [p a|p a|p].
  - destruct (step_alloc tk s p a HG HT) as (s' & outs & E & H). now exists s', outs, false.
  - now apply step_release.
  - now apply step_release_peer.
Qed.

(* ---------- observation facts ---------- *)
Lemma observe_outs u s outs err : o_outs (observe u s outs err) = sort_outs outs.
Proof. unfold observe. destruct (stats_pending s). reflexivity. Qed.
Lemma observe_err u s outs err : o_err (observe u s outs err) = err.
Proof. unfold observe. destruct (stats_pending s). reflexivity. Qed.
Lemma observe_total u s outs err : o_total (observe u s outs err) = total s.
Proof. unfold observe. destruct (stats_pending s). reflexivity. Qed.
Lemma observe_allocs u s outs err : o_allocs (observe u s outs err) = map (alloc_of s) u.
Proof. unfold observe. destruct (stats_pending s). reflexivity. Qed.
Lemma observe_pending u s outs err :
  (o_pending (observe u s outs err), o_npending (observe u s outs err)) = stats_pending s.
Proof. unfold observe. destruct (stats_pending s). reflexivity. Qed.

Lemma tkt_lookup_in t v tk : tkt_lookup t tk = Some v -> In (t, v) tk.
Proof.
  induction tk as [|[u w] tk IH]; simpl; [discriminate|].
  destruct (N.eqb_spec t u); intro H; [inversion H; subst; now left | right; now apply IH].
Qed.

Lemma stats_pending_none (l : list (peer * pstat)) : (forall x, In x l -> ps_pend (snd x) = []) ->
  forall acc, fold_left (fun '(tp, np) x =>
               let k := pend_sum (snd x) in
               if 0 <? k then ((tp + k) mod two64, np + 1) else (tp, np)) l acc = acc.
Proof.
  induction l as [|x l IH]; intros H acc; simpl; [reflexivity|].
  destruct acc as [tp np]. assert (Ex : pend_sum (snd x) = 0).
  { unfold pend_sum. rewrite (H x) by now left. reflexivity. }
  rewrite Ex. simpl.
  apply IH. intros y Hy. apply H. now right.
Qed.

Lemma quiet tk s : Good s -> TkRel tk s -> total s = 0 ->
  amounts_within (max_total s) (max_peer s) tk = true -> stats_pending s = (0, 0).
Proof.
  intros [HI HS] [HT _] Hz Haw. unfold stats_pending. apply stats_pending_none.
  intros [q qs] Hin. simpl. destruct (ps_pend qs) as [|h r] eqn:Ep; [reflexivity|]. exfalso.
  pose proof (in_lookup _ _ _ (inv_nodup _ HI) Hin) as Hlk.
  assert (Hamt : forall w ws x, lookup w (peers s) = Some ws -> In x (ps_pend ws) ->
                 p_amt x <= max_total s /\ p_amt x <= max_peer s).
  { intros w ws x Hw Hx. pose proof (HT w ws x Hw Hx) as E. apply tkt_lookup_in in E.
    unfold amounts_within in Haw. rewrite forallb_forall in Haw. specialize (Haw _ E). simpl in Haw.
    apply andb_true_iff in Haw as [A B]. apply N.leb_le in A, B. auto. }
  assert (Hzero : forall w ws, lookup w (peers s) = Some ws -> ps_alloc ws = 0).
  { intros w ws Hw. pose proof (psum_ge _ _ _ Hw). rewrite <- (inv_sum _ HI) in *. lia. }
  destruct (Hamt q qs h Hlk) as [A B]; [rewrite Ep; now left|].
  assert (Hfit : fits (ps_alloc qs) (p_amt h) (max_peer s) = true).
  { unfold fits. rewrite (Hzero _ _ Hlk). apply N.leb_le. lia. }
  destruct (HS q qs h r Hlk Ep Hfit) as (w & ws & h' & r' & Hw & Hwp & _ & _ & Hnf).
  destruct (Hamt w ws h' Hw) as [A' B']; [rewrite Hwp; now left|].
  unfold fits in Hnf. apply N.leb_gt in Hnf. lia.
Qed.

Lemma list_eqb_map_ext (f g : N -> N) u : (forall p, f p = g p) ->
  list_eqb N.eqb (map f u) (map g u) = true.
Proof.
  intro H. induction u as [|x u IH]; simpl; [reflexivity|].
  rewrite H, N.eqb_refl. exact IH.
Qed.

Lemma base_alloc_ext f g o err q : (forall p, f p = g p) -> base_alloc f o err q = base_alloc g o err q.
Proof. intro H. destruct o; simpl; rewrite ?H; reflexivity. Qed.

Lemma ledger_step_get tk l o ob q :
  led_get q (ledger_step tk l o ob) =
  base_alloc (fun p => led_get p l) o (o_err ob) q + gamt tk q (o_outs ob).
Proof.
  unfold ledger_step. rewrite apply_grants_get. f_equal.
  destruct o as [p a|p a|p]; simpl; [reflexivity| |]; destruct (o_err ob); try reflexivity;
    now rewrite led_get_set.
Qed.

Lemma ledger_step_sum tk l o ob :
  led_sum (ledger_step tk l o ob) + led_get (op_peer o) l =
  led_sum l + base_alloc (fun p => led_get p l) o (o_err ob) (op_peer o) + gtot tk (o_outs ob).
Proof.
  unfold ledger_step. rewrite apply_grants_sum.
  destruct o as [p a|p a|p]; simpl; [lia| |]; destruct (o_err ob); try lia; rewrite N.eqb_refl.
  - pose proof (led_sum_set p (led_get p l - (if a <=? led_get p l then a else led_get p l)) l). lia.
  - pose proof (led_sum_set p 0 l). lia.
Qed.

Definition Rel13 (tk : tkt_info) (l : ledger) (s : st) : Prop :=
  Good s /\ TkRel tk s /\ (forall p, led_get p l = alloc_of s p) /\ led_sum l = total s.

Theorem monitor13_run univ : forall ops s tk l,
  Rel13 tk l s ->
  monitor13 (max_total s) (max_peer s) univ tk (next_tkt s) l ops (fst (run univ s ops)) = true /\
  snd (run univ s ops) = true.
Proof.
  induction ops as [|o ops IH]; intros s tk l (HG & HT & Hget & Hsum); simpl; [auto|].
  destruct (step_spec tk s o HG HT) as (s' & outs & err & E & HP). rewrite E.
  destruct (run univ s' ops) as [obsr okr] eqn:Er. simpl.
  destruct HP as (HG' & HT' & Emt & Emp & Ent & Hal & Htot & Herr & Hrp).
  set (tk' := tk_ext tk (next_tkt s) o) in *.
  set (ob := observe univ s' outs err).
  set (l' := ledger_step tk' l o ob).
  assert (Hget' : forall p, led_get p l' = alloc_of s' p).
  { intro p. unfold l'. rewrite ledger_step_get. unfold ob. rewrite observe_err, observe_outs, gamt_sort.
    rewrite Hal. f_equal. now apply base_alloc_ext. }
  assert (Hsum' : led_sum l' = total s').
  { pose proof (ledger_step_sum tk' l o ob) as Es. fold l' in Es. unfold ob in Es.
    rewrite observe_err, observe_outs, gtot_sort in Es.
    rewrite (base_alloc_ext _ (alloc_of s) o err (op_peer o) Hget) in Es. rewrite Hget in Es. lia. }
  assert (Hrel : Rel13 tk' l' s') by (repeat split; auto; apply HG' || apply HT').
  specialize (IH s' tk' l' Hrel). rewrite Er in IH. simpl in IH. destruct IH as [IHm IHok].
  rewrite Emt, Emp in IHm.
  assert (Etk : match o with OAlloc p a => (next_tkt s, (p, a)) :: tk | _ => tk end = tk')
    by (destruct o; reflexivity).
  assert (Ent' : match o with OAlloc _ _ => next_tkt s + 1 | _ => next_tkt s end = next_tkt s')
    by (destruct o; auto).
  rewrite Etk, Ent'. fold ob. fold l'. rewrite IHm, IHok.
  unfold ob at 1 2 3 4. rewrite observe_allocs, observe_total.
  rewrite (list_eqb_map_ext (alloc_of s') (fun p => led_get p l')) by (intro; now rewrite Hget').
  rewrite Hsum', N.eqb_refl.
  destruct HG' as [HI' HS'].
  assert (Hlim : (total s' <=? max_total s) = true).
  { apply N.leb_le. rewrite <- Emt. apply HI'. }
  rewrite Hlim.
  assert (Hpl : forallb (fun a => a <=? max_peer s) (map (alloc_of s') univ) = true).
  { apply forallb_forall. intros x Hx. apply in_map_iff in Hx as (p & <- & _).
    apply N.leb_le. rewrite <- Emp. unfold alloc_of.
    destruct (lookup p (peers s')) eqn:El; [eapply inv_peer; eauto | lia]. }
  rewrite Hpl.
  assert (Hrp' : match o with OReleasePeer p => led_get p l' =? 0 | _ => true end = true).
  { destruct o as [p a|p a|p]; auto. rewrite Hget'. apply N.eqb_eq.
    destruct err eqn:Eerr.
    - destruct (Herr eq_refl) as [-> ->]. unfold step in E.
      destruct (lookup p (peers s)) eqn:El.
      + destruct (run_pending _ _) as [[? ?] ?]. discriminate.
      + unfold alloc_of. now rewrite El.
    - unfold alloc_of. now rewrite (Hrp p eq_refl eq_refl). }
  rewrite Hrp'.
  assert (Hq : (if (total s' =? 0) && amounts_within (max_total s) (max_peer s) tk'
                then (o_total ob =? 0) && (o_pending ob =? 0) && (o_npending ob =? 0) else true) = true).
  { destruct (N.eqb_spec (total s') 0) as [Hz|]; [|reflexivity].
    destruct (amounts_within (max_total s) (max_peer s) tk') eqn:Haw; [|reflexivity]. simpl.
    pose proof (observe_pending univ s' outs err) as Ep. fold ob in Ep.
    rewrite (quiet tk' s') in Ep; auto; [| split; auto | now rewrite Emt, Emp].
    pose proof (f_equal fst Ep) as E1. pose proof (f_equal snd Ep) as E2. simpl in E1, E2.
    rewrite E1, E2. unfold ob. rewrite observe_total, Hz. reflexivity. }
  rewrite Hq. simpl. auto.
Qed.

(* ---------- reachable states ---------- *)
Lemma good_init mt mp : Good (init mt mp) /\ TkRel [] (init mt mp).
Proof.
  split; [split|split].
  - constructor; simpl; try lia; [constructor | discriminate].
  - intros p ps h r H. discriminate.
  - intros p ps x H. discriminate.
  - intros t v H. discriminate.
Qed.

Lemma rel13_init mt mp : Rel13 [] [] (init mt mp).
Proof. destruct (good_init mt mp). repeat split; auto; apply H || apply H0. Qed.

Lemma final_good : forall ops s tk, Good s -> TkRel tk s ->
  exists tk', Good (final s ops) /\ TkRel tk' (final s ops) /\
              max_total (final s ops) = max_total s /\ max_peer (final s ops) = max_peer s.
Proof.
  induction ops as [|o ops IH]; intros s tk HG HT; simpl; [eauto|].
  destruct (step_spec tk s o HG HT) as (s' & outs & err & E & HP). rewrite E.
  destruct HP as (HG' & HT' & Emt & Emp & _).
  destruct (IH s' _ HG' HT') as (tk' & A & B & C & D). exists tk'.
  split; [exact A|]. split; [exact B|]. split; [now rewrite C | now rewrite D].
Qed.

(* the decision rule of AllocateBlockMemory, stated outright *)
Definition waiting_of (s : st) (p : peer) : list pend :=
  match lookup p (peers s) with Some ps => ps_pend ps | None => [] end.

Definition can_grant_now (s : st) (p : peer) (a : N) : bool :=
  match waiting_of s p with
  | [] => fits (total s) a (max_total s) && fits (alloc_of s p) a (max_peer s)
  | _ => false
  end.

Lemma alloc_decision s p a :
  let '(s', outs, err, ok) := step s (OAlloc p a) in
  err = false /\ ok = true /\
  outs = (if can_grant_now s p a then [Granted (next_tkt s)] else []) /\
  alloc_of s' p = (if can_grant_now s p a then alloc_of s p + a else alloc_of s p) /\
  total s' = (if can_grant_now s p a then total s + a else total s) /\
  waiting_of s' p = (if can_grant_now s p a then waiting_of s p
                     else waiting_of s p ++ [ {| p_amt := a; p_idx := next_idx s; p_tkt := next_tkt s |} ]).
Proof.
  unfold step, can_grant_now, waiting_of, alloc_of.
  destruct (lookup p (peers s)) as [ps|] eqn:El; simpl.
  - destruct (ps_pend ps) as [|h r] eqn:Ep.
    + destruct (fits (total s) a (max_total s) && fits (ps_alloc ps) a (max_peer s)) eqn:Ef; simpl;
        rewrite lookup_set_eq; simpl; auto 10.
    + simpl. rewrite lookup_set_eq; simpl. auto 10.
  - destruct (fits (total s) a (max_total s) && fits 0 a (max_peer s)) eqn:Ef; simpl;
      rewrite lookup_set_eq; simpl; auto 10.
Qed.

(* ReleasePeerMemory fails every waiting allocation of that peer in the same call and forgets the peer *)
Lemma release_peer_fails_all tk s p ps : Good s -> TkRel tk s -> lookup p (peers s) = Some ps ->
  let '(s', outs, err, ok) := step s (OReleasePeer p) in
  err = false /\ ok = true /\ lookup p (peers s') = None /\ alloc_of s' p = 0 /\
  (forall x, In x (ps_pend ps) -> In (Failed (p_tkt x)) outs) /\
  (forall t, In (Failed t) outs -> exists x, In x (ps_pend ps) /\ p_tkt x = t).
Proof.
  intros HG HT Hlk.
  destruct (step_release_peer tk s p HG HT) as (s' & outs & err & E & HP). rewrite E.
  pose proof E as E0. unfold step in E0. rewrite Hlk in E0.
  destruct HG as [HI HS]. destruct HT as [HT HB].
  match type of E0 with context [run_pending ?s1 ?acc] =>
    assert (HI1 : Inv s1);
    [| assert (HT1 : TkInv tk s1);
       [| destruct (run_pending_spec tk s1 acc HI1 HT1)
            as (s2 & new & E2 & _ & _ & _ & _ & Hg & _ & _ & _); rewrite E2 in E0 ] ] end.
  - pose proof (psum_ge _ _ _ Hlk) as Hge. rewrite <- (inv_sum _ HI) in Hge.
    constructor; simpl.
    + apply nodup_remove, HI.
    + pose proof (psum_remove p (peers s)) as E1. unfold alloc_l in E1. rewrite Hlk in E1.
      rewrite (inv_sum _ HI) in *. destruct (N.leb_spec (ps_alloc ps) (psum (peers s))); lia.
    + pose proof (inv_tot _ HI). destruct (N.leb_spec (ps_alloc ps) (total s)); lia.
    + intros q qs Hq. destruct (N.eqb_spec p q) as [->|Hn].
      * rewrite lookup_remove_eq in Hq by apply HI. discriminate.
      * rewrite lookup_remove_neq in Hq by assumption. eapply inv_peer; eauto.
  - intros q qs x Hq Hx. simpl in Hq. destruct (N.eqb_spec p q) as [->|Hn].
    + rewrite lookup_remove_eq in Hq by apply HI. discriminate.
    + rewrite lookup_remove_neq in Hq by assumption. eapply HT; eauto.
  - inversion E0; subst. destruct HP as (_ & _ & _ & _ & _ & _ & _ & _ & Hrp).
    pose proof (Hrp p eq_refl eq_refl) as Hnone.
    repeat split; auto.
    + unfold alloc_of. now rewrite Hnone.
    + intros x Hx. apply in_app_iff. left. apply in_map_iff. eauto.
    + intros t Ht. apply in_app_iff in Ht as [Ht|Ht].
      * apply in_map_iff in Ht as (x & Ex & Hx). inversion Ex. eauto.
      * exfalso. unfold all_granted in Hg. rewrite Forall_forall in Hg.
        destruct (Hg _ Ht) as [u Eu]. discriminate.
Qed.

(* ---------- statements used by props/C13.v and props/C14.v ---------- *)
Lemma c13_monitor mt mp univ ops :
  monitor_C13 mt mp univ ops (fst (run univ (init mt mp) ops)) = true /\
  snd (run univ (init mt mp) ops) = true.
Proof. exact (monitor13_run univ ops (init mt mp) [] [] (rel13_init mt mp)). Qed.

Lemma c13_limits mt mp ops :
  let s := final (init mt mp) ops in
  total s <= mt /\ (forall p, alloc_of s p <= mp) /\ total s = psum (peers s).
Proof.
  destruct (good_init mt mp) as [HG HT].
  destruct (final_good ops _ _ HG HT) as (tk' & [HI _] & _ & Emt & Emp). simpl in *.
  set (s := final (init mt mp) ops) in *.
  split; [pose proof (inv_tot _ HI); lia|]. split; [|apply HI].
  intro p. unfold alloc_of. destruct (lookup p (peers s)) eqn:El; [|lia].
  pose proof (inv_peer _ HI _ _ El). lia.
Qed.

Lemma c14_stable mt mp ops : StableSt (final (init mt mp) ops).
Proof.
  destruct (good_init mt mp) as [HG HT].
  destruct (final_good ops _ _ HG HT) as (tk' & [_ HS] & _). exact HS.
Qed.

Lemma c14_release_peer mt mp ops p ps :
  let s := final (init mt mp) ops in
  lookup p (peers s) = Some ps ->
  let '(s', outs, err, ok) := step s (OReleasePeer p) in
  err = false /\ ok = true /\ lookup p (peers s') = None /\ alloc_of s' p = 0 /\
  (forall x, In x (ps_pend ps) -> In (Failed (p_tkt x)) outs) /\
  (forall t, In (Failed t) outs -> exists x, In x (ps_pend ps) /\ p_tkt x = t).
Proof.
  intros s Hlk. destruct (good_init mt mp) as [HG HT].
  destruct (final_good ops _ _ HG HT) as (tk' & HG' & HT' & _).
  exact (release_peer_fails_all tk' s p ps HG' HT' Hlk).
Qed.
