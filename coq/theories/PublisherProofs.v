(* PublisherProofs.v — the publisher registry refines the active-subscriptions specification (C18). *)
From Coq Require Import List NArith Bool Lia PeanoNat.
From GS Require Import Base Publisher.
Import ListNotations.
Open Scope N_scope.

(* ---------- sets as duplicate-free lists ---------- *)
Lemma mem_in x l : mem x l = true <-> In x l.
Proof. unfold mem. apply existsb_eqb_in'. Qed.
Lemma mem_app x a b : mem x (a ++ b) = mem x a || mem x b.
Proof. unfold mem. apply existsb_app. Qed.
Lemma mem_set_add x y l : mem x (set_add y l) = mem x l || N.eqb x y.
Proof.
  unfold set_add. destruct (mem y l) eqn:E.
  - destruct (N.eqb_spec x y) as [->|]; [now rewrite E | now rewrite orb_false_r].
  - rewrite mem_app. simpl. now rewrite orb_false_r.
Qed.
Lemma mem_set_del x y l : mem x (set_del y l) = mem x l && negb (N.eqb x y).
Proof.
  unfold set_del, mem. induction l as [|z l IH]; simpl; [reflexivity|].
  destruct (N.eqb_spec z y) as [->|Hne]; simpl.
  - rewrite IH. destruct (N.eqb_spec x y); simpl; [now rewrite andb_false_r | reflexivity].
  - rewrite IH. destruct (N.eqb_spec x z) as [->|]; simpl; [|reflexivity].
    destruct (N.eqb_spec z y); [contradiction | reflexivity].
Qed.
Lemma nodup_set_add y l : NoDup l -> NoDup (set_add y l).
Proof.
  intro H. unfold set_add. destruct (mem y l) eqn:E; [exact H|].
  apply nodup_snoc; [exact H|]. intro Hin. apply mem_in in Hin. congruence.
Qed.
Lemma nodup_set_del y l : NoDup l -> NoDup (set_del y l).
Proof. intro H. unfold set_del. now apply NoDup_filter. Qed.

Lemma same_mem_length (a b : list N) : NoDup a -> NoDup b -> (forall x, mem x a = mem x b) ->
  length a = length b.
Proof.
  intros Ha Hb H.
  assert (A : (length a <= length b)%nat).
  { apply NoDup_incl_length; auto. intros x Hx. apply mem_in. apply mem_in in Hx. congruence. }
  assert (B : (length b <= length a)%nat).
  { apply NoDup_incl_length; auto. intros x Hx. apply mem_in. apply mem_in in Hx. congruence. }
  lia.
Qed.

(* ---------- the map-of-sets update used by remove ---------- *)
Definition upd (k : N) (l : list N) (m : list (N * list N)) : list (N * list N) :=
  match l with [] => adel k m | _ => aput k l m end.
Lemma getl_upd k' k l m : getl k' (upd k l m) = if N.eqb k' k then l else getl k' m.
Proof.
  unfold getl, upd. destruct (N.eqb_spec k' k) as [->|Hne].
  - destruct l; [now rewrite aget_adel_eq | now rewrite aget_aput_eq].
  - destruct l; [rewrite aget_adel_neq by congruence | rewrite aget_aput_neq by congruence]; reflexivity.
Qed.
Lemma getl_aput k' k l m : getl k' (aput k l m) = if N.eqb k' k then l else getl k' m.
Proof.
  unfold getl. destruct (N.eqb_spec k' k) as [->|Hne];
    [now rewrite aget_aput_eq | now rewrite aget_aput_neq by congruence].
Qed.
Lemma nodup_upd k l (m : list (N * list N)) : NoDup (map fst m) -> NoDup (map fst (upd k l m)).
Proof. intro H. unfold upd. destruct l; [now apply nodup_adel | now apply nodup_aput]. Qed.

(* ---------- active sets ---------- *)
Lemma pair_eqb_eq a b : pair_eqb a b = true <-> a = b.
Proof.
  unfold pair_eqb. destruct a as [t s], b as [u v]; simpl. rewrite andb_true_iff, !N.eqb_eq.
  split; [intros [-> ->]; reflexivity | intro H; inversion H; auto].
Qed.
Lemma is_active_in t s a : is_active t s a = true <-> In (t, s) a.
Proof.
  unfold is_active. rewrite existsb_exists. split.
  - intros (x & Hx & E). apply pair_eqb_eq in E. now subst.
  - intro H. exists (t, s). split; [assumption | now apply pair_eqb_eq].
Qed.
Lemma is_active_filter t s f a : is_active t s (filter f a) = is_active t s a && f (t, s).
Proof.
  destruct (is_active t s (filter f a)) eqn:E.
  - apply is_active_in in E. apply filter_In in E as [E1 E2]. apply is_active_in in E1. now rewrite E1, E2.
  - destruct (is_active t s a) eqn:E1; [|reflexivity]. destruct (f (t, s)) eqn:E2; [|reflexivity].
    apply is_active_in in E1. assert (In (t, s) (filter f a)) by (apply filter_In; auto).
    apply is_active_in in H. congruence.
Qed.
Lemma is_active_add t s t' s' a : is_active t s (act_add t' s' a) = is_active t s a || pair_eqb (t, s) (t', s').
Proof.
  unfold act_add. destruct (is_active t' s' a) eqn:E.
  - destruct (pair_eqb (t, s) (t', s')) eqn:E2; [|now rewrite orb_false_r].
    apply pair_eqb_eq in E2. inversion E2; subst. now rewrite E.
  - unfold is_active. rewrite existsb_app. simpl. now rewrite orb_false_r.
Qed.
Lemma nodup_act_add t s a : NoDup a -> NoDup (act_add t s a).
Proof.
  intro H. unfold act_add. destruct (is_active t s a) eqn:E; [exact H|].
  clear -H E. assert (Hn : ~ In (t, s) a) by (intro Hin; apply is_active_in in Hin; congruence).
  induction a as [|x a IH]; simpl.
  - constructor; [intros [] | constructor].
  - inversion H; subst. constructor.
    + rewrite in_app_iff. simpl. intros [?|[?|[]]]; [contradiction | subst; apply Hn; now left].
    + apply IH; auto.
      * destruct (is_active t s a) eqn:E2; [|reflexivity]. apply is_active_in in E2. exfalso. apply Hn. now right.
      * intro; apply Hn; now right.
Qed.

Lemma mem_topics_of t s a : mem t (topics_of s a) = is_active t s a.
Proof.
  unfold topics_of. destruct (mem t (map fst (filter (fun x => snd x =? s) a))) eqn:E.
  - apply mem_in in E. apply in_map_iff in E as ([t' s'] & E1 & E2). simpl in E1. subst.
    apply filter_In in E2 as [E2 E3]. simpl in E3. apply N.eqb_eq in E3. subst. symmetry. now apply is_active_in.
  - destruct (is_active t s a) eqn:E2; [|reflexivity]. apply is_active_in in E2.
    assert (In t (map fst (filter (fun x => snd x =? s) a))).
    { apply in_map_iff. exists (t, s). split; [reflexivity|]. apply filter_In. split; [assumption|]. simpl. apply N.eqb_refl. }
    apply mem_in in H. congruence.
Qed.
Lemma nodup_topics_of s a : NoDup a -> NoDup (topics_of s a).
Proof.
  intro H. unfold topics_of. induction a as [|[t' s'] a IH]; simpl; [constructor|].
  inversion H; subst. destruct (N.eqb_spec s' s) as [->|]; simpl; [|now apply IH].
  constructor; [|now apply IH]. intro Hin. apply in_map_iff in Hin as ([t2 s2] & E1 & E2). simpl in E1. subst.
  apply filter_In in E2 as [E2 E3]. simpl in E3. apply N.eqb_eq in E3. subst. contradiction.
Qed.

(* ---------- the registry invariant ---------- *)
Record PInv (g : reg) (a : active) : Prop := {
  pi_top : forall t s, mem s (getl t (topics g)) = is_active t s a;
  pi_rev : forall s t, mem t (getl s (rev g)) = is_active t s a;
  pi_nd_top : forall t, NoDup (getl t (topics g));
  pi_nd_rev : forall s, NoDup (getl s (rev g));
  pi_keys : NoDup (map fst (topics g));
  pi_nd_a : NoDup a
}.

Lemma PInv_ext g a a' : PInv g a -> NoDup a' -> (forall t s, is_active t s a' = is_active t s a) -> PInv g a'.
Proof.
  intros [H1 H2 H3 H4 H5 H6] Hn He. constructor; auto; intros; rewrite He; auto.
Qed.

Lemma PInv_init : PInv {| topics := []; rev := [] |} [].
Proof. constructor; simpl; intros; try reflexivity; constructor. Qed.

Lemma PInv_add g a t s : PInv g a -> PInv (reg_add t s g) (act_add t s a).
Proof.
  intros [H1 H2 H3 H4 H5 H6]. unfold reg_add. constructor; simpl.
  - intros t' s'. rewrite getl_aput, is_active_add. unfold pair_eqb. simpl.
    destruct (N.eqb_spec t' t) as [->|]; simpl.
    + rewrite mem_set_add, H1. reflexivity.
    + rewrite H1. now rewrite orb_false_r.
  - intros s' t'. rewrite getl_aput, is_active_add. unfold pair_eqb. simpl.
    destruct (N.eqb_spec s' s) as [->|]; simpl.
    + rewrite mem_set_add, H2. now rewrite andb_true_r.
    + rewrite H2. now rewrite andb_false_r, orb_false_r.
  - intro t'. rewrite getl_aput. destruct (N.eqb t' t); [apply nodup_set_add|]; apply H3.
  - intro s'. rewrite getl_aput. destruct (N.eqb s' s); [apply nodup_set_add|]; apply H4.
  - now apply nodup_aput.
  - now apply nodup_act_add.
Qed.

Definition drop_pair (t : topic) (s : subr) (a : active) : active :=
  filter (fun x => negb (pair_eqb x (t, s))) a.

Lemma getl_nonempty_aget k (m : list (N * list N)) x : mem x (getl k m) = true -> exists l, aget k m = Some l /\ getl k m = l.
Proof. unfold getl. destruct (aget k m) as [l|]; [eauto | discriminate]. Qed.

Lemma remove_active g a t s : PInv g a -> is_active t s a = true ->
  exists g', reg_remove t s g = (g', true) /\ PInv g' (drop_pair t s a).
Proof.
  intros HI Hact. pose proof HI as [H1 H2 H3 H4 H5 H6].
  assert (Hm1 : mem s (getl t (topics g)) = true) by now rewrite H1.
  assert (Hm2 : mem t (getl s (rev g)) = true) by now rewrite H2.
  destruct (getl_nonempty_aget _ _ _ Hm1) as (subs & Es & Eg1).
  destruct (getl_nonempty_aget _ _ _ Hm2) as (tps & Et & Eg2).
  subst subs.
  exists {| topics := upd t (set_del s (getl t (topics g))) (topics g);
            rev := upd s (set_del t (getl s (rev g))) (rev g) |}.
  split; [unfold reg_remove; rewrite Es, Hm1; simpl; rewrite Et; reflexivity|].
  constructor; simpl.
  - intros t' s'. rewrite getl_upd. unfold drop_pair. rewrite is_active_filter. unfold pair_eqb. simpl.
    destruct (N.eqb_spec t' t) as [->|]; simpl.
    + rewrite mem_set_del. rewrite H1. reflexivity.
    + rewrite H1. now rewrite andb_true_r.
  - intros s' t'. rewrite getl_upd. unfold drop_pair. rewrite is_active_filter. unfold pair_eqb. simpl.
    destruct (N.eqb_spec s' s) as [->|]; simpl.
    + rewrite mem_set_del, H2. now rewrite andb_true_r.
    + rewrite H2. now rewrite andb_false_r, andb_true_r.
  - intro t'. rewrite getl_upd. destruct (N.eqb t' t); [apply nodup_set_del|]; apply H3.
  - intro s'. rewrite getl_upd. destruct (N.eqb s' s); [apply nodup_set_del|]; apply H4.
  - now apply nodup_upd.
  - unfold drop_pair. now apply NoDup_filter.
Qed.

Lemma rm_pairs_cons t s ps g out :
  rm_pairs ((t, s) :: ps) (g, out) =
  rm_pairs ps (let '(g', c) := reg_remove t s g in (g', if c then out ++ [(s, EClose t)] else out)).
Proof. reflexivity. Qed.

(* removing a duplicate-free list of active pairs *)
Lemma rm_pairs_spec : forall ps g a out0,
  PInv g a -> NoDup ps -> (forall t s, In (t, s) ps -> is_active t s a = true) ->
  exists g', rm_pairs ps (g, out0) = (g', out0 ++ map close_ev ps) /\
             PInv g' (filter (fun x => negb (existsb (pair_eqb x) ps)) a).
Proof.
  induction ps as [|[t s] ps IH]; intros g a out0 HI Hn Hact.
  - exists g. simpl. rewrite app_nil_r. split; [reflexivity|].
    apply (PInv_ext g a); auto.
    + apply NoDup_filter, HI.
    + intros t s. rewrite is_active_filter. simpl. now rewrite andb_true_r.
  - inversion Hn as [|? ? Hnotin Hn']; subst.
    destruct (remove_active g a t s HI (Hact t s (or_introl eq_refl))) as (g1 & E1 & HI1).
    rewrite rm_pairs_cons, E1. cbv beta iota.
    destruct (IH g1 (drop_pair t s a) (out0 ++ [(s, EClose t)]) HI1 Hn') as (g' & E' & HI').
    + intros t' s' Hin. unfold drop_pair. rewrite is_active_filter, (Hact t' s') by now right. simpl.
      destruct (pair_eqb (t', s') (t, s)) eqn:E; [|reflexivity].
      apply pair_eqb_eq in E. inversion E; subst. contradiction.
    + exists g'. split; [etransitivity; [exact E'|]; rewrite <- app_assoc; reflexivity|].
      apply (PInv_ext g' _ _ HI').
      * apply NoDup_filter, HI.
      * intros t' s'. unfold drop_pair. rewrite !is_active_filter. simpl.
        destruct (is_active t' s' a); simpl; [|reflexivity].
        destruct (pair_eqb (t', s') (t, s)); reflexivity.
Qed.

(* ---------- what each subscriber sees ---------- *)
Lemma events_of_app s a b : events_of s (a ++ b) = events_of s a ++ events_of s b.
Proof. unfold events_of. now rewrite filter_app, map_app. Qed.

Lemma events_of_bcast s' ev (L : list N) : NoDup L ->
  events_of s' (map (fun s => (s, ev)) L) = if mem s' L then [ev] else [].
Proof.
  unfold events_of. induction L as [|x L IH]; intro Hn; simpl; [reflexivity|].
  inversion Hn; subst. rewrite (N.eqb_sym s' x). destruct (N.eqb_spec x s') as [->|Hne]; simpl.
  - rewrite IH by assumption. destruct (mem s' L) eqn:E; [apply mem_in in E; contradiction | reflexivity].
  - now apply IH.
Qed.

Lemma events_of_topic_pairs s' t (L : list N) : NoDup L ->
  events_of s' (map close_ev (map (fun s => (t, s)) L)) =
  if mem s' L then [EClose t] else [].
Proof. intro H. rewrite map_map. now apply (events_of_bcast s' (EClose t) L). Qed.

Lemma events_of_sub_pairs s' s (T : list N) :
  events_of s' (map close_ev (map (fun t => (t, s)) T)) =
  if N.eqb s' s then map EClose T else [].
Proof.
  rewrite map_map. unfold events_of. induction T as [|t T IH]; simpl.
  - now destruct (N.eqb s' s).
  - rewrite (N.eqb_sym s s'). destruct (N.eqb s' s); simpl; [now rewrite IH | exact IH].
Qed.

Lemma events_of_drain s' (M : list (N * list N)) :
  (forall ts, In ts M -> NoDup (snd ts)) ->
  events_of s' (map close_ev (flat_map (fun ts => map (fun s => (fst ts, s)) (snd ts)) M)) =
  map EClose (map fst (filter (fun ts => mem s' (snd ts)) M)).
Proof.
  induction M as [|[t subs] M IH]; intro Hn; [reflexivity|].
  cbn [flat_map filter]. rewrite map_app, events_of_app. rewrite IH by (intros; apply Hn; now right).
  cbn [fst snd]. rewrite (events_of_topic_pairs s' t subs) by (apply (Hn (t, subs)); now left).
  destruct (mem s' subs); reflexivity.
Qed.

Lemma closes_exactly_ok (T T0 : list N) : NoDup T -> NoDup T0 -> (forall t, mem t T = mem t T0) ->
  closes_exactly T0 (map EClose T) = true.
Proof.
  intros H H0 He. unfold closes_exactly.
  assert (El : length (map EClose T) = length T0) by (rewrite map_length; now apply same_mem_length).
  rewrite El, Nat.eqb_refl. simpl.
  apply andb_true_iff. split.
  - apply forallb_forall. intros e Hin. apply in_map_iff in Hin as (t & <- & _). reflexivity.
  - apply forallb_forall. intros t Hin. apply existsb_exists. exists (EClose t). split.
    + apply in_map. apply mem_in. rewrite He. now apply mem_in.
    + simpl. apply N.eqb_refl.
Qed.

Lemma nodup_map_pair_l (t : N) (L : list N) : NoDup L -> NoDup (map (fun s => (t, s)) L).
Proof.
  induction L as [|x L IH]; intro H; simpl; [constructor|]. inversion H; subst. constructor; [|now apply IH].
  intro Hin. apply in_map_iff in Hin as (y & E & Hy). inversion E; subst. contradiction.
Qed.
Lemma nodup_map_pair_r (s : N) (T : list N) : NoDup T -> NoDup (map (fun t => (t, s)) T).
Proof.
  induction T as [|x T IH]; intro H; simpl; [constructor|]. inversion H; subst. constructor; [|now apply IH].
  intro Hin. apply in_map_iff in Hin as (y & E & Hy). inversion E; subst. contradiction.
Qed.
Lemma nodup_all_pairs (M : list (N * list N)) : NoDup (map fst M) -> (forall ts, In ts M -> NoDup (snd ts)) ->
  NoDup (flat_map (fun ts => map (fun s => (fst ts, s)) (snd ts)) M).
Proof.
  induction M as [|[t subs] M IH]; intros Hk Hn; simpl; [constructor|].
  inversion Hk; subst. apply NoDup_app_iff_disj.
  - apply nodup_map_pair_l. apply (Hn (t, subs)). now left.
  - apply IH; auto. intros; apply Hn; now right.
  - intros [t' s'] Hin1 Hin2. apply in_map_iff in Hin1 as (y & E & _). inversion E; subst.
    apply in_flat_map in Hin2 as ([t2 subs2] & Hin2 & Hin3). apply in_map_iff in Hin3 as (z & E2 & _).
    simpl in E2. inversion E2; subst. match goal with H : ~ In _ _ |- _ => apply H end.
    change t' with (fst (t', subs2)). now apply in_map.
Qed.

(* ---------- the refinement ---------- *)
Lemma pev_eqb_refl e : pev_eqb e e = true.
Proof. destruct e; simpl; rewrite ?N.eqb_refl; reflexivity. Qed.
Lemma list_eqb_refl {A} (eqb : A -> A -> bool) : (forall x, eqb x x = true) -> forall l, list_eqb eqb l l = true.
Proof. intros H l. induction l; simpl; [reflexivity | now rewrite H, IHl]. Qed.
Lemma pobs_refl (o : pobs) : list_eqb (list_eqb pev_eqb) o o = true.
Proof. apply list_eqb_refl. apply list_eqb_refl. apply pev_eqb_refl. Qed.

Lemma combine_map_self {A B} (f : A -> B) l : combine l (map f l) = map (fun x => (x, f x)) l.
Proof. induction l; simpl; [reflexivity | now rewrite IHl]. Qed.

Lemma nodup_map_fst_filter (f : N * list N -> bool) M : NoDup (map fst M) -> NoDup (map fst (filter f M)).
Proof.
  induction M as [|x M IH]; simpl; intro H; [constructor|]. inversion H; subst.
  destruct (f x); simpl; [|now apply IH]. constructor; [|now apply IH].
  intro Hin. apply in_map_iff in Hin as (y & E & Hy). apply filter_In in Hy as [Hy _].
  match goal with H : ~ In _ _ |- _ => apply H end. rewrite <- E. now apply in_map.
Qed.

Lemma getl_in k (M : list (N * list N)) l : NoDup (map fst M) -> In (k, l) M -> getl k M = l.
Proof. intros Hn Hin. unfold getl. now rewrite (in_aget k l M Hn Hin). Qed.
Lemma in_getl k (M : list (N * list N)) x : mem x (getl k M) = true -> In (k, getl k M) M.
Proof.
  intro H. destruct (getl_nonempty_aget _ _ _ H) as (l & E1 & E2). rewrite E2. now apply aget_in.
Qed.

Lemma pstep_refines univ p a o : PInv (r p) a ->
  let '(p', out) := pstep p o in
  let '(cl', a', ok) := spec_pstep (closed p) a univ o (pobserve univ out) in
  ok = true /\ cl' = closed p' /\ PInv (r p') a'.
Proof.
  intro HI. unfold pstep, spec_pstep. destruct (closed p) eqn:Ecl.
  - simpl. split; [|split; [now rewrite Ecl | exact HI]]. unfold pobserve. rewrite forallb_forall.
    intros evs Hin. apply in_map_iff in Hin as (s & <- & _). reflexivity.
  - pose proof HI as [H1 H2 H3 H4 H5 H6]. destruct o as [t s|s|t e|t|].
    + (* subscribe *)
      simpl. split; [|split; [reflexivity | now apply PInv_add]]. unfold pobserve. rewrite forallb_forall.
      intros evs Hin. apply in_map_iff in Hin as (s' & <- & _). reflexivity.
    + (* unsubscribe *)
      destruct (rm_pairs_spec (map (fun t => (t, s)) (getl s (rev (r p)))) (r p) a [] HI) as (g' & E0 & HI').
      * apply nodup_map_pair_r, H4.
      * intros t s' Hin. apply in_map_iff in Hin as (t' & E & Hin). inversion E; subst.
        rewrite <- H2. now apply mem_in.
      * assert (E : reg_remove_sub s (r p) = (g', [] ++ map close_ev (map (fun t => (t, s)) (getl s (rev (r p)))))) by exact E0.
        rewrite E. simpl. split; [|split; [reflexivity|]].
        -- unfold pobserve. rewrite map_length, Nat.eqb_refl. simpl. rewrite combine_map_self.
           apply forallb_forall. intros [s' evs] Hin. apply in_map_iff in Hin as (s'' & Ex & _). inversion Ex; subst.
           rewrite events_of_sub_pairs. destruct (N.eqb_spec s' s) as [->|]; [|reflexivity].
           apply closes_exactly_ok; auto; [now apply nodup_topics_of|].
           intro t. now rewrite H2, mem_topics_of.
        -- apply (PInv_ext g' _ _ HI'); [now apply NoDup_filter|].
           intros t' s'. rewrite !is_active_filter. simpl.
           destruct (is_active t' s' a) eqn:Ea; simpl; [|reflexivity]. f_equal.
           destruct (N.eqb_spec s' s) as [->|Hne].
           ++ symmetry. apply existsb_exists. exists (t', s). split; [|now apply pair_eqb_eq].
              apply in_map_iff. exists t'. split; [reflexivity|]. apply mem_in. now rewrite H2.
           ++ destruct (existsb (pair_eqb (t', s')) (map (fun t => (t, s)) (getl s (rev (r p))))) eqn:Ex; [|reflexivity].
              apply existsb_exists in Ex as (y & Hy & Ey). apply pair_eqb_eq in Ey. subst y.
              apply in_map_iff in Hy as (t2 & E2 & _). inversion E2; subst. contradiction.
    + (* publish *)
      simpl. rewrite Ecl. split; [|split; [reflexivity | exact HI]].
      unfold pobserve, reg_send.
      assert (Em : map (fun s => events_of s (map (fun s0 => (s0, ENext t e)) (getl t (topics (r p))))) univ =
                   map (fun s => if is_active t s a then [ENext t e] else []) univ).
      { apply map_ext. intro s. rewrite events_of_bcast by apply H3. now rewrite H1. }
      rewrite Em. apply pobs_refl.
    + (* close topic *)
      destruct (rm_pairs_spec (map (fun s => (t, s)) (getl t (topics (r p)))) (r p) a [] HI) as (g' & E0 & HI').
      * apply nodup_map_pair_l, H3.
      * intros t' s Hin. apply in_map_iff in Hin as (s' & E & Hin). inversion E; subst.
        rewrite <- H1. now apply mem_in.
      * assert (E : reg_remove_topic t (r p) = (g', [] ++ map close_ev (map (fun s => (t, s)) (getl t (topics (r p)))))) by exact E0.
        rewrite E. simpl. split; [|split; [reflexivity|]].
        -- unfold pobserve.
           assert (Em : map (fun s => events_of s (map close_ev (map (fun s0 => (t, s0)) (getl t (topics (r p)))))) univ =
                        map (fun s => if is_active t s a then [EClose t] else []) univ).
           { apply map_ext. intro s. rewrite events_of_topic_pairs by apply H3. now rewrite H1. }
           rewrite Em. apply pobs_refl.
        -- apply (PInv_ext g' _ _ HI'); [now apply NoDup_filter|].
           intros t' s'. rewrite !is_active_filter. simpl.
           destruct (is_active t' s' a) eqn:Ea; simpl; [|reflexivity]. f_equal.
           destruct (N.eqb_spec t' t) as [->|Hne].
           ++ symmetry. apply existsb_exists. exists (t, s'). split; [|now apply pair_eqb_eq].
              apply in_map_iff. exists s'. split; [reflexivity|]. apply mem_in. now rewrite H1.
           ++ destruct (existsb (pair_eqb (t', s')) (map (fun s => (t, s)) (getl t (topics (r p))))) eqn:Ex; [|reflexivity].
              apply existsb_exists in Ex as (y & Hy & Ey). apply pair_eqb_eq in Ey. subst y.
              apply in_map_iff in Hy as (s2 & E2 & _). inversion E2; subst. contradiction.
    + (* shutdown *)
      set (M := topics (r p)).
      assert (Hsub : forall ts, In ts M -> NoDup (snd ts)).
      { intros [t subs] Hin. simpl. rewrite <- (getl_in t M subs H5 Hin). apply H3. }
      destruct (rm_pairs_spec (flat_map (fun ts => map (fun s => (fst ts, s)) (snd ts)) M) (r p) a [] HI) as (g' & E0 & HI').
      * now apply nodup_all_pairs.
      * intros t s Hin. apply in_flat_map in Hin as ([t' subs] & Hin1 & Hin2).
        apply in_map_iff in Hin2 as (s' & E & Hin2). simpl in E. inversion E; subst.
        rewrite <- H1. apply mem_in. unfold M in Hin1. now rewrite (getl_in t _ subs H5 Hin1).
      * assert (E : reg_drain (r p) = (g', [] ++ map close_ev (flat_map (fun ts => map (fun s => (fst ts, s)) (snd ts)) M))) by exact E0.
        rewrite E. simpl. split; [|split; [reflexivity|]].
        -- unfold pobserve. rewrite map_length, Nat.eqb_refl. simpl. rewrite combine_map_self.
           apply forallb_forall. intros [s' evs] Hin. apply in_map_iff in Hin as (s'' & Ex & _). inversion Ex; subst.
           rewrite events_of_drain by assumption.
           apply closes_exactly_ok; [now apply nodup_map_fst_filter | now apply nodup_topics_of |].
           intro t. rewrite mem_topics_of, <- H1. change (topics (r p)) with M.
           destruct (mem s' (getl t M)) eqn:Em.
           ++ apply mem_in. apply in_map_iff. exists (t, getl t M). split; [reflexivity|].
              apply filter_In. split; [now apply (in_getl t M s') | exact Em].
           ++ destruct (mem t (map fst (filter (fun ts => mem s' (snd ts)) M))) eqn:Emt; [|reflexivity].
              apply mem_in in Emt. apply in_map_iff in Emt as ([t2 subs] & E2 & Hin2). simpl in E2. subst t2.
              apply filter_In in Hin2 as [Hin2 Hm]. simpl in Hm. rewrite (getl_in t M subs H5 Hin2) in Em. congruence.
        -- apply (PInv_ext g' _ _ HI'); [constructor|].
           intros t s. simpl. symmetry. rewrite is_active_filter.
           destruct (is_active t s a) eqn:Ea; simpl; [|reflexivity].
           apply negb_false_iff. apply existsb_exists. exists (t, s). split; [|now apply pair_eqb_eq].
           apply in_flat_map. exists (t, getl t M). rewrite <- H1 in Ea. split; [now apply (in_getl t M s)|].
           simpl. apply in_map. now apply mem_in.
Qed.

Theorem monitor18_run univ : forall ops p a, PInv (r p) a ->
  monitor18 (closed p) a univ ops (prun univ p ops) = true.
Proof.
  induction ops as [|o ops IH]; intros p a HI; simpl; [reflexivity|].
  pose proof (pstep_refines univ p a o HI) as H.
  destruct (pstep p o) as [p' out].
  destruct (spec_pstep (closed p) a univ o (pobserve univ out)) as [[cl' a'] ok].
  destruct H as (-> & -> & HI'). simpl. now apply IH.
Qed.

Lemma c18_monitor univ ops : monitor_C18 univ ops (prun univ pub_new ops) = true.
Proof. exact (monitor18_run univ ops pub_new [] PInv_init). Qed.

(* the two indexes of the registry stay mutually consistent in every reachable state *)
Lemma pfinal_inv : forall ops p a, PInv (r p) a -> exists a', PInv (r (pfinal p ops)) a'.
Proof.
  induction ops as [|o ops IH]; intros p a HI; simpl; [eauto|].
  pose proof (pstep_refines [] p a o HI) as H. destruct (pstep p o) as [p' out].
  destruct (spec_pstep (closed p) a [] o (pobserve [] out)) as [[cl' a'] ok].
  destruct H as (_ & _ & HI'). simpl. eauto.
Qed.
