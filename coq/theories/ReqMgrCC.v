(* ReqMgrCC.v — history level: a context cancel seen by a listening error collector yields ClientCancelled
   before the returned error channel closes (C04 S2). *)
From Coq Require Import List NArith Bool Arith Lia.
From GS Require Import Base ReqMgr ReqMgrProofs.
Import ListNotations.

Lemma coe_cctx e eo s : cctx (cancel_on_error e eo s) = cctx s.
Proof. unfold cancel_on_error, terminate, term2, term3. destruct (e_state e), (e_terr e), eo, (e_started e); reflexivity. Qed.
Lemma terminate_cctx e rel s : cctx (terminate e rel s) = cctx s.
Proof. unfold terminate, term2, term3. destruct (e_terr e), (e_started e), rel; reflexivity. Qed.
Lemma term2_cctx a rel s : cctx (term2 a rel s) = cctx s.
Proof. unfold term2, term3. destruct a, rel; reflexivity. Qed.
Lemma term3_cctx rel s : cctx (term3 rel s) = cctx s.
Proof. unfold term3. destruct rel; reflexivity. Qed.

Lemma handle_cctx m s s1 e1 : handle m s = Some (s1, e1) -> cctx s1 = cctx s.
Proof.
  unfold handle. intro H. dm H; inv H; simpl; rewrite ?coe_cctx, ?terminate_cctx; simpl; auto;
    repeat match goal with |- context [cancel_on_error ?a ?b ?c] => rewrite (coe_cctx a b c) end; simpl; auto.
Qed.
Lemma exec_cctx c s s1 e1 : exec_step c s = Some (s1, e1) -> cctx s1 = cctx s.
Proof. unfold exec_step, after_err, trav_ok, trav_skip. intro H. dm H; inv H; reflexivity. Qed.

Lemma recv_visit_cctx d s s0 : recv_visit d s = Some s0 -> cctx s0 = cctx s.
Proof. unfold recv_visit. intro H. dm H; inv H; reflexivity. Qed.
Lemma recv_err_cctx d e s s0 : recv_err d e s = Some s0 -> cctx s0 = cctx s.
Proof. unfold recv_err. intro H. dm H; inv H; reflexivity. Qed.
Lemma send_err_cctx src s e s0 : send_err src s = Some (e, s0) -> cctx s0 = cctx s.
Proof. unfold send_err, trav_skip. intro H. dm H; inv H; simpl; rewrite ?term2_cctx; reflexivity. Qed.

Lemma step_raw_cctx s l s1 e1 : step_raw s l = Some (s1, e1) -> cctx s = true -> cctx s1 = true.
Proof.
  destruct l; simpl; intros H C; try (inv H; simpl; auto; fail).
  - dm H; inv H; simpl; auto.
  - dm H; inv H; simpl; auto.
  - dm H; try (inv H; rewrite term3_cctx; auto; fail). apply handle_cctx in H. simpl in H. congruence.
  - dm H; inv H; simpl; auto.
  - apply exec_cctx in H. congruence.
  - dm H; try (inv H; simpl; auto; fail). apply recv_visit_cctx in Heqo. inv H. simpl. congruence.
  - dm H. inv H. apply send_err_cctx in Heqo. apply recv_err_cctx in Heqo0. congruence.
  - dm H; inv H; simpl; auto; congruence.
  - dm H; inv H; simpl; auto; congruence.
Qed.
Lemma rc_norm_cctx s : cctx (fst (rc_norm s)) = cctx s.
Proof. unfold rc_norm. dmg; reflexivity. Qed.
Lemma ec_norm_cctx s : cctx (fst (ec_norm s)) = cctx s.
Proof. unfold ec_norm. dmg; reflexivity. Qed.
Lemma norm_cctx r : cctx (fst (with_norm r)) = cctx (fst r).
Proof.
  destruct r as [s e]. unfold with_norm. pose proof (rc_norm_cctx s) as A.
  destruct (rc_norm s) as [sb eb]. pose proof (ec_norm_cctx sb) as B. destruct (ec_norm sb) as [sc ec']. simpl in *. congruence.
Qed.

Lemma step_cctx s l s1 e1 : step s l = Some (s1, e1) -> cctx s = true -> cctx s1 = true.
Proof.
  unfold step. destruct (step_raw s l) as [[sa ea]|] eqn:R; [|discriminate]. intros H C.
  pose proof (norm_cctx (sa, ea)) as N. destruct (with_norm (sa, ea)) as [sb eb]. simpl in N. inv H.
  rewrite N. eapply step_raw_cctx; eauto.
Qed.

(* the error collector still listens to the internal error channel, or is about to deliver ClientCancelled *)
Definition ec_armed (s : st) : Prop := ec s = ECRun true \/ exists b, ec s = ECSendCC b.
Definition cc_in (es : list ev) : Prop := In (EvDelivE ErrCC) es.

Lemma step_raw_armed s l s1 e1 :
  step_raw s l = Some (s1, e1) -> cctx s = true -> ec_armed s -> cc_in e1 \/ ec_armed s1.
Proof.
  unfold ec_armed, cc_in. destruct l; simpl; intros H C A; try (inv H; simpl; auto; fail).
  - dm H; inv H; simpl; auto.
  - destruct A as [A|[b A]]; rewrite A in H.
    + dm H; inv H; simpl; auto.
    + destruct b; inv H; simpl; auto.
  - dm H; try (inv H; destruct (term3_ch rel s) as [_ ->]; auto; fail).
    apply handle_ch in H as (_ & B & _). simpl in B. rewrite B. auto.
  - dm H; inv H; simpl; auto.
  - apply exec_ch in H as (_ & B & _). rewrite B. auto.
  - dm H; try (inv H; simpl; auto; fail). apply recv_visit_ch in Heqo as [_ B]. inv H. simpl. rewrite B. auto.
  - dm H. inv H. apply send_err_ch in Heqo as [_ B]. apply recv_err_ch in Heqo0 as [_ B']. rewrite B', B. auto.
  - dm H; inv H; simpl; auto.
  - destruct A as [A|[b A]]; rewrite A in H; dm H; inv H; simpl; eauto; congruence.
Qed.

Lemma rc_norm_ec s : ec (fst (rc_norm s)) = ec s.
Proof. unfold rc_norm. dmg; reflexivity. Qed.
Lemma ec_norm_armed s : ec_armed s -> ec_armed (fst (ec_norm s)).
Proof.
  unfold ec_armed, ec_norm. intros [A|[b A]]; rewrite A; simpl; eauto.
Qed.

Lemma step_armed s l s1 e1 :
  step s l = Some (s1, e1) -> cctx s = true -> ec_armed s -> cc_in e1 \/ ec_armed s1.
Proof.
  unfold step. destruct (step_raw s l) as [[sa ea]|] eqn:R; [|discriminate]. intros H C A.
  destruct (step_raw_armed _ _ _ _ R C A) as [D|D].
  - left. unfold with_norm in H. destruct (rc_norm sa) as [sb eb]. destruct (ec_norm sb) as [sc ec']. inv H.
    unfold cc_in in *. apply in_or_app. now left.
  - right. unfold with_norm in H. pose proof (rc_norm_ec sa) as E1.
    destruct (rc_norm sa) as [sb eb]. simpl in E1.
    assert (ec_armed sb) as D' by (unfold ec_armed in *; rewrite E1; exact D).
    pose proof (ec_norm_armed sb D') as D''. destruct (ec_norm sb) as [sc ec']. inv H. exact D''.
Qed.

Theorem cc_before_close : forall ls s s' es,
  run s ls = Some (s', es) -> cctx s = true -> ec_armed s -> cc_in es \/ ec_armed s'.
Proof.
  induction ls as [|l ls IH]; simpl; intros s s' es H C A.
  - inv H. now right.
  - destruct (step s l) as [[s1 e1]|] eqn:S; [|discriminate].
    destruct (run s1 ls) as [[s2 e2]|] eqn:R; [|discriminate]. inv H.
    pose proof (step_cctx _ _ _ _ S C) as C1.
    destruct (step_armed _ _ _ _ S C A) as [D|D].
    + left. unfold cc_in in *. apply in_or_app. now left.
    + destruct (IH _ _ _ R C1 D) as [D'|D']; [left; unfold cc_in in *; apply in_or_app; now right | now right].
Qed.

(* the statement used by props/C04.v *)
Theorem c04_ctx_cancel_cc : forall s ls s' es,
  ec s = ECRun true ->
  run s (LEnvCtxCancel :: ls) = Some (s', es) ->
  ec s' = ECExit -> In (EvDelivE ErrCC) es.
Proof.
  intros s ls s' es E H X. simpl in H.
  unfold step in H. simpl in H. unfold with_norm in H.
  assert (ec_armed (s_cctx true s)) as A0 by (left; exact E).
  pose proof (rc_norm_ec (s_cctx true s)) as E1. pose proof (rc_norm_cctx (s_cctx true s)) as C1.
  destruct (rc_norm (s_cctx true s)) as [sb eb]. simpl in E1, C1.
  assert (ec_armed sb) as A1 by (unfold ec_armed in *; simpl in *; rewrite E1; exact A0).
  pose proof (ec_norm_armed sb A1) as A2. pose proof (ec_norm_cctx sb) as C2.
  destruct (ec_norm sb) as [sc ec'] eqn:EN. simpl in A2, C2.
  destruct (run sc ls) as [[s2 e2]|] eqn:R; [|discriminate]. inv H.
  assert (cctx sc = true) as C3 by (rewrite C2, C1; reflexivity).
  destruct (cc_before_close _ _ _ _ R C3 A2) as [D|[D|[b D]]].
  - apply in_or_app. now right.
  - congruence.
  - congruence.
Qed.
