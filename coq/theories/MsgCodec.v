(* MsgCodec.v — GraphSync v2 wire messages.
     to_node   = message/v2 toIPLD followed by bindnode's Representation() of ipldbind.GraphSyncMessageRoot
     bind_*    = bindnode's representation-level assemblers for the schema types (what dagcbor.Decode
                 feeds token by token; here applied to the generic node the CBOR layer produced — every
                 rejection of the CBOR layer is independent of the assembler, so the composition accepts
                 exactly the same byte strings)
     from_ipld = message/v2 fromIPLD
     to_net / from_net / read_all / handle_stream = ToNet, FromNet, repeated FromMsgReader, and
                 network/libp2p_impl.go handleNewStream.
   The schema's names (renames, enum representations, status codes) come from GSgen.GenSchema, which
   is regenerated from message/ipldbind/schema.ipldsch on every run.
   Model only; proofs in MsgCodecProofs.v. *)
From Coq Require Import List NArith ZArith Bool String.
From GS Require Import Base Varint Cbor.
From GSgen Require Import GenSchema GenStatus.
Import ListNotations.
Open Scope string_scope.
Open Scope list_scope.
Open Scope N_scope.

(* ---------- schema lookups ---------- *)
Fixpoint assoc_str {A} (d : A) (k : string) (l : list (string * A)) : A :=
  match l with
  | [] => d
  | (q, v) :: r => if String.eqb k q then v else assoc_str d k r
  end.
Definition field_serial (fs : list (string * string * bool * bool * string)) (name : string) : string :=
  assoc_str ""%string name (map (fun f => match f with (n, s, _, _, _) => (n, s) end) fs).

(* decimal text of a non-negative int enum representation *)
Fixpoint dec_digits (s : string) (acc : Z) : Z :=
  match s with
  | EmptyString => acc
  | String a r => dec_digits r (acc * 10 + Z.of_N (Ascii.N_of_ascii a) - 48)%Z
  end.
Definition status_codes : list Z :=
  Eval vm_compute in map (fun e => dec_digits (snd e) 0%Z) sch_enum_GraphSyncResponseStatusCode.
Definition status_defined (z : Z) : bool := existsb (Z.eqb z) status_codes.

(* key = serial name, or (bindnode inboundMappedKey fallback) the schema field name itself *)
Definition is_key (fs : list (string * string * bool * bool * string)) (name : string) (k : bytes) : bool :=
  bytes_eqb k (str (field_serial fs name)) || bytes_eqb k (str name).

Definition K (fs : list (string * string * bool * bool * string)) (name : string) : bytes := str (field_serial fs name).
Definition k_rq_id := Eval vm_compute in K sch_struct_GraphSyncRequest "id".
Definition k_rq_type := Eval vm_compute in K sch_struct_GraphSyncRequest "requestType".
Definition k_rq_pri := Eval vm_compute in K sch_struct_GraphSyncRequest "priority".
Definition k_rq_root := Eval vm_compute in K sch_struct_GraphSyncRequest "root".
Definition k_rq_sel := Eval vm_compute in K sch_struct_GraphSyncRequest "selector".
Definition k_rq_ext := Eval vm_compute in K sch_struct_GraphSyncRequest "extensions".
Definition k_rs_id := Eval vm_compute in K sch_struct_GraphSyncResponse "id".
Definition k_rs_stat := Eval vm_compute in K sch_struct_GraphSyncResponse "status".
Definition k_rs_meta := Eval vm_compute in K sch_struct_GraphSyncResponse "metadata".
Definition k_rs_ext := Eval vm_compute in K sch_struct_GraphSyncResponse "extensions".
Definition k_m_req := Eval vm_compute in K sch_struct_GraphSyncMessage "requests".
Definition k_m_rsp := Eval vm_compute in K sch_struct_GraphSyncMessage "responses".
Definition k_m_blk := Eval vm_compute in K sch_struct_GraphSyncMessage "blocks".
Definition k_root := Eval vm_compute in str (assoc_str ""%string "GraphSyncMessage" sch_union_GraphSyncMessageRoot).

(* ---------- message types (message/message.go) ---------- *)
Inductive reqkind := RNew | RCancel | RUpdate.
Inductive action := APresent | ADuplicateNotSent | AMissing | ADuplicateDAGSkipped.
Definition exts := list (bytes * option node).      (* name -> data; None = nil Data *)

Record request := mk_req {
  rq_id : bytes; rq_kind : reqkind; rq_pri : Z;
  rq_root : option bytes;       (* None = cid.Undef *)
  rq_sel : option node;         (* None = nil selector *)
  rq_ext : exts }.
Record response := mk_rsp {
  rs_id : bytes; rs_status : Z; rs_md : list (bytes * action); rs_ext : exts }.
Record msg := mk_msg {
  m_reqs : list request; m_rsps : list response;
  m_blks : list (bytes * bytes) }.        (* (cid, data) *)

Definition reqkind_name (k : reqkind) : string :=
  match k with RNew => "New" | RCancel => "Cancel" | RUpdate => "Update" end.
Definition action_name (a : action) : string :=
  match a with APresent => "Present" | ADuplicateNotSent => "DuplicateNotSent"
             | AMissing => "Missing" | ADuplicateDAGSkipped => "DuplicateDAGSkipped" end.
(* bindnode _nodeRepr.AsString for a string enum: the mapped representation *)
Definition reqkind_repr (k : reqkind) : bytes := str (assoc_str ""%string (reqkind_name k) sch_enum_GraphSyncRequestType).
Definition action_repr (a : action) : bytes := str (assoc_str ""%string (action_name a) sch_enum_GraphSyncLinkAction).
(* bindnode _assemblerRepr.AssignString for a string enum: the representation, or the member name *)
Definition parse_reqkind (s : bytes) : option reqkind :=
  find (fun k => bytes_eqb s (reqkind_repr k) || bytes_eqb s (str (reqkind_name k))) [RNew; RCancel; RUpdate].
Definition parse_action (s : bytes) : option action :=
  find (fun a => bytes_eqb s (action_repr a) || bytes_eqb s (str (action_name a)))
       [APresent; ADuplicateNotSent; AMissing; ADuplicateDAGSkipped].

(* ---------- CIDs and prefixes (go-cid) ---------- *)
Definition is_cidv0 (c : bytes) : bool :=
  match c with 18 :: 32 :: _ => blen c =? 34 | _ => false end.
(* Cid.Prefix().Bytes() *)
Definition prefix_of_cid (c : bytes) : bytes :=
  if is_cidv0 c then [0; 112; 18; 32] else
  match uvarint_dec_opt c with
  | Some (v, r1) =>
    match uvarint_dec_opt r1 with
    | Some (codec, r2) =>
      match uvarint_dec_opt r2 with
      | Some (code, r3) =>
        match uvarint_dec_opt r3 with
        | Some (l, _) => uvarint_enc v ++ uvarint_enc codec ++ uvarint_enc code ++ uvarint_enc l
        | None => []
        end
      | None => []
      end
    | None => []
    end
  | None => []
  end.
(* cid.PrefixFromBytes: four varints, anything after them ignored *)
Definition parse_prefix (p : bytes) : option (N * N * N * N) :=
  match uvarint_dec_opt p with
  | Some (v, r1) =>
    match uvarint_dec_opt r1 with
    | Some (codec, r2) =>
      match uvarint_dec_opt r2 with
      | Some (code, r3) =>
        match uvarint_dec_opt r3 with
        | Some (l, _) => Some (v, codec, code, l)
        | None => None
        end
      | None => None
      end
    | None => None
    end
  | None => None
  end.

(* the multihash function: code, requested length (-1 = default), data -> multihash bytes, or an
   error (unknown code, length too large) *)
Definition hashfn := N -> Z -> bytes -> option bytes.

(* Prefix.Sum *)
Definition cid_sum (H : hashfn) (p data : bytes) : option bytes :=
  match parse_prefix p with
  | None => None
  | Some (v, codec, code, l) =>
      let len := if code =? 0 then (-1)%Z else Z.of_N l in
      if (v =? 0) && negb ((code =? 18) && (l =? 32)) then None
      else match H code len data with
           | None => None
           | Some mh =>
               if v =? 0 then Some mh
               else if v =? 1 then Some (uvarint_enc 1 ++ uvarint_enc codec ++ mh)
               else None
           end
  end.

(* ---------- encode side: toIPLD + Representation() ---------- *)
Definition opt_field (k : bytes) (o : option node) : list (bytes * node) :=
  match o with None => [] | Some v => [(k, v)] end.
Definition nonempty {A} (l : list A) (f : list A -> node) : option node :=
  match l with [] => None | _ => Some (f l) end.

(* ipldbind.NewGraphSyncExtensions + the {String : nullable Any} map: nil data is written as null *)
Definition exts_node (e : exts) : node :=
  NMap (map (fun x => match x with (k, d) => (k, match d with None => NNull | Some n => n end) end) e).

Definition req_node (r : request) : node :=
  NMap ([(k_rq_id, NBytes (rq_id r)); (k_rq_type, NStr (reqkind_repr (rq_kind r)))]
        ++ opt_field k_rq_pri (if (rq_pri r =? 0)%Z then None else Some (NInt (rq_pri r)))
        ++ opt_field k_rq_root (option_map NLink (rq_root r))
        ++ opt_field k_rq_sel (rq_sel r)
        ++ opt_field k_rq_ext (nonempty (rq_ext r) exts_node)).

Definition md_node (x : bytes * action) : node := NList [NLink (fst x); NStr (action_repr (snd x))].

Definition rsp_node (r : response) : node :=
  NMap ([(k_rs_id, NBytes (rs_id r)); (k_rs_stat, NInt (rs_status r))]
        ++ opt_field k_rs_meta (nonempty (rs_md r) (fun l => NList (map md_node l)))
        ++ opt_field k_rs_ext (nonempty (rs_ext r) exts_node)).

Definition blk_node (b : bytes * bytes) : node := NList [NBytes (prefix_of_cid (fst b)); NBytes (snd b)].

Definition msg_node (m : msg) : node :=
  NMap [(k_root,
         NMap (opt_field k_m_req (nonempty (m_reqs m) (fun l => NList (map req_node l)))
               ++ opt_field k_m_rsp (nonempty (m_rsps m) (fun l => NList (map rsp_node l)))
               ++ opt_field k_m_blk (nonempty (m_blks m) (fun l => NList (map blk_node l)))))].

(* ToNet: the int enum refuses a status that is not a member (bindnode _nodeRepr.AsInt) *)
Definition to_frame (m : msg) : option bytes :=
  if forallb (fun r => status_defined (rs_status r)) (m_rsps m) then Some (encode (msg_node m)) else None.
Definition to_net (m : msg) : option bytes := option_map frame_enc (to_frame m).

(* ---------- decode side: bindnode assemblers ---------- *)
Definition wrap32 (z : Z) : Z := ((z + 2147483648) mod 4294967296 - 2147483648)%Z.   (* reflect SetInt on int32 *)

Definition is_null (n : node) : bool := match n with NNull => true | _ => false end.
(* a nullable Any value: null becomes the nil pointer *)
Definition nullable_any (v : node) : option node := if is_null v then None else Some v.
Definition bind_exts (n : node) : option exts :=
  match n with
  | NMap kvs => Some (map (fun x => match x with (k, v) => (k, nullable_any v) end) kvs)
  | _ => None
  end.

Fixpoint fold_opt {A B} (f : A -> B -> option A) (l : list B) (a : A) : option A :=
  match l with
  | [] => Some a
  | x :: r => match f a x with Some a' => fold_opt f r a' | None => None end
  end.
Fixpoint map_opt {A B} (f : A -> option B) (l : list A) : option (list B) :=
  match l with
  | [] => Some []
  | x :: r => match f x with
              | Some y => match map_opt f r with Some ys => Some (y :: ys) | None => None end
              | None => None
              end
  end.

(* ipldbind.GraphSyncRequest while it is being assembled *)
Record ib_request := mk_ibq {
  ib_id : option bytes; ib_type : option reqkind; ib_pri : option Z;
  ib_root : option bytes; ib_sel : option node; ib_ext : option exts }.
Definition ibq0 := mk_ibq None None None None None None.
Definition ibq_assign (a : ib_request) (kv : bytes * node) : option ib_request :=
  let (k, v) := kv in
  let fs := sch_struct_GraphSyncRequest in
  if is_key fs "id" k then
    match v with NBytes b => Some (mk_ibq (Some b) (ib_type a) (ib_pri a) (ib_root a) (ib_sel a) (ib_ext a)) | _ => None end
  else if is_key fs "requestType" k then
    match v with
    | NStr s => match parse_reqkind s with
                | Some t => Some (mk_ibq (ib_id a) (Some t) (ib_pri a) (ib_root a) (ib_sel a) (ib_ext a))
                | None => None end
    | _ => None end
  else if is_key fs "priority" k then
    match v with NInt z => Some (mk_ibq (ib_id a) (ib_type a) (Some (wrap32 z)) (ib_root a) (ib_sel a) (ib_ext a)) | _ => None end
  else if is_key fs "root" k then
    match v with NLink c => Some (mk_ibq (ib_id a) (ib_type a) (ib_pri a) (Some c) (ib_sel a) (ib_ext a)) | _ => None end
  else if is_key fs "selector" k then
    if is_null v then None          (* optional, not nullable: AssignNull is refused *)
    else Some (mk_ibq (ib_id a) (ib_type a) (ib_pri a) (ib_root a) (Some v) (ib_ext a))
  else if is_key fs "extensions" k then
    match bind_exts v with
    | Some e => Some (mk_ibq (ib_id a) (ib_type a) (ib_pri a) (ib_root a) (ib_sel a) (Some e))
    | None => None end
  else None.
Definition bind_request (n : node) : option ib_request :=
  match n with
  | NMap kvs =>
      match fold_opt ibq_assign kvs ibq0 with
      | Some a => match ib_id a, ib_type a with Some _, Some _ => Some a | _, _ => None end   (* required fields *)
      | None => None
      end
  | _ => None
  end.

Definition bind_md (n : node) : option (bytes * action) :=
  match n with
  | NList [NLink c; NStr s] => match parse_action s with Some a => Some (c, a) | None => None end
  | _ => None
  end.

Record ib_response := mk_ibs {
  is_id : option bytes; is_status : option Z; is_md : option (list (bytes * action)); is_ext : option exts }.
Definition ibs0 := mk_ibs None None None None.
Definition ibs_assign (a : ib_response) (kv : bytes * node) : option ib_response :=
  let (k, v) := kv in
  let fs := sch_struct_GraphSyncResponse in
  if is_key fs "id" k then
    match v with NBytes b => Some (mk_ibs (Some b) (is_status a) (is_md a) (is_ext a)) | _ => None end
  else if is_key fs "status" k then
    match v with
    | NInt z => if status_defined z then Some (mk_ibs (is_id a) (Some z) (is_md a) (is_ext a)) else None
    | _ => None end
  else if is_key fs "metadata" k then
    match v with
    | NList l => match map_opt bind_md l with
                 | Some md => Some (mk_ibs (is_id a) (is_status a) (Some md) (is_ext a))
                 | None => None end
    | _ => None end
  else if is_key fs "extensions" k then
    match bind_exts v with
    | Some e => Some (mk_ibs (is_id a) (is_status a) (is_md a) (Some e))
    | None => None end
  else None.
Definition bind_response (n : node) : option ib_response :=
  match n with
  | NMap kvs =>
      match fold_opt ibs_assign kvs ibs0 with
      | Some a => match is_id a, is_status a with Some _, Some _ => Some a | _, _ => None end
      | None => None
      end
  | _ => None
  end.

Definition bind_block (n : node) : option (bytes * bytes) :=
  match n with
  | NList [NBytes p; NBytes d] => Some (p, d)
  | _ => None
  end.

Record ib_message := mk_ibm {
  im_reqs : option (list ib_request); im_rsps : option (list ib_response); im_blks : option (list (bytes * bytes)) }.
Definition ibm0 := mk_ibm None None None.
Definition ibm_assign (a : ib_message) (kv : bytes * node) : option ib_message :=
  let (k, v) := kv in
  let fs := sch_struct_GraphSyncMessage in
  if is_key fs "requests" k then
    match v with NList l => match map_opt bind_request l with
                            | Some x => Some (mk_ibm (Some x) (im_rsps a) (im_blks a)) | None => None end
    | _ => None end
  else if is_key fs "responses" k then
    match v with NList l => match map_opt bind_response l with
                            | Some x => Some (mk_ibm (im_reqs a) (Some x) (im_blks a)) | None => None end
    | _ => None end
  else if is_key fs "blocks" k then
    match v with NList l => match map_opt bind_block l with
                            | Some x => Some (mk_ibm (im_reqs a) (im_rsps a) (Some x)) | None => None end
    | _ => None end
  else None.
Definition bind_message (n : node) : option ib_message :=
  match n with
  | NMap kvs => fold_opt ibm_assign kvs ibm0
  | _ => None
  end.

(* keyed union GraphSyncMessageRoot: every entry must name the member (discriminant "gs2", or the
   member's type name by bindnode's fallback); at least one entry; the last one stays *)
Definition root_assign (a : option ib_message) (kv : bytes * node) : option (option ib_message) :=
  let (k, v) := kv in
  if bytes_eqb k k_root || bytes_eqb k (str "GraphSyncMessage") then
    match bind_message v with Some m => Some (Some m) | None => None end
  else None.
Definition bind_root (n : node) : option ib_message :=
  match n with
  | NMap kvs => match fold_opt root_assign kvs None with Some (Some m) => Some m | _ => None end
  | _ => None
  end.

(* ---------- fromIPLD ---------- *)
(* Go maps: insertion replaces an existing binding *)
Fixpoint put {V} (k : bytes) (v : V) (m : list (bytes * V)) : list (bytes * V) :=
  match m with
  | [] => [(k, v)]
  | (q, w) :: r => if bytes_eqb k q then (q, v) :: r else (q, w) :: put k v r
  end.

Definition odef {A} (d : A) (o : option A) : A := match o with Some x => x | None => d end.

Definition request_of_ib (q : ib_request) : option request :=
  match ib_id q, ib_type q with
  | Some id, Some t =>
      if negb (blen id =? 16) then None            (* graphsync.ParseRequestID / uuid.FromBytes *)
      else match t with
           | RCancel => Some (mk_req id RCancel 0 None None [])
           | RUpdate => Some (mk_req id RUpdate 0 None None (odef [] (ib_ext q)))
           | RNew => Some (mk_req id RNew (odef 0%Z (ib_pri q)) (ib_root q) (ib_sel q) (odef [] (ib_ext q)))
           end
  | _, _ => None
  end.
Definition response_of_ib (s : ib_response) : option response :=
  match is_id s, is_status s with
  | Some id, Some st =>
      if negb (blen id =? 16) then None
      else Some (mk_rsp id st (odef [] (is_md s)) (odef [] (is_ext s)))
  | _, _ => None
  end.

Definition from_ipld (H : hashfn) (im : ib_message) : option msg :=
  match fold_opt (fun acc q => match request_of_ib q with
                               | Some r => Some (put (rq_id r) r acc) | None => None end)
                 (odef [] (im_reqs im)) [] with
  | None => None
  | Some reqs =>
    match fold_opt (fun acc s => match response_of_ib s with
                                 | Some r => Some (put (rs_id r) r acc) | None => None end)
                   (odef [] (im_rsps im)) [] with
    | None => None
    | Some rsps =>
      match fold_opt (fun acc b => match cid_sum H (fst b) (snd b) with
                                   | Some c => Some (put c (snd b) acc) | None => None end)
                     (odef [] (im_blks im)) [] with
      | None => None
      | Some blks => Some (mk_msg (map snd reqs) (map snd rsps) blks)
      end
    end
  end.

(* FromMsgReader after ReadMsg: TypeFromBytes (dagcbor.Decode, whole block) then fromIPLD *)
Definition from_frame (H : hashfn) (f : bytes) : dres msg :=
  match decode_block f with
  | DOk n => match bind_root n with
             | Some im => match from_ipld H im with Some m => DOk m | None => DErr end
             | None => DErr
             end
  | DErr => DErr
  | DFuel => DFuel
  end.

(* FromNet: one message from the front of a stream; the rest of the stream is returned too *)
Inductive net_res := NEof | NErr | NFuel | NMsg (m : msg) (rest : bytes).
Definition from_net (H : hashfn) (bs : bytes) : net_res :=
  match read_frame bs with
  | FEof => NEof
  | FErr => NErr
  | FOk f rest => match from_frame H f with DOk m => NMsg m rest | DErr => NErr | DFuel => NFuel end
  end.

(* network/libp2p_impl.go handleNewStream: what the Receiver and the stream see *)
Inductive ev := EvMsg (m : msg) | EvReset | EvError | EvFuel.
Fixpoint handle_stream_fuel (fuel : nat) (H : hashfn) (bs : bytes) : list ev :=
  match fuel with
  | O => [EvFuel]
  | S f =>
      match from_net H bs with
      | NEof => []                        (* io.EOF: return quietly, stream closed *)
      | NErr => [EvReset; EvError]        (* s.Reset(); go receiver.ReceiveError(p, err); return *)
      | NFuel => [EvFuel]
      | NMsg m rest => EvMsg m :: handle_stream_fuel f H rest
      end
  end.
Definition handle_stream (H : hashfn) (bs : bytes) : list ev := handle_stream_fuel (S (List.length bs)) H bs.

(* all messages of a stream that ends cleanly *)
Fixpoint read_all_fuel (fuel : nat) (H : hashfn) (bs : bytes) : option (list msg) :=
  match fuel with
  | O => None
  | S f =>
      match from_net H bs with
      | NEof => Some []
      | NMsg m rest => match read_all_fuel f H rest with Some ms => Some (m :: ms) | None => None end
      | _ => None
      end
  end.
Definition read_all (H : hashfn) (bs : bytes) : option (list msg) := read_all_fuel (S (List.length bs)) H bs.

(* ---------- extension payload codecs ---------- *)
(* cidset.EncodeCidSet / DecodeCidSet (a set: order and multiplicity are not meaningful) *)
Definition enc_cidset (cs : list bytes) : node := NList (map NLink cs).
Definition dec_cidset (n : node) : option (list bytes) :=
  match n with
  | NList l => map_opt (fun x => match x with NLink c => Some c | _ => None end) l
  | _ => None
  end.
(* donotsendfirstblocks: int64 *)
Definition enc_firstblocks (z : Z) : node := NInt z.
Definition dec_firstblocks (n : node) : option Z :=
  match n with NInt z => if (z <=? 9223372036854775807)%Z then Some z else None | _ => None end.
(* dedupkey: string *)
Definition enc_dedupkey (s : bytes) : node := NStr s.
Definition dec_dedupkey (n : node) : option bytes := match n with NStr s => Some s | _ => None end.

(* ---------- canonical form = the equivalence of C11 ----------
   Two messages are equivalent when their canonical forms are equal.  Canonicalising only
   (i) orders map entries inside selector / extension data by the DAG-CBOR key order,
   (ii) orders a part's extensions by name, (iii) identifies an extension payload Null with no payload. *)
Definition canon_ext_data (d : option node) : option node :=
  match d with Some NNull => None | Some n => Some (canon n) | None => None end.
Definition canon_exts (e : exts) : exts :=
  kv_sort (map (fun x => match x with (k, d) => (k, canon_ext_data d) end) e).
Definition canon_req (r : request) : request :=
  mk_req (rq_id r) (rq_kind r) (rq_pri r) (rq_root r) (option_map canon (rq_sel r)) (canon_exts (rq_ext r)).
Definition canon_rsp (r : response) : response :=
  mk_rsp (rs_id r) (rs_status r) (rs_md r) (canon_exts (rs_ext r)).
Definition canon_msg (m : msg) : msg :=
  mk_msg (map canon_req (m_reqs m)) (map canon_rsp (m_rsps m)) (m_blks m).
Definition msg_equiv (a b : msg) : Prop := canon_msg a = canon_msg b.

(* ---------- boolean equalities and the as-Go-maps normal form used by the cases ---------- *)
Definition reqkind_eqb (a b : reqkind) : bool :=
  match a, b with RNew, RNew | RCancel, RCancel | RUpdate, RUpdate => true | _, _ => false end.
Definition action_eqb (a b : action) : bool :=
  match a, b with APresent, APresent | ADuplicateNotSent, ADuplicateNotSent | AMissing, AMissing
                | ADuplicateDAGSkipped, ADuplicateDAGSkipped => true | _, _ => false end.
Definition exts_eqb (a b : exts) : bool :=
  list_eqb (fun x y => bytes_eqb (fst x) (fst y) && option_eqb node_eqb (snd x) (snd y)) a b.
Definition req_eqb (a b : request) : bool :=
  bytes_eqb (rq_id a) (rq_id b) && reqkind_eqb (rq_kind a) (rq_kind b) && Z.eqb (rq_pri a) (rq_pri b)
  && option_eqb bytes_eqb (rq_root a) (rq_root b) && option_eqb node_eqb (rq_sel a) (rq_sel b)
  && exts_eqb (rq_ext a) (rq_ext b).
Definition rsp_eqb (a b : response) : bool :=
  bytes_eqb (rs_id a) (rs_id b) && Z.eqb (rs_status a) (rs_status b)
  && list_eqb (fun x y => bytes_eqb (fst x) (fst y) && action_eqb (snd x) (snd y)) (rs_md a) (rs_md b)
  && exts_eqb (rs_ext a) (rs_ext b).
Definition msg_eqb (a b : msg) : bool :=
  list_eqb req_eqb (m_reqs a) (m_reqs b) && list_eqb rsp_eqb (m_rsps a) (m_rsps b)
  && list_eqb (fun x y => bytes_eqb (fst x) (fst y) && bytes_eqb (snd x) (snd y)) (m_blks a) (m_blks b).

(* the three Go maps in key order (the implementation iterates them in random order) *)
Definition msg_norm (m : msg) : msg :=
  let c := canon_msg m in
  mk_msg (map snd (kv_sort (map (fun r => (rq_id r, r)) (m_reqs c))))
         (map snd (kv_sort (map (fun r => (rs_id r, r)) (m_rsps c))))
         (kv_sort (m_blks c)).
Definition msg_same (a b : msg) : bool := msg_eqb (msg_norm a) (msg_norm b).

(* ---------- the executable monitors ---------- *)
(* C12: every block is keyed by the CID computed from its own prefix and bytes; every id is 16 bytes *)
Definition blocks_self_keyed (H : hashfn) (m : msg) : bool :=
  forallb (fun b => option_eqb bytes_eqb (cid_sum H (prefix_of_cid (fst b)) (snd b)) (Some (fst b))) (m_blks m).
Definition ids_16 (m : msg) : bool :=
  forallb (fun r => blen (rq_id r) =? 16) (m_reqs m) && forallb (fun r => blen (rs_id r) =? 16) (m_rsps m).
Definition delivered_ok (H : hashfn) (m : msg) : bool := blocks_self_keyed H m && ids_16 m.

(* shape of a stream's event list: messages, then nothing, or exactly Reset;Error and nothing further *)
Fixpoint stream_shape_ok (H : hashfn) (l : list ev) : bool :=
  match l with
  | [] => true
  | EvMsg m :: r => delivered_ok H m && stream_shape_ok H r
  | [EvReset; EvError] => true
  | _ => false
  end.

(* ---------- hash oracle for the cases files: recorded from go-multihash by the driver ---------- *)
Definition oracle := list (N * Z * bytes * option bytes).
Fixpoint oracle_H (t : oracle) (code : N) (len : Z) (data : bytes) : option bytes :=
  match t with
  | [] => None
  | (c, l, d, r) :: t' => if (c =? code) && Z.eqb l len && bytes_eqb d data then r else oracle_H t' code len data
  end.

(* ---------- cases ---------- *)
(* C11 (driver codec): messages built with the real constructors, the bytes the real ToNet produced for
   them one after another, and what the real FromNet returned for those bytes. *)
Inductive gores := GMsg (m : msg) | GErr | GEof | GPanic.
Record ccase := mk_ccase {
  cc_msgs : list msg;             (* as built (maps in any order) *)
  cc_enc_ok : bool;               (* ToNet succeeded for all of them *)
  cc_bytes : bytes;               (* concatenated ToNet output *)
  cc_go : list gores;             (* successive FromMsgReader results on cc_bytes, until EOF/error *)
  cc_seq : list (list gores);     (* per kind of io.Reader over cc_bytes: the results of successive FromNet calls
                                     on that one reader, up to and including the first that is not a message *)
  cc_oracle : oracle }.

(* put the entries of the built message into the order in which they appear on the wire (the Go
   encoder iterates Go maps): reorder `l` following the keys of `order` *)
Definition reorder {A} (key : A -> bytes) (order : list bytes) (l : list A) : list A :=
  fold_right (fun k acc => match find (fun x => bytes_eqb (key x) k) l with Some x => x :: acc | None => acc end) [] order.
Definition msg_reorder (m wire : msg) : msg :=
  mk_msg (reorder rq_id (map rq_id (m_reqs wire)) (m_reqs m))
         (reorder rs_id (map rs_id (m_rsps wire)) (m_rsps m))
         (reorder fst (map fst (m_blks wire)) (m_blks m)).
Definition same_len {A B} (a : list A) (b : list B) : bool := (List.length a =? List.length b)%nat.

Fixpoint forall2b {A B} (f : A -> B -> bool) (a : list A) (b : list B) : bool :=
  match a, b with
  | [], [] => true
  | x :: a', y :: b' => f x y && forall2b f a' b'
  | _, _ => false
  end.
Definition concat_opt (l : list (option bytes)) : option bytes :=
  fold_right (fun x acc => match x, acc with Some a, Some b => Some (a ++ b) | _, _ => None end) (Some []) l.

(* successive reads of one stream: the messages in order, then a clean end *)
Fixpoint seq_matches (ms : list msg) (sq : list gores) : bool :=
  match ms, sq with
  | [], [GEof] => true
  | m :: ms', GMsg g :: sq' => msg_same m g && seq_matches ms' sq'
  | _, _ => false
  end.

(* model vs implementation *)
Definition ccase_agrees (c : ccase) : bool :=
  let H := oracle_H (cc_oracle c) in
  if cc_enc_ok c then
    match read_all H (cc_bytes c) with
    | None => false
    | Some ms' =>
        (* the model decodes the implementation's bytes to the messages that were built ... *)
        forall2b (fun m m' => same_len (m_reqs m) (m_reqs m') && same_len (m_rsps m) (m_rsps m')
                              && same_len (m_blks m) (m_blks m')
                              && msg_eqb (canon_msg (msg_reorder m m')) m') (cc_msgs c) ms'
        (* ... the model encoder produces the implementation's bytes, byte for byte ... *)
        && option_eqb bytes_eqb
             (concat_opt (map to_net (map (fun p => msg_reorder (fst p) (snd p)) (combine (cc_msgs c) ms'))))
             (Some (cc_bytes c))
        (* ... and the implementation's decoder returned the same messages as the model's *)
        && forall2b (fun m' g => match g with GMsg gm => msg_same m' gm | _ => false end) ms' (cc_go c)
        (* ... also when the stream is read by successive FromNet calls on one reader (read_all's answer) *)
        && forallb (seq_matches ms') (cc_seq c)
    end
  else
    (* the real ToNet refused: so does the model, for at least one message *)
    existsb (fun m => match to_net m with None => true | Some _ => false end) (cc_msgs c).

(* property monitor on the implementation's observations alone: Go decode of Go encode is equivalent
   to what was built, one by one in order *)
(* the status codes /repo/responsecode.go defines (regenerated: GSgen.GenStatus): the property's "any defined
   status" (the schema's own list, status_codes, is what the codec accepts; the two must agree for C11 to hold) *)
Definition responsecode_defined (z : Z) : bool := existsb (Z.eqb z) (map snd rc_status_codes).   (* GenStatus *)
Definition ccase_mon (c : ccase) : bool :=
  if cc_enc_ok c then
    forall2b (fun m g => match g with GMsg gm => msg_same m gm | _ => false end) (cc_msgs c) (cc_go c)
    (* a stream of messages is read back one by one, in order, by successive FromNet calls on one reader *)
    && forallb (seq_matches (cc_msgs c)) (cc_seq c)
  else
    (* ToNet may only refuse a message that carries a status responsecode.go does not define *)
    existsb (fun m => existsb (fun r => negb (responsecode_defined (rs_status r))) (m_rsps m)) (cc_msgs c).

(* C12 (driver hostile): arbitrary bytes; what the real FromNet said about their first frame, and what
   a real handleNewStream did with the whole string (events at the Receiver, reset seen by the writer,
   and whether a well-formed message on a second stream was still received afterwards). *)
Record hcase := mk_hcase {
  hc_bytes : bytes;
  hc_go_first : gores;              (* FromNet on the bytes *)
  hc_go_seq : list gores;           (* successive FromNet calls on ONE reader over the bytes, up to and including
                                       the first result that is not a message *)
  hc_go_msgs : list msg;            (* ReceiveMessage calls, in order *)
  hc_go_errors : N;                 (* ReceiveError calls *)
  hc_go_reset : bool;               (* the writer saw the stream reset *)
  hc_go_still_serving : bool;       (* second stream's message was received *)
  hc_go_panic : bool;               (* a panic escaped FromNet (recovered by the driver) *)
  hc_survived : bool;               (* the observing process was still alive afterwards (resource bombs are observed
                                       in a child process: a stack overflow or an out-of-memory kill is not a panic) *)
  hc_oracle : oracle }.

Definition ev_msgs (l : list ev) : list msg :=
  fold_right (fun e acc => match e with EvMsg m => m :: acc | _ => acc end) [] l.
Definition ev_errors (l : list ev) : N := blen (filter (fun e => match e with EvError => true | _ => false end) l).
Definition ev_reset (l : list ev) : bool := existsb (fun e => match e with EvReset => true | _ => false end) l.

(* successive FromNet calls: the messages in order, then GErr (malformed) or GEof (clean end) *)
Fixpoint seq_ends (ms : list msg) (err : bool) (sq : list gores) : bool :=
  match ms, sq with
  | [], [GEof] => negb err
  | [], [GErr] => err
  | m :: ms', GMsg g :: sq' => msg_same m g && seq_ends ms' err sq'
  | _, _ => false
  end.

Definition hcase_agrees (c : hcase) : bool :=
  let H := oracle_H (hc_oracle c) in
  let evs := handle_stream H (hc_bytes c) in
  (* FromNet on the bytes = the first step of the handler (handle_stream_step / handle_stream_malformed), read off
     the event list so that multi-megabyte inputs are decoded once *)
  (match evs, hc_go_first c with
   | [], GEof => true
   | [EvReset; EvError], GErr => true
   | EvMsg m :: _, GMsg g => msg_same m g
   | _, _ => false
   end)
  && forall2b msg_same (ev_msgs evs) (hc_go_msgs c)
  && seq_ends (ev_msgs evs) (0 <? ev_errors evs) (hc_go_seq c)
  && (ev_errors evs =? hc_go_errors c)
  && Bool.eqb (ev_reset evs) (hc_go_reset c).

(* number of frames of a stream that consists of complete frames only (framing alone, no decoding) *)
Fixpoint frame_count_fuel (fuel : nat) (bs : bytes) : option N :=
  match fuel with
  | O => None
  | S f => match read_frame bs with
           | FEof => Some 0
           | FErr => None
           | FOk _ rest => option_map N.succ (frame_count_fuel f rest)
           end
  end.
Definition frame_count (bs : bytes) : option N := frame_count_fuel (S (List.length bs)) bs.

Definition hcase_mon (c : hcase) : bool :=
  let H := oracle_H (hc_oracle c) in
  negb (hc_go_panic c) && hc_survived c
  && forallb (delivered_ok H) (hc_go_msgs c)
  && (match hc_go_first c with GMsg g => delivered_ok H g | GPanic => false | _ => true end)
  && (hc_go_errors c <=? 1)
  && Bool.eqb (hc_go_errors c =? 1) (hc_go_reset c)
  (* reading the same bytes by successive FromNet calls gives what the stream handler delivered *)
  && seq_ends (hc_go_msgs c) (hc_go_errors c =? 1) (hc_go_seq c)
  (* nothing malformed goes unreported: without a ReceiveError the stream was a whole number of complete
     frames and every one of them was delivered as a message *)
  && (if hc_go_errors c =? 0
      then option_eqb N.eqb (frame_count (hc_bytes c)) (Some (blen (hc_go_msgs c)))
      else true)
  && hc_go_still_serving c.
