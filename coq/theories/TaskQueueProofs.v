(* TaskQueueProofs.v — proofs about the model in TaskQueue.v (property C21). *)
From Coq Require Import List NArith ZArith Bool Arith Lia.
From GS Require Import Base TaskQueue.
Import ListNotations.
Open Scope N_scope.

(* ---------- small facts ---------- *)
Lemma upd_length {A} n (x : A) l : length (upd n x l) = length l.
Proof. revert n; induction l as [|y l IH]; intros [|n]; simpl; auto. Qed.

Lemma nth_error_upd_eq {A} n (x : A) l : (n < length l)%nat -> nth_error (upd n x l) n = Some x.
Proof. revert n; induction l as [|y l IH]; intros [|n]; simpl; intro H; try lia; auto. apply IH; lia. Qed.

Lemma nth_error_upd_neq {A} n m (x : A) l : n <> m -> nth_error (upd n x l) m = nth_error l m.
Proof.
  revert n m; induction l as [|y l IH]; intros [|n] [|m]; simpl; intro H; auto; try congruence.
Qed.

Lemma aget_map_snd {V} (f : N * V -> V) k (m : list (N * V)) :
  aget k (map (fun qt => (fst qt, f qt)) m) = match aget k m with Some v => Some (f (k, v)) | None => None end.
Proof.
  induction m as [|[q v] m IH]; simpl; [reflexivity|].
  destruct (N.eqb_spec k q); [subst; reflexivity | exact IH].
Qed.

Lemma filter_length_le {A} (f : A -> bool) l : (length (filter f l) <= length l)%nat.
Proof. induction l as [|x l IH]; simpl; [lia|]. destruct (f x); simpl; lia. Qed.

(* ---------- the trackers after PopTasks ---------- *)
Lemma tr_pop_cases maxpp t o t' :
  tr_pop maxpp t = (o, t') ->
  (o = None /\ t' = t) \/
  (exists b, o = Some b /\ best (tr_pending t) = Some b /\ tr_freeze t = O /\
             (maxpp = O \/ (nact t < maxpp)%nat) /\
             t' = {| tr_pending := del_id (t_id b) (tr_pending t); tr_active := tr_active t ++ [b];
                     tr_freeze := tr_freeze t |}).
Proof.
  unfold tr_pop. destruct (best (tr_pending t)) as [b|] eqn:Eb; [|intro H; inversion H; auto].
  destruct (Nat.eqb_spec (tr_freeze t) 0) as [Ef|Ef]; simpl; [|intro H; inversion H; auto].
  destruct (Nat.eqb_spec maxpp 0) as [Em|Em]; simpl.
  - intro H; inversion H; subst. right. exists b. repeat split; auto.
  - destruct (Nat.leb_spec maxpp (nact t)) as [Hle|Hlt]; intro H; inversion H; subst; auto.
    right. exists b. repeat split; auto.
Qed.

Lemma pop_tasks_aget cfg trk top trk' o q :
  pop_tasks cfg trk top = Some (trk', o) ->
  aget q trk' = aget q trk \/
  (exists t t', top = Some q /\ aget q trk = Some t /\
                tr_pop (c_maxpp cfg) t = (match o with Some x => Some (snd x) | None => None end, t') /\
                (aget q trk' = Some t' \/ aget q trk' = None)).
Proof.
  unfold pop_tasks. destruct top as [p|].
  - destruct (is_top trk p); [|discriminate].
    destruct (aget p trk) as [t|] eqn:Et; [|discriminate].
    destruct (tr_pop (c_maxpp cfg) t) as [o1 t1] eqn:Ep. intro H; inversion H; subst; clear H.
    destruct (N.eqb_spec p q) as [->|Hn].
    + right. exists t, t1. split; [reflexivity|]. split; [exact Et|]. split.
      * destruct o1; exact Ep.
      * destruct (tr_idle t1); [right; apply aget_adel_eq | left; apply aget_aput_eq].
    + left. destruct (tr_idle t1); [now apply aget_adel_neq | now apply aget_aput_neq].
  - destruct trk; [|discriminate]. intro H; inversion H; subst. now left.
Qed.

(* ============================================================================================ *)
(* Safety 1: the number of workers never changes, so never more than W executions at once. *)
Lemma after_pop_workers s w sig r : length (st_w (fst (after_pop s w sig r))) = length (st_w s).
Proof. unfold after_pop. destruct (snd r) as [[p x]|]; simpl; apply upd_length. Qed.

Lemma step_workers cfg s l s' e : step cfg s l = Some (s', e) -> length (st_w s') = length (st_w s).
Proof.
  destruct l; simpl.
  - destruct (tr_push _ _ _ _) as [t' c]. intro H; inversion H; reflexivity.
  - destruct (aget p (st_trk s)) as [t|]; [|intro H; inversion H; reflexivity].
    destruct (has_topic tp (tr_pending t)); intro H; inversion H; reflexivity.
  - destruct (nth_error (st_w s) w) as [[| |]|]; try discriminate.
    destruct (pop_tasks _ _ _) as [r|]; [|discriminate]. intro H.
    assert (Es : s' = fst (after_pop s w (st_sig s) r)) by (inversion H as [H1]; rewrite H1; reflexivity). rewrite Es.
    apply after_pop_workers.
  - destruct (nth_error (st_w s) w) as [[| |]|]; try discriminate.
    destruct (st_sig s); [|discriminate].
    destruct (pop_tasks _ _ _) as [r|]; [|discriminate]. intro H.
    assert (Es : s' = fst (after_pop s w false r)) by (inversion H as [H1]; rewrite H1; reflexivity). rewrite Es.
    apply after_pop_workers.
  - destruct (nth_error (st_w s) w) as [[| |]|]; try discriminate.
    destruct (pop_tasks _ _ _) as [r|]; [|discriminate]. intro H.
    assert (Es : s' = fst (after_pop s w (st_sig s) r)) by (inversion H as [H1]; rewrite H1; reflexivity). rewrite Es.
    apply after_pop_workers.
  - destruct (nth_error (st_w s) w) as [[| |p x]|]; try discriminate.
    intro H; inversion H; simpl. apply upd_length.
Qed.

Lemma run_workers cfg ls : forall s s' e, run cfg s ls = Some (s', e) -> length (st_w s') = length (st_w s).
Proof.
  induction ls as [|l ls IH]; simpl; intros s s' e H.
  - inversion H; reflexivity.
  - destruct (step cfg s l) as [[s1 e1]|] eqn:E1; [|discriminate].
    destruct (run cfg s1 ls) as [[s2 e2]|] eqn:E2; [|discriminate]. inversion H; subst.
    rewrite (IH _ _ _ E2). eapply step_workers; eauto.
Qed.

Theorem workers_bound cfg w ls s e :
  run cfg (init w) ls = Some (s, e) -> (running s <= w)%nat.
Proof.
  intro H. apply run_workers in H. unfold running.
  eapply Nat.le_trans; [apply filter_length_le|]. rewrite H. simpl. now rewrite repeat_length.
Qed.

(* ============================================================================================ *)
(* Safety 2: with a per-peer maximum set, no tracker ever has more active work than that. *)
Definition peer_bounded (cfg : config) (trk : trackers) : Prop :=
  forall p t, aget p trk = Some t -> c_maxpp cfg <> O -> (nact t <= c_maxpp cfg)%nat.

Lemma tr_push_active i tp prio t : tr_active (fst (tr_push i tp prio t)) = tr_active t.
Proof.
  unfold tr_push. destruct (has_topic tp (tr_active t)); [reflexivity|].
  destruct (has_topic tp (tr_pending t)); reflexivity.
Qed.

Lemma peer_bounded_aput cfg trk p t :
  peer_bounded cfg trk -> (c_maxpp cfg <> O -> (nact t <= c_maxpp cfg)%nat) -> peer_bounded cfg (aput p t trk).
Proof.
  intros H Ht q tq Hq Hm. destruct (N.eqb_spec p q) as [->|Hn].
  - rewrite aget_aput_eq in Hq. inversion Hq; subst. auto.
  - rewrite aget_aput_neq in Hq by exact Hn. eapply H; eauto.
Qed.

Lemma peer_bounded_pop cfg trk top trk' o :
  peer_bounded cfg trk -> pop_tasks cfg trk top = Some (trk', o) -> peer_bounded cfg trk'.
Proof.
  intros H Hp q tq Hq Hm.
  destruct (pop_tasks_aget _ _ _ _ _ q Hp) as [E | (t & t' & _ & Et & Epop & [E|E])].
  - rewrite E in Hq. eapply H; eauto.
  - rewrite E in Hq. inversion Hq; subst tq.
    destruct (tr_pop_cases _ _ _ _ Epop) as [[_ ->] | (b & _ & _ & _ & Hlim & ->)].
    + eapply H; eauto.
    + unfold nact; simpl. rewrite app_length; simpl. destruct Hlim as [Hz|Hlt]; [contradiction|].
      unfold nact in Hlt. lia.
  - rewrite E in Hq. discriminate.
Qed.

Lemma peer_bounded_thaw cfg trk : peer_bounded cfg trk -> peer_bounded cfg (thaw_round trk).
Proof.
  intros H q tq Hq Hm. unfold thaw_round in Hq.
  rewrite (aget_map_snd (fun qt => if Nat.eqb (tr_freeze (snd qt)) 0 then snd qt else thaw (snd qt))) in Hq.
  destruct (aget q trk) as [t|] eqn:Et; [|discriminate]. inversion Hq; subst tq; simpl.
  specialize (H q t Et Hm). destruct (Nat.eqb (tr_freeze t) 0); [exact H | exact H].
Qed.

Lemma after_pop_trk s w sig r : st_trk (fst (after_pop s w sig r)) = fst r.
Proof. unfold after_pop. destruct (snd r) as [[p x]|]; reflexivity. Qed.

Lemma step_peer_bounded cfg s l s' e :
  peer_bounded cfg (st_trk s) -> step cfg s l = Some (s', e) -> peer_bounded cfg (st_trk s').
Proof.
  intro Hb. destruct l; simpl.
  - destruct (tr_push (st_next s) tp prio _) as [t' c] eqn:Ep. intro H; inversion H; subst; simpl.
    apply peer_bounded_aput; [exact Hb|]. intro Hm.
    replace t' with (fst (tr_push (st_next s) tp prio match aget p (st_trk s) with Some t => t | None => tr_new end))
      by (rewrite Ep; reflexivity).
    unfold nact. rewrite tr_push_active. destruct (aget p (st_trk s)) as [t|] eqn:Et.
    + apply (Hb p t Et Hm).
    + simpl. lia.
  - destruct (aget p (st_trk s)) as [t|] eqn:Et; [|intro H; inversion H; subst; exact Hb].
    destruct (has_topic tp (tr_pending t)); intro H; inversion H; subst; simpl; [|exact Hb].
    apply peer_bounded_aput; [exact Hb|]. intro Hm. unfold nact; simpl. apply (Hb p t Et Hm).
  - destruct (nth_error (st_w s) w) as [[| |]|]; try discriminate.
    destruct (pop_tasks cfg (st_trk s) top) as [[trk' o]|] eqn:Ep; [|discriminate]. intro H.
    assert (Es : s' = fst (after_pop s w (st_sig s) (trk', o))) by (inversion H as [H1]; rewrite H1; reflexivity). rewrite Es.
    rewrite after_pop_trk. simpl. eapply peer_bounded_pop; eauto.
  - destruct (nth_error (st_w s) w) as [[| |]|]; try discriminate.
    destruct (st_sig s); [|discriminate].
    destruct (pop_tasks cfg (st_trk s) top) as [[trk' o]|] eqn:Ep; [|discriminate]. intro H.
    assert (Es : s' = fst (after_pop s w false (trk', o))) by (inversion H as [H1]; rewrite H1; reflexivity). rewrite Es.
    rewrite after_pop_trk. simpl. eapply peer_bounded_pop; eauto.
  - destruct (nth_error (st_w s) w) as [[| |]|]; try discriminate.
    destruct (pop_tasks cfg (thaw_round (st_trk s)) top) as [[trk' o]|] eqn:Ep; [|discriminate]. intro H.
    assert (Es : s' = fst (after_pop s w (st_sig s) (trk', o))) by (inversion H as [H1]; rewrite H1; reflexivity). rewrite Es.
    rewrite after_pop_trk. simpl. eapply peer_bounded_pop; [|exact Ep]. now apply peer_bounded_thaw.
  - destruct (nth_error (st_w s) w) as [[| |p x]|]; try discriminate.
    intro H; inversion H; subst; simpl. destruct (aget p (st_trk s)) as [t|] eqn:Et; [|exact Hb].
    apply peer_bounded_aput; [exact Hb|]. intro Hm. unfold nact, tr_done, del_id; simpl.
    eapply Nat.le_trans; [apply filter_length_le|]. apply (Hb p t Et Hm).
Qed.

Theorem per_peer_bound cfg w ls s e :
  run cfg (init w) ls = Some (s, e) -> peer_bounded cfg (st_trk s).
Proof.
  assert (G : forall ls s0 s e, peer_bounded cfg (st_trk s0) -> run cfg s0 ls = Some (s, e) -> peer_bounded cfg (st_trk s)).
  { induction ls0 as [|l ls0 IH]; simpl; intros s0 s1 e1 Hb H.
    - inversion H; subst; exact Hb.
    - destruct (step cfg s0 l) as [[sa ea]|] eqn:E1; [|discriminate].
      destruct (run cfg sa ls0) as [[sb eb]|] eqn:E2; [|discriminate]. inversion H; subst.
      eapply IH; [|exact E2]. eapply step_peer_bounded; eauto. }
  intro H. eapply G; [|exact H]. intros p t Hp. discriminate.
Qed.
