(* MsgQueueParkProofs.v — histories with reservations waiting in the allocator (MsgQueuePark.v): every such
   history acts on the queue as a history of the base model, so C15's and C16's theorems transfer; the
   peer's accounted memory is what is queued, in flight, or granted to a caller that has not used it yet. *)
From Coq Require Import List NArith Bool Lia Arith PeanoNat.
From GS Require Import Base MsgQueue MsgQueueProofs MsgQueue16 MsgQueue16Proofs MsgQueuePark.
Import ListNotations.
Open Scope N_scope.
Local Arguments N.add : simpl never.
Local Arguments N.sub : simpl never.

Lemma p_post_g s g' r0 : p_g (p_post s g' r0) = g'.
Proof. unfold p_post. destruct (negb (exited (g_s (p_g s))) && exited (g_s g')); [reflexivity|]. destruct (regrant _ _ _); reflexivity. Qed.
Lemma p_post_limit s g' r0 : p_limit (p_post s g' r0) = p_limit s.
Proof. unfold p_post. destruct (negb (exited (g_s (p_g s))) && exited (g_s g')); [reflexivity|]. destruct (regrant _ _ _); reflexivity. Qed.

(* every step performs at most one label of the base model on the queue *)
Lemma pstep_g bstep s l :
  p_g (pstep bstep s l) = match base_label s l with Some bl => bstep (p_g s) bl | None => p_g s end.
Proof.
  destruct l as [bl|]; cbn [pstep base_label].
  - destruct (build_of bl) as [[r ops]|]; [destruct (immediate s r ops); [apply p_post_g | reflexivity] | apply p_post_g].
  - destruct (p_ready s) as [|[[r ops] c] rest]; [reflexivity | apply p_post_g].
Qed.

Lemma grun_snoc bls bl : grun (bls ++ [bl]) = gstep (grun bls) bl.
Proof. unfold grun. rewrite fold_left_app. reflexivity. Qed.

Theorem park_refines : forall limit ls, exists bls, p_g (prun gstep limit ls) = grun bls.
Proof.
  intros limit ls. unfold prun.
  assert (H : forall ls s, (exists bls, p_g s = grun bls) -> exists bls, p_g (fold_left (pstep gstep) ls s) = grun bls).
  { induction ls0 as [|l ls0 IH]; intros s Hs; [exact Hs|]. cbn [fold_left]. apply IH. destruct Hs as [bls Hs].
    rewrite pstep_g. destruct (base_label s l) as [bl|]; [|eauto]. exists (bls ++ [bl]). rewrite grun_snoc, Hs. reflexivity. }
  apply H. exists []. reflexivity.
Qed.

(* ---------- the accounting of waiting and answered reservations ---------- *)
Lemma ready_sum_app a b : ready_sum (a ++ b) = ready_sum a + ready_sum b.
Proof. unfold ready_sum. induction a as [|x a IH]; cbn [app fold_right]; [lia | rewrite IH; lia]. Qed.
Lemma ready_sum_false1 (l : list (txn * bool)) : ready_sum (map (fun x : txn * bool => (fst x, false)) l) = 0.
Proof. unfold ready_sum. induction l as [|x l IH]; [reflexivity|]. cbn [map fold_right snd]. rewrite IH. reflexivity. Qed.
Lemma ready_sum_false2 (l : list txn) : ready_sum (map (fun x : txn => (x, false)) l) = 0.
Proof. unfold ready_sum. induction l as [|x l IH]; [reflexivity|]. cbn [map fold_right snd]. rewrite IH. reflexivity. Qed.
Lemma ready_sum_tail x l : ready_sum (x :: l) = 0 -> ready_sum l = 0.
Proof. unfold ready_sum. cbn [fold_right]. lia. Qed.

(* after the queue has exited nothing granted is accounted any more, and a reservation still waiting is one that
   can never be granted *)
Definition PInv (s : pst) : Prop :=
  exited (g_s (p_g s)) = true ->
  ready_sum (p_ready s) = 0 /\
  match p_wait s with [] => True | x :: _ => fitsb 0 (txn_size x) (p_limit s) = false end.

Lemma exited_alloc g : GInv g -> exited (g_s g) = true -> alloc (g_s g) = 0.
Proof.
  intros [_ C] He. destruct (cinv_accounting _ C) as (_ & _ & Hx). unfold exited in He.
  destruct (ph (g_s g)) eqn:Ep; try discriminate. apply Hx. reflexivity.
Qed.

Lemma p_post_pinv s g' r0 : GInv g' -> PInv s -> (ready_sum (p_ready s) = 0 -> ready_sum r0 = 0) -> PInv (p_post s g' r0).
Proof.
  intros HG HP Hr. unfold PInv, p_post. destruct (negb (exited (g_s (p_g s))) && exited (g_s g')) eqn:Et.
  - intros _. cbn [p_ready p_wait]. rewrite ready_sum_app, ready_sum_false1, ready_sum_false2. auto.
  - destruct (exited (g_s g')) eqn:Ee.
    + rewrite andb_true_r in Et. apply negb_false_iff in Et. destruct (HP Et) as [H1 H2].
      rewrite (exited_alloc g' HG Ee), (Hr H1). cbn [N.add].
      assert (Hre : regrant (p_limit s) (0 + 0) (p_wait s) = ([], p_wait s)).
      { destruct (p_wait s) as [|x w]; [reflexivity|]. cbn [regrant]. replace (0 + 0) with 0 by lia. rewrite H2. reflexivity. }
      rewrite Hre. cbn [p_g p_ready p_wait p_limit map]. rewrite Ee. intros _. rewrite app_nil_r. split; [apply Hr, H1 | exact H2].
    + destruct (regrant _ _ _) as [g w]. cbn [p_g]. rewrite Ee. discriminate.
Qed.

Section Generic.
  Variable bstep : g16 -> qlabel16 -> g16.
  Hypothesis bstep_ginv : forall g l, GInv g -> GInv (bstep g l).

  Definition PI (s : pst) : Prop := GInv (p_g s) /\ PInv s.

  Lemma pstep_pi s l : PI s -> PI (pstep bstep s l).
  Proof.
    intros [HG HP]. split.
    - rewrite pstep_g. destruct (base_label s l); [apply bstep_ginv, HG | exact HG].
    - destruct l as [bl|]; cbn [pstep].
      + destruct (build_of bl) as [[r ops]|] eqn:Eb.
        * destruct (immediate s r ops) eqn:Ei; [apply p_post_pinv; auto|].
          unfold PInv. cbn [p_g p_ready p_wait p_limit]. intro He. destruct (HP He) as [H1 H2]. split; [exact H1|].
          destruct (p_wait s) as [|x w] eqn:Ew; [|exact H2]. cbn [app].
          unfold immediate in Ei. rewrite Ew in Ei. apply orb_false_iff in Ei as [Ei Ei2]. apply orb_false_iff in Ei as [_ Ei1].
          rewrite andb_true_r in Ei2. unfold p_total in Ei2. rewrite (exited_alloc _ HG He), H1 in Ei2. exact Ei2.
        * apply p_post_pinv; auto.
      + destruct (p_ready s) as [|[[r ops] c] rest] eqn:Er; [exact HP|].
        apply p_post_pinv; [apply bstep_ginv, HG | exact HP|]. rewrite Er. apply ready_sum_tail.
  Qed.

  Lemma pi_new limit : PI (p_new limit).
  Proof. split; [exact ginv_new | intro H; discriminate H]. Qed.

  Lemma fold_pi : forall ls s, PI s -> PI (fold_left (pstep bstep) ls s).
  Proof. induction ls as [|l ls IH]; intros s H; [exact H | apply IH, pstep_pi, H]. Qed.
End Generic.

(* what the invariant says about Allocator.AllocatedForPeer *)
Lemma pi_accounting s : GInv (p_g s) /\ PInv s ->
  let q := g_s (p_g s) in
  p_total s = qsum (builders q) + inflight_size (ph q) + ready_sum (p_ready s) /\
  (ph q = PIdle -> qsum (builders q) = 0 /\ p_total s = ready_sum (p_ready s)) /\
  (ph q = PExited -> builders q = [] /\ p_total s = 0).
Proof.
  intros [HG HP]. destruct HG as [HI C]. cbn zeta. destruct (cinv_accounting _ C) as (Ha & Hi & He). unfold p_total.
  split; [lia|]. split.
  - intro Hp. destruct (Hi Hp) as [H0 HE]. destruct C as [[HF _] _]. rewrite (all_empty_qsum _ HF HE). split; [reflexivity | lia].
  - intro Hp. destruct (He Hp) as [H0 HE]. split; [exact HE|].
    assert (Hx : exited (g_s (p_g s)) = true) by (unfold exited; rewrite Hp; reflexivity).
    destruct (HP Hx) as [Hr _]. lia.
Qed.

Theorem c15_parked_accounting : forall limit ls,
  let s := prun gstep limit ls in let q := g_s (p_g s) in
  p_total s = qsum (builders q) + inflight_size (ph q) + ready_sum (p_ready s) /\
  (ph q = PIdle -> qsum (builders q) = 0 /\ p_total s = ready_sum (p_ready s)) /\
  (ph q = PExited -> builders q = [] /\ p_total s = 0).
Proof. intros limit ls. apply pi_accounting. apply (fold_pi gstep gstep_ginv), pi_new. Qed.

(* the answer of the allocator taken after the queue has been shut down: nothing is built, nobody is attached,
   no event is published *)
Theorem c16_parked_after_shutdown : forall limit ls r ops c rest,
  let s := prun gstep limit ls in
  p_ready s = ((r, ops), c) :: rest -> done (g_s (p_g s)) = true -> ph (g_s (p_g s)) <> PIdle ->
  let s' := pstep gstep s PDeliver in
  builders (g_s (p_g s')) = builders (g_s (p_g s)) /\ g_att (p_g s') = g_att (p_g s) /\ g_ev (p_g s') = g_ev (p_g s) /\
  alloc (g_s (p_g s')) = alloc (g_s (p_g s)).
Proof.
  intros limit ls r ops c rest s Hr Hd Hp s'. subst s'. rewrite pstep_g. cbn [base_label]. rewrite Hr.
  unfold deliver_label. destruct (mem_req r (closed (g_s (p_g s)))) eqn:Ec.
  - cbn [gstep g_s g_att g_ev attach16 build_of opt_list]. unfold qstep16, do_touch. rewrite Hd.
    destruct (ph (g_s (p_g s))) eqn:Ep; [contradiction Hp; reflexivity | | | |]; cbn [fst snd out_nil q_events]; rewrite !app_nil_r; auto.
  - cbn [gstep g_s g_att g_ev]. unfold attach16. cbn [build_of]. rewrite Ec, Hd. cbn [orb opt_list]. rewrite app_nil_r.
    unfold qstep16, qstep.
    assert (Hb : do_build (g_s (p_g s)) r ops =
                 ({| builders := builders (g_s (p_g s)); next_topic := next_topic (g_s (p_g s)); alloc := alloc (g_s (p_g s));
                     has_sender := has_sender (g_s (p_g s)); work := work (g_s (p_g s)); done := done (g_s (p_g s));
                     ph := ph (g_s (p_g s)); closed := closed (g_s (p_g s));
                     miss := if existsb (fun o => match o with TBlock _ _ false => true | _ => false end) ops
                             then aput r tt (miss (g_s (p_g s))) else miss (g_s (p_g s)) |}, out_nil))
      by (unfold do_build; rewrite Ec, Hd; reflexivity).
    rewrite Hb. cbn [ph]. destruct (ph (g_s (p_g s))) eqn:Ep; [contradiction Hp; reflexivity | | | |];
      cbn [fst snd out_nil q_events builders alloc]; rewrite app_nil_r; auto.
Qed.

(* ---------- the monitors accept every model history with parked reservations ---------- *)
Definition p_end (s : pst) (ls : list (plabel * bool)) : pst := fold_left (fun s lh => pstep_h (snd lh) s (fst lh)) ls s.

Lemma p_run_snoc univ : forall ls s l h,
  p_run univ s (ls ++ [(l, h)]) = p_run univ s ls ++ [p_observe univ h (p_end s ls) (pstep_h h (p_end s ls) l) l].
Proof.
  induction ls as [|[l0 h0] ls IH]; intros s l h; [reflexivity|].
  cbn [p_run app]. unfold p_end. cbn [fold_left fst snd]. fold (p_end (pstep_h h0 s l0) ls). rewrite IH. reflexivity.
Qed.
Lemma p_end_snoc s ls x : p_end s (ls ++ [x]) = pstep_h (snd x) (p_end s ls) (fst x).
Proof. unfold p_end. rewrite fold_left_app. reflexivity. Qed.

Lemma pstep_h_ghost h s l :
  g_ev (p_g (pstep_h h s l)) = g_ev (p_g s) ++ step_events h s l /\
  g_att (p_g (pstep_h h s l)) = g_att (p_g s) ++ opt_list (step_att s l).
Proof.
  unfold pstep_h, step_events, step_att. rewrite pstep_g. destruct (base_label s l) as [bl|]; cbn [gstep_h g_ev g_att fst snd opt_list].
  - auto.
  - rewrite !app_nil_r. auto.
Qed.

Lemma pi_end limit ls : PI (p_end (p_new limit) ls).
Proof.
  unfold p_end. assert (H : forall ls s, PI s -> PI (fold_left (fun s lh => pstep_h (snd lh) s (fst lh)) ls s)).
  { induction ls0 as [|[l h] ls0 IH]; intros s Hs; [exact Hs|]. cbn [fold_left fst snd]. apply IH.
    apply (pstep_pi (fun g l => gstep_h g (l, h))); [intros g l0; apply gstep_h_ginv | exact Hs]. }
  apply H, pi_new.
Qed.

Lemma p_run_ghost univ limit ls :
  let run := p_run univ (p_new limit) ls in let g := p_g (p_end (p_new limit) ls) in
  (forall i, (i < length univ)%nat -> nth_events i (map po_obs run) = events_for (nth i univ 0) (g_ev g)) /\
  (forall r, atts_of r (map po_att run) = atts_r r (g_att g)).
Proof.
  induction ls as [|[l h] ls IH] using rev_ind; [split; reflexivity|].
  destruct IH as [IH1 IH2]. cbn zeta. rewrite p_run_snoc, !map_app, p_end_snoc. cbn [map fst snd].
  destruct (pstep_h_ghost h (p_end (p_new limit) ls) l) as [He Ha]. rewrite He, Ha. split.
  - intros i Hi. rewrite nth_events_snoc, IH1, events_for_app by exact Hi. f_equal.
    unfold p_observe, q_observe. cbn [po_obs qo_events q_events]. apply nth_map_univ, Hi.
  - intro r. rewrite atts_of_snoc, IH2, atts_r_app. reflexivity.
Qed.

Lemma p_last_obs univ limit ls :
  let o := last (map po_obs (p_run univ (p_new limit) ls)) obs_dflt in let q := g_s (p_g (p_end (p_new limit) ls)) in
  qo_phase o = phase_code (ph q) /\
  qo_nonempty o = N.of_nat (length (filter (fun b => negb (bld_empty b)) (builders q))).
Proof.
  destruct ls as [|[l h] ls _] using rev_ind; [split; reflexivity|].
  cbn zeta. rewrite p_run_snoc, map_app. cbn [map]. rewrite last_last, p_end_snoc. cbn [fst snd]. split; reflexivity.
Qed.

Theorem c16_parked_monitor : forall univ limit ls,
  let run := p_run univ (p_new limit) ls in
  mon16_hist univ (map po_obs run) (map po_att run) = true.
Proof.
  intros univ limit ls. cbn zeta. destruct (pi_end limit ls) as [HG _].
  destruct (p_run_ghost univ limit ls) as [M1 M2]. destruct (p_last_obs univ limit ls) as [L1 L2].
  set (g := p_g (p_end (p_new limit) ls)) in *. unfold mon16_hist.
  assert (Hq : last_phase_quiet (map po_obs (p_run univ (p_new limit) ls)) = quiet_b (g_s g)) by (unfold last_phase_quiet, quiet_b; rewrite L1; reflexivity).
  rewrite Hq. apply andb_true_iff. split.
  - apply forallb_forall. intros i Hi. apply in_seq in Hi. rewrite M1 by lia. rewrite M2. apply mon_req_ok, HG.
  - destruct (quiet_b (g_s g)) eqn:Eq; [|reflexivity]. unfold last_nonempty0. rewrite L2.
    destruct HG as [_ C]. destruct (cinv_accounting _ C) as (_ & Hi & He).
    destruct (quiet_b_true _ Eq) as [Hp|Hp].
    + destruct (Hi Hp) as [_ HE]. rewrite (all_empty_filter _ HE). reflexivity.
    + destruct (He Hp) as [_ HE]. rewrite HE. reflexivity.
Qed.

Lemma mon15p_ok univ h s s' l : PI s' -> mon15p_obs (p_observe univ h s s' l) = true.
Proof.
  intro H. destruct (pi_accounting s' H) as (Ha & Hi & He). unfold mon15p_obs, p_observe.
  cbn [po_obs po_granted qo_sizes qo_alloc qo_phase q_observe]. rewrite sum_n_qsum.
  destruct (ph (g_s (p_g s'))) eqn:Ep; cbn [phase_code inflight_size N.eqb] in *.
  - destruct (Hi eq_refl) as [H0 H1]. rewrite H0, H1. cbn. rewrite N.eqb_refl, andb_true_r. apply N.leb_le. lia.
  - cbn. rewrite andb_true_r. apply N.leb_le. lia.
  - cbn. rewrite andb_true_r. apply N.leb_le. lia.
  - cbn. rewrite andb_true_r. apply N.leb_le. lia.
  - destruct (He eq_refl) as [H0 H1]. rewrite H0, H1. reflexivity.
Qed.

Theorem c15_parked_monitor : forall univ limit ls, forallb mon15p_obs (p_run univ (p_new limit) ls) = true.
Proof.
  intros univ limit ls. apply forallb_forall. intros o Ho.
  assert (H : forall ls s, PI s -> In o (p_run univ s ls) -> mon15p_obs o = true).
  { induction ls0 as [|[l h] ls0 IH]; intros s Hs Hin; [contradiction|]. cbn [p_run] in Hin.
    assert (Hs' : PI (pstep_h h s l)) by (apply (pstep_pi (fun g l => gstep_h g (l, h))); [intros g l0; apply gstep_h_ginv | exact Hs]).
    destruct Hin as [<-|Hin]; [apply mon15p_ok, Hs' | apply (IH _ Hs' Hin)]. }
  apply (H ls (p_new limit)); [apply pi_new | exact Ho].
Qed.
