(* C06Frame.v — what one iteration of Executor.traverse does to the traversal record and to the block count,
   in every state of the loader: the link just attempted is the pending attempt, earlier ones are recorded,
   nothing else touches the record (BlockReadOpener records the previous attempt, RetryLastLoad drops the failed
   one).  Used by C06 (pause/resume after the request was sent). *)
From Coq Require Import List NArith Bool Lia.
From GS Require Import Base Ltree RecLoader ReqExec RecLoaderProofs.
From GS Require Traffic TrafficProofs.
Import ListNotations.
Open Scope N_scope.
Local Arguments N.add : simpl never.

(* the record once the pending attempt is recorded *)
Definition eff (r : rl) : trec := r_record (bro_start r).

Lemma eff_eq r : eff r = match r_last r with Some a => record_step (a_path a) (a_link a) (a_ok a) (r_record r) | None => r_record r end.
Proof. unfold eff, bro_start. destruct (r_last r); reflexivity. Qed.

Section Frame.
  Variable below : path -> path -> bool.

  Lemma wait_loop_rec : forall its q r r' w, wait_loop its q r = (r', w) -> r_record r' = r_record r /\ r_last r' = r_last r.
  Proof.
    induction its as [|h t IH]; intros q r r' w E; cbn [wait_loop] in E.
    - inversion E; subst. cbn. auto.
    - destruct (r_verifier r) as [v|]; [|inversion E; subst; cbn; auto].
      destruct (vdone (r_record r) v); [inversion E; subst; cbn; auto|].
      destruct (rq_consume q) as [[h0 q']|]; [|inversion E; subst; cbn; auto].
      destruct (verify_next (r_record r) v (i_link h) (did_follow (i_act h))) as [e|v'].
      + inversion E; subst. cbn. auto.
      + apply IH in E. destruct E as [E1 E2]. rewrite E1, E2. unfold record_remote. destruct (did_follow (i_act h)); cbn; auto.
  Qed.

  Lemma bro_try_rec r st p c r' st' o :
    bro_try below r st p c = (r', st', o) ->
    r_record r' = r_record r /\
    match o with
    | Some res => exists u, r_last r' = Some {| a_path := p; a_link := c; a_ok := RecLoader.res_ok res; a_remote := u |}
    | None => r_last r' = r_last r
    end.
  Proof.
    unfold bro_try, bro_inner, wait_remote.
    destruct (wait_loop (q_items (r_q r)) (r_q r) r) as [r1 w] eqn:Ew. apply wait_loop_rec in Ew. destruct Ew as [W1 W2].
    destruct w.
    - destruct (still_unfollowed below r1 p) as [r2 onp] eqn:Eu.
      assert (E2 : r_record r2 = r_record r1 /\ r_last r2 = r_last r1).
      { unfold still_unfollowed in Eu. destruct (r_unfollowed r1) as [|a l]; [inversion Eu; auto|].
        destruct (below (a :: l) p); inversion Eu; cbn; auto. }
      destruct E2 as [S1 S2]. destruct onp.
      + intro E; inversion E; subst; cbn. split; [congruence | eexists; reflexivity].
      + unfold load_remote. destruct (rq_consume (r_q r2)) as [[head q']|].
        * destruct (negb (i_link head =? c)).
          -- intro E; inversion E; subst; cbn. split; [congruence | eexists; reflexivity].
          -- destruct (i_blk head); intro E; inversion E; subst; cbn;
               unfold record_remote; destruct (did_follow (i_act head)); cbn; (split; [congruence | eexists; reflexivity]).
        * intro E; inversion E; subst; cbn. split; [congruence | eexists; reflexivity].
    - intro E; inversion E; subst; cbn. split; [congruence | eexists; reflexivity].
    - intro E; inversion E; subst; cbn. split; congruence.
    - intro E; inversion E; subst; cbn. split; [congruence | eexists; reflexivity].
  Qed.

  Lemma process_msg_rec m x : r_record (x_rl (process_msg m x)) = r_record (x_rl x).
  Proof.
    unfold process_msg. cbn [x_rl].
    set (rs := filter (for_us m) (m_resps m)).
    assert (Hfold : forall r0, r_record (fold_left (fun r rp => ingest (rs_md rp) (m_blocks m) r) rs r0) = r_record r0).
    { induction rs as [|rp rs IH]; intro r0; cbn [fold_left]; [reflexivity|]. rewrite IH.
      unfold ingest. destruct (rs_md rp); [reflexivity|]. destruct (r_open r0); reflexivity. }
    destruct (existsb _ rs); [|apply Hfold]. unfold set_online. cbn. apply Hfold.
  Qed.

  Lemma deliver_n_rec n : forall x, r_record (x_rl (deliver_n n x)) = r_record (x_rl x) /\ r_last (x_rl (deliver_n n x)) = r_last (x_rl x).
  Proof.
    induction n as [|n IH]; intro x; cbn [deliver_n]; [auto|].
    destruct (x_feed x) as [|m f]; [auto|]. destruct (IH (process_msg m (x_with_feed x f))) as [A B].
    rewrite A, B, process_msg_rec, process_msg_last. auto.
  Qed.

  Lemma load_wait_rec : forall feed x p c x' res,
    load_wait below feed x p c = (x', Some res) ->
    r_record (x_rl x') = r_record (x_rl x) /\
    exists u, r_last (x_rl x') = Some {| a_path := p; a_link := c; a_ok := RecLoader.res_ok res; a_remote := u |}.
  Proof.
    induction feed as [|m f IH]; intros x p c x' res E; cbn [load_wait] in E;
      destruct (bro_try below (x_rl x) (x_store x) p c) as [[r1 st1] o1] eqn:Et; apply bro_try_rec in Et; destruct Et as [T1 T2].
    - destruct o1 as [r0|]; inversion E; subst. destruct res as [b [|]|]; cbn; auto.
    - destruct o1 as [r0|].
      + inversion E; subst. destruct res as [b [|]|]; cbn; auto.
      + apply IH in E. destruct E as [E1 E2]. rewrite E1, process_msg_rec. cbn [x_with_feed x_with_rl x_rl]. auto.
  Qed.

  Lemma bro_start_last r : r_last (bro_start r) = None.
  Proof. unfold bro_start. destruct (r_last r) eqn:E; [reflexivity | exact E]. Qed.

  Lemma load_call_rec x p c x' res :
    load_call below x p c = (x', Some res) ->
    r_record (x_rl x') = eff (x_rl x) /\
    exists u, r_last (x_rl x') = Some {| a_path := p; a_link := c; a_ok := RecLoader.res_ok res; a_remote := u |}.
  Proof.
    unfold load_call. destruct (pop_sched x) as [n x0] eqn:Ep.
    assert (H0 : x_rl x0 = x_rl x) by (unfold pop_sched in Ep; destruct (x_sched x); inversion Ep; reflexivity).
    intro E. apply load_wait_rec in E. cbn [x_with_rl x_rl] in E. destruct E as [E1 E2]. split; [|exact E2].
    rewrite E1. fold (eff (x_rl (deliver_n n x0))). rewrite !eff_eq. destruct (deliver_n_rec n x0) as [A B]. rewrite B, A, H0. reflexivity.
  Qed.

  Variable responder : N -> list msg.
  Variable dnsfb : N.

  Lemma eff_of_last r p c ok u T :
    r_record r = T -> r_last r = Some {| a_path := p; a_link := c; a_ok := ok; a_remote := u |} -> eff r = record_step p c ok T.
  Proof. intros E1 E2. unfold eff, bro_start. rewrite E2. cbn. now rewrite E1. Qed.

  Theorem exec_frame x p c x' a :
    exec_ask below responder dnsfb x p c = (x', a) -> (a = AOk \/ a = ASkip) ->
    eff (x_rl x') = record_step p c (match a with AOk => true | _ => false end) (eff (x_rl x)) /\
    x_nblocks x' = x_nblocks x + (match a with AOk => 1 | _ => 0 end).
  Proof.
    unfold exec_ask. destruct (load_call below x p c) as [x1 o1] eqn:E1.
    assert (N1 : x_nblocks x1 = x_nblocks x) by (destruct (TrafficProofs.load_call_grows below _ _ _ _ _ E1) as (_ & Nb & _); exact Nb).
    assert (Hfin : forall x2 res, r_record (x_rl x2) = eff (x_rl x) ->
              (exists u, r_last (x_rl x2) = Some {| a_path := p; a_link := c; a_ok := RecLoader.res_ok res; a_remote := u |}) ->
              x_nblocks x2 = x_nblocks x ->
              forall x' a,
              (let x3 := x_logged x2 (XLoad p c res) in
               match res with
               | RData _ _ =>
                   ({| x_rl := x_rl x3; x_store := x_store x3; x_sent := x_sent x3; x_nblocks := x_nblocks x3 + 1;
                       x_cancelled := x_cancelled x3; x_errs := x_errs x3; x_feed := x_feed x3; x_sched := x_sched x3;
                       x_log := x_log x3 |}, AOk)
               | RErr e _ =>
                   if x_cancelled x3 then (x3, AErr (ErrOther cancel_code))
                   else
                     let x4 := {| x_rl := x_rl x3; x_store := x_store x3; x_sent := x_sent x3; x_nblocks := x_nblocks x3;
                                  x_cancelled := x_cancelled x3; x_errs := x_errs x3 ++ [e]; x_feed := x_feed x3;
                                  x_sched := x_sched x3; x_log := x_log x3 |} in
                     match e with
                     | EMissing _ _ => (x4, ASkip)
                     | _ => (x4, AErr (ErrOther (err_code e)))
                     end
               end) = (x', a) -> (a = AOk \/ a = ASkip) ->
              eff (x_rl x') = record_step p c (match a with AOk => true | _ => false end) (eff (x_rl x)) /\
              x_nblocks x' = x_nblocks x + (match a with AOk => 1 | _ => 0 end)).
    { intros x2 res Hr (u & Hl) Hn x0 a0 E Ha. destruct res as [b l|e l].
      - inversion E; subst. cbn [x_rl x_nblocks x_logged]. split; [apply (eff_of_last _ p c true u _ Hr Hl) | now rewrite Hn].
      - cbn [x_logged x_cancelled] in E. destruct (x_cancelled x2); [inversion E; subst; destruct Ha; discriminate|].
        destruct e; inversion E; subst; try (destruct Ha; discriminate).
        cbn [x_rl x_nblocks]. split; [apply (eff_of_last _ p c false u _ Hr Hl) | rewrite Hn; lia]. }
    destruct o1 as [res1|].
    - destruct (load_call_rec _ _ _ _ _ E1) as [R1 L1].
      destruct res1 as [b l|e l]; [intros E Ha; exact (Hfin x1 _ R1 L1 N1 x' a E Ha)|].
      destruct e as [p0 c0|l0 r0 p0|n0]; try (intros E Ha; exact (Hfin x1 _ R1 L1 N1 x' a E Ha)).
      destruct (x_sent x1); [intros E Ha; exact (Hfin x1 _ R1 L1 N1 x' a E Ha)|].
      destruct (x_cancelled x1) eqn:Ec.
      + (* cancelled during the local load *)
        cbn [x_logged x_cancelled x_with_rl]. rewrite Ec. intros E Ha. inversion E; subst. destruct Ha; discriminate.
      + destruct L1 as (u1 & L1).
        unfold retry_call, go_online, retry_prepare. cbn [x_rl x_with_rl x_store].
        assert (Hl2 : r_last (set_online true (x_rl x1)) = r_last (x_rl x1)) by (unfold set_online; destruct (true && negb (r_open (x_rl x1))); reflexivity).
        assert (Hr2 : r_record (set_online true (x_rl x1)) = r_record (x_rl x1)) by (unfold set_online; destruct (true && negb (r_open (x_rl x1))); reflexivity).
        rewrite Hl2, L1. cbn [a_remote a_path a_link].
        match goal with |- context [load_call below ?xx p c] => set (xr := xx) end.
        destruct (load_call below xr p c) as [x2 o2] eqn:E2.
        assert (N2 : x_nblocks x2 = x_nblocks x).
        { destruct (TrafficProofs.load_call_grows below _ _ _ _ _ E2) as (_ & Nb & _). rewrite Nb. unfold xr. cbn. exact N1. }
        destruct o2 as [res2|]; [|intros E Ha; inversion E; subst; destruct Ha; discriminate].
        destruct (load_call_rec _ _ _ _ _ E2) as [R2 L2].
        assert (R2' : r_record (x_rl x2) = eff (x_rl x)).
        { rewrite R2, eff_eq. unfold xr. cbn [x_rl x_with_rl].
          destruct u1; cbn [set_last set_q r_last r_record]; rewrite Hr2; exact R1. }
        intros E Ha. exact (Hfin x2 _ R2' L2 N2 x' a E Ha).
    - intros E Ha. inversion E; subst. destruct Ha; discriminate.
  Qed.
End Frame.
