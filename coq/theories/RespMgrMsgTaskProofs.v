(* RespMgrMsgTaskProofs.v — C10 frame for labels that are foreign in the monitor's sense (mforeign):
   besides another peer's messages and send reports, a task start, an executor step or a FinishTask
   under another peer's name.  With the owner check in startTask / finishTask (c_task, on in [fixed])
   such a label leaves p's view of the slot - the table entry, p's own parked executors, p's own
   task-queue row - unchanged and outputs nothing for p.  (The other peer's own task-queue row and
   executors under the id may change: that is its task being retired.) *)
From Coq Require Import List NArith Bool Lia.
From GS Require Import Base RespMgrMsg RespMgrMsgProofs.
Import ListNotations.
Open Scope N_scope.

Definition my_execs (p : N) (sl : slot) : list exec := filter (fun x => x_pid x =? p) (sl_execs sl).
Definition quiet_for (p : N) (os : list sout) : Prop := Forall (fun o => out_peer o <> Some p) os.

(* no executor started under another peer's name holds the entry's request (tags name distinct request
   objects; the model's tags could collide in an arbitrary state, Go's pointers cannot) *)
Definition exec_sep (p : N) (sl : slot) : Prop :=
  match sl_ent sl with
  | Some en => forall x, In x (sl_execs sl) -> x_pid x <> p -> x_tag x <> e_tag en
  | None => True
  end.

Definition same_view (p : N) (a b : slot) : Prop :=
  sl_ent a = sl_ent b /\ my_execs p a = my_execs p b /\ aget p (sl_tq a) = aget p (sl_tq b).

Lemma not_for_quiet p os : not_for p os -> quiet_for p os.
Proof.
  unfold not_for, quiet_for. intro H. eapply Forall_impl; [|exact H].
  intros o [q [E Hq]] E'. rewrite E in E'. congruence.
Qed.

Lemma aget_tq_done p pid q : pid <> p -> aget p (tq_done pid q) = aget p q.
Proof.
  intro H. unfold tq_done. destruct (aget pid q) as [[|]|]; try reflexivity. now apply aget_adel_neq.
Qed.

Lemma take_exec_spec pid tag : forall xs x rest, take_exec pid tag xs = Some (x, rest) ->
  x_pid x = pid /\ x_tag x = tag /\ In x xs /\
  forall p, pid <> p -> filter (fun y => x_pid y =? p) rest = filter (fun y => x_pid y =? p) xs.
Proof.
  induction xs as [|y xs IH]; intros x rest H; simpl in H; [discriminate|].
  destruct ((x_pid y =? pid) && (x_tag y =? tag)) eqn:E.
  - inversion H; subst. apply andb_true_iff in E as [E1 E2]. apply N.eqb_eq in E1, E2.
    repeat split; auto; [now left|]. intros p Hp. simpl. destruct (N.eqb_spec (x_pid x) p); [congruence|reflexivity].
  - destruct (take_exec pid tag xs) as [[z r']|] eqn:Et; [|discriminate]. inversion H; subst.
    destruct (IH x r' eq_refl) as (A & B & C & D). repeat split; auto; [now right|].
    intros p Hp. simpl. rewrite (D p Hp). reflexivity.
Qed.

Lemma task_start_frame p pid sl : owned_sl p sl = true -> pid <> p ->
  same_view p (fst (h_start fixed pid sl)) sl /\ quiet_for p (snd (h_start fixed pid sl)).
Proof.
  intros Ho Hp. unfold h_start. unfold owned_sl in Ho.
  destruct (aget pid (sl_tq sl)) as [[|]|] eqn:Eq; simpl;
    try (split; [repeat split; reflexivity | constructor; [discriminate|constructor]]).
  destruct (sl_ent sl) as [en|] eqn:Ee; [|discriminate]. apply N.eqb_eq in Ho.
  assert (En : negb (e_peer en =? pid) = true) by (apply negb_true_iff, N.eqb_neq; congruence).
  simpl. rewrite En, orb_true_r. simpl. split.
  - repeat split; simpl; auto. rewrite aget_tq_done by assumption. now apply aget_aput_neq.
  - constructor; [simpl; congruence|constructor].
Qed.

Lemma task_finish_frame p pid err sl : owned_sl p sl = true -> pid <> p ->
  same_view p (fst (finish_task fixed pid err sl)) sl /\ quiet_for p (snd (finish_task fixed pid err sl)).
Proof.
  intros Ho Hp. unfold finish_task, owned_sl in *. simpl.
  destruct (sl_ent sl) as [en|] eqn:Ee; [|discriminate]. apply N.eqb_eq in Ho.
  assert (En : negb (e_peer en =? pid) = true) by (apply negb_true_iff, N.eqb_neq; congruence).
  rewrite En. simpl. split.
  - repeat split; simpl; auto. now apply aget_tq_done.
  - constructor; [simpl; congruence|constructor].
Qed.

Lemma task_step_frame p hold pid tag bh ext sl : owned_sl p sl = true -> exec_sep p sl -> pid <> p ->
  same_view p (fst (h_step fixed hold pid tag bh ext sl)) sl /\ quiet_for p (snd (h_step fixed hold pid tag bh ext sl)).
Proof.
  intros Ho Hs Hp. unfold h_step.
  destruct (take_exec pid tag (sl_execs sl)) as [[x rest]|] eqn:Et; simpl;
    [|split; [repeat split; reflexivity | constructor; [discriminate|constructor]]].
  destruct (take_exec_spec pid tag _ _ _ Et) as (A & B & C & D).
  unfold owned_sl in Ho. unfold exec_sep in Hs. destruct (sl_ent sl) as [en|] eqn:Ee; [|discriminate].
  assert (Hm : my_entry x (set_execs sl rest) = None).
  { unfold my_entry. simpl. rewrite Ee. destruct (N.eqb_spec (e_tag en) (x_tag x)) as [E|]; [|reflexivity].
    exfalso. apply (Hs x C); congruence. }
  rewrite Hm. simpl. split.
  - repeat split; simpl; auto. unfold my_execs. simpl. now apply D.
  - constructor; [discriminate|constructor].
Qed.

(* C10, frame half for every label that is foreign in the monitor's sense *)
Theorem mframe_sstep p X l sl :
  mforeign p l = true -> owned_sl p sl = true -> exec_sep p sl ->
  same_view p (fst (sstep fixed X l sl)) sl /\ quiet_for p (snd (sstep fixed X l sl)).
Proof.
  intros Hf Ho Hs. unfold mforeign in Hf. destruct (foreign p l) eqn:Ef.
  - destruct (frame_sstep p X l sl Ef Ho) as [E F]. rewrite E. split; [repeat split; reflexivity|now apply not_for_quiet].
  - simpl in Hf. destruct l; try discriminate; apply negb_true_iff in Hf; apply N.eqb_neq in Hf; simpl;
      (destruct (id =? X); [|split; [repeat split; reflexivity|constructor]]).
    + now apply task_start_frame.
    + now apply task_step_frame.
    + now apply task_step_frame.
    + now apply task_finish_frame.
Qed.

Theorem c10_mframe p X s l :
  mforeign p l = true -> owned_sl p (sget X s) = true -> exec_sep p (sget X s) ->
  same_view p (sget X (fst (step fixed s l))) (sget X s) /\ quiet_for p (outs_at X (snd (step fixed s l))).
Proof.
  intros Hf Ho Hs. destruct (local_step fixed X l s) as [A B]. rewrite A, B. now apply mframe_sstep.
Qed.
