(* Responder.v — executable model of the responder's query execution (C03; responder half of C24).

   Transcribes /repo/responsemanager/queryexecutor/queryexecutor.go (runTraversal, loadBlock,
   sendResponse, executeQuery), /repo/responsemanager/preparequery.go (process* functions) and
   /repo/responsemanager/responseassembler/responseBuilder.go (blockOperation / statusOperation,
   setupFinishOperation) on top of the link-tracker model of LinkTracker.v (C19), which is reused
   unchanged, and of the traversal plans of Ltree.v.

   What go-graphsync sees of the selector traversal is a plan [ltree]; the loop of runTraversal is the
   oracle that answers the plan's link loads.  All requests of one peer share the peer's link tracker;
   an execution of the peer is therefore a list of tracker operations [lop] (LinkTracker.v) in which a
   request's own operations appear in program order, interleaved arbitrarily with the others'.

   Message boundaries: every Transaction hands its operations to ONE AllocateAndBuildMessage call; the
   model emits one wire message per transaction.  How the message queue coalesces or splits builders
   afterwards is the subject of MsgQueue.v (C15) and does not separate a block from its metadata entry
   (both are added to the same builder by blockOperation.build). *)
From Coq Require Import List NArith Bool.
From GS Require Export Base Ltree LinkTracker.
Import ListNotations.
Open Scope N_scope.

(* ---- the responder's block store, as loadBlock sees it ---- *)
Inductive sres :=
| RPresent        (* the read opener returns the bytes; they decode *)
| RPresentEmpty   (* a zero-length block is present (bytes.Buffer.Bytes() of an empty read is nil) *)
| RMissing        (* the read opener fails: loadBlock answers SkipMe and reports the link missing *)
| RReadErr        (* the reader fails while the block is copied: io.Copy error, traversal aborted *)
| RCorrupt.       (* bytes are served (and sent) but do not decode: the traversal ends with an error *)

Definition store := list (cid * sres).
Definition sto (st : store) (c : cid) : sres := match aget c st with Some a => a | None => RPresent end.

(* graphsync.ResponseStatusCode values used here (responsecode.go) *)
Definition st_partial_response : N := 14.   (* PartialResponse: the request is still in progress *)
Definition st_full : N := 20.               (* RequestCompletedFull *)
Definition st_partial : N := 21.            (* RequestCompletedPartial *)
Definition st_paused : N := 15.             (* RequestPaused *)
Definition st_failed_unknown : N := 32.     (* RequestFailedUnknown *)
Definition st_not_found : N := 34.          (* RequestFailedContentNotFound *)

(* ---- runTraversal: one iteration = loadBlock, then sendResponse unless loadBlock failed hard ----
   The oracle state is the list of SendResponse(link, data) calls made so far, recorded as
   (link, data != nil).  [fx] = the repair of loadBlock is in place (a loaded zero-length block is
   handed on as empty, not nil, data); fx = false is the code as it was found. *)
Definition load_ask (fx : bool) (R : cid -> sres) : list (cid * bool) -> path -> cid -> list (cid * bool) * ans :=
  fun recs _ c =>
    match R c with
    | RPresent => (recs ++ [(c, true)], AOk)            (* Advance(blockBuffer); sendResponse(lnk, data) *)
    | RPresentEmpty => (recs ++ [(c, fx)], AOk)         (* Advance; data is nil unless repaired *)
    | RMissing => (recs ++ [(c, false)], ASkip)         (* Error(SkipMe{}); return nil, nil; sendResponse(lnk, nil) *)
    | RReadErr => (recs, AErr (ErrOther 1))             (* Error(err); return nil, err: no sendResponse *)
    | RCorrupt => (recs ++ [(c, true)], AErr (ErrOther 2))  (* Advance succeeds, the decode fails afterwards *)
    end.

(* the whole traversal of one request: SendResponse calls, the plan's events, completed without error? *)
Definition rrun (fx : bool) (R : cid -> sres) (t : ltree) : list (cid * bool) * list ev * bool :=
  run_tree (load_ask fx R) t [].

(* the same traversal as the property reads it: the plan run over the store, nothing recorded *)
Definition plain_ask (R : cid -> sres) : unit -> path -> cid -> unit * ans :=
  fun _ _ c =>
    (tt, match R c with
         | RPresent | RPresentEmpty => AOk
         | RMissing => ASkip
         | RReadErr => AErr (ErrOther 1)
         | RCorrupt => AErr (ErrOther 2)
         end).
Definition plain_run (R : cid -> sres) (t : ltree) : list ev * bool :=
  let '(_, evs, ok) := run_tree (plain_ask R) t tt in (evs, ok).

(* one metadata entry per link load, present or missing, in traversal order *)
Fixpoint md_of_events (evs : list ev) : list (cid * bool) :=
  match evs with
  | [] => []
  | ELoad _ c AOk :: r => (c, true) :: md_of_events r
  | ELoad _ c ASkip :: r => (c, false) :: md_of_events r
  | ELoad _ c (AErr (ErrOther 2)) :: r => (c, true) :: md_of_events r   (* served, then failed to decode *)
  | ELoad _ _ (AErr _) :: r => md_of_events r                           (* never loaded *)
  | EVisit _ :: r => md_of_events r
  end.

(* runTraversal's completion branch + executeQuery's switch *)
Definition root_skipped (evs : list ev) : bool :=
  match evs with ELoad _ _ ASkip :: _ => true | _ => false end.
Definition final_status (evs : list ev) (ok : bool) (all : bool) : N :=
  if negb ok then st_failed_unknown           (* default: FinishWithError(RequestFailedUnknown) *)
  else if root_skipped evs then st_not_found  (* NBlocksTraversed() == 0 && err == SkipMe{} => ErrFirstBlockLoad *)
  else if all then st_full else st_partial.   (* FinishRequest: setupFinishOperation *)

(* ---- a request as prepareQuery sees it ---- *)
Record rreq := {
  rq_id : req;
  rq_plan : ltree;
  rq_dedup : option dkey;          (* graphsync/dedup-by-key *)
  rq_ignore : option (list cid);   (* graphsync/do-not-send-cids *)
  rq_skip : option N               (* graphsync/do-not-send-first-blocks *)
}.

(* preparequery.go: processDedupByKey, processDoNoSendCids, processDoNotSendFirstBlocks, in this order *)
Definition ext_ops (q : rreq) : list lop :=
  (match rq_dedup q with Some k => [LDedup (rq_id q) k] | None => [] end) ++
  (match rq_ignore q with Some ls => [LIgnore (rq_id q) ls] | None => [] end) ++
  (match rq_skip q with Some n => [LSkip (rq_id q) n] | None => [] end).

(* every tracker operation the request performs, in program order: the extensions, one
   RecordLinkTraversal per SendResponse, and FinishTracking (FinishRequest and FinishWithError both) *)
Definition rec_ops (r : req) (recs : list (cid * bool)) : list lop :=
  map (fun x => LRecord r (fst x) (snd x)) recs.
Definition own_ops (fx : bool) (R : cid -> sres) (q : rreq) : list lop :=
  ext_ops q ++ rec_ops (rq_id q) (fst (fst (rrun fx R (rq_plan q)))) ++ [LFinish (rq_id q)].

(* ---- what goes on the wire: one message per transaction ---- *)
Record wmsg := {
  wm_req : req;
  wm_md : list (cid * bool);   (* link metadata: (link, present?) *)
  wm_blocks : list cid;        (* blocks carried *)
  wm_idx : list N;             (* BlockData indexes of the transaction *)
  wm_status : N
}.
(* sendResponse's transaction: blockOperation.build = AddBlock iff sendBlock; AddLink always *)
Definition rec_msg (r : req) (c : cid) (h send : bool) (i : N) : wmsg :=
  {| wm_req := r; wm_md := [(c, h)]; wm_blocks := if send then [c] else []; wm_idx := [i];
     wm_status := st_partial_response |}.
(* executeQuery's closing transaction: statusOperation.build *)
Definition fin_msg (r : req) (st : N) : wmsg :=
  {| wm_req := r; wm_md := []; wm_blocks := []; wm_idx := []; wm_status := st |}.

(* prepareQuery's first transaction when the incoming-request hook paused the request: rb.PauseRequest() *)
Definition pause_msg (r : req) : wmsg :=
  {| wm_req := r; wm_md := []; wm_blocks := []; wm_idx := []; wm_status := st_paused |}.

Definition req_of (o : lop) : req :=
  match o with LDedup r _ | LIgnore r _ | LSkip r _ | LRecord r _ _ | LFinish r => r end.

Definition msg_of (fs : bool -> N) (o : lop) (out : lout) : list wmsg :=
  match o, out with
  | LRecord r c h, OSend s i => [rec_msg r c h s i]
  | LFinish r, OFin all => [fin_msg r (fs all)]
  | _, _ => []
  end.

(* the tracker's answers along a global operation list *)
Definition louts (ops : list lop) : list lout := map lo_out (fst (lrun plt_new ops)).

(* the messages of request q inside a global execution [ops] of the peer *)
Definition wire (fx : bool) (R : cid -> sres) (q : rreq) (ops : list lop) : list wmsg :=
  let '(_, evs, ok) := rrun fx R (rq_plan q) in
  flat_map (fun x => if N.eqb (req_of (fst x)) (rq_id q) then msg_of (final_status evs ok) (fst x) (snd x) else [])
           (combine ops (louts ops)).

Definition own (r : req) (ops : list lop) : list lop := filter (fun o => N.eqb (req_of o) r) ops.

(* ============================================================================================ *)
(* Scheduled executions (what the driver plays): the driver decides which request performs its next
   link load; a request is started by prepareQuery. *)
(* SStartPaused q: prepareQuery of a request that the incoming-request hook paused (its first transaction
   carries RequestPaused; the extensions are registered all the same; the request is not queued);
   SUnpause q: UnpauseResponse without extension data (the task is queued; no tracker operation, no message).
   The model lets a paused request step before it is unpaused; the real responder does not, and the
   driver never asks for it: the theorems quantify over the larger set of schedules. *)
Inductive sact := SStart (q : req) | SStep (q : req) | SStartPaused (q : req) | SUnpause (q : req).

(* per load event: the SendResponse call it causes, if any *)
Fixpoint steps_of (fx : bool) (R : cid -> sres) (evs : list ev) : list (option (cid * bool)) :=
  match evs with
  | [] => []
  | ELoad _ c _ :: r =>
      (match R c with
       | RPresent | RCorrupt => Some (c, true)
       | RPresentEmpty => Some (c, fx)
       | RMissing => Some (c, false)
       | RReadErr => None
       end) :: steps_of fx R r
  | EVisit _ :: r => steps_of fx R r
  end.

Record rst := { rs_q : rreq; rs_started : bool; rs_steps : list (option (cid * bool)); rs_fs : bool -> N }.

Definition rst_init (fx : bool) (R : cid -> sres) (q : rreq) : rst :=
  let '(_, evs, ok) := rrun fx R (rq_plan q) in
  {| rs_q := q; rs_started := false; rs_steps := steps_of fx R evs; rs_fs := final_status evs ok |}.

Fixpoint rst_find (r : req) (l : list rst) : option rst :=
  match l with [] => None | x :: rest => if N.eqb (rq_id (rs_q x)) r then Some x else rst_find r rest end.
Fixpoint rst_put (x : rst) (l : list rst) : list rst :=
  match l with
  | [] => []
  | y :: rest => if N.eqb (rq_id (rs_q y)) (rq_id (rs_q x)) then x :: rest else y :: rst_put x rest
  end.

Fixpoint lsteps (s : plt) (ops : list lop) : plt :=
  match ops with [] => s | o :: r => lsteps (fst (fst (lstep s o))) r end.

Definition sim_start (s : plt) (sts : list rst) (r : req) (ms : list wmsg) : plt * list rst * list wmsg :=
  match rst_find r sts with
  | Some x =>
      if rs_started x then (s, sts, [])
      else (lsteps s (ext_ops (rs_q x)),
            rst_put {| rs_q := rs_q x; rs_started := true; rs_steps := rs_steps x; rs_fs := rs_fs x |} sts, ms)
  | None => (s, sts, [])
  end.

Definition sim_step (s : plt) (sts : list rst) (a : sact) : plt * list rst * list wmsg :=
  match a with
  | SStart r => sim_start s sts r []
  | SStartPaused r => sim_start s sts r [pause_msg r]
  | SUnpause r => (s, sts, [])
  | SStep r =>
      match rst_find r sts with
      | Some x =>
          if negb (rs_started x) then (s, sts, []) else
          match rs_steps x with
          | [] => (s, sts, [])
          | st :: rest =>
              let '(s1, m1) :=
                match st with
                | Some (c, h) => let '(s', out, _) := lstep s (LRecord r c h) in (s', msg_of (rs_fs x) (LRecord r c h) out)
                | None => (s, [])
                end in
              let '(s2, m2) :=
                match rest with
                | [] => let '(s', out, _) := lstep s1 (LFinish r) in (s', msg_of (rs_fs x) (LFinish r) out)
                | _ => (s1, [])
                end in
              (s2, rst_put {| rs_q := rs_q x; rs_started := true; rs_steps := rest; rs_fs := rs_fs x |} sts, m1 ++ m2)
          end
      | None => (s, sts, [])
      end
  end.

Fixpoint sim (s : plt) (sts : list rst) (sched : list sact) : list (sact * list wmsg) :=
  match sched with
  | [] => []
  | a :: r => let '(s', sts', ms) := sim_step s sts a in (a, ms) :: sim s' sts' r
  end.

(* ---- comparison with the implementation ---- *)
Definition pair_eqb (a b : cid * bool) : bool := N.eqb (fst a) (fst b) && Bool.eqb (snd a) (snd b).
Definition wmsg_eqb (a b : wmsg) : bool :=
  N.eqb (wm_req a) (wm_req b) && list_eqb pair_eqb (wm_md a) (wm_md b) &&
  list_eqb N.eqb (wm_blocks a) (wm_blocks b) && list_eqb N.eqb (wm_idx a) (wm_idx b) &&
  N.eqb (wm_status a) (wm_status b).
Definition sact_eqb (a b : sact) : bool :=
  match a, b with
  | SStart x, SStart y | SStep x, SStep y | SStartPaused x, SStartPaused y | SUnpause x, SUnpause y => N.eqb x y
  | _, _ => false
  end.
Definition tl_eqb (a b : sact * list wmsg) : bool :=
  sact_eqb (fst a) (fst b) && list_eqb wmsg_eqb (snd a) (snd b).

Record rcase := {
  rc_store : store;
  rc_reqs : list rreq;
  rc_tl : list (sact * list wmsg)     (* the schedule played, each action with the messages it produced *)
}.

Definition rcase_agrees (c : rcase) : bool :=
  list_eqb tl_eqb
    (sim plt_new (map (rst_init true (sto (rc_store c))) (rc_reqs c)) (map fst (rc_tl c)))
    (rc_tl c).

(* ============================================================================================ *)
(* The property as an executable predicate over an observed timeline.  It does not run the
   responder model: it reads the plan run over the store (metadata, final status) and the
   in-progress-requests specification of C19 (which blocks accompany the metadata). *)
Fixpoint rq_find (r : req) (l : list rreq) : option rreq :=
  match l with [] => None | x :: rest => if N.eqb (rq_id x) r then Some x else rq_find r rest end.

Fixpoint spec_ops (sp : spec) (ops : list lop) : option spec :=
  match ops with
  | [] => Some sp
  | o :: r => match spec_step sp o with Some (sp', _) => spec_ops sp' r | None => None end
  end.

(* one observed message of request r against the specification state *)
Definition mon_msg (r : req) (sp : spec) (m : wmsg) : option spec :=
  if negb (N.eqb (wm_req m) r) then None else
  if N.eqb (wm_status m) st_partial_response then
    match wm_md m, wm_idx m with
    | [(c, h)], [i] =>
        match spec_step sp (LRecord r c h) with
        | Some (sp', OSend send i') =>
            if N.eqb i i' && list_eqb N.eqb (wm_blocks m) (if send then [c] else []) then Some sp' else None
        | _ => None
        end
    | _, _ => None
    end
  else
    match wm_md m, wm_blocks m, wm_idx m with
    | [], [], [] => match spec_step sp (LFinish r) with Some (sp', _) => Some sp' | None => None end
    | _, _, _ => None
    end.

Fixpoint mon_msgs (r : req) (sp : spec) (ms : list wmsg) : option spec :=
  match ms with
  | [] => Some sp
  | m :: rest => match mon_msg r sp m with Some sp' => mon_msgs r sp' rest | None => None end
  end.

Fixpoint mon_tl (reqs : list rreq) (sp : spec) (tl : list (sact * list wmsg)) : bool :=
  match tl with
  | [] => true
  | (SStart r, ms) :: rest =>
      match ms, rq_find r reqs with
      | [], Some q => match spec_ops sp (ext_ops q) with Some sp' => mon_tl reqs sp' rest | None => false end
      | _, _ => false
      end
  | (SStep r, ms) :: rest =>
      match mon_msgs r sp ms with Some sp' => mon_tl reqs sp' rest | None => false end
  | (SStartPaused r, ms) :: rest =>
      match ms, rq_find r reqs with
      | [m], Some q =>
          if wmsg_eqb m (pause_msg r) then
            match spec_ops sp (ext_ops q) with Some sp' => mon_tl reqs sp' rest | None => false end
          else false
      | _, _ => false
      end
  | (SUnpause r, ms) :: rest =>
      match ms with [] => mon_tl reqs sp rest | _ => false end
  end.

Fixpoint is_prefix (a b : list (cid * bool)) : bool :=
  match a, b with
  | [], _ => true
  | x :: a', y :: b' => pair_eqb x y && is_prefix a' b'
  | _, _ => false
  end.

(* a message that closes a response (neither in progress nor paused) *)
Definition is_final (m : wmsg) : bool :=
  negb (N.eqb (wm_status m) st_partial_response) && negb (N.eqb (wm_status m) st_paused).

Definition msgs_of (r : req) (tl : list (sact * list wmsg)) : list wmsg :=
  filter (fun m => N.eqb (wm_req m) r) (concat (map snd tl)).

(* metadata = the plan's link loads over the store in order; final status by the property's rule *)
Definition mon_req (R : cid -> sres) (tl : list (sact * list wmsg)) (q : rreq) : bool :=
  let ms := msgs_of (rq_id q) tl in
  let md := concat (map wm_md ms) in
  let '(evs, ok) := plain_run R (rq_plan q) in
  let want := md_of_events evs in
  match filter is_final ms with
  | [] => is_prefix md want                     (* the schedule stopped before the request ended *)
  | [f] =>
      list_eqb pair_eqb md want &&
      N.eqb (wm_status f) (final_status evs ok (forallb snd want)) &&
      match rev ms with l :: _ => N.eqb (wm_status l) (wm_status f) | [] => false end   (* nothing follows it *)
  | _ => false
  end.

Definition monitor_C03 (R : cid -> sres) (reqs : list rreq) (tl : list (sact * list wmsg)) : bool :=
  mon_tl reqs [] tl && forallb (mon_req R tl) reqs.

Definition rcase_mon03 (c : rcase) : bool := monitor_C03 (sto (rc_store c)) (rc_reqs c) (rc_tl c).

(* C24, responder half, on the wire alone: no block at an index the requestor asked to skip, no
   block twice within one request, and no block the request's do-not-send-cids list names *)
Definition mon24_req (tl : list (sact * list wmsg)) (q : rreq) : bool :=
  let ms := msgs_of (rq_id q) tl in
  let skip := match rq_skip q with Some n => n | None => 0 end in
  let ignl := match rq_ignore q with Some ls => ls | None => [] end in
  forallb (fun m => match wm_blocks m with [] => true | _ => forallb (fun i => skip <? i) (wm_idx m) end) ms &&
  nodupb (concat (map wm_blocks ms)) &&
  forallb (fun c => negb (existsb (N.eqb c) ignl)) (concat (map wm_blocks ms)).
Definition rcase_mon24 (c : rcase) : bool := forallb (mon24_req (rc_tl c)) (rc_reqs c).

(* constructors used by the generated cases files *)
Definition mk_rreq := Build_rreq.
Definition mk_wmsg := Build_wmsg.
Definition mk_rcase := Build_rcase.
