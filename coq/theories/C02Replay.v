(* C02Replay.v — going online after a locally loaded prefix: the honest responder's stream for a request with
   do-not-send-first-blocks = k, and the load that is retried after SetRemoteOnline(true): the response arrives
   in any chunking at any time, waitRemote replays the recorded prefix against it (blocking for more as
   needed), and the load then continues as in the online phase (C02Chunks). *)
From Coq Require Import List Arith NArith Bool Lia ZifyBool ZifyNat ZifyN.
From GS Require Import Base Ltree RecLoader ReqExec RecLoaderProofs C02Online C02Chunks C02Prefix C02Trie.
Import ListNotations.
Open Scope N_scope.
Local Arguments N.add : simpl never.

(* ------------------------------------------------------------------------------------------------
   1. the stream with skip k = the stream with skip 0, the blocks of its first k entries withheld
   ------------------------------------------------------------------------------------------------ *)
Definition stripk (k : nat) (l : list item) : list item := map strip (firstn k l) ++ skipn k l.

Lemma stripk_snoc k l e : stripk k (l ++ [e]) = stripk k l ++ [if Nat.ltb (length l) k then strip e else e].
Proof.
  unfold stripk. rewrite firstn_app, skipn_app.
  destruct (Nat.ltb (length l) k) eqn:E.
  - apply Nat.ltb_lt in E. rewrite (firstn_all2 l) by lia. rewrite (skipn_all2 l) by lia.
    destruct (k - length l)%nat as [|d] eqn:Ed; [lia|]. cbn [firstn skipn app]. destruct d; cbn [firstn].
    + now rewrite map_app, !app_nil_r.
    + now rewrite map_app, !app_nil_r.
  - apply Nat.ltb_ge in E. replace (k - length l)%nat with 0%nat by lia. cbn [firstn skipn].
    now rewrite app_nil_r, app_assoc.
Qed.

Lemma stripk_app a b : stripk (length a) (a ++ b) = map strip a ++ b.
Proof.
  unfold stripk. rewrite firstn_app, skipn_app, Nat.sub_diag, firstn_all, skipn_all. cbn [firstn skipn]. now rewrite app_nil_r.
Qed.

Section SkipStream.
  Variable R : store.
  Variable k : N.

  Definition rrel (s s0 : rstate) : Prop :=
    rs_count s = rs_count s0 /\ rs_seen s = rs_seen s0 /\ rs_count s0 = N.of_nat (length (rs_out s0)) /\
    rev (rs_out s) = stripk (N.to_nat k) (rev (rs_out s0)).

  Lemma resp_ask_lock s s0 p c :
    rrel s s0 ->
    snd (resp_ask R k s p c) = snd (resp_ask R 0 s0 p c) /\ rrel (fst (resp_ask R k s p c)) (fst (resp_ask R 0 s0 p c)).
  Proof.
    intros (Hc & Hs & Hl & Ho). unfold resp_ask. rewrite Hc, Hs.
    destruct (aget c R) as [b|]; cbn [fst snd]; (split; [reflexivity|]); unfold rrel; cbn [rs_count rs_seen rs_out rev length].
    - split; [reflexivity|]. split; [reflexivity|]. split; [lia|].
      rewrite Ho, stripk_snoc, rev_length. f_equal. f_equal.
      assert (E0 : (0 <? rs_count s0 + 1) = true) by (apply N.ltb_lt; lia). rewrite E0.
      destruct (k <? rs_count s0 + 1) eqn:E1; destruct (Nat.ltb (length (rs_out s0)) (N.to_nat k)) eqn:E2; try lia; cbn [andb];
        [reflexivity|]. unfold strip. cbn. reflexivity.
    - split; [reflexivity|]. split; [reflexivity|]. split; [lia|].
      rewrite Ho, stripk_snoc. f_equal. f_equal. destruct (Nat.ltb (length (rev (rs_out s0))) (N.to_nat k)); reflexivity.
  Qed.

  Lemma resp_lock :
    (forall t s s0, rrel s s0 ->
       rrel (fst (fst (run_tree (resp_ask R k) t s))) (fst (fst (run_tree (resp_ask R 0) t s0))) /\
       snd (run_tree (resp_ask R k) t s) = snd (run_tree (resp_ask R 0) t s0)) /\
    (forall l s s0, rrel s s0 ->
       rrel (fst (fst (run_items (resp_ask R k) l s))) (fst (fst (run_items (resp_ask R 0) l s0))) /\
       snd (run_items (resp_ask R k) l s) = snd (run_items (resp_ask R 0) l s0)).
  Proof.
    apply (ltree_items_ind
      (fun t => forall s s0, rrel s s0 ->
         rrel (fst (fst (run_tree (resp_ask R k) t s))) (fst (fst (run_tree (resp_ask R 0) t s0))) /\
         snd (run_tree (resp_ask R k) t s) = snd (run_tree (resp_ask R 0) t s0))
      (fun l => forall s s0, rrel s s0 ->
         rrel (fst (fst (run_items (resp_ask R k) l s))) (fst (fst (run_items (resp_ask R 0) l s0))) /\
         snd (run_items (resp_ask R k) l s) = snd (run_items (resp_ask R 0) l s0))).
    - intros p c body IH s s0 Hr. rewrite !run_tree_node.
      destruct (resp_ask_lock s s0 p c Hr) as [Ea Hr1].
      destruct (resp_ask R k s p c) as [s1 a]. destruct (resp_ask R 0 s0 p c) as [s01 a0]. cbn [fst snd] in Ea, Hr1. subst a0.
      destruct a; cbn [fst snd]; auto.
      specialize (IH s1 s01 Hr1).
      destruct (run_items (resp_ask R k) body s1) as [[s2 e2] ok2]. destruct (run_items (resp_ask R 0) body s01) as [[s02 e02] ok02].
      cbn [fst snd] in *. auto.
    - intros s s0 Hr. cbn. auto.
    - intros v rest IH s s0 Hr. rewrite !run_items_visit. specialize (IH s s0 Hr).
      destruct (run_items (resp_ask R k) rest s) as [[s2 e2] ok2]. destruct (run_items (resp_ask R 0) rest s0) as [[s02 e02] ok02].
      cbn [fst snd] in *. auto.
    - intros t IHt rest IHr s s0 Hr. rewrite !run_items_child. specialize (IHt s s0 Hr).
      destruct (run_tree (resp_ask R k) t s) as [[s1 e1] ok1]. destruct (run_tree (resp_ask R 0) t s0) as [[s01 e01] ok01].
      cbn [fst snd] in IHt. destruct IHt as [Hr1 Eok]. subst ok01. destruct ok1; cbn [fst snd]; auto.
      specialize (IHr s1 s01 Hr1).
      destruct (run_items (resp_ask R k) rest s1) as [[s2 e2] ok2]. destruct (run_items (resp_ask R 0) rest s01) as [[s02 e02] ok02].
      cbn [fst snd] in *. auto.
  Qed.

  Lemma resp_items_skip t : resp_items t R k = stripk (N.to_nat k) (resp_items t R 0).
  Proof.
    unfold resp_items. destruct resp_lock as [H _].
    assert (Hr : rrel {| rs_count := 0; rs_seen := []; rs_out := [] |} {| rs_count := 0; rs_seen := []; rs_out := [] |})
      by (unfold rrel, stripk; cbn; rewrite firstn_nil, skipn_nil; auto).
    destruct (H t _ _ Hr) as [(_ & _ & _ & Ho) _]. exact Ho.
  Qed.
End SkipStream.

(* ------------------------------------------------------------------------------------------------
   2. delivery while the verifier is still replaying
   ------------------------------------------------------------------------------------------------ *)
Section Replay.
  Variable R : store.
  Variable below : path -> path -> bool.

  Definition inv3 (seen : list cid) (chunks : list (list item)) (x : xstate) : Prop :=
    x_sent x = true /\ x_cancelled x = false /\ q_detached (r_q (x_rl x)) = false /\
    r_open (x_rl x) = (match chunks with [] => false | _ => true end) /\
    eok R seen (stq x ++ concat chunks).

  Lemma deliver1_3 seen c rest x :
    inv3 seen (c :: rest) x ->
    let x' := process_msg (msg_of c (match rest with [] => StOk | _ => StInfo end)) (x_with_feed x (mkfeed rest)) in
    inv3 seen rest x' /\ x_feed x' = mkfeed rest /\ stq x' = stq x ++ c /\ unf x' = unf x /\
    x_store x' = x_store x /\ x_errs x' = x_errs x /\
    r_verifier (x_rl x') = r_verifier (x_rl x) /\ r_record (x_rl x') = r_record (x_rl x) /\ r_last (x_rl x') = r_last (x_rl x).
  Proof.
    intros (Hs & Hc & Hd & Ho & Hok). cbn [concat] in Hok. rewrite app_assoc in Hok.
    destruct (eok_app_inv R _ _ _ Hok) as [Hok1 _]. destruct (eok_app_inv R _ _ _ Hok1) as [_ Hokc].
    destruct (ingest_open R _ c (x_rl x) Hokc Ho Hd) as (I1 & I2 & I3 & I4 & I5 & I6 & I7).
    unfold stq, unf in *. destruct rest as [|c2 rest].
    - rewrite process_one. unfold delivered.
      unfold inv3, stq. cbn [x_rl x_store x_sent x_cancelled x_errs x_feed x_with_feed mkfeed concat set_online andb r_open r_q r_verifier r_record r_last r_unfollowed].
      rewrite I1, I2, I4, I5, I6, I7, Hc, app_nil_r. repeat split; auto.
    - rewrite process_info.
      unfold inv3, stq. cbn [x_rl x_store x_sent x_cancelled x_errs x_feed x_with_feed].
      rewrite I1, I2, I3, I4, I5, I6, I7, Hc. repeat split; auto;
        try (cbn [concat] in *; rewrite <- app_assoc; rewrite <- app_assoc in Hok; exact Hok).
  Qed.

  Lemma deliver_n3 seen n : forall chunks x,
    x_feed x = mkfeed chunks -> inv3 seen chunks x ->
    exists chunks', x_feed (deliver_n n x) = mkfeed chunks' /\ inv3 seen chunks' (deliver_n n x) /\
      stq (deliver_n n x) ++ concat chunks' = stq x ++ concat chunks /\ unf (deliver_n n x) = unf x /\
      x_store (deliver_n n x) = x_store x /\ x_errs (deliver_n n x) = x_errs x /\
      r_verifier (x_rl (deliver_n n x)) = r_verifier (x_rl x) /\ r_record (x_rl (deliver_n n x)) = r_record (x_rl x) /\
      r_last (x_rl (deliver_n n x)) = r_last (x_rl x).
  Proof.
    induction n as [|n IH]; intros chunks x Hf Hi; [exists chunks; simpl; auto 12|].
    destruct chunks as [|c rest].
    - exists []. simpl. rewrite Hf. simpl. auto 12.
    - cbn [deliver_n]. rewrite Hf, mkfeed_cons.
      destruct (deliver1_3 seen c rest x Hi) as (Hi' & Hf' & Hq' & Hu' & Hs' & He' & Hv' & Hr' & Hl').
      destruct (IH rest _ Hf' Hi') as (chunks' & A & B & C & D & F & G & V & W & Z).
      exists chunks'. split; [exact A|]. split; [exact B|]. rewrite C, Hq', D, Hu', F, Hs', G, He', V, Hv', W, Hr', Z, Hl'. cbn [concat].
      rewrite <- app_assoc. auto 12.
  Qed.

  Lemma vreplay_suffix T : forall its v u vf u' rem, vreplay T v u its = Some (vf, u', rem) -> exists pre, its = pre ++ rem.
  Proof.
    induction its as [|h t IH]; intros v u vf u' rem H; cbn [vreplay] in H.
    - inversion H; subst. now exists [].
    - destruct (vdone T v); [inversion H; subst; now exists []|].
      destruct (verify_next T v (i_link h) (did_follow (i_act h))) as [e|v1]; [discriminate|].
      destruct (IH _ _ _ _ _ H) as (pre & E). exists (h :: pre). now rewrite E.
  Qed.

  Lemma load_wait_congr feed x r' p c :
    bro_try below (x_rl x) (x_store x) p c = bro_try below r' (x_store x) p c ->
    load_wait below feed x p c = load_wait below feed (x_with_rl x r' (x_store x)) p c.
  Proof.
    intro E. destruct feed as [|m f]; cbn [load_wait x_with_rl x_rl x_store]; rewrite E; reflexivity.
  Qed.

  (* the retried load: replay, blocking for further messages while the queue runs dry *)
  Lemma lw_replay T p c S' vf u : forall chunks seen x v,
    inv3 seen chunks x -> r_verifier (x_rl x) = Some v -> r_record (x_rl x) = T ->
    vreplay T v (unf x) (stq x ++ concat chunks) = Some (vf, u, S') ->
    exists pre chunks' x',
      load_wait below (mkfeed chunks) x p c = load_wait below (mkfeed chunks') x' p c /\
      stq x ++ concat chunks = pre ++ S' /\
      inv2 R (seen_after seen pre) chunks' x' /\ stq x' ++ concat chunks' = S' /\ unf x' = u /\
      x_store x' = x_store x /\ x_errs x' = x_errs x.
  Proof.
    induction chunks as [|c0 rest IH]; intros seen x v Hi Hv HT Hr.
    - destruct Hi as (Hs & Hc & Hd & Ho & Hok). cbn [concat] in *. rewrite app_nil_r in *.
      destruct (vreplay_suffix _ _ _ _ _ _ _ Hr) as (pre & Epre).
      unfold stq, unf in *. rewrite <- HT in Hr.
      destruct (bro_try_replay below (x_rl x) (x_store x) p c v vf u S' Hv Hd Hr) as (r' & E & B1 & B2 & B3 & B4 & B5 & B6 & B7).
      exists pre, [], (x_with_rl x r' (x_store x)). split; [apply load_wait_congr; exact E|]. split; [exact Epre|].
      unfold inv2, stq, unf, lon. cbn [x_with_rl x_rl x_store x_sent x_cancelled x_errs concat]. rewrite app_nil_r, B1, B2, B3, B6.
      rewrite Epre in Hok. destruct (eok_app_inv R _ _ _ Hok) as [_ Hok2].
      repeat split; auto.
      destruct S' as [|h t]; [right; right; auto | left; exact B7].
    - destruct (vreplay_suffix _ _ _ _ _ _ _ Hr) as (pre & Epre).
      pose proof Hi as (Hs & Hc & Hd & Ho & Hok).
      rewrite vreplay_app in Hr. unfold stq, unf in *.
      destruct (vreplay T v (r_unfollowed (x_rl x)) (q_items (r_q (x_rl x)))) as [[[v1 u1] rem]|] eqn:Er1; [|discriminate].
      rewrite <- HT in Er1.
      destruct (bro_try_replay below (x_rl x) (x_store x) p c v v1 u1 rem Hv Hd Er1) as (r' & E & B1 & B2 & B3 & B4 & B5 & B6 & B7).
      destruct rem as [|h t].
      + (* queue exhausted: wait for the next message *)
        set (x1 := x_with_rl x r' (x_store x)).
        destruct (vreplay_suffix _ _ _ _ _ _ _ Er1) as (pre1 & Epre1). rewrite app_nil_r in Epre1.
        assert (Hi1 : inv3 (seen_after seen pre1) (c0 :: rest) x1).
        { unfold inv3, stq, x1. cbn [x_with_rl x_rl x_store x_sent x_cancelled]. rewrite B1, B2, B3. repeat split; auto.
          cbn [app]. rewrite Epre1 in Hok. destruct (eok_app_inv R _ _ _ Hok) as [_ Hok2]. exact Hok2. }
        destruct (deliver1_3 _ c0 rest x1 Hi1) as (Hi' & Hf' & Hq' & Hu' & Hs' & He' & Hv' & Hr' & Hl').
        match type of Hi' with inv3 _ _ ?y => set (x2 := y) in * end.
        assert (Hq2 : stq x2 = c0) by (rewrite Hq'; unfold stq, x1; cbn [x_with_rl x_rl]; now rewrite B2).
        assert (Hu2 : unf x2 = u1) by (rewrite Hu'; unfold unf, x1; cbn [x_with_rl x_rl]; exact B6).
        assert (Hv2 : r_verifier (x_rl x2) = Some v1) by (rewrite Hv'; unfold x1; cbn [x_with_rl x_rl]; exact B7).
        assert (HT2 : r_record (x_rl x2) = T) by (rewrite Hr'; unfold x1; cbn [x_with_rl x_rl]; congruence).
        assert (Hr2 : vreplay T v1 (unf x2) (stq x2 ++ concat rest) = Some (vf, u, S')).
        { rewrite Hu2, Hq2. cbn [concat] in Hr. exact Hr. }
        destruct (IH _ x2 v1 Hi' Hv2 HT2 Hr2) as (pre2 & chunks' & x' & E2 & Ep2 & I2 & Q2 & U2 & St2 & Er2).
        exists (pre1 ++ pre2), chunks', x'. split; [|split; [|split; [|split; [|split; [|split]]]]].
        * rewrite (load_wait_congr _ x r' p c E). fold x1. rewrite mkfeed_cons. cbn [load_wait].
          assert (Hqb : q_items (r_q (x_rl x1)) = []) by (unfold x1; cbn [x_with_rl x_rl]; exact B2).
          assert (Hob : r_open (x_rl x1) = true) by (unfold x1; cbn [x_with_rl x_rl]; now rewrite B1).
          rewrite (bro_try_blocked below (x_rl x1) (x_store x1) p c Hqb Hob).
          rewrite (x_with_id x1). exact E2.
        * rewrite Epre1, <- app_assoc. f_equal. unfold stq in *. rewrite Hq2 in Ep2. exact Ep2.
        * rewrite seen_after_app. exact I2.
        * exact Q2.
        * exact U2.
        * rewrite St2, Hs'. reflexivity.
        * rewrite Er2, He'. reflexivity.
      + (* verification finished with items left *)
        inversion Hr; subst vf u S'.
        exists pre, (c0 :: rest), (x_with_rl x r' (x_store x)). split; [apply load_wait_congr; exact E|]. split; [exact Epre|].
        unfold inv2, stq, unf, lon. cbn [x_with_rl x_rl x_store x_sent x_cancelled x_errs]. rewrite B1, B2, B3, B6.
        rewrite Epre in Hok. destruct (eok_app_inv R _ _ _ Hok) as [_ Hok2].
        repeat split; auto.
  Qed.
End Replay.
