(* RecLoader.v — the requestor's reconciled loader and the executor loop around it (C01, C02; C06/C20/C24
   build on it).  Executable transcription of
     requestmanager/reconciledloader/{reconciledloader,load,injest,remotequeue,pathtracker}.go,
     requestmanager/reconciledloader/traversalrecord/traversalrecord.go,
     requestmanager/executor/executor.go (traverse / advanceTraversal / startRemoteRequest),
     requestmanager/server.go (processResponses: peer filter, block map, IngestResponse, terminations).
   No proofs here.

   Blocks: [block] is abstract; [hash : block -> cid] is "the CID the decoder computes from the bytes"
   (message/v2 fromIPLD: prefix.Sum(data)); the cases files instantiate it with the identity (a block is
   named by the index of its CID).  A Go call that would block on the condition variable is a result
   [None]/[WBlocked] carrying the partially advanced state; it is continued after the next ingest. *)
From Coq Require Import List NArith Bool.
From GS Require Export Base Ltree.
Import ListNotations.
Open Scope N_scope.

Definition block := N.
Definition seg := N.

(* graphsync.LinkAction and DidFollowLink (graphsync.go) *)
Inductive action := Present | DupNotSent | Missing | DupDagSkipped.
Definition did_follow (a : action) : bool :=
  match a with Present | DupNotSent => true | _ => false end.
Definition action_eqb (a b : action) : bool :=
  match a, b with
  | Present, Present | DupNotSent, DupNotSent | Missing, Missing | DupDagSkipped, DupDagSkipped => true
  | _, _ => false
  end.

Definition path_eqb (a b : path) : bool := list_eqb N.eqb a b.

(* ---------------------------------------------------------------------------------------------
   traversalrecord.go: a trie over path segments; children in first-insertion order
   --------------------------------------------------------------------------------------------- *)
Inductive trec := TRec (lnk : option cid) (succ : bool) (kids : list (seg * trec)).
Definition trec_empty : trec := TRec None false [].
Definition t_lnk (t : trec) := match t with TRec l _ _ => l end.
Definition t_succ (t : trec) := match t with TRec _ s _ => s end.
Definition t_kids (t : trec) := match t with TRec _ _ k => k end.

(* the child with segment sg is updated by f; a new child is appended when there is none
   (RecordNextStep: childSegments lookup, append) *)
Fixpoint upd_kids (f : trec -> trec) (sg : seg) (kids : list (seg * trec)) : list (seg * trec) :=
  match kids with
  | [] => [(sg, f trec_empty)]
  | (s', k) :: r => if N.eqb s' sg then (s', f k) :: r else (s', k) :: upd_kids f sg r
  end.

(* TraversalRecord.RecordNextStep *)
Fixpoint record_step (p : path) (c : cid) (ok : bool) (t : trec) : trec :=
  match p with
  | [] => TRec (Some c) ok (t_kids t)
  | sg :: p' => TRec (t_lnk t) (t_succ t) (upd_kids (record_step p' c ok) sg (t_kids t))
  end.

(* Verifier: the Go stack [root; ...; tip] of *traversalLink points INTO the record, which BlockReadOpener
   may extend while a verifier exists; the stack is therefore kept as the child indices leading from the
   root to the tip and every step looks the nodes up in the current record (RecordNextStep only appends
   children and sets links, so positions stay valid).  parent.childSegments[last.segment] is the position
   of [last] among its parent's children because segments are unique among siblings. *)
Inductive vstack := VEmpty | VAt (idx : list nat).

Fixpoint node_at (t : trec) (idx : list nat) : option trec :=
  match idx with
  | [] => Some t
  | i :: r => match nth_error (t_kids t) i with Some (_, k) => node_at k r | None => None end
  end.
Fixpoint segs_at (t : trec) (idx : list nat) : path :=
  match idx with
  | [] => []
  | i :: r => match nth_error (t_kids t) i with Some (s, k) => s :: segs_at k r | None => [] end
  end.

(* appendUntilLink below t: follow first children while there is no link *)
Fixpoint descend_from (t : trec) : list nat :=
  match t with
  | TRec None _ ((_, k) :: _) => O :: descend_from k
  | _ => []
  end.

Definition new_verifier (root : trec) : vstack := VAt (descend_from root).

(* nextLink(false) for the frame at (reversed) position ridx: pop; the next sibling, else the same for the parent *)
Fixpoint pop_rev (root : trec) (ridx : list nat) : vstack :=
  match ridx with
  | [] => VEmpty
  | i :: rparent =>
      match node_at root (rev rparent) with
      | None => VEmpty
      | Some par =>
          match nth_error (t_kids par) (S i) with
          | Some (_, k) => VAt (rev rparent ++ S i :: descend_from k)
          | None => pop_rev root rparent
          end
      end
  end.

Definition next_link (root : trec) (explore : bool) (idx : list nat) : vstack :=
  match node_at root idx with
  | None => VEmpty
  | Some t =>
      match t_kids t, explore with
      | (_, k1) :: _, true => VAt (idx ++ O :: descend_from k1)
      | _, _ => pop_rev root (rev idx)
      end
  end.

Definition vdone (root : trec) (v : vstack) : bool :=
  match v with
  | VEmpty => true
  | VAt [] => match t_lnk root with None => true | Some _ => false end
  | VAt _ => false
  end.

(* CurrentPath *)
Definition vpath (root : trec) (v : vstack) : path :=
  if vdone root v then [] else match v with VEmpty => [] | VAt idx => segs_at root idx end.

Inductive lerror :=
| EMissing (p : path) (c : cid)                      (* graphsync.RemoteMissingBlockErr *)
| EIncorrect (local remote : cid) (p : path)         (* graphsync.RemoteIncorrectResponseError *)
| EVerify (code : N).                                (* errors.New in traversalrecord / reconciledloader:
                                                        1 nothing left to verify, 2 additional data, 3 cannot retry *)

(* Verifier.VerifyNext *)
Definition verify_next (root : trec) (v : vstack) (link : cid) (successful : bool) : lerror + vstack :=
  if vdone root v then inl (EVerify 1)
  else match v with
       | VEmpty => inl (EVerify 1)
       | VAt idx =>
           match node_at root idx with
           | None => inl (EVerify 9)
           | Some t =>
               match t_lnk t with
               | None => inl (EVerify 9)      (* nil link at the tip: not constructible by RecordNextStep *)
               | Some l =>
                   if negb (N.eqb l link) then inl (EIncorrect l link (vpath root v))
                   else if negb (t_succ t) && successful then inl (EVerify 2)
                   else inr (next_link root successful idx)
               end
           end
       end.

(* ---------------------------------------------------------------------------------------------
   remotequeue.go
   --------------------------------------------------------------------------------------------- *)
Record item := { i_link : cid; i_act : action; i_blk : option block }.
Definition strip (it : item) : item := {| i_link := i_link it; i_act := i_act it; i_blk := None |}.

(* where lastConsumed.next points, relative to the head of the queue *)
Inductive lcstate :=
| LcNone
| LcLinked (it : item)      (* next = current head (possibly nil) *)
| LcUnlinked (it : item)    (* next = nil although items were queued afterwards *)
| LcIsHead (it : item).     (* retryLast made it the head again *)

Record rqueue := { q_items : list item; q_lc : lcstate; q_detached : bool }.
Definition rq_empty : rqueue := {| q_items := []; q_lc := LcNone; q_detached := false |}.

(* queue(newItems) *)
Definition rq_enqueue (its : list item) (q : rqueue) : rqueue :=
  match its with
  | [] => q
  | _ :: _ =>
      match q_items q with
      | [] => {| q_items := its;
                 q_lc := match q_lc q with LcLinked it => LcUnlinked it | x => x end;
                 q_detached := false |}
      | _ :: _ => if q_detached q then q
                  else {| q_items := q_items q ++ its; q_lc := q_lc q; q_detached := false |}
      end
  end.

(* consume() with a non-empty queue: returns the head as first() saw it *)
Definition rq_consume (q : rqueue) : option (item * rqueue) :=
  match q_items q with
  | [] => None
  | h :: t => Some (h, {| q_items := t; q_lc := LcLinked (strip h);
                          q_detached := match t with [] => false | _ => q_detached q end |})
  end.

(* retryLast() *)
Definition rq_retry_last (q : rqueue) : rqueue :=
  match q_lc q with
  | LcNone => q
  | LcLinked it => {| q_items := it :: q_items q; q_lc := LcIsHead it; q_detached := q_detached q |}
  | LcUnlinked it => {| q_items := [it]; q_lc := LcIsHead it; q_detached := true |}
  | LcIsHead it => q
  end.

(* ---------------------------------------------------------------------------------------------
   reconciledloader.go / load.go / injest.go / pathtracker.go
   --------------------------------------------------------------------------------------------- *)
Record attempt := { a_path : path; a_link : cid; a_ok : bool; a_remote : bool }.

Record rl := {
  r_open : bool;
  r_q : rqueue;
  r_verifier : option vstack;
  r_record : trec;
  r_last : option attempt;          (* mostRecentLoadAttempt *)
  r_unfollowed : path               (* pathTracker.lastUnfollowedRemotePath; [] = none *)
}.

Definition rl_new : rl :=
  {| r_open := false; r_q := rq_empty; r_verifier := None; r_record := trec_empty; r_last := None; r_unfollowed := [] |}.

Definition set_q (r : rl) q := {| r_open := r_open r; r_q := q; r_verifier := r_verifier r; r_record := r_record r; r_last := r_last r; r_unfollowed := r_unfollowed r |}.
Definition set_verifier (r : rl) v := {| r_open := r_open r; r_q := r_q r; r_verifier := v; r_record := r_record r; r_last := r_last r; r_unfollowed := r_unfollowed r |}.
Definition set_unfollowed (r : rl) u := {| r_open := r_open r; r_q := r_q r; r_verifier := r_verifier r; r_record := r_record r; r_last := r_last r; r_unfollowed := u |}.
Definition set_last (r : rl) a := {| r_open := r_open r; r_q := r_q r; r_verifier := r_verifier r; r_record := r_record r; r_last := a; r_unfollowed := r_unfollowed r |}.
Definition set_record (r : rl) t := {| r_open := r_open r; r_q := r_q r; r_verifier := r_verifier r; r_record := t; r_last := r_last r; r_unfollowed := r_unfollowed r |}.

(* SetRemoteOnline.  Going online (false -> true): the remote queue is cleared (remoteQueue.clear(): items
   left over from an earlier response of a paused request, and lastConsumed; fix commit cb5b48f) and a fresh
   verifier over the current record is created. *)
Definition set_online (b : bool) (r : rl) : rl :=
  let r' := {| r_open := b; r_q := r_q r; r_verifier := r_verifier r; r_record := r_record r; r_last := r_last r; r_unfollowed := r_unfollowed r |} in
  if b && negb (r_open r) then set_verifier (set_q r' rq_empty) (Some (new_verifier (r_record r))) else r'.
(* the code before that fix: the queue survived *)
Definition set_online_before_fix (b : bool) (r : rl) : rl :=
  let r' := {| r_open := b; r_q := r_q r; r_verifier := r_verifier r; r_record := r_record r; r_last := r_last r; r_unfollowed := r_unfollowed r |} in
  if b && negb (r_open r) then set_verifier r' (Some (new_verifier (r_record r))) else r'.

(* IngestResponse: items of one call; only the first Present entry of a link gets the block *)
Fixpoint ingest_items (md : list (cid * action)) (blocks : list (cid * block)) (dups : list cid) : list item :=
  match md with
  | [] => []
  | (l, a) :: r =>
      match a with
      | Present =>
          if existsb (N.eqb l) dups then {| i_link := l; i_act := a; i_blk := None |} :: ingest_items r blocks dups
          else {| i_link := l; i_act := a; i_blk := aget l blocks |} :: ingest_items r blocks (l :: dups)
      | _ => {| i_link := l; i_act := a; i_blk := None |} :: ingest_items r blocks dups
      end
  end.

Definition ingest (md : list (cid * action)) (blocks : list (cid * block)) (r : rl) : rl :=
  match md with
  | [] => r
  | _ => if r_open r then set_q r (rq_enqueue (ingest_items md blocks []) (r_q r)) else r
  end.

(* pathtracker.go, as repaired by the fix: commit (proper prefix on segments).  [cmp] is the comparison:
   the code before the fix: compared lengths only. *)
Fixpoint proper_prefix (a b : path) : bool :=
  match a, b with
  | [], _ :: _ => true
  | x :: a', y :: b' => N.eqb x y && proper_prefix a' b'
  | _, _ => false
  end.
Definition length_less (a b : path) : bool := (N.of_nat (length a) <? N.of_nat (length b)).

Section Loader.
  Variable below : path -> path -> bool.     (* stillOnUnfollowedRemotePath's test: [below unfollowed new] *)

  (* stillOnUnfollowedRemotePath *)
  Definition still_unfollowed (r : rl) (p : path) : rl * bool :=
    match r_unfollowed r with
    | [] => (r, false)
    | u => if below u p then (r, true) else (set_unfollowed r [], false)
    end.
  (* recordRemoteLoadAttempt *)
  Definition record_remote (r : rl) (p : path) (a : action) : rl :=
    if did_follow a then r else set_unfollowed r p.

  Inductive wres := WHasData | WOffline | WBlocked | WErr (e : lerror).

  (* waitRemote: one pass over the queued items (the for loop; every iteration consumes one item) *)
  Fixpoint wait_loop (its : list item) (q : rqueue) (r : rl) : rl * wres :=
    match its with
    | [] => (set_q r q, if r_open r then WBlocked else WOffline)
    | h :: t =>
        match r_verifier r with
        | None => (set_q r q, WHasData)
        | Some v =>
            if vdone (r_record r) v then (set_verifier (set_q r q) None, WHasData)
            else
              let p := vpath (r_record r) v in
              match rq_consume q with
              | None => (set_q r q, WErr (EVerify 9))            (* unreachable: its = q_items q *)
              | Some (_, q') =>
                  match verify_next (r_record r) v (i_link h) (did_follow (i_act h)) with
                  | inl e => (set_q r q', WErr e)
                  | inr v' => wait_loop t q' (record_remote (set_verifier r (Some v')) p (i_act h))
                  end
              end
        end
    end.
  Definition wait_remote (r : rl) : rl * wres := wait_loop (q_items (r_q r)) (r_q r) r.

  Inductive lresult := RData (b : block) (local : bool) | RErr (e : lerror) (local : bool).
  Definition res_ok (x : lresult) : bool := match x with RData _ _ => true | _ => false end.

  Definition store := list (cid * block).

  (* loadLocal *)
  Definition load_local (st : store) (p : path) (c : cid) : lresult :=
    match aget c st with Some b => RData b true | None => RErr (EMissing p c) true end.

  (* loadRemote: Some (Some b) = block delivered and stored, Some None = fall through to local, None+err *)
  Inductive rres := RrBlock (b : block) | RrNone | RrErr (e : lerror).
  Definition load_remote (r : rl) (st : store) (p : path) (c : cid) : rl * store * rres :=
    match rq_consume (r_q r) with
    | None => (r, st, RrErr (EVerify 9))         (* Go: nil dereference; waitRemote returned "has data" *)
    | Some (head, q') =>
        let r1 := set_q r q' in
        if negb (N.eqb (i_link head) c) then (r1, st, RrErr (EIncorrect c (i_link head) p))
        else
          let r2 := record_remote r1 p (i_act head) in
          match i_blk head with
          | None => (r2, st, RrNone)
          | Some b => (r2, aput c b st, RrBlock b)
          end
    end.

  (* blockReadOpener: (usedRemote, result); None = blocked in waitRemote *)
  Definition bro_inner (r : rl) (st : store) (p : path) (c : cid) : rl * store * option (bool * lresult) :=
    let '(r1, w) := wait_remote r in
    match w with
    | WBlocked => (r1, st, None)
    | WErr e => (r1, st, Some (false, RErr e false))
    | WOffline => (r1, st, Some (false, load_local st p c))
    | WHasData =>
        let '(r2, on_missing_path) := still_unfollowed r1 p in
        if on_missing_path then (r2, st, Some (true, load_local st p c))
        else
          let '(r3, st3, rr) := load_remote r2 st p c in
          match rr with
          | RrBlock b => (r3, st3, Some (true, RData b false))
          | RrErr e => (r3, st3, Some (true, RErr e false))
          | RrNone => (r3, st3, Some (true, load_local st3 p c))
          end
    end.

  (* BlockReadOpener, first part: the previous attempt goes into the traversal record *)
  Definition bro_start (r : rl) : rl :=
    match r_last r with
    | None => r
    | Some a => set_last (set_record r (record_step (a_path a) (a_link a) (a_ok a) (r_record r))) None
    end.
  (* BlockReadOpener, second part (repeated after each ingest while it blocks) *)
  Definition bro_try (r : rl) (st : store) (p : path) (c : cid) : rl * store * option lresult :=
    let '(r1, st1, o) := bro_inner r st p c in
    match o with
    | None => (r1, st1, None)
    | Some (used, res) =>
        (set_last r1 (Some {| a_path := p; a_link := c; a_ok := res_ok res; a_remote := used |}), st1, Some res)
    end.

  (* RetryLastLoad up to the point where it calls BlockReadOpener: the link to load again *)
  Definition retry_prepare (r : rl) : rl * option (path * cid) :=
    match r_last r with
    | None => (r, None)
    | Some a =>
        let r1 := set_last r None in
        let r2 := if a_remote a then set_q r1 (rq_retry_last (r_q r1)) else r1 in
        (r2, Some (a_path a, a_link a))
    end.
End Loader.

