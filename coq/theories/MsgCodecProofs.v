(* MsgCodecProofs.v — C12 (contract of the stream handler on every byte string) and C11 (round trips
   of messages, streams and extension payload codecs). *)
From Coq Require Import List NArith ZArith Bool String Lia ZifyBool ZifyNat ZifyN Permutation.
From GS Require Import Base Varint VarintProofs Cbor CborProofs MsgCodec.
From GSgen Require Import GenSchema.
Import ListNotations.
Open Scope string_scope.
Open Scope list_scope.
Open Scope N_scope.
Ltac Zify.zify_post_hook ::= Z.div_mod_to_equations.

(* ======================================================================================== *)
(* C12                                                                                      *)
(* ======================================================================================== *)

Lemma from_frame_total H f : from_frame H f <> DFuel.
Proof.
  unfold from_frame. pose proof (decode_block_total f).
  destruct (decode_block f) as [n| |]; try congruence.
  destruct (bind_root n) as [im|]; [|discriminate]. destruct (from_ipld H im); discriminate.
Qed.

Lemma from_net_total H bs : from_net H bs <> NFuel.
Proof.
  unfold from_net. destruct (read_frame bs) as [| |f r]; try discriminate.
  pose proof (from_frame_total H f). destruct (from_frame H f); congruence.
Qed.

Lemma from_net_shrinks H bs m rest : from_net H bs = NMsg m rest -> (List.length rest < List.length bs)%nat.
Proof.
  unfold from_net. destruct (read_frame bs) as [| |f r] eqn:E; try discriminate.
  apply read_frame_shrinks in E. destruct (from_frame H f); try discriminate.
  intro X; inversion X; subst. exact E.
Qed.

(* what is known about a delivered message *)
Definition delivered_wf (H : hashfn) (m : msg) : Prop :=
  Forall (fun r => blen (rq_id r) = 16) (m_reqs m) /\
  Forall (fun r => blen (rs_id r) = 16) (m_rsps m) /\
  Forall (fun b => exists p, cid_sum H p (snd b) = Some (fst b)) (m_blks m).

Lemma put_forall {V} (P : bytes * V -> Prop) k v m : Forall P m -> P (k, v) -> Forall P (put k v m).
Proof.
  induction m as [|[q w] m IH]; intros Hm Hp; cbn [put]; [now constructor|].
  inversion Hm; subst. destruct (bytes_eqb k q) eqn:E.
  - apply bytes_eqb_eq in E. subst q. now constructor.
  - constructor; [assumption | now apply IH].
Qed.

Lemma fold_put_forall {A V} (P : bytes * V -> Prop) (step : A -> option (bytes * V)) l :
  (forall a k v, step a = Some (k, v) -> P (k, v)) ->
  forall acc res, Forall P acc ->
  fold_opt (fun acc a => match step a with Some (k, v) => Some (put k v acc) | None => None end) l acc = Some res ->
  Forall P res.
Proof.
  intro Hs. induction l as [|a l IH]; intros acc res Hacc; cbn [fold_opt].
  - intro E; inversion E; subst; exact Hacc.
  - destruct (step a) as [[k v]|] eqn:S; [|discriminate]. apply IH. apply put_forall; [exact Hacc | eapply Hs; eauto].
Qed.

Lemma fold_opt_ext {A B} (f g : A -> B -> option A) l a : (forall a b, f a b = g a b) -> fold_opt f l a = fold_opt g l a.
Proof. intro E. revert a. induction l as [|x l IH]; intro a; cbn [fold_opt]; [reflexivity|]. rewrite E. destruct (g a x); auto. Qed.

Lemma from_ipld_delivered H im m : from_ipld H im = Some m -> delivered_wf H m.
Proof.
  unfold from_ipld.
  destruct (fold_opt _ (odef [] (im_reqs im)) []) as [reqs|] eqn:E1; [|discriminate].
  destruct (fold_opt _ (odef [] (im_rsps im)) []) as [rsps|] eqn:E2; [|discriminate].
  destruct (fold_opt _ (odef [] (im_blks im)) []) as [blks|] eqn:E3; [|discriminate].
  intro X; inversion X; subst; clear X. unfold delivered_wf; cbn [m_reqs m_rsps m_blks].
  repeat split.
  - rewrite fold_opt_ext with (g := fun acc q =>
      match (fun q => match request_of_ib q with Some r => Some (rq_id r, r) | None => None end) q with
      | Some (k, v) => Some (put k v acc) | None => None end) in E1
      by (intros a b; destruct (request_of_ib b); reflexivity).
    apply fold_put_forall with (P := fun kv => blen (rq_id (snd kv)) = 16) in E1; [|..].
    + apply Forall_map. exact E1.
    + intros q k v. unfold request_of_ib.
      destruct (ib_id q) as [id|]; [|discriminate]. destruct (ib_type q) as [t|]; [|discriminate].
      destruct (blen id =? 16) eqn:L; cbn [negb]; [|discriminate]. apply N.eqb_eq in L.
      destruct t; intro X; inversion X; subst; exact L.
    + constructor.
  - rewrite fold_opt_ext with (g := fun acc q =>
      match (fun q => match response_of_ib q with Some r => Some (rs_id r, r) | None => None end) q with
      | Some (k, v) => Some (put k v acc) | None => None end) in E2
      by (intros a b; destruct (response_of_ib b); reflexivity).
    apply fold_put_forall with (P := fun kv => blen (rs_id (snd kv)) = 16) in E2; [|..].
    + apply Forall_map. exact E2.
    + intros q k v. unfold response_of_ib.
      destruct (is_id q) as [id|]; [|discriminate]. destruct (is_status q) as [t|]; [|discriminate].
      destruct (blen id =? 16) eqn:L; cbn [negb]; [|discriminate]. apply N.eqb_eq in L.
      intro X; inversion X; subst; exact L.
    + constructor.
  - rewrite fold_opt_ext with (g := fun acc b =>
      match (fun b => match cid_sum H (fst b) (snd b) with Some c => Some (c, snd b) | None => None end) b with
      | Some (k, v) => Some (put k v acc) | None => None end) in E3
      by (intros a b; destruct (cid_sum H (fst b) (snd b)); reflexivity).
    apply fold_put_forall with (P := fun kv => exists p, cid_sum H p (snd kv) = Some (fst kv)) in E3; [exact E3| |constructor].
    intros b k v. destruct (cid_sum H (fst b) (snd b)) as [c|] eqn:C; [|discriminate].
    intro X; inversion X; subst. exists (fst b). exact C.
Qed.

Lemma from_frame_delivered H f m : from_frame H f = DOk m -> delivered_wf H m.
Proof.
  unfold from_frame. destruct (decode_block f) as [n| |]; try discriminate.
  destruct (bind_root n) as [im|]; [|discriminate].
  destruct (from_ipld H im) as [m'|] eqn:E; [|discriminate].
  intro X; inversion X; subst. eapply from_ipld_delivered; eauto.
Qed.

(* the event list of a stream: delivered messages, then either nothing (clean end of stream) or exactly
   one stream reset and one ReceiveError, and nothing after that *)
Inductive stream_ok (H : hashfn) : list ev -> Prop :=
| so_end : stream_ok H []
| so_err : stream_ok H [EvReset; EvError]
| so_msg m l : delivered_wf H m -> stream_ok H l -> stream_ok H (EvMsg m :: l).

Lemma handle_stream_fuel_ok H : forall f bs, (List.length bs < f)%nat -> stream_ok H (handle_stream_fuel f H bs).
Proof.
  induction f as [|f IH]; intros bs Hf; [lia|]. cbn [handle_stream_fuel].
  pose proof (from_net_total H bs) as Ht.
  destruct (from_net H bs) as [| | |m rest] eqn:E; try congruence; try constructor.
  - unfold from_net in E. destruct (read_frame bs) as [| |fr r]; try discriminate.
    destruct (from_frame H fr) as [m'| |] eqn:F; try discriminate. inversion E; subst.
    eapply from_frame_delivered; eauto.
  - apply IH. apply from_net_shrinks in E. lia.
Qed.

Theorem handle_stream_contract H bs : stream_ok H (handle_stream H bs).
Proof. unfold handle_stream. apply handle_stream_fuel_ok. lia. Qed.

(* a frame that cannot be read or decoded: Reset, one ReceiveError, and the handler returns *)
Theorem handle_stream_malformed H f bs :
  from_net H bs = NErr -> handle_stream_fuel (S f) H bs = [EvReset; EvError].
Proof. intro E. cbn [handle_stream_fuel]. now rewrite E. Qed.

Lemma hs_S f H bs : handle_stream_fuel (S f) H bs =
  match from_net H bs with
  | NEof => []
  | NErr => [EvReset; EvError]
  | NFuel => [EvFuel]
  | NMsg m rest => EvMsg m :: handle_stream_fuel f H rest
  end.
Proof. reflexivity. Qed.

Lemma hs_fuel_irrel H : forall f g bs, (List.length bs < f)%nat -> (List.length bs < g)%nat ->
  handle_stream_fuel f H bs = handle_stream_fuel g H bs.
Proof.
  induction f as [|f IH]; intros g bs0 Hf Hg; [lia|]. destruct g as [|g]; [lia|].
  rewrite !hs_S. destruct (from_net H bs0) as [| | |m0 r0] eqn:E0; try reflexivity.
  f_equal. apply from_net_shrinks in E0. apply IH; lia.
Qed.

(* the stream is consumed message by message: whatever precedes a malformed frame is still delivered *)
Theorem handle_stream_step H bs m rest :
  from_net H bs = NMsg m rest -> handle_stream H bs = EvMsg m :: handle_stream H rest.
Proof.
  intro E. unfold handle_stream. rewrite hs_S, E. f_equal.
  apply from_net_shrinks in E. apply hs_fuel_irrel; lia.
Qed.

(* ======================================================================================== *)
(* C11                                                                                      *)
(* ======================================================================================== *)

Lemma nonempty_case {A} (l : list A) f :
  (l = [] /\ nonempty l f = None) \/ (l <> [] /\ nonempty l f = Some (f l)).
Proof. destruct l; [left | right]; split; try reflexivity; congruence. Qed.

Lemma is_null_canon n : is_null (canon n) = is_null n.
Proof. destruct n; reflexivity. Qed.

Lemma parse_reqkind_repr k : parse_reqkind (reqkind_repr k) = Some k.
Proof. destruct k; reflexivity. Qed.
Lemma parse_action_repr a : parse_action (action_repr a) = Some a.
Proof. destruct a; reflexivity. Qed.

Lemma canon_ext_data_spec d :
  nullable_any (canon (match d with None => NNull | Some n => n end)) = canon_ext_data d.
Proof.
  unfold nullable_any. rewrite is_null_canon. destruct d as [n|]; [|reflexivity]. destruct n; reflexivity.
Qed.

Lemma bind_exts_canon e : bind_exts (canon (exts_node e)) = Some (canon_exts e).
Proof.
  unfold exts_node. rewrite canon_map_eq. cbn [bind_exts]. f_equal. unfold canon_exts.
  rewrite <- (kv_sort_map canon). rewrite <- (kv_sort_map nullable_any).
  f_equal. rewrite !map_map. apply map_ext. intros [k d]. f_equal. apply canon_ext_data_spec.
Qed.

(* ---- requests ---- *)
Definition int32_range (z : Z) : Prop := (-2147483648 <= z <= 2147483647)%Z.
Definition wf_req (r : request) : Prop :=
  blen (rq_id r) = 16 /\ int32_range (rq_pri r) /\
  (match rq_sel r with Some n => is_null n = false | None => True end) /\
  match rq_kind r with
  | RNew => True
  | RCancel => rq_pri r = 0%Z /\ rq_root r = None /\ rq_sel r = None /\ rq_ext r = []
  | RUpdate => rq_pri r = 0%Z /\ rq_root r = None /\ rq_sel r = None
  end.

Lemma wrap32_id z : int32_range z -> wrap32 z = z.
Proof. unfold int32_range, wrap32. intro H. lia. Qed.

Definition ibq_of (r : request) : ib_request :=
  mk_ibq (Some (rq_id r)) (Some (rq_kind r))
         (if (rq_pri r =? 0)%Z then None else Some (rq_pri r))
         (rq_root r) (option_map canon (rq_sel r))
         (match rq_ext r with [] => None | _ => Some (canon_exts (rq_ext r)) end).

Lemma bind_request_canon r : wf_req r -> bind_request (canon (req_node r)) = Some (ibq_of r).
Proof.
  destruct r as [id kind pri root sel ext]. unfold wf_req, req_node, ibq_of; cbn [rq_id rq_kind rq_pri rq_root rq_sel rq_ext].
  intros (Hid & Hpri & Hsel & Hkind).
  destruct (nonempty_case ext exts_node) as [[Ee Hn]|[Ee Hn]]; rewrite Hn; clear Hn.
  all: destruct (pri =? 0)%Z eqn:Ep; destruct root as [c|]; destruct sel as [s|]; destruct kind;
       cbn [opt_field option_map app];
       rewrite canon_map_eq; cbn [kv_sort kv_insert map fst snd canon];
       unfold k_rq_id, k_rq_type, k_rq_pri, k_rq_root, k_rq_sel, k_rq_ext;
       cbn [kv_sort kv_insert key_ltb bytes_ltb List.length Nat.ltb Nat.leb N.ltb N.compare Pos.compare Pos.compare_cont fst snd map];
       cbn [canon]; unfold bind_request; cbn [fold_opt]; unfold ibq_assign, is_key;
       cbn -[is_null canon bind_exts exts_node canon_exts wrap32];
       rewrite ?is_null_canon, ?Hsel, ?bind_exts_canon, ?wrap32_id by assumption;
       cbn -[is_null canon bind_exts exts_node canon_exts wrap32];
       rewrite ?is_null_canon, ?Hsel, ?bind_exts_canon, ?wrap32_id by assumption;
       try reflexivity.
  all: subst; try reflexivity.
  all: destruct ext; [congruence | reflexivity].
Qed.

Lemma canon_exts_nil : canon_exts [] = [].
Proof. reflexivity. Qed.

Lemma request_of_ibq_of r : wf_req r -> request_of_ib (ibq_of r) = Some (canon_req r).
Proof.
  destruct r as [id kind pri root sel ext]. unfold wf_req, ibq_of, request_of_ib, canon_req;
    cbn [rq_id rq_kind rq_pri rq_root rq_sel rq_ext ib_id ib_type ib_pri ib_root ib_sel ib_ext].
  intros (Hid & Hpri & Hsel & Hkind). rewrite Hid. cbn [N.eqb Pos.eqb negb].
  destruct kind.
  - destruct (Z.eqb_spec pri 0) as [->|Hp]; destruct ext; reflexivity.
  - destruct Hkind as (-> & -> & -> & ->). reflexivity.
  - destruct Hkind as (-> & -> & ->). destruct ext; reflexivity.
Qed.

(* ---- responses ---- *)
Definition wf_rsp (r : response) : Prop := blen (rs_id r) = 16 /\ status_defined (rs_status r) = true.

Definition ibs_of (r : response) : ib_response :=
  mk_ibs (Some (rs_id r)) (Some (rs_status r))
         (match rs_md r with [] => None | _ => Some (rs_md r) end)
         (match rs_ext r with [] => None | _ => Some (canon_exts (rs_ext r)) end).

Lemma bind_md_canon l : map_opt bind_md (map canon (map md_node l)) = Some l.
Proof.
  induction l as [|[c a] l IH]; [reflexivity|]. cbn [map md_node canon fst snd map_opt bind_md].
  rewrite parse_action_repr, IH. reflexivity.
Qed.

Lemma bind_response_canon r : wf_rsp r -> bind_response (canon (rsp_node r)) = Some (ibs_of r).
Proof.
  destruct r as [id st md ext]. unfold wf_rsp, rsp_node, ibs_of; cbn [rs_id rs_status rs_md rs_ext].
  intros (Hid & Hst).
  destruct (nonempty_case ext exts_node) as [[Ee Hn]|[Ee Hn]]; rewrite Hn; clear Hn.
  all: destruct (nonempty_case md (fun l => NList (map md_node l))) as [[Em Hm]|[Em Hm]]; rewrite Hm; clear Hm;
       cbn [opt_field option_map app];
       rewrite canon_map_eq;
       unfold k_rs_id, k_rs_stat, k_rs_meta, k_rs_ext;
       cbn [kv_sort kv_insert key_ltb bytes_ltb List.length Nat.ltb Nat.leb N.ltb N.compare Pos.compare Pos.compare_cont fst snd map];
       cbn [canon]; unfold bind_response; cbn [fold_opt]; unfold ibs_assign, is_key;
       cbn -[canon bind_exts exts_node canon_exts status_defined map_opt md_node];
       rewrite ?Hst, ?bind_exts_canon, ?bind_md_canon;
       cbn -[canon bind_exts exts_node canon_exts status_defined map_opt md_node];
       rewrite ?Hst, ?bind_exts_canon, ?bind_md_canon;
       try reflexivity.
  all: subst; try reflexivity.
  all: try (destruct ext; [congruence|]); try (destruct md; [congruence|]); reflexivity.
Qed.

Lemma response_of_ibs_of r : wf_rsp r -> response_of_ib (ibs_of r) = Some (canon_rsp r).
Proof.
  destruct r as [id st md ext]. unfold wf_rsp, ibs_of, response_of_ib, canon_rsp;
    cbn [rs_id rs_status rs_md rs_ext is_id is_status is_md is_ext].
  intros (Hid & Hst). rewrite Hid. cbn [N.eqb Pos.eqb negb].
  destruct md; destruct ext; reflexivity.
Qed.

(* ---- blocks ---- *)
Lemma bind_block_canon b : bind_block (canon (blk_node b)) = Some (prefix_of_cid (fst b), snd b).
Proof. reflexivity. Qed.

(* ---- lists ---- *)
Lemma map_opt_map {A B C} (f : B -> option C) (g : A -> B) (h : A -> C) l :
  Forall (fun x => f (g x) = Some (h x)) l -> map_opt f (map g l) = Some (map h l).
Proof.
  induction 1 as [|x l Hx _ IH]; [reflexivity|]. cbn [map map_opt]. now rewrite Hx, IH.
Qed.

Lemma put_fresh {V} k (v : V) m : ~ In k (map fst m) -> put k v m = m ++ [(k, v)].
Proof.
  induction m as [|[q w] m IH]; intro Hn; [reflexivity|]. cbn [put map fst In] in *.
  rewrite bytes_eqb_neq by (intro; subst; apply Hn; now left).
  cbn [app]. f_equal. apply IH. intro; apply Hn; now right.
Qed.

Lemma fold_put_fresh {A V} (step : A -> option (bytes * V)) (kv : A -> bytes * V) l :
  Forall (fun a => step a = Some (kv a)) l -> NoDup (map (fun a => fst (kv a)) l) ->
  forall acc, (forall a, In a l -> ~ In (fst (kv a)) (map fst acc)) ->
  fold_opt (fun acc a => match step a with Some (k, v) => Some (put k v acc) | None => None end) l acc
  = Some (acc ++ map kv l).
Proof.
  induction l as [|a l IH]; intros Hs Hnd acc Hfresh; cbn [fold_opt map].
  - now rewrite app_nil_r.
  - inversion Hs as [|? ? Ha Hl]; subst. inversion Hnd as [|? ? Hn Hnd']; subst.
    rewrite Ha. destruct (kv a) as [k v] eqn:K. cbn [fst] in *.
    rewrite put_fresh by (specialize (Hfresh a (or_introl eq_refl)); now rewrite K in Hfresh).
    rewrite IH; try assumption.
    + rewrite <- app_assoc. reflexivity.
    + intros a' Ha'. rewrite map_app, in_app_iff. cbn [map fst In]. intros [Hin|[Heq|[]]].
      * apply (Hfresh a' (or_intror Ha')). exact Hin.
      * apply Hn. rewrite Heq. apply in_map_iff. exists a'. split; [reflexivity | exact Ha'].
Qed.

(* ---- messages ---- *)
Definition wf_msg (H : hashfn) (m : msg) : Prop :=
  Forall wf_req (m_reqs m) /\ NoDup (map rq_id (m_reqs m)) /\
  Forall wf_rsp (m_rsps m) /\ NoDup (map rs_id (m_rsps m)) /\
  Forall (fun b => cid_sum H (prefix_of_cid (fst b)) (snd b) = Some (fst b)) (m_blks m) /\ NoDup (map fst (m_blks m)) /\
  (* what the byte layers need: lengths, link syntax, distinct extension names, finite floats, 64-bit ints ... *)
  wf_node (msg_node m) /\
  (* resource limits of the receiving side *)
  ndepth (msg_node m) <= MaxDepth /\ cost (msg_node m) <= Budget0 /\ blen (encode (msg_node m)) <= MessageSizeMax.

Definition ibm_of (m : msg) : ib_message :=
  mk_ibm (match m_reqs m with [] => None | _ => Some (map ibq_of (m_reqs m)) end)
         (match m_rsps m with [] => None | _ => Some (map ibs_of (m_rsps m)) end)
         (match m_blks m with [] => None | _ => Some (map (fun b => (prefix_of_cid (fst b), snd b)) (m_blks m)) end).

Lemma bind_root_canon H m : wf_msg H m -> bind_root (canon (msg_node m)) = Some (ibm_of m).
Proof.
  intros (Hq & _ & Hs & _ & _ & _ & _).
  assert (Bq : map_opt bind_request (map canon (map req_node (m_reqs m))) = Some (map ibq_of (m_reqs m))).
  { rewrite map_map. apply map_opt_map. eapply Forall_impl; [|exact Hq]. intros r Hr. now apply bind_request_canon. }
  assert (Bs : map_opt bind_response (map canon (map rsp_node (m_rsps m))) = Some (map ibs_of (m_rsps m))).
  { rewrite map_map. apply map_opt_map. eapply Forall_impl; [|exact Hs]. intros r Hr. now apply bind_response_canon. }
  assert (Bb : map_opt bind_block (map canon (map blk_node (m_blks m)))
               = Some (map (fun b => (prefix_of_cid (fst b), snd b)) (m_blks m))).
  { rewrite map_map. apply map_opt_map. apply Forall_forall. intros b _. apply bind_block_canon. }
  unfold msg_node, ibm_of.
  destruct (nonempty_case (m_reqs m) (fun l => NList (map req_node l))) as [[E1 N1]|[E1 N1]]; rewrite N1; clear N1.
  all: destruct (nonempty_case (m_rsps m) (fun l => NList (map rsp_node l))) as [[E2 N2]|[E2 N2]]; rewrite N2; clear N2.
  all: destruct (nonempty_case (m_blks m) (fun l => NList (map blk_node l))) as [[E3 N3]|[E3 N3]]; rewrite N3; clear N3.
  all: cbn [opt_field app];
       rewrite canon_map_eq; cbn [kv_sort kv_insert map fst snd];
       rewrite canon_map_eq;
       unfold k_m_req, k_m_rsp, k_m_blk, k_root;
       cbn [kv_sort kv_insert key_ltb bytes_ltb List.length Nat.ltb Nat.leb N.ltb N.compare Pos.compare Pos.compare_cont fst snd map];
       cbn [canon]; unfold bind_root; cbn [fold_opt]; unfold root_assign;
       cbn -[canon map_opt bind_message req_node rsp_node blk_node ibq_of ibs_of];
       unfold bind_message; cbn [fold_opt]; unfold ibm_assign, is_key;
       cbn -[canon map_opt req_node rsp_node blk_node ibq_of ibs_of prefix_of_cid];
       rewrite ?Bq, ?Bs, ?Bb;
       cbn -[canon map_opt req_node rsp_node blk_node ibq_of ibs_of prefix_of_cid];
       rewrite ?Bq, ?Bs, ?Bb;
       cbn -[canon map_opt req_node rsp_node blk_node ibq_of ibs_of prefix_of_cid];
       rewrite ?E1, ?E2, ?E3; try reflexivity.
  all: try (destruct (m_reqs m); [congruence|]); try (destruct (m_rsps m); [congruence|]); try (destruct (m_blks m); [congruence|]); reflexivity.
Qed.

Lemma odef_match {A B} (l : list A) (f : list A -> list B) :
  f [] = [] -> odef [] (match l with [] => None | _ => Some (f l) end) = f l.
Proof. intro E. destruct l; [now rewrite E | reflexivity]. Qed.

Lemma from_ipld_canon H m : wf_msg H m -> from_ipld H (ibm_of m) = Some (canon_msg m).
Proof.
  intros (Hq & Nq & Hs & Ns & Hb & Nb & _).
  unfold from_ipld, ibm_of; cbn [im_reqs im_rsps im_blks].
  rewrite (odef_match (m_reqs m) (map ibq_of)) by reflexivity.
  rewrite (odef_match (m_rsps m) (map ibs_of)) by reflexivity.
  rewrite (odef_match (m_blks m) (map (fun b => (prefix_of_cid (fst b), snd b)))) by reflexivity.
  (* requests *)
  rewrite fold_opt_ext with (g := fun acc q =>
      match (fun q => match request_of_ib q with Some r => Some (rq_id r, r) | None => None end) q with
      | Some (k, v) => Some (put k v acc) | None => None end)
      by (intros a b; destruct (request_of_ib b); reflexivity).
  rewrite (fold_put_fresh _ (fun q => match request_of_ib q with Some r => (rq_id r, r) | None => ([], mk_req [] RNew 0 None None []) end)).
  2:{ apply Forall_forall. intros q Hin. apply in_map_iff in Hin as (r & <- & Hr).
      rewrite Forall_forall in Hq. now rewrite (request_of_ibq_of r (Hq r Hr)). }
  2:{ rewrite map_map. erewrite map_ext_in; [exact Nq|]. intros r Hr. rewrite Forall_forall in Hq.
      now rewrite (request_of_ibq_of r (Hq r Hr)). }
  2:{ intros a _ []. }
  (* responses *)
  rewrite fold_opt_ext with (g := fun acc q =>
      match (fun q => match response_of_ib q with Some r => Some (rs_id r, r) | None => None end) q with
      | Some (k, v) => Some (put k v acc) | None => None end)
      by (intros a b; destruct (response_of_ib b); reflexivity).
  rewrite (fold_put_fresh _ (fun q => match response_of_ib q with Some r => (rs_id r, r) | None => ([], mk_rsp [] 0 [] []) end)).
  2:{ apply Forall_forall. intros q Hin. apply in_map_iff in Hin as (r & <- & Hr).
      rewrite Forall_forall in Hs. now rewrite (response_of_ibs_of r (Hs r Hr)). }
  2:{ rewrite map_map. erewrite map_ext_in; [exact Ns|]. intros r Hr. rewrite Forall_forall in Hs.
      now rewrite (response_of_ibs_of r (Hs r Hr)). }
  2:{ intros a _ []. }
  (* blocks *)
  rewrite fold_opt_ext with (g := fun acc b =>
      match (fun b => match cid_sum H (fst b) (snd b) with Some c => Some (c, snd b) | None => None end) b with
      | Some (k, v) => Some (put k v acc) | None => None end)
      by (intros a b; destruct (cid_sum H (fst b) (snd b)); reflexivity).
  rewrite (fold_put_fresh _ (fun b => match cid_sum H (fst b) (snd b) with Some c => (c, snd b) | None => ([], []) end)).
  2:{ apply Forall_forall. intros q Hin. apply in_map_iff in Hin as (b & <- & Hbin).
      rewrite Forall_forall in Hb. cbn [fst snd]. now rewrite (Hb b Hbin). }
  2:{ rewrite map_map. erewrite map_ext_in; [exact Nb|]. intros b Hbin. rewrite Forall_forall in Hb.
      cbn [fst snd]. now rewrite (Hb b Hbin). }
  2:{ intros a _ []. }
  cbn [app]. f_equal. unfold canon_msg. f_equal.
  - rewrite !map_map. apply map_ext_in. intros r Hr. rewrite Forall_forall in Hq.
    now rewrite (request_of_ibq_of r (Hq r Hr)).
  - rewrite !map_map. apply map_ext_in. intros r Hr. rewrite Forall_forall in Hs.
    now rewrite (response_of_ibs_of r (Hs r Hr)).
  - rewrite map_map. rewrite <- (map_id (m_blks m)) at 2. apply map_ext_in. intros [c d] Hbin.
    rewrite Forall_forall in Hb. specialize (Hb _ Hbin). cbn [fst snd] in *. now rewrite Hb.
Qed.

Lemma to_frame_some H m : wf_msg H m -> to_frame m = Some (encode (msg_node m)).
Proof.
  intros (_ & _ & Hs & _). unfold to_frame.
  replace (forallb (fun r => status_defined (rs_status r)) (m_rsps m)) with true; [reflexivity|].
  symmetry. apply forallb_forall. intros r Hr. rewrite Forall_forall in Hs. exact (proj2 (Hs r Hr)).
Qed.

(* C11, one message: the real encoder's output, followed by anything, decodes to the canonical form of
   the message (equal up to map-entry order in selector/extension data, extension order, and an
   extension payload Null read back as "no payload"), and leaves exactly the rest of the stream *)
Theorem msg_roundtrip H m rest :
  wf_msg H m ->
  exists bs, to_net m = Some bs /\ from_net H (bs ++ rest) = NMsg (canon_msg m) rest.
Proof.
  intro Hwf. exists (frame_enc (encode (msg_node m))).
  unfold to_net. rewrite (to_frame_some H m Hwf). split; [reflexivity|].
  pose proof Hwf as (Hq & Nq & Hs & Ns & Hb & Nb & Wn & Dn & Cn & Sz).
  unfold from_net. rewrite frame_roundtrip; [|unfold blen; pose proof (encode_nonempty (msg_node m)); lia|exact Sz].
  unfold from_frame. rewrite (cbor_block_roundtrip _ Wn Dn Cn).
  rewrite (bind_root_canon H m Hwf). rewrite (from_ipld_canon H m Hwf). reflexivity.
Qed.

(* C11, a stream: messages written one after another are read back one by one, in order *)
Lemma read_all_fuel_irrel H : forall f g bs, (List.length bs < f)%nat -> (List.length bs < g)%nat ->
  read_all_fuel f H bs = read_all_fuel g H bs.
Proof.
  induction f as [|f IH]; intros g bs Hf Hg; [lia|]. destruct g as [|g]; [lia|].
  cbn [read_all_fuel]. destruct (from_net H bs) as [| | |m r] eqn:E; try reflexivity.
  apply from_net_shrinks in E. rewrite (IH g r) by lia. reflexivity.
Qed.

Lemma read_all_step H bs m rest : from_net H bs = NMsg m rest ->
  read_all H bs = match read_all H rest with Some ms => Some (m :: ms) | None => None end.
Proof.
  intro E. unfold read_all. cbn [read_all_fuel]. rewrite E.
  apply from_net_shrinks in E. rewrite (read_all_fuel_irrel H (List.length bs) (S (List.length rest)) rest) by lia.
  reflexivity.
Qed.

Theorem stream_roundtrip H ms :
  Forall (wf_msg H) ms ->
  exists bss, map to_net ms = map Some bss /\ read_all H (List.concat bss) = Some (map canon_msg ms).
Proof.
  induction 1 as [|m ms Hm _ (bss & E1 & E2)].
  - exists []. split; reflexivity.
  - destruct (msg_roundtrip H m (List.concat bss) Hm) as (bs & T & F).
    exists (bs :: bss). split; [cbn [map]; now rewrite T, E1|].
    cbn [List.concat map]. rewrite (read_all_step H _ _ _ F), E2. reflexivity.
Qed.

(* C11, the three typed extension payloads, through the byte layer *)
Lemma cidset_depth cs : fold_right (fun v acc => N.max (ndepth v) acc) 0 (map NLink cs) = 0.
Proof. induction cs as [|c cs IH]; [reflexivity|]. cbn [map fold_right ndepth]. rewrite IH. reflexivity. Qed.
Lemma cidset_dec cs : map_opt (fun x => match x with NLink c => Some c | _ => None end) (map canon (map NLink cs)) = Some cs.
Proof. induction cs as [|c cs IH]; [reflexivity|]. cbn [map map_opt canon]. now rewrite IH. Qed.

Theorem ext_cidset_roundtrip cs rest :
  wf_node (enc_cidset cs) -> cost (enc_cidset cs) <= Budget0 ->
  exists n bu, decode (encode (enc_cidset cs) ++ rest) = DOk (n, bu, rest) /\ dec_cidset n = Some cs.
Proof.
  intros Hw Hc. exists (canon (enc_cidset cs)), (Budget0 - cost (enc_cidset cs)). split.
  - apply cbor_roundtrip; try assumption. unfold enc_cidset. cbn [ndepth]. rewrite cidset_depth.
    unfold MaxDepth. lia.
  - unfold enc_cidset. cbn [canon dec_cidset]. apply cidset_dec.
Qed.

Theorem ext_firstblocks_roundtrip z rest :
  (-9223372036854775808 <= z <= 9223372036854775807)%Z ->
  exists bu, decode (encode (enc_firstblocks z) ++ rest) = DOk (enc_firstblocks z, bu, rest) /\
             dec_firstblocks (enc_firstblocks z) = Some z.
Proof.
  intro Hz. exists (Budget0 - 1). split.
  - apply (cbor_roundtrip (NInt z)); cbn [wf_node ndepth cost]; unfold MaxDepth, Budget0; lia.
  - unfold enc_firstblocks, dec_firstblocks. now replace (z <=? 9223372036854775807)%Z with true by lia.
Qed.

Theorem ext_dedupkey_roundtrip s rest :
  blen s <= MaxChunk -> blen s <= Budget0 ->
  exists bu, decode (encode (enc_dedupkey s) ++ rest) = DOk (enc_dedupkey s, bu, rest) /\
             dec_dedupkey (enc_dedupkey s) = Some s.
Proof.
  intros Hs Hb. exists (Budget0 - blen s). split; [|reflexivity].
  apply (cbor_roundtrip (NStr s)); cbn [wf_node ndepth cost]; try assumption. unfold MaxDepth; lia.
Qed.
