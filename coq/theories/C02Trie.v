(* C02Trie.v — the Verifier's replay over the traversal record (traversalrecord.go VerifyNext / nextLink /
   appendUntilLink, modelled as positions into the live record) characterised by a structural walk over the
   trie; the replay of a record's own links in verification order consumes exactly those links and ends done.
   Loader level only (no plans). *)
From Coq Require Import List NArith Bool Lia.
From GS Require Import Base Ltree RecLoader ReqExec RecLoaderProofs C02Online C02Chunks C02Prefix.
Import ListNotations.
Open Scope N_scope.
Local Arguments N.add : simpl never.

(* ---------- induction over the trie ---------- *)
Section TrecInd.
  Variable P : trec -> Prop.
  Hypothesis H : forall l s kids, Forall (fun sk => P (snd sk)) kids -> P (TRec l s kids).
  Fixpoint trec_ind2 (t : trec) : P t :=
    match t with
    | TRec l s kids =>
        H l s kids
          ((fix go (ks : list (seg * trec)) : Forall (fun sk => P (snd sk)) ks :=
              match ks with
              | [] => Forall_nil _
              | (sg, k) :: r => Forall_cons (sg, k) (trec_ind2 k) (go r)
              end) kids)
    end.
End TrecInd.

(* ---------- the replay as a machine over verifier positions (the loop of waitRemote) ---------- *)
Fixpoint vreplay (T : trec) (v : vstack) (u : path) (its : list item) : option (vstack * path * list item) :=
  match its with
  | [] => Some (v, u, [])
  | h :: t =>
      if vdone T v then Some (v, u, its)
      else match verify_next T v (i_link h) (did_follow (i_act h)) with
           | inl _ => None
           | inr v' => vreplay T v' (if did_follow (i_act h) then u else vpath T v) t
           end
  end.

Lemma vreplay_app T : forall a v u b,
  vreplay T v u (a ++ b) =
  match vreplay T v u a with
  | None => None
  | Some (v', u', []) => vreplay T v' u' b
  | Some (v', u', rem) => Some (v', u', rem ++ b)
  end.
Proof.
  induction a as [|h a IH]; intros v u b; [reflexivity|].
  cbn [app vreplay]. destruct (vdone T v) eqn:Ed; [reflexivity|].
  destruct (verify_next T v (i_link h) (did_follow (i_act h))) as [e|v']; [reflexivity|]. apply IH.
Qed.

(* ---------- the structural walk ---------- *)
Fixpoint tw (t : trec) (pth : path) (u : path) (its : list item) : option (path * list item) :=
  match t with
  | TRec lnk succ kids =>
      let walk_kids :=
        (fix go (ks : list (seg * trec)) (u : path) (its : list item) : option (path * list item) :=
           match ks with
           | [] => Some (u, its)
           | (s, k) :: r => match tw k (pth ++ [s]) u its with Some (u', its') => go r u' its' | None => None end
           end) in
      match lnk with
      | None => walk_kids kids u its
      | Some l =>
          match its with
          | [] => None
          | h :: r =>
              if N.eqb l (i_link h) && (succ || negb (did_follow (i_act h)))
              then if did_follow (i_act h) then walk_kids kids u r else Some (pth, r)
              else None
          end
      end
  end.
Fixpoint tw_kids (ks : list (seg * trec)) (pth : path) (u : path) (its : list item) : option (path * list item) :=
  match ks with
  | [] => Some (u, its)
  | (s, k) :: r => match tw k (pth ++ [s]) u its with Some (u', its') => tw_kids r pth u' its' | None => None end
  end.

Lemma tw_eq lnk succ kids pth u its :
  tw (TRec lnk succ kids) pth u its =
  match lnk with
  | None => tw_kids kids pth u its
  | Some l =>
      match its with
      | [] => None
      | h :: r =>
          if N.eqb l (i_link h) && (succ || negb (did_follow (i_act h)))
          then if did_follow (i_act h) then tw_kids kids pth u r else Some (pth, r)
          else None
      end
  end.
Proof.
  assert (E : forall ks u its,
    (fix go (ks : list (seg * trec)) (u : path) (its : list item) : option (path * list item) :=
       match ks with
       | [] => Some (u, its)
       | (s, k) :: r => match tw k (pth ++ [s]) u its with Some (u', its') => go r u' its' | None => None end
       end) ks u its = tw_kids ks pth u its).
  { induction ks as [|[s k] r IH]; intros u0 its0; [reflexivity|]. cbn [tw_kids].
    destruct (tw k (pth ++ [s]) u0 its0) as [[u' its']|]; [apply IH | reflexivity]. }
  cbn [tw]. destruct lnk as [l|]; [|apply E].
  destruct its as [|h r]; [reflexivity|]. rewrite E. reflexivity.
Qed.

Fixpoint tlist_kids (ks : list (seg * trec)) (pth : path) : list (path * cid) :=
  match ks with [] => [] | (s, k) :: r => tlist k (pth ++ [s]) ++ tlist_kids r pth end.
Lemma tlist_eq lnk succ kids pth :
  tlist (TRec lnk succ kids) pth = (match lnk with Some l => [(pth, l)] | None => [] end) ++ tlist_kids kids pth.
Proof.
  cbn [tlist]. f_equal. induction kids as [|[s k] r IH]; [reflexivity|]. cbn [tlist_kids]. now rewrite IH.
Qed.

(* every leaf has a link; recorded links are successful loads *)
Inductive tsw : trec -> Prop :=
| tsw_node l s kids : (l <> None \/ kids <> []) -> (l <> None -> s = true) ->
                      Forall (fun sk => tsw (snd sk)) kids -> tsw (TRec l s kids).

(* ---------- positions ---------- *)
Lemma node_at_app T idx j :
  node_at T (idx ++ [j]) =
  match node_at T idx with
  | Some t => match nth_error (t_kids t) j with Some (_, k) => Some k | None => None end
  | None => None
  end.
Proof.
  revert T. induction idx as [|i idx IH]; intro T; cbn [app node_at].
  - destruct (nth_error (t_kids T) j) as [[s k]|]; reflexivity.
  - destruct (nth_error (t_kids T) i) as [[s k]|]; [apply IH | reflexivity].
Qed.
Lemma segs_at_app T idx j t s k :
  node_at T idx = Some t -> nth_error (t_kids t) j = Some (s, k) -> segs_at T (idx ++ [j]) = segs_at T idx ++ [s].
Proof.
  revert T. induction idx as [|i idx IH]; intros T Hn Hk; cbn [app node_at segs_at] in *.
  - inversion Hn; subst. rewrite Hk. reflexivity.
  - destruct (nth_error (t_kids T) i) as [[s0 k0]|]; [|discriminate]. cbn [app]. f_equal. now apply IH.
Qed.

Lemma nth_error_skipn {A} (l : list A) j x r : skipn j l = x :: r -> nth_error l j = Some x /\ skipn (S j) l = r.
Proof.
  revert l. induction j as [|j IH]; intros l H.
  - cbn in H. subst l. split; reflexivity.
  - destruct l as [|y l]; [discriminate|]. cbn [skipn] in H. destruct (IH l H) as [HA HB]. split; [exact HA|].
    cbn [skipn]. destruct l; [destruct j; discriminate|]. exact HB.
Qed.
Lemma nth_error_skipn_nil {A} (l : list A) j : skipn j l = [] -> nth_error l j = None.
Proof.
  revert l. induction j as [|j IH]; intros l H; [cbn in H; now subst|].
  destruct l as [|y l]; [reflexivity|]. cbn [skipn] in H. cbn. now apply IH.
Qed.

Section Walk.
  Variable T : trec.

  Lemma vdone_tip idx t : node_at T idx = Some t -> t_lnk t <> None -> vdone T (VAt idx) = false.
  Proof.
    intros Hn Hl. destruct idx as [|i idx]; [|reflexivity]. cbn in Hn. inversion Hn; subst.
    cbn. destruct (t_lnk t); [reflexivity | congruence].
  Qed.

  (* the children from the j-th on *)
  Lemma kids_walk t idx pth :
    node_at T idx = Some t -> segs_at T idx = pth ->
    forall ks j u its u' r,
      skipn j (t_kids t) = ks ->
      Forall (fun sk : seg * trec =>
        forall idx pth u its u' r, node_at T idx = Some (snd sk) -> segs_at T idx = pth -> tsw (snd sk) ->
          tw (snd sk) pth u its = Some (u', r) ->
          vreplay T (VAt (idx ++ descend_from (snd sk))) u its = vreplay T (pop_rev T (rev idx)) u' r) ks ->
      Forall (fun sk => tsw (snd sk)) ks ->
      tw_kids ks pth u its = Some (u', r) ->
      match ks with
      | [] => True
      | (_, k) :: _ => vreplay T (VAt (idx ++ j :: descend_from k)) u its = vreplay T (pop_rev T (rev idx)) u' r
      end.
  Proof.
    intros Hn Hs. subst pth. induction ks as [|[s k] ks IH]; intros j u its u' r Hsk HF Hw Ht; [exact I|].
    destruct (nth_error_skipn _ _ _ _ Hsk) as [Hnth Hsk'].
    cbn [tw_kids] in Ht. destruct (tw k (segs_at T idx ++ [s]) u its) as [[u1 r1]|] eqn:Ek; [|discriminate].
    apply Forall_cons_iff in HF as [HF1 HF2]. apply Forall_cons_iff in Hw as [Hw1 Hw2]. cbn [snd] in HF1, Hw1.
    assert (Hn' : node_at T (idx ++ [j]) = Some k) by (rewrite node_at_app, Hn, Hnth; reflexivity).
    assert (Hs' : segs_at T (idx ++ [j]) = segs_at T idx ++ [s]) by (apply (segs_at_app T idx j t s k Hn Hnth)).
    specialize (HF1 (idx ++ [j]) (segs_at T idx ++ [s]) u its u1 r1 Hn' Hs' Hw1 Ek).
    rewrite <- app_assoc in HF1. cbn [app] in HF1. rewrite HF1.
    rewrite rev_app_distr. cbn [rev app pop_rev]. rewrite rev_involutive, Hn.
    destruct ks as [|[s2 k2] ks'].
    - cbn [tw_kids] in Ht. inversion Ht; subst. rewrite (nth_error_skipn_nil _ _ Hsk'). reflexivity.
    - destruct (nth_error_skipn _ _ _ _ Hsk') as [Hnth2 _]. rewrite Hnth2.
      apply (IH (S j) u1 r1 u' r Hsk' HF2 Hw2 Ht).
  Qed.

  (* replaying from the first link of a subtree consumes what the structural walk consumes and leaves the
     verifier where popping the subtree's frame leads *)
  Lemma sub_walk : forall t idx pth u its u' r,
    node_at T idx = Some t -> segs_at T idx = pth -> tsw t ->
    tw t pth u its = Some (u', r) ->
    vreplay T (VAt (idx ++ descend_from t)) u its = vreplay T (pop_rev T (rev idx)) u' r.
  Proof.
    induction t as [lnk succ kids IHk] using trec_ind2. intros idx pth u its u' r Hn Hs Hw Ht. subst pth.
    inversion Hw as [l0 s0 k0 Hne Hsucc Hwk]; subst. rewrite tw_eq in Ht.
    destruct lnk as [l|].
    - (* a link: one item is verified here *)
      destruct its as [|h r0]; [discriminate|].
      destruct (N.eqb l (i_link h) && (succ || negb (did_follow (i_act h)))) eqn:Ec; [|discriminate].
      apply andb_true_iff in Ec as [Ec1 Ec2]. apply N.eqb_eq in Ec1.
      assert (Hsu : succ = true) by (apply Hsucc; discriminate). subst succ.
      cbn [descend_from]. rewrite app_nil_r. cbn [vreplay].
      rewrite (vdone_tip idx _ Hn) by (cbn; discriminate).
      unfold verify_next. rewrite (vdone_tip idx _ Hn) by (cbn; discriminate). rewrite Hn. cbn [t_lnk t_succ].
      rewrite Ec1, N.eqb_refl. cbn [negb andb].
      unfold next_link. rewrite Hn. cbn [t_kids].
      destruct (did_follow (i_act h)) eqn:Ef.
      + destruct kids as [|[s1 k1] kids'].
        * cbn [tw_kids] in Ht. inversion Ht; subst. reflexivity.
        * apply (kids_walk _ idx _ Hn eq_refl ((s1, k1) :: kids') 0%nat u r0 u' r eq_refl IHk Hwk Ht).
      + inversion Ht; subst.
        assert (Ev : vpath T (VAt idx) = segs_at T idx).
        { unfold vpath. now rewrite (vdone_tip idx _ Hn) by (cbn; discriminate). }
        rewrite Ev. destruct kids as [|[s1 k1] kids']; reflexivity.
    - (* an inline node: pass through to the first child *)
      destruct kids as [|[s1 k1] kids']; [destruct Hne as [Hne|Hne]; congruence|].
      cbn [descend_from].
      apply (kids_walk _ idx _ Hn eq_refl ((s1, k1) :: kids') 0%nat u its u' r eq_refl IHk Hwk Ht).
  Qed.
End Walk.

(* ---------- the walk over the record's own links ---------- *)
Section Own.
  Variable R : store.
  Definition pres (c : cid) : bool := match aget c R with Some _ => true | None => false end.
  (* the stream entry of a link as the verifier sees it *)
  Definition ent (n : path * cid) : item :=
    {| i_link := snd n; i_act := if pres (snd n) then Present else Missing; i_blk := None |}.
  Definition ulast (u : path) (l : list (path * cid)) : path :=
    fold_left (fun u n => if pres (snd n) then u else fst n) l u.
  Lemma ulast_app u a b : ulast u (a ++ b) = ulast (ulast u a) b.
  Proof. unfold ulast. apply fold_left_app. Qed.

  (* a link the responder lacks has nothing below it in the record *)
  Inductive mleaf : trec -> Prop :=
  | mleaf_node l s kids : (forall c, l = Some c -> pres c = false -> kids = []) ->
                          Forall (fun sk => mleaf (snd sk)) kids -> mleaf (TRec l s kids).

  Lemma tw_own : forall t pth u rest, tsw t -> mleaf t ->
    tw t pth u (map ent (tlist t pth) ++ rest) = Some (ulast u (tlist t pth), rest).
  Proof.
    induction t as [lnk succ kids IHk] using trec_ind2. intros pth u rest Hw Hm.
    inversion Hw as [l0 s0 k0 Hne Hsucc Hwk]; subst. inversion Hm as [l1 s1 k1 Hleaf Hmk]; subst.
    assert (K : forall ks u rest, Forall (fun sk : seg * trec => forall pth u rest, tsw (snd sk) -> mleaf (snd sk) ->
                   tw (snd sk) pth u (map ent (tlist (snd sk) pth) ++ rest) = Some (ulast u (tlist (snd sk) pth), rest)) ks ->
                 Forall (fun sk => tsw (snd sk)) ks -> Forall (fun sk => mleaf (snd sk)) ks ->
                 tw_kids ks pth u (map ent (tlist_kids ks pth) ++ rest) = Some (ulast u (tlist_kids ks pth), rest)).
    { induction ks as [|[s k] ks IH]; intros u0 rest0 HF HW HM; [reflexivity|].
      inversion HF; subst. inversion HW; subst. inversion HM; subst. cbn [snd] in *.
      cbn [tlist_kids tw_kids]. rewrite map_app, <- app_assoc.
      match goal with Hk : forall pth u rest, tsw k -> _ |- _ => rewrite (Hk (pth ++ [s]) u0 _) by assumption end.
      rewrite ulast_app. now apply IH. }
    rewrite tlist_eq, tw_eq. destruct lnk as [l|].
    - cbn [app map ent snd fst i_link i_act].
      rewrite N.eqb_refl, (Hsucc ltac:(discriminate)). cbn [orb andb].
      destruct (pres l) eqn:Ep; cbn [did_follow].
      + rewrite (K kids u rest IHk Hwk Hmk). unfold ulast at 2. cbn [fold_left snd fst]. rewrite Ep. reflexivity.
      + rewrite (Hleaf l eq_refl Ep). cbn [tlist_kids map app]. unfold ulast. cbn [fold_left snd fst]. now rewrite Ep.
    - cbn [app]. apply (K kids u rest IHk Hwk Hmk).
  Qed.
End Own.

(* ---------- RecordNextStep keeps the record well formed ---------- *)
Lemma tsw_kids_nonempty f sg kids : upd_kids f sg kids <> [].
Proof. induction kids as [|[s k] r IH]; cbn; [discriminate|]. destruct (N.eqb s sg); discriminate. Qed.

Lemma record_step_tsw : forall p c t, (tsw t \/ t = trec_empty) -> tsw (record_step p c true t).
Proof.
  induction p as [|sg p IH]; intros c t Ht.
  - cbn [record_step]. constructor; [left; discriminate | reflexivity |].
    destruct Ht as [Ht | ->]; [inversion Ht; subst; assumption | constructor].
  - cbn [record_step]. constructor.
    + right. apply tsw_kids_nonempty.
    + destruct Ht as [Ht | ->]; [inversion Ht; subst; cbn; assumption | cbn; congruence].
    + assert (HF : Forall (fun sk : seg * trec => tsw (snd sk)) (t_kids t)).
      { destruct Ht as [Ht | ->]; [inversion Ht; subst; assumption | constructor]. }
      clear Ht. induction (t_kids t) as [|[s k] r IHr]; cbn [upd_kids].
      * constructor; [|constructor]. cbn [snd]. apply IH. now right.
      * inversion HF; subst. destruct (N.eqb s sg).
        -- constructor; [|assumption]. cbn [snd] in *. apply IH. now left.
        -- constructor; [assumption|]. now apply IHr.
Qed.

Lemma trie_of_snoc ns n : trie_of (ns ++ [n]) = record_step (fst n) (snd n) true (trie_of ns).
Proof. unfold trie_of. now rewrite fold_left_app. Qed.

Lemma trie_of_tsw ns : ns <> [] -> tsw (trie_of ns).
Proof.
  induction ns as [|n ns IH] using rev_ind; [congruence|]. intros _.
  rewrite trie_of_snoc. apply record_step_tsw. destruct ns as [|m ns]; [now right | left; apply IH; discriminate].
Qed.

Lemma record_step_root_link p c t : t_lnk t <> None -> t_lnk (record_step p c true t) <> None.
Proof. destruct p; cbn; [discriminate | auto]. Qed.
Lemma trie_of_root_link c ns : t_lnk (trie_of (([] : path, c) :: ns)) <> None.
Proof.
  induction ns as [|n ns IH] using rev_ind; [cbn; discriminate|].
  rewrite app_comm_cons, trie_of_snoc. now apply record_step_root_link.
Qed.

(* ---------- waitRemote's loop is the replay machine ---------- *)
Lemma wait_loop_replay : forall its q r v v' u' rem,
  r_verifier r = Some v -> q_items q = its -> q_detached q = false ->
  vreplay (r_record r) v (r_unfollowed r) its = Some (v', u', rem) ->
  exists r', wait_loop its q r =
             (r', match rem with [] => if r_open r then WBlocked else WOffline | _ => WHasData end) /\
    r_open r' = r_open r /\ q_items (r_q r') = rem /\ q_detached (r_q r') = false /\
    r_record r' = r_record r /\ r_last r' = r_last r /\ r_unfollowed r' = u' /\
    r_verifier r' = (match rem with [] => Some v' | _ => None end).
Proof.
  induction its as [|h t IH]; intros q r v v' u' rem Hv Hq Hd Hr.
  - cbn in Hr. inversion Hr; subst. cbn [wait_loop]. eexists. split; [reflexivity|]. cbn. auto 10.
  - cbn [vreplay] in Hr. cbn [wait_loop]. rewrite Hv.
    destruct (vdone (r_record r) v) eqn:Ed.
    + inversion Hr; subst. eexists. split; [reflexivity|]. cbn. auto 10.
    + unfold rq_consume. rewrite Hq.
      destruct (verify_next (r_record r) v (i_link h) (did_follow (i_act h))) as [e|v1] eqn:Ev; [discriminate|].
      set (q1 := {| q_items := t; q_lc := LcLinked (strip h); q_detached := match t with [] => false | _ :: _ => q_detached q end |}).
      set (r1 := record_remote (set_verifier r (Some v1)) (vpath (r_record r) v) (i_act h)).
      assert (P1 : r_verifier r1 = Some v1 /\ r_record r1 = r_record r /\ r_open r1 = r_open r /\ r_last r1 = r_last r /\
                   r_unfollowed r1 = (if did_follow (i_act h) then r_unfollowed r else vpath (r_record r) v)).
      { unfold r1, record_remote. destruct (did_follow (i_act h)); cbn; auto. }
      destruct P1 as (A1 & A2 & A3 & A4 & A5).
      assert (Hd1 : q_detached q1 = false) by (unfold q1; cbn; destruct t; auto).
      rewrite <- A5 in Hr. rewrite <- A2 in Hr.
      destruct (IH q1 r1 v1 v' u' rem A1 eq_refl Hd1 Hr) as (r' & E & B1 & B2 & B3 & B4 & B5 & B6 & B7).
      exists r'. rewrite A3 in E. split; [exact E|]. rewrite B1, B4, B5. auto 10.
Qed.

Lemma set_q_same r : set_q r (r_q r) = r.
Proof. destruct r; reflexivity. Qed.

(* the loader after the loop; a second pass changes nothing, so BlockReadOpener continues from there *)
Lemma wait_remote_replay r v v' u' rem :
  r_verifier r = Some v -> q_detached (r_q r) = false ->
  vreplay (r_record r) v (r_unfollowed r) (q_items (r_q r)) = Some (v', u', rem) ->
  exists r', wait_remote r = wait_remote r' /\
    r_open r' = r_open r /\ q_items (r_q r') = rem /\ q_detached (r_q r') = false /\
    r_record r' = r_record r /\ r_last r' = r_last r /\ r_unfollowed r' = u' /\
    r_verifier r' = (match rem with [] => Some v' | _ => None end).
Proof.
  intros Hv Hd Hr. unfold wait_remote at 1.
  destruct (wait_loop_replay _ (r_q r) r v v' u' rem Hv eq_refl Hd Hr) as (r' & E & B1 & B2 & B3 & B4 & B5 & B6 & B7).
  exists r'. split; [|auto 10]. rewrite E. unfold wait_remote. rewrite B2.
  destruct rem as [|h t]; cbn [wait_loop].
  - now rewrite set_q_same, B1.
  - now rewrite B7, set_q_same.
Qed.

Section Bro.
  Variable below : path -> path -> bool.
  Lemma bro_try_replay r st p c v v' u' rem :
    r_verifier r = Some v -> q_detached (r_q r) = false ->
    vreplay (r_record r) v (r_unfollowed r) (q_items (r_q r)) = Some (v', u', rem) ->
    exists r', bro_try below r st p c = bro_try below r' st p c /\
      r_open r' = r_open r /\ q_items (r_q r') = rem /\ q_detached (r_q r') = false /\
      r_record r' = r_record r /\ r_last r' = r_last r /\ r_unfollowed r' = u' /\
      r_verifier r' = (match rem with [] => Some v' | _ => None end).
  Proof.
    intros Hv Hd Hr. destruct (wait_remote_replay r v v' u' rem Hv Hd Hr) as (r' & E & B).
    exists r'. split; [|exact B]. unfold bro_try, bro_inner. now rewrite E.
  Qed.
End Bro.

(* ---------- the record's links in verification order; replaying them ---------- *)
Lemma prefix_app_l a b q : prefix (a ++ b) q = true -> prefix a q = true.
Proof.
  revert q. induction a as [|x a IH]; intros q H; [reflexivity|].
  destruct q as [|y q]; cbn in *; [discriminate|]. apply andb_true_iff in H as [H1 H2]. rewrite H1. cbn. now apply IH.
Qed.
Lemma prefix_snoc_proper a s q : prefix (a ++ [s]) q = true -> proper_prefix a q = true.
Proof.
  revert q. induction a as [|x a IH]; intros q H; destruct q as [|y q]; cbn in *; try discriminate; [reflexivity|].
  apply andb_true_iff in H as [H1 H2]. rewrite H1. cbn. now apply IH.
Qed.

Lemma tlist_kids_in ks pth s k x : In (s, k) ks -> In x (tlist k (pth ++ [s])) -> In x (tlist_kids ks pth).
Proof.
  induction ks as [|[s0 k0] r IH]; intros Hin Hx; [contradiction|]. cbn [tlist_kids]. apply in_app_iff.
  destruct Hin as [E|Hin]; [inversion E; subst; now left | right; now apply IH].
Qed.

Lemma tlist_nonempty : forall t pth, tsw t -> tlist t pth <> [].
Proof.
  induction t as [lnk succ kids IHk] using trec_ind2. intros pth Hw. inversion Hw as [l0 s0 k0 Hne Hsucc Hwk]; subst.
  rewrite tlist_eq. destruct lnk as [l|]; [discriminate|]. cbn [app].
  destruct kids as [|[s k] r]; [destruct Hne; congruence|]. cbn [tlist_kids].
  apply Forall_cons_iff in IHk as [IH1 _]. apply Forall_cons_iff in Hwk as [Hw1 _]. cbn [snd] in *.
  intro E. apply app_eq_nil in E as [E _]. now apply (IH1 (pth ++ [s]) Hw1).
Qed.

Lemma tlist_prefix : forall t pth q c, In (q, c) (tlist t pth) -> prefix pth q = true.
Proof.
  induction t as [lnk succ kids IHk] using trec_ind2. intros pth q c Hin. rewrite tlist_eq in Hin.
  apply in_app_iff in Hin as [Hin|Hin].
  - destruct lnk; [|contradiction]. destruct Hin as [E|[]]. inversion E; subst. apply prefix_refl.
  - induction kids as [|[s k] r IHr]; [contradiction|]. cbn [tlist_kids] in Hin.
    apply Forall_cons_iff in IHk as [IH1 IH2]. cbn [snd] in IH1.
    apply in_app_iff in Hin as [Hin|Hin]; [|now apply IHr].
    apply (prefix_app_l pth [s]). now apply (IH1 _ _ c).
Qed.

Section OwnList.
  Variable R : store.
  Lemma mleaf_of_list : forall t pth, tsw t ->
    (forall q c, In (q, c) (tlist t pth) -> pres R c = false ->
       forall q' c', In (q', c') (tlist t pth) -> proper_prefix q q' = false) ->
    mleaf R t.
  Proof.
    induction t as [lnk succ kids IHk] using trec_ind2. intros pth Hw Hl.
    inversion Hw as [l0 s0 k0 Hne Hsucc Hwk]; subst. constructor.
    - intros c -> Hp. destruct kids as [|[s k] r]; [reflexivity|]. exfalso.
      apply Forall_cons_iff in Hwk as [Hw1 _]. cbn [snd] in Hw1.
      pose proof (tlist_nonempty k (pth ++ [s]) Hw1) as Hn.
      destruct (tlist k (pth ++ [s])) as [|[q' c'] rest] eqn:Ek; [congruence|].
      assert (Hin' : In (q', c') (tlist (TRec (Some c) succ ((s, k) :: r)) pth)).
      { rewrite tlist_eq. apply in_app_iff. right. cbn [tlist_kids]. apply in_app_iff. left. rewrite Ek. now left. }
      assert (Hin : In (pth, c) (tlist (TRec (Some c) succ ((s, k) :: r)) pth)).
      { rewrite tlist_eq. apply in_app_iff. left. now left. }
      pose proof (Hl pth c Hin Hp q' c' Hin') as Hf.
      assert (Hpp : prefix (pth ++ [s]) q' = true).
      { apply (tlist_prefix k (pth ++ [s]) q' c'). rewrite Ek. now left. }
      apply prefix_snoc_proper in Hpp. congruence.
    - rewrite Forall_forall in IHk, Hwk |- *. intros [s k] Hin. cbn [snd].
      apply (IHk (s, k) Hin (pth ++ [s])); [apply (Hwk (s, k) Hin)|].
      intros q c Hq Hp q' c' Hq'. apply (Hl q c) with (c' := c'); [|exact Hp|].
      + rewrite tlist_eq. apply in_app_iff. right. now apply (tlist_kids_in kids pth s k).
      + rewrite tlist_eq. apply in_app_iff. right. now apply (tlist_kids_in kids pth s k).
  Qed.

  Lemma vreplay_vempty T u r : vreplay T VEmpty u r = Some (VEmpty, u, r).
  Proof. destruct r; reflexivity. Qed.

  (* links recorded by successful loads, verified against the responder's entries for exactly these links in
     the record's own order: all consumed, verification done, the path tracker at the last link the
     responder lacks *)
  Theorem replay_own ns :
    ns <> [] -> tlist (trie_of ns) [] = ns ->
    (forall q c, In (q, c) ns -> pres R c = false -> forall q' c', In (q', c') ns -> proper_prefix q q' = false) ->
    forall u rest,
      vreplay (trie_of ns) (new_verifier (trie_of ns)) u (map (ent R) ns ++ rest) = Some (VEmpty, ulast R u ns, rest).
  Proof.
    intros Hne Hl Hm u rest. pose proof (trie_of_tsw ns Hne) as Hw.
    assert (Hml : mleaf R (trie_of ns)) by (apply (mleaf_of_list _ [] Hw); rewrite Hl; exact Hm).
    pose proof (tw_own R (trie_of ns) [] u rest Hw Hml) as Ht. rewrite Hl in Ht.
    unfold new_verifier.
    pose proof (sub_walk (trie_of ns) (trie_of ns) [] [] u _ _ _ eq_refl eq_refl Hw Ht) as Hs.
    cbn [app rev pop_rev] in Hs. rewrite Hs. apply vreplay_vempty.
  Qed.
End OwnList.
