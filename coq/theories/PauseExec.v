(* PauseExec.v — C06, requestor side: pausing a request from its block hook and resuming it, over the
   requestor model of ReqExec.v.  executor.processResult turns a pause into ErrPaused after the block;
   ExecuteTask then sends a cancel, sets the loader offline and the request is parked; Unpause queues a
   new task whose traverse() starts with requestSent = false on the SAME traverser and loader (stale queue
   items, record, lastConsumed and path tracker survive).  No proofs here. *)
From Coq Require Import List NArith Bool.
From GS Require Export Base Ltree RecLoader ReqExec.
Import ListNotations.
Open Scope N_scope.

(* a pause after the k-th successfully loaded block; of the messages of the cancelled response that the
   requestor has not processed yet, the first [inflight] still arrive (the responder stops at the cancel) *)
Record pause := { pa_block : N; pa_inflight : nat }.

Record pstate := { p_x : xstate; p_pauses : list pause }.

Definition pause_resume (inflight : nat) (x : xstate) : xstate :=
  {| x_rl := set_online false (x_rl x); x_store := x_store x;
     x_sent := false;                                   (* the resumed traverse() has sent nothing yet *)
     x_nblocks := x_nblocks x; x_cancelled := x_cancelled x; x_errs := x_errs x;
     x_feed := firstn inflight (x_feed x); x_sched := x_sched x; x_log := x_log x |}.

Section PExec.
  Variable below : path -> path -> bool.
  Variable responder : N -> list msg.
  Variable dnsfb : N.
  (* [before_send_only]: restrict pauses to those taken while nothing has been sent yet (the guard of
     C06_pause_before_send_partial); the general runs use [false] *)
  Variable before_send_only : bool.

  Definition pexec_ask (ps : pstate) (p : path) (c : cid) : pstate * ans :=
    let '(x', a) := exec_ask below responder dnsfb (p_x ps) p c in
    match a with
    | AOk =>
        match find (fun pa => N.eqb (pa_block pa) (x_nblocks x')) (p_pauses ps) with
        | Some pa =>
            if before_send_only && x_sent x' then ({| p_x := x'; p_pauses := p_pauses ps |}, a)
            else ({| p_x := pause_resume (pa_inflight pa) x'; p_pauses := p_pauses ps |}, a)
        | None => ({| p_x := x'; p_pauses := p_pauses ps |}, a)
        end
    | _ => ({| p_x := x'; p_pauses := p_pauses ps |}, a)
    end.

  Definition run_paused (t : ltree) (L : store) (sched : list nat) (pauses : list pause) : pstate * list ev * bool :=
    run_tree pexec_ask t {| p_x := x_init L [] sched; p_pauses := pauses |}.
End PExec.

Definition paused_outcome (t : ltree) (L R : store) (sizes sched : list nat) (pauses : list pause) : outcome :=
  let r := run_paused proper_prefix (honest t R sizes) 0 false t L sched pauses in
  let x := p_x (fst (fst r)) in
  let o := outcome_of (x, snd (fst r), snd r) in
  {| o_visits := o_visits o; o_missing := o_missing o; o_other_errs := o_other_errs o + final_errs x (snd r);
     o_store := o_store o; o_complete := true |}.

(* correspondence case: the real pair, pause from the requestor's block hook at block k, resume after the
   in-flight messages of the cancelled response were drained (safe) or at once *)
Record pcase := {
  pc_plan : ltree; pc_L : list cid; pc_R : list cid;
  pc_block : N;            (* 0 = no pause *)
  pc_safe : bool;
  pc_obs : outcome
}.
Definition pc_pauses (c : pcase) : list pause :=
  if N.eqb (pc_block c) 0 then [] else [{| pa_block := pc_block c; pa_inflight := 0 |}].
(* the property: the paused and resumed request ends as the reference says (= as the unpaused one does) *)
Definition pcase_mon (c : pcase) : bool :=
  outcome_eqb (pc_obs c) (ref_outcome (pc_plan c) (store_of (pc_L c)) (store_of (pc_R c))).
(* model against implementation; how much of the response had reached the loader's queue when the pause
   took effect is not observable: both extremes are evaluated (everything delivered at once / on demand) *)
Definition pcase_ok (c : pcase) : bool :=
  let L := store_of (pc_L c) in let R := store_of (pc_R c) in
  wf_plan (pc_plan c) &&
  (negb (pc_safe c) ||
   outcome_eqb (pc_obs c) (paused_outcome (pc_plan c) L R [] [] (pc_pauses c)) ||
   outcome_eqb (pc_obs c) (paused_outcome (pc_plan c) L R [] (repeat 1000%nat 64) (pc_pauses c)) ||
   outcome_eqb (pc_obs c) (paused_outcome (pc_plan c) L R (repeat 1%nat 200) [] (pc_pauses c))).

(* a loader script as in ReqExec.lrun, with the SetRemoteOnline to use as a parameter *)
Section ScriptWith.
  Variable so : bool -> rl -> rl.
  Definition ingest_with (md : list (cid * action)) (blocks : list (cid * block)) (r : rl) : rl := ingest md blocks r.
  Fixpoint lrun_with (ops : list lop) (r : rl) (st : store) (pend : option (path * cid)) : list lobs :=
    match ops with
    | [] => let '(_, _, _, o) := finish proper_prefix (so false r) st pend in o
    | op :: rest =>
        let '(r1, st1, pend1, o1) :=
          match op, pend with
          | LOnline b, _ => finish proper_prefix (so b r) st pend
          | LIngest md blks, _ => finish proper_prefix (ingest md (store_of blks) r) st pend
          | LLoad p c, None => finish proper_prefix (bro_start r) st (Some (p, c))
          | LRetry, None =>
              let '(r0, o) := retry_prepare r in
              match o with
              | None => (r0, st, None, [(RErr (EVerify 3) false, keyset st)])
              | Some pc => finish proper_prefix (bro_start r0) st (Some pc)
              end
          | _, Some _ => (r, st, pend, [])
          end in
        o1 ++ lrun_with rest r1 st1 pend1
    end.
End ScriptWith.

(* Responder side (C06): the real responder pauses a response from its outgoing-block hook at block k and is
   unpaused after the requestor saw the RequestPaused status; the wire output is compared with the honest
   responder stream of ReqExec.v (resp_items: one metadata entry per link of the responder's own traversal,
   the block with its first entry) — i.e. with the output of the unpaused response. *)
Record rpcase := {
  rp_plan : ltree; rp_R : list cid;
  rp_block : N;                          (* 0 = no pause *)
  rp_md : list (cid * action);           (* metadata of the request over all messages, in order *)
  rp_blocks : list cid;                  (* blocks over all messages, in order of first appearance *)
  rp_paused_seen : bool;                 (* a message carried the RequestPaused status *)
  rp_block_while_paused : bool;          (* a message received after that one and before Unpause was called carried a block *)
  rp_unpause_ok : bool;                  (* Unpause succeeded (the response really was parked), or there was nothing to unpause *)
  rp_final_ok : bool                     (* the last status was the completion status expected for (plan, R) *)
}.
Definition md_eqb (a b : cid * action) : bool := N.eqb (fst a) (fst b) && action_eqb (snd a) (snd b).
Definition rpcase_mon (c : rpcase) : bool :=
  let its := resp_items (rp_plan c) (store_of (rp_R c)) 0 in
  list_eqb md_eqb (rp_md c) (map (fun it => (i_link it, i_act it)) its) &&
  (* (the blocks of one message are a map: compared as a set, each block once) *)
  nodupb (rp_blocks c) &&
  list_eqb N.eqb (fold_right insert_sorted [] (rp_blocks c))
                 (fold_right insert_sorted [] (flat_map (fun it => match i_blk it with Some b => [b] | None => [] end) its)) &&
  negb (rp_block_while_paused c) && rp_unpause_ok c && rp_final_ok c &&
  (N.eqb (rp_block c) 0 || rp_paused_seen c || (N.of_nat (length (rp_blocks c)) <? rp_block c)).
Definition rpcase_ok (c : rpcase) : bool := wf_plan (rp_plan c).

(* C01 with a requestor-side pause: the real requestor is paused after its first block (the root, fetched from
   the scripted peer's first message); while it is parked the peer sends responses for the request carrying
   Present links with valid blocks (blocks outside the DAG, DAG blocks the selector does not reach, blocks of
   links not reached yet); then the request is resumed (or cancelled).  In the model everything that arrives
   while the loader is offline is dropped (RecLoader.ingest), so those messages do not appear in it at all. *)
Record apcase := {
  ap_plan : ltree; ap_L : list cid;
  ap_first : list msg;              (* answer to the first request (skip 0): the root *)
  ap_paused : list msg;             (* sent while the request was paused *)
  ap_resumed : bool;                (* Unpause was called afterwards (else the request was cancelled) *)
  ap_second : list msg;             (* answer to the request sent after the resume *)
  ap_visits : list N; ap_errs : list N;
  ap_writes_paused : list (cid * block);   (* commits observed when the paused phase was over *)
  ap_writes : list (cid * block);          (* all commits, in order *)
  ap_store : list N
}.
Definition ap_mon (c : apcase) : bool :=
  let ok_write := fun w : cid * block => N.eqb (fst w) (snd w) && existsb (N.eqb (fst w)) (plan_cids (ap_plan c)) in
  forallb ok_write (ap_writes_paused c) && forallb ok_write (ap_writes c) &&
  forallb (fun k => existsb (N.eqb k) (ap_L c) || existsb (N.eqb k) (plan_cids (ap_plan c))) (ap_store c) &&
  subseq (ap_visits c) (plan_visits (ap_plan c)) &&
  (* nothing is committed while the request is parked: what is there afterwards was there before *)
  Nat.leb (length (ap_writes_paused c)) 1.
Definition ap_ok (c : apcase) : bool :=
  let resp := fun s => if N.eqb s 0 then ap_first c else ap_second c in
  let r := run_paused proper_prefix resp 0 false (ap_plan c) (store_of (ap_L c)) [] [{| pa_block := 1; pa_inflight := 0 |}] in
  let x := p_x (fst (fst r)) in
  let may_cancel := existsb (fun m => existsb (fun rp => for_us m rp && match rs_status rp with StFail => true | _ => false end) (m_resps m)) (ap_second c) in
  wf_plan (ap_plan c) &&
  if ap_resumed c && negb (x_cancelled x || may_cancel)
  then list_eqb N.eqb (ap_visits c) (visits_of (snd (fst r))) &&
       list_eqb wr_eqb (ap_writes c) (writes_of (x_log x)) &&
       list_eqb N.eqb (ap_store c) (keyset (x_store x))
  else (is_prefix (ap_visits c) (visits_of (snd (fst r))) || is_prefix (visits_of (snd (fst r))) (ap_visits c)) &&
       (* the commits are a prefix of the model's *)
       list_eqb wr_eqb (ap_writes c) (firstn (length (ap_writes c)) (writes_of (x_log x))).
